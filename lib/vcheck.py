"""Orchestrator behind bin/check.  See DESIGN.md §2.1."""
import json, os, re, subprocess, sys, time, hashlib, shutil, glob

VERIF = os.path.dirname(os.path.dirname(os.path.abspath(__file__)))
REPO = os.environ.get('VERIF_REPO', '/repo')
WORK = os.path.join(VERIF, 'work')
LEAN = os.path.join(VERIF, 'lean')
HARNESS = os.path.join(VERIF, 'harness')
ALLOWED_AXIOMS = {'propext', 'Classical.choice', 'Quot.sound'}
FORBIDDEN = re.compile(r'\bsorry\b|\badmit\b|^axiom |native_decide|bv_decide|implemented_by|\bunsafe |maxHeartbeats 0')

TRUSTED_BASE = [
    "Lean 4.33 kernel; axioms propext, Classical.choice, Quot.sound only (audited per theorem on every run)",
    "the hand-written Lean model of mpath (lean/Mp/*.lean) - tied to /repo by the correspondence run and by facts regenerated from the source (lean/Mp/Generated)",
    "the Go harness (harness/*.go): generators, canonicalisation and oracles; the fact extractor (go/ast)",
    "modelled, not verified: text/scanner buffering, strconv.ParseFloat/shortest formatting (re-implemented and diffed), math/big, shopspring/decimal (modelled from source), Go regexp, unicode tables, encoding/json, yaml, toml, xml2json, cuelang (assumed lookup table), sync.Pool/Mutex, reflect, the Go memory model",
]


def log(*a):
    print(*a, file=sys.stderr, flush=True)


def go_env():
    e = dict(os.environ)
    e.update(GOFLAGS='-mod=mod', GOPROXY='off', GOSUMDB='off', GOTOOLCHAIN='local', CGO_ENABLED=e.get('CGO_ENABLED', '1'))
    e['MPV_REPO'] = REPO  # the generators read the new constants of this source tree (harness/consts.go)
    return e


def sh(cmd, cwd=None, env=None, timeout=3600, stdin=None, stdout=None):
    t0 = time.time()
    p = subprocess.run(cmd, cwd=cwd, env=env, timeout=timeout, stdin=stdin, stdout=stdout if stdout else subprocess.PIPE,
                       stderr=subprocess.STDOUT if not stdout else subprocess.PIPE, text=not stdout)
    return p.returncode, (p.stdout if not stdout else (p.stderr.decode('utf8', 'replace') if p.stderr else '')), time.time() - t0


# ---------------------------------------------------------------- building

def build_harness(race=False, outdir=None):
    """build the Go harness against REPO's working tree into outdir (per check, so concurrent checks do not share a binary)"""
    outdir = outdir or WORK
    os.makedirs(outdir, exist_ok=True)
    mod = open(os.path.join(HARNESS, 'go.mod')).read().replace('=> /repo', '=> ' + REPO)
    altmod = os.path.join(outdir, 'go.alt.mod')
    open(altmod, 'w').write(mod)
    shutil.copy(os.path.join(REPO, 'go.sum'), os.path.join(outdir, 'go.alt.sum'))
    out = os.path.join(outdir, 'mpv-race' if race else 'mpv')
    if os.path.exists(out):
        os.remove(out)  # never run a stale binary
    cmd = ['go', 'build', '-tags', 'verif', '-modfile', altmod, '-o', out]
    if race:
        cmd.insert(2, '-race')
    cmd.append('.')
    rc, o, dt = sh(cmd, cwd=HARNESS, env=go_env(), timeout=900)
    return rc == 0, o, out


def lake_build(targets):
    rc, o, dt = sh(['lake', 'build'] + targets, cwd=LEAN, timeout=3000)
    return rc == 0, o


def parse_axioms(build_log):
    """'X' depends on axioms: [a, b]  /  'X' does not depend on any axioms"""
    res = {}
    for m in re.finditer(r"'([^']+)' depends on axioms: \[([^\]]*)\]", build_log):
        res[m.group(1)] = [a.strip() for a in m.group(2).replace('\n', ' ').split(',') if a.strip()]
    for m in re.finditer(r"'([^']+)' does not depend on any axioms", build_log):
        res[m.group(1)] = []
    return res


def grep_forbidden():
    hits = []
    for f in glob.glob(os.path.join(LEAN, '**', '*.lean'), recursive=True):
        if '/.lake/' in f:
            continue
        in_block = 0
        for i, line in enumerate(open(f, encoding='utf8'), 1):
            s = line
            # strip comments (block comments tracked coarsely, line comments exactly)
            if in_block:
                if '-/' in s:
                    in_block = 0
                    s = s.split('-/', 1)[1]
                else:
                    continue
            if '/-' in s:
                pre, rest = s.split('/-', 1)
                if '-/' in rest:
                    s = pre + rest.split('-/', 1)[1]
                else:
                    in_block = 1
                    s = pre
            s = s.split('--', 1)[0]
            if FORBIDDEN.search(s):
                hits.append('%s:%d: %s' % (os.path.relpath(f, VERIF), i, line.strip()))
    return hits


# ---------------------------------------------------------------- known findings

def load_known():
    p = os.path.join(VERIF, 'known-findings.json')
    if not os.path.exists(p):
        return []
    return json.load(open(p)).get('findings', [])


def is_known(prop, v, known):
    """a known finding is identified by property + violation key + (when given) the exact query text and data hash:
    a different input that violates the same property is NOT covered by the entry."""
    for k in known:
        if k.get('property') != prop or k.get('status', 'open') != 'open':
            continue
        if 'key' in k and k['key'] != v.get('key'):
            continue
        if 'key_regex' in k and not re.search(k['key_regex'], v.get('key', '')):
            continue
        if 'query' in k and k['query'] != v.get('query'):
            continue
        if 'data' in k and k['data'] != v.get('data'):
            continue
        if 'key' not in k and 'key_regex' not in k and 'query' not in k:
            continue
        return k
    return None


# ---------------------------------------------------------------- model run + comparison

def run_model(mode, cases_path, out_path, jobs=None):
    """run the Lean driver on the case file; the file is split so that all cores are used"""
    drv = os.path.join(LEAN, '.lake', 'build', 'bin', 'drv')
    jobs = jobs or min(16, os.cpu_count() or 4)
    with open(cases_path, 'rb') as f:
        lines = f.readlines()
    n = len(lines)
    if n < 2000:
        jobs = 1
    # interleave-free contiguous chunks keep the output order
    size = (n + jobs - 1) // jobs if n else 1
    procs = []
    for j in range(jobs):
        chunk = lines[j * size:(j + 1) * size]
        if not chunk and j > 0:
            continue
        cin = '%s.part%d' % (cases_path, j)
        cout = '%s.part%d' % (out_path, j)
        with open(cin, 'wb') as f:
            f.writelines(chunk)
        fin = open(cin, 'rb')
        fout = open(cout, 'wb')
        procs.append((subprocess.Popen([drv, mode], stdin=fin, stdout=fout, stderr=subprocess.PIPE), fin, fout, cin, cout))
    ok = True
    errs = ''
    with open(out_path, 'wb') as out:
        for p, fin, fout, cin, cout in procs:
            try:
                _, e = p.communicate(timeout=3000)
            except subprocess.TimeoutExpired:
                p.kill()
                e = b'timeout'
                ok = False
            fin.close()
            fout.close()
            if p.returncode != 0:
                ok = False
                errs += e.decode('utf8', 'replace')
            with open(cout, 'rb') as f:
                shutil.copyfileobj(f, out)
            os.remove(cin)
            os.remove(cout)
    return ok, errs


def compare_streams(cases_path, impl_path, model_path, limit=200):
    """returns (compared, unmodelled, mismatches[list of dict])"""
    compared = unmod = 0
    mism = []
    nmism = 0
    with open(cases_path) as fc, open(impl_path) as fi, open(model_path) as fm:
        for ln, (c, i, m) in enumerate(zip(fc, fi, fm), 1):
            i = i.rstrip('\n')
            m = m.rstrip('\n')
            if m == 'UNMODELLED' or m.startswith('BADJSON'):
                unmod += 1
                continue
            compared += 1
            if i != m:
                # cases outside the property's domain are logged, not enforced
                dom = (not c.startswith('{')) or '"dom":true' in c
                nmism += 1
                if len(mism) < limit:
                    case = json.loads(c) if c.startswith('{') else {'q': c.strip()}
                    mism.append({'line': ln, 'case': case, 'impl': i[:600], 'model': m[:600], 'in_domain': dom})
    return compared, unmod, mism, nmism


def case_example(m):
    c = m['case']
    if 'q' in c:
        return {'query': bytes.fromhex(c['q']).decode('utf8', 'replace'), 'query_hex': c['q'], 'data': c.get('d'), 'impl': m['impl'], 'model': m['model']}
    return {'case': {k: c[k] for k in c if k != 's'}, 'schema_tree': c.get('s'), 'impl': m['impl'], 'model': m['model']}


def group_violations(viol):
    groups = {}
    for v in viol:
        g = groups.setdefault(v['key'], {'first': v, 'count': 0})
        g['count'] = max(g['count'] + 1, v.get('occurrences_in_run', 0))
        # keep the shortest query as representative
        if len(v.get('query', '')) < len(g['first'].get('query', '')):
            g['first'] = v
    return groups


def write_replay(prop, name, payload):
    d = os.path.join(VERIF, 'replays')
    os.makedirs(d, exist_ok=True)
    p = os.path.join(d, '%s-%s.json' % (prop, name))
    json.dump(payload, open(p, 'w'), indent=1, sort_keys=True)
    return p


# ---------------------------------------------------------------- the check

def main(argv):
    from props import PROPS
    replay = None
    if len(argv) >= 3 and argv[1] == '--replay':
        return replay_cmd(argv[0], argv[2])
    if len(argv) < 1:
        log('usage: check <id> [quick|thorough]')
        return 2
    prop = argv[0]
    tier = argv[1] if len(argv) > 1 else os.environ.get('VERIF_TIER', 'quick')
    seed = int(os.environ.get('VERIF_SEED', '1'))
    cfg = PROPS[prop]
    t0 = time.time()
    wdir = os.path.join(WORK, prop)
    shutil.rmtree(wdir, ignore_errors=True)
    os.makedirs(wdir, exist_ok=True)
    known = load_known()

    broken = []          # proof obligations / ties that no longer check
    notes = []
    violations = []      # concrete failing inputs (dicts with key)
    cov = {}

    # 1. harness (also provides the extractor)
    ok, out, mpv = build_harness(outdir=wdir)
    if not ok:
        log(out)
        broken.append({'what': 'harness does not build against %s' % REPO, 'log': out[-2000:]})
        return finish(prop, tier, seed, cfg, t0, cov, violations, broken, notes, known)

    # 2. regenerate facts from the current source (tie (a))
    gen_ok, gen_log = regenerate_facts(mpv)
    if not gen_ok:
        broken.append({'what': 'fact extraction from %s failed (tie (a))' % REPO, 'log': gen_log[-2000:]})

    # 3. proof obligations
    # the fact modules are targets of their own: a fact that no longer checks is named precisely and does not hide the state of
    # the theorems about the model
    targets = ['Mp.Props.' + prop, 'Mp.FactChecks', 'Mp.FactChecks2', 'Mp.InterfaceChecks', 'drv']
    okb, blog = lake_build(targets)
    open(os.path.join(wdir, 'lake.log'), 'w').write(blog)
    axioms = parse_axioms(blog)
    theorems = cfg.get('theorems', [])
    discharged = 0
    for th in theorems:
        ax = axioms.get(th)
        if ax is None:
            b = {'what': 'theorem %s no longer checks (not reported by the axiom audit)' % th}
            if th.startswith('Mp.InterfaceChecks.'):
                b['interface_drift'] = interface_diff(th.split('.')[-1])
            broken.append(b)
        elif not set(ax) <= ALLOWED_AXIOMS:
            b = {'what': 'theorem %s depends on axioms outside the allowed set: %s' % (th, ax)}
            if 'sorryAx' in ax:
                b['what'] = 'theorem %s no longer checks (its statement is rejected by Lean)' % th
            if th.startswith('Mp.InterfaceChecks.'):
                b['interface_drift'] = interface_diff(th.split('.')[-1])
            broken.append(b)
        else:
            discharged += 1
    if not okb:
        m = re.findall(r'error: ([^\n]*)', blog)
        broken.append({'what': 'lake build of %s failed' % targets, 'errors': m[:10]})
    hits = grep_forbidden()
    if hits:
        broken.append({'what': 'forbidden constructs in Lean sources', 'hits': hits[:10]})
    if tier == 'thorough' and okb:
        rc, o, dt = sh(['lake', 'env', 'leanchecker', 'Mp.Props.' + prop], cwd=LEAN, timeout=3000)
        cov['leanchecker'] = {'rc': rc, 'seconds': round(dt, 1), 'tail': o[-300:]}
        if rc != 0:
            broken.append({'what': 'leanchecker rejected Mp.Props.%s' % prop, 'log': o[-1000:]})
    cov.update(obligations=len(theorems), discharged=discharged,
               checker_cmd='cd lean && lake build Mp.Props.%s  (+ `lake env leanchecker Mp.Props.%s` in the thorough tier); axioms audited with #print axioms' % (prop, prop),
               trusted_base=TRUSTED_BASE + cfg.get('trusted_extra', []), theorems=theorems)

    # the constants that are new in this source tree (empty on the tree the model was validated against): the generators size
    # their inputs around them; recorded so that a run says what it was steered by
    try:
        pn = subprocess.run([mpv, 'novel'], env=go_env(), stdout=subprocess.PIPE, stderr=subprocess.PIPE, text=True, timeout=120)
        nv = json.loads(pn.stdout or '{}')
        cov['new_source_constants'] = {'integers': nv.get('Ints') or [], 'strings': nv.get('Strs') or []}
    except Exception as e:  # never fatal
        notes.append('new-constants scan failed: %s' % e)

    # 4. correspondence + oracles
    runner = cfg.get('runner')
    if runner:
        try:
            runner(prop, cfg, tier, seed, wdir, mpv, cov, violations, broken, notes)
        except subprocess.TimeoutExpired as e:
            broken.append({'what': 'run timed out: %s' % e})
    # 5. a proof obligation or the correspondence broke and the oracles of the run found nothing: the property's own
    #    search for a failing input (when it has one) runs before the violation is reported without a replay
    if broken and not violations and cfg.get('search'):
        try:
            cfg['search'](prop, tier, wdir, mpv, violations, notes)
        except Exception as e:  # the search is best effort
            notes.append('failing-input search failed: %s' % e)
    # ... and for every property: the generators run again with two other seeds (only in this situation, so an unchanged tree never
    # pays for it); what they find is reported with its replay, what they do not find leaves the report as it is
    if broken and not violations and runner:
        for extra in (1, 2):
            try:
                runner(prop, cfg, tier, seed + 7919 * extra, wdir, mpv, {}, violations, [], notes)
                notes.append('search after a broken obligation: generators re-run with seed %d: %d violation(s)' % (seed + 7919 * extra, len(violations)))
            except Exception as e:  # best effort
                notes.append('search re-run failed: %s' % e)
            if violations:
                break
    return finish(prop, tier, seed, cfg, t0, cov, violations, broken, notes, known)


def cache_collision_search(prop, tier, wdir, mpv, violations, notes):
    """C16: two texts the caches take for one another (a key shorter than the text: a hash, a prefix, a length)"""
    out = os.path.join(wdir, 'collide')
    nq, ns = (250000, 20000) if tier == 'quick' else (600000, 40000)
    p = subprocess.run([mpv, 'collide', out, str(nq), str(ns)], stdout=subprocess.PIPE, stderr=subprocess.PIPE, text=True, timeout=1800,
                       env=dict(go_env(), GOMEMLIMIT='6GiB'))
    rep = os.path.join(out, 'collide.json')
    if not os.path.exists(rep):
        notes.append('cache collision search did not finish (rc=%s)' % p.returncode)
        return
    r = json.load(open(rep))
    notes.append('cache collision search: %d query texts and %d schema texts in one process, %d confused' % (r['queries'], r['schemas'], len(r.get('hits') or [])))
    for h in (r.get('hits') or [])[:2]:
        violations.append({'kind': 'history', 'key': 'cache-confusion:' + h['Kind'], 'query': h['Text'] if h['Kind'] == 'query' else 'query ' + h['Text'],
                           'why': 'after %d other texts were validated in this process, this %s text gets the answer that belongs to another text' % (h['Index'], h['Kind']),
                           'expected': h['Want'][:400], 'got': h['Got'][:400], 'extra': {'schema': h['Schema'], 'history': r['history'], 'index': h['Index'],
                                                                                             'replay': 'mpv collide <dir> %d %d' % (r['queries'], r['schemas'])}})


def regenerate_facts(mpv):
    gdir = os.path.join(LEAN, 'Mp', 'Generated')
    os.makedirs(gdir, exist_ok=True)
    rc, o, dt = sh([mpv, 'extract', REPO, gdir], env=go_env(), timeout=600)
    return rc == 0, o


def interface_diff(thm):
    """what the regenerated interface fact has that the pinned one has not, and the other way round"""
    try:
        pinned = open(os.path.join(LEAN, 'Mp', 'InterfaceChecks.lean')).read()
        gen = open(os.path.join(LEAN, 'Mp', 'Generated', 'Interface.lean')).read()
        m = re.search(r'^theorem %s : (\w+) = (.*?) := rfl$' % re.escape(thm), pinned, re.S | re.M)
        if not m:
            return {'error': 'theorem not found in InterfaceChecks.lean'}
        name, want = m.group(1), m.group(2)
        g = re.search(r'^def %s : [^\n]*? := (.*?)(?=^/--|^def |^end )' % re.escape(name), gen, re.S | re.M)
        if not g:
            return {'fact': name, 'error': 'fact not generated'}
        have = g.group(1).strip()
        item = r'\("[^"]*", \[[^\]]*\]\)|"(?:[^"\\]|\\.)*"'
        ws, hs = re.findall(item, want) or [want], re.findall(item, have) or [have]
        ws, hs = [x if isinstance(x, str) else x for x in ws], [x if isinstance(x, str) else x for x in hs]
        wa, ha = set(re.findall(r'\("[^"]*", \[[^\]]*\]\)|"[^"]*"', want)), set(re.findall(r'\("[^"]*", \[[^\]]*\]\)|"[^"]*"', have))
        return {'fact': name, 'new_in_source': sorted(ha - wa)[:40], 'gone_from_source': sorted(wa - ha)[:40]}
    except Exception as e:
        return {'error': str(e)}


def finish(prop, tier, seed, cfg, t0, cov, violations, broken, notes, known):
    new_lines = []
    known_lines = []
    fresh = []
    for v in violations:
        kf = is_known(prop, v, known)
        if kf:
            l = 'KNOWN-FINDING: property=%s %s' % (prop, kf.get('what', v.get('key')))
            if l not in known_lines:
                known_lines.append(l)
        else:
            fresh.append(v)
    groups = group_violations(fresh)
    for key, g in sorted(groups.items()):
        v = g['first']
        path = write_replay(prop, hashlib.sha1(key.encode()).hexdigest()[:10], {'property': prop, 'violation': v, 'occurrences': g['count'],
                            'how_to_replay': 'bin/check %s --replay <this file>' % prop})
        new_lines.append('VIOLATION property=%s replay=%s' % (prop, path))
    if not new_lines and broken:
        path = write_replay(prop, 'unproved', {'property': prop, 'no_longer_checks': broken,
                            'note': 'a proof obligation or the model/implementation correspondence no longer checks and the search found no input on which the property itself fails'})
        new_lines.append('VIOLATION property=%s replay=%s no-failing-input-found' % (prop, path))
    cov.setdefault('evaluations', 0)
    cov.setdefault('distinct_nontrivial', 0)
    cov['broken'] = broken
    cov['notes'] = notes
    cov['known_findings_seen'] = len(known_lines)
    ev = {
        'property_id': prop, 'tier': tier, 'seed': seed, 'level': cfg.get('level', 'proof'),
        'coverage': cov, 'assumptions': cfg.get('assumptions', []), 'wall_s': round(time.time() - t0, 2),
        'violations': len(new_lines),
    }
    os.makedirs(os.path.join(VERIF, 'evidence'), exist_ok=True)
    json.dump(ev, open(os.path.join(VERIF, 'evidence', prop + '.json'), 'w'), indent=1)
    for l in known_lines:
        print(l)
    for l in new_lines[:40]:
        print(l)
    if len(new_lines) > 40:
        print('(%d further violation groups not listed; see replays/)' % (len(new_lines) - 40))
    sys.stdout.flush()
    return 1 if new_lines else 0


def replay_cmd(prop, path):
    r = json.load(open(path))
    v = r.get('violation')
    if not v or 'query_hex' not in v:
        print(json.dumps(r, indent=1))
        return 0
    ok, out, mpv = build_harness()
    line = json.dumps({'q': v['query_hex'], 'd': v.get('data')})
    p = subprocess.run([mpv, 'one'], input=line.encode(), stdout=subprocess.PIPE, env=go_env())
    print('query:', v.get('query'))
    print('expected:', v.get('expected'))
    print('implementation now:', p.stdout.decode() or '(process died, rc=%d)' % p.returncode)
    return 0


# ---------------------------------------------------------------- runners

def parse_runner(prop, cfg, tier, seed, wdir, mpv, cov, violations, broken, notes):
    return eval_runner(prop, cfg, tier, seed, wdir, mpv, cov, violations, broken, notes, cmd='parse', mode='parse')


def cue_runner(prop, cfg, tier, seed, wdir, mpv, cov, violations, broken, notes):
    return eval_runner(prop, cfg, tier, seed, wdir, mpv, cov, violations, broken, notes, cmd='cue', mode='cue')


def race_runner(prop, cfg, tier, seed, wdir, mpv, cov, violations, broken, notes):
    """C12: the harness built with -race; a detector report ends the process with exit status 66."""
    ok, out, mpvr = build_harness(race=True, outdir=wdir)
    if not ok:
        broken.append({'what': 'harness does not build with -race against %s' % REPO, 'log': out[-1500:]})
        return
    d = os.path.join(wdir, 'run')
    env = go_env()
    env['GORACE'] = 'halt_on_error=1 exitcode=66'
    t1 = time.time()
    seeds = [seed] if tier == 'quick' else [seed, seed + 1000, seed + 2000]
    total_calls = 0
    hist = {}
    samples = []
    kinds = {}
    for sd in seeds:
        p = subprocess.run([mpvr, 'race', d, str(sd), tier], env=env, stdout=subprocess.PIPE, stderr=subprocess.PIPE, timeout=3000)
        err = p.stderr.decode('utf8', 'replace')
        if p.returncode == 66 or 'WARNING: DATA RACE' in err:
            m = re.search(r'WARNING: DATA RACE.*?(?=\n==================|\Z)', err, re.S)
            rep = (m.group(0) if m else err)[:3000]
            locs = re.findall(r'\s+(\S+\.go:\d+)', rep)
            key = 'race:' + ','.join(sorted(set(l.split('/')[-1] for l in locs if '/repo/' in l or 'mpath' in l))[:4])
            violations.append({'kind': 'race', 'key': key, 'why': 'the Go race detector reported a data race while parse / evaluate / validate calls ran concurrently',
                               'seed': sd, 'detector_report': rep, 'how': 'go build -race harness; mpv race <dir> %d %s with GORACE=halt_on_error=1' % (sd, tier)})
            continue
        if p.returncode != 0:
            violations.append({'kind': 'crash', 'key': 'crash:race-run', 'why': 'the concurrent run ended with exit status %d' % p.returncode, 'seed': sd, 'stderr': err[-2000:]})
            continue
        rep = json.load(open(os.path.join(d, 'race-report.json')))
        total_calls += rep['calls']
        for k, v in rep['class_histogram'].items():
            hist[k] = hist.get(k, 0) + v
        kinds = rep['item_kinds']
        for m in (rep.get('mismatches') or [])[:20]:
            violations.append({'kind': 'relational', 'key': 'concurrent-result:' + m['Kind'], 'why': 'a call returned something else under concurrency than when run alone',
                               'query': m['Q'], 'query_hex': m['Q'].encode().hex(), 'expected': m['Want'], 'got': m['Got'], 'seed': sd})
        samples.append({'seed': sd, 'calls': rep['calls'], 'items': rep['items'], 'rounds': rep['rounds'], 'race_detector': rep['race_detector']})
    cov['seconds_impl'] = round(time.time() - t1, 1)
    cov.update(evaluations=total_calls, distinct_nontrivial=len(hist), distinct=len(hist), in_domain=total_calls,
               rule='concurrent calls (parse / Do on a shared operation and shared data / CueValidate with repeated and distinct cache keys) issued by 2, 3, 4, 8, 16 and 32 goroutines with random yields, under the Go race detector (halt on first report); every result compared with the answer of the same call run alone; distinct = goroutine-count configurations exercised',
               samples=samples, exhaustive=False, class_histogram=hist, outcome_histogram={}, extra={'item_kinds': kinds})


def ana_runner(prop, cfg, tier, seed, wdir, mpv, cov, violations, broken, notes):
    return eval_runner(prop, cfg, tier, seed, wdir, mpv, cov, violations, broken, notes, cmd='ana', mode='ana')


def eval_runner(prop, cfg, tier, seed, wdir, mpv, cov, violations, broken, notes, cmd='eval', mode='eval'):
    """generic runner: Go generator + implementation, Lean model on the same lines."""
    d = os.path.join(wdir, 'run')
    env = go_env()
    env['MPV_CORPUS_DIR'] = os.path.join(VERIF, 'corpus')
    t1 = time.time()
    p = subprocess.run([mpv, cmd, prop, d, str(seed), tier], env=env, stdout=subprocess.PIPE, stderr=subprocess.PIPE, timeout=6000)
    cov['seconds_impl'] = round(time.time() - t1, 1)
    rep_path = os.path.join(d, 'report.json')
    if p.returncode != 0 or not os.path.exists(rep_path):
        cur = os.path.join(d, 'current.json')
        case = json.load(open(cur)) if os.path.exists(cur) and os.path.getsize(cur) else None
        violations.append({'kind': 'crash', 'key': 'crash:harness', 'why': 'the implementation killed the harness process (rc=%s) while running this case' % p.returncode,
                           'case': case, 'query_hex': case.get('q') if case else None, 'data': case.get('d') if case else None,
                           'query': bytes.fromhex(case['q']).decode('utf8', 'replace') if case else None})
        return
    rep = json.load(open(rep_path))
    counts = rep.get('violation_counts') or {}
    for v in (rep['violations'] or []):
        v['occurrences_in_run'] = counts.get(v['key'], 1)
        violations.append(v)
    cov.update(evaluations=rep['evaluations'], distinct_nontrivial=rep['distinct_nontrivial'], distinct=rep['distinct'],
               in_domain=rep['in_domain'], rule=rep['rule'], samples=(rep['samples'] or [])[:8], exhaustive=rep['exhaustive'],
               class_histogram=rep['class_histogram'], outcome_histogram=rep['outcome_histogram'], extra=rep.get('extra', {}))
    # model on the same lines
    t1 = time.time()
    okm, err = run_model(mode, os.path.join(d, 'cases.jsonl'), os.path.join(d, 'model.txt'))
    cov['seconds_model'] = round(time.time() - t1, 1)
    if not okm:
        broken.append({'what': 'Lean driver failed on the case file', 'log': err[-1000:]})
        return
    compared, unmod, mism, nmism = compare_streams(os.path.join(d, 'cases.jsonl'), os.path.join(d, 'impl.txt'), os.path.join(d, 'model.txt'))
    cov.update(traces_validated_against_impl=compared, model_declined=unmod, model_impl_disagreements=nmism)
    indom = [m for m in mism if m['in_domain']]
    if indom:
        broken.append({'what': 'correspondence: the Lean model and the implementation disagree on %d in-domain case(s) (of %d disagreements)' % (len(indom), nmism),
                       'examples': [case_example(m) for m in indom[:5]]})
        if cfg.get('model_is_spec'):
            # the property fixes the answer on in-domain inputs and the theorems say the model gives it: an input on which the
            # implementation answers otherwise is a concrete failing input, reported with its replay (one per query shape)
            seen = set()
            for m in indom:
                ex = case_example(m)
                q = ex.get('query') or json.dumps(ex.get('case'))[:120]
                shape = re.sub(r'[0-9]+', '0', re.sub(r'"[^"]*"', '""', q))[:80]
                if shape in seen:
                    continue
                seen.add(shape)
                violations.append({'kind': 'model-disagreement', 'key': 'disagreement:' + shape, 'query': q, 'query_hex': ex.get('query_hex'), 'data': ex.get('data'),
                                   'expected': ex.get('model'), 'got': ex.get('impl'), 'extra': {k: v for k, v in ex.items() if k in ('case', 'schema_tree')},
                                   'why': 'on this input, which is inside what the property quantifies over, the implementation answers differently from the model, and the model is proved to answer as the property demands (the theorems listed in the evidence file)'})
                if len(seen) >= 6:
                    break
    elif mism:
        notes.append({'what': 'model/implementation differences outside the property domain (logged, not enforced)', 'count': nmism,
                      'examples': [case_example(m) for m in mism[:3]]})
    if not os.environ.get('VERIF_KEEP'):
        for f in ('cases.jsonl', 'model.txt', 'impl.txt'):
            try:
                os.remove(os.path.join(d, f))
            except OSError:
                pass
