#!/usr/bin/env python3
"""Regenerate MANIFEST.json from lib/props.py (claimed checks) and lib/na.py-free defaults. Run: python3 lib/mkmanifest.py"""
import json, os, sys
sys.path.insert(0, os.path.dirname(os.path.abspath(__file__)))
from props import PROPS, NOT_APPLICABLE, HOOK_COMMITS
VERIF = os.path.dirname(os.path.dirname(os.path.abspath(__file__)))
ids = [json.loads(l)['id'] for l in open(os.path.join(VERIF, 'properties.jsonl'))]
checks = []
for pid in ids:
    if pid not in PROPS or not PROPS[pid].get('claimed', True):
        continue
    c = PROPS[pid]
    checks.append({
        'property_id': pid,
        'quick_cmd': 'bin/check %s quick' % pid,
        'thorough_cmd': 'bin/check %s thorough' % pid,
        'evidence_file': '/verif/evidence/%s.json' % pid,
        'replay_cmd_template': 'bin/check %s --replay {path}' % pid,
        'engine': 'lean4-model+go-correspondence',
        'level_claimed': {'category': 'proof', 'text': c['text'], 'design_ref': 'DESIGN.md ' + c.get('design', '§6')},
        'level_note': c['note'] + ' Trusted base: Lean 4.33 kernel (axioms propext, Classical.choice, Quot.sound only, audited on every run; no sorry/native_decide/bv_decide), the hand-written Lean model, the Go harness (generators, canonicalisation, oracles), the go/ast fact extractor.',
        'technique': c.get('technique', 'Lean 4 theorems over a hand-written executable model of the Go code + differential correspondence (Go harness vs compiled Lean driver on the same generated inputs) + facts regenerated from the source'),
    })
na = [{'property_id': pid, 'reason': NOT_APPLICABLE.get(pid, 'check not built yet in this round: the model and prototype theorems exist (DESIGN.md §9) but no generator/oracle is registered for this property; it is not claimed until its check runs clean on the repaired tree')}
      for pid in ids if pid not in [c['property_id'] for c in checks]]
m = {
    'version': 1,
    'setup_cmd': 'bin/setup',
    'hooks': {'guard': 'verif', 'enable': 'go build -tags verif', 'baseline_off_cmd': 'cd /repo && GOFLAGS=-mod=mod GOPROXY=off go test -vet=off -count=1 ./...', 'source_commits': HOOK_COMMITS, 'add_only': True},
    'engines': [{'name': 'lean4-model+go-correspondence', 'path': '/verif/lean, /verif/harness, /verif/lib/vcheck.py', 'serves_properties': [c['property_id'] for c in checks],
                 'kind_free_text': 'Lean 4.33 project (model Mp/*.lean core-only, proofs with selected Mathlib modules, compiled driver drv) + Go harness mpv (replace github.com/machship/mpath => /repo, build tag verif) + python orchestrator'}],
    'checks': checks,
    'not_applicable': na,
    'notes': 'see DESIGN.md; known-findings.json lists open and fixed findings; seeded/ holds confirmed property-breaking changes used to test the checks',
}
json.dump(m, open(os.path.join(VERIF, 'MANIFEST.json'), 'w'), indent=1)
print('checks:', [c['property_id'] for c in checks], 'not_applicable:', [n['property_id'] for n in na])
