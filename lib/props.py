"""Per-property configuration: which theorems are the obligations, which runner ties the model to the code."""
from vcheck import eval_runner, parse_runner, ana_runner, cue_runner

PROPS = {
    'C20': dict(level='proof', theorems=['Mp.ni_path_full'], runner=ana_runner, design='§6/C20',
                text='Lean theorem ni_path_full: for every elaborated query whose `$` paths begin with a key, two root documents that answer alike on the listed root keys give equal results (mutual structural induction over the evaluator model, any query size); the model of both analyses and of the evaluator is tied to /repo by a correspondence run on generated queries, and the relational oracles (interference under single-field perturbations, cover/exactness/no-dup/independence of AddressedPaths) are evaluated on the real functions.',
                note='theorem is about the Lean evaluator model and the rfPath read-set function; the link from the Go AST walk to rfPath is by correspondence (model of GetRootFieldsAccessed/AddressedPaths diffed with the real ones), not by proof; slice independence is observed, the model has value semantics.'),
    'C10': dict(level='proof', theorems=['Mp.sim_normalize', 'Mp.func_carrier_independent', 'Mp.L2.path_carrier_independent'], runner=eval_runner, design='§6/C10',
                text='Lean theorems: carriers that differ in integer kind/width, named types, one pointer, typed vs untyped slice, array vs slice normalise to the same value (sim_normalize) so every modelled function returns the same outcome on them (func_carrier_independent); a key-only path of any length gives the same logical answer on maps and on structs (path_carrier_independent). Partial: the lift to whole queries and to decoders is covered by the relational oracle only (one document in 13 carriers + JSON/YAML/TOML text, results compared by logical content) and by model/implementation correspondence on every rendering.',
                note='PARTIAL proof: fragment theorems + correspondence; decoders (encoding/json, yaml.v2, go-toml) are opaque; reflect semantics as modelled by GoVal/RV.'),
    'C11': dict(level='proof', theorems=['PermP.findKey_perm', 'Mp.findMapKey_order_independent'], runner=eval_runner, design='§6/C11',
                text='Lean theorems: the key lookup returns the same entry for every permutation of a map\'s entries (findKey_perm over any strict total order; findMapKey_order_independent for the concrete model lookup with bytewise order and EqualFold), so map iteration order cannot influence a result; the model evaluator is a pure function (no state, no writes). Immutability of the operation and of caller data on the real code is checked by the history oracle: each operation evaluated repeatedly, interleaved, on deep copies, with deep snapshots of data and of Sprint/JSON of the operation before and after.',
                note='purity of the Go code itself (no heap model) rests on the snapshots and on model/implementation correspondence; documents include case-colliding sibling keys.'),
    'C13': dict(level='proof', theorems=['Mp.fvp_snoc', 'Mp.validate_walk'], runner=cue_runner, design='§6/C13',
                text='Lean theorem validate_walk: the validator\'s identifier loop, which re-resolves the whole key path from the schema root at every key and carries the previous type along, computes the plain recursive walk of the schema type tree (reject into a primitive / across a list / undeclared key; otherwise the kind of the field) for key paths of any length over any schema tree. The model of findValueAtPath / kind mapping is tied to the real CueValidate (real cuelang) by a correspondence run on thousands of generated schemas per run, and an independent Go specification of accept-iff-declared-with-kind is the oracle on the implementation.',
                note='CUE lookup semantics for the generated schema subset are assumed (table in DESIGN.md §6/C13) and exercised on every run; hidden+?/!, re-cased keys and lists of lists are unspecified by the property and excluded from the oracle (still compared with the model).',
                assumptions=['cuelang.org/go v0.8.1 selector behaviour for the generated schema subset (DESIGN.md §6/C13 table)']),
    'C15': dict(level='proof', theorems=['Deps.closure_sound', 'Deps.closure_complete', 'Deps.closure_exact'], runner=cue_runner, design='§6/C15',
                text='Lean theorems about the worklist closure that getBlockedRootFields computes: it is a total function on every graph - cyclic, self-referential or dangling - (termination by a measure on unvisited declared names), everything it returns is reachable (closure_sound), everything reachable is returned (closure_complete), hence the allowed set is exactly the reflexive-transitive closure of the current step\'s dependencies (closure_exact). Tied to /repo by regenerated facts (the loop uses a visited set and no goto; the base-path list) and by a correspondence run over all dependency graphs on 3 steps (quick) / 4 steps (thorough: 2^16) x current step x target plus random graphs up to 12 steps, with the blocked field read at the head, in a filter, in an argument and in a nested group, and the offered root fields compared.',
                note='the theorem is about the abstract worklist closure (Mp.Deps); the Go loop is tied to it by the extracted facts and the exhaustive small-graph correspondence, not by a translation proof; CUE evaluation of the _dependencies lists is assumed.',
                assumptions=['cuelang evaluates `_dependencies: [\"a\", ...]` to the listed strings']),
    'C18': dict(level='proof', theorems=['Mp.isInfix_iff', 'Mp.contains_true_iff', 'Mp.prefix_true_iff', 'Mp.suffix_true_iff', 'Mp.notContains_neg', 'Mp.notPrefix_negOut', 'Mp.notSuffix_neg',
                                         'Mp.left_take', 'Mp.right_drop', 'Mp.trimLeft_drop', 'Mp.trimRight_take', 'Mp.stringPart_negative', 'Mp.stringPart_fractional'],
                runner=eval_runner, design='§6/C18',
                text='Lean theorems over the evaluator model: Contains / Prefix / Suffix on a string receiver are true exactly when the receiver decomposes as a++p++b / p++b / a++p (for byte strings of any length); NotContains / NotPrefix / NotSuffix are the exact negations on every receiver and argument list and fail exactly when the plain form fails; Left / Right / TrimLeft / TrimRight with a whole count below 2^31 are take / drop clamped at the length, and a negative or fractional count is an error. ReplaceAll and the regex functions are decided by correspondence with Go\'s strings / regexp computed independently by the harness (RE2 is not re-proved: delegation only). Tied to /repo by the exhaustive product over strings of length ≤5 over {a,b,c} x needles ≤3 x n in 0..7 and random ASCII / non-ASCII strings, diffed with the model.',
                note='regex half PARTIAL (Go regexp is the oracle, the model declines those calls); byte-based semantics, "characters" only for ASCII as the property says.',
                assumptions=['Go regexp (RE2) and strings.ReplaceAll are the reference for DoesMatchRegex / ReplaceRegex / ReplaceAll']),
    'C08': dict(
        level='proof',
        theorems=['Mp.scan_progress', 'Mp.parse_fuel_sufficient', 'Pool.history_independent'],
        runner=parse_runner, design='§6/C08',
        text='Lean theorems over the lexer+parser model: every token other than EOF consumes input (scan_progress) and the recursive-descent parser never runs out of its linear fuel on any byte string with any Unicode tables (parse_fuel_sufficient) - termination for all inputs; after any history of parses on a pooled scanner the next parse starts from the canonical configuration (history_independent). The model returns the Go pair, so exactly-one-of(op, err) is checked on it and on the code for every generated input; std-stream silence, chunking patterns, read faults at every offset and parse histories are run on the real parser.',
        note='chunk independence of text/scanner buffering is validated at run time, not proved (PARTIAL); the Unicode tables are the driver\'s stand-in tables, theorems quantify over all tables.',
        assumptions=['text/scanner buffering is not modelled: the model reads the concatenated bytes; chunk independence is checked at run time only'],
    ),
    'C09': dict(
        level='proof',
        theorems=['Esc.literal_roundtrip', 'Esc.unescape_order_independent', 'Esc.seq_eq_sim'],
        runner=parse_runner, design='§6/C09',
        text='Lean theorems about string literals: unescape(escape(unescape b)) = unescape b for every byte string, and the eight map-ordered Replace passes compute one simultaneous pass whatever the order (so Go map iteration cannot matter). The structural round trip parse(Sprint(op)) = op, Sprint fixed point, UserString = query text and equal evaluation before/after are checked by the relational oracle on the real parser/printer over the exhaustive small grammar, random large queries and every accepted string of the C08 exploration, and the Lean parser/printer model is diffed on the same inputs.',
        note='PARTIAL: the full print/parse inverse is not a theorem (token-boundary lemmas outstanding); literal and order-independence parts are proved; numbers rely on F64 parse/shortest model diffed with Go.',
    ),
    'C07': dict(
        level='proof',
        theorems=['Mp.eval_never_panics', 'Mp.pureFunc_np'],
        runner=eval_runner, design='§6/C07',
        text='Lean theorem eval_never_panics: no elaborated query panics on any Go value (mutual structural induction over the nine evaluator functions; pureFunc_np: none of the modelled functions panics on any receiver and argument list; every Go panic site is a `panic` outcome of the model, so this is a theorem and not a construction). The evaluator is structural recursion on the elaborated query, hence total. Tied to /repo by the exhaustive function x receiver-kind x argument-tuple product run under recover with a watchdog and diffed with the model.',
        note='termination holds for queries whose Select argument is a literal (known finding 21 otherwise); functions that call external engines are run but not modelled.',
        assumptions=['external engines (regexp, encoding/json, yaml, toml, xml2json, fmt.Sprintf) are outside the model: calls that reach them are run on the implementation (no panic, no hang) but not compared with the model'],
    ),
}

# properties deliberately not claimed (reason shown in MANIFEST.not_applicable); empty = default text
NOT_APPLICABLE = {}
# commits in /repo that add verif-tagged hooks (none: everything is observed through the public API)
HOOK_COMMITS = []
