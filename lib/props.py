"""Per-property configuration: which theorems are the obligations, which runner ties the model to the code."""
from vcheck import eval_runner, parse_runner, ana_runner

PROPS = {
    'C20': dict(level='proof', theorems=['Mp.ni_path_full'], runner=ana_runner),
    'C10': dict(level='proof', theorems=[], runner=eval_runner),
    'C11': dict(level='proof', theorems=[], runner=eval_runner),
    'C08': dict(
        level='proof',
        theorems=['Mp.scan_progress', 'Mp.parse_fuel_sufficient'],
        runner=parse_runner,
        assumptions=['text/scanner buffering is not modelled: the model reads the concatenated bytes; chunk independence is checked at run time only'],
    ),
    'C09': dict(
        level='proof',
        theorems=[],
        runner=parse_runner,
    ),
    'C07': dict(
        level='proof',
        theorems=['Mp.eval_never_panics', 'Mp.pureFunc_np'],
        runner=eval_runner,
        assumptions=['external engines (regexp, encoding/json, yaml, toml, xml2json, fmt.Sprintf) are outside the model: calls that reach them are run on the implementation (no panic, no hang) but not compared with the model'],
    ),
}
