package main

// C20: the static read-set analyses. Queries come from a small AST so that the generator knows the key chains a query
// navigates (reference analysis), and each query is evaluated on documents and on single-field perturbations of the
// root fields the analysis does not list (non-interference oracle).

import (
	"fmt"
	"reflect"
	"sort"
	"strings"

	"github.com/machship/mpath"
)

type qPart struct {
	kind  byte // 'k' key, 'f' filter, 'c' call
	name  string
	mark  bool // the key is written with its `?` mark (the name does not include it; a bare `?` is the key with the empty name)
	group *qGroup
	args  []qArg
}
type qArg struct {
	lit   string
	path  *qPath
	group *qGroup
}
type qPath struct {
	root  byte
	parts []qPart
}
type qGroup struct {
	mode string // "", "AND", "OR"
	ops  []qOp
}
type qOp struct {
	path  *qPath
	group *qGroup
}

func (p *qPath) String() string {
	var sb strings.Builder
	sb.WriteByte(p.root)
	for _, pt := range p.parts {
		switch pt.kind {
		case 'k':
			sb.WriteString("." + pt.name)
			if pt.mark {
				sb.WriteString("?")
			}
		case 'f':
			sb.WriteString("[" + pt.group.body() + "]")
		case 'c':
			var as []string
			for _, a := range pt.args {
				switch {
				case a.path != nil:
					as = append(as, a.path.String())
				case a.group != nil:
					as = append(as, "{"+a.group.body()+"}")
				default:
					as = append(as, a.lit)
				}
			}
			sb.WriteString("." + pt.name + "(" + strings.Join(as, ",") + ")")
		}
	}
	return sb.String()
}

func (g *qGroup) body() string {
	var ps []string
	if g.mode != "" {
		ps = append(ps, g.mode)
	}
	for _, o := range g.ops {
		if o.path != nil {
			ps = append(ps, o.path.String())
		} else {
			ps = append(ps, "{"+o.group.body()+"}")
		}
	}
	return strings.Join(ps, ",")
}

// ---------- reference analyses over the AST ----------

func (p *qPath) keys() []string {
	var ks []string
	for _, pt := range p.parts {
		if pt.kind == 'k' {
			ks = append(ks, pt.name)
		}
	}
	return ks
}

// refRoots: first key of every `$` path (and of the top-level `@` path), anywhere in the query
func refRootsPath(p *qPath, top bool, out map[string]bool, wellFormed *bool) {
	if p.root == '$' || top {
		if len(p.parts) > 0 && p.parts[0].kind == 'k' {
			out[p.parts[0].name] = true
		} else {
			*wellFormed = false // does not begin with a key: outside the property's premise
		}
	}
	for _, pt := range p.parts {
		switch pt.kind {
		case 'f':
			refRootsGroup(pt.group, out, wellFormed, false)
		case 'c':
			for _, a := range pt.args {
				if a.path != nil {
					// an `@` argument path reads the receiver: same root field as the enclosing path
					refRootsPath(a.path, false, out, wellFormed)
				}
				if a.group != nil {
					refRootsGroup(a.group, out, wellFormed, false)
				}
			}
		}
	}
}

// docRel: the group is the whole query or nested in groups that are - an `@` operand in it reads the document (as `$` does)
func refRootsGroup(g *qGroup, out map[string]bool, wellFormed *bool, docRel bool) {
	for _, o := range g.ops {
		if o.path != nil {
			refRootsPath(o.path, docRel && o.path.root == '@', out, wellFormed)
		} else {
			refRootsGroup(o.group, out, wellFormed, docRel)
		}
	}
}

// refChains: the chains AddressedPaths must cover (and may only return): see the property statement
func refChainsPath(p *qPath, prefix []string, top bool, out *[][]string, pathArgsInFilter *bool, inFilter bool) {
	var idents []string
	for _, pt := range p.parts {
		switch pt.kind {
		case 'k':
			idents = append(idents, pt.name)
		case 'f':
			pre := append(append([]string{}, prefix...), idents...)
			refChainsGroup(pt.group, pre, out, pathArgsInFilter, true)
		case 'c':
			for _, a := range pt.args {
				if a.path != nil {
					refChainsArgPath(a.path, out, pathArgsInFilter, inFilter)
				}
				if a.group != nil {
					refChainsArgGroup(a.group, out, pathArgsInFilter, inFilter)
				}
			}
		}
	}
	*out = append(*out, append(append([]string{}, prefix...), idents...))
}

// an argument that is a path navigates its own chain: a `$` path from the root of the data wherever it stands; an `@` path from the
// value the function is applied to - at the top level its chain is listed as it is, inside a filter condition the property does
// not say what is listed for it (pathArgsInFilter: exactness is then not checked)
func refChainsArgPath(p *qPath, out *[][]string, pathArgsInFilter *bool, inFilter bool) {
	if p.root == '@' && inFilter {
		*pathArgsInFilter = true
		return
	}
	refChainsPath(p, nil, false, out, pathArgsInFilter, false)
}
func refChainsArgGroup(g *qGroup, out *[][]string, pathArgsInFilter *bool, inFilter bool) {
	for _, o := range g.ops {
		if o.path != nil {
			refChainsArgPath(o.path, out, pathArgsInFilter, inFilter)
		} else {
			refChainsArgGroup(o.group, out, pathArgsInFilter, inFilter)
		}
	}
}
func refChainsGroup(g *qGroup, prefix []string, out *[][]string, pathArgsInFilter *bool, inFilter bool) {
	for _, o := range g.ops {
		if o.path != nil && o.path.root == '$' {
			refChainsPath(o.path, nil, false, out, pathArgsInFilter, false) // a `$` path starts at the root wherever it stands
		} else if o.path != nil {
			refChainsPath(o.path, prefix, false, out, pathArgsInFilter, inFilter)
		} else {
			refChainsGroup(o.group, prefix, out, pathArgsInFilter, inFilter)
		}
	}
}

// ---------- generator ----------

// keys that are string prefixes of one another (a/ab, x/xy, k/ke/key) are deliberate: a comparison of joined paths
// instead of key lists confuses them
var c20Roots = []string{"a", "b", "c", "d", "e", "ab", "de"}
var c20Sub = []string{"x", "y", "z", "k", "xy", "ke", "key"}

func c20Pred(r *rng, depth int, allowDollarArg bool) *qPath {
	p := &qPath{root: '@'}
	nk := 1 + r.Intn(2)
	for i := 0; i < nk; i++ {
		p.parts = append(p.parts, qPart{kind: 'k', name: r.Pick(c20Sub)})
	}
	if depth > 0 && r.Intn(6) == 0 {
		p.parts = append(p.parts, qPart{kind: 'f', group: c20Group(r, '@', depth-1, 1+r.Intn(2), allowDollarArg)}) // a filter inside a filter condition may read `$` too
		p.parts = append(p.parts, qPart{kind: 'c', name: "Any"})
		return p
	}
	if allowDollarArg && r.Intn(7) == 0 {
		// the condition compares with `@.Add($.root)`: a keyless path as argument, reading a root field
		keyless := &qPath{root: '@', parts: []qPart{{kind: 'c', name: "Add", args: []qArg{{path: &qPath{root: '$', parts: []qPart{{kind: 'k', name: r.Pick(c20Roots)}}}}}}}}
		p.parts = append(p.parts, qPart{kind: 'c', name: "Greater", args: []qArg{{path: keyless}}})
		return p
	}
	switch r.Intn(5) {
	case 0:
		p.parts = append(p.parts, qPart{kind: 'c', name: "Greater", args: []qArg{{lit: "1"}}})
	case 1:
		p.parts = append(p.parts, qPart{kind: 'c', name: "Equal", args: []qArg{{lit: r.Pick([]string{"1", "2", `"s"`, "true"})}}})
	case 2:
		p.parts = append(p.parts, qPart{kind: 'c', name: "IsNotNull"})
	case 3:
		if allowDollarArg {
			dp := &qPath{root: '$', parts: []qPart{{kind: 'k', name: r.Pick(c20Roots)}}}
			if r.Intn(2) == 0 { // a chain of two keys: it is the chain of a `$` path, not one below the collection that is filtered
				dp.parts = append(dp.parts, qPart{kind: 'k', name: r.Pick(c20Sub)})
			}
			if r.Intn(3) == 0 {
				p.parts = append(p.parts, qPart{kind: 'c', name: "Equal", args: []qArg{{group: &qGroup{mode: r.Pick([]string{"", "OR"}), ops: []qOp{{path: dp}}}}}})
			} else {
				p.parts = append(p.parts, qPart{kind: 'c', name: "Equal", args: []qArg{{path: dp}}})
			}
		} else {
			p.parts = append(p.parts, qPart{kind: 'c', name: "Less", args: []qArg{{lit: "3"}}})
		}
	default:
		// bare boolean field
	}
	return p
}

func c20Group(r *rng, root byte, depth int, n int, allowDollarArg bool) *qGroup {
	g := &qGroup{mode: r.Pick([]string{"", "AND", "OR"})}
	if r.Intn(14) == 0 {
		// a word that is no operator: the parser flags the group, the evaluator still evaluates its operands, so they are read
		g.mode = r.Pick([]string{"NOT", "XOR", "and", "Or"})
	}
	for i := 0; i < n; i++ {
		if depth > 0 && r.Intn(6) == 0 {
			g.ops = append(g.ops, qOp{group: c20Group(r, root, depth-1, 1+r.Intn(2), allowDollarArg)})
		} else if root == '@' && allowDollarArg && depth > 0 && r.Intn(9) == 0 {
			// inside a nested group of a condition: a `$` path that has a filter of its own; or a keyless `@` member reading `$`
			if r.Intn(2) == 0 {
				dp := &qPath{root: '$', parts: []qPart{{kind: 'k', name: r.Pick(c20Roots)}, {kind: 'f', group: &qGroup{ops: []qOp{{path: &qPath{root: '@', parts: []qPart{{kind: 'k', name: r.Pick(c20Sub)}, {kind: 'c', name: "Equal", args: []qArg{{lit: "1"}}}}}}}}}, {kind: 'c', name: "Any"}}}
				g.ops = append(g.ops, qOp{group: &qGroup{mode: "OR", ops: []qOp{{path: dp}}}})
			} else {
				kl := &qPath{root: '@', parts: []qPart{{kind: 'c', name: "Greater", args: []qArg{{path: &qPath{root: '$', parts: []qPart{{kind: 'k', name: r.Pick(c20Roots)}}}}}}}}
				g.ops = append(g.ops, qOp{group: &qGroup{mode: "OR", ops: []qOp{{path: kl}}}})
			}
		} else if root == '@' {
			g.ops = append(g.ops, qOp{path: c20Pred(r, depth, allowDollarArg)})
		} else {
			g.ops = append(g.ops, qOp{path: c20BoolPath(r, depth)})
		}
	}
	return g
}

// c20TopGroup: a group that is the whole query; one operand in four (also in the groups nested in it) is written with `@`,
// which directly in such a group is the document
func c20TopGroup(r *rng, depth int, n int) *qGroup {
	g := c20Group(r, '$', depth, n, false)
	var flip func(g *qGroup)
	flip = func(g *qGroup) {
		for i := range g.ops {
			if g.ops[i].path != nil {
				if r.Intn(4) == 0 {
					g.ops[i].path.root = '@'
				}
			} else {
				flip(g.ops[i].group)
			}
		}
	}
	flip(g)
	return g
}

// a `$` path ending in a boolean function (operand of a top-level group or of a group-valued argument)
func c20BoolPath(r *rng, depth int) *qPath {
	p := &qPath{root: '$', parts: []qPart{{kind: 'k', name: r.Pick(c20Roots)}}}
	if r.Intn(3) == 0 {
		p.parts = append(p.parts, qPart{kind: 'k', name: r.Pick(c20Sub)})
	}
	switch r.Intn(4) {
	case 0:
		p.parts = append(p.parts, qPart{kind: 'c', name: "IsNotNull"})
	case 1:
		p.parts = append(p.parts, qPart{kind: 'c', name: "Equal", args: []qArg{{lit: r.Pick([]string{"1", "true", `"s"`})}}})
	case 2:
		p.parts = append(p.parts, qPart{kind: 'c', name: "IsNull"})
	default:
		p.parts = append(p.parts, qPart{kind: 'c', name: "Equal", args: []qArg{{path: &qPath{root: '$', parts: []qPart{{kind: 'k', name: r.Pick(c20Roots)}}}}}})
	}
	return p
}

func c20Path(r *rng, depth int, argsInFilter bool) *qPath {
	p := &qPath{root: '$'}
	nk := 1 + r.Intn(6)
	if r.Intn(3) != 0 {
		nk = 1 + r.Intn(3)
	}
	p.parts = append(p.parts, qPart{kind: 'k', name: r.Pick(c20Roots)})
	for i := 1; i < nk; i++ {
		p.parts = append(p.parts, qPart{kind: 'k', name: r.Pick(c20Sub)})
	}
	if r.Intn(2) == 0 {
		p.parts = append(p.parts, qPart{kind: 'f', group: c20Group(r, '@', depth, 1+r.Intn(4), argsInFilter)})
		if r.Intn(4) == 0 {
			p.parts = append(p.parts, qPart{kind: 'f', group: c20Group(r, '@', depth, 1+r.Intn(2), argsInFilter)})
		}
		if r.Intn(3) == 0 {
			p.parts = append(p.parts, qPart{kind: 'k', name: r.Pick(c20Sub)})
		}
	}
	switch r.Intn(9) {
	case 6, 7:
		// an argument that is a path without a key: `@` (the value the function is applied to) with a call whose argument reads `$`
		keyless := &qPath{root: '@', parts: []qPart{{kind: 'c', name: "Add", args: []qArg{{path: &qPath{root: '$', parts: []qPart{{kind: 'k', name: r.Pick(c20Roots)}}}}}}}}
		p.parts = append(p.parts, qPart{kind: 'c', name: r.Pick([]string{"Equal", "Greater", "AnyOf"}), args: []qArg{{path: keyless}}})
	case 0:
		p.parts = append(p.parts, qPart{kind: 'c', name: "Count"})
	case 1:
		p.parts = append(p.parts, qPart{kind: 'c', name: "Equal", args: []qArg{{path: &qPath{root: '$', parts: []qPart{{kind: 'k', name: r.Pick(c20Roots)}, {kind: 'k', name: r.Pick(c20Sub)}}}}}})
	case 2:
		p.parts = append(p.parts, qPart{kind: 'c', name: "Equal", args: []qArg{{group: c20Group(r, '$', depth, 1+r.Intn(2), false)}}})
	case 3:
		p.parts = append(p.parts, qPart{kind: 'c', name: "AnyOf", args: []qArg{{lit: "1"}, {path: &qPath{root: '$', parts: []qPart{{kind: 'k', name: r.Pick(c20Roots)}}}}, {group: c20Group(r, '$', 0, 1, false)}}})
	case 4:
		// nested call: the argument is itself a path with a call
		inner := &qPath{root: '$', parts: []qPart{{kind: 'k', name: r.Pick(c20Roots)}, {kind: 'c', name: "Add", args: []qArg{{path: &qPath{root: '$', parts: []qPart{{kind: 'k', name: r.Pick(c20Roots)}}}}}}}}
		p.parts = append(p.parts, qPart{kind: 'c', name: "Equal", args: []qArg{{path: inner}}})
	case 5:
		p.parts = append(p.parts, qPart{kind: 'c', name: "IsNull"})
	}
	return p
}

// documents for the read-set half: every root field present, values that make the generated predicates vary
func c20DocFor(r *rng) *Doc {
	leaf := func() *Doc {
		switch r.Intn(6) {
		case 0:
			return dBool(r.Bool())
		case 1:
			return dStr("s")
		case 2:
			return dNull()
		default:
			return dNum(r.Pick([]string{"0", "1", "2", "3"}))
		}
	}
	var obj func(depth int) *Doc
	obj = func(depth int) *Doc {
		d := &Doc{K: 'o'}
		off := r.Intn(len(c20Sub))
		for i := 0; i < 4; i++ { // four of the keys per object keeps documents the size they had with a four-key alphabet
			k := c20Sub[(off+i*3)%len(c20Sub)]
			if r.Intn(4) == 0 {
				continue
			}
			d.Keys = append(d.Keys, k)
			switch {
			case depth > 0 && r.Intn(3) == 0:
				d.Vals = append(d.Vals, obj(depth-1))
			case depth > 0 && r.Intn(3) == 0:
				n := r.Intn(4)
				arr := &Doc{K: 'a'}
				for i := 0; i < n; i++ {
					arr.A = append(arr.A, obj(depth-1))
				}
				if r.Intn(5) == 0 { // a null element: a condition meets nothing there
					arr.A = append(arr.A, dNull())
				}
				d.Vals = append(d.Vals, arr)
			default:
				d.Vals = append(d.Vals, leaf())
			}
		}
		return d
	}
	root := &Doc{K: 'o'}
	for _, k := range c20Roots {
		root.Keys = append(root.Keys, k)
		switch r.Intn(5) {
		case 4: // a list of numbers (conditions without a key apply to these)
			arr := &Doc{K: 'a'}
			for i := 0; i < 1+r.Intn(3); i++ {
				arr.A = append(arr.A, dNum(r.Pick([]string{"0", "1", "2", "3"})))
			}
			root.Vals = append(root.Vals, arr)
		case 0:
			root.Vals = append(root.Vals, leaf())
		case 1:
			n := 1 + r.Intn(3)
			arr := &Doc{K: 'a'}
			for i := 0; i < n; i++ {
				arr.A = append(arr.A, obj(2))
			}
			if r.Intn(4) == 0 {
				arr.A = append([]*Doc{dNull()}, arr.A...)
			}
			root.Vals = append(root.Vals, arr)
		default:
			root.Vals = append(root.Vals, obj(2))
		}
	}
	return root
}

func init() {
	commands["ana"] = func(args []string) {
		prop, dir := args[0], args[1]
		var seed uint64
		fmt.Sscan(args[2], &seed)
		tier := args[3]
		quietStderr()
		c := newCtx(prop, dir, tier, seed)
		runC20(c)
		c.Finish()
	}
}

func anaLine(op mpath.Operation) (line string, roots []string, paths [][]string) {
	roots = mpath.GetRootFieldsAccessed(op)
	paths = mpath.AddressedPaths(op)
	var rs, as []string
	for _, r := range roots {
		rs = append(rs, hx(r))
	}
	for _, p := range paths {
		var ps []string
		for _, e := range p {
			ps = append(ps, hx(e))
		}
		as = append(as, strings.Join(ps, "."))
	}
	return "ROOT " + strings.Join(rs, ",") + " ADDR " + strings.Join(as, "|"), roots, paths
}

func hasPrefixPath(p, pre []string) bool {
	if len(pre) > len(p) {
		return false
	}
	for i := range pre {
		if p[i] != pre[i] {
			return false
		}
	}
	return true
}

func runC20(c *Ctx) {
	r := c.R
	c.Rule = "queries generated from an AST (1..6 leading keys, filters with 1..4 predicates, nested groups in filters, functions whose arguments are paths, groups and nested calls; every small query shape of the exhaustive block: 1..7 leading keys × 0..2 filters × 1..4 predicates); for each query: the two analyses vs the reference analysis over the generator's AST, sortedness/duplicates/independence of the returned lists, and — when every `$` path begins with a key — evaluation on 3 random documents × every delete/replace/add perturbation of each root field not listed. distinct = distinct (query skeleton, analysis answer)"
	perturbations := 0
	emit := func(p *qPath, g *qGroup, cls string) {
		var q string
		if p != nil {
			q = p.String()
		} else {
			q = "{" + g.body() + "}"
		}
		c.cases.WriteString(hx(q))
		c.cases.WriteByte('\n')
		c.N++
		c.InDom++
		c.Hist[cls]++
		var op mpath.Operation
		var err error
		func() {
			defer func() {
				if rec := recover(); rec != nil {
					err = fmt.Errorf("panic: %v", rec)
				}
			}()
			op, err = mpath.ParseString(q)
		}()
		if err != nil || op == nil {
			c.impl.WriteString("NOOP\n")
			c.OutHist["NOOP"]++
			c.addViolation(Violation{Kind: "generator", Query: q, QueryHex: hx(q), Why: "a grammar-generated query does not parse: " + fmt.Sprint(err), Key: "generator-noparse"})
			return
		}
		var line string
		var roots []string
		var paths [][]string
		func() {
			defer func() {
				if rec := recover(); rec != nil {
					line = "PANIC"
				}
			}()
			line, roots, paths = anaLine(op)
		}()
		c.impl.WriteString(line + "\n")
		c.OutHist[fmt.Sprintf("roots=%d,paths=%d", len(roots), len(paths))]++
		c.Distinct[skeleton(q)+"|"+line] = struct{}{}
		if len(c.Samples) < 10 && c.N%503 == 1 {
			c.Samples = append(c.Samples, map[string]any{"query": q, "roots": roots, "addressed": paths})
		}
		mk := func(kind, why string) Violation {
			return Violation{Kind: kind, Query: q, QueryHex: hx(q), Why: why, Cls: cls, Got: line, Key: kind}
		}
		if line == "PANIC" {
			c.addViolation(mk("panic", "an analysis panicked"))
			return
		}
		// (a) sorted, no duplicates
		if !sort.StringsAreSorted(roots) {
			c.addViolation(mk("roots-unsorted", "GetRootFieldsAccessed is not sorted"))
		}
		for i := 1; i < len(roots); i++ {
			if roots[i] == roots[i-1] {
				c.addViolation(mk("roots-duplicate", "GetRootFieldsAccessed lists a field twice"))
			}
		}
		// reference analyses
		refR := map[string]bool{}
		wf := true
		var chains [][]string
		pathArgsInFilter := false
		if p != nil {
			refRootsPath(p, true, refR, &wf)
			refChainsPath(p, nil, true, &chains, &pathArgsInFilter, false)
		} else {
			refRootsGroup(g, refR, &wf, true)
			refChainsGroup(g, nil, &chains, &pathArgsInFilter, false)
		}
		// (c) AddressedPaths: cover / exact / no duplicate / independent
		for _, ch := range chains {
			if len(ch) == 0 {
				continue
			}
			covered := false
			for _, got := range paths {
				if hasPrefixPath(got, ch) {
					covered = true
				}
			}
			if !covered {
				v := mk("addr-missing", "AddressedPaths does not cover the chain "+strings.Join(ch, "."))
				v.Expected = strings.Join(ch, ".")
				c.addViolation(v)
			}
		}
		if !pathArgsInFilter {
			for _, got := range paths {
				found := false
				for _, ch := range chains {
					if reflect.DeepEqual(ch, got) {
						found = true
					}
				}
				if !found {
					v := mk("addr-spurious", "AddressedPaths returns "+strings.Join(got, ".")+", which is not a chain the query navigates")
					c.addViolation(v)
				}
			}
		}
		for i := range paths {
			for j := i + 1; j < len(paths); j++ {
				if reflect.DeepEqual(paths[i], paths[j]) {
					c.addViolation(mk("addr-duplicate", "AddressedPaths returns a path twice"))
				}
			}
		}
		snap := fmt.Sprint(paths)
		for i := range paths {
			_ = append(paths[i], "zz") // building on one returned path must not overwrite another
			if fmt.Sprint(paths) != snap {
				c.addViolation(mk("addr-aliasing", "the returned paths share storage: appending to one changes another"))
				break
			}
		}
		// (b) non-interference of unlisted root fields
		if !wf {
			return
		}
		listed := map[string]bool{}
		for _, f := range roots {
			listed[strings.ToLower(f)] = true
		}
		for k := range refR {
			if !listed[strings.ToLower(k)] {
				v := mk("roots-missing", "GetRootFieldsAccessed does not list root field "+k+", which a `$` path of the query starts with")
				v.Expected = k
				c.addViolation(v)
			}
		}
		st := &Style{Obj: "map", Num: "f64"}
		for t := 0; t < 3; t++ {
			doc := c20DocFor(r)
			base := evalOp(op, buildAny(render(doc, st))).Line()
			for i, k := range doc.Keys {
				if listed[strings.ToLower(k)] {
					continue
				}
				for _, how := range []string{"delete", "replace", "add", "add-like-a-condition-key"} {
					d2 := &Doc{K: 'o'}
					for j := range doc.Keys {
						if j == i {
							switch how {
							case "delete":
								continue
							case "replace":
								d2.Keys = append(d2.Keys, k)
								d2.Vals = append(d2.Vals, c20DocFor(r).Vals[r.Intn(len(c20Roots))])
								continue
							}
						}
						d2.Keys = append(d2.Keys, doc.Keys[j])
						d2.Vals = append(d2.Vals, doc.Vals[j])
					}
					if how == "add" {
						d2.Keys = append(d2.Keys, "zz"+k)
						d2.Vals = append(d2.Vals, dNum("7"))
					}
					if how == "add-like-a-condition-key" { // root fields named like the keys the conditions read in the elements
						for si, sk := range c20Sub {
							if !listed[sk] {
								d2.Keys = append(d2.Keys, sk)
								d2.Vals = append(d2.Vals, []*Doc{dBool(true), dNum("1"), dNum("2"), dStr("s")}[(si+i)%4])
							}
						}
					}
					got := evalOp(op, buildAny(render(d2, st))).Line()
					perturbations++
					if got != base {
						v := mk("interference", "the result changes when root field "+k+" (not in GetRootFieldsAccessed) is "+how+"d")
						v.Data = render(doc, st)
						v.Expected, v.Got = trunc(base, 200), trunc(got, 200)
						v.Extra = map[string]any{"perturbed": render(d2, st), "roots": roots}
						c.addViolation(v)
					}
				}
			}
		}
	}
	// exhaustive small shapes: n leading keys, filter with m predicates (the aliasing defect depends on n)
	for n := 1; n <= 7; n++ {
		for m := 1; m <= 4; m++ {
			for nf := 1; nf <= 2; nf++ {
				p := &qPath{root: '$'}
				for i := 0; i < n; i++ {
					p.parts = append(p.parts, qPart{kind: 'k', name: fmt.Sprintf("%c", 'a'+i)})
				}
				for f := 0; f < nf; f++ {
					g := &qGroup{}
					for j := 0; j < m; j++ {
						g.ops = append(g.ops, qOp{path: &qPath{root: '@', parts: []qPart{{kind: 'k', name: fmt.Sprintf("p%d%d", f, j)}, {kind: 'c', name: "Equal", args: []qArg{{lit: "1"}}}}}})
					}
					p.parts = append(p.parts, qPart{kind: 'f', group: g})
				}
				emit(p, nil, "exhaustive-shapes")
				p2 := &qPath{root: '$', parts: append(append([]qPart{}, p.parts...), qPart{kind: 'k', name: "tail"})}
				emit(p2, nil, "exhaustive-shapes")
			}
		}
	}
	// named by the property / findings
	emit(&qPath{root: '$', parts: []qPart{{kind: 'k', name: "a"}, {kind: 'c', name: "Equal", args: []qArg{{group: &qGroup{mode: "OR", ops: []qOp{{path: &qPath{root: '$', parts: []qPart{{kind: 'k', name: "b"}}}}}}}}}}}, nil, "named")
	// a `$` path with its own filter inside the condition of another filter; keyless `@` paths that read `$` (argument, group member)
	{
		eq1 := func(k string) *qPath {
			return &qPath{root: '@', parts: []qPart{{kind: 'k', name: k}, {kind: 'c', name: "Equal", args: []qArg{{lit: "1"}}}}}
		}
		dollarK := func(k string) *qPath { return &qPath{root: '$', parts: []qPart{{kind: 'k', name: k}}} }
		inner := &qPath{root: '$', parts: []qPart{{kind: 'k', name: "a"}, {kind: 'f', group: &qGroup{ops: []qOp{{path: eq1("x")}}}}, {kind: 'c', name: "Any"}}}
		emit(&qPath{root: '$', parts: []qPart{{kind: 'k', name: "b"}, {kind: 'f', group: &qGroup{ops: []qOp{{group: &qGroup{mode: "OR", ops: []qOp{{path: inner}}}}}}}}}, nil, "named/dollar-path-with-filter-in-condition")
		emit(&qPath{root: '$', parts: []qPart{{kind: 'k', name: "b"}, {kind: 'k', name: "y"}, {kind: 'f', group: &qGroup{ops: []qOp{{path: eq1("z")}, {group: &qGroup{ops: []qOp{{path: inner}}}}}}}}}, nil, "named/dollar-path-with-filter-in-condition")
		keyless := func(fn, k string) *qPath {
			return &qPath{root: '@', parts: []qPart{{kind: 'c', name: fn, args: []qArg{{path: dollarK(k)}}}}}
		}
		emit(&qPath{root: '$', parts: []qPart{{kind: 'k', name: "a"}, {kind: 'c', name: "Equal", args: []qArg{{path: keyless("Add", "c")}}}}}, nil, "named/keyless-at-paths")
		emit(&qPath{root: '$', parts: []qPart{{kind: 'k', name: "b"}, {kind: 'f', group: &qGroup{ops: []qOp{{group: &qGroup{mode: "OR", ops: []qOp{{path: keyless("Greater", "d")}}}}}}}, {kind: 'c', name: "Count"}}}, nil, "named/keyless-at-paths")
		emit(&qPath{root: '$', parts: []qPart{{kind: 'k', name: "e"}, {kind: 'f', group: &qGroup{ops: []qOp{{path: &qPath{root: '@', parts: []qPart{{kind: 'k', name: "x"}, {kind: 'c', name: "Greater", args: []qArg{{path: keyless("Add", "ab")}}}}}}}}}, {kind: 'c', name: "Count"}}}, nil, "named/keyless-at-paths")
		emit(&qPath{root: '$', parts: []qPart{{kind: 'k', name: "a"}, {kind: 'c', name: "AnyOf", args: []qArg{{group: &qGroup{mode: "OR", ops: []qOp{{path: keyless("Greater", "de")}}}}}}}}, nil, "named/keyless-at-paths")
	}
	// root fields spelled in both letter cases in one query (the list is sorted as strings are), and one key name at two depths with
	// the deeper use met first (its chain is no run in the middle of another chain)
	{
		dk := func(fn string, ks ...string) *qPath {
			p := &qPath{root: '$'}
			for _, k := range ks {
				p.parts = append(p.parts, qPart{kind: 'k', name: k})
			}
			if fn != "" {
				p.parts = append(p.parts, qPart{kind: 'c', name: fn, args: []qArg{{lit: "1"}}})
			}
			return p
		}
		emit(nil, &qGroup{mode: "OR", ops: []qOp{{path: dk("Equal", "Zeta")}, {path: dk("Equal", "alpha")}}}, "named/mixed-case-roots")
		emit(nil, &qGroup{mode: "AND", ops: []qOp{{path: dk("Equal", "a")}, {path: dk("Equal", "B")}, {path: dk("Equal", "c")}}}, "named/mixed-case-roots")
		emit(&qPath{root: '$', parts: []qPart{{kind: 'k', name: "List"}, {kind: 'f', group: &qGroup{ops: []qOp{{path: &qPath{root: '@', parts: []qPart{{kind: 'k', name: "x"}, {kind: 'c', name: "Less", args: []qArg{{path: dk("", "limit")}}}}}}}}}}}, nil, "named/mixed-case-roots")
		emit(nil, &qGroup{mode: "OR", ops: []qOp{{path: dk("Equal", "Limit")}, {path: dk("Equal", "count")}, {path: dk("Equal", "limit")}}}, "named/mixed-case-roots")
		emit(nil, &qGroup{ops: []qOp{{path: dk("Equal", "a", "b")}, {path: dk("Equal", "b")}}}, "named/one-name-at-two-depths")
		emit(&qPath{root: '$', parts: []qPart{{kind: 'k', name: "c"}, {kind: 'c', name: "Equal", args: []qArg{{path: dk("", "a", "c")}}}}}, nil, "named/one-name-at-two-depths")
		emit(nil, &qGroup{ops: []qOp{{path: dk("Equal", "a", "b", "c", "d")}, {path: dk("Equal", "b", "c")}, {path: dk("Equal", "c")}, {path: dk("Equal", "d")}}}, "named/one-name-at-two-depths")
		emit(nil, &qGroup{ops: []qOp{{path: &qPath{root: '$', parts: []qPart{{kind: 'k', name: "a"}, {kind: 'k', name: "b"}, {kind: 'f', group: &qGroup{ops: []qOp{{path: &qPath{root: '@', parts: []qPart{{kind: 'k', name: "c"}, {kind: 'c', name: "Equal", args: []qArg{{lit: "1"}}}}}}}}}, {kind: 'c', name: "Any"}}}}, {path: dk("Equal", "b")}}}, "named/one-name-at-two-depths")
	}
	// keys written with their `?` mark, and the key with the EMPTY name (a bare `?`): a root field like any other
	{
		k := func(name string, mark bool) qPart { return qPart{kind: 'k', name: name, mark: mark} }
		eq := func(parts ...qPart) *qPath {
			return &qPath{root: '$', parts: append(parts, qPart{kind: 'c', name: "Equal", args: []qArg{{lit: "1"}}})}
		}
		emit(&qPath{root: '$', parts: []qPart{k("", true)}}, nil, "named/the-key-with-the-empty-name")
		emit(&qPath{root: '$', parts: []qPart{k("", true), k("b", false)}}, nil, "named/the-key-with-the-empty-name")
		emit(nil, &qGroup{ops: []qOp{{path: eq(k("", true))}, {path: eq(k("a", false))}}}, "named/the-key-with-the-empty-name")
		emit(&qPath{root: '$', parts: []qPart{k("", true), k("b", false), {kind: 'c', name: "Add", args: []qArg{{path: &qPath{root: '$', parts: []qPart{k("c", false)}}}}}}}, nil, "named/the-key-with-the-empty-name")
		emit(&qPath{root: '$', parts: []qPart{k("b", false), {kind: 'f', group: &qGroup{ops: []qOp{{path: &qPath{root: '@', parts: []qPart{k("a", false), {kind: 'c', name: "Equal", args: []qArg{{path: &qPath{root: '$', parts: []qPart{k("", true), k("b", true)}}}}}}}}}}}, {kind: 'c', name: "Count"}}}, nil, "named/the-key-with-the-empty-name")
		emit(nil, &qGroup{mode: "OR", ops: []qOp{{path: eq(k("a", true), k("", true))}, {path: eq(k("", true), k("a", true))}}}, "named/the-key-with-the-empty-name")
		emit(&qPath{root: '$', parts: []qPart{k("a", true), k("b", true)}}, nil, "named/the-key-with-the-empty-name")
	}
	// one condition text twice: as the condition of a filter (where `@` is an element and reads no root field) and as a member of a
	// top-level or nested group (where `@` is the root and does) - in both orders
	{
		cond := func(k string) *qPath {
			return &qPath{root: '@', parts: []qPart{{kind: 'k', name: k}, {kind: 'c', name: "Equal", args: []qArg{{lit: "1"}}}}}
		}
		bare := func(k string) *qPath { return &qPath{root: '@', parts: []qPart{{kind: 'k', name: k}}} }
		filtered := func(list string, c *qPath, fn string) *qPath {
			return &qPath{root: '$', parts: []qPart{{kind: 'k', name: list}, {kind: 'f', group: &qGroup{ops: []qOp{{path: c}}}}, {kind: 'c', name: fn}}}
		}
		for _, k := range []string{"a", "c", "ab"} {
			emit(nil, &qGroup{mode: "OR", ops: []qOp{{path: filtered("b", cond(k), "Any")}, {path: cond(k)}}}, "named/one-condition-in-a-filter-and-at-the-top")
			emit(nil, &qGroup{mode: "OR", ops: []qOp{{path: cond(k)}, {path: filtered("b", cond(k), "Any")}}}, "named/one-condition-in-a-filter-and-at-the-top")
			emit(nil, &qGroup{mode: "AND", ops: []qOp{{path: filtered("e", cond(k), "Any")}, {group: &qGroup{mode: "OR", ops: []qOp{{path: cond(k)}, {path: cond("d")}}}}}}, "named/one-condition-in-a-filter-and-at-the-top")
			emit(nil, &qGroup{mode: "AND", ops: []qOp{{path: filtered("b", bare(k), "Any")}, {path: bare(k)}}}, "named/one-condition-in-a-filter-and-at-the-top")
			emit(&qPath{root: '$', parts: []qPart{{kind: 'k', name: "b"}, {kind: 'f', group: &qGroup{ops: []qOp{{path: cond(k)}}}}, {kind: 'c', name: "Count"}, {kind: 'c', name: "Equal", args: []qArg{{path: &qPath{root: '@', parts: []qPart{{kind: 'k', name: k}}}}}}}}, nil, "named/one-condition-in-a-filter-and-at-the-top")
		}
	}
	// `@` paths as ARGUMENTS at the top level (the value the function is applied to is not a collection being filtered): their chains stand
	// on their own
	{
		atK := func(ks ...string) *qPath {
			p := &qPath{root: '@'}
			for _, k := range ks {
				p.parts = append(p.parts, qPart{kind: 'k', name: k})
			}
			return p
		}
		dcall := func(key, fn string, arg qArg) *qPath {
			return &qPath{root: '$', parts: []qPart{{kind: 'k', name: key}, {kind: 'c', name: fn, args: []qArg{arg}}}}
		}
		emit(dcall("a", "Equal", qArg{path: atK("b")}), nil, "named/at-paths-as-arguments")
		emit(dcall("a", "Equal", qArg{path: atK("b", "c")}), nil, "named/at-paths-as-arguments")
		emit(dcall("a", "Add", qArg{path: dcall("c", "Add", qArg{path: atK("b")})}), nil, "named/at-paths-as-arguments")
		emit(dcall("a", "AnyOf", qArg{group: &qGroup{mode: "OR", ops: []qOp{{path: &qPath{root: '@', parts: []qPart{{kind: 'k', name: "b"}, {kind: 'c', name: "Equal", args: []qArg{{lit: "1"}}}}}}}}}), nil, "named/at-paths-as-arguments")
		emit(&qPath{root: '$', parts: []qPart{{kind: 'k', name: "a"}, {kind: 'k', name: "d"}, {kind: 'c', name: "AnyOf", args: []qArg{{path: atK("e")}, {path: &qPath{root: '$', parts: []qPart{{kind: 'k', name: "c"}}}}}}}}, nil, "named/at-paths-as-arguments")
		emit(nil, &qGroup{mode: "AND", ops: []qOp{{path: dcall("a", "Equal", qArg{path: atK("ab")})}, {path: dcall("b", "Greater", qArg{path: atK("a")})}}}, "named/at-paths-as-arguments")
	}
	// an element key and a root field of the SAME name in one condition (`$.orders[@.customer.Equal($.customer.id)]`): the `@` chain,
	// prefixed by the chain of the collection, and the `$` chain live in different frames until the prefix is put in front
	{
		dk := func(ks ...string) *qPath {
			p := &qPath{root: '$'}
			for _, k := range ks {
				p.parts = append(p.parts, qPart{kind: 'k', name: k})
			}
			return p
		}
		at := func(fn string, arg *qPath, ks ...string) *qPath {
			p := &qPath{root: '@'}
			for _, k := range ks {
				p.parts = append(p.parts, qPart{kind: 'k', name: k})
			}
			if arg != nil {
				p.parts = append(p.parts, qPart{kind: 'c', name: fn, args: []qArg{{path: arg}}})
			} else {
				p.parts = append(p.parts, qPart{kind: 'c', name: fn, args: []qArg{{lit: "1"}}})
			}
			return p
		}
		filt := func(coll []string, g *qGroup, tail ...qPart) *qPath {
			p := dk(coll...)
			p.parts = append(p.parts, qPart{kind: 'f', group: g})
			p.parts = append(p.parts, tail...)
			return p
		}
		cnt := qPart{kind: 'c', name: "Count"}
		emit(filt([]string{"a"}, &qGroup{ops: []qOp{{path: at("Equal", dk("b", "c"), "b")}}}, cnt), nil, "named/same-name-in-both-frames")
		emit(filt([]string{"a"}, &qGroup{ops: []qOp{{path: at("Equal", dk("c"), "c")}}}, cnt), nil, "named/same-name-in-both-frames")
		emit(filt([]string{"a", "b"}, &qGroup{ops: []qOp{{path: at("Greater", dk("c", "d", "e"), "c", "d")}}}), nil, "named/same-name-in-both-frames")
		emit(filt([]string{"a"}, &qGroup{mode: "OR", ops: []qOp{{group: &qGroup{mode: "OR", ops: []qOp{{path: &qPath{root: '$', parts: []qPart{{kind: 'k', name: "d"}, {kind: 'k', name: "e"}, {kind: 'c', name: "Equal", args: []qArg{{lit: "2"}}}}}}, {path: at("Equal", nil, "d")}}}}}}, cnt), nil, "named/same-name-in-both-frames")
		emit(filt([]string{"a"}, &qGroup{ops: []qOp{{path: at("Equal", nil, "a")}, {path: at("AnyOf", dk("a", "x"), "a", "x")}}}, cnt), nil, "named/same-name-in-both-frames")
		emit(filt([]string{"ab"}, &qGroup{ops: []qOp{{path: at("Equal", dk("ab"), "ab")}}}, qPart{kind: 'k', name: "ab"}), nil, "named/same-name-in-both-frames")
	}
	// the same condition text first as a condition of a filter (its first key is a key of the elements), then as a query of its
	// own and as the operand of a top-level group (its first key is a root field), and once more the other way round
	for round := 0; round < 2; round++ {
		for ci, cond := range []*qPath{
			{root: '@', parts: []qPart{{kind: 'k', name: "x"}, {kind: 'c', name: "Greater", args: []qArg{{path: &qPath{root: '$', parts: []qPart{{kind: 'k', name: "b"}}}}}}}},
			{root: '@', parts: []qPart{{kind: 'k', name: "y"}, {kind: 'k', name: "z"}, {kind: 'c', name: "IsNotNull"}}},
			{root: '@', parts: []qPart{{kind: 'k', name: "k"}}},
		} {
			inFilter := &qPath{root: '$', parts: []qPart{{kind: 'k', name: c20Roots[ci]}, {kind: 'f', group: &qGroup{ops: []qOp{{path: cond}}}}}}
			top := cond
			asGroup := &qGroup{mode: "OR", ops: []qOp{{path: cond}}}
			if round == 0 {
				emit(inFilter, nil, "named/condition-text-in-filter-then-top-level")
				emit(top, nil, "named/condition-text-in-filter-then-top-level")
				emit(nil, asGroup, "named/condition-text-in-filter-then-top-level")
			} else {
				emit(nil, asGroup, "named/condition-text-in-filter-then-top-level")
				emit(inFilter, nil, "named/condition-text-in-filter-then-top-level")
				emit(top, nil, "named/condition-text-in-filter-then-top-level")
			}
		}
	}
	c.Exhaustive = true
	n := c.scale(6000, 60000)
	for i := 0; i < n; i++ {
		switch r.Intn(6) {
		case 0:
			emit(nil, c20TopGroup(r, 1, 1+r.Intn(3)), "top-group")
		case 1:
			emit(c20Path(r, 1, true), nil, "path/args-in-filter")
		default:
			emit(c20Path(r, 1, false), nil, "path")
		}
	}
	c.Extra["perturbation_evaluations"] = perturbations
}
