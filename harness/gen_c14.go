package main

// C14: function typing agrees with the published descriptors (ListFunctions) and with evaluation.
// Every function x every receiver type expressible in a schema x conformant and over-long argument lists: the
// validator's verdict and reported type are compared with the rule the property states, computed here from the
// descriptor table; every accepted conformant call is then evaluated on data instantiated from the schema and the
// kind of the result is compared with the reported type. Chains of two and three calls at random.

import (
	"encoding/json"
	"fmt"
	"reflect"
	"strings"

	"github.com/machship/mpath"
	"github.com/shopspring/decimal"
)

type c14Recv struct {
	T, IO string
	ty    *CTy
	data  *TV
	// numeral: the strings in the data read as numbers. A function applied to such a string takes it as a number by design (the
	// sibling properties say "strings that are not numerals"), so these receivers are evaluated for one thing only: First, Last
	// and Index hand the element back as what the validator reports, a string.
	numeral bool
}

func c14Receivers() []c14Recv {
	obj := func() *CTy {
		return &CTy{T: "struct", F: []*CField{{N: "k", M: "reg", Ty: &CTy{T: "string"}}, {N: "n", M: "reg", Ty: &CTy{T: "number"}}}}
	}
	objData := func(k string, n float64) *TV { return tvMap("str", [][2]any{{hx("k"), tvStr(k)}, {hx("n"), tvF64(n)}}) }
	list := func(e *CTy) *CTy { return &CTy{T: "list", Open: 1, E: e} }
	return []c14Recv{
		{"String", "Single", &CTy{T: "string"}, tvStr("abcDEF"), false},
		{"String", "Array", list(&CTy{T: "string"}), tvSlice(1, tvStr("abc"), tvStr("x"), tvStr("hello")), false},
		{T: "String", IO: "Array", ty: list(&CTy{T: "string"}), data: tvSlice(1, tvStr("12"), tvStr("ab"), tvStr("-0.50")), numeral: true},
		{T: "String", IO: "Array", ty: list(&CTy{T: "string"}), data: tvSlice(0, tvStr("1e3"), tvStr("007")), numeral: true},
		{"Number", "Single", &CTy{T: "number"}, tvF64(5), false},
		{"Number", "Array", list(&CTy{T: "number"}), tvSlice(1, tvF64(1), tvF64(2), tvF64(3.5)), false},
		{"Boolean", "Single", &CTy{T: "bool"}, tvBool(true), false},
		{"Boolean", "Array", list(&CTy{T: "bool"}), tvSlice(1, tvBool(true), tvBool(false), tvBool(true)), false},
		{"Object", "Single", obj(), objData("v", 2), false},
		{"Object", "Array", list(obj()), tvSlice(1, objData("v", 2), objData("w", 3), objData("x", 4)), false},
		{"String", "Single", &CTy{T: "bytes"}, tvStr("abcDEF"), false},
		{"String", "Array", list(&CTy{T: "bytes"}), tvSlice(1, tvStr("abc"), tvStr("x")), false},
		{"Number", "Single", &CTy{T: "int"}, tvF64(7), false},
		{"Number", "Array", list(&CTy{T: "float"}), tvSlice(1, tvF64(1.5), tvF64(2)), false},
		{"Number", "Array", &CTy{T: "list", Open: 0, E: &CTy{T: "int"}}, tvSlice(1, tvF64(4)), false},
		{"Number", "Array", list(&CTy{T: "number"}), tvSlice(1), false}, // conforming data may be an empty list
		{"String", "Array", list(&CTy{T: "string"}), tvSlice(1), false},
		{"Object", "Array", list(obj()), tvSlice(1), false},
		{"Any", "Single", &CTy{T: "top"}, tvStr("abc"), false},
		{"Any", "Array", list(&CTy{T: "top"}), tvSlice(1, tvStr("a"), tvF64(1), tvBool(true)), false},
		// objects carried by a struct type that marshals itself
		{"Object", "Single", obj(), tvMarshObj("v", 2), false},
		{"Object", "Array", list(obj()), tvSlice(0, tvMarshObj("v", 2), tvMarshObj("w", 3)), false},
		{"Object", "Array", list(obj()), tvSlice(1, tvMarshObj("v", 2), tvPtr(tvMarshObj("w", 3))), false},
		// lists of lists declared in the schema: the element of the outer list is a list, whose kind has no type of its own (Any)
		{"Any", "Array", list(list(&CTy{T: "number"})), tvSlice(1, tvSlice(1, tvF64(1), tvF64(2)), tvSlice(1, tvF64(3))), false},
		{"Any", "Array", list(list(&CTy{T: "string"})), tvSlice(1, tvSlice(1, tvStr("ab"), tvStr("cd")), tvSlice(1, tvStr("e"))), false},
		{"Any", "Array", &CTy{T: "list", Open: 0, E: &CTy{T: "list", Open: 0, E: &CTy{T: "string"}}}, tvSlice(1, tvSlice(1, tvStr("p"))), false},
	}
}

func c14Arg(t string, i int) string {
	switch t {
	case "String":
		return `"b"`
	case "Number":
		return "1"
	case "Boolean":
		return "true"
	}
	return []string{`"b"`, "1", "true"}[i%3]
}

// c14ArgS: the text held by the field `argS` of the conforming data
var c14ArgS = "b"

type c14Call struct {
	N string `json:"n"`
	K int    `json:"k"`
	q string
}

// conformant argument lists (exact number; variadic: 0..2 of the kind) and one over-long list
func c14ArgLists(fd mpath.FunctionDescriptor) (conf [][]string, over []string) {
	var fixed []string
	variadic := ""
	for i, p := range fd.Params {
		if string(p.IOType) == "Variadic" {
			variadic = string(p.Type)
			break
		}
		a := c14Arg(string(p.Type), i)
		switch string(fd.Name) {
		case "Select":
			a = `"$"` // the argument is a query
		case "Index":
			a = "0" // in range for every non-empty array
		}
		fixed = append(fixed, a)
	}
	if variadic != "" {
		for n := 0; n <= 2; n++ {
			l := append([]string{}, fixed...)
			for j := 0; j < n; j++ {
				l = append(l, c14Arg(variadic, j))
			}
			conf = append(conf, l)
		}
		return conf, nil
	}
	conf = [][]string{fixed}
	over = append(append([]string{}, fixed...), "1")
	return conf, over
}

func c14Admits(vt, vio, rt, rio string) (ok, unspec bool) {
	if vt == "Any" && vio != "Variadic" && vio != rio {
		return false, true
	}
	return (vt == "Any" || vt == rt) && (vio == "Variadic" || vio == rio), false
}

// the type the property says is reported: the descriptor's Returns, the element's type for First/Last/Index on a typed list
func c14Reports(fd mpath.FunctionDescriptor, prevT, prevIO string) (string, string) {
	rt, rio := string(fd.Returns.Type), string(fd.Returns.IOType)
	if rt != "Any" {
		return rt, rio
	}
	switch string(fd.Name) {
	case "Select":
		return "Any", rio
	case "AsArray":
		if prevIO == "Single" {
			return prevT, rio
		}
		return "Any", rio
	}
	if prevIO == "Array" {
		return prevT, rio
	}
	return "Any", rio
}

func c14KindOK(ty, io string, v any) bool {
	rv := reflect.ValueOf(v)
	for rv.IsValid() && (rv.Kind() == reflect.Pointer || rv.Kind() == reflect.Interface) && !rv.IsNil() {
		rv = rv.Elem()
	}
	isList := rv.IsValid() && (rv.Kind() == reflect.Slice || rv.Kind() == reflect.Array)
	switch io {
	case "Array":
		return isList // for Array results only array-ness is compared
	case "Variadic":
		if isList {
			return true
		}
	}
	_, isDec := v.(decimal.Decimal)
	switch ty {
	case "String":
		return rv.IsValid() && rv.Kind() == reflect.String
	case "Number":
		return isDec
	case "Boolean":
		return rv.IsValid() && rv.Kind() == reflect.Bool
	case "Object":
		return rv.IsValid() && !isDec && (rv.Kind() == reflect.Map || rv.Kind() == reflect.Struct)
	}
	return true // Any
}

// c14ArgumentsAndKeysAfterCalls: (1) a call with SEVERAL path arguments one of which carries a call that must be rejected (unknown, too
// many arguments, a receiver its ValidOn does not admit): rejected wherever that argument stands, also when a clean path argument
// follows it; (2) a key applied to the object that `AsArray().First()` / `Last()` / `Index(0)` hands back for a single object: the
// verdict and the reported type are those of the same key and call applied to the object itself
func c14ArgumentsAndKeysAfterCalls(c *Ctx) {
	fld := func(n string, t *CTy) *CField { return &CField{N: n, M: "reg", Ty: t} }
	prim := func(t string) *CTy { return &CTy{T: t} }
	root := &CTy{T: "struct", F: []*CField{fld("input", &CTy{T: "struct", F: []*CField{fld("x", prim("string")), fld("t", prim("string")), fld("n", prim("number")), fld("b", prim("bool")),
		fld("o", &CTy{T: "struct", F: []*CField{fld("a", prim("string")), fld("k", prim("number")), fld("f", prim("bool"))}}),
		{N: "_dependencies", M: "reg", H: 1, Ty: &CTy{T: "deplist", V: []string{}}}}})}}
	txt := cueSchemaText(&cueGen{}, root)
	bad := []string{"$.input.n.Left(1)", "$.input.x.NoSuchFunction()", "$.input.x.Left(1,2)", "$.input.b.Add(1)", "$.input.x.Contains(\"a\").Left(1)", "$.input.nosuch"}
	good := []string{"$.input.t", "$.input.x.Left(1)", "\"lit\"", "$.input.t.TrimLeft(1)"}
	for _, b := range bad {
		for _, g := range good {
			for _, q := range []string{"$.input.x.AnyOf(" + b + "," + g + ")", "$.input.x.AnyOf(" + g + "," + b + ")", "$.input.x.AnyOf(" + g + "," + b + "," + g + ")", "$.input.x.AnyOf(" + b + "," + g + "," + g + ")",
				"{AND,$.input.x.AnyOf(" + b + "," + g + ")}", "{OR,$.input.b,{AND,$.input.x.AnyOf(" + b + "," + g + ")}}", "$.input.x.Equal($.input.t.AnyOf(" + b + "," + g + ").AsJSON())"} {
				c.cueDo(cueCase{S: root, P: []string{"input", "x"}, CP: "", Dom: true, Pos: "args", Q: q, Txt: txt}, "named/a-bad-argument-before-a-good-one", "REJ", false)
			}
		}
	}
	for _, g := range good {
		c.cueDo(cueCase{S: root, P: []string{"input", "x"}, CP: "", Dom: true, Pos: "args", Q: "$.input.x.AnyOf(" + g + "," + good[0] + ")", Txt: txt}, "named/a-bad-argument-before-a-good-one", "ACC Boolean Single", false)
	}
	for _, el := range []string{"First()", "Last()", "Index(0)"} {
		for _, tail := range []string{"a", "k", "f", "a.Left(1)", "a.Contains(\"x\")", "k.Add(1)", "f.Not()", "k.Greater(1)", "a.Add(1)", "k.Left(1)", "nosuch", "a.Left(1).Left(1)"} {
			direct := cueValidateGuarded("$.input.o."+tail, txt, "")
			viaList := c.cueDo(cueCase{S: root, P: []string{"input", "o"}, CP: "", Dom: true, Pos: "args", Q: "$.input.o.AsArray()." + el + "." + tail, Txt: txt}, "named/keys-after-the-element-of-a-wrapped-object", "", true)
			dl, vl := direct.Line, viaList.Line
			if strings.HasPrefix(dl, "REJ") {
				dl = "REJ"
			}
			if strings.HasPrefix(vl, "REJ") {
				vl = "REJ"
			}
			if dl != vl {
				q := "$.input.o.AsArray()." + el + "." + tail
				c.addViolation(Violation{Kind: "oracle", Query: q, QueryHex: hx(q), Expected: dl, Got: vl, Cls: "named/keys-after-the-element-of-a-wrapped-object",
					Why: "the key and calls applied to the element of the wrapped object are validated differently from the same key and calls applied to the object itself ($.input.o." + tail + ")",
					Key: "typing:after-element-of-wrapped-object:" + strings.Fields(dl + " -")[0] + ">" + strings.Fields(vl + " -")[0], Extra: map[string]any{"schema": txt}})
			}
		}
	}
}

func genC14(c *Ctx) {
	c14ArgumentsAndKeysAfterCalls(c)
	c.Rule = "exhaustive: every function of ListFunctions() x 10 receiver types (String, Number, Boolean, Object, Any; Single and Array) x conformant argument lists (exact count; variadic 0..2) and over-long lists (one more literal; the surplus made of path or group arguments, alone or mixed with the literals), validated against a schema `input: {recv: <type>}`; oracle from the descriptor table: accept iff known, no more arguments than declared, ValidOn admits the receiver type, reported type = Returns (element type for First/Last/Index on a typed list); pairs whose only mismatch is Single-vs-Array under ValidOn Any are unspecified (class unspecified/..., not enforced). Every accepted conformant call is evaluated on data instantiated from the schema: the result must have the reported kind (array-ness only for Array results) or fail with a data-dependent error (Parse* on text that is not a document). Lists of strings that read as numbers (\"12\", \"-0.50\", \"1e3\", \"007\") are evaluated with First/Last/Index only (the element comes back as the string the validator reports); a function applied to such a string takes it as a number by design, which the sibling properties exclude in words (`strings that are not numerals`). Chains `x.AsArray().AsArray().F…` and `x.AsArray().F…` for every receiver (lists of lists: the element type is known one level deep). Then random chains of two and three calls, validated and evaluated the same way. distinct = distinct (class, function, verdict)"
	fns := mpath.ListFunctions()
	names := funcNames()
	recvs := c14Receivers()
	unknown := 0
	run := func(rc c14Recv, calls []c14Call, cls string, conformant bool) {
		root := &CTy{T: "struct", F: []*CField{{N: "input", M: "reg", Ty: &CTy{T: "struct", F: []*CField{
			{N: "recv", M: "reg", Ty: rc.ty}, {N: "argS", M: "reg", Ty: &CTy{T: "string"}}, {N: "argN", M: "reg", Ty: &CTy{T: "number"}}, {N: "argB", M: "reg", Ty: &CTy{T: "bool"}},
			{N: "_dependencies", M: "reg", H: 1, Ty: &CTy{T: "deplist", V: []string{}}}}}}}}
		g := &cueGen{}
		txt := cueSchemaText(g, root)
		q := "$.input.recv"
		for _, cl := range calls {
			q += "." + cl.q
		}
		// expected by the property's rule
		pt, pio := rc.T, rc.IO
		accept, unspec := true, false
		for _, cl := range calls {
			fd, ok := fns[mpath.FT_FunctionType(cl.N)]
			if !ok {
				accept = false
				break
			}
			nmax := len(fd.Params)
			variadic := false
			for _, p := range fd.Params {
				if string(p.IOType) == "Variadic" {
					variadic = true
				}
			}
			if cl.K > nmax && !variadic {
				accept = false
			}
			ad, us := c14Admits(string(fd.ValidOn.Type), string(fd.ValidOn.IOType), pt, pio)
			if us {
				unspec = true
			}
			if !ad && !us {
				accept = false
			}
			pt, pio = c14Reports(fd, pt, pio)
		}
		expect := "REJ"
		if accept {
			expect = "ACC " + pt + " " + pio
		}
		if unspec {
			cls = "unspecified/" + cls
		}
		line, _ := json.Marshal(map[string]any{"s": root, "p": []string{"input", "recv"}, "cp": "", "calls": calls, "dom": !unspec})
		o := cueValidateGuarded(q, txt, "")
		c.Record(line, o.Line, cls, !unspec, cls+"|"+q[len("$.input.recv"):]+"|"+rc.T+rc.IO, o.Line,
			map[string]any{"query": q, "schema": txt, "impl": o.Line, "expected": expect, "class": cls})
		mk := func(kind, why, key string) Violation {
			return Violation{Kind: kind, Query: q, QueryHex: hx(q), Expected: expect, Got: o.Line, Why: why, Cls: cls, Key: key,
				Extra: map[string]any{"schema": txt, "errors": trunc(o.Errs, 300), "receiver": rc.T + "/" + rc.IO}}
		}
		switch o.Line {
		case "PANIC", "TIMEOUT", "NEITHER":
			c.addViolation(mk("panic", "CueValidate did not return a verdict: "+o.Line+" "+trunc(o.Errs, 120), "panic:"+calls[len(calls)-1].N))
			return
		}
		if unspec {
			// whether the call is accepted is left open here (ValidOn Any/Single against a list); in the AsArray chains, WHEN it is
			// accepted, the type reported is still the one the rule gives (the element type is known one level deep)
			want := "ACC " + pt + " " + pio
			if strings.Contains(cls, "chain/list-of-") && strings.HasPrefix(o.Line, "ACC") && o.Line != want && !(strings.HasSuffix(want, "Array") && strings.HasSuffix(o.Line, "Array")) {
				c.addViolation(mk("oracle", "the call is accepted and the reported type differs from the descriptor rule", "typing-when-accepted:"+calls[len(calls)-1].N+":"+rc.T+rc.IO))
			}
			return
		}
		got := o.Line
		if strings.HasPrefix(got, "REJ") {
			got = "REJ"
		}
		if expect != got && !(strings.HasSuffix(expect, "Array") && strings.HasSuffix(got, "Array") && strings.HasPrefix(got, "ACC")) {
			c.addViolation(mk("oracle", "the validator's verdict or reported type differs from the descriptor rule", "typing:"+calls[len(calls)-1].N+":"+rc.T+rc.IO+":"+strings.Fields(expect)[0]+">"+strings.Fields(got)[0]))
			return
		}
		if accept && pt == "Boolean" && pio == "Single" {
			// a call chain that is accepted and reported Boolean/Single is a condition: as the operand of a group (top-level, nested,
			// group-valued argument) the same calls are accepted, and the group is Boolean/Single
			for gi, gq := range []string{"{AND," + q + "}", "{" + q + "}", "{OR," + q + ",{" + q + "}}", "{$.input.recv.IsNull(),{AND," + q + "}}"} {
				if gi >= 2 && c.N%3 != 0 {
					continue
				}
				og := cueValidateGuarded(gq, txt, "")
				gl, _ := json.Marshal(map[string]any{"s": root, "p": []string{"input", "recv"}, "cp": "", "pos": "group", "dom": true, "qh": hx(gq)})
				c.Record(gl, og.Line, "as-group-operand", true, "as-group-operand|"+q[len("$.input.recv"):]+"|"+rc.T+rc.IO, og.Line,
					map[string]any{"query": gq, "schema": txt, "impl": og.Line, "expected": "ACC Boolean Single", "class": "as-group-operand"})
				if og.Line != "ACC Boolean Single" {
					c.addViolation(Violation{Kind: "oracle", Query: gq, QueryHex: hx(gq), Expected: "ACC Boolean Single", Got: og.Line, Cls: "as-group-operand",
						Why: "a call chain accepted as Boolean/Single on its own is not accepted as the operand of a group", Key: "typing:group-operand:" + calls[len(calls)-1].N + ":" + rc.T + rc.IO,
						Extra: map[string]any{"schema": txt, "errors": trunc(og.Errs, 300), "receiver": rc.T + "/" + rc.IO}})
				}
			}
		}
		if !accept || !conformant {
			return
		}
		if rc.numeral && !(len(calls) == 1 && (calls[0].N == "First" || calls[0].N == "Last" || calls[0].N == "Index")) {
			return
		}
		// evaluate on conforming data
		// argS: a text that conforms to `string` and happens to read as a number (arguments given as paths resolve to it)
		data := tvMap("str", [][2]any{{hx("input"), tvMap("str", [][2]any{{hx("recv"), rc.data}, {hx("argS"), tvStr(c14ArgS)}, {hx("argN"), tvF64(1)}, {hx("argB"), tvBool(true)}})}})
		out := runCase(q, buildAny(data))
		c.Extra["evaluated"] = asInt(c.Extra["evaluated"]) + 1
		switch out.Class {
		case "PANIC", "TIMEOUT", "PARSE-PANIC":
			c.addViolation(mk("panic", "evaluation of an accepted call did not return normally: "+out.Class+" "+trunc(out.Msg, 120), "evalpanic:"+calls[len(calls)-1].N))
		case "ok":
			op, _ := mpath.ParseString(q)
			d := buildAny(data)
			res, _ := op.Do(d, d)
			rt := strings.Fields(o.Line)
			if len(rt) == 3 && !c14KindOK(rt[1], rt[2], res) {
				v := mk("oracle", fmt.Sprintf("accepted with reported type %s/%s but evaluation returns %T", rt[1], rt[2], res), "kind:"+calls[len(calls)-1].N+":"+rc.T+rc.IO)
				v.Got = out.Exact
				c.addViolation(v)
			}
		default:
			// an error: only data-dependent ones are allowed
			last := calls[len(calls)-1].N
			dataDep := false
			for _, cl := range calls {
				if strings.HasPrefix(cl.N, "Parse") {
					dataDep = true // the text is not a document of that format
				}
			}
			if strings.HasSuffix(cls, "chain/from-parsed-text") {
				dataDep = false // these texts ARE documents of the format: a failure further down the chain is not about the data
			}
			if strings.Contains(out.Msg, "nothing in array") {
				dataDep = true // an empty list, or an index beyond its end
			}
			_ = last
			if !dataDep {
				v := mk("oracle", "an accepted, conformant call fails on conforming data: "+trunc(out.Msg, 200), "evalerr:"+calls[len(calls)-1].N+":"+rc.T+rc.IO)
				v.Got = out.Class
				c.addViolation(v)
			} else {
				c.Extra["data_dependent_errors"] = asInt(c.Extra["data_dependent_errors"]) + 1
			}
		}
	}
	// the same argument lists with every literal given as a path to a field of that kind
	asPaths := func(args []string) []string {
		var out []string
		for _, a := range args {
			switch {
			case strings.HasPrefix(a, `"`):
				out = append(out, "$.input.argS")
			case a == "true" || a == "false":
				out = append(out, "$.input.argB")
			default:
				out = append(out, "$.input.argN")
			}
		}
		return out
	}
	mkCall := func(name string, args []string) c14Call {
		return c14Call{N: name, K: len(args), q: name + "(" + strings.Join(args, ",") + ")"}
	}
	for _, fn := range names {
		fd := fns[mpath.FT_FunctionType(fn)]
		conf, over := c14ArgLists(fd)
		for _, rc := range recvs {
			for _, args := range conf {
				run(rc, []c14Call{mkCall(fn, args)}, "single/conformant", true)
				if len(args) > 0 && fn != "Select" && fn != "Sprintf" && !strings.Contains(fn, "Regex") {
					for _, as := range []string{"12", "b"} {
						c14ArgS = as
						run(rc, []c14Call{mkCall(fn, asPaths(args))}, "single/conformant/arguments-as-paths", true)
					}
					c14ArgS = "b"
				}
			}
			if over != nil {
				run(rc, []c14Call{mkCall(fn, over)}, "single/over-long", false)
				// the surplus made of arguments that are paths or groups (they count like the others)
				fixed := over[:len(over)-1]
				run(rc, []c14Call{mkCall(fn, append(append([]string{}, fixed...), "$.input.recv"))}, "single/over-long/path-argument", false)
				run(rc, []c14Call{mkCall(fn, append(append([]string{}, fixed...), "{$.input.recv.IsNull()}"))}, "single/over-long/group-argument", false)
				run(rc, []c14Call{mkCall(fn, append(append([]string{"$.input.recv"}, fixed...), "$.input.recv"))}, "single/over-long/path-arguments", false)
				if len(fixed) > 0 {
					run(rc, []c14Call{mkCall(fn, append(append([]string{fixed[0], "$.input.recv"}, fixed[1:]...), "$.input.recv", "$.input.recv"))}, "single/over-long/path-arguments", false)
				}
			}
		}
	}
	// the four functions that cut a text, on text whose characters take more than one byte, with counts from nothing to past the number of
	// bytes: accepted (String/Single), and the evaluation returns a text
	for _, txt := range []string{"\u00e9", "h\u00e9\u00e9", "\u65e5\u672c\u8a9e", "Zo\u00eb", "a\U0001F600b"} {
		rc := c14Recv{T: "String", IO: "Single", ty: &CTy{T: "string"}, data: tvStr(txt)}
		for _, fn := range []string{"Left", "Right", "TrimLeft", "TrimRight"} {
			for n := 0; n <= len(txt)+1; n++ {
				run(rc, []c14Call{mkCall(fn, []string{fmt.Sprint(n)})}, "single/conformant/multi-byte-text", true)
			}
		}
	}
	// chains that start from a text parsed inside the query: the text is YAML / JSON with lists that mix scalars and mappings
	for _, doc := range []string{"steps: [checkout, {run: make}]\nname: x\n", "steps:\n  - ~\n  - run: make\n    env: {A: b}\n", "a: [1, [2, {b: c}], {d: [e, {f: g}]}]\n", "k: v\n"} {
		rc := c14Recv{T: "String", IO: "Single", ty: &CTy{T: "string"}, data: tvStr(doc)}
		for _, tail := range [][]c14Call{{mkCall("ParseYAML", nil), mkCall("AsJSON", nil)}, {mkCall("ParseYAML", nil), mkCall("AsJSON", nil), mkCall("Contains", []string{`"run"`})},
			{mkCall("ParseYAML", nil), mkCall("AsJSON", nil), mkCall("Left", []string{"3"})}, {mkCall("ParseYAML", nil), mkCall("IsNull", nil)}, {mkCall("ParseYAML", nil), mkCall("RemoveKeysByPrefix", []string{`"n"`}), mkCall("AsJSON", nil)}} {
			run(rc, tail, "chain/from-parsed-text", true)
		}
	}
	// an unknown function name parses (IsInvalid) and must be rejected
	for _, rc := range recvs {
		run(rc, []c14Call{{N: "NoSuchFunction", K: 0, q: "NoSuchFunction()"}}, "single/unknown", false)
		unknown++
	}
	// chains that wrap a value into a list of lists: the element type is known one level deep only
	for _, rc := range recvs {
		if rc.numeral {
			continue
		}
		for _, tail := range [][]c14Call{{mkCall("First", nil)}, {mkCall("Last", nil)}, {mkCall("Index", []string{"0"})}, {mkCall("Count", nil)}, {mkCall("Sum", nil)}, {mkCall("Average", nil)}, {mkCall("Minimum", nil)},
			{mkCall("First", nil), mkCall("First", nil)}, {mkCall("First", nil), mkCall("Left", []string{"1"})}, {mkCall("First", nil), mkCall("Add", []string{"1"})}, {mkCall("AsArray", nil), mkCall("First", nil)},
			{mkCall("First", nil), mkCall("Count", nil)}, {mkCall("Last", nil), mkCall("IsNull", nil)}} {
			calls := append([]c14Call{mkCall("AsArray", nil), mkCall("AsArray", nil)}, tail...)
			run(rc, calls, "chain/list-of-lists", true)
			run(rc, append([]c14Call{mkCall("AsArray", nil)}, tail...), "chain/list-of-one", true)
		}
	}
	c.Exhaustive = true
	// chains of two and three calls
	n := c.scale(6000, 60000)
	for i := 0; i < n; i++ {
		rc := recvs[c.R.Intn(len(recvs))]
		for rc.numeral {
			rc = recvs[c.R.Intn(len(recvs))]
		}
		depth := 2 + c.R.Intn(2)
		var calls []c14Call
		pt, pio := rc.T, rc.IO
		for d := 0; d < depth; d++ {
			// prefer functions whose ValidOn admits the current type, so that chains are mostly valid
			var fn string
			for try := 0; try < 6; try++ {
				fn = names[c.R.Intn(len(names))]
				fd := fns[mpath.FT_FunctionType(fn)]
				if ok, _ := c14Admits(string(fd.ValidOn.Type), string(fd.ValidOn.IOType), pt, pio); ok || c.R.Intn(8) == 0 {
					break
				}
			}
			fd := fns[mpath.FT_FunctionType(fn)]
			conf, _ := c14ArgLists(fd)
			calls = append(calls, mkCall(fn, conf[c.R.Intn(len(conf))]))
			pt, pio = c14Reports(fd, pt, pio)
		}
		run(rc, calls, fmt.Sprintf("chain/%d", depth), true)
	}
}
