package main

func genC14(c *Ctx) {}
