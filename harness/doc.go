package main

// Logical documents (what the properties quantify over) and their renderings as Go carriers.

import (
	"encoding/hex"
	"fmt"
	"math/big"
	"reflect"
	"sort"
	"strings"

	"github.com/shopspring/decimal"
)

type Doc struct {
	K    byte // 'z' null, 'b' bool, 'n' number, 's' string, 'a' array, 'o' object
	B    bool
	N    decimal.Decimal
	S    string
	A    []*Doc
	Keys []string
	Vals []*Doc
}

func dNull() *Doc                 { return &Doc{K: 'z'} }
func dBool(b bool) *Doc           { return &Doc{K: 'b', B: b} }
func dNum(s string) *Doc          { return &Doc{K: 'n', N: decimal.RequireFromString(s)} }
func dDec(d decimal.Decimal) *Doc { return &Doc{K: 'n', N: d} }
func dStr(s string) *Doc          { return &Doc{K: 's', S: s} }
func dArr(xs ...*Doc) *Doc        { return &Doc{K: 'a', A: xs} }
func dObj(kv ...any) *Doc {
	d := &Doc{K: 'o'}
	for i := 0; i+1 < len(kv); i += 2 {
		d.Keys = append(d.Keys, kv[i].(string))
		d.Vals = append(d.Vals, kv[i+1].(*Doc))
	}
	return d
}

func (d *Doc) get(k string) *Doc { // case-insensitive; nil if absent
	if d == nil || d.K != 'o' {
		return nil
	}
	for i, kk := range d.Keys {
		if strings.EqualFold(kk, k) {
			return d.Vals[i]
		}
	}
	return nil
}

// logicalNum: the value of a decimal as a fraction; for exponents so far out that the fraction cannot be written down, the
// coefficient (without trailing zeros) and the exponent
func logicalNum(d decimal.Decimal) string {
	if e := d.Exponent(); e > 100000 || e < -100000 {
		c := new(big.Int).Set(d.Coefficient())
		ex := int64(e)
		ten := big.NewInt(10)
		for c.Sign() != 0 {
			q, r := new(big.Int).QuoRem(c, ten, new(big.Int))
			if r.Sign() != 0 {
				break
			}
			c, ex = q, ex+1
		}
		if c.Sign() == 0 {
			return "n:0"
		}
		return fmt.Sprintf("n:%se%d", c.String(), ex)
	}
	return "n:" + ratOf(d).RatString()
}

func ratOf(d decimal.Decimal) *big.Rat {
	r := new(big.Rat).SetInt(d.Coefficient())
	e := int64(d.Exponent())
	p := new(big.Int).Exp(big.NewInt(10), big.NewInt(abs64(e)), nil)
	if e >= 0 {
		return r.Mul(r, new(big.Rat).SetInt(p))
	}
	return r.Quo(r, new(big.Rat).SetInt(p))
}

func abs64(x int64) int64 {
	if x < 0 {
		return -x
	}
	return x
}

// logicalDoc / logicalV: canonical form of the logical content (numbers by value, keys case-folded, carriers erased).
func logicalDoc(d *Doc) string {
	switch d.K {
	case 'z':
		return "null"
	case 'b':
		return "b:" + b2s(d.B)
	case 'n':
		return "n:" + ratOf(d.N).RatString()
	case 's':
		return "s:" + hex.EncodeToString([]byte(d.S))
	case 'a':
		var ps []string
		for _, x := range d.A {
			ps = append(ps, logicalDoc(x))
		}
		return "[" + strings.Join(ps, ",") + "]"
	case 'o':
		var ps []string
		for i, k := range d.Keys {
			ps = append(ps, strings.ToLower(k)+"="+logicalDoc(d.Vals[i]))
		}
		sort.Strings(ps)
		return "{" + strings.Join(ps, ",") + "}"
	}
	return "?"
}

func logicalV(v reflect.Value) string { return logicalVd(v, map[[2]uintptr]bool{}) }

func logicalVd(v reflect.Value, seen map[[2]uintptr]bool) string {
	switch v.Kind() { // a value that contains itself
	case reflect.Pointer, reflect.Map, reflect.Slice:
		if !v.IsNil() && v.Kind() != reflect.Slice || v.Kind() == reflect.Slice && v.Len() > 0 {
			key := [2]uintptr{v.Pointer(), uintptr(v.Kind())}
			if seen[key] {
				return "<cycle>"
			}
			seen[key] = true
			defer delete(seen, key)
		}
	}
	if !v.IsValid() {
		return "null"
	}
	switch v.Kind() {
	case reflect.Interface, reflect.Pointer:
		if v.IsNil() {
			return "null"
		}
		return logicalVd(v.Elem(), seen)
	}
	if v.CanInterface() {
		if d, ok := v.Interface().(decimal.Decimal); ok {
			return logicalNum(d)
		}
		if nd, ok := v.Interface().(NDec); ok {
			return logicalNum(decimal.Decimal(nd))
		}
	}
	switch v.Kind() {
	case reflect.Bool:
		return "b:" + b2s(v.Bool())
	case reflect.String:
		return "s:" + hex.EncodeToString([]byte(v.String()))
	case reflect.Int, reflect.Int8, reflect.Int16, reflect.Int32, reflect.Int64:
		return "n:" + new(big.Rat).SetInt64(v.Int()).RatString()
	case reflect.Uint, reflect.Uint8, reflect.Uint16, reflect.Uint32, reflect.Uint64:
		return "n:" + new(big.Rat).SetInt(new(big.Int).SetUint64(v.Uint())).RatString()
	case reflect.Float32, reflect.Float64:
		f := v.Float()
		if f != f || f > 1e308 || f < -1e308 {
			return "n:nonfinite"
		}
		return "n:" + ratOf(decimal.NewFromFloat(f)).RatString()
	case reflect.Slice, reflect.Array:
		var ps []string
		for i := 0; i < v.Len(); i++ {
			ps = append(ps, logicalVd(v.Index(i), seen))
		}
		return "[" + strings.Join(ps, ",") + "]"
	case reflect.Map:
		var ps []string
		for _, k := range v.MapKeys() {
			ks := ""
			if k.Kind() == reflect.Interface && k.IsNil() {
				ks = "<nil>"
			} else if k.Kind() == reflect.Interface {
				ks = fmt.Sprint(k.Elem().Interface())
			} else {
				ks = k.String()
			}
			ps = append(ps, strings.ToLower(ks)+"="+logicalVd(v.MapIndex(k), seen))
		}
		sort.Strings(ps)
		return "{" + strings.Join(ps, ",") + "}"
	case reflect.Struct:
		var ps []string
		for i := 0; i < v.NumField(); i++ {
			f := v.Type().Field(i)
			if !f.IsExported() {
				continue
			}
			ps = append(ps, strings.ToLower(f.Name)+"="+logicalVd(v.Field(i), seen))
		}
		sort.Strings(ps)
		return "{" + strings.Join(ps, ",") + "}"
	case reflect.Func:
		return "func"
	case reflect.Chan:
		return "chan"
	}
	return "?" + v.Kind().String()
}

// ---------- renderings ----------

// Style says how logical documents become Go values.
type Style struct {
	Obj    string // "map" | "struct" | "nmap" (map[NString]any) | "imap" (map[any]any)
	Num    string // "f64" | "int" (int when whole and small, else f64) | "dec" | "mixed" (chosen per number from R) | "named" | "ptr"
	Typed  bool   // homogeneous scalar arrays become typed slices
	Array  bool   // arrays instead of slices
	PtrObj bool   // objects behind a pointer
	NamedS bool   // strings and bools of named types
	R      *rng
}

func structFieldName(k string) string {
	if k == "" {
		return "X"
	}
	return strings.ToUpper(k[:1]) + k[1:]
}

func validStructKey(k string) bool {
	if k == "" {
		return false
	}
	for i, c := range k {
		if !(c == '_' || c >= 'a' && c <= 'z' || c >= 'A' && c <= 'Z' || i > 0 && c >= '0' && c <= '9') {
			return false
		}
	}
	c := k[0]
	return c >= 'a' && c <= 'z' || c >= 'A' && c <= 'Z'
}

func isWholeSmall(d decimal.Decimal) bool {
	return d.IsInteger() && d.Abs().LessThan(decimal.New(1, 15))
}

func renderNum(d decimal.Decimal, st *Style) *TV {
	mode := st.Num
	if mode == "mixed" {
		mode = []string{"f64", "int", "dec", "named", "ptr", "f64", "uint"}[st.R.Intn(7)]
	}
	f, _ := d.Float64()
	asF := func() *TV {
		// only when the float64 round-trips to the same decimal value
		if decimal.NewFromFloat(f).Equal(d) {
			return tvF64(f)
		}
		return tvDec(d)
	}
	switch mode {
	case "f64":
		return asF()
	case "dec":
		return tvDec(d)
	case "ndec": // a named type over decimal.Decimal
		t := tvDec(d)
		t.N = 1
		return t
	case "int":
		if isWholeSmall(d) {
			k := "int"
			if st.R != nil {
				k = []string{"int", "int64", "int32", "int"}[st.R.Intn(4)]
				if k == "int32" && d.Abs().GreaterThan(decimal.New(2, 9)) {
					k = "int64"
				}
			}
			return tvInt(k, d.Truncate(0).String())
		}
		return asF()
	case "uint":
		if isWholeSmall(d) && !d.IsNegative() {
			return tvInt("uint64", d.Truncate(0).String())
		}
		return asF()
	case "named":
		if isWholeSmall(d) {
			t := tvInt("int64", d.Truncate(0).String())
			t.N = 1
			return t
		}
		t := asF()
		if t.T == "f64" {
			t.N = 1
		}
		return t
	case "ptr":
		if isWholeSmall(d) {
			return tvPtr(tvInt("int", d.Truncate(0).String()))
		}
		return tvPtr(asF())
	case "f32": // the nearest 32-bit float (NOT the same number as d in general: compared among the three f32 styles only)
		return tvF32(float32(f), 2)
	case "nf32":
		return tvF32(float32(f), 3)
	case "pf32":
		return tvPtr(tvF32(float32(f), 2))
	case "stringer": // named number types that have a String method
		if isWholeSmall(d) {
			return tvSInt("int64", d.Truncate(0).String())
		}
		t := asF()
		if t.T == "f64" {
			t.N = 4
		}
		return t
	}
	return asF()
}

func render(d *Doc, st *Style) *TV {
	switch d.K {
	case 'z':
		return tvNil()
	case 'b':
		if st.NamedS {
			return tvNBool(d.B)
		}
		return tvBool(d.B)
	case 'n':
		return renderNum(d.N, st)
	case 's':
		if st.NamedS {
			return tvNStr(d.S)
		}
		return tvStr(d.S)
	case 'a':
		xs := []*TV{}
		for _, x := range d.A {
			xs = append(xs, render(x, st))
		}
		ei := 1
		if st.Typed && len(xs) > 0 {
			same := true
			for _, e := range xs {
				if e.T != xs[0].T || e.K != xs[0].K || e.N != xs[0].N || !(e.T == "int" || e.T == "f64" || e.T == "str" || e.T == "bool" || e.T == "dec") {
					same = false
				}
			}
			if same {
				ei = 0
			}
		}
		if st.Array {
			return tvArray(ei, xs...)
		}
		return tvSlice(ei, xs...)
	case 'o':
		var out *TV
		useStruct := st.Obj == "struct"
		if useStruct {
			for _, k := range d.Keys {
				if !validStructKey(k) {
					useStruct = false
				}
			}
			if len(d.Keys) == 0 {
				useStruct = false
			}
		}
		if useStruct {
			fs := [][3]any{}
			for i, k := range d.Keys {
				fs = append(fs, [3]any{structFieldName(k), 1, render(d.Vals[i], st)})
			}
			out = tvStruct(fs)
		} else {
			kvs := [][2]any{}
			for i, k := range d.Keys {
				if st.Obj == "inmap" && k != "" { // map[any]any whose keys are of a named string type
					kvs = append(kvs, [2]any{"~ns:" + hx(k), render(d.Vals[i], st)})
					continue
				}
				kvs = append(kvs, [2]any{hx(k), render(d.Vals[i], st)})
			}
			kk := "str"
			switch st.Obj {
			case "nmap":
				kk = "named"
			case "imap", "inmap":
				kk = "iface"
			}
			out = tvMap(kk, kvs)
		}
		if st.PtrObj {
			return tvPtr(out)
		}
		return out
	}
	panic("bad doc")
}
