package main

// C02: a filter keeps exactly the matching elements, in order and unchanged.
//
// Every predicate is a value of c02Pred: its query text and, independently of mpath, a Go function that gives its truth
// value on a logical element (and the logical root, for arguments and nested groups that read `$`). The expected answer
// of a case is computed from the logical document alone: the elements on which every filter body of the chain is true,
// in their original order (arrays), or the object / null (single objects).

import (
	"fmt"
	"strings"
	"time"

	"github.com/shopspring/decimal"
)

func init() { evalGens["C02"] = genC02 }

type c02Pred struct {
	q    string
	f    func(e, root *Doc) bool
	root bool // the text begins with `$`: as an operand of a filter body it has to stand inside a nested group
}

// ---------- groups, bodies, chains ----------

func c02Fold(mode string, ps []c02Pred) func(e, root *Doc) bool {
	or := mode == "OR"
	return func(e, root *Doc) bool {
		for _, p := range ps {
			v := p.f(e, root)
			if or && v {
				return true
			}
			if !or && !v {
				return false
			}
		}
		return !or
	}
}

func c02Join(mode string, ps []c02Pred, wrapRoot bool) string {
	var parts []string
	if mode != "" {
		parts = append(parts, mode)
	}
	for _, p := range ps {
		if p.root && wrapRoot {
			parts = append(parts, "{"+p.q+"}")
		} else {
			parts = append(parts, p.q)
		}
	}
	return strings.Join(parts, ",")
}

// c02Group is the nested group {MODE,p1,...}; mode "" is the omitted keyword (AND).
func c02Group(mode string, ps ...c02Pred) c02Pred {
	return c02Pred{q: "{" + c02Join(mode, ps, false) + "}", f: c02Fold(mode, ps)}
}

// c02Body is the filter body [MODE,p1,...].
func c02Body(mode string, ps ...c02Pred) c02Pred {
	return c02Pred{q: "[" + c02Join(mode, ps, true) + "]", f: c02Fold(mode, ps)}
}

func c02ChainText(chain []c02Pred) string {
	var sb strings.Builder
	for _, b := range chain {
		sb.WriteString(b.q)
	}
	return sb.String()
}

// c02Keep: the specification of coll[b1][b2]... over an array.
func c02Keep(arr []*Doc, chain []c02Pred, root *Doc) *Doc {
	kept := []*Doc{}
	for _, e := range arr {
		ok := true
		for _, b := range chain {
			if !b.f(e, root) {
				ok = false
				break
			}
		}
		if ok {
			kept = append(kept, e)
		}
	}
	return dArr(kept...)
}

// c02Single: the specification over a single object. specified=false when a later filter of a chain would be applied
// to the null an earlier one produced (the statement speaks of one filter on an object).
func c02Single(obj *Doc, chain []c02Pred, root *Doc) (res *Doc, specified bool) {
	cur := obj
	for _, b := range chain {
		if cur.K == 'z' {
			return nil, false
		}
		if !b.f(obj, root) {
			cur = dNull()
		}
	}
	return cur, true
}

// ---------- exhaustive block: shapes ----------

type c02Item struct {
	leaf   int    // >= 0: the leaf itself
	mode   string // else a nested flat group with this mode over leaves
	leaves []int
}
type c02BodyShape struct {
	mode  string
	items []c02Item
}
type c02Shape []c02BodyShape

var c02Modes = []string{"", "AND", "OR"}

// compositions of the consecutive range [lo,hi) into consecutive non-empty segments
func c02Compositions(lo, hi int) [][][2]int {
	if lo == hi {
		return [][][2]int{{}}
	}
	var out [][][2]int
	for m := lo + 1; m <= hi; m++ {
		for _, rest := range c02Compositions(m, hi) {
			out = append(out, append([][2]int{{lo, m}}, rest...))
		}
	}
	return out
}

// all bodies over the leaves [lo,hi): every split into items (a single leaf, or a nested flat group of >= 2 leaves in
// each of the three modes) x the three body modes (only the omitted keyword for a one-leaf body when plainSingles).
func c02Bodies(lo, hi int, plainSingles bool) []c02BodyShape {
	var itemSeqs [][]c02Item
	for _, comp := range c02Compositions(lo, hi) {
		seqs := [][]c02Item{{}}
		for _, seg := range comp {
			var alts []c02Item
			if seg[1]-seg[0] == 1 {
				alts = []c02Item{{leaf: seg[0]}}
			} else {
				var ls []int
				for i := seg[0]; i < seg[1]; i++ {
					ls = append(ls, i)
				}
				for _, m := range c02Modes {
					alts = append(alts, c02Item{leaf: -1, mode: m, leaves: ls})
				}
			}
			var next [][]c02Item
			for _, s := range seqs {
				for _, a := range alts {
					next = append(next, append(append([]c02Item{}, s...), a))
				}
			}
			seqs = next
		}
		itemSeqs = append(itemSeqs, seqs...)
	}
	var out []c02BodyShape
	for _, items := range itemSeqs {
		for _, m := range c02Modes {
			if plainSingles && hi-lo == 1 && m != "" {
				continue
			}
			out = append(out, c02BodyShape{mode: m, items: items})
		}
	}
	return out
}

// all chains over k leaves in order. In a chain of several bodies a one-leaf body carries no keyword unless full.
func c02Shapes(k int, full bool) []c02Shape {
	var out []c02Shape
	for _, comp := range c02Compositions(0, k) {
		shapes := []c02Shape{{}}
		for _, seg := range comp {
			bodies := c02Bodies(seg[0], seg[1], len(comp) > 1 && !full)
			var next []c02Shape
			for _, s := range shapes {
				for _, b := range bodies {
					next = append(next, append(append(c02Shape{}, s...), b))
				}
			}
			shapes = next
		}
		out = append(out, shapes...)
	}
	return out
}

func (s c02Shape) build(leaves []c02Pred) []c02Pred {
	var chain []c02Pred
	for _, b := range s {
		var ps []c02Pred
		for _, it := range b.items {
			if it.leaf >= 0 {
				ps = append(ps, leaves[it.leaf])
				continue
			}
			var sub []c02Pred
			for _, l := range it.leaves {
				sub = append(sub, leaves[l])
			}
			ps = append(ps, c02Group(it.mode, sub...))
		}
		chain = append(chain, c02Body(b.mode, ps...))
	}
	return chain
}

// the shapes with at most one leaf, written out (nested one-leaf and empty groups appear only here)
func c02SmallShapes(k int) [][]c02Pred {
	if k == 0 {
		e := []c02Pred{}
		return [][]c02Pred{
			{c02Body("", e...)}, {c02Body("AND", e...)}, {c02Body("OR", e...)},
			{c02Body("", c02Group(""))}, {c02Body("", c02Group("AND"))}, {c02Body("", c02Group("OR"))},
			{c02Body("OR", c02Group(""))}, {c02Body("OR", c02Group("OR"))}, {c02Body("AND"), c02Body("")},
		}
	}
	return nil
}

func c02OneLeafShapes(p c02Pred) [][]c02Pred {
	return [][]c02Pred{
		{c02Body("", p)}, {c02Body("AND", p)}, {c02Body("OR", p)},
		{c02Body("", c02Group("", p))}, {c02Body("", c02Group("AND", p))}, {c02Body("", c02Group("OR", p))},
		{c02Body("OR", c02Group("OR", p))}, {c02Body("", p), c02Body("")}, {c02Body("OR"), c02Body("", p)},
	}
}

// ---------- exhaustive block: leaves whose truth on an element is one independent bit ----------

const c02LeafKinds = 8

var c02TrueNums = []string{"1", "2.5", "100"}
var c02FalseNums = []string{"0", "-1", "-0.5"}

// c02BitLeaf: leaf number i of the given kind. put adds to an element the field(s) that make the leaf's truth equal bit.
func c02BitLeaf(kind, i int) (p c02Pred, put func(o *Doc, bit bool, salt int)) {
	is := fmt.Sprint(i)
	add := func(o *Doc, k string, v *Doc) {
		o.Keys = append(o.Keys, k)
		o.Vals = append(o.Vals, v)
	}
	numBit := func(o *Doc, bit bool, salt int) {
		if bit {
			add(o, "n"+is, dNum(c02TrueNums[salt%3]))
		} else {
			add(o, "n"+is, dNum(c02FalseNums[salt%3]))
		}
	}
	strBit := func(o *Doc, bit bool, salt int) {
		if bit {
			add(o, "s"+is, dStr([]string{"yes", "yep", "y"}[salt%3]))
		} else {
			add(o, "s"+is, dStr([]string{"no", "", "nah"}[salt%3]))
		}
	}
	fieldBool := func(name string) func(e *Doc) bool {
		return func(e *Doc) bool { v := e.get(name); return v != nil && v.K == 'b' && v.B }
	}
	switch kind {
	case 0: // a boolean field
		return c02Pred{q: "@.p" + is, f: func(e, _ *Doc) bool { return fieldBool("p" + is)(e) }},
			func(o *Doc, bit bool, _ int) { add(o, "p"+is, dBool(bit)) }
	case 1: // a comparison with a literal
		return c02Pred{q: "@.n" + is + ".Greater(0)", f: func(e, _ *Doc) bool { return e.get("n"+is).N.Sign() > 0 }}, numBit
	case 2: // a string test
		return c02Pred{q: "@.s" + is + `.Prefix("y")`, f: func(e, _ *Doc) bool { return strings.HasPrefix(e.get("s"+is).S, "y") }}, strBit
	case 3: // negation of a boolean field
		return c02Pred{q: "@.q" + is + ".Not()", f: func(e, _ *Doc) bool { return !fieldBool("q" + is)(e) }},
			func(o *Doc, bit bool, _ int) { add(o, "q"+is, dBool(!bit)) }
	case 4: // a comparison whose argument reads `$`
		return c02Pred{q: "@.n" + is + ".GreaterOrEqual($.one)", f: func(e, root *Doc) bool { return e.get("n"+is).N.Cmp(root.get("one").N) >= 0 }}, numBit
	case 5: // a null test behind `?` (the key is absent, null or a number)
		return c02Pred{q: "@.z" + is + "?.IsNotNull()", f: func(e, _ *Doc) bool { v := e.get("z" + is); return v != nil && v.K != 'z' }},
			func(o *Doc, bit bool, salt int) {
				switch {
				case bit:
					add(o, "z"+is, dNum(c02FalseNums[salt%3])) // a zero is not null
				case salt%2 == 0:
					add(o, "z"+is, dNull())
				}
			}
	case 6: // a string test whose argument reads `$`
		return c02Pred{q: "@.s" + is + ".Contains($.y)", f: func(e, root *Doc) bool { return strings.Contains(e.get("s"+is).S, root.get("y").S) }}, strBit
	default: // equality with a boolean literal
		return c02Pred{q: "@.p" + is + ".Equal(true)", f: func(e, _ *Doc) bool { return fieldBool("p" + is)(e) }},
			func(o *Doc, bit bool, _ int) { add(o, "p"+is, dBool(bit)) }
	}
}

// leaves over a primitive number e = 8*index + bits: bit i of e
func c02PrimLeaf(i int) c02Pred {
	m := int64(2) << uint(i)
	h := m / 2
	bit := func(e, _ *Doc) bool { return e.N.IntPart()%m >= h }
	if i == 0 {
		return c02Pred{q: "@.Modulo(2).Equal(1)", f: bit}
	}
	return c02Pred{q: fmt.Sprintf("@.Modulo(%d).GreaterOrEqual(%d)", m, h), f: bit}
}

type c02Style struct {
	name string
	st   Style
}

func c02Styles(r *rng) []c02Style {
	return []c02Style{
		{"map-f64", Style{Obj: "map", Num: "f64"}},
		{"struct-int", Style{Obj: "struct", Num: "int", R: r}},
		{"map-dec", Style{Obj: "map", Num: "dec"}},
		{"map-int-typed", Style{Obj: "map", Num: "int", Typed: true}},
		{"nmap-named", Style{Obj: "nmap", Num: "named", NamedS: true}},
		{"imap-mixed", Style{Obj: "imap", Num: "mixed", R: r}},
		{"map-ptrnum", Style{Obj: "map", Num: "ptr"}},
		{"ptr-objects", Style{Obj: "map", Num: "f64", PtrObj: true}},
		{"go-arrays", Style{Obj: "map", Num: "f64", Array: true}},
		{"struct-f64-typed", Style{Obj: "struct", Num: "f64", Typed: true}},
		{"map-uint", Style{Obj: "map", Num: "uint"}},
		{"struct-named-typed", Style{Obj: "struct", Num: "named", NamedS: true, Typed: true}},
		{"struct-ptr", Style{Obj: "struct", Num: "dec", PtrObj: true}},
	}
}

type c02Run struct {
	c        *Ctx
	r        *rng
	styles   []c02Style
	n        int
	stHist   map[string]int
	keptHist map[string]int
}

// kept counts, for the random classes, how many expected results are empty / everything / a proper part
func (g *c02Run) kept(cls string, k, n int) {
	if !strings.HasPrefix(cls, "random/") {
		return
	}
	switch {
	case n == 0:
		g.keptHist["empty-input"]++
	case k == 0:
		g.keptHist["none-kept"]++
	case k == n:
		g.keptHist["all-kept"]++
	default:
		g.keptHist["proper-part-kept"]++
	}
}

func (g *c02Run) style() *c02Style {
	g.n++
	s := &g.styles[g.n%len(g.styles)]
	g.stHist[s.name]++
	return s
}

// emitArr: `$.xs<chain>` on {xs: arr, ...extra}
func (g *c02Run) emitArr(arr []*Doc, extra []any, chain []c02Pred, cls string, inDomain bool) {
	root := dObj(append([]any{"xs", dArr(arr...)}, extra...)...)
	want := c02Keep(arr, chain, root)
	g.kept(cls, len(want.A), len(arr))
	s := g.style()
	st := s.st
	cs := Case{Q: "$.xs" + c02ChainText(chain), D: render(root, &st), Cls: cls, InDomain: inDomain}
	if inDomain {
		cs.XK, cs.X = "logical", logicalDoc(want)
	}
	g.c.Do(cs)
}

// emitRootArr: `$<chain>` on the array itself (the predicates must not read `$`)
func (g *c02Run) emitRootArr(arr []*Doc, chain []c02Pred, cls string) {
	root := dArr(arr...)
	want := c02Keep(arr, chain, root)
	s := g.style()
	st := s.st
	g.c.DoR(Case{Q: "$" + c02ChainText(chain), D: render(root, &st), Cls: cls, InDomain: true, XK: "logical", X: logicalDoc(want)})
}

// emitObj: `$.o<chain>` on {o: obj, ...extra}, or `$<chain>` on the object itself when atRoot (extra is then part of it)
func (g *c02Run) emitObj(obj *Doc, extra []any, chain []c02Pred, cls string, atRoot bool) {
	var root *Doc
	q := "$.o"
	if atRoot {
		root = &Doc{K: 'o', Keys: append([]string{}, obj.Keys...), Vals: append([]*Doc{}, obj.Vals...)}
		for i := 0; i+1 < len(extra); i += 2 {
			root.Keys = append(root.Keys, extra[i].(string))
			root.Vals = append(root.Vals, extra[i+1].(*Doc))
		}
		obj = root
		q = "$"
	} else {
		root = dObj(append([]any{"o", obj}, extra...)...)
	}
	want, specified := c02Single(obj, chain, root)
	s := g.style()
	st := s.st
	cs := Case{Q: q + c02ChainText(chain), D: render(root, &st), Cls: cls, InDomain: specified}
	if specified {
		cs.XK, cs.X = "logical", logicalDoc(want)
	} else {
		cs.Cls = cls + "/chain-after-null(unspecified)"
	}
	g.c.Do(cs)
}

func c02ShapeClass(k int, chain []c02Pred) string {
	kind := "flat"
	if len(chain) > 1 {
		kind = "chain"
	}
	for _, b := range chain {
		if strings.Contains(b.q, "{") {
			kind += "+nested"
			break
		}
	}
	return fmt.Sprintf("%dpred/%s", k, kind)
}

func genC02(c *Ctx) {
	// every random choice comes from c.R: one draw seeds a private stream. (core.go's newRng makes seed k+1 the stream
	// of seed k shifted by one draw, and a step that consumes a data-dependent number of draws - rendering mixed
	// number carriers - re-synchronises such streams for good; a stream seeded by a drawn value is not a small shift.)
	r := newRng(c.R.next())
	g := &c02Run{c: c, r: r, styles: c02Styles(r), stHist: map[string]int{}, keptHist: map[string]int{}}
	maxN3, n4note := 3, " (plus n=4 for the flat k=3 shapes [p,q,r] and [OR,p,q,r])"
	if c.thorough() {
		maxN3, n4note = 4, ""
	}
	c.Rule = fmt.Sprintf("exhaustive: every filter chain over k<=3 predicates p0..p(k-1) taken in order - every split into consecutive bodies [..][..], every body with the keyword omitted, AND or OR, its operands the predicates themselves or nested flat groups {..}/{AND,..}/{OR,..} of >=2 of them (one-leaf and empty groups and empty bodies are listed separately for k<=1; for k=3 a one-predicate body inside a longer chain carries no keyword) - crossed with every truth pattern: all arrays of n elements, each element realising one of the 2^k truth vectors, n<=4 for k<=2 and n<=%d for k=3%s, every element carrying its index so order and identity are visible; plus every shape x every truth vector on a single object (under a key and at the root). The predicate realising bit i rotates over 8 kinds (boolean field, comparison with a literal, string test, .Not(), comparison and string test whose argument reads `$`, `?`-guarded null test, Equal(true)) and every sixth array is an array of primitive numbers 8*index+bits tested with Modulo; the Go rendering rotates over 13 carriers (maps with string/named/interface keys, structs, pointers to objects, typed slices, Go arrays, float64/int/uint/decimal/named/pointer numbers). coll[p][q] and coll[AND,p,q] are both generated and get the same expected value. long collections: arrays of 63..2050 elements (to 16385 in the thorough tier; lengths around every power of two and some that are no multiple of anything convenient), objects with an id and two predicate fields and arrays of numbers, kept elements everywhere / at odd positions / only the last ones / only the first ones / after a chain of two filters. random: arrays of 0..12 objects (a random subset of: numbers, strings, booleans, nullable key, nested object, nested arrays of objects and of strings) and arrays of numbers, strings, booleans and mixed primitives, single objects and root-level arrays, with chains of 1..3 bodies of 1..4 random predicates to depth 3: comparisons with literals, with `$.limit`, after arithmetic, AnyOf with literals and with a spread `$.lims`, string tests with literals and `$.name`, boolean fields with Not/Invert/Equal, null tests, Any/Count over nested arrays and nested filters, nested groups with `$` leaves. The expected value always comes from the generator's own evaluation of its predicate tree on the logical document. Numeral strings are a separate out-of-domain class without expectation; a later filter applied to the null an earlier one produced on a single object is out of domain (the statement defines one filter on an object). distinct = distinct (query skeleton, data shape to depth 2, outcome class); non-trivial = outcome class is not the most common one", maxN3, n4note)

	t0 := time.Now()
	c02Exhaustive(g, maxN3)
	c.Exhaustive = true
	c.Extra["exhaustive_cases"], c.Extra["exhaustive_ms"] = c.N, int(time.Since(t0).Milliseconds())
	c02Long(g)
	t1 := time.Now()
	c02Random(g)
	c.Extra["random_ms"] = int(time.Since(t1).Milliseconds())
	c.Extra["style_histogram"] = g.stHist
	c.Extra["random_array_expected_histogram"] = g.keptHist
}

// c02Long: long collections (an implementation may treat them differently from short ones: chunks, workers, pre-sized buffers);
// the kept elements sit at the front, at the back, across every power-of-two boundary and everywhere.
func c02Long(g *c02Run) {
	lens := []int{63, 64, 65, 127, 129, 255, 256, 257, 511, 512, 513, 514, 515, 1000, 1023, 1024, 1025, 2047, 2050}
	if g.c.thorough() {
		lens = append(lens, 4095, 4097, 8191, 8193, 10001, 16385)
	}
	lens = around(lens, 20000) // and the neighbours of every integer constant that is new in the source
	p0, put0 := c02BitLeaf(0, 0)
	n1, put1 := c02BitLeaf(1, 1)
	for li, n := range lens {
		mk := func(bit0 func(i int) bool) []*Doc {
			arr := make([]*Doc, n)
			for i := range arr {
				o := dObj("id", dNum(fmt.Sprint(i)))
				put0(o, bit0(i), i)
				put1(o, i%3 != 0, i)
				arr[i] = o
			}
			return arr
		}
		idAtLeast := func(k int) c02Pred {
			return c02Pred{q: fmt.Sprintf("@.id.GreaterOrEqual(%d)", k), f: func(e, _ *Doc) bool { return e.get("id").N.IntPart() >= int64(k) }}
		}
		idBelow := func(k int) c02Pred {
			return c02Pred{q: fmt.Sprintf("@.id.Less(%d)", k), f: func(e, _ *Doc) bool { return e.get("id").N.IntPart() < int64(k) }}
		}
		cls := fmt.Sprintf("long-list/len%d", n)
		g.emitArr(mk(func(i int) bool { return true }), nil, []c02Pred{c02Body("", p0)}, cls+"/all", true)
		g.emitArr(mk(func(i int) bool { return i%2 == 1 }), nil, []c02Pred{c02Body("", p0)}, cls+"/odd", true)
		g.emitArr(mk(func(i int) bool { return i >= n-3 }), nil, []c02Pred{c02Body("", p0)}, cls+"/last3", true)
		g.emitArr(mk(func(i int) bool { return i == n-1 }), nil, []c02Pred{c02Body("", p0)}, cls+"/last", true)
		g.emitArr(mk(func(i int) bool { return i%5 != 0 }), nil, []c02Pred{c02Body("AND", p0, n1)}, cls+"/and", true)
		g.emitArr(mk(func(i int) bool { return i%7 == 0 }), nil, []c02Pred{c02Body("OR", p0, idAtLeast(n-2))}, cls+"/or-tail", true)
		g.emitArr(mk(func(i int) bool { return i%2 == 0 }), nil, []c02Pred{c02Body("", p0), c02Body("", idAtLeast(n/2))}, cls+"/chain", true)
		g.emitArr(mk(func(i int) bool { return false }), nil, []c02Pred{c02Body("", idBelow(2))}, cls+"/first2", true)
		if li%3 == 0 {
			// numbers
			arr := make([]*Doc, n)
			for i := range arr {
				arr[i] = dNum(fmt.Sprint(8*i + i%8))
			}
			g.emitRootArr(arr, []c02Pred{c02Body("", c02PrimLeaf(0))}, cls+"/numbers-root")
			g.emitArr(arr, nil, []c02Pred{c02Body("", c02PrimLeaf(1))}, cls+"/numbers", true)
		}
	}
}

func c02Exhaustive(g *c02Run, maxN3 int) {
	extra := []any{"one", dNum("1"), "y", dStr("y")}
	arrNo := 0
	for k := 0; k <= 3; k++ {
		maxN := 4 // for k=3 the arrays with n > maxN3 meet only the flat shapes [p,q,r] and [OR,p,q,r] (quick)
		shapes := c02Shapes(k, k <= 2)
		nvec := 1 << uint(k)
		// arrays: n digits in base 2^k
		for n := 0; n <= maxN; n++ {
			total := 1
			for i := 0; i < n; i++ {
				total *= nvec
			}
			for code := 0; code < total; code++ {
				arrNo++
				bits := make([]int, n)
				x := code
				for i := 0; i < n; i++ {
					bits[i] = x % nvec
					x /= nvec
				}
				prim := arrNo%6 == 5
				var leaves []c02Pred
				var arr []*Doc
				if prim {
					for i := 0; i < k; i++ {
						leaves = append(leaves, c02PrimLeaf(i))
					}
					for idx, b := range bits {
						arr = append(arr, dNum(fmt.Sprint(8*idx+b)))
					}
				} else {
					var puts []func(o *Doc, bit bool, salt int)
					for i := 0; i < k; i++ {
						p, put := c02BitLeaf((arrNo+3*i)%c02LeafKinds, i)
						leaves = append(leaves, p)
						puts = append(puts, put)
					}
					for idx, b := range bits {
						o := dObj("id", dNum(fmt.Sprint(idx)))
						for i := 0; i < k; i++ {
							puts[i](o, b>>uint(i)&1 == 1, arrNo+idx+i)
						}
						arr = append(arr, o)
					}
				}
				// the enumeration is over truth patterns: every leaf must realise exactly its bit
				chkRoot := dObj(extra...)
				for idx, b := range bits {
					for i := 0; i < k; i++ {
						if leaves[i].f(arr[idx], chkRoot) != (b>>uint(i)&1 == 1) {
							panic("c02: leaf does not realise its bit: " + leaves[i].q)
						}
					}
				}
				pcls := "objects"
				if prim {
					pcls = "numbers"
				}
				emit := func(chain []c02Pred) {
					g.emitArr(arr, extra, chain, fmt.Sprintf("exhaustive/%s/%s", c02ShapeClass(k, chain), pcls), true)
				}
				switch k {
				case 0:
					for _, ch := range c02SmallShapes(0) {
						emit(ch)
					}
				case 1:
					for _, ch := range c02OneLeafShapes(leaves[0]) {
						emit(ch)
					}
				default:
					for _, sh := range shapes {
						if k == 3 && n > maxN3 {
							// quick: only the flat shapes [p,q,r] and [OR,p,q,r] at n=4
							flat := len(sh) == 1 && sh[0].mode != "AND"
							for _, it := range sh[0].items {
								if it.leaf < 0 {
									flat = false
								}
							}
							if !flat {
								continue
							}
						}
						emit(sh.build(leaves))
					}
				}
			}
		}
		// single objects: every shape x every truth vector, under a key and at the root
		for vec := 0; vec < nvec; vec++ {
			for kindOff := 0; kindOff < 2; kindOff++ {
				var leaves []c02Pred
				o := dObj("id", dNum("7"))
				for i := 0; i < k; i++ {
					p, put := c02BitLeaf((vec+kindOff*5+3*i)%c02LeafKinds, i)
					leaves = append(leaves, p)
					put(o, vec>>uint(i)&1 == 1, vec+i)
					if p.f(o, dObj(extra...)) != (vec>>uint(i)&1 == 1) {
						panic("c02: leaf does not realise its bit: " + p.q)
					}
				}
				var chains [][]c02Pred
				switch k {
				case 0:
					chains = c02SmallShapes(0)
				case 1:
					chains = c02OneLeafShapes(leaves[0])
				default:
					for _, sh := range shapes {
						chains = append(chains, sh.build(leaves))
					}
				}
				for _, ch := range chains {
					g.emitObj(o, extra, ch, fmt.Sprintf("exhaustive/single-object/%dpred", k), kindOff == 1)
				}
			}
		}
	}
}

// ---------- random block ----------

var c02Nums = []string{"0", "1", "2", "3", "4", "-1", "1.5", "2.5", "10", "0.1", "-7.25", "100", "0.25", "7"}
var c02Strs = []string{"", "abc", "abcDEF", "x", "hello", "ab", "DEF", "yes", "no", "a b", "Abc", "xyz"}
var c02Subs = []string{"", "a", "ab", "abc", "DEF", "x", "y", "lo", "e", "b", "z"}
var c02NumeralStrs = []string{"12", "0123", "1e3", "-0.50", "7"}

func c02Dec(s string) decimal.Decimal { return decimal.RequireFromString(s) }

func c02Item3(r *rng) *Doc { // an element of @.items
	return dObj("n", dNum(r.Pick(c02Nums)), "s", dStr(r.Pick(c02Strs)), "b", dBool(r.Bool()))
}

// c02Schema: which fields the elements of one case carry (the predicates use only these; keeps the data small)
type c02Schema struct {
	nums, strs, bools [][]string
	z, items, tags, o bool
}

func (sc *c02Schema) has(k string) bool {
	for _, xs := range [][][]string{sc.nums, sc.strs, sc.bools} {
		for _, p := range xs {
			if len(p) == 1 && p[0] == k {
				return true
			}
		}
	}
	return false
}

func c02RandSchema(r *rng) *c02Schema {
	sc := &c02Schema{nums: [][]string{{"id"}}}
	pick := func(num, den int) bool { return r.Intn(den) < num }
	if pick(7, 10) {
		sc.nums = append(sc.nums, []string{"n"})
	}
	if pick(1, 4) {
		sc.nums = append(sc.nums, []string{"m"})
	}
	if pick(1, 2) {
		sc.strs = append(sc.strs, []string{"s"})
	}
	if pick(1, 5) {
		sc.strs = append(sc.strs, []string{"t"})
	}
	if pick(1, 2) {
		sc.bools = append(sc.bools, []string{"b"})
	}
	if pick(1, 5) {
		sc.bools = append(sc.bools, []string{"c"})
	}
	if pick(1, 4) {
		sc.o = true
		sc.nums, sc.strs, sc.bools = append(sc.nums, []string{"o", "n"}), append(sc.strs, []string{"o", "s"}), append(sc.bools, []string{"o", "b"})
	}
	sc.z, sc.items, sc.tags = pick(1, 4), pick(3, 10), pick(1, 5)
	return sc
}

func c02Elem(r *rng, id int, sc *c02Schema) *Doc {
	o := dObj("id", dNum(fmt.Sprint(id)))
	add := func(k string, v *Doc) { o.Keys, o.Vals = append(o.Keys, k), append(o.Vals, v) }
	for _, k := range []string{"n", "m"} {
		if sc.has(k) {
			add(k, dNum(r.Pick(c02Nums)))
		}
	}
	for _, k := range []string{"s", "t"} {
		if sc.has(k) {
			add(k, dStr(r.Pick(c02Strs)))
		}
	}
	for _, k := range []string{"b", "c"} {
		if sc.has(k) {
			add(k, dBool(r.Bool()))
		}
	}
	if sc.z {
		switch r.Intn(3) {
		case 0:
			add("z", dNull())
		case 1:
			add("z", dNum(r.Pick(c02Nums)))
		}
	}
	if sc.items {
		items := []*Doc{}
		for i, n := 0, r.Intn(4); i < n; i++ {
			items = append(items, c02Item3(r))
		}
		add("items", dArr(items...))
	}
	if sc.tags {
		tags := []*Doc{}
		for i, n := 0, r.Intn(4); i < n; i++ {
			tags = append(tags, dStr(r.Pick(c02Strs)))
		}
		add("tags", dArr(tags...))
	}
	if sc.o {
		add("o", c02Item3(r))
	}
	return o
}

var c02ItemSchema = &c02Schema{nums: [][]string{{"n"}}, strs: [][]string{{"s"}}, bools: [][]string{{"b"}}}

// c02Path: a key chain `@.a.b` together with its accessor
type c02Path struct {
	q   string
	get func(e *Doc) *Doc
}

func c02Field(keys ...string) c02Path {
	return c02Path{q: "@." + strings.Join(keys, "."), get: func(e *Doc) *Doc {
		for _, k := range keys {
			e = e.get(k)
		}
		return e
	}}
}

var c02Self = c02Path{q: "@", get: func(e *Doc) *Doc { return e }}

type c02Cmp struct {
	name string
	ok   func(c int) bool
}

var c02Cmps = []c02Cmp{
	{"Greater", func(c int) bool { return c > 0 }}, {"GreaterOrEqual", func(c int) bool { return c >= 0 }},
	{"Less", func(c int) bool { return c < 0 }}, {"LessOrEqual", func(c int) bool { return c <= 0 }},
	{"Equal", func(c int) bool { return c == 0 }}, {"NotEqual", func(c int) bool { return c != 0 }},
}

// c02NumPred: a boolean test of the number at p
func c02NumPred(r *rng, p c02Path, useRoot bool) c02Pred {
	cm := c02Cmps[r.Intn(len(c02Cmps))]
	// optional exact arithmetic before the comparison
	val := func(e *Doc) decimal.Decimal { return p.get(e).N }
	q := p.q
	if r.Intn(4) == 0 {
		a := r.Pick(c02Nums)
		ad := c02Dec(a)
		inner := val
		switch r.Intn(3) {
		case 0:
			q += ".Add(" + a + ")"
			val = func(e *Doc) decimal.Decimal { return inner(e).Add(ad) }
		case 1:
			q += ".Subtract(" + a + ")"
			val = func(e *Doc) decimal.Decimal { return inner(e).Sub(ad) }
		default:
			q += ".Multiply(" + a + ")"
			val = func(e *Doc) decimal.Decimal { return inner(e).Mul(ad) }
		}
	}
	dot := q + "."
	switch k := r.Intn(10); {
	case k < 5: // literal
		l := r.Pick(c02Nums)
		ld := c02Dec(l)
		return c02Pred{q: dot + cm.name + "(" + l + ")", f: func(e, _ *Doc) bool { return cm.ok(val(e).Cmp(ld)) }}
	case k < 7 && useRoot: // `$` in the argument
		return c02Pred{q: dot + cm.name + "($.limit)", f: func(e, root *Doc) bool { return cm.ok(val(e).Cmp(root.get("limit").N)) }}
	case k == 7: // `@` in the argument is the receiver
		return c02Pred{q: dot + cm.name + "(@)", f: func(e, _ *Doc) bool { return cm.ok(0) }}
	case k == 8 && useRoot: // a spread array argument
		return c02Pred{q: dot + "AnyOf($.lims)", f: func(e, root *Doc) bool {
			for _, x := range root.get("lims").A {
				if val(e).Cmp(x.N) == 0 {
					return true
				}
			}
			return false
		}}
	default:
		n := 1 + r.Intn(3)
		var ls []string
		var ds []decimal.Decimal
		for i := 0; i < n; i++ {
			l := r.Pick(c02Nums)
			ls = append(ls, l)
			ds = append(ds, c02Dec(l))
		}
		return c02Pred{q: dot + "AnyOf(" + strings.Join(ls, ",") + ")", f: func(e, _ *Doc) bool {
			for _, d := range ds {
				if val(e).Cmp(d) == 0 {
					return true
				}
			}
			return false
		}}
	}
}

type c02StrFn struct {
	name string
	f    func(s, a string) bool
}

var c02StrFns = []c02StrFn{
	{"Contains", strings.Contains}, {"NotContains", func(s, a string) bool { return !strings.Contains(s, a) }},
	{"Prefix", strings.HasPrefix}, {"NotPrefix", func(s, a string) bool { return !strings.HasPrefix(s, a) }},
	{"Suffix", strings.HasSuffix}, {"NotSuffix", func(s, a string) bool { return !strings.HasSuffix(s, a) }},
	{"Equal", func(s, a string) bool { return s == a }}, {"NotEqual", func(s, a string) bool { return s != a }},
}

func c02StrPred(r *rng, p c02Path, useRoot bool) c02Pred {
	fn := c02StrFns[r.Intn(len(c02StrFns))]
	switch k := r.Intn(8); {
	case k < 2 && useRoot:
		return c02Pred{q: p.q + "." + fn.name + "($.name)", f: func(e, root *Doc) bool { return fn.f(p.get(e).S, root.get("name").S) }}
	case k == 2:
		n := 1 + r.Intn(3)
		var ls, qs []string
		for i := 0; i < n; i++ {
			l := r.Pick(c02Strs)
			ls = append(ls, l)
			qs = append(qs, `"`+l+`"`)
		}
		return c02Pred{q: p.q + ".AnyOf(" + strings.Join(qs, ",") + ")", f: func(e, _ *Doc) bool {
			for _, l := range ls {
				if p.get(e).S == l {
					return true
				}
			}
			return false
		}}
	default:
		a := r.Pick(c02Subs)
		if fn.name == "Equal" || fn.name == "NotEqual" {
			a = r.Pick(c02Strs)
		}
		return c02Pred{q: p.q + "." + fn.name + `("` + a + `")`, f: func(e, _ *Doc) bool { return fn.f(p.get(e).S, a) }}
	}
}

func c02BoolPred(r *rng, p c02Path, useRoot bool) c02Pred {
	v := func(e *Doc) bool { return p.get(e).B }
	switch k := r.Intn(8); {
	case k < 2:
		return c02Pred{q: p.q, f: func(e, _ *Doc) bool { return v(e) }}
	case k == 2:
		return c02Pred{q: p.q + ".Not()", f: func(e, _ *Doc) bool { return !v(e) }}
	case k == 3:
		return c02Pred{q: p.q + ".Invert()", f: func(e, _ *Doc) bool { return !v(e) }}
	case k == 4 && useRoot:
		return c02Pred{q: p.q + ".Equal($.flag)", f: func(e, root *Doc) bool { return v(e) == root.get("flag").B }}
	case k == 5:
		return c02Pred{q: p.q + ".Not().Not()", f: func(e, _ *Doc) bool { return v(e) }}
	default:
		lit := r.Bool()
		if r.Bool() {
			return c02Pred{q: p.q + ".Equal(" + fmt.Sprint(lit) + ")", f: func(e, _ *Doc) bool { return v(e) == lit }}
		}
		return c02Pred{q: p.q + ".NotEqual(" + fmt.Sprint(lit) + ")", f: func(e, _ *Doc) bool { return v(e) != lit }}
	}
}

// c02CountTest: `<q>.Any()` / `<q>.Count().Cmp(k)` for an array-valued prefix whose specification is sel
func c02CountTest(r *rng, q string, sel func(e, root *Doc) int) c02Pred {
	if r.Intn(2) == 0 {
		return c02Pred{q: q + ".Any()", f: func(e, root *Doc) bool { return sel(e, root) > 0 }}
	}
	cm := c02Cmps[r.Intn(len(c02Cmps))]
	k := r.Intn(4)
	return c02Pred{q: fmt.Sprintf("%s.Count().%s(%d)", q, cm.name, k), f: func(e, root *Doc) bool {
		n := sel(e, root)
		c := 0
		if n > k {
			c = 1
		} else if n < k {
			c = -1
		}
		return cm.ok(c)
	}}
}

// c02RootLeaf: an element-independent predicate that reads `$` directly (only legal inside a nested group)
func c02RootLeaf(r *rng) c02Pred {
	switch r.Intn(5) {
	case 0:
		return c02Pred{q: "$.flag", root: true, f: func(_, root *Doc) bool { return root.get("flag").B }}
	case 1:
		return c02Pred{q: "$.flag.Not()", root: true, f: func(_, root *Doc) bool { return !root.get("flag").B }}
	case 2:
		l := r.Pick(c02Nums)
		ld := c02Dec(l)
		return c02Pred{q: "$.limit.Greater(" + l + ")", root: true, f: func(_, root *Doc) bool { return root.get("limit").N.Cmp(ld) > 0 }}
	case 3:
		a := r.Pick(c02Subs)
		return c02Pred{q: `$.name.Contains("` + a + `")`, root: true, f: func(_, root *Doc) bool { return strings.Contains(root.get("name").S, a) }}
	default:
		k := r.Intn(6)
		return c02Pred{q: fmt.Sprintf("$.lims.Count().Greater(%d)", k), root: true, f: func(_, root *Doc) bool { return len(root.get("lims").A) > k }}
	}
}

// c02Gen: a random predicate over an element with the given fields
func c02Gen(r *rng, sc *c02Schema, depth int, useRoot bool) c02Pred {
	if depth > 0 && r.Intn(5) == 0 { // nested group
		n := 1 + r.Intn(3)
		var ps []c02Pred
		for i := 0; i < n; i++ {
			if useRoot && r.Intn(4) == 0 {
				ps = append(ps, c02RootLeaf(r))
			} else {
				ps = append(ps, c02Gen(r, sc, depth-1, useRoot))
			}
		}
		return c02Group(c02Modes[r.Intn(3)], ps...)
	}
	var alts []func() c02Pred
	w := func(n int, f func() c02Pred) {
		for i := 0; i < n; i++ {
			alts = append(alts, f)
		}
	}
	w(5, func() c02Pred { return c02NumPred(r, c02Field(sc.nums[r.Intn(len(sc.nums))]...), useRoot) })
	if len(sc.strs) > 0 {
		w(5, func() c02Pred { return c02StrPred(r, c02Field(sc.strs[r.Intn(len(sc.strs))]...), useRoot) })
	}
	if len(sc.bools) > 0 {
		w(5, func() c02Pred { return c02BoolPred(r, c02Field(sc.bools[r.Intn(len(sc.bools))]...), useRoot) })
	}
	if sc.z {
		w(4, func() c02Pred {
			present := func(e *Doc) bool { v := e.get("z"); return v != nil && v.K != 'z' }
			if r.Bool() {
				return c02Pred{q: "@.z?.IsNull()", f: func(e, _ *Doc) bool { return !present(e) }}
			}
			return c02Pred{q: "@.z?.IsNotNull()", f: func(e, _ *Doc) bool { return present(e) }}
		})
	}
	if sc.items {
		w(2, func() c02Pred {
			return c02CountTest(r, "@.items", func(e, _ *Doc) int { return len(e.get("items").A) })
		})
		if depth > 0 {
			w(5, func() c02Pred { // nested filter over objects
				body := c02RandBody(r, c02ItemSchema, depth-1, useRoot, 1+r.Intn(2))
				return c02CountTest(r, "@.items"+body.q, func(e, root *Doc) int {
					n := 0
					for _, it := range e.get("items").A {
						if body.f(it, root) {
							n++
						}
					}
					return n
				})
			})
		}
	}
	if sc.tags {
		w(2, func() c02Pred {
			return c02CountTest(r, "@.tags", func(e, _ *Doc) int { return len(e.get("tags").A) })
		})
		w(4, func() c02Pred { // nested filter over strings
			p := c02StrPred(r, c02Self, useRoot)
			body := c02Body(c02Modes[r.Intn(3)], p)
			return c02CountTest(r, "@.tags"+body.q, func(e, root *Doc) int {
				n := 0
				for _, it := range e.get("tags").A {
					if body.f(it, root) {
						n++
					}
				}
				return n
			})
		})
	}
	return alts[r.Intn(len(alts))]()
}

func c02RandBody(r *rng, sc *c02Schema, depth int, useRoot bool, n int) c02Pred {
	var ps []c02Pred
	for i := 0; i < n; i++ {
		if useRoot && r.Intn(12) == 0 {
			ps = append(ps, c02RootLeaf(r)) // wrapped in {..} by c02Body
		} else {
			ps = append(ps, c02Gen(r, sc, depth, useRoot))
		}
	}
	return c02Body(c02Modes[r.Intn(3)], ps...)
}

func c02RandChain(r *rng, gen func() c02Pred, useRoot bool) []c02Pred {
	nb := 1
	switch r.Intn(10) {
	case 0, 1, 2:
		nb = 2
	case 3:
		nb = 3
	}
	var chain []c02Pred
	for i := 0; i < nb; i++ {
		n := 1 + r.Intn(3)
		if r.Intn(8) == 0 {
			n = 4
		}
		if r.Intn(40) == 0 {
			n = 0
		}
		var ps []c02Pred
		for j := 0; j < n; j++ {
			if useRoot && r.Intn(12) == 0 {
				ps = append(ps, c02RootLeaf(r))
			} else {
				ps = append(ps, gen())
			}
		}
		// OR a little more often than each AND spelling: conjunctions of random predicates are mostly false
		chain = append(chain, c02Body([]string{"", "AND", "OR", "OR", "", "OR", "AND"}[r.Intn(7)], ps...))
	}
	return chain
}

// predicates over primitive elements
func c02PrimPred(r *rng, kind byte, depth int, useRoot bool) c02Pred {
	if depth > 0 && r.Intn(6) == 0 {
		n := 1 + r.Intn(3)
		var ps []c02Pred
		for i := 0; i < n; i++ {
			if useRoot && r.Intn(4) == 0 {
				ps = append(ps, c02RootLeaf(r))
			} else {
				ps = append(ps, c02PrimPred(r, kind, depth-1, useRoot))
			}
		}
		return c02Group(c02Modes[r.Intn(3)], ps...)
	}
	switch kind {
	case 'n':
		return c02NumPred(r, c02Self, useRoot)
	case 's':
		return c02StrPred(r, c02Self, useRoot)
	case 'b':
		return c02BoolPred(r, c02Self, useRoot)
	}
	// mixed primitives: only the tests that are defined on every kind
	switch r.Intn(4) {
	case 0:
		return c02Pred{q: "@.IsNull()", f: func(e, _ *Doc) bool { return e.K == 'z' }}
	case 1:
		return c02Pred{q: "@.IsNotNull()", f: func(e, _ *Doc) bool { return e.K != 'z' }}
	}
	// Equal / NotEqual / AnyOf with literals of any kind: equal only to a value of the same kind (numbers by value)
	n := 1
	fn := []string{"Equal", "NotEqual", "AnyOf"}[r.Intn(3)]
	if fn == "AnyOf" {
		n = 1 + r.Intn(3)
	}
	var lits []*Doc
	var qs []string
	for i := 0; i < n; i++ {
		switch r.Intn(3) {
		case 0:
			l := r.Pick(c02Nums)
			lits, qs = append(lits, dNum(l)), append(qs, l)
		case 1:
			l := r.Pick(c02Strs)
			lits, qs = append(lits, dStr(l)), append(qs, `"`+l+`"`)
		default:
			b := r.Bool()
			lits, qs = append(lits, dBool(b)), append(qs, fmt.Sprint(b))
		}
	}
	same := func(a, b *Doc) bool {
		if a.K != b.K {
			return false
		}
		switch a.K {
		case 'n':
			return a.N.Cmp(b.N) == 0
		case 's':
			return a.S == b.S
		case 'b':
			return a.B == b.B
		}
		return false
	}
	return c02Pred{q: "@." + fn + "(" + strings.Join(qs, ",") + ")", f: func(e, _ *Doc) bool {
		hit := false
		for _, l := range lits {
			if same(e, l) {
				hit = true
			}
		}
		if fn == "NotEqual" {
			return !hit
		}
		return hit
	}}
}

func c02PrimElem(r *rng, kind byte) *Doc {
	k := kind
	if kind == 'x' {
		k = "nsbz"[r.Intn(4)]
	}
	switch k {
	case 'n':
		return dNum(r.Pick(c02Nums))
	case 's':
		return dStr(r.Pick(c02Strs))
	case 'b':
		return dBool(r.Bool())
	}
	return dNull()
}

func c02Extra(r *rng) []any {
	lims := []*Doc{}
	for i, n := 0, r.Intn(4); i < n; i++ {
		lims = append(lims, dNum(r.Pick(c02Nums)))
	}
	return []any{"limit", dNum(r.Pick(c02Nums)), "flag", dBool(r.Bool()), "name", dStr(r.Pick(c02Strs)), "lims", dArr(lims...)}
}

func c02Len(r *rng) int {
	switch r.Intn(10) {
	case 0:
		return 0
	case 1:
		return 1
	case 2:
		return 6 + r.Intn(7)
	}
	return 2 + r.Intn(4)
}

func c02Random(g *c02Run) {
	r := g.r
	n := g.c.scale(20000, 250000)
	for i := 0; i < n; i++ {
		extra := c02Extra(r)
		switch k := r.Intn(20); {
		case k < 9: // arrays of objects
			sc := c02RandSchema(r)
			var arr []*Doc
			for j, m := 0, c02Len(r); j < m; j++ {
				arr = append(arr, c02Elem(r, j, sc))
			}
			chain := c02RandChain(r, func() c02Pred { return c02Gen(r, sc, 2, true) }, true)
			g.emitArr(arr, extra, chain, "random/objects", true)
		case k < 14: // arrays of primitives
			kind := "nnsbx"[r.Intn(5)]
			var arr []*Doc
			for j, m := 0, c02Len(r); j < m; j++ {
				arr = append(arr, c02PrimElem(r, kind))
			}
			chain := c02RandChain(r, func() c02Pred { return c02PrimPred(r, kind, 2, true) }, true)
			cls := map[byte]string{'n': "numbers", 's': "strings", 'b': "booleans", 'x': "mixed-primitives"}[kind]
			g.emitArr(arr, extra, chain, "random/"+cls, true)
		case k < 15: // numeral strings: outside the quantifier, no expectation
			var arr []*Doc
			for j, m := 0, c02Len(r); j < m; j++ {
				if r.Bool() {
					arr = append(arr, dStr(r.Pick(c02NumeralStrs)))
				} else {
					arr = append(arr, dStr(r.Pick(c02Strs)))
				}
			}
			var chain []c02Pred
			if r.Bool() {
				l := r.Pick(c02NumeralStrs)
				chain = []c02Pred{c02Body("", c02Pred{q: `@.Equal("` + l + `")`, f: func(e, _ *Doc) bool { return e.S == l }})}
			} else {
				chain = c02RandChain(r, func() c02Pred { return c02PrimPred(r, 's', 1, true) }, true)
			}
			g.emitArr(arr, extra, chain, "random/numeral-strings(out-of-domain)", false)
		case k < 18: // single objects
			sc := c02RandSchema(r)
			obj := c02Elem(r, 0, sc)
			chain := c02RandChain(r, func() c02Pred { return c02Gen(r, sc, 2, true) }, true)
			g.emitObj(obj, extra, chain, "random/single-object", r.Intn(3) == 0)
		default: // the array is the root: predicates do not read `$`
			if r.Bool() {
				sc := c02RandSchema(r)
				var arr []*Doc
				for j, m := 0, c02Len(r); j < m; j++ {
					arr = append(arr, c02Elem(r, j, sc))
				}
				g.emitRootArr(arr, c02RandChain(r, func() c02Pred { return c02Gen(r, sc, 2, false) }, false), "random/root-array")
			} else {
				kind := "nsbx"[r.Intn(4)]
				var arr []*Doc
				for j, m := 0, c02Len(r); j < m; j++ {
					arr = append(arr, c02PrimElem(r, kind))
				}
				g.emitRootArr(arr, c02RandChain(r, func() c02Pred { return c02PrimPred(r, kind, 2, false) }, false), "random/root-array")
			}
		}
	}
}
