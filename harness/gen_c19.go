package main

// C19: null tests and `?` propagation behave as a three-valued guard.
// (a) every value kind x the six predicates, at the root, under a map key, under a `?`-marked key and in a struct
//     field; expected values from the statement's table (c19Pred).
// (b) every path of n keys x every subset of keys marked `?` x every chain document (each key exists, is null, or is
//     absent) x {no function, each predicate}; expected values from c19SpecPath, a direct reading of the statement on
//     the logical document.
// Nothing here calls mpath to obtain an expectation.

import (
	"fmt"
	"math"
	"strconv"
	"strings"

	"github.com/shopspring/decimal"
)

func init() { evalGens["C19"] = genC19 }

var c19Preds = []string{"IsNull", "IsNotNull", "IsEmpty", "IsNotEmpty", "IsNullOrEmpty", "IsNotNullOrEmpty"}

// c19Pred: the statement's table. null: the value is null / nil / absent-under-`?`; empty: the value is a zero value
// ("", 0, false, an empty array or object); emptyKnown=false when the statement leaves IsEmpty open for this value.
func c19Pred(pred string, null, empty, emptyKnown bool) (res bool, specified bool) {
	switch pred {
	case "IsNull":
		return null, true
	case "IsNotNull":
		return !null, true
	case "IsEmpty":
		return empty, emptyKnown
	case "IsNotEmpty":
		return !empty, emptyKnown
	case "IsNullOrEmpty":
		if null {
			return true, true // a disjunction with a true disjunct
		}
		return empty, emptyKnown
	case "IsNotNullOrEmpty":
		if null {
			return false, true
		}
		return !empty, emptyKnown
	}
	panic("bad predicate " + pred)
}

// c19DocFacts: null / empty of a logical value. IsEmpty of null is left open by the property.
func c19DocFacts(d *Doc) (null, empty, emptyKnown bool) {
	switch d.K {
	case 'z':
		return true, false, false
	case 'b':
		return false, !d.B, true
	case 'n':
		return false, d.N.IsZero(), true
	case 's':
		return false, d.S == "", true
	case 'a':
		return false, len(d.A) == 0, true
	case 'o':
		return false, len(d.Keys) == 0, true
	}
	panic("bad doc")
}

func c19B(b bool) string {
	if b {
		return "b:1"
	}
	return "b:0"
}

// c19Observe records what the implementation does on the cases the property leaves open (evidence, not an oracle).
func c19Observe(c *Ctx, what string, o Outcome) {
	m, _ := c.Extra["unspecified_behaviour"].(map[string]int)
	if m == nil {
		m = map[string]int{}
		c.Extra["unspecified_behaviour"] = m
	}
	m[what+" => "+o.Line()]++
}

// ---------- (a) value kinds ----------

type c19Kind struct {
	name       string
	tv         *TV
	null       bool
	empty      bool
	emptyKnown bool
	ood        bool // the kind is outside the quantifier's list (no expectation at all)
}

func c19Kinds() []c19Kind {
	dec := func(s string) *TV { return tvDec(decimal.RequireFromString(s)) }
	namedInt := func(v string) *TV { t := tvInt("int64", v); t.N = 1; return t }
	namedF := func(f float64) *TV { t := tvF64(f); t.N = 1; return t }
	obj := func(kv ...any) *TV {
		var kvs [][2]any
		for i := 0; i+1 < len(kv); i += 2 {
			kvs = append(kvs, [2]any{hx(kv[i].(string)), kv[i+1].(*TV)})
		}
		return tvMap("str", kvs)
	}
	zeroStruct := tvStruct([][3]any{{"A", 1, tvInt("int", "0")}, {"K", 1, tvStr("")}})
	nonZeroStruct := tvStruct([][3]any{{"A", 1, tvInt("int", "1")}, {"K", 1, tvStr("v")}})
	T, F := true, false
	return []c19Kind{
		// null and nil: IsEmpty is left open by the property
		{"null", tvNil(), T, F, F, F},
		{"nil-pointer:int", tvNilPtr(tvInt("int", "0")), T, F, F, F},
		{"nil-pointer:string", tvNilPtr(tvStr("x")), T, F, F, F},
		{"nil-pointer:struct", tvNilPtr(nonZeroStruct), T, F, F, F},
		// strings
		{"empty-string", tvStr(""), F, T, T, F},
		{"empty-string:named", tvNStr(""), F, T, T, F},
		{"string", tvStr("x"), F, F, T, F},
		{"string:space", tvStr(" "), F, F, T, F},
		{"string:words", tvStr("hello world"), F, F, T, F},
		{"string:named", tvNStr("abc"), F, F, T, F},
		{"string:looks-like-null", tvStr("null"), F, F, T, F},
		{"string:looks-like-false", tvStr("false"), F, F, T, F},
		// zero
		{"zero:f64", tvF64(0), F, T, T, F},
		{"zero:negative-f64", tvF64(math.Copysign(0, -1)), F, T, T, F},
		{"zero:int", tvInt("int", "0"), F, T, T, F},
		{"zero:uint8", tvInt("uint8", "0"), F, T, T, F},
		{"zero:named-int", namedInt("0"), F, T, T, F},
		{"zero:named-f64", namedF(0), F, T, T, F},
		{"zero:decimal", dec("0"), F, T, T, F},
		{"zero:decimal-0.00", tvDec(decimal.New(0, -2)), F, T, T, F},
		{"zero:decimal-0e5", tvDec(decimal.New(0, 5)), F, T, T, F},
		{"zero:pointer-to-int", tvPtr(tvInt("int", "0")), F, T, T, F},
		// non-zero numbers
		{"number:f64", tvF64(1.5), F, F, T, F},
		{"number:negative-int", tvInt("int", "-1"), F, F, T, F},
		{"number:uint64", tvInt("uint64", "18446744073709551615"), F, F, T, F},
		{"number:named-int", namedInt("7"), F, F, T, F},
		{"number:decimal", dec("0.1"), F, F, T, F},
		{"number:tiny-decimal", dec("0.0000000000000000000001"), F, F, T, F},
		{"number:pointer-to-int", tvPtr(tvInt("int", "5")), F, F, T, F},
		// booleans
		{"false", tvBool(false), F, T, T, F},
		{"false:named", tvNBool(false), F, T, T, F},
		{"true", tvBool(true), F, F, T, F},
		{"true:named", tvNBool(true), F, F, T, F},
		// arrays
		{"empty-array", tvSlice(1), F, T, T, F},
		{"empty-array:typed", tvSlice(0), F, T, T, F},
		{"empty-array:go-array", tvArray(1), F, T, T, F},
		{"array", tvSlice(1, tvF64(1), tvStr("x")), F, F, T, F},
		{"array:of-zero", tvSlice(1, tvF64(0)), F, F, T, F},
		{"array:of-null", tvSlice(1, tvNil()), F, F, T, F},
		{"array:of-empty-string", tvSlice(1, tvStr("")), F, F, T, F},
		{"array:of-empty-array", tvSlice(1, tvSlice(1)), F, F, T, F},
		{"array:typed-of-zero", tvSlice(0, tvInt("int", "0")), F, F, T, F},
		{"array:go-array-of-zero", tvArray(1, tvF64(0)), F, F, T, F},
		// objects (maps)
		{"empty-object", tvMap("str", nil), F, T, T, F},
		{"empty-object:named-keys", tvMap("named", nil), F, T, T, F},
		{"empty-object:iface-keys", tvMap("iface", nil), F, T, T, F},
		{"object", obj("a", tvF64(1), "k", tvStr("v")), F, F, T, F},
		{"object:of-zero", obj("a", tvF64(0)), F, F, T, F},
		{"object:of-null", obj("a", tvNil()), F, F, T, F},
		{"object:of-empty-string", obj("a", tvStr("")), F, F, T, F},
		{"object:pointer-to-map", tvPtr(obj("a", tvF64(1))), F, F, T, F},
		{"empty-object:pointer-to-map", tvPtr(tvMap("str", nil)), F, T, T, F},
		// structs. An object is empty when it has no keys; a struct without fields is the only struct that is an empty
		// object AND a Go zero value, so both readings of "zero value" agree on it. For a struct whose fields all hold
		// zero values the readings part (Go zero value: empty; object with keys a,k like the map {a:0,k:""}: not empty),
		// so IsEmpty & co. carry no expectation there; IsNull / IsNotNull are expected.
		{"struct:no-fields", tvStruct([][3]any{}), F, T, T, F},
		{"struct:all-fields-zero", zeroStruct, F, F, F, F},
		{"struct:non-zero", nonZeroStruct, F, F, T, F},
		{"struct:one-zero-field-one-not", tvStruct([][3]any{{"A", 1, tvInt("int", "0")}, {"K", 1, tvStr("v")}}), F, F, T, F},
		{"struct:pointer-to-non-zero", tvPtr(nonZeroStruct), F, F, T, F},
		// outside the list of kinds: logged and compared with the model only
		{"nil-slice", &TV{T: "slice", EI: 1, Nil: 1, V: []*TV{}}, T, T, T, T},
		{"nil-map", &TV{T: "map", KK: "str", Nil: 1, V: [][2]any{}}, T, T, T, T},
		{"numeral-string-0", tvStr("0"), F, F, T, T},
		{"numeral-string-12", tvStr("12"), F, F, T, T},
		{"numeral-string-0.0", tvStr("0.0"), F, F, T, T},
		{"pointer-to-pointer-nil", tvPtr(tvNilPtr(tvInt("int", "0"))), T, F, F, T},
		{"struct-unexported-zero", tvUnexp("A", tvInt("int", "0"), tvInt("int", "0")), F, F, F, T},
		{"struct-only-unexported", tvUnexp("only", tvInt("int", "0")), F, F, F, T},
	}
}

func c19GenKinds(c *Ctx) {
	for _, k := range c19Kinds() {
		type placement struct {
			name, prefix string
			data         *TV
		}
		pls := []placement{
			{"root", "$", k.tv},
			{"map-key", "$.v", tvMap("str", [][2]any{{hx("v"), k.tv}, {hx("z"), tvF64(1)}})},
			{"marked-map-key", "$.v?", tvMap("str", [][2]any{{hx("v"), k.tv}, {hx("z"), tvF64(1)}})},
			{"struct-field", "$.v", tvStruct([][3]any{{"V", 1, k.tv}, {"Z", 1, tvF64(1)}})},
			{"marked-struct-field", "$.V?", tvStruct([][3]any{{"V", 1, k.tv}, {"Z", 1, tvF64(1)}})},
			{"nested", "$.o.v", tvMap("str", [][2]any{{hx("o"), tvMap("str", [][2]any{{hx("v"), k.tv}})}})},
		}
		for _, pl := range pls {
			for _, p := range c19Preds {
				cs := Case{Q: pl.prefix + "." + p + "()", D: pl.data, InDomain: true}
				res, spec := c19Pred(p, k.null, k.empty, k.emptyKnown)
				switch {
				case k.ood:
					cs.Cls, cs.InDomain = "ood/kinds/"+k.name+"/"+pl.name, false
				case !spec && k.null:
					cs.Cls, cs.InDomain = "ood/IsEmpty-of-null/kinds/"+k.name, false
				case !spec:
					cs.Cls, cs.InDomain = "ood/IsEmpty-of-zero-struct/kinds/"+k.name, false
				default:
					cs.Cls, cs.XK, cs.X = "kinds/"+k.name+"/"+pl.name, "logical", c19B(res)
				}
				o := c.Do(cs)
				if !cs.InDomain {
					c19Observe(c, "kind "+k.name+" ."+p+"()", o)
				}
			}
		}
	}
	// absent keys: under `?` the predicate sees null; without it the call fails whatever follows
	for _, data := range []*TV{
		tvMap("str", [][2]any{{hx("z"), tvF64(1)}}),
		tvMap("str", nil),
		tvStruct([][3]any{{"Z", 1, tvF64(1)}}),
	} {
		shape := data.T
		for _, p := range c19Preds {
			cs := Case{Q: "$.v?." + p + "()", D: data, InDomain: true}
			if res, spec := c19Pred(p, true, false, false); spec {
				cs.Cls, cs.XK, cs.X = "kinds/absent-under-?/"+shape, "logical", c19B(res)
			} else {
				cs.Cls, cs.InDomain = "ood/IsEmpty-of-null/kinds/absent-under-?", false
			}
			if o := c.Do(cs); !cs.InDomain {
				c19Observe(c, "kind absent-under-? ."+p+"()", o)
			}
			c.Do(Case{Q: "$.v." + p + "()", D: data, InDomain: true, XK: "logical", X: "KNF", Cls: "kinds/absent-unmarked/" + shape})
		}
	}
}

// ---------- (b) `?` propagation ----------

var c19Keys = []string{"a", "b", "c", "d", "e"}

// c19Get: the value under exactly this key (the chain documents spell their keys as the queries do).
func c19Get(o *Doc, k string) (*Doc, bool) {
	for i, kk := range o.Keys {
		if kk == k {
			return o.Vals[i], true
		}
	}
	return nil, false
}

// c19SpecPath: the statement, read on the logical document. why names the clause that decided.
//   - a key that exists yields its value (which may be null);
//   - a key absent from an object: marked `?` -> null flows on; not marked -> key-not-found, whatever follows;
//   - a null that flows on from a marked key (missing, or present and null) is received by the following marked keys
//     and by the next function; a key that is not marked does not receive it: key-not-found;
//   - an unmarked key stepped into a null that no mark guards: key-not-found; a MARKED key stepped into such a null is
//     not decided by the statement (specified=false);
//   - a path that ends while the null is only a propagated one (it ends on an absent `?` key) is left open;
//   - a predicate at the end sees the value, a propagated null counting as null.
func c19SpecPath(doc *Doc, keys []string, marks []bool, pred string) (x string, specified bool, why string) {
	cur := doc
	propagated := false // the current value is the null that a marked key let through
	for i, k := range keys {
		switch {
		case propagated:
			if !marks[i] {
				return "KNF", true, "unmarked-key-after-propagated-null"
			}
		case cur.K == 'z':
			switch {
			case marks[i-1] && marks[i]:
				propagated = true
			case marks[i-1]:
				return "KNF", true, "unmarked-key-after-guarded-null"
			case !marks[i]:
				return "KNF", true, "unmarked-key-into-unguarded-null"
			default:
				return "", false, "marked-key-into-unguarded-null"
			}
		case cur.K == 'o':
			v, ok := c19Get(cur, k)
			switch {
			case ok:
				cur = v
			case marks[i]:
				propagated = true
			default:
				return "KNF", true, "absent-unmarked-key"
			}
		default:
			return "", false, "key-into-scalar"
		}
	}
	if pred == "" {
		if propagated {
			return "", false, "ends-on-absent-?-key"
		}
		return logicalDoc(cur), true, "value"
	}
	null, empty, known := true, false, false
	if !propagated {
		null, empty, known = c19DocFacts(cur)
	}
	res, spec := c19Pred(pred, null, empty, known)
	if !spec {
		return "", false, "IsEmpty-of-null"
	}
	why = "predicate-on-value"
	if propagated {
		why = "predicate-on-propagated-null"
	} else if null {
		why = "predicate-on-stored-null"
	}
	return c19B(res), true, why
}

// c19Chain: the document for a path of n keys. state[i] is 'e' (key i exists), 'z' (is null), 'x' (is absent) or
// 's' (is a scalar: out of domain); everything below the first non-'e' key does not exist. Every object also has
// the sibling key z, so an object with an absent key is not an empty object.
func c19Chain(keys []string, firstBad int, bad byte, leaf *Doc) *Doc {
	var build func(i int) *Doc
	build = func(i int) *Doc {
		// the object that key i is looked up in
		o := &Doc{K: 'o'}
		switch {
		case i == firstBad && bad == 'x':
		case i == firstBad && bad == 'z':
			o.Keys, o.Vals = append(o.Keys, keys[i]), append(o.Vals, dNull())
		case i == firstBad && bad == 's':
			o.Keys, o.Vals = append(o.Keys, keys[i]), append(o.Vals, dNum("7"))
		case i == len(keys)-1:
			o.Keys, o.Vals = append(o.Keys, keys[i]), append(o.Vals, leaf)
		default:
			o.Keys, o.Vals = append(o.Keys, keys[i]), append(o.Vals, build(i+1))
		}
		o.Keys, o.Vals = append(o.Keys, "z"), append(o.Vals, dNum("1"))
		return o
	}
	return build(0)
}

func c19Leaves() []*Doc {
	return []*Doc{dNum("7"), dNum("0"), dStr(""), dStr("x"), dBool(false), dBool(true), dArr(), dArr(dNum("1")), dObj(), dObj("z", dNum("1"))}
}

func c19GenPaths(c *Ctx, maxKeys int) {
	endings := append([]string{""}, c19Preds...)
	rends := []struct {
		name string
		st   *Style
	}{{"map", &Style{Obj: "map", Num: "f64"}}, {"struct", &Style{Obj: "struct", Num: "f64"}}}
	for n := 1; n <= maxKeys; n++ {
		keys := c19Keys[:n]
		type chain struct {
			name string
			doc  *Doc
		}
		var chains []chain
		for _, lf := range c19Leaves() {
			chains = append(chains, chain{"all-exist", c19Chain(keys, -1, 0, lf)})
		}
		for j := 0; j < n; j++ {
			chains = append(chains, chain{"null", c19Chain(keys, j, 'z', nil)})
			chains = append(chains, chain{"absent", c19Chain(keys, j, 'x', nil)})
			if j < n-1 {
				chains = append(chains, chain{"scalar", c19Chain(keys, j, 's', nil)})
			}
		}
		for _, ch := range chains {
			for _, rd := range rends {
				data := render(ch.doc, rd.st)
				for mask := 0; mask < 1<<n; mask++ {
					marks := make([]bool, n)
					parts := make([]string, n)
					for i := range keys {
						marks[i] = mask>>i&1 == 1
						parts[i] = keys[i]
						if marks[i] {
							parts[i] += "?"
						}
					}
					base := "$." + strings.Join(parts, ".")
					for _, e := range endings {
						q := base
						if e != "" {
							q += "." + e + "()"
						}
						x, spec, why := c19SpecPath(ch.doc, keys, marks, e)
						cs := Case{Q: q, D: data, InDomain: spec}
						if spec {
							cs.XK, cs.X = "logical", x
							cs.Cls = fmt.Sprintf("paths/keys%d/%s/%s/%s", n, rd.name, ch.name, why)
						} else {
							cs.Cls = fmt.Sprintf("ood/%s/keys%d/%s", why, n, rd.name)
						}
						if o := c.Do(cs); !spec {
							end := "no function"
							if e != "" {
								end = "." + e + "()"
							}
							c19Observe(c, "path "+why+", "+end, o)
						}
					}
				}
			}
		}
	}
}

func genC19(c *Ctx) {
	maxKeys := 4
	if c.thorough() {
		maxKeys = 5
	}
	c.Rule = fmt.Sprintf("exhaustive, two blocks, and two named blocks: a `?`-marked / unmarked key stepped into scalars, lists of plain values, lists that begin with a null, empty lists and lists of objects that lack it (14 holders x map / struct / pointer carriers x 15 queries incl. inside a filter), and filters with null tests over lists that contain null elements (the two halves of a null test split the list). (a) every value kind (null; nil pointers; \"\" and non-empty non-numeral strings, plain and named; 0 in ten carriers incl. -0.0, decimals 0.00 and 0e5, pointer to 0; non-zero numbers; false/true plain and named; empty and non-empty slices, typed slices and Go arrays, incl. arrays holding only a zero / null / \"\" / []; empty and non-empty maps with string, named and interface keys, maps holding only a zero / null / \"\", pointers to maps; structs without fields, zero, non-zero, partly zero, behind a pointer) x the six predicates x six placements (root, map key, `?`-marked map key, struct field, `?`-marked struct field, nested key), plus an absent key with and without `?`; expected truth values from the statement's table; IsEmpty/IsNotEmpty of null and the Is*Empty family on a struct whose fields are all zero are out of domain (no expectation). (b) every path of 1..%d distinct keys x every subset of keys marked `?` x every chain document (all keys exist and end in one of 10 leaves: 7, 0, \"\", \"x\", false, true, [], [1], {}, {z:1}; or the first key that does not lead on is null / absent, at every position; every object has a sibling key) x both renderings (maps, Go structs) x {no function, each of the six predicates}; expected results from c19SpecPath on the logical document; out of domain: paths ending on an absent `?` key, IsEmpty/IsNotEmpty of null, a marked key stepped into a null that the previous key did not guard, a key stepped into a scalar. distinct = distinct (query skeleton, data shape to depth 2, outcome class); non-trivial = outcome class is not the most common one", maxKeys)
	c19GenKinds(c)
	c19GenPaths(c, maxKeys)
	c19MarksOnKeysThatAreThere(c, min(maxKeys, 4))
	c19MissingElsewhere(c)
	c19NullElements(c)
	c.Exhaustive = true
}

// c19MissingElsewhere: a key is also missing when the value it is stepped into is not an object at all - a scalar, a list of
// plain values, a list that begins with a null, an empty list, a list of objects that lack it. Marked `?` it hands null to
// what follows; unmarked it fails with ErrKeyNotFound even when later keys are marked.
func c19MissingElsewhere(c *Ctx) {
	holders := []struct {
		name string
		tv   *TV
	}{
		{"string", tvStr("abc")}, {"number", tvF64(5)}, {"bool", tvBool(true)}, {"list-of-strings", tvSlice(1, tvStr("a"), tvStr("b"))}, {"list-of-numbers", tvSlice(1, tvF64(1), tvF64(2))},
		{"list-of-bools", tvSlice(1, tvBool(true))}, {"list-starting-with-null", tvSlice(1, tvNil(), tvMap("str", [][2]any{{hx("k"), tvF64(1)}}))}, {"empty-list", tvSlice(1)},
		{"list-of-objects-without-the-key", tvSlice(1, tvMap("str", [][2]any{{hx("j"), tvF64(1)}}))}, {"typed-string-slice", tvSlice(0, tvStr("a"), tvStr("b"))},
		{"typed-number-slice", tvSlice(0, tvF64(1.5))}, {"go-array", tvArray(1, tvStr("a"))}, {"list-of-lists", tvSlice(1, tvSlice(1, tvF64(1)))}, {"pointer-to-string", tvPtr(tvStr("abc"))},
	}
	T, F := "b:1", "b:0"
	for _, h := range holders {
		for ci, wrap := range []func(v *TV) *TV{
			func(v *TV) *TV {
				return tvMap("str", [][2]any{{hx("v"), v}, {hx("rows"), tvSlice(1, tvMap("str", [][2]any{{hx("v"), v}, {hx("id"), tvF64(1)}}), tvMap("str", [][2]any{{hx("v"), v}, {hx("id"), tvF64(2)}}))}})
			},
			func(v *TV) *TV {
				return tvStruct([][3]any{{"V", 1, v}, {"Rows", 1, tvSlice(1, tvStruct([][3]any{{"V", 1, v}, {"Id", 1, tvF64(1)}}), tvStruct([][3]any{{"V", 1, v}, {"Id", 1, tvF64(2)}}))}})
			},
			func(v *TV) *TV {
				return tvPtr(tvMap("str", [][2]any{{hx("v"), v}, {hx("rows"), tvSlice(1, tvMap("str", [][2]any{{hx("v"), v}, {hx("id"), tvF64(1)}}), tvMap("str", [][2]any{{hx("v"), v}, {hx("id"), tvF64(2)}}))}}))
			},
		} {
			d := wrap(h.tv)
			cls := "missing-key-elsewhere/" + h.name + "/" + []string{"map", "struct", "pointer-to-map"}[ci]
			for _, qx := range [][2]string{
				{"$.v.k?.IsNull()", T}, {"$.v.k?.IsNotNull()", F}, {"$.v.k?.IsNullOrEmpty()", T}, {"$.v.k?.IsNotNullOrEmpty()", F}, {"$.v.k?.j?.IsNull()", T}, {"$.v.k?.j?.l?.IsNotNull()", F},
				{"$.v.k", "KNF"}, {"$.v.k.IsNull()", "KNF"}, {"$.v.k.j?.IsNull()", "KNF"}, {"$.v.k.j?.l?.IsNull()", "KNF"}, {"{$.v.k?.IsNull()}", T}, {"{OR,$.v.k?.IsNotNull()}", F},
				{"$.rows[@.v.k?.IsNull()].id", "[n:1,n:2]"}, {"$.rows[@.v.k?.IsNotNull()].id", "KNF"}, {"$.rows[@.v.k?.j?.IsNull()].id", "[n:1,n:2]"},
			} {
				c.Do(Case{Q: qx[0], D: d, XK: "logical", X: qx[1], Cls: cls, InDomain: true})
			}
		}
	}
}

// c19NullElements: a filter asks its predicates about every element of the list, null elements included: the null tests
// split the list between them, and `?` works on a null element as it does on a null value
func c19NullElements(c *Ctx) {
	obj := func(id float64, k *TV) *TV {
		kv := [][2]any{{hx("id"), tvF64(id)}}
		if k != nil {
			kv = append(kv, [2]any{hx("k"), k})
		}
		return tvMap("str", kv)
	}
	lists := []struct {
		name string
		tv   *TV
	}{
		{"any-list", tvSlice(1, obj(1, tvF64(7)), tvNil(), obj(3, tvNil()), obj(4, nil), tvNil())},
		{"list-starting-with-null", tvSlice(1, tvNil(), obj(2, tvF64(7)), obj(3, tvNil()))},
		{"pointer-list", tvSlice(0, tvPtr(tvStruct([][3]any{{"Id", 1, tvF64(1)}, {"K", 1, tvF64(7)}})), tvNilPtr(tvStruct([][3]any{{"Id", 1, tvF64(0)}, {"K", 1, tvF64(0)}})))},
	}
	for _, l := range lists {
		d := tvMap("str", [][2]any{{hx("xs"), l.tv}, {hx("all"), tvBool(true)}})
		cls := "null-elements-under-filters/" + l.name
		for _, q := range []string{"$.xs[@.IsNull()]", "$.xs[@.IsNotNull()]", "$.xs[@.IsNullOrEmpty()]", "$.xs[@.IsNotNullOrEmpty()]", "$.xs[@.k?.IsNull()]", "$.xs[@.k?.IsNotNull()]", "$.xs[{$.all}]",
			"$.xs[@.IsNull()].Count()", "$.xs[@.IsNotNull()].Count()", "$.xs[OR,@.IsNull(),@.IsNotNull()].Count()", "$.xs[@.IsNotNull()].id", "$.xs[@.k?.IsNotNull()].id", "$.xs[{$.all}].Count()", "$.xs.Count()"} {
			c.Do(Case{Q: q, D: d, Cls: cls, InDomain: true})
		}
		// the two halves of a null test make up the list (on the implementation's own answers)
		cnt := func(q string) (int, bool) {
			o := c.Do(Case{Q: q, D: d, Cls: cls, InDomain: true})
			if o.Class != "ok" || !strings.HasPrefix(o.Logical, "n:") {
				return 0, false
			}
			n, err := strconv.Atoi(o.Logical[2:])
			return n, err == nil
		}
		total, ok0 := cnt("$.xs.Count()")
		for _, pair := range [][2]string{{"@.IsNull()", "@.IsNotNull()"}, {"@.IsNullOrEmpty()", "@.IsNotNullOrEmpty()"}, {"@.k?.IsNull()", "@.k?.IsNotNull()"}} {
			a, ok1 := cnt("$.xs[" + pair[0] + "].Count()")
			b, ok2 := cnt("$.xs[" + pair[1] + "].Count()")
			if ok0 && ok1 && ok2 && a+b != total {
				q := "$.xs[" + pair[0] + "] / $.xs[" + pair[1] + "]"
				c.addViolation(Violation{Kind: "relational", Query: q, QueryHex: hx(q), Data: d, Expected: fmt.Sprintf("%d elements between them", total), Got: fmt.Sprintf("%d + %d", a, b),
					Why: "a null test and its negation, used as filters, do not split the list between them", Cls: cls, Key: "relational:filter-partition"})
			}
		}
		if l.name == "any-list" {
			for _, qx := range [][2]string{{"$.xs[@.IsNull()].Count()", "n:2"}, {"$.xs[@.IsNotNull()].id", "[n:1,n:3,n:4]"}, {"$.xs[@.k?.IsNull()].Count()", "n:4"}, {"$.xs[@.k?.IsNotNull()].id", "[n:1]"}, {"$.xs[{$.all}].Count()", "n:5"}} {
				c.Do(Case{Q: qx[0], D: d, XK: "logical", X: qx[1], Cls: cls, InDomain: true})
			}
		}
	}
}

// c19MarksOnKeysThatAreThere: the statement gives a `?` mark a meaning where the marked key is missing or null; on a key that exists
// and holds a value that is not null the mark does nothing. So the outcome of a path - also where the statement leaves the outcome
// itself open (a marked key stepped into a null that came from an unmarked key) - does not change when such a key gains or loses its
// mark: whether a null may be stepped into is a matter of the key that produced it, not of some earlier key that happens to be marked.
// Relational, on the implementation's own answers, map and struct carriers.
func c19MarksOnKeysThatAreThere(c *Ctx, maxKeys int) {
	rends := []struct {
		name string
		st   *Style
	}{{"map", &Style{Obj: "map", Num: "f64"}}, {"struct", &Style{Obj: "struct", Num: "f64"}}}
	answers := func(q string, data *TV, cls string) string {
		o := c.Do(Case{Q: q, D: data, Cls: cls, InDomain: false})
		if o.Class == "ok" {
			return o.Logical
		}
		return o.Class
	}
	bad := 0
	for n := 2; n <= maxKeys; n++ {
		keys := c19Keys[:n]
		for j := 1; j < n; j++ { // keys 0..j-1 exist and hold objects; key j is null ('z') or absent ('x')
			for _, kind := range []byte{'z', 'x'} {
				doc := c19Chain(keys, j, kind, nil)
				for _, rd := range rends {
					data := render(doc, rd.st)
					for mask := 0; mask < 1<<n; mask++ {
						for i := 0; i < j; i++ {
							if mask>>i&1 == 1 {
								continue // each pair once: the variant without the mark on key i is the reference
							}
							mk := func(m int) string {
								parts := make([]string, n)
								for t := range keys {
									parts[t] = keys[t]
									if m>>t&1 == 1 {
										parts[t] += "?"
									}
								}
								return "$." + strings.Join(parts, ".")
							}
							for _, e := range []string{"", ".IsNull()", ".IsNotNullOrEmpty()"} {
								q0, q1 := mk(mask)+e, mk(mask|1<<i)+e
								cls := fmt.Sprintf("marks-on-keys-that-are-there/keys%d/%s", n, rd.name)
								a0, a1 := answers(q0, data, cls), answers(q1, data, cls)
								if a0 != a1 {
									bad++
									c.addViolation(Violation{Kind: "mark-on-present-key", Query: q1, QueryHex: hx(q1), Data: data, Expected: trunc(a0, 200), Got: trunc(a1, 200), Cls: cls,
										Why: "marking the key " + keys[i] + ", which exists and holds an object, changes the outcome: " + q0 + " gives " + trunc(a0, 60) + ", " + q1 + " gives " + trunc(a1, 60),
										Key: "mark-on-present-key:" + strings.TrimSuffix(strings.TrimPrefix(e, "."), "()")})
								}
							}
						}
					}
				}
			}
		}
	}
	c.Extra["marks_on_present_keys_that_mattered"] = bad
}
