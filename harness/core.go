package main

import (
	"bufio"
	"bytes"
	"crypto/sha1"
	"encoding/json"
	"errors"
	"fmt"
	"os"
	"os/exec"
	"path/filepath"
	"reflect"
	"runtime/debug"
	"sort"
	"strings"
	"time"

	"github.com/machship/mpath"
)

// ---------- one PRNG (splitmix64) ----------
type rng struct{ s uint64 }

func newRng(seed uint64) *rng {
	// the seed is hashed first: with a plain linear seed the stream of seed n+1 is the stream of seed n shifted by one draw
	r := &rng{s: seed*0x9E3779B97F4A7C15 + 0x1234567}
	r.s = r.next() ^ (seed << 32)
	return r
}
func (r *rng) next() uint64 {
	r.s += 0x9E3779B97F4A7C15
	z := r.s
	z = (z ^ (z >> 30)) * 0xBF58476D1CE4E5B9
	z = (z ^ (z >> 27)) * 0x94D049BB133111EB
	return z ^ (z >> 31)
}
func (r *rng) Intn(n int) int {
	if n <= 0 {
		return 0
	}
	return int(r.next() % uint64(n))
}
func (r *rng) Bool() bool              { return r.next()&1 == 1 }
func (r *rng) Pick(xs []string) string { return xs[r.Intn(len(xs))] }

// ---------- cases ----------

// Case is one evaluation: a query on a data value, with what the property's own oracle expects.
type Case struct {
	Q        string // query text
	D        *TV    // data
	XK       string // expectation kind: "" none | "logical" | "exact" | "class" (ok/knf/err) | "bool"
	X        string // expected value in that form
	Cls      string // class label for the coverage histogram
	InDomain bool   // inside the property's quantifier (model/impl differences are enforced only here)
	Note     string
}

type Outcome struct {
	Class   string // ok | KNF | ERR | PANIC | TIMEOUT | PARSE-ERR | NEITHER | PARSE-PANIC
	Exact   string // canonV of the result (ok only)
	Logical string
	ErrData bool // the ok result is (or contains at top level) a Go error value
	Msg     string
}

func (o Outcome) Line() string {
	if o.Class == "ok" {
		return "ok " + o.Exact
	}
	switch o.Class {
	case "PARSE-ERR", "NEITHER":
		return "ERR"
	case "PARSE-PANIC":
		return "PANIC"
	}
	return o.Class
}

var caseTimeout = 10 * time.Second

func evalOnce(q string, data any) (out Outcome) {
	defer func() {
		if r := recover(); r != nil {
			out = Outcome{Class: "PANIC", Msg: fmt.Sprint(r)}
		}
	}()
	var op mpath.Operation
	var err error
	func() {
		defer func() {
			if r := recover(); r != nil {
				out = Outcome{Class: "PARSE-PANIC", Msg: fmt.Sprint(r)}
				op = nil
				err = errors.New("panic")
			}
		}()
		op, err = mpath.ParseString(q)
	}()
	if out.Class == "PARSE-PANIC" {
		return out
	}
	if err != nil {
		return Outcome{Class: "PARSE-ERR", Msg: err.Error()}
	}
	if op == nil {
		return Outcome{Class: "NEITHER"}
	}
	res, err := op.Do(data, data)
	if err != nil {
		if errors.Is(err, mpath.ErrKeyNotFound) {
			return Outcome{Class: "KNF", Msg: err.Error()}
		}
		return Outcome{Class: "ERR", Msg: err.Error()}
	}
	rv := reflect.ValueOf(res)
	o := Outcome{Class: "ok", Exact: canonV(rv), Logical: logicalV(rv)}
	if _, isErr := res.(error); isErr {
		o.ErrData = true
	}
	return o
}

// runCase evaluates with a watchdog; a hung evaluation is abandoned (its goroutine cannot be killed).
func runCase(q string, data any) Outcome {
	ch := make(chan Outcome, 1)
	go func() { ch <- evalOnce(q, data) }()
	select {
	case o := <-ch:
		return o
	case <-time.After(caseTimeout):
		return Outcome{Class: "TIMEOUT"}
	}
}

// ---------- run context: files and report ----------

type Violation struct {
	Property string `json:"property"`
	Kind     string `json:"kind"` // oracle | panic | timeout | errdata | relational | crash
	Query    string `json:"query,omitempty"`
	QueryHex string `json:"query_hex,omitempty"`
	Data     *TV    `json:"data,omitempty"`
	Expected string `json:"expected,omitempty"`
	Got      string `json:"got,omitempty"`
	Why      string `json:"why"`
	Cls      string `json:"cls,omitempty"`
	Extra    any    `json:"extra,omitempty"`
	Key      string `json:"key"` // stable identity used by known-findings
}

type Ctx struct {
	kept       map[string]*keptOp // the operation parsed when a query text first came up, and the root it saw last (keptCheck)
	Prop       string
	Dir        string
	Tier       string
	Seed       uint64
	R          *rng
	cases      *bufio.Writer
	impl       *bufio.Writer
	cur        *os.File
	N          int
	InDom      int
	Hist       map[string]int
	OutHist    map[string]int
	Distinct   map[string]struct{}
	Viol       []Violation
	Samples    []any
	Extra      map[string]any
	files      []*os.File
	Exhaustive bool
	Rule       string
	violCount  map[string]int
}

func newCtx(prop, dir, tier string, seed uint64) *Ctx {
	os.MkdirAll(dir, 0o755)
	c := &Ctx{Prop: prop, Dir: dir, Tier: tier, Seed: seed, R: newRng(seed), Hist: map[string]int{}, OutHist: map[string]int{},
		Distinct: map[string]struct{}{}, Extra: map[string]any{}}
	mk := func(name string) *bufio.Writer {
		f, err := os.Create(filepath.Join(dir, name))
		if err != nil {
			panic(err)
		}
		c.files = append(c.files, f)
		return bufio.NewWriterSize(f, 1<<20)
	}
	c.cases = mk("cases.jsonl")
	c.impl = mk("impl.txt")
	c.cur, _ = os.Create(filepath.Join(dir, "current.json"))
	return c
}

func (c *Ctx) thorough() bool { return c.Tier == "thorough" }

// scale picks the case budget by tier.
func (c *Ctx) scale(quick, thorough int) int {
	n := quick
	if c.thorough() {
		n = thorough
	}
	if m := os.Getenv("VERIF_BUDGET_MULT"); m != "" {
		var k int
		fmt.Sscan(m, &k)
		if k > 0 {
			n *= k
		}
	}
	return n
}

func (c *Ctx) addViolation(v Violation) {
	v.Property = c.Prop
	if v.Key == "" {
		switch v.Kind {
		case "panic", "crash", "timeout":
			// the function in which it happened is part of the key: the first failures of a kind do not use up the room of others
			v.Key = v.Kind + ":" + msgClass(v.Why) + ":" + lastFunc(v.Query)
			if v.Data != nil && v.Data.T == "cyc" {
				v.Key += ":cyclic-" + v.Data.K
			}
		case "errdata":
			v.Key = v.Kind
		default:
			v.Key = v.Kind + ":" + v.Cls + ":" + lastFunc(v.Query)
		}
	}
	if c.violCount == nil {
		c.violCount = map[string]int{}
	}
	c.violCount[v.Key]++
	if c.violCount[v.Key] <= 3 && len(c.Viol) < 3000 {
		c.Viol = append(c.Viol, v)
	}
	c.Extra["violations_total"] = asInt(c.Extra["violations_total"]) + 1
}

func asInt(x any) int {
	if x == nil {
		return 0
	}
	return x.(int)
}

// skeleton: identifiers/literals erased, for the distinct-case count
func skeleton(q string) string {
	var sb strings.Builder
	inStr := false
	prevAlnum := false
	for i := 0; i < len(q); i++ {
		ch := q[i]
		if inStr {
			if ch == '\\' {
				i++
				continue
			}
			if ch == '"' {
				inStr = false
				sb.WriteByte('S')
			}
			continue
		}
		switch {
		case ch == '"':
			inStr = true
			prevAlnum = false
		case ch >= '0' && ch <= '9' || ch == '-':
			if !prevAlnum {
				sb.WriteByte('9')
			}
			prevAlnum = true
		case ch >= 'a' && ch <= 'z' || ch >= 'A' && ch <= 'Z' || ch == '_':
			if !prevAlnum {
				// keep function names (followed by '(') distinct, erase keys
				j := i
				for j < len(q) && (q[j] >= 'a' && q[j] <= 'z' || q[j] >= 'A' && q[j] <= 'Z' || q[j] == '_' || q[j] >= '0' && q[j] <= '9') {
					j++
				}
				if j < len(q) && q[j] == '(' || q[i:j] == "AND" || q[i:j] == "OR" {
					sb.WriteString(q[i:j])
				} else {
					sb.WriteByte('k')
				}
				i = j - 1
			}
			prevAlnum = false
		default:
			sb.WriteByte(ch)
			prevAlnum = false
		}
	}
	return sb.String()
}

func shapeOf(t *TV, depth int) string {
	if t == nil {
		return "-"
	}
	if depth == 0 {
		return t.T
	}
	switch t.T {
	case "slice", "array":
		xs := t.V.([]*TV)
		if len(xs) == 0 {
			return t.T + "[]"
		}
		return fmt.Sprintf("%s%d[%s]", t.T, t.EI, shapeOf(xs[0], depth-1))
	case "map":
		kvs := t.V.([][2]any)
		var ps []string
		for _, kv := range kvs {
			ps = append(ps, shapeOf(kv[1].(*TV), depth-1))
		}
		sort.Strings(ps)
		return "map" + t.KK + "{" + strings.Join(ps, ",") + "}"
	case "struct":
		var ps []string
		for _, f := range t.V.([][3]any) {
			ps = append(ps, shapeOf(f[2].(*TV), depth-1))
		}
		return "struct{" + strings.Join(ps, ",") + "}"
	case "ptr":
		return "ptr(" + shapeOf(t.V.(*TV), depth-1) + ")"
	case "int":
		return t.K
	}
	return t.T
}

func outClass(o Outcome) string {
	if o.Class != "ok" {
		return o.Class
	}
	e := o.Exact
	if strings.HasPrefix(e, "b:") || strings.HasPrefix(e, "nb:") {
		return "ok/" + e // the two truth values are different outcomes
	}
	if i := strings.IndexAny(e, ":[{("); i >= 0 {
		e = e[:i]
	}
	return "ok/" + e
}

// Do runs one case against the implementation, records it for the model run, applies the generic oracles
// (no panic, no hang, no error handed back as data) and the case's own expectation.
func (c *Ctx) Do(cs Case) Outcome { return c.do(cs, false) }

// DoIsolated is Do in a child process: for cases that may kill the process (stack overflow is not recoverable).
func (c *Ctx) DoIsolated(cs Case) Outcome { return c.do(cs, true) }

func runChild(line []byte) Outcome {
	cmd := exec.Command(os.Args[0], "one")
	cmd.Stdin = bytes.NewReader(line)
	var out bytes.Buffer
	cmd.Stdout = &out
	cmd.Env = append(os.Environ(), "GOMEMLIMIT=2GiB")
	if err := cmd.Start(); err != nil {
		return Outcome{Class: "CRASH", Msg: err.Error()}
	}
	done := make(chan error, 1)
	go func() { done <- cmd.Wait() }()
	select {
	case err := <-done:
		var o Outcome
		if err != nil || json.Unmarshal(out.Bytes(), &o) != nil {
			return Outcome{Class: "CRASH", Msg: fmt.Sprint("child process died: ", err)}
		}
		return o
	case <-time.After(3 * caseTimeout):
		cmd.Process.Kill()
		return Outcome{Class: "TIMEOUT"}
	}
}

func init() {
	commands["one"] = func(args []string) {
		debug.SetMaxStack(256 << 20)
		quietStderr()
		var m struct {
			Q string          `json:"q"`
			D json.RawMessage `json:"d"`
		}
		dec := json.NewDecoder(os.Stdin)
		if err := dec.Decode(&m); err != nil {
			os.Exit(3)
		}
		o := runCase(unhx(m.Q), buildAny(decodeTV(m.D)))
		b, _ := json.Marshal(o)
		os.Stdout.Write(b)
	}
}

func (c *Ctx) do(cs Case, isolated bool) Outcome {
	line, _ := json.Marshal(map[string]any{"q": hx(cs.Q), "d": cs.D, "dom": cs.InDomain})
	c.cur.Truncate(0)
	c.cur.Seek(0, 0)
	c.cur.Write(line)
	c.cases.Write(line)
	c.cases.WriteByte('\n')
	var o Outcome
	if isolated {
		o = runChild(line)
	} else {
		o = runCase(cs.Q, buildAny(cs.D))
		c.keptCheck(cs, o)
	}
	c.impl.WriteString(o.Line())
	c.impl.WriteByte('\n')
	c.N++
	if cs.InDomain {
		c.InDom++
	}
	c.Hist[cs.Cls]++
	oc := outClass(o)
	c.OutHist[oc]++
	c.Distinct[skeleton(cs.Q)+"|"+shapeOf(cs.D, 2)+"|"+oc] = struct{}{}
	if len(c.Samples) < 12 && (c.N%97 == 1 || len(c.Samples) < 3) {
		c.Samples = append(c.Samples, map[string]any{"query": cs.Q, "data": cs.D, "impl": o.Line(), "expected": cs.X, "class": cs.Cls})
	}
	mk := func(kind, why string) Violation {
		return Violation{Kind: kind, Query: cs.Q, QueryHex: hx(cs.Q), Data: cs.D, Expected: cs.X, Got: o.Line(), Why: why, Cls: cs.Cls}
	}
	switch o.Class {
	case "PANIC", "PARSE-PANIC":
		c.addViolation(mk("panic", "evaluation panicked: "+trunc(o.Msg, 160)))
		return o
	case "CRASH":
		c.addViolation(mk("crash", "evaluation killed the process (not recoverable): "+trunc(o.Msg, 160)))
		return o
	case "TIMEOUT":
		c.addViolation(mk("timeout", "evaluation did not return within "+caseTimeout.String()))
		return o
	case "NEITHER":
		c.addViolation(mk("neither", "ParseString returned neither an operation nor an error"))
		return o
	}
	if o.ErrData {
		c.addViolation(mk("errdata", "an error value was returned as the data with a nil error"))
		return o
	}
	switch cs.XK {
	case "logical":
		got := o.Class
		if o.Class == "ok" {
			got = o.Logical
		}
		if got != cs.X {
			v := mk("oracle", "result differs from the specification")
			v.Got = got
			c.addViolation(v)
		}
	case "exact":
		if o.Line() != cs.X {
			c.addViolation(mk("oracle", "result differs from the specification"))
		}
	case "class":
		if o.Class != cs.X {
			v := mk("oracle", "outcome class differs from the specification")
			v.Got = o.Class
			c.addViolation(v)
		}
	}
	return o
}

// keptCheck: every query text is parsed once per run and that operation is kept; each case is evaluated with the kept operation as
// well (on a separately built copy of the document, put into the root object of the previous case when that is a map or pointer of the
// same type - same identity, new content) and the answer compared with the one of the fresh parse. The same text comes
// round with many documents in the deterministic blocks, so anything an operation remembers from an earlier document - the value
// of a `$` argument or of a nested group, a sub-query parsed once, a short-circuit position - shows as a difference.
type keptOp struct {
	op   mpath.Operation
	last any
}

func (c *Ctx) keptCheck(cs Case, fresh Outcome) {
	switch fresh.Class {
	case "PANIC", "PARSE-PANIC", "TIMEOUT", "PARSE-ERR", "NEITHER":
		return
	}
	if c.kept == nil {
		c.kept = map[string]*keptOp{}
	}
	k, seen := c.kept[cs.Q]
	if !seen {
		if len(c.kept) >= 40000 {
			return
		}
		p, err := mpath.ParseString(cs.Q)
		if err != nil {
			p = nil
		}
		k = &keptOp{op: p}
		c.kept[cs.Q] = k
	}
	if k.op == nil {
		return
	}
	// the document of this case is put INTO the root object the kept operation saw last time when that is possible (a map or a
	// pointer of the same type: same identity, new content), otherwise it is passed as it is
	nd := buildAny(cs.D)
	use := nd
	if k.last != nil && nd != nil {
		lv, nv := reflect.ValueOf(k.last), reflect.ValueOf(nd)
		if lv.Type() == nv.Type() {
			switch lv.Kind() {
			case reflect.Map:
				if !lv.IsNil() && !nv.IsNil() {
					for _, key := range lv.MapKeys() {
						lv.SetMapIndex(key, reflect.Value{})
					}
					for _, key := range nv.MapKeys() {
						lv.SetMapIndex(key, nv.MapIndex(key))
					}
					if lv.Len() == nv.Len() { // (a NaN key can be neither deleted nor overwritten)
						use = k.last
						c.Extra["kept_operation_same_root"] = asInt(c.Extra["kept_operation_same_root"]) + 1
					}
				}
			case reflect.Pointer:
				if !lv.IsNil() && !nv.IsNil() && lv.Elem().CanSet() {
					lv.Elem().Set(nv.Elem())
					use = k.last
					c.Extra["kept_operation_same_root"] = asInt(c.Extra["kept_operation_same_root"]) + 1
				}
			}
		}
	}
	k.last = use
	got := evalOp(k.op, use)
	c.Extra["kept_operation_checks"] = asInt(c.Extra["kept_operation_checks"]) + 1
	if got.Line() != fresh.Line() {
		c.addViolation(Violation{Kind: "stale-state", Query: cs.Q, QueryHex: hx(cs.Q), Data: cs.D, Expected: trunc(fresh.Line(), 300), Got: trunc(got.Line(), 300),
			Why: "the operation parsed when this query text first came up in the run, evaluated on this document, answers differently from a freshly parsed copy of the query", Cls: cs.Cls,
			Key: "stale-state:kept:" + lastFunc(cs.Q)})
	}
}

func trunc(s string, n int) string {
	if len(s) > n {
		return s[:n] + "…"
	}
	return s
}

func (c *Ctx) Finish() {
	c.cases.Flush()
	c.impl.Flush()
	for _, f := range c.files {
		f.Close()
	}
	c.cur.Close()
	os.Remove(filepath.Join(c.Dir, "current.json"))
	// non-trivial: outcome class is not the most common one
	most, mostN := "", -1
	for k, n := range c.OutHist {
		if n > mostN {
			most, mostN = k, n
		}
	}
	nt := 0
	for k := range c.Distinct {
		if !strings.HasSuffix(k, "|"+most) {
			nt++
		}
	}
	rep := map[string]any{
		"property": c.Prop, "tier": c.Tier, "seed": c.Seed, "evaluations": c.N, "in_domain": c.InDom,
		"distinct": len(c.Distinct), "distinct_nontrivial": nt, "most_common_outcome": most,
		"class_histogram": c.Hist, "outcome_histogram": c.OutHist, "violations": c.Viol,
		"samples": c.Samples, "extra": c.Extra, "violation_counts": c.violCount, "exhaustive": c.Exhaustive, "rule": c.Rule,
	}
	b, _ := json.MarshalIndent(rep, "", " ")
	os.WriteFile(filepath.Join(c.Dir, "report.json"), b, 0o644)
}

func shortHash(s string) string {
	h := sha1.Sum([]byte(s))
	return fmt.Sprintf("%x", h[:6])
}

// lastFunc: the name of the last function called in a query (groups violations by call site)
func lastFunc(q string) string {
	end := strings.LastIndex(q, "(")
	for end > 0 {
		i := end
		for i > 0 && (q[i-1] >= 'a' && q[i-1] <= 'z' || q[i-1] >= 'A' && q[i-1] <= 'Z') {
			i--
		}
		if i < end {
			return q[i:end]
		}
		end = strings.LastIndex(q[:end], "(")
	}
	return "-"
}

// msgClass: a message with numbers, addresses and quoted payloads erased
func msgClass(m string) string {
	var sb strings.Builder
	for i := 0; i < len(m) && sb.Len() < 60; i++ {
		ch := m[i]
		if ch >= '0' && ch <= '9' {
			continue
		}
		sb.WriteByte(ch)
	}
	return sb.String()
}

// Record registers one case that was run by a property-specific runner (not through Ctx.do): the case line for the
// model, the implementation's canonical answer, the class label, and the key for the distinct-case count.
func (c *Ctx) Record(line []byte, impl, cls string, inDomain bool, distinctKey, outClass string, sample any) {
	c.cases.Write(line)
	c.cases.WriteByte('\n')
	c.impl.WriteString(impl)
	c.impl.WriteByte('\n')
	c.N++
	if inDomain {
		c.InDom++
	}
	c.Hist[cls]++
	c.OutHist[outClass]++
	c.Distinct[distinctKey+"|"+outClass] = struct{}{}
	if sample != nil && len(c.Samples) < 12 && (c.N%97 == 1 || len(c.Samples) < 3) {
		c.Samples = append(c.Samples, sample)
	}
}

// DoR is Do plus, for a sample of the cases, the reuse check: a parsed operation that is kept must answer on other data
// exactly like a freshly parsed copy of the query.
func (c *Ctx) DoR(cs Case) Outcome {
	o := c.Do(cs)
	if c.N%5 == 0 && o.Class != "PARSE-ERR" && o.Class != "PARSE-PANIC" && o.Class != "NEITHER" {
		c.ReuseCheck(cs.Q, cs.D, cs.Cls)
	}
	return o
}

// ReuseCheck evaluates one parsed operation on the document, then on a document of the same shape with other leaf
// values (a separate value), then on the original document after it was changed in place (same identity, new content),
// and compares each answer with that of a freshly parsed copy of the query. State remembered inside an operation -
// an argument value, a short-circuit position, a result keyed by the identity of the data - shows as a difference.
func (c *Ctx) ReuseCheck(q string, d *TV, cls string) {
	op, err := mpath.ParseString(q)
	if err != nil || op == nil {
		return
	}
	fresh := func(data any) string {
		op2, err := mpath.ParseString(q)
		if err != nil || op2 == nil {
			return "PARSE-ERR"
		}
		return evalOp(op2, data).Line()
	}
	report := func(why string, data *TV, want, got string) {
		c.addViolation(Violation{Kind: "stale-state", Query: q, QueryHex: hx(q), Data: data, Expected: trunc(want, 300), Got: trunc(got, 300), Why: why, Cls: cls,
			Key: "stale-state:" + lastFunc(q)})
	}
	data := buildAny(d)
	evalOp(op, data)
	variant := c11Variant(d, c.R)
	vdata := buildAny(variant)
	c.Extra["reuse_checks"] = asInt(c.Extra["reuse_checks"]) + 1
	if want, got := fresh(vdata), evalOp(op, vdata).Line(); want != got {
		report("the kept operation, reused on a document with other values, answers differently from a freshly parsed copy of the query", variant, want, got)
		return
	}
	if dv, sv := reflect.ValueOf(data), reflect.ValueOf(vdata); dv.Kind() == reflect.Map && sv.Kind() == reflect.Map && dv.Type() == sv.Type() && !dv.IsNil() {
		evalOp(op, data)
		for _, k := range sv.MapKeys() {
			dv.SetMapIndex(k, sv.MapIndex(k))
		}
		if want, got := fresh(data), evalOp(op, data).Line(); want != got {
			report("after the document was changed in place the kept operation answers differently from a freshly parsed copy of the query", variant, want, got)
		}
	}
}
