package main

// C13 / C15 (and the shared machinery of C14 / C16): CueValidate against generated CUE schemas.
// A schema is generated as a type tree (CTy), rendered as CUE text for the real validator and sent as JSON to the Lean
// model (`drv cue`). The oracles are independent specifications computed on the type tree.

import (
	"encoding/json"
	"fmt"
	"os"
	"sort"
	"strconv"
	"strings"
	"sync"
	"time"

	"github.com/machship/mpath"
)

type CTy struct {
	T    string    `json:"t"` // string bytes bool int float number top | list | struct | deplist
	Open int       `json:"open,omitempty"`
	E    *CTy      `json:"e,omitempty"`
	F    []*CField `json:"f,omitempty"`
	V    []string  `json:"v,omitempty"` // deplist
	Def  string    `json:"-"`           // rendered as a reference to this definition
}
type CField struct {
	N  string `json:"n"`
	M  string `json:"m"` // reg | opt | req
	H  int    `json:"h"` // hidden (_name)
	Q  int    `json:"q"` // quoted
	Ty *CTy   `json:"ty"`
}

type cueGen struct {
	r    *rng
	defs []string
	defN int
}

var cuePrims = []string{"string", "bytes", "bool", "int", "float", "number", "top"}
var cueNames = []string{"a", "b", "c", "name", "k-x", "val", "res", "id", "n1"}

func (g *cueGen) ty(depth int, lists bool) *CTy {
	r := g.r.Intn(10)
	switch {
	case depth <= 0 || r < 4:
		return &CTy{T: cuePrims[g.r.Intn(len(cuePrims))]}
	case r < 6 && lists:
		// lists of primitives and lists of structs (lists of lists are outside C13's quantifier; generated rarely, marked)
		var e *CTy
		switch g.r.Intn(8) {
		case 0:
			e = g.ty(depth-1, true)
		case 1, 2, 3:
			e = g.strct(depth-1, true)
		default:
			e = &CTy{T: cuePrims[g.r.Intn(len(cuePrims))]}
		}
		return &CTy{T: "list", Open: btoi(g.r.Intn(4) != 0), E: e}
	default:
		return g.strct(depth, true)
	}
}

func (g *cueGen) strct(depth int, allowDef bool) *CTy {
	n := 1 + g.r.Intn(4)
	used := map[string]bool{}
	st := &CTy{T: "struct", Open: btoi(g.r.Intn(6) == 0)}
	for i := 0; i < n; i++ {
		nm := cueNames[g.r.Intn(len(cueNames))]
		if used[strings.ToLower(nm)] {
			continue
		}
		used[strings.ToLower(nm)] = true
		f := &CField{N: nm, M: []string{"reg", "reg", "opt", "req"}[g.r.Intn(4)], Ty: g.ty(depth-1, true)}
		if strings.Contains(nm, "-") {
			f.Q = 1
		} else {
			switch g.r.Intn(8) {
			case 0:
				f.Q = 1
			case 1:
				f.H = 1
				f.N = "_" + nm
				if g.r.Intn(6) != 0 {
					f.M = "reg" // a hidden field that is also ? or ! is left unspecified by C13 (kept rare)
				}
			case 2:
				f.Q = 1
				f.N = "_" + nm // a quoted "_x" is a regular field
			}
		}
		st.F = append(st.F, f)
	}
	if allowDef && st.Open == 0 && g.r.Intn(4) == 0 {
		g.defN++
		st.Def = "#D" + strconv.Itoa(g.defN)
		g.defs = append(g.defs, st.Def+": "+cueRender(st, 0, true))
	}
	return st
}

func cueInd(n int) string { return strings.Repeat("\t", n) }

func cueRender(t *CTy, lvl int, inline bool) string {
	if t.Def != "" && !inline {
		return t.Def
	}
	switch t.T {
	case "top":
		return "_"
	case "list":
		if t.Open == 1 {
			return "[..." + cueRender(t.E, lvl, false) + "]"
		}
		return "[" + cueRender(t.E, lvl, false) + "]"
	case "deplist":
		var qs []string
		for _, v := range t.V {
			qs = append(qs, strconv.Quote(v))
		}
		return "[" + strings.Join(qs, ", ") + "]"
	case "struct":
		var sb strings.Builder
		sb.WriteString("{\n")
		for _, f := range t.F {
			nm := f.N
			if f.Q == 1 {
				nm = strconv.Quote(nm)
			}
			switch f.M {
			case "opt":
				nm += "?"
			case "req":
				nm += "!"
			}
			sb.WriteString(cueInd(lvl+1) + nm + ": " + cueRender(f.Ty, lvl+1, false) + "\n")
		}
		if t.Open == 1 {
			sb.WriteString(cueInd(lvl+1) + "...\n")
		}
		sb.WriteString(cueInd(lvl) + "}")
		return sb.String()
	}
	return t.T
}

func cueSchemaText(g *cueGen, root *CTy) string {
	schema := ""
	if len(g.defs) > 0 {
		schema = strings.Join(g.defs, "\n") + "\n"
	}
	body := cueRender(root, 0, true)
	return schema + strings.TrimSuffix(strings.TrimPrefix(body, "{\n"), "}")
}

// ---------- running the real validator ----------

type cueOut struct {
	Line   string // ACC <type> <io> | REJ <class> | ERR | PANIC | TIMEOUT
	Errs   string
	Fields []string // fields offered at the root part (nil when there is no result tree)
	JSON   string   // marshalled tree with the random ids removed
}

func stripIDs(v any) any {
	switch t := v.(type) {
	case map[string]any:
		delete(t, "id")
		for k, x := range t {
			t[k] = stripIDs(x)
		}
		return t
	case []any:
		for i, x := range t {
			t[i] = stripIDs(x)
		}
		return t
	}
	return v
}

func cueValidateOnce(q, schema, cp string) (out cueOut) {
	defer func() {
		if r := recover(); r != nil {
			out = cueOut{Line: "PANIC", Errs: fmt.Sprint(r)}
		}
	}()
	tc, err := mpath.CueValidate(q, schema, cp)
	if tc == nil || isNilIface(tc) {
		e := ""
		if err != nil {
			e = err.Error()
		}
		if err == nil {
			return cueOut{Line: "NEITHER"}
		}
		return cueOut{Line: "ERR", Errs: e}
	}
	if b, merr := json.Marshal(tc); merr == nil {
		var tree any
		if json.Unmarshal(b, &tree) == nil {
			tree = stripIDs(tree)
			if m, ok := tree.(map[string]any); ok {
				if parts, ok := m["parts"].([]any); ok && len(parts) > 0 {
					if p0, ok := parts[0].(map[string]any); ok {
						if av, ok := p0["available"].(map[string]any); ok {
							if fs, ok := av["fields"].([]any); ok {
								for _, f := range fs {
									out.Fields = append(out.Fields, fmt.Sprint(f))
								}
							}
						}
					}
				}
			}
			nb, _ := json.Marshal(tree)
			out.JSON = string(nb)
			noteResultTree(tree, tc.HasErrors(), q, schema, cp)
		}
	}
	if err == nil && !tc.HasErrors() {
		rt := tc.ReturnType()
		out.Line = fmt.Sprintf("ACC %s %s", rt.Type, rt.IOType)
		return out
	}
	e := tc.GetErrors()
	if err != nil {
		e += " " + err.Error()
	}
	out.Errs = e
	switch {
	case strings.Contains(e, "is not available"):
		out.Line = "REJ blocked"
	case strings.Contains(e, "cannot address into primitive"):
		out.Line = "REJ primitive"
	case strings.Contains(e, "cannot address into array"):
		out.Line = "REJ array"
	case strings.Contains(e, "couldn't access field"):
		out.Line = "REJ notfound"
	default:
		out.Line = "REJ other"
	}
	return out
}

func isNilIface(tc mpath.CanBeAPart) bool {
	defer func() { recover() }()
	switch t := tc.(type) {
	case *mpath.Path:
		return t == nil
	case *mpath.LogicalOperation:
		return t == nil
	}
	return false
}

func cueValidateGuarded(q, schema, cp string) cueOut {
	ch := make(chan cueOut, 1)
	go func() { ch <- cueValidateOnce(q, schema, cp) }()
	select {
	case o := <-ch:
		return o
	case <-time.After(caseTimeout):
		return cueOut{Line: "TIMEOUT"}
	}
}

// ---------- the specification (independent of mpath and of CUE) ----------

var cueBaseNames = []string{"input", "_input", "variables", "_variables", "secrets", "_secrets", "connections", "_connections", "metadata", "_metadata"}

// specStep: what one key does at a schema node. ok=false: rejected. unspec: the property leaves the case open.
func specStep(cur *CTy, key string) (next *CTy, ok bool, unspec bool) {
	switch cur.T {
	case "top":
		return cur, true, false
	case "struct":
		for _, f := range cur.F {
			if f.N == key {
				if f.H == 1 && f.M != "reg" {
					return f.Ty, true, true // hidden and ?/!: unspecified
				}
				return f.Ty, true, false
			}
		}
		for _, f := range cur.F {
			if strings.EqualFold(f.N, key) {
				return nil, false, true // differs only in letter case: unspecified
			}
		}
		if cur.Open == 1 {
			return &CTy{T: "top"}, true, false
		}
		return nil, false, false
	}
	// primitives, lists (a key cannot be stepped across a list; after a list of lists there is nothing it could name), dependency
	// lists: no key can be stepped
	return nil, false, false
}

// specElemStep: a key applied to an ELEMENT of a list (after First/Last/Index, or as the first key of a filter condition) names a
// field of the element type
func specElemStep(list *CTy, key string) (next *CTy, ok bool, unspec bool) {
	if list.T != "list" {
		return nil, false, true
	}
	switch list.E.T {
	case "top", "struct":
		return specStep(list.E, key)
	}
	return nil, false, false
}

func specKind(t *CTy) (ty, io string, unspec bool) {
	prim := func(k string) string {
		switch k {
		case "bool":
			return "Boolean"
		case "string", "bytes":
			return "String"
		case "int", "float", "number":
			return "Number"
		case "top":
			return "Any"
		}
		return "?"
	}
	switch t.T {
	case "struct":
		return "Object", "Single", false
	case "list":
		switch t.E.T {
		case "struct":
			return "Object", "Array", false
		case "list", "deplist":
			return "Any", "Single", true // lists of lists: outside the quantifier
		}
		return prim(t.E.T), "Array", false
	case "deplist":
		return "String", "Array", true
	}
	return prim(t.T), "Single", false
}

// specWalk: expected verdict for a key-only path from the schema root (no current step).
func specWalk(root *CTy, path []string) (line string, unspec bool) {
	cur := root
	for _, k := range path {
		nx, ok, u := specStep(cur, k)
		if u {
			unspec = true
		}
		if !ok {
			return "REJ", unspec
		}
		cur = nx
	}
	if len(path) == 0 {
		return "ACC Root Single", unspec
	}
	ty, io, u := specKind(cur)
	return "ACC " + ty + " " + io, unspec || u
}

func cueDeps(root *CTy, step string) ([]string, bool) {
	for _, f := range root.F {
		if f.N == step && f.Ty.T == "struct" {
			for _, g := range f.Ty.F {
				if g.N == "_dependencies" && g.Ty.T == "deplist" {
					return g.Ty.V, true
				}
			}
			return nil, false
		}
	}
	return nil, false
}

// specAllowed: the set of root fields a query may start at when `cp` is the current step:
// base paths + the transitive closure of cp's dependencies. errored: some dependency names no declared step.
func specAllowed(root *CTy, cp string) (allowed map[string]bool, selfReach bool, errored bool) {
	allowed = map[string]bool{}
	for _, b := range cueBaseNames {
		allowed[b] = true
	}
	deps, ok := cueDeps(root, cp)
	if !ok {
		return allowed, false, true
	}
	seen := map[string]bool{}
	queue := append([]string{}, deps...)
	for len(queue) > 0 {
		d := queue[0]
		queue = queue[1:]
		if seen[d] {
			continue
		}
		seen[d] = true
		allowed[d] = true
		nd, ok := cueDeps(root, d)
		if !ok {
			errored = true
			continue
		}
		queue = append(queue, nd...)
	}
	return allowed, seen[cp], errored
}

// ---------- shared case runner ----------

type cueCase struct {
	S   *CTy     `json:"s"`
	P   []string `json:"p"`
	CP  string   `json:"cp"`
	Dom bool     `json:"dom"`
	Pos string   `json:"pos,omitempty"` // "" head | filter | arg | group | elem: the head position and (with Steps) element steps are modelled
	// Steps: a path of keys and element functions for the model ("k:<key>" | "e" for First() / Last() / Index(i) | "c:<key>" for a filter whose condition reads that key of the elements)
	Steps []string `json:"steps,omitempty"`
	Q     string   `json:"-"`
	// QH: the query text in hex, sent to the model for the cases that read a root field somewhere other than the head
	QH string `json:"qh,omitempty"`
	Txt   string   `json:"-"`
}

func (c *Ctx) cueDo(cs cueCase, cls, expect string, unspec bool) cueOut {
	if cs.Pos != "" && cs.Pos != "at-root" && cs.Pos != "elem" && cs.Pos != "text" && cs.Q != "" {
		cs.QH = hx(cs.Q)
	}
	line, _ := json.Marshal(cs)
	o := cueValidateGuarded(cs.Q, cs.Txt, cs.CP)
	oc := o.Line
	c.Record(line, o.Line, cls, cs.Dom && !unspec, fmt.Sprintf("%s|%d|%s", cls, len(cs.P), cuePathShape(cs.S, cs.P)), oc,
		map[string]any{"query": cs.Q, "current_step": cs.CP, "schema": trunc(cs.Txt, 600), "impl": o.Line, "expected": expect, "class": cls})
	mk := func(kind, why string) Violation {
		return Violation{Kind: kind, Query: cs.Q, QueryHex: hx(cs.Q), Expected: expect, Got: o.Line, Why: why, Cls: cls,
			Extra: map[string]any{"schema": cs.Txt, "current_step": cs.CP, "errors": trunc(o.Errs, 300)}}
	}
	switch o.Line {
	case "PANIC":
		c.addViolation(mk("panic", "CueValidate panicked: "+trunc(o.Errs, 160)))
		return o
	case "TIMEOUT":
		c.addViolation(mk("timeout", "CueValidate did not return within "+caseTimeout.String()))
		return o
	case "NEITHER":
		c.addViolation(mk("neither", "CueValidate returned neither a result nor an error"))
		return o
	}
	if expect == "" || unspec || !cs.Dom {
		return o
	}
	got := o.Line
	if strings.HasPrefix(expect, "REJ") && strings.HasPrefix(got, "REJ") {
		return o // the property asks for an error, not for a particular message
	}
	if got != expect {
		v := mk("oracle", "verdict differs from the specification")
		v.Key = "oracle:" + cls + ":" + strings.Fields(expect + " -")[0] + ">" + strings.Fields(got + " -")[0]
		c.addViolation(v)
	}
	return o
}

// shape of the schema along a path (for the distinct count): kinds of the nodes met
func cuePathShape(root *CTy, p []string) string {
	cur := root
	var sb strings.Builder
	for _, k := range p {
		nx, ok, _ := specStep(cur, k)
		if !ok {
			sb.WriteString("!")
			break
		}
		sb.WriteString(nx.T[:1])
		if nx.T == "list" {
			sb.WriteString(nx.E.T[:1])
		}
		cur = nx
	}
	return sb.String()
}

func cueDeclaredPaths(t *CTy, cur []string, out *[][]string, depth int) {
	if t.T != "struct" || depth > 5 {
		return
	}
	for _, f := range t.F {
		if f.Ty.T == "deplist" {
			continue
		}
		p := append(append([]string{}, cur...), f.N)
		*out = append(*out, p)
		cueDeclaredPaths(f.Ty, p, out, depth+1)
	}
}

func init() {
	commands["cue"] = func(args []string) { // mpv cue <prop> <outdir> <seed> <tier>
		prop, dir := args[0], args[1]
		seed, _ := strconv.ParseUint(args[2], 10, 64)
		tier := args[3]
		quietStderr()
		c := newCtx(prop, dir, tier, seed)
		R = c.R
		switch prop {
		case "C13":
			genC13(c)
		case "C15":
			genC15(c)
		case "C14":
			genC14(c)
		case "C16":
			genC16(c)
		default:
			fmt.Fprintln(os.Stderr, "no cue generator for", prop)
			os.Exit(2)
		}
		c.flushResultTrees()
		c.Finish()
	}
}

// ---------- C13 ----------

var c13Steps = []string{"input", "variables", "s1", "s2", "s3", "_secrets"}

func c13Root(g *cueGen, depth int) (*CTy, []string) {
	root := &CTy{T: "struct"}
	ns := 2 + g.r.Intn(len(c13Steps)-1)
	steps := append([]string{}, c13Steps[:ns]...)
	for _, s := range steps {
		st := g.strct(depth, false)
		st.Open = 0
		var deps []string
		for _, o := range steps {
			if g.r.Intn(3) == 0 {
				deps = append(deps, o)
			}
		}
		if deps == nil {
			deps = []string{}
		}
		st.F = append(st.F, &CField{N: "_dependencies", M: "reg", H: 1, Ty: &CTy{T: "deplist", V: deps}})
		f := &CField{N: s, M: "reg", Ty: st}
		if strings.HasPrefix(s, "_") {
			f.Q = 1
		}
		root.F = append(root.F, f)
	}
	return root, steps
}

// c13KeysBelowTheRootNamedLikeSteps: with a current step, keys BELOW the root that are spelled like root fields (blocked ones included)
// are ordinary declared keys
func c13KeysBelowTheRootNamedLikeSteps(c *Ctx) {
	steps := []string{"s1", "s2", "s3"}
	edges := map[string][]string{"s2": {"s1"}}
	root, _ := c15Schema(steps, edges, []string{"lonely"})
	for _, f := range root.F {
		var fs []*CField
		for _, nm := range []string{"s1", "s2", "s3", "lonely", "input"} {
			fs = append(fs, &CField{N: nm, M: "reg", Ty: &CTy{T: "int"}})
		}
		fs = append(fs, &CField{N: "deep", M: "reg", Ty: &CTy{T: "struct", F: []*CField{{N: "s3", M: "reg", Ty: &CTy{T: "struct", F: []*CField{{N: "x", M: "reg", Ty: &CTy{T: "string"}}}}}}}})
		f.Ty.F = append(f.Ty.F, &CField{N: "result", M: "reg", Ty: &CTy{T: "struct", F: fs}})
	}
	txt := cueSchemaText(&cueGen{}, root)
	for _, cp := range []string{"", "s1", "s2", "s3"} {
		for _, head := range []string{"input", "s1"} {
			if cp != "" && cp != "s2" && head == "s1" { // s1 is readable without a step and for s2 (which depends on it)
				continue
			}
			for _, nm := range []string{"s1", "s2", "s3", "lonely", "input"} {
				c.cueDo(cueCase{S: root, P: []string{head, "result", nm}, CP: cp, Dom: true, Q: "$." + head + ".result." + nm, Txt: txt}, "keys-below-the-root-named-like-steps", "ACC Number Single", false)
			}
			c.cueDo(cueCase{S: root, P: []string{head, "result", "deep", "s3", "x"}, CP: cp, Dom: true, Q: "$." + head + ".result.deep.s3.x", Txt: txt}, "keys-below-the-root-named-like-steps", "ACC String Single", false)
			c.cueDo(cueCase{S: root, P: []string{head, "result", "deep", "s3"}, CP: cp, Dom: true, Q: "$." + head + ".result.deep.s3", Txt: txt}, "keys-below-the-root-named-like-steps", "ACC Object Single", false)
		}
	}
}

// c13SchemasRevisited: schemas that declare the same paths with other types, validated in turn and then again (S1, S2, S1, S2, S1):
// what a path is found to be is a matter of the schema that is given, not of the one that was given before
func c13SchemasRevisited(c *Ctx) {
	st := func(fs ...*CField) *CTy { return &CTy{T: "struct", F: fs} }
	fld := func(n string, t *CTy) *CField { return &CField{N: n, M: "reg", Ty: t} }
	prim := func(t string) *CTy { return &CTy{T: t} }
	s1 := st(fld("a", st(fld("x", prim("string")), fld("b", st(fld("c", prim("int")))))), fld("input", st(fld("name", prim("string")))))
	s2 := st(fld("a", st(fld("x", prim("int")), fld("y", prim("bool")), fld("b", st(fld("c", prim("string")), fld("d", st(fld("e", prim("string")))))))), fld("input", st(fld("name", prim("bool")))))
	s3 := st(fld("a", st(fld("x", prim("bool")), fld("b", prim("string")))), fld("input", st(fld("name", prim("int")), fld("more", prim("string")))))
	roots := []*CTy{s1, s2, s3}
	var txts []string
	for _, r := range roots {
		txts = append(txts, cueSchemaText(&cueGen{}, r))
	}
	paths := [][]string{{"a", "x"}, {"a", "y"}, {"a", "b", "c"}, {"a", "b", "d", "e"}, {"a", "b"}, {"input", "name"}, {"input", "more"}, {"a"}}
	for _, k := range []int{0, 1, 0, 1, 0, 2, 0, 2, 1, 0} {
		for _, p := range paths {
			expect, unspec := specWalk(roots[k], p)
			c.cueDo(cueCase{S: roots[k], P: p, CP: "", Dom: !unspec, Q: "$." + strings.Join(p, "."), Txt: txts[k]}, "schemas-revisited", expect, unspec)
		}
	}
}

// c13KeysNamedLikeFunctions: keys spelled like the functions of the library (Count, Index, First, Sum ...) are keys: declared ones have
// their kind, undeclared ones are accepted as Any exactly where any other undeclared key is (an open struct, `_`), rejected elsewhere
func c13KeysNamedLikeFunctions(c *Ctx) {
	fld := func(n string, t *CTy) *CField { return &CField{N: n, M: "reg", Ty: t} }
	prim := func(t string) *CTy { return &CTy{T: t} }
	open := &CTy{T: "struct", Open: 1, F: []*CField{fld("a", prim("int"))}}
	stats := &CTy{T: "struct", F: []*CField{fld("Index", prim("top")), fld("Sum", prim("number")), fld("Count", prim("string")), fld("plain", prim("top"))}}
	root := &CTy{T: "struct", F: []*CField{fld("payload", open), fld("stats", stats), fld("extra", prim("top")), fld("input", &CTy{T: "struct", F: []*CField{fld("name", prim("string"))}})}}
	txt := cueSchemaText(&cueGen{}, root)
	for _, fn := range []string{"Count", "Index", "First", "Sum", "Last", "Any", "Equal", "Select", "AsJSON", "IsNull", "other"} {
		for _, p := range [][]string{{"payload", fn}, {"stats", fn}, {"extra", fn}, {"payload", fn, "deeper"}, {"extra", "x", fn}, {"input", fn}} {
			expect, unspec := specWalk(root, p)
			c.cueDo(cueCase{S: root, P: p, CP: "", Dom: !unspec, Q: "$." + strings.Join(p, "."), Txt: txt}, "keys-named-like-functions", expect, unspec)
		}
	}
}

func genC13(c *Ctx) {
	c13KeysBelowTheRootNamedLikeSteps(c)
	c13SchemasRevisited(c)
	c13KeysNamedLikeFunctions(c)
	c.Rule = "random CUE schemas from a type-tree generator (closed and open structs to depth 4; fields string/bytes/bool/int/float/number/_; lists of those and of structs; regular, optional ?, required !, quoted, hidden _x and definition-typed fields), each rendered as CUE text; per schema every declared key path (sampled when there are many) plus one-key mutations (a key replaced by an undeclared one, an undeclared or misplaced key appended), validated by the real CueValidate with and without a current step; oracle: accept with the declared (type, Single|Array) iff every key names a declared field, reject otherwise (any message), open structs and _ accept any further key as Any; a key after a list of lists is rejected; keys applied to the ELEMENTS of a list of structs or of `_` (after First / Last / Index(0), and as the key of a filter condition; open lists `[...T]` and closed lists `[T]`): a declared element field is accepted with its own kind, an undeclared one rejected, open element structs and `_` elements accept any key as Any; unspecified by the property and excluded from the oracle: hidden fields marked ?/!, keys differing only in case, the kind reported for a list of lists. distinct = distinct (class, path length, node kinds along the path, verdict); non-trivial = verdict is not the most common one"
	n := c.scale(700, 7000)
	for i := 0; i < n; i++ {
		g := &cueGen{r: c.R}
		root, steps := c13Root(g, 3)
		txt := cueSchemaText(g, root)
		var ps [][]string
		cueDeclaredPaths(root, nil, &ps, 0)
		for k := 0; k < 26 && len(ps) > 0; k++ {
			p := append([]string{}, ps[c.R.Intn(len(ps))]...)
			cls := "declared"
			switch c.R.Intn(7) {
			case 0:
				p[c.R.Intn(len(p))] = "zz"
				cls = "mutated/replaced"
			case 1:
				p = append(p, "zz")
				cls = "mutated/appended-undeclared"
			case 2:
				p = append(p, cueNames[c.R.Intn(len(cueNames))])
				cls = "mutated/appended-name"
			case 3:
				if len(p) > 1 {
					j := c.R.Intn(len(p))
					p[j] = strings.ToUpper(p[j])
					cls = "ood/recased"
				}
			}
			cp := ""
			if c.R.Intn(2) == 0 {
				cp = steps[c.R.Intn(len(steps))]
			}
			expect, unspec := specWalk(root, p)
			if cp != "" {
				allowed, selfReach, errored := specAllowed(root, cp)
				switch {
				case errored:
					expect = "ERR"
				case p[0] == cp && cp != "input":
					expect = "REJ"
					_ = selfReach
				case !allowed[p[0]]:
					expect = "REJ"
				}
				cls += "/step"
			}
			if strings.HasPrefix(cls, "ood") {
				unspec = true
			}
			q := "$." + strings.Join(p, ".")
			c.cueDo(cueCase{S: root, P: p, CP: cp, Dom: !unspec, Q: q, Txt: txt}, cls, expect, unspec)
			if cp != "" && k%3 == 0 { // the same path written from `@`: a top-level `@` path starts at the root like `$`
				c.cueDo(cueCase{S: root, P: p, CP: cp, Dom: !unspec, Pos: "at-root", Q: "@." + strings.Join(p, "."), Txt: txt}, cls+"/at-root", expect, unspec)
			}
		}
	}
	// keys applied to the elements of a list: after First / Last / Index, and as the key of a filter condition; open lists `[...T]`
	// and closed ones `[T]`; declared element fields (their own kind is reported), undeclared ones (rejected), open element
	// structs and `_` elements (any key, Any)
	for i := 0; i < c.scale(500, 5000); i++ {
		g := &cueGen{r: c.R}
		root, _ := c13Root(g, 3)
		txt := cueSchemaText(g, root)
		var ps [][]string
		cueDeclaredPaths(root, nil, &ps, 0)
		var lists [][]string
		for _, p := range ps {
			cur, ok := root, true
			for _, k := range p {
				var u bool
				cur, ok, u = specStep(cur, k)
				if !ok || u {
					ok = false
					break
				}
			}
			if ok && cur.T == "list" && (cur.E.T == "struct" || cur.E.T == "top") {
				lists = append(lists, p)
			}
		}
		for k := 0; k < 4 && len(lists) > 0; k++ {
			p := lists[c.R.Intn(len(lists))]
			cur := root
			for _, kk := range p {
				cur, _, _ = specStep(cur, kk)
			}
			key := "zz"
			switch r := c.R.Intn(5); {
			case r < 3 && cur.E.T == "struct" && len(cur.E.F) > 0:
				key = cur.E.F[c.R.Intn(len(cur.E.F))].N
			case r == 3:
				key = cueNames[c.R.Intn(len(cueNames))]
			}
			if key == "_dependencies" {
				continue
			}
			nx, ok, unspec := specElemStep(cur, key)
			form := c.R.Intn(4)
			q := "$." + strings.Join(p, ".") + []string{".First()." + key, ".Last()." + key, ".Index(0)." + key, "[@." + key + ".IsNull()]"}[form]
			expect := "REJ"
			if ok {
				if form == 3 {
					expect = "ACC Object Array"
					if cur.E.T == "top" {
						expect = "ACC Any Array"
					}
				} else {
					ty, io, u := specKind(nx)
					expect, unspec = "ACC "+ty+" "+io, unspec || u
				}
			}
			cls := []string{"element-key/First", "element-key/Last", "element-key/Index", "element-key/filter"}[form] + map[int]string{0: "/closed-list", 1: "/open-list"}[cur.Open]
			var steps []string
			for _, pk := range p {
				steps = append(steps, "k:"+pk)
			}
			if form < 3 {
				steps = append(steps, "e", "k:"+key)
			} else { // a filter whose condition reads the key
				steps = append(steps, "c:"+key)
			}
			c.cueDo(cueCase{S: root, P: append(append([]string{}, p...), key), CP: "", Dom: !unspec, Pos: "elem", Steps: steps, Q: q, Txt: txt}, cls, expect, unspec)
		}
	}
	// hand-written schemas: definitions (which are not fields: `#name` is not an addressable key, wherever it is declared), and root
	// fields whose names look like identifiers of another kind (32 hex digits, UUIDs in capitals) - a key is its spelling
	{
		txt := `#Address: {street: string, zip: int}
input: {
	name: string
	addr: #Address
	order: {#line: {qty: int}, first: #line, total: number}
	_dependencies: []
}
s2: {
	r: {#r: {v: int}, w: #r}
	_dependencies: ["input"]
}
"0cc175b9c0f1b6a831c399e269772661": {v: int, _dependencies: []}
"52A015EF-1F7B-4C3A-9E2D-7A5B1C2D3E4F": {v: string, _dependencies: []}
"11111111-2222-3333-4444-555555555555": {v: bool, _dependencies: []}
`
		for _, qe := range [][3]string{
			{"$.input.addr.street", "", "ACC String Single"}, {"$.input.addr.zip", "", "ACC Number Single"}, {"$.input.order.first.qty", "", "ACC Number Single"}, {"$.s2.r.w.v", "", "ACC Number Single"},
			{"$.#Address", "", "REJ"}, {"$.#Address.street", "", "REJ"}, {"$.input.#Address", "", "REJ"}, {"$.input.order.#line", "", "REJ"}, {"$.input.order.#line.qty", "", "REJ"},
			{"$.s2.r.#r.v", "", "REJ"}, {"$.input.order.#line.qty", "s2", "REJ"}, {"$.s2.r.#r", "", "REJ"}, {"$.input.addr.#Address", "", "REJ"},
			{"$.0cc175b9c0f1b6a831c399e269772661.v", "", "ACC Number Single"}, {"$.52A015EF-1F7B-4C3A-9E2D-7A5B1C2D3E4F.v", "", "ACC String Single"},
			{"$.11111111-2222-3333-4444-555555555555.v", "", "ACC Boolean Single"}, {"$.11111111222233334444555555555555.v", "", "REJ"}, {"$.urn:uuid:11111111-2222-3333-4444-555555555555.v", "", "REJ"},
			{"$.0CC175B9C0F1B6A831C399E269772661.v", "", ""}, {"$.0cc175b9-c0f1-b6a8-31c3-99e269772661.v", "", "REJ"}, {"$.52a015ef-1f7b-4c3a-9e2d-7a5b1c2d3e4f.v", "", ""},
			{"$.input.name.Equal($.0cc175b9c0f1b6a831c399e269772661.v)", "", ""}, {"$.0cc175b9c0f1b6a831c399e269772661.v", "s2", "REJ"}, {"$.input.0cc175b9c0f1b6a831c399e269772661", "", "REJ"},
		} {
			c.cueDo(cueCase{S: &CTy{T: "struct"}, P: []string{"text"}, CP: qe[1], Dom: true, Pos: "text", Q: qe[0], Txt: txt}, "named/definitions-and-odd-names", qe[2], qe[2] == "")
		}
	}
}

// ---------- C15 ----------

func c15Schema(steps []string, edges map[string][]string, extraDeclared []string) (*CTy, string) {
	root := &CTy{T: "struct"}
	mkStep := func(name string, deps []string) *CField {
		if deps == nil {
			deps = []string{}
		}
		st := &CTy{T: "struct", F: []*CField{
			{N: "name", M: "reg", Ty: &CTy{T: "string"}},
			{N: "ok", M: "reg", Ty: &CTy{T: "bool"}},
			{N: "items", M: "reg", Ty: &CTy{T: "list", Open: 1, E: &CTy{T: "struct", F: []*CField{{N: "v", M: "reg", Ty: &CTy{T: "string"}}}}}},
			{N: "_dependencies", M: "reg", H: 1, Ty: &CTy{T: "deplist", V: deps}},
		}}
		f := &CField{N: name, M: "reg", Ty: st}
		if strings.Contains(name, "-") || strings.Contains(name, "\\") || (name != "" && name[0] >= '0' && name[0] <= '9') {
			f.Q = 1 // a name that CUE only takes as a quoted label (a backslash is written twice inside the quotes)
		}
		if strings.HasPrefix(name, "_") { // a hidden root field (not one of the base paths): a step like the others as far as availability goes
			f.H = 1
		}
		if form, ok := c15Forms[name]; ok { // optional / required / quoted declarations of a step
			f.M, f.Q = form.M, form.Q
		}
		return f
	}
	root.F = append(root.F, mkStep("input", edges["input"]))
	root.F = append(root.F, mkStep("variables", nil))
	for _, s := range steps {
		root.F = append(root.F, mkStep(s, edges[s]))
	}
	for _, s := range extraDeclared {
		root.F = append(root.F, mkStep(s, nil))
	}
	// the order in which the root fields are declared in the schema text
	switch n := len(root.F); c15Order {
	case 1: // the steps first, input and variables last
		root.F = append(append([]*CField{}, root.F[2:]...), root.F[0], root.F[1])
	case 2: // everything reversed
		for i := 0; i < n/2; i++ {
			root.F[i], root.F[n-1-i] = root.F[n-1-i], root.F[i]
		}
	case 3: // rotated by three
		root.F = append(append([]*CField{}, root.F[3%n:]...), root.F[:3%n]...)
	}
	g := &cueGen{}
	return root, cueSchemaText(g, root)
}

// c15Order: the order of declaration (0: input, variables, the steps, the merely declared ones)
var c15Order = 0

// c15Forms: how a step is declared (mark and quoting) when it is not a plain regular field
var c15Forms = map[string]*CField{}

func c15Queries(target string) [][2]string {
	return [][2]string{
		{"", "$." + target + ".name"},
		{"filter", "$.input.items[@.v.Equal($." + target + ".name)]"},
		{"arg", "$.input.name.Equal($." + target + ".name)"},
		{"group", "{OR,$.input.ok,{AND,$." + target + ".ok}}"},
		{"mark", "$." + target + "?.name"},
		{"mark-arg", "$.input.name.Equal($." + target + "?.name?)"},
		{"after-parse", "$.input.name.ParseJSON().token.Equal($." + target + ".name)"},
		{"after-parse-group", "{$.input.ok,$.input.name.ParseYAML().a.b.Equal($." + target + ".name)}"},
		{"at-root", "@." + target + ".name"}, // a top-level `@` path starts at the root like `$`
		{"at-root-group", "{OR,@." + target + ".ok,$.input.ok}"},
		// the root field read in an argument that is not the last one (a permitted path or a literal follows it)
		{"arg-first-of-two", "$.input.name.AnyOf($." + target + ".name,$.input.name)"},
		{"arg-middle", "$.input.name.AnyOf(\"x\",$." + target + ".name,$.input.name)"},
		{"arg-before-literal", "$.input.name.AnyOf($." + target + ".name,\"x\")"},
		{"filter-arg-first-of-two", "$.input.items[@.v.AnyOf($." + target + ".name,$.input.name)]"},
		{"group-arg-first-of-two", "{AND,$.input.ok,{OR,$.input.name.AnyOf($." + target + ".name,$.input.name)}}"},
		{"arg-in-arg", "$.input.name.Equal($.input.name.TrimLeft(0).AnyOf($." + target + ".name,$.input.name).Not().AsJSON())"},
		// in a group nested in the condition of a filter, in the second (third) filter on one key, and both
		{"group-in-filter", "$.input.items[OR,@.v.Equal(\"x\"),{AND,@.v.Equal($." + target + ".name)}]"},
		{"group-in-filter-direct", "$.input.items[OR,@.v.Equal(\"x\"),{AND,$." + target + ".ok}]"},
		{"group-in-group-in-filter", "$.input.items[{OR,{AND,{$." + target + ".ok}}}]"},
		{"second-filter", "$.input.items[@.v.Equal(\"x\")][@.v.Equal($." + target + ".name)]"},
		{"third-filter", "$.input.items[@.v.Equal(\"x\")][@.v.Equal(\"y\")][@.v.Equal($." + target + ".name)].First().v"},
		{"second-filter-group", "{AND,$.input.ok,$.input.items[@.v.Equal(\"x\")][{OR,$." + target + ".ok}].Any()}"},
	}
}

// c15RootOffers: the field lists offered by every `$` part of a result tree (paths in filters, groups and arguments included)
func c15RootOffers(tree any, out *[][]string) {
	switch t := tree.(type) {
	case map[string]any:
		if t["partType"] == "PathIdent" && t["string"] == "$" {
			if av, ok := t["available"].(map[string]any); ok {
				if fs, ok := av["fields"].([]any); ok {
					var l []string
					for _, f := range fs {
						l = append(l, fmt.Sprint(f))
					}
					*out = append(*out, l)
				}
			}
		}
		for _, v := range t {
			c15RootOffers(v, out)
		}
	case []any:
		for _, v := range t {
			c15RootOffers(v, out)
		}
	}
}

var c15Calls = 0

func (c *Ctx) c15Check(root *CTy, txt string, all []string, cp, target, cls string, positions bool) {
	allowed, selfReach, errored := specAllowed(root, cp)
	expectOK := allowed[target] && !(target == cp && cp != "input")
	// the current step itself is rejected (unless it is input) even when it can reach itself through a cycle
	unspec := false
	_ = selfReach
	qs := c15Queries(target)
	c15Calls++
	switch {
	case strings.Contains(target, "-"):
		qs = qs[:4]
		if !positions {
			qs = qs[:1]
		}
	case !positions && c15Calls%3 == 0:
		qs = [][2]string{qs[0], qs[4]} // the root field written with its `?` mark
	case !positions && c15Calls%3 == 1:
		qs = [][2]string{qs[0], qs[8]} // the path written from `@` at the top level
	case !positions:
		qs = qs[:1]
	}
	for _, pq := range qs {
		pos, q := pq[0], pq[1]
		expect := "REJ"
		if expectOK {
			switch pos {
			case "", "mark", "at-root":
				expect = "ACC String Single"
			case "filter", "filter-arg-first-of-two", "group-in-filter", "group-in-filter-direct", "group-in-group-in-filter", "second-filter":
				expect = "ACC Object Array"
			case "third-filter":
				expect = "ACC String Single"
			default:
				expect = "ACC Boolean Single"
			}
		}
		if errored {
			expect = "ERR"
		}
		pcls := cls
		if pos != "" {
			pcls += "/" + pos
		}
		o := c.cueDo(cueCase{S: root, P: []string{target, "name"}, CP: cp, Dom: !unspec, Pos: pos, Q: q, Txt: txt}, pcls, expect, unspec)
		// every `$` part of the result (in filters, groups and arguments too) offers what the first one offers: the non-blocked fields
		if pos != "" && !errored && !unspec && o.JSON != "" {
			var tree any
			var offers [][]string
			if json.Unmarshal([]byte(o.JSON), &tree) == nil {
				c15RootOffers(tree, &offers)
			}
			for _, l := range offers {
				offered := map[string]bool{}
				for _, f := range l {
					offered[f] = true
				}
				for _, f := range all {
					blocked := !allowed[f] || (f == cp && cp != "input")
					if blocked == offered[f] {
						c.addViolation(Violation{Kind: "oracle", Query: q, QueryHex: hx(q), Expected: fmt.Sprintf("every root part offers %s: %v", f, !blocked), Got: strings.Join(l, ","),
							Why: "a `$` part below the top of the query offers other root fields than the permitted ones", Cls: pcls, Key: "oracle:offered-below-top:" + pos, Extra: map[string]any{"schema": txt, "current_step": cp}})
						break
					}
				}
			}
		}
		// the fields offered at the root, as the model computes them (Mp.offeredFields)
		if pos == "" && o.Fields != nil && !unspec && !strings.HasPrefix(o.Line, "ERR") && o.Line != "PANIC" && o.Line != "TIMEOUT" {
			hexes := make([]string, 0, len(o.Fields))
			for _, f := range o.Fields {
				hexes = append(hexes, hx(f))
			}
			sort.Strings(hexes)
			ol, _ := json.Marshal(map[string]any{"s": root, "p": []string{}, "cp": cp, "pos": "offers", "dom": !errored})
			c.Record(ol, "OFF "+strings.Join(hexes, ","), cls+"/offers", !errored, cls+"/offers|"+fmt.Sprint(len(hexes)), "OFF", nil)
		}
		// the fields offered at the root must leave out exactly the blocked ones
		if pos == "" && !errored && o.Fields != nil && !unspec {
			offered := map[string]bool{}
			for _, f := range o.Fields {
				offered[f] = true
			}
			for _, f := range all {
				blocked := !allowed[f] || (f == cp && cp != "input")
				if blocked && offered[f] {
					c.addViolation(Violation{Kind: "oracle", Query: q, QueryHex: hx(q), Expected: "root fields offered without " + f, Got: strings.Join(o.Fields, ","),
						Why: "a blocked root field is offered at the root", Cls: cls, Key: "oracle:offered-blocked", Extra: map[string]any{"schema": txt, "current_step": cp}})
				}
				if !blocked && !offered[f] {
					c.addViolation(Violation{Kind: "oracle", Query: q, QueryHex: hx(q), Expected: "root fields offered include " + f, Got: strings.Join(o.Fields, ","),
						Why: "an available root field is not offered at the root", Cls: cls, Key: "oracle:not-offered", Extra: map[string]any{"schema": txt, "current_step": cp}})
				}
			}
		}
	}
}

func genC15(c *Ctx) {
	c.Rule = "dependency graphs over k steps (every subset of the k*k edges, self-loops and cycles included): all graphs over 3 steps in the quick tier (2^9) and all over 4 steps in the thorough tier (2^16, one current step per graph, chosen by a hash of the edge set: 65536 (graph, current step) pairs x 7 targets instead of 4 x as many; the quick tier samples 800 graphs with every current step), each x every current step (3 steps) x every root field as target (steps, a merely declared step, a hidden root field `_s1` next to `s1`, input, variables); steps whose names hold a backslash (written quoted and escaped in CUE, plain in a query); fields below the root named like blocked steps (`$.input.items[@.s2.Equal(..)]`, `$.input.items.First().s2`: accepted, they are element fields), the target read at the head of the path; for a sample also inside a filter, a function argument, a nested group, an argument of a call on a value parsed inside the query (`….ParseJSON().token.Equal($.s1.name)`), and with the root field written with its `?` mark (`$.s1?.name`, also inside an argument); the 3-step graphs again with the root fields declared in three other orders (steps before input, reversed, rotated); plus random graphs of up to 12 steps (chains, diamonds, fan-in, dangling names); root fields that are different spellings of one UUID (lower case, capitals, without dashes): different fields; dense graphs without cycles of 14, 22 and 28 steps (every step depends on all earlier ones: 2^(k-1) routes, one visit per step). Oracle: accepted iff the target is a base path or in the transitive closure of the current step's _dependencies, and is not the current step itself (unless input); the fields offered at the root are exactly the non-blocked ones; a dependency naming an undeclared step yields an error result; every call returns within the watchdog. distinct = distinct (class, verdict)"
	run := func(k int, mask uint64, cls string, positions bool) {
		var steps []string
		for i := 0; i < k; i++ {
			steps = append(steps, fmt.Sprintf("s%d", i+1))
		}
		edges := map[string][]string{}
		for i := 0; i < k; i++ {
			for j := 0; j < k; j++ {
				if mask>>(uint(i*k+j))&1 == 1 {
					edges[steps[i]] = append(edges[steps[i]], steps[j])
				}
			}
		}
		extra := []string{"lonely"}
		if k == 3 {
			extra = append(extra, "_s1") // a hidden root field named like a step: not that step, and nobody's dependency
		}
		root, txt := c15Schema(steps, edges, extra)
		all := append(append([]string{"input", "variables"}, steps...), extra...)
		for ci, cp := range steps {
			// the complete 4-step block takes one current step per graph (the relabellings of a graph are in the block too and get
			// other current steps); the 3-step block and the sampled 4-step graphs take all
			if k == 4 && cls == "exhaustive/4-steps" && uint64(ci) != (mask^(mask>>7))%4 {
				continue
			}
			for _, target := range all {
				c.c15Check(root, txt, all, cp, target, cls, positions)
			}
		}
	}
	for m := uint64(0); m < 1<<9; m++ {
		run(3, m, "exhaustive/3-steps", m%16 == 5)
	}
	if c.thorough() {
		for m := uint64(0); m < 1<<16; m++ {
			run(4, m, "exhaustive/4-steps", m%512 == 7)
		}
		c.Exhaustive = true
	} else {
		for i := 0; i < c.scale(800, 0); i++ {
			run(4, c.R.next()&0xffff, "sampled/4-steps", i%40 == 0)
		}
		c.Exhaustive = true // the 3-step space is complete in this tier
	}
	// steps declared optional, required, quoted, quoted+optional: the same graphs, the same verdicts
	{
		c15Forms = map[string]*CField{"s1": {M: "opt"}, "s-2": {M: "req", Q: 1}, "s-3": {M: "opt", Q: 1}, "lonely": {M: "opt"}}
		steps := []string{"s1", "s-2", "s-3"}
		all := append(append([]string{"input", "variables"}, steps...), "lonely")
		for m := uint64(0); m < 1<<9; m++ {
			if !c.thorough() && m%4 != 1 {
				continue
			}
			edges := map[string][]string{}
			for i := 0; i < 3; i++ {
				for j := 0; j < 3; j++ {
					if m>>(uint(i*3+j))&1 == 1 {
						edges[steps[i]] = append(edges[steps[i]], steps[j])
					}
				}
			}
			root, txt := c15Schema(steps, edges, []string{"lonely"})
			for _, cp := range steps {
				for _, target := range all {
					c.c15Check(root, txt, all, cp, target, "declared-forms/3-steps", m%32 == 1)
				}
			}
		}
		c15Forms = map[string]*CField{}
	}
	// steps whose names hold a backslash (a key may: `$.s\1.name`); CUE writes such a label quoted and escaped
	{
		steps := []string{"s\\1", "s\\\\2", "s3"}
		all := append(append([]string{"input", "variables"}, steps...), "lone\\ly")
		for m := uint64(0); m < 1<<9; m++ {
			if !c.thorough() && m%4 != 2 {
				continue
			}
			edges := map[string][]string{}
			for i := 0; i < 3; i++ {
				for j := 0; j < 3; j++ {
					if m>>(uint(i*3+j))&1 == 1 {
						edges[steps[i]] = append(edges[steps[i]], steps[j])
					}
				}
			}
			root, txt := c15Schema(steps, edges, []string{"lone\\ly"})
			for _, cp := range steps {
				for _, target := range all {
					c.c15Check(root, txt, all, cp, target, "backslash-names/3-steps", m%32 == 2)
				}
			}
		}
	}
	// fields BELOW the root that are named like blocked steps are not root fields: the first key of an `@` condition under a
	// collection, and a key after First(), are fields of the elements
	{
		steps := []string{"s1", "s2", "s3"}
		for _, m := range []uint64{0, 1 << 1, 1<<1 | 1<<5, 1 << 3, 0x1ff} {
			edges := map[string][]string{}
			for i := 0; i < 3; i++ {
				for j := 0; j < 3; j++ {
					if m>>(uint(i*3+j))&1 == 1 {
						edges[steps[i]] = append(edges[steps[i]], steps[j])
					}
				}
			}
			root, _ := c15Schema(steps, edges, []string{"lonely"})
			for _, f := range root.F { // every step's `items` elements get fields named like the root fields
				for _, g := range f.Ty.F {
					if g.N == "items" {
						for _, nm := range []string{"s1", "s2", "s3", "lonely", "input"} {
							g.Ty.E.F = append(g.Ty.E.F, &CField{N: nm, M: "reg", Ty: &CTy{T: "string"}})
						}
					}
				}
			}
			// ... and every step gets a plain struct `result` whose fields are named like the root fields: keys below the root, whatever their
			// names, are not root fields
			for _, f := range root.F {
				var fs []*CField
				for _, nm := range []string{"s1", "s2", "s3", "lonely", "input"} {
					fs = append(fs, &CField{N: nm, M: "reg", Ty: &CTy{T: "int"}})
				}
				fs = append(fs, &CField{N: "deep", M: "reg", Ty: &CTy{T: "struct", F: []*CField{{N: "s2", M: "reg", Ty: &CTy{T: "struct", F: []*CField{{N: "x", M: "reg", Ty: &CTy{T: "string"}}}}}}}})
				f.Ty.F = append(f.Ty.F, &CField{N: "result", M: "reg", Ty: &CTy{T: "struct", F: fs}})
			}
			txt := cueSchemaText(&cueGen{}, root)
			for _, cp := range steps {
				for _, nm := range []string{"s1", "s2", "s3", "lonely", "input"} {
					c.cueDo(cueCase{S: root, P: []string{"input", "result", nm}, CP: cp, Dom: true, Q: "$.input.result." + nm, Txt: txt}, "keys-below-the-root-named-like-steps", "ACC Number Single", false)
				}
				c.cueDo(cueCase{S: root, P: []string{"input", "result", "deep", "s2", "x"}, CP: cp, Dom: true, Q: "$.input.result.deep.s2.x", Txt: txt}, "keys-below-the-root-named-like-steps", "ACC String Single", false)
				c.cueDo(cueCase{S: root, P: []string{"input", "result", "deep", "s2"}, CP: cp, Dom: true, Q: "$.input.result.deep.s2", Txt: txt}, "keys-below-the-root-named-like-steps", "ACC Object Single", false)
			}
			for _, cp := range steps {
				for _, nm := range []string{"s1", "s2", "s3", "lonely", "input", "nosuch"} {
					for fi, q := range []string{"$.input.items[@." + nm + ".Equal(\"x\")]", "$.input.items.First()." + nm, "$.input.items[@.v.Equal(\"x\")].Last()." + nm, "{$.input.items[@." + nm + ".IsNull()].Any()}"} {
						expect := []string{"ACC Object Array", "ACC String Single", "ACC String Single", "ACC Boolean Single"}[fi]
						if nm == "nosuch" {
							expect = "REJ"
						}
						var steps []string
						switch fi {
						case 0:
							steps = []string{"k:input", "k:items", "c:" + nm}
						case 1:
							steps = []string{"k:input", "k:items", "e", "k:" + nm}
						}
						c.cueDo(cueCase{S: root, P: []string{"input", "items", nm}, CP: cp, Dom: true, Pos: "elem", Steps: steps, Q: q, Txt: txt}, "element-fields-named-like-steps", expect, false)
					}
				}
			}
		}
	}
	// the same graphs with the root fields declared in other orders (steps before input, reversed, rotated)
	for ord := 1; ord <= 3; ord++ {
		c15Order = ord
		for m := uint64(0); m < 1<<9; m++ {
			if !c.thorough() && m%8 != uint64(ord) {
				continue
			}
			run(3, m, fmt.Sprintf("declaration-order-%d/3-steps", ord), m%64 == uint64(ord))
		}
	}
	c15Order = 0
	// the property's own example: x->[b,c], b->[a], a->[a0]
	{
		steps := []string{"x", "b", "c", "a", "a0"}
		edges := map[string][]string{"x": {"b", "c"}, "b": {"a"}, "a": {"a0"}}
		root, txt := c15Schema(steps, edges, nil)
		all := append([]string{"input", "variables"}, steps...)
		for _, t := range all {
			c.c15Check(root, txt, all, "x", t, "named/last-wins", true)
		}
		edges2 := map[string][]string{"x": {"c", "b"}, "b": {"a"}, "a": {"a0"}}
		root, txt = c15Schema(steps, edges2, nil)
		for _, t := range all {
			c.c15Check(root, txt, all, "x", t, "named/last-wins", true)
		}
		// input as the current step
		edges3 := map[string][]string{"input": {"a"}, "a": {"a0"}}
		root, txt = c15Schema(steps, edges3, nil)
		for _, t := range all {
			c.c15Check(root, txt, all, "input", t, "named/input-step", true)
		}
	}
	// random larger graphs
	n := c.scale(120, 1500)
	for i := 0; i < n; i++ {
		k := 5 + c.R.Intn(8)
		var steps []string
		for j := 0; j < k; j++ {
			steps = append(steps, fmt.Sprintf("t%d", j+1))
		}
		edges := map[string][]string{}
		shape := c.R.Intn(4)
		for a := 0; a < k; a++ {
			for b := 0; b < k; b++ {
				p := 10
				switch shape {
				case 0: // chain-like
					if b == a+1 {
						p = 1
					} else {
						p = 30
					}
				case 1: // diamonds / fan-in: edges only forward
					if b <= a {
						p = 0
					} else {
						p = 4
					}
				case 2: // dense with cycles
					p = 5
				}
				if p > 0 && c.R.Intn(p) == 0 {
					edges[steps[a]] = append(edges[steps[a]], steps[b])
				}
			}
		}
		cls := []string{"random/chain", "random/dag", "random/cyclic", "random/sparse"}[shape]
		if c.R.Intn(25) == 0 {
			a := steps[c.R.Intn(k)]
			edges[a] = append(edges[a], "ghost")
			cls = "random/dangling"
		}
		root, txt := c15Schema(steps, edges, []string{"lonely"})
		all := append(append([]string{"input", "variables"}, steps...), "lonely")
		for j := 0; j < 3; j++ {
			cp := steps[c.R.Intn(k)]
			for _, target := range all {
				c.c15Check(root, txt, all, cp, target, cls, j == 0 && c.R.Intn(4) == 0)
			}
		}
	}
	// root fields that are different spellings of one UUID are different root fields: one is a dependency, the others are merely declared
	{
		u := "3dedbf75-1c91-4ec5-8018-99b1efe47462"
		steps := []string{"cur", u, "other"}
		extra := []string{strings.ToUpper(u), strings.ReplaceAll(u, "-", ""), "0cc175b9c0f1b6a831c399e269772661"}
		for _, edges := range []map[string][]string{{"cur": {u}}, {"cur": {"other"}, "other": {u}}, {"cur": {}}, {"cur": {extra[1]}}} {
			root, txt := c15Schema(steps, edges, extra)
			all := append(append([]string{"input", "variables"}, steps...), extra...)
			for _, target := range all {
				c.c15Check(root, txt, all, "cur", target, "uuid-spellings", true)
			}
		}
	}
	// a dense graph without cycles (every step depends on all earlier ones): the walk visits each step once, so this ends at once
	// however many routes lead to a step. (Last: a validation that does not end keeps the validator's lock.)
	for _, k := range []int{14, 22, 28} {
		var steps []string
		edges := map[string][]string{}
		for i := 0; i < k; i++ {
			steps = append(steps, fmt.Sprintf("d%d", i+1))
			for j := 0; j < i; j++ {
				edges[steps[i]] = append(edges[steps[i]], steps[j])
			}
		}
		root, txt := c15Schema(steps, edges, []string{"lonely"})
		all := append(append([]string{"input", "variables"}, steps...), "lonely")
		for _, target := range []string{"d1", steps[k-1], "lonely", "input"} {
			c.c15Check(root, txt, all, steps[k-1], target, fmt.Sprintf("dense-acyclic/%d-steps", k), false)
		}
	}
	c15RandomQueries(c)
	_ = sort.Strings
}

// c15RandomQueries: queries grown from a small grammar over the fields every step has (name: string, ok: bool, items: [...{v: string}]),
// with a hole wherever a root field is read. A shape is kept when it is accepted with `input` in every hole (so nothing but the
// availability of the root fields can reject it); filled with root fields, it must be rejected exactly when one of the fields read -
// in whatever position, at whatever depth - is blocked for the current step, and accepted with the type of the calibration otherwise.
func c15RandomQueries(c *Ctx) {
	r := c.R
	const hole = "\x00"
	var str, cond func(d int) string
	str = func(d int) string {
		switch r.Intn(6) {
		case 0:
			return `"x"`
		case 1:
			return "$." + hole + ".items.First().v"
		case 2:
			if d > 0 {
				return "$." + hole + ".name.ReplaceAll(\"a\"," + str(d-1) + ")"
			}
		case 3:
			return "$." + hole + ".items.Last().v.TrimLeft(1)"
		}
		return "$." + hole + ".name"
	}
	cond = func(d int) string {
		k := r.Intn(9)
		if d <= 0 && k >= 5 {
			k = r.Intn(5)
		}
		switch k {
		case 0:
			return "$." + hole + ".ok"
		case 1:
			return str(d) + ".Equal(" + str(d) + ")"
		case 2:
			return str(d) + ".AnyOf(" + str(d) + "," + str(d) + ")"
		case 3:
			return str(d) + ".AnyOf(" + str(d) + "," + str(d) + "," + str(d) + ")"
		case 4:
			return "$." + hole + ".ok.Not()"
		case 5:
			return "{" + []string{"AND,", "OR,", ""}[r.Intn(3)] + cond(d-1) + "," + cond(d-1) + "}"
		case 6:
			return "$." + hole + ".items[@.v.Equal(" + str(d-1) + ")].Count().Greater(0)"
		case 7:
			return "$." + hole + ".items[@.v.AnyOf(" + str(d-1) + "," + str(d-1) + ")].Any()"
		default:
			return "{" + cond(d-1) + "}"
		}
	}
	steps := []string{"s1", "s2", "s3", "s4"}
	graphs := []map[string][]string{{"s2": {"s1"}, "s3": {"s2"}, "s4": {"s3"}}, {"s3": {"s1", "s2"}, "s4": {"s4"}}, {"s1": {"s2"}, "s2": {"s1"}, "s4": {"s1"}}, {}}
	all := append(append([]string{"input", "variables"}, steps...), "lonely")
	n := c.scale(500, 5000)
	kept, calls := 0, 0
	for i := 0; i < n; i++ {
		var shape string
		switch r.Intn(5) {
		case 0:
			shape = str(2)
		case 1:
			shape = "$." + hole + ".items[@.v.AnyOf(" + str(1) + "," + str(1) + ")]"
		default:
			shape = cond(2)
		}
		holes := strings.Count(shape, hole)
		if holes == 0 {
			continue
		}
		root, txt := c15Schema(steps, graphs[i%len(graphs)], []string{"lonely"})
		cp := steps[r.Intn(len(steps))]
		cal := cueValidateGuarded(strings.ReplaceAll(shape, hole, "input"), txt, cp)
		if !strings.HasPrefix(cal.Line, "ACC") {
			continue // the shape itself is not a valid query over these fields: nothing to learn from it
		}
		kept++
		allowed, _, errored := specAllowed(root, cp)
		if errored {
			continue
		}
		var free, blocked []string
		for _, f := range all {
			if !allowed[f] || (f == cp && cp != "input") {
				blocked = append(blocked, f)
			} else {
				free = append(free, f)
			}
		}
		for variant := 0; variant < 3; variant++ {
			// 0: permitted fields only; 1: one blocked field in one hole, permitted ones elsewhere; 2: any field anywhere
			one := r.Intn(holes)
			q, reads := shape, false
			for h := 0; h < holes; h++ {
				var f string
				switch {
				case variant == 1 && h == one && len(blocked) > 0:
					f = blocked[r.Intn(len(blocked))]
				case variant == 2:
					f = all[r.Intn(len(all))]
				default:
					f = free[r.Intn(len(free))]
				}
				if !allowed[f] || (f == cp && cp != "input") {
					reads = true
				}
				q = strings.Replace(q, hole, f, 1)
			}
			expect := cal.Line
			if reads {
				expect = "REJ"
			}
			calls++
			c.cueDo(cueCase{S: root, P: []string{"input", "name"}, CP: cp, Dom: true, Pos: "random", Q: q, Txt: txt}, fmt.Sprintf("random-queries/%d-holes", min(holes, 6)), expect, false)
		}
	}
	c.Extra["random_query_shapes_kept"] = kept
	c.Extra["random_query_validations"] = calls
	c.Rule += "; random queries over the step fields (strings, conditions, nested groups, filters, calls with one to three arguments, arguments of arguments; a shape is kept when it is accepted with `input` in every hole), every hole filled with a root field: rejected exactly when some field read, wherever it sits, is blocked for the current step; accepted with the calibrated type otherwise"
}

// ---------- the error status of result trees ----------

// Every result tree met by a generator (C13-C16) is reduced to its kinds of nodes and their error flags; each distinct one goes to
// the model once (`pos: tree`), which answers what HasErrors answers on it and whether some node carries an error text. The second
// half is also an oracle on its own: HasErrors() is true exactly when some node of the marshalled tree carries an error text.
var (
	treeMu    sync.Mutex
	treeSeen  = map[string]string{} // encoded tree -> "HE=.. ANY=.."
	treeOrder []string
	treeBad   []Violation
)

func encodeResultTree(n any) any {
	m, ok := n.(map[string]any)
	if !ok {
		return nil
	}
	flag := func(x map[string]any) int {
		if e, ok := x["error"]; ok && e != nil {
			return 1
		}
		return 0
	}
	kids := func(key string) []any {
		out := []any{}
		if l, ok := m[key].([]any); ok {
			for _, c := range l {
				if e := encodeResultTree(c); e != nil {
					out = append(out, e)
				}
			}
		}
		return out
	}
	switch m["partType"] {
	case "Path":
		return []any{"P", flag(m), kids("parts")}
	case "LogicalOperation":
		return []any{"L", flag(m), kids("parts")}
	case "PathIdent":
		out := []any{}
		if f, ok := m["filter"].(map[string]any); ok {
			cond := []any{}
			if lo := encodeResultTree(f["logicalOperation"]); lo != nil {
				cond = append(cond, lo)
			}
			out = append(out, []any{"F", flag(f), cond})
		}
		return []any{"I", flag(m), out}
	case "Function":
		ps := []any{}
		if l, ok := m["functionParameters"].([]any); ok {
			for _, p := range l {
				pm, ok := p.(map[string]any)
				if !ok {
					continue
				}
				part := []any{}
				if e := encodeResultTree(pm["part"]); e != nil {
					part = append(part, e)
				}
				ps = append(ps, []any{"A", flag(pm), part})
			}
		}
		return []any{"C", flag(m), ps}
	}
	return nil
}

func noteResultTree(tree any, has bool, q, schema, cp string) {
	enc := encodeResultTree(tree)
	if enc == nil {
		return
	}
	b, _ := json.Marshal(enc)
	b2i := map[bool]int{false: 0, true: 1}
	anyErr := jsonHasError(tree)
	ans := fmt.Sprintf("HE=%d ANY=%d", b2i[has], b2i[anyErr])
	treeMu.Lock()
	defer treeMu.Unlock()
	if len(treeSeen) < 200000 {
		if _, ok := treeSeen[string(b)+ans]; !ok {
			treeSeen[string(b)+ans] = ans
			treeOrder = append(treeOrder, string(b))
		}
	}
	if has != anyErr && len(treeBad) < 20 {
		treeBad = append(treeBad, Violation{Kind: "oracle", Query: q, QueryHex: hx(q), Expected: fmt.Sprintf("HasErrors() = %v (some node of the result carries an error text: %v)", anyErr, anyErr), Got: fmt.Sprintf("HasErrors() = %v", has),
			Why: "HasErrors() does not say what the result tree says: an error text sits in a node and the status is false, or the other way round", Cls: "result-tree", Key: "haserrors:" + ans,
			Extra: map[string]any{"schema": schema, "current_step": cp, "tree": string(b)}})
	}
}

// flushResultTrees: the distinct trees as cases of their own (model: Mp/Tree.lean), and the violations of the oracle
func (c *Ctx) flushResultTrees() {
	treeMu.Lock()
	defer treeMu.Unlock()
	for _, v := range treeBad {
		c.addViolation(v)
	}
	for _, t := range treeOrder {
		for _, ans := range []string{"HE=0 ANY=0", "HE=1 ANY=1", "HE=0 ANY=1", "HE=1 ANY=0"} {
			if _, ok := treeSeen[t+ans]; ok {
				line := []byte(`{"pos":"tree","dom":true,"tree":` + t + `}`)
				c.Record(line, ans, "result-tree", true, "result-tree|"+fmt.Sprint(len(t)/40), ans, nil)
			}
		}
	}
	c.Extra["result_trees_distinct"] = len(treeOrder)
	c.Rule += "; every distinct result tree met (kinds of nodes and their error flags) is a case of its own: the model (Mp/Tree.lean) answers what HasErrors answers on it and whether some node carries an error text; oracle: HasErrors() is true exactly when some node of the marshalled tree carries an error text"
}

// jsonHasError: some node of the marshalled result carries an error text
func jsonHasError(tree any) bool {
	switch t := tree.(type) {
	case map[string]any:
		if e, ok := t["error"]; ok && e != nil {
			return true
		}
		for _, v := range t {
			if jsonHasError(v) {
				return true
			}
		}
	case []any:
		for _, v := range t {
			if jsonHasError(v) {
				return true
			}
		}
	}
	return false
}
