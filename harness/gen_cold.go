package main

// The very first use of each entry point of the library in a process, made by many goroutines at once: whatever the package
// builds lazily on first use (a table, a cache, a compiled expression, a per-type field list) is built while others read it.
// `mpv race` runs this before anything else has been parsed, evaluated or validated in the process; the answers are compared
// with those of the same calls made one after the other afterwards (and the race detector watches the whole phase).

import (
	"fmt"
	"sync"

	"github.com/machship/mpath"
)

type coldMism struct{ Kind, Q, CP, Want, Got string }

func coldParseLine(q string) string {
	defer func() { recover() }()
	op, err := mpath.ParseString(q)
	if err != nil || op == nil {
		return fmt.Sprintf("ERR(op=%v)", op != nil)
	}
	return "OP " + op.Sprint(0) + "|" + mpathUserString(op)
}

func coldStart() (out []coldMism, calls int) {
	const G = 16
	// 1. parses: identifiers outside ASCII (half-width and full-width forms, CJK, accents, an invalid byte), ASCII ones, literals
	queries := []string{"$.ｶﾀｶﾅ.ﾃﾞｰﾀ", "$.é.ü", "$.日本.語", "$.Ａ.Ｂ.Equal(１)", "$.a\xff.b", "$.ß", "$.größe?.höhe?.IsNull()", "$.a.b", `$.s.Equal("ｶﾀｶﾅ")`, "$.\U0001F600.x",
		"{OR,$.ﾃﾞｰﾀ.IsNull(),$.é}", "$.xs[@.ｷｰ.Equal(1)]", "$.\uffff.a", "$.\ufeffa", "$.á", `$.s.DoesMatchRegex("a|ab")`, `$.s.ReplaceRegex("a|ab","x")`, "$.n.Add(0.1)"}
	res := make([][]string, G)
	var wg sync.WaitGroup
	start := make(chan struct{})
	for g := 0; g < G; g++ {
		wg.Add(1)
		go func(g int) {
			defer wg.Done()
			<-start
			for i := range queries {
				res[g] = append(res[g], coldParseLine(queries[(i+g*5)%len(queries)]))
			}
		}(g)
	}
	close(start)
	wg.Wait()
	for g := 0; g < G; g++ {
		for i := range queries {
			q := queries[(i+g*5)%len(queries)]
			calls++
			if want := coldParseLine(q); res[g][i] != want {
				out = append(out, coldMism{"cold-concurrent-parse", q, "", trunc(want, 200), trunc(res[g][i], 200)})
			}
		}
	}
	// 2. first evaluations: numbers of several carriers, struct records of two types, regular expressions, text
	type ev struct {
		q    string
		op   mpath.Operation
		data any
	}
	var evs []ev
	recA := tvStruct([][3]any{{"K", 1, tvInt("int", "1")}, {"S", 1, tvStr("abab")}, {"F", 1, tvF64(100)}})
	recB := tvStruct([][3]any{{"Pad", 1, tvStr("p")}, {"S", 1, tvStr("xaby")}, {"K", 1, tvInt("int", "2")}, {"F", 1, tvF64(2.5)}})
	m := tvMap("str", [][2]any{{hx("k"), tvF64(3)}, {hx("s"), tvStr("cab")}, {hx("f"), tvF64(0.1)}})
	for _, q := range []string{"$.k", "$.K.Add(1)", "$.f", "$.f.Multiply(2)", `$.s.DoesMatchRegex("a|ab")`, `$.s.ReplaceRegex("a|ab","x")`, `$.s.ReplaceRegex(".+?","y")`, `$.s.Contains("ab")`, "$.Sum()", `$.RemoveKeysByRegex("^[kK]$")`} {
		op, err := mpath.ParseString(q)
		if err != nil || op == nil {
			continue
		}
		for _, d := range []*TV{recA, recB, m} {
			evs = append(evs, ev{q, op, buildAny(d)})
		}
	}
	eres := make([][]string, G)
	start2 := make(chan struct{})
	for g := 0; g < G; g++ {
		wg.Add(1)
		go func(g int) {
			defer wg.Done()
			<-start2
			for i := range evs {
				e := evs[(i+g*7)%len(evs)]
				eres[g] = append(eres[g], evalOp(e.op, e.data).Line())
			}
		}(g)
	}
	close(start2)
	wg.Wait()
	for g := 0; g < G; g++ {
		for i := range evs {
			e := evs[(i+g*7)%len(evs)]
			calls++
			if want := runCase(e.q, e.data).Line(); eres[g][i] != want {
				out = append(out, coldMism{"cold-concurrent-eval", e.q, "", trunc(want, 200), trunc(eres[g][i], 200)})
			}
		}
	}
	// 3. first validations
	schema := "input: {_dependencies: [], name: string, count: int, items: [...{v: string, n: number}]}\ns1: {_dependencies: [\"input\"], r: int}\ns2: {_dependencies: [\"s1\"], r: int}\n"
	type cv struct{ q, cp string }
	cvs := []cv{{"$.input.name", ""}, {"$.input.items[@.n.Greater(1)].First().v", "s1"}, {"$.s1.r", "s2"}, {"$.s2.r", "s1"}, {"$.input.name.isnull()", ""}, {"{OR,$.input.count.Less(1),$.input.name.Equal(\"x\")}", "s2"},
		{"$.input.ﾃﾞｰﾀ", ""}, {"$.input.count.Add(1).Multiply(2)", ""}}
	vres := make([][]string, G)
	line := func(c cv) string {
		o := cueValidateGuarded(c.q, schema, c.cp)
		return o.Line + " | " + trunc(o.Errs, 200) + " | " + trunc(o.JSON, 2000)
	}
	start3 := make(chan struct{})
	for g := 0; g < G; g++ {
		wg.Add(1)
		go func(g int) {
			defer wg.Done()
			<-start3
			for i := range cvs {
				vres[g] = append(vres[g], line(cvs[(i+g*3)%len(cvs)]))
			}
		}(g)
	}
	close(start3)
	wg.Wait()
	for g := 0; g < G; g++ {
		for i := range cvs {
			c := cvs[(i+g*3)%len(cvs)]
			calls++
			if want := line(c); vres[g][i] != want {
				out = append(out, coldMism{"cold-concurrent-validate", c.q, c.cp, trunc(want, 300), trunc(vres[g][i], 300)})
			}
		}
	}
	return out, calls
}
