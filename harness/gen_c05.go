package main

// C05: comparison and equality decide by value, coherently. Expected answers come from math/big.Rat comparison of
// the operand specifications (numbers), exact string / bool comparison, and "different kinds are never equal".
// On top of the per-case expectation a relational oracle checks the implementation's own seven answers for every
// (receiver variant, argument variant): exactly one of Less/Equal/Greater, LessOrEqual = Less∨Equal,
// GreaterOrEqual = Greater∨Equal, NotEqual = ¬Equal, AnyOf(b) = Equal(b); and that no spelling/storage variant of
// either side changes an answer.
// Uses the operand helpers (c04Num, c04Carry, c04RandNum, ...) of gen_c04.go.

import (
	"fmt"
	"github.com/shopspring/decimal"
	"math/big"
	"strconv"
	"strings"
)

func init() {
	evalGens["C05"] = genC05
	for _, s := range c05Strs {
		if c05IsNumeral(s) {
			panic("c05Strs contains a numeral: " + s)
		}
	}
}

var c05Rels = []string{"Less", "LessOrEqual", "Greater", "GreaterOrEqual", "Equal", "NotEqual"}

var c05GridQuick = []string{"0", "0.0", "1", "-1", "10", "10.0", "1e1", "0.1", "0.10", "0.10000000000001", "0.09999999999999", "-0.1",
	"999999999999999", "999999999999998", "1e-9", "2.5"}
var c05GridMore = []string{"-0.5", "100", "1e2", "-10", "9.99999999999999", "-999999999999999", "1e15", "2.50", "-0.10000000000001"}

// storage variants of a data number used by C05 (a subset of the C04 carriers, enough for int/float64/decimal/uint/named/pointer)
var c05Storages = []string{"f64", "int", "dec", "dec-rescaled", "uint", "named-int", "named-f64", "ptr-int", "ptr-dec", "int8"}

type c05Var struct {
	name string
	tv   *TV    // the data value (receiver, or what `$.b` points at)
	arg  string // argument text (literal or `$.b`); empty for receivers
}

func c05RecvVars(n c04Num) []c05Var {
	var out []c05Var
	for _, k := range c05Storages {
		if t := c04Carry(n, k); t != nil {
			out = append(out, c05Var{name: k, tv: t})
		}
	}
	if n.isZero() { // the float64 negative zero is one more way of storing 0
		out = append(out, c05Var{name: "f64-negative-zero", tv: &TV{T: "f64", V: "8000000000000000"}})
	}
	return out
}

func c05ArgVars(n c04Num) []c05Var {
	var out []c05Var
	seen := map[string]bool{}
	for i := 0; i < 8; i++ {
		l := n.lit(i)
		if seen[l] {
			continue
		}
		seen[l] = true
		out = append(out, c05Var{name: "literal:" + []string{"plain", "coef-e-exp", "scientific", "trailing-zero", "scientific-E+", "leading-zero", "leading-zeros+separator", "separator"}[i], tv: tvNil(), arg: l})
	}
	for _, v := range c05RecvVars(n) {
		out = append(out, c05Var{name: "path:" + v.name, tv: v.tv, arg: "$.b"})
	}
	return out
}

func c05B(b bool) string { return "b:" + b2s(b) }

// c05ManyCandidates: AnyOf with many candidates (literals and a spread list): the answer must not depend on how many there are.
// The candidates never hold the receiver itself unless it is planted; they do hold values of ANOTHER kind that print like it
// (the text "10" for the number 10, the text "true" for true), and numbers that differ from it in the last place.
func c05ManyCandidates(c *Ctx) {
	counts := around([]int{7, 8, 9, 10, 12, 16, 17, 32, 33, 64, 65, 100, 129}, 400)
	type recv struct {
		name string
		tv   *TV
		self string   // a literal equal to the receiver
		look []string // literals of another kind that print like the receiver
	}
	recvs := []recv{
		{"number", tvF64(10), "10.0", []string{`"10"`, `"10.0"`}},
		{"int", tvInt("int", "7"), "7", []string{`"7"`, `"7.0"`}},
		{"decimal", tvDec(decimal.RequireFromString("2.5")), "2.50", []string{`"2.5"`, `"2.50"`}},
		{"bool", tvBool(true), "true", []string{`"true"`, `"True"`}},
		{"string", tvStr("abc"), `"abc"`, []string{`"abcd"`, `"ABC"`, `"ab"`}},
	}
	for ci, n := range counts {
		for ri, rv := range recvs {
			for plant := 0; plant < 3; plant++ { // 0: not there; 1: the receiver is the last candidate; 2: in the middle
				if plant == 2 && (ci+ri)%2 == 0 {
					continue
				}
				var lits []string
				var items []*TV
				for j := 0; len(lits) < n; j++ {
					switch {
					case plant == 1 && len(lits) == n-1, plant == 2 && len(lits) == n/2:
						lits = append(lits, rv.self)
						items = append(items, rv.tv)
					case j%4 == 0:
						l := rv.look[(j/4)%len(rv.look)]
						lits = append(lits, l)
						items = append(items, tvStr(strings.Trim(l, `"`)))
					case j%4 == 1:
						lits = append(lits, fmt.Sprint(1000+j))
						items = append(items, tvF64(float64(1000+j)))
					case j%4 == 2:
						lits = append(lits, fmt.Sprintf(`"s%d"`, j))
						items = append(items, tvStr(fmt.Sprintf("s%d", j)))
					default:
						lits = append(lits, "false")
						items = append(items, tvBool(false))
					}
				}
				want := c05B(plant != 0)
				d := tvMap("str", [][2]any{{hx("a"), rv.tv}, {hx("list"), tvSlice(1, items...)}, {hx("half"), tvSlice(1, items[:n/2]...)}, {hx("rest"), tvSlice(1, items[n/2:]...)}})
				cls := fmt.Sprintf("many-candidates/%s", rv.name)
				c.Do(Case{Q: "$.a.AnyOf(" + strings.Join(lits, ",") + ")", D: d, XK: "logical", X: want, Cls: cls + "/literals", InDomain: true})
				c.Do(Case{Q: "$.a.AnyOf($.list)", D: d, XK: "logical", X: want, Cls: cls + "/spread-list", InDomain: true})
				c.Do(Case{Q: "$.a.AnyOf($.half,$.rest)", D: d, XK: "logical", X: want, Cls: cls + "/two-spread-lists", InDomain: true})
			}
		}
	}
}

func c05RelExpect(fn string, cmp int) bool {
	switch fn {
	case "Less":
		return cmp < 0
	case "LessOrEqual":
		return cmp <= 0
	case "Greater":
		return cmp > 0
	case "GreaterOrEqual":
		return cmp >= 0
	case "Equal", "AnyOf":
		return cmp == 0
	case "NotEqual":
		return cmp != 0
	}
	panic(fn)
}

// c05PairState: the first answer seen for each function on one ordered pair of values (for the variant oracle)
type c05PairState struct {
	first    map[string]string
	firstVar map[string]string
}

// c05Combo runs the six relations and AnyOf for one (receiver variant, argument variant) of the pair (a, b)
// and applies the relational oracles to the implementation's own answers.
func c05Combo(c *Ctx, a, b c04Num, av, bv c05Var, cls string, st *c05PairState) {
	cmp := a.rat().Cmp(b.rat())
	d := tvMap("str", [][2]any{{hx("a"), av.tv}, {hx("b"), bv.tv}})
	ans := map[string]string{}
	for _, fn := range append(append([]string{}, c05Rels...), "AnyOf") {
		q := "$.a." + fn + "(" + bv.arg + ")"
		o := c.Do(Case{Q: q, D: d, XK: "logical", X: c05B(c05RelExpect(fn, cmp)), Cls: cls, InDomain: true})
		got := o.Class
		if o.Class == "ok" {
			got = o.Logical
		}
		ans[fn] = got
		if st != nil {
			vname := av.name + " / " + bv.name
			if f, ok := st.first[fn]; !ok {
				st.first[fn], st.firstVar[fn] = got, vname
			} else if f != got {
				c.addViolation(Violation{Kind: "relational", Query: q, QueryHex: hx(q), Data: d, Expected: f, Got: got,
					Why: "the same two numbers written/stored as " + vname + " give a different answer than as " + st.firstVar[fn],
					Cls: cls, Key: "relational:variant:" + fn, Extra: map[string]any{"a": a.plain(), "b": b.plain()}})
			}
		}
	}
	for _, v := range ans {
		if v != "b:0" && v != "b:1" {
			return // not seven booleans: already reported by the per-case expectation
		}
	}
	t := func(fn string) bool { return ans[fn] == "b:1" }
	q := "$.a.<R>(" + bv.arg + ")"
	bad := func(law string) {
		c.addViolation(Violation{Kind: "relational", Query: q, QueryHex: hx(q), Data: d, Expected: law, Got: fmt.Sprint(ans),
			Why: "the implementation's answers for one pair of numbers are not coherent: " + law, Cls: cls, Key: "relational:coherence:" + law})
	}
	n := 0
	for _, fn := range []string{"Less", "Equal", "Greater"} {
		if t(fn) {
			n++
		}
	}
	if n != 1 {
		bad("exactly one of Less, Equal, Greater")
	}
	if t("LessOrEqual") != (t("Less") || t("Equal")) {
		bad("LessOrEqual = Less or Equal")
	}
	if t("GreaterOrEqual") != (t("Greater") || t("Equal")) {
		bad("GreaterOrEqual = Greater or Equal")
	}
	if t("NotEqual") == t("Equal") {
		bad("NotEqual = not Equal")
	}
	if t("AnyOf") != t("Equal") {
		bad("AnyOf(b) = Equal(b)")
	}
}

// ---------- scalars of the three kinds (AnyOf, Equal/NotEqual on strings and bools) ----------

// non-numeral strings only (checked at start-up with c05IsNumeral)
var c05Strs = []string{"", "abc", "ABC", "Abc", "abc ", " abc", "a", "b", "\u00e9", "e\u0301", "hello world", "true", "false", "null", "ten",
	"1e", "e5", "1.2.3", "0x10", "1_000", " 1", "1 ", "--1", "1,5", "\u0661\u0662", "Inf", "NaN", "-", "+", ".", "1/2", "x10", "10x"}

var c05NumeralStrs = []string{"10", "10.0", "1e1", "0123", "-0.50", "0", "1", "+5", ".5", "5.", "1E2", "0.1"}

// c05IsNumeral: does decimal.NewFromString accept s? (re-stated here from its documentation/source: optional exponent
// after e/E that fits an int32, at most one '.', and the remaining characters a base-10 integer with optional sign)
func c05IsNumeral(s string) bool {
	if i := strings.IndexAny(s, "eE"); i >= 0 {
		if _, err := strconv.ParseInt(s[i+1:], 10, 32); err != nil {
			return false
		}
		s = s[:i]
	}
	if strings.Count(s, ".") > 1 {
		return false
	}
	s = strings.Replace(s, ".", "", 1)
	if len(s) <= 18 {
		_, err := strconv.ParseInt(s, 10, 64)
		return err == nil
	}
	_, ok := new(big.Int).SetString(s, 10)
	return ok
}

// c05Val: a scalar of one of the three kinds
type c05Val struct {
	k byte // 'n' | 's' | 'b'
	n c04Num
	s string
	b bool
}

func (v c05Val) eq(w c05Val) bool {
	if v.k != w.k {
		return false // different kinds are never equal
	}
	switch v.k {
	case 'n':
		return v.n.rat().Cmp(w.n.rat()) == 0
	case 's':
		return v.s == w.s
	}
	return v.b == w.b
}

// data rendering of a scalar in a random carrier
func (v c05Val) data(r *rng) *TV {
	switch v.k {
	case 'n':
		vs := c05RecvVars(v.n)
		return vs[r.Intn(len(vs))].tv
	case 's':
		switch r.Intn(5) {
		case 0:
			return tvNStr(v.s)
		case 1:
			return tvPtr(tvStr(v.s))
		}
		return tvStr(v.s)
	}
	switch r.Intn(5) {
	case 0:
		return tvNBool(v.b)
	case 1:
		return tvPtr(tvBool(v.b))
	}
	return tvBool(v.b)
}

// literal text of a scalar ("" when the string cannot be written as a literal)
func (v c05Val) literal(r *rng) string {
	switch v.k {
	case 'n':
		return v.n.lit(r.Intn(8))
	case 's':
		if strings.ContainsAny(v.s, "\"\\\n") {
			return ""
		}
		return `"` + v.s + `"`
	}
	if v.b {
		return "true"
	}
	return "false"
}

func c05RandVal(r *rng, kind byte) c05Val {
	switch kind {
	case 'n':
		if r.Intn(3) == 0 {
			return c05Val{k: 'n', n: c04Parse(r.Pick(c05GridQuick))}
		}
		return c05Val{k: 'n', n: c04RandNum(r)}
	case 's':
		return c05Val{k: 's', s: r.Pick(c05Strs)}
	}
	return c05Val{k: 'b', b: r.Bool()}
}

func c05RandKind(r *rng) byte { return "nnnssb"[r.Intn(6)] }

// c05Related: a number related to a (same value at another scale, neighbour in the last digit, negation, ten times)
func c05Related(a c04Num, r *rng) c04Num {
	switch r.Intn(5) {
	case 0:
		return a.rescale(1 + r.Intn(3))
	case 1:
		nm := a.norm()
		return c04Num{new(big.Int).Set(nm.coef), nm.exp}
	case 2:
		return c04Num{new(big.Int).Add(a.coef, big.NewInt(int64(2*r.Intn(2)-1))), a.exp}
	case 3:
		return c04Num{new(big.Int).Neg(a.coef), a.exp}
	}
	return c04Num{new(big.Int).Set(a.coef), a.exp + 1}
}

// c05Near: a value of the same or another kind that is easily confused with v
func c05Near(v c05Val, r *rng) c05Val {
	switch v.k {
	case 'n':
		switch r.Intn(4) {
		case 0: // the same number as a string: a different kind
			return c05Val{k: 's', s: v.n.str(r.Intn(7))}
		case 1:
			return c05Val{k: 'n', n: c05Related(v.n, r)}
		case 2:
			return c05Val{k: 'b', b: !v.n.isZero()}
		}
		return c05Val{k: 'n', n: c04Num{new(big.Int).Add(v.n.coef, big.NewInt(1)), v.n.exp}}
	case 's':
		switch r.Intn(4) {
		case 0:
			return c05Val{k: 's', s: strings.ToUpper(v.s)}
		case 1:
			return c05Val{k: 's', s: v.s + " "}
		case 2:
			return c05Val{k: 'b', b: v.s == "true"}
		}
		return c05Val{k: 's', s: strings.TrimSpace(v.s)}
	}
	switch r.Intn(3) {
	case 0:
		return c05Val{k: 's', s: map[bool]string{true: "true", false: "false"}[v.b]}
	case 1:
		return c05Val{k: 'n', n: c04N(int64(btoi(v.b)), 0)}
	}
	return c05Val{k: 'b', b: !v.b}
}

func genC05(c *Ctx) {
	r := c.R
	c.Rule = "ground truth: math/big.Rat comparison of the operand specifications. exhaustive: all ordered pairs of a boundary grid (0 / 0.0, ±1, 10 / 10.0 / " +
		"1e1, 0.1 / 0.10 and its neighbours 0.10000000000001 and 0.09999999999999, -0.1, 999999999999999 and 999999999999998, 1e-9, 2.5; thorough adds 9 more) " +
		"× the six relations and AnyOf × storage variants of the receiver (float64, int, int8, uint, decimal.Decimal at two scales, named int/float64, pointer " +
		"to int/decimal, float64 −0) × variants of the argument (five literal spellings plain / coef-e-exp / scientific / trailing zero / E+, and `$.b` in each " +
		"storage); quick: every receiver variant against the first literal and the first path variant plus the first receiver variant against every argument " +
		"variant, thorough: the full cross product. Relational oracles on the implementation's answers per combination (trichotomy, LessOrEqual, GreaterOrEqual, " +
		"NotEqual, AnyOf(b)=Equal(b)) and per pair (no variant changes an answer). random: pairs with ≤15 significant digits (over a third related: other scale, " +
		"neighbour in the last digit, negation), AnyOf with 0..6 arguments of mixed kinds (number/string/bool literals and paths, array paths that are spread) " +
		"with a planted equal or nearly-equal argument half of the time, Equal/NotEqual on string, bool and cross-kind pairs with non-numeral strings; " +
		"whole-number boundaries: 127..65536, 10^6 and the neighbours of every integer constant that is new in the source, in every storage, against themselves and their neighbours; AnyOf with 7..129 candidates (and around every new integer constant) as literals, one spread list and two spread lists, the candidates holding values of another kind that print like the receiver, the receiver itself absent / last / in the middle. " +
		"numeral-string receivers and numeral-string arguments of the order relations are run out of domain without expectation. " +
		"distinct = distinct (query skeleton, data shape to depth 2, outcome class)"

	gs := append([]string{}, c05GridQuick...)
	if c.thorough() {
		gs = append(gs, c05GridMore...)
	}
	grid := []c04Num{}
	for _, s := range gs {
		grid = append(grid, c04Parse(s))
	}
	combos := 0
	for _, a := range grid {
		avs := c05RecvVars(a)
		for _, b := range grid {
			bvs := c05ArgVars(b)
			st := &c05PairState{first: map[string]string{}, firstVar: map[string]string{}}
			var firstLit, firstPath c05Var
			for i := len(bvs) - 1; i >= 0; i-- {
				if strings.HasPrefix(bvs[i].name, "literal:") {
					firstLit = bvs[i]
				} else {
					firstPath = bvs[i]
				}
			}
			if c.thorough() {
				for _, av := range avs {
					for _, bv := range bvs {
						c05Combo(c, a, b, av, bv, "grid/"+c05ArgClass(bv), st)
						combos++
					}
				}
				continue
			}
			for _, av := range avs {
				c05Combo(c, a, b, av, firstLit, "grid/receiver-variants/arg-literal", st)
				c05Combo(c, a, b, av, firstPath, "grid/receiver-variants/arg-path", st)
				combos += 2
			}
			for _, bv := range bvs {
				c05Combo(c, a, b, avs[0], bv, "grid/argument-variants/"+c05ArgClass(bv), st)
				combos++
			}
		}
	}
	c.Exhaustive = true

	// whole numbers at the boundaries where an implementation might treat them differently (table sizes, widths of integer types),
	// and around every integer constant that is new in the source: in every storage, against itself and its neighbours
	{
		vals := around([]int{127, 128, 255, 256, 257, 1000, 1023, 1024, 1025, 4096, 32767, 32768, 65535, 65536, 1000000}, 1<<20)
		for vi, v := range vals {
			for _, sgn := range []int{1, -1} {
				if sgn < 0 && vi%3 != 0 {
					continue
				}
				a := c04Parse(fmt.Sprint(sgn * v))
				avs := c05RecvVars(a)
				for _, dlt := range []int{0, 1, -1} {
					b := c04Parse(fmt.Sprint(sgn*v + dlt))
					bvs := c05ArgVars(b)
					st := &c05PairState{first: map[string]string{}, firstVar: map[string]string{}}
					for _, av := range avs {
						c05Combo(c, a, b, av, bvs[0], "whole-number-boundaries/receiver-variants", st)
						combos++
					}
					if dlt == 0 {
						for _, bv := range bvs {
							c05Combo(c, a, b, avs[vi%len(avs)], bv, "whole-number-boundaries/argument-variants", st)
							combos++
						}
					}
				}
			}
		}
	}
	c05ManyCandidates(c)

	// random pairs, ≤15 significant digits
	n := c.scale(2400, 30000)
	for i := 0; i < n; i++ {
		a := c04RandNum(r)
		b := c04RandNum(r)
		if r.Intn(4) > 0 && i%2 == 0 {
			b = c05Related(a, r)
		}
		if r.Intn(8) == 0 {
			a, b = b, a
		}
		avs, bvs := c05RecvVars(a), c05ArgVars(b)
		st := &c05PairState{first: map[string]string{}, firstVar: map[string]string{}}
		var lits, paths []c05Var
		for _, bv := range bvs {
			if bv.arg == "$.b" {
				paths = append(paths, bv)
			} else {
				lits = append(lits, bv)
			}
		}
		c05Combo(c, a, b, avs[r.Intn(len(avs))], lits[r.Intn(len(lits))], "random/pair/arg-literal", st)
		c05Combo(c, a, b, avs[r.Intn(len(avs))], paths[r.Intn(len(paths))], "random/pair/arg-path", st)
		combos += 2
	}
	c.Extra["relational_combinations"] = combos

	// AnyOf with 0..6 arguments of mixed kinds
	n = c.scale(14000, 150000)
	for i := 0; i < n; i++ {
		recv := c05RandVal(r, c05RandKind(r))
		na := r.Intn(7)
		kvs := [][2]any{{hx("a"), recv.data(r)}}
		var args []string
		var all []c05Val
		plant := -1
		if na > 0 && r.Bool() {
			plant = r.Intn(na)
		}
		mk := func(j int) c05Val {
			if j == plant {
				if r.Intn(3) == 0 {
					return c05Near(recv, r)
				}
				if recv.k == 'n' && r.Bool() {
					return c05Val{k: 'n', n: recv.n.rescale(r.Intn(4))}
				}
				return recv
			}
			return c05RandVal(r, c05RandKind(r))
		}
		for j := 0; j < na; j++ {
			key := fmt.Sprintf("p%d", j)
			switch r.Intn(7) {
			case 0, 1, 2: // literal
				v := mk(j)
				if l := v.literal(r); l != "" {
					args = append(args, l)
					all = append(all, v)
					continue
				}
				fallthrough
			case 3, 4: // scalar path
				v := mk(j)
				args = append(args, "$."+key)
				kvs = append(kvs, [2]any{hx(key), v.data(r)})
				all = append(all, v)
			default: // array path, spread (the planted value, if any, goes first)
				m := r.Intn(5)
				es := []*TV{}
				for e := 0; e < m; e++ {
					var v c05Val
					if e == 0 {
						v = mk(j)
					} else {
						v = c05RandVal(r, c05RandKind(r))
					}
					es = append(es, v.data(r))
					all = append(all, v)
				}
				l := tvSlice(1, es...)
				if r.Intn(4) == 0 {
					l = tvArray(1, es...)
				}
				args = append(args, "$."+key)
				kvs = append(kvs, [2]any{hx(key), l})
			}
		}
		want := false
		for _, v := range all {
			if recv.eq(v) {
				want = true
			}
		}
		cls := "random/AnyOf/receiver-" + map[byte]string{'n': "number", 's': "string", 'b': "bool"}[recv.k]
		c.Do(Case{Q: "$.a.AnyOf(" + strings.Join(args, ",") + ")", D: tvMap("str", kvs), XK: "logical", X: c05B(want), Cls: cls, InDomain: true})
	}

	// Equal / NotEqual on strings, bools and values of different kinds; NotEqual = ¬Equal on the implementation's answers
	n = c.scale(7000, 80000)
	for i := 0; i < n; i++ {
		recv := c05RandVal(r, "nssssbb"[r.Intn(7)])
		var arg c05Val
		switch r.Intn(4) {
		case 0:
			arg = recv
		case 1:
			arg = c05Near(recv, r)
		case 2:
			arg = c05RandVal(r, recv.k)
		default:
			arg = c05RandVal(r, c05RandKind(r))
		}
		kvs := [][2]any{{hx("a"), recv.data(r)}}
		at := arg.literal(r)
		how := "literal"
		if at == "" || r.Intn(3) == 0 {
			at, how = "$.b", "path"
			kvs = append(kvs, [2]any{hx("b"), arg.data(r)})
		}
		d := tvMap("str", kvs)
		kinds := map[byte]string{'n': "number", 's': "string", 'b': "bool"}
		cls := "random/equality/" + kinds[recv.k] + "-vs-" + kinds[arg.k] + "/arg-" + how
		want := recv.eq(arg)
		oe := c.Do(Case{Q: "$.a.Equal(" + at + ")", D: d, XK: "logical", X: c05B(want), Cls: cls, InDomain: true})
		on := c.Do(Case{Q: "$.a.NotEqual(" + at + ")", D: d, XK: "logical", X: c05B(!want), Cls: cls, InDomain: true})
		oa := c.Do(Case{Q: "$.a.AnyOf(" + at + ")", D: d, XK: "logical", X: c05B(want), Cls: cls, InDomain: true})
		if oe.Class == "ok" && on.Class == "ok" && oa.Class == "ok" && (oe.Logical == on.Logical || oa.Logical != oe.Logical) {
			q := "$.a.<R>(" + at + ")"
			c.addViolation(Violation{Kind: "relational", Query: q, QueryHex: hx(q), Data: d, Expected: "NotEqual = not Equal, AnyOf(b) = Equal(b)",
				Got: "Equal " + oe.Logical + ", NotEqual " + on.Logical + ", AnyOf " + oa.Logical,
				Why: "the implementation's answers for one pair of values are not coherent", Cls: cls, Key: "relational:coherence:equality"})
		}
	}

	// out of domain, no expectation (model correspondence and the generic oracles only):
	// numeral strings as the receiver (read as numbers by design), numeral strings as the argument of an order relation
	n = c.scale(1500, 15000)
	for i := 0; i < n; i++ {
		s := r.Pick(c05NumeralStrs)
		if r.Intn(3) == 0 {
			s = c04RandNum(r).str(r.Intn(7))
		}
		fn := append(append([]string{}, c05Rels...), "AnyOf")[r.Intn(7)]
		if r.Bool() {
			var at string
			switch r.Intn(3) {
			case 0:
				at = `"` + s + `"`
			case 1:
				at = `"` + r.Pick(c05NumeralStrs) + `"`
			default:
				at = c05RandVal(r, 'n').literal(r)
			}
			var st *TV = tvStr(s)
			if r.Intn(4) == 0 {
				st = tvNStr(s)
			}
			c.Do(Case{Q: "$.a." + fn + "(" + at + ")", D: tvMap("str", [][2]any{{hx("a"), st}}), XK: "", Cls: "out-of-domain/numeral-string-receiver", InDomain: false})
		} else {
			fn = c05Rels[r.Intn(4)]
			a := c05RandVal(r, 'n')
			c.Do(Case{Q: "$.a." + fn + `("` + s + `")`, D: tvMap("str", [][2]any{{hx("a"), a.data(r)}}), XK: "", Cls: "out-of-domain/numeral-string-argument", InDomain: false})
		}
	}
}

func c05ArgClass(bv c05Var) string {
	if bv.arg == "$.b" {
		return "arg-path"
	}
	return "arg-" + strings.Replace(bv.name, ":", "-", 1)
}
