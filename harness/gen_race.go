package main

// C12: ParseString, Do on a shared parsed operation and CueValidate are safe to call from many goroutines.
// `mpv race <outdir> <seed> <tier>` — meant to be built with `go build -race` and run with
// GORACE="halt_on_error=1 exitcode=66": a data race ends the process with exit status 66 and the detector's report on
// stderr (the orchestrator turns that into the violation). Every concurrent result is compared with the answer the
// same call gives when run alone.

import (
	"encoding/json"
	"errors"
	"fmt"
	"os"
	"path/filepath"
	"reflect"
	"runtime"
	"strconv"
	"strings"
	"sync"

	"github.com/machship/mpath"
)

type raceItem struct {
	kind   string // parse | eval | validate
	q      string
	data   any
	op     mpath.Operation
	schema string
	cp     string
	want   string
	lazy   bool  // validate: no sequential warm-up; the answers of the concurrent phase are compared afterwards
	datas  []any // eval-variants: one shared operation, several documents
	wants  []string
}

func raceCorpus(r *rng, n int) []raceItem {
	R = r
	var items []raceItem
	// evaluation items: a shared parsed operation on shared data
	for len(items) < n/2 {
		d := genObj(3)
		for j := 0; j < 4; j++ {
			q := genDirected("$", d, 2)
			if strings.Contains(q, "Select($") { // a query taken from the data can recurse (known finding 21)
				continue
			}
			op, err := mpath.ParseString(q)
			if err != nil || op == nil {
				continue
			}
			data := buildAny(d)
			o := runCase(q, data)
			if o.Class == "PANIC" || o.Class == "TIMEOUT" {
				continue
			}
			items = append(items, raceItem{kind: "eval", q: q, data: data, op: op, want: o.Line()})
			items = append(items, raceItem{kind: "parse", q: q, want: op.Sprint(0) + "|" + mpathUserString(op)})
		}
	}
	// one shared operation on records of DIFFERENT struct types that hold the key at different positions (and on maps)
	for _, q := range []string{"$.k", "$.K.Add(1)", "$.xs.k", "$.xs[@.k.Greater(1)].k", "$.o.k?.IsNull()"} {
		op, err := mpath.ParseString(q)
		if err != nil || op == nil {
			continue
		}
		rec := func(fields ...[3]any) *TV { return tvStruct(fields) }
		k := func(v float64) [3]any { return [3]any{"K", 1, tvF64(v)} }
		a := [3]any{"A", 1, tvStr("a")}
		b := [3]any{"B", 1, tvBool(true)}
		variants := []*TV{
			rec(k(1), a, b), rec(a, k(2), b), rec(a, b, k(3)), rec(b, k(4)), tvMap("str", [][2]any{{hx("k"), tvF64(5)}, {hx("a"), tvStr("a")}}),
		}
		var docs []*TV
		for i, v := range variants {
			w := variants[(i+1)%len(variants)]
			docs = append(docs, tvMap("str", [][2]any{{hx("k"), tvF64(float64(10 + i))}, {hx("K2"), tvF64(0)}, {hx("xs"), tvSlice(1, v, w, v)}, {hx("o"), v}}))
			docs = append(docs, tvStruct([][3]any{{"Xs", 1, tvSlice(1, w, v)}, {"O", 1, w}, {"K", 1, tvF64(float64(20 + i))}}))
			docs = append(docs, tvStruct([][3]any{{"K", 1, tvF64(float64(30 + i))}, {"O", 1, v}, {"Xs", 1, tvSlice(1, v, v, w)}}))
		}
		it := raceItem{kind: "eval-variants", q: q, op: op}
		for _, d := range docs {
			data := buildAny(d)
			it.datas = append(it.datas, data)
			it.wants = append(it.wants, runCase(q, data).Line())
		}
		items = append(items, it)
	}
	// validation items: few schemas (repeated cache keys) and many queries, plus distinct schemas
	for len(items) < n {
		g := &cueGen{r: r}
		root, steps := c13Root(g, 3)
		txt := cueSchemaText(g, root)
		var ps [][]string
		cueDeclaredPaths(root, nil, &ps, 0)
		for k := 0; k < 14 && len(ps) > 0; k++ {
			p := ps[r.Intn(len(ps))]
			cp := ""
			if r.Intn(2) == 0 {
				cp = steps[r.Intn(len(steps))]
			}
			q := "$." + strings.Join(p, ".")
			if k >= 2 {
				// not warmed up: the first validation of this part of the (already compiled) schema happens concurrently
				items = append(items, raceItem{kind: "validate", q: q, schema: txt, cp: cp, lazy: true})
				continue
			}
			o := cueValidateOnce(q, txt, cp)
			items = append(items, raceItem{kind: "validate", q: q, schema: txt, cp: cp, want: o.canonLoose()})
		}
	}
	// schemas rich in parts that cue initialises lazily (optional structs, list-element structs, pattern constraints,
	// open structs): one query warms the cache entry up, the others meet the shared value for the first time in parallel
	for i := 0; len(items) < n+160 && i < 40; i++ {
		txt := fmt.Sprintf(`
input: {
	name: string
	_dependencies: []
}
opt%d?: {
	result?: {
		a: int
		b: string
		c: {d: int, e?: {f: string}}
		[string]: _
	}
	_dependencies: []
}
list: {
	result: [...{
		name?: string
		age!: int
		more: {x: int, y?: {z: bool}}
		...
	}]
	_dependencies: ["input"]
}
`, i)
		o := fmt.Sprintf("opt%d", i)
		qs := [][2]string{{"$.input.name", ""}, {"$." + o + ".result.c.d", ""}, {"$." + o + ".result.c.e.f", ""}, {"$." + o + ".result.zzz", ""}, {"$.list.result.more.y.z", ""},
			{"$.list.result[@.age.Greater(1)].more.x", ""}, {"$.list.result.First().more.y", ""}, {"$.list.result.First().qqq", ""}, {"$." + o + ".result.b", "list"}}
		for k, qc := range qs {
			if k == 0 {
				items = append(items, raceItem{kind: "validate", q: qc[0], schema: txt, cp: qc[1], want: cueValidateOnce(qc[0], txt, qc[1]).canonLoose()})
				continue
			}
			items = append(items, raceItem{kind: "validate", q: qc[0], schema: txt, cp: qc[1], lazy: true})
		}
	}
	return items
}

// respell: the same query with a blank appended to every sub-query literal (Select("$.a") -> Select("$.a ")); other queries unchanged
func respell(q string) string {
	if !strings.Contains(q, `Select("`) {
		return q
	}
	var sb strings.Builder
	rest := q
	for {
		i := strings.Index(rest, `Select("`)
		if i < 0 {
			sb.WriteString(rest)
			return sb.String()
		}
		j := strings.Index(rest[i+8:], `"`)
		sb.WriteString(rest[:i+8+j])
		sb.WriteString(" ")
		rest = rest[i+8+j:]
	}
}

type seekFailer struct{}

func (seekFailer) Read(p []byte) (int, error)     { return 0, errInjected }
func (seekFailer) Seek(int64, int) (int64, error) { return 0, errInjected }

type raceStorm struct {
	name  string
	items []raceItem
	iters int // iterations per goroutine in the quick tier (0: 1500); the thorough tier takes 8 times as many
	// lockstep: every goroutine takes document k at its k-th iteration, so that all of them meet each document (and its type)
	// at about the same moment, and for the first time
	lockstep bool
	// before / after: run around the storm (a process-wide setting the program makes once before use)
	before, after func()
}

// raceStorms: families of shared operations; the expected answers are computed here, one call at a time
func raceStorms(r *rng) []raceStorm {
	mk := func(name string, doc *TV, qs ...string) raceStorm {
		st := raceStorm{name: name}
		data := buildAny(doc)
		for _, q := range qs {
			op, err := mpath.ParseString(q)
			if err != nil || op == nil {
				continue
			}
			// the expected answer comes from a spelling of the query that differs in white space inside its string arguments' closing
			// (` ")` for `")`): whatever the implementation remembers per sub-query or per query text is still cold when the storm starts
			st.items = append(st.items, raceItem{kind: "eval", q: q, op: op, data: data, want: runCase(respell(q), data).Line()})
		}
		return st
	}
	tag := fmt.Sprint(r.Intn(1000000)) // fresh patterns and sub-queries in every run
	var out []raceStorm
	// one pattern per operation
	strs := tvMap("str", [][2]any{{hx("s"), tvStr("aab-" + tag + "-ba")}, {hx("t"), tvStr("xyz")},
		{hx("o"), tvMap("str", [][2]any{{hx("ab"), tvF64(1)}, {hx("ba"), tvF64(2)}, {hx("k" + tag), tvF64(3)}})}})
	out = append(out, mk("patterns", strs,
		`$.s.DoesMatchRegex("^a")`, `$.s.DoesMatchRegex("^b")`, `$.s.DoesMatchRegex("`+tag+`")`, `$.t.DoesMatchRegex("^a")`, `$.t.DoesMatchRegex("z$")`,
		`$.s.ReplaceRegex("a+","<>")`, `$.s.ReplaceRegex("b+","<>")`, `$.s.ReplaceRegex("[0-9]+","#")`, `$.s.ReplaceRegex("`+tag+`","T")`,
		`$.o.RemoveKeysByRegex("^a")`, `$.o.RemoveKeysByRegex("^b")`, `$.o.RemoveKeysByRegex("^k`+tag+`")`,
		`$.s.ReplaceAll("a","b")`, `$.s.ReplaceAll("b","a")`, `$.s.Contains("`+tag+`")`, `$.s.Contains("q`+tag+`")`))
	// one sub-query per operation, none of them seen before
	var sel []string
	for i := 0; i < 24; i++ {
		sel = append(sel, fmt.Sprintf(`$.xs.Select("$.a.Add(%s%d)")`, tag, i), fmt.Sprintf(`$.xs[@.Select("$.a.Add(%d)").Greater(%s)].a`, i, tag))
	}
	out = append(out, mk("sub-queries", tvMap("str", [][2]any{{hx("xs"), tvSlice(1, tvMap("str", [][2]any{{hx("a"), tvF64(1)}}), tvMap("str", [][2]any{{hx("a"), tvF64(2)}}))}}), sel...))
	// one shared operation, documents that differ in the number (all of them above MaxInt64, and small ones) and in its Go type
	nums := raceStorm{name: "wide-numbers"}
	for _, q := range []string{"$.u", "$.u.Add(0)", "$.us.Sum()", "$.us.Maximum()", "$.us[@.Greater(5)]", "$.u.Equal($.v)"} {
		op, err := mpath.ParseString(q)
		if err != nil || op == nil {
			continue
		}
		it := raceItem{kind: "eval-variants", q: q, op: op}
		for i := 0; i < 12; i++ {
			big1 := fmt.Sprint(uint64(18446744073709551615) - uint64(i)*1000003)
			big2 := fmt.Sprint(uint64(9223372036854775808) + uint64(i)*7)
			var d *TV
			switch i % 3 {
			case 0:
				d = tvMap("str", [][2]any{{hx("u"), tvInt("uint64", big1)}, {hx("v"), tvInt("uint64", big2)}, {hx("us"), tvSlice(0, tvInt("uint64", big1), tvInt("uint64", big2), tvInt("uint64", fmt.Sprint(i)))}})
			case 1:
				d = tvStruct([][3]any{{"U", 1, tvInt("uint", big2)}, {"V", 1, tvInt("uint64", big2)}, {"Us", 1, tvSlice(1, tvInt("uint64", big2), tvInt("int", fmt.Sprint(-i)), tvInt("uint", big1))}})
			default:
				d = tvMap("str", [][2]any{{hx("u"), tvInt("int64", fmt.Sprint(i*i))}, {hx("v"), tvF64(float64(i * i))}, {hx("us"), tvSlice(1, tvInt("uint8", fmt.Sprint(i)), tvInt("uint64", big1))}})
			}
			data := buildAny(d)
			it.datas = append(it.datas, data)
			it.wants = append(it.wants, runCase(q, data).Line())
		}
		nums.items = append(nums.items, it)
	}
	out = append(out, nums)
	// one shared operation, documents that spell the key differently (and hold several spellings at once)
	keys := raceStorm{name: "key-spellings"}
	for _, q := range []string{"$.key", "$.Key.Add(1)", "$.o.key", "$.xs.key"} {
		op, err := mpath.ParseString(q)
		if err != nil || op == nil {
			continue
		}
		it := raceItem{kind: "eval-variants", q: q, op: op}
		sp := []string{"key", "KEY", "Key", "kEy", "KEy", "keY"}
		for i := 0; i < 12; i++ {
			var kv [][2]any
			for j := 0; j <= i%3; j++ {
				kv = append(kv, [2]any{hx(sp[(i+2*j)%len(sp)]), tvF64(float64(10*i + j))})
			}
			kv = append(kv, [2]any{hx("other"), tvF64(-1)})
			o := tvMap([]string{"str", "named", "iface"}[i%3], kv)
			d := tvMap("str", append(append([][2]any{}, kv...), [2]any{hx("o"), o}, [2]any{hx("xs"), tvSlice(1, o, o)}))
			data := buildAny(d)
			it.datas = append(it.datas, data)
			it.wants = append(it.wants, runCase(q, data).Line())
		}
		keys.items = append(keys.items, it)
	}
	out = append(out, keys)
	// one shared operation whose arguments are literals only (0..15 of them: whatever list the parser built, with or without room
	// to spare, is shared by every evaluation), applied to a receiver that differs from goroutine to goroutine
	{
		la := raceStorm{name: "literal-argument-lists", iters: 600}
		for _, fn := range []string{"Sum", "Average", "Minimum", "Maximum", "AnyOf", "Add", "Equal", "Sprintf"} {
			for n := 0; n <= 15; n++ {
				var args []string
				for j := 1; j <= n; j++ {
					args = append(args, fmt.Sprint(j))
				}
				if fn == "Sprintf" {
					args = append([]string{`"%v"`}, args...)
				}
				// every third list ends in a number written as text (the aggregates read it as a number: whatever they make of it
				// must not be written into the list the parser built)
				if n > 0 && n%3 == 0 && (fn == "Sum" || fn == "Average" || fn == "Minimum" || fn == "Maximum" || fn == "Add") {
					args[len(args)-1] = `"` + args[len(args)-1] + `"`
				}
				q := "$.n." + fn + "(" + strings.Join(args, ",") + ")"
				op, err := mpath.ParseString(q)
				if err != nil || op == nil {
					continue
				}
				it := raceItem{kind: "eval-variants", q: q, op: op}
				for i := 0; i < 12; i++ {
					data := buildAny(tvMap("str", [][2]any{{hx("n"), tvF64(float64(1000 * (i + 1)))}}))
					it.datas = append(it.datas, data)
					it.wants = append(it.wants, runCase(q, data).Line())
				}
				la.items = append(la.items, it)
			}
		}
		out = append(out, la)
	}
	// struct types that no evaluation has seen yet, met by all goroutines at once: whatever is remembered per type is being
	// filled in while the others already ask for it
	{
		ft := raceStorm{name: "fresh-struct-types", lockstep: true}
		for _, q := range []string{"$.K", "$.k.Add(0)"} {
			op, err := mpath.ParseString(q)
			if err != nil || op == nil {
				continue
			}
			it := raceItem{kind: "eval-variants", q: q, op: op}
			for i := 0; i < 1500; i++ {
				var fs []reflect.StructField
				for j := 0; j < 30; j++ {
					fs = append(fs, reflect.StructField{Name: fmt.Sprintf("P%s_%d_%d", tag, i, j), Type: reflect.TypeOf("")})
				}
				fs = append(fs, reflect.StructField{Name: "K", Type: reflect.TypeOf(0)})
				v := reflect.New(reflect.StructOf(fs)).Elem()
				v.Field(30).SetInt(int64(i*10 + 7))
				it.datas = append(it.datas, v.Interface())
				it.wants = append(it.wants, fmt.Sprintf("ok d:%de0", i*10+7))
			}
			ft.items = append(ft.items, it)
			break // one operation: the second would meet the types warm
		}
		out = append(out, ft)
	}
	// one query and one schema text, validated for different current steps at the same time: the answers differ by step
	{
		steps := []string{"first", "second", "third", "other"}
		_, txt := c15Schema(steps, map[string][]string{"second": {"first"}, "third": {"second"}}, nil)
		txt += "// " + tag + "\n"
		vs := raceStorm{name: "validate-steps", iters: 120}
		for _, q := range []string{"$.first.name.Equal(\"x\")", "$.second.ok", "{$.third.ok,$.input.ok}"} {
			for _, cp := range append([]string{""}, steps...) {
				vs.items = append(vs.items, raceItem{kind: "validate", q: q, schema: txt, cp: cp, want: cueValidateOnce(q, txt, cp).canonLoose()})
			}
		}
		out = append(out, vs)
	}
	// schemas that do not compile: every call, the first and the later ones, alone or among others, answers like the first
	{
		vs := raceStorm{name: "validate-schemas-that-do-not-compile", iters: 60}
		for _, txt := range []string{"input: {\n\tname: string\n\tn: int\n", "input: {\n\tname: strng\n\tn: int\n}\n", "input: {\n\tname: string & int\n\tn: int\n}\n", "input: {\n\tname: string\n}\ninput: 5\n"} {
			txt += "// " + tag + "\n"
			for _, q := range []string{"$.input.name", "$.input.n", "$.input.nosuchfield.deeper", "{OR,$.input.name.Equal(\"a\")}"} {
				vs.items = append(vs.items, raceItem{kind: "validate", q: q, schema: txt, cp: "", want: cueValidateOnce(q, txt, "").canonLoose()})
			}
		}
		out = append(out, vs)
	}
	// queries nested to different depths, parsed at the same time (and evaluated: Select parses its sub-query while it runs)
	{
		ps := raceStorm{name: "nested-parses", iters: 150}
		for _, n := range around([]int{3, 12, 60, 200}, 400) {
			for _, q := range []string{strings.Repeat("{", n) + "$.a.Equal(" + tag + ")" + strings.Repeat("}", n), "$.xs" + strings.Repeat("[@.ys", n) + "[@.k.Equal(1)]" + strings.Repeat(".Any()]", n)} {
				op, err := mpath.ParseString(q)
				if err != nil || op == nil {
					continue
				}
				ps.items = append(ps.items, raceItem{kind: "parse", q: q, want: op.Sprint(0) + "|" + mpathUserString(op)})
			}
		}
		doc := tvMap("str", [][2]any{{hx("xs"), tvSlice(1, tvMap("str", [][2]any{{hx("a"), tvF64(1)}}))}})
		sel := mk("x", doc, `$.xs.Select("`+strings.Repeat("{", 40)+"$.a.Equal(1)"+strings.Repeat("}", 40)+`")`)
		ps.items = append(ps.items, sel.items...)
		out = append(out, ps)
	}
	// the program has called Setup(true) once before use: AsJSON on numbers and lists of numbers from many goroutines answers as alone
	{
		mpath.Setup(true)
		st := mk("asjson-after-setup-true", tvMap("str", [][2]any{{hx("n"), tvF64(5)}, {hx("big"), tvInt("int64", "112357")}, {hx("xs"), tvSlice(1, tvF64(1.5), tvF64(2.25), tvF64(3))},
			{hx("o"), tvMap("str", [][2]any{{hx("a"), tvF64(1)}, {hx("b"), tvStr("s" + tag)}})}}),
			"$.n.AsJSON()", "$.big.AsJSON()", "$.xs.AsJSON()", "$.o.AsJSON()", "$.xs.First().AsJSON()", "$.AsJSON()", "$.xs.Sum().AsJSON()", `$.xs.Select("$.Add(1)").AsJSON()`)
		mpath.Setup(false)
		st.before = func() { mpath.Setup(true) }
		st.after = func() { mpath.Setup(false) }
		out = append(out, st)
	}
	return out
}

func mpathUserString(op mpath.Operation) string {
	type us interface{ UserString() string }
	if u, ok := op.(us); ok {
		return u.UserString()
	}
	return ""
}

func init() {
	commands["race"] = func(args []string) { // mpv race <outdir> <seed> <tier>
		dir := args[0]
		seed, _ := strconv.ParseUint(args[1], 10, 64)
		tier := args[2]
		os.MkdirAll(dir, 0o755)
		quietStderrUnlessRace()
		coldM, coldCalls := coldStart() // before anything else touches the library in this process
		r := newRng(seed)
		nItems, rounds := 400, 12
		if tier == "thorough" {
			nItems, rounds = 900, 60
		}
		items := raceCorpus(r, nItems)
		type mism struct{ Kind, Q, CP, Want, Got string }
		var mismatches []mism
		var calls int64 = int64(coldCalls)
		for _, m := range coldM {
			mismatches = append(mismatches, mism{m.Kind, m.Q, m.CP, m.Want, m.Got})
		}
		lazyGot := map[int][]string{}
		hist := map[string]int{}
		goroutineCounts := []int{32, 16, 8, 4, 3, 2}
		lazyByRound := make([][]int, rounds)
		for i, it := range items {
			if it.lazy {
				lazyByRound[i%rounds] = append(lazyByRound[i%rounds], i)
			}
		}
		for round := 0; round < rounds; round++ {
			g := goroutineCounts[round%len(goroutineCounts)]
			perG := 60
			seeds := make([]uint64, g)
			for i := range seeds {
				seeds[i] = r.next()
			}
			var wg sync.WaitGroup
			start := make(chan struct{})
			// results are kept per goroutine and merged after the round: a mutex or an atomic counter inside the loop
			// would order the goroutines' memory accesses and hide races from the detector
			localMism := make([][]mism, g)
			localLazy := make([]map[int][]string, g)
			localCalls := make([]int64, g)
			for gi := 0; gi < g; gi++ {
				wg.Add(1)
				go func(gi int) {
					defer wg.Done()
					lr := newRng(seeds[gi])
					<-start
					for k := 0; k < perG; k++ {
						itIdx := lr.Intn(len(items))
						if ls := lazyByRound[round]; len(ls) > 0 && k < 24 {
							itIdx = ls[lr.Intn(len(ls))] // every goroutine starts the round on the not-yet-validated items
						}
						it := items[itIdx]
						if lr.Intn(3) == 0 {
							runtime.Gosched()
						}
						if k%12 == 5 {
							// parses that end early (the reader cannot seek / fails at once / fails part-way) between the others:
							// whatever they leave in the scanner pool is what the next parses get
							var rd interface {
								Read([]byte) (int, error)
								Seek(int64, int) (int64, error)
							}
							switch lr.Intn(3) {
							case 0:
								rd = seekFailer{}
							case 1:
								rd = &chunkReader{data: []byte(it.q + " "), failAt: 0, chunks: func() int { return 3 }}
							default:
								rd = &chunkReader{data: []byte("$.a.b.c.Add(1).Equal(2)"), failAt: 1 + lr.Intn(20), chunks: func() int { return 2 }}
							}
							if op, err := mpath.ParseReadSeeker(rd); err == nil || op != nil {
								localMism[gi] = append(localMism[gi], mism{"parse-failing-reader", it.q, "", "an error and no operation", fmt.Sprintf("op=%v err=%v", op != nil, err)})
							}
							localCalls[gi]++
						}
						var got string
						switch it.kind {
						case "parse":
							op, err := mpath.ParseString(it.q)
							if err != nil || op == nil {
								got = "ERR"
							} else {
								got = op.Sprint(0) + "|" + mpathUserString(op)
							}
						case "eval":
							got = evalShared(it.op, it.data)
						case "eval-variants":
							vi := lr.Intn(len(it.datas))
							got = evalShared(it.op, it.datas[vi])
							it.want = it.wants[vi]
						case "validate":
							if it.lazy && itIdx%rounds != round {
								continue // every round has its own share of not-yet-validated items: first touches happen in parallel
							}
							if it.lazy {
								got = cueValidateOnce(it.q, it.schema, it.cp).canonLoose()
								if localLazy[gi] == nil {
									localLazy[gi] = map[int][]string{}
								}
								localLazy[gi][itIdx] = append(localLazy[gi][itIdx], got)
								localCalls[gi]++
								continue
							}
							switch lr.Intn(3) {
							case 0: // the same key as in the sequential run: a cache hit
								got = cueValidateOnce(it.q, it.schema, it.cp).canonLoose()
							case 1: // a query spelling nobody has used yet: a miss in the operation cache, while others read it
								got = cueValidateOnce(it.q+strings.Repeat(" ", 1+lr.Intn(40)), it.schema, it.cp).canonLoose()
							default: // a schema spelling nobody has used yet: a miss in the schema cache
								got = cueValidateOnce(it.q, it.schema+fmt.Sprintf("\n// %d\n", lr.next()), it.cp).canonLoose()
							}
						}
						localCalls[gi]++
						if got != it.want {
							localMism[gi] = append(localMism[gi], mism{it.kind, it.q, it.cp, trunc(it.want, 300), trunc(got, 300)})
						}
					}
				}(gi)
			}
			close(start)
			wg.Wait()
			for gi := 0; gi < g; gi++ {
				mismatches = append(mismatches, localMism[gi]...)
				calls += localCalls[gi]
				for k, v := range localLazy[gi] {
					lazyGot[k] = append(lazyGot[k], v...)
				}
			}
			hist[fmt.Sprintf("round/%d-goroutines", g)] += g * perG
		}
		// storms: many goroutines in a tight loop over a handful of shared operations that differ in one respect only (the pattern,
		// the sub-query, the number, the spelling of the key) - state kept between calls and shared between callers shows as a
		// data race or as an answer that belongs to the neighbour's call
		for _, fam := range raceStorms(r) {
			iters := 1500
			if fam.iters > 0 {
				iters = fam.iters
			}
			if tier == "thorough" {
				iters *= 8
			}
			const g = 16
			localMism := make([][]mism, g)
			var wg sync.WaitGroup
			start := make(chan struct{})
			if fam.before != nil {
				fam.before()
			}
			for gi := 0; gi < g; gi++ {
				wg.Add(1)
				go func(gi int) {
					defer wg.Done()
					<-start
					n := len(fam.items)
					for k := 0; k < iters; k++ {
						it := fam.items[(gi+k*(1+gi%3))%n]
						var got, want string
						if it.kind == "validate" {
							got, want = cueValidateOnce(it.q, it.schema, it.cp).canonLoose(), it.want
						} else if it.kind == "parse" {
							want = it.want
							if op, err := mpath.ParseString(it.q); err != nil || op == nil {
								got = "ERR"
							} else {
								got = op.Sprint(0) + "|" + mpathUserString(op)
							}
						} else if len(it.datas) > 0 {
							vi := (k + gi) % len(it.datas)
							if fam.lockstep {
								vi = k % len(it.datas)
							}
							got, want = evalShared(it.op, it.datas[vi]), it.wants[vi]
						} else {
							got, want = evalShared(it.op, it.data), it.want
						}
						if got != want && len(localMism[gi]) < 5 {
							localMism[gi] = append(localMism[gi], mism{"storm/" + fam.name, it.q, "", trunc(want, 300), trunc(got, 300)})
						}
					}
				}(gi)
			}
			close(start)
			wg.Wait()
			if fam.after != nil {
				fam.after()
			}
			for gi := 0; gi < g; gi++ {
				mismatches = append(mismatches, localMism[gi]...)
			}
			calls += int64(g * iters)
			hist["storm/"+fam.name] += g * iters
		}
		// the lazily validated items: every concurrent answer must equal the answer of the same call run alone afterwards
		// (on a re-spelled schema, i.e. from a fresh cache entry)
		for idx, gots := range lazyGot {
			it := items[idx]
			want := cueValidateOnce(it.q, it.schema+"\n// after\n", it.cp).canonLoose()
			for _, g := range gots {
				if g != want {
					mismatches = append(mismatches, mism{"validate-lazy", it.q, it.cp, trunc(want, 300), trunc(g, 300)})
					break
				}
			}
		}
		kinds := map[string]int{}
		for _, it := range items {
			kinds[it.kind]++
		}
		rep := map[string]any{"calls": calls, "items": len(items), "item_kinds": kinds, "rounds": rounds, "class_histogram": hist,
			"mismatches": mismatches, "race_detector": raceEnabled}
		b, _ := json.MarshalIndent(rep, "", " ")
		os.WriteFile(filepath.Join(dir, "race-report.json"), b, 0o644)
	}
}

func evalShared(op mpath.Operation, data any) (out string) {
	defer func() {
		if r := recover(); r != nil {
			out = "PANIC"
		}
	}()
	res, err := op.Do(data, data)
	if err != nil {
		if errorsIsKNF(err) {
			return "KNF"
		}
		return "ERR"
	}
	return "ok " + canonAny(res)
}

func quietStderrUnlessRace() {} // stderr stays open: the race detector writes its report there

func errorsIsKNF(err error) bool { return errors.Is(err, mpath.ErrKeyNotFound) }

func canonAny(v any) string { return canonV(reflect.ValueOf(v)) }
