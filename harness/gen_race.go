package main

// C12: ParseString, Do on a shared parsed operation and CueValidate are safe to call from many goroutines.
// `mpv race <outdir> <seed> <tier>` — meant to be built with `go build -race` and run with
// GORACE="halt_on_error=1 exitcode=66": a data race ends the process with exit status 66 and the detector's report on
// stderr (the orchestrator turns that into the violation). Every concurrent result is compared with the answer the
// same call gives when run alone.

import (
	"encoding/json"
	"errors"
	"fmt"
	"os"
	"path/filepath"
	"reflect"
	"runtime"
	"strconv"
	"strings"
	"sync"
	"sync/atomic"

	"github.com/machship/mpath"
)

type raceItem struct {
	kind   string // parse | eval | validate
	q      string
	data   any
	op     mpath.Operation
	schema string
	cp     string
	want   string
}

func raceCorpus(r *rng, n int) []raceItem {
	R = r
	var items []raceItem
	// evaluation items: a shared parsed operation on shared data
	for len(items) < n/2 {
		d := genObj(3)
		for j := 0; j < 4; j++ {
			q := genDirected("$", d, 2)
			if strings.Contains(q, "Select($") { // a query taken from the data can recurse (known finding 21)
				continue
			}
			op, err := mpath.ParseString(q)
			if err != nil || op == nil {
				continue
			}
			data := buildAny(d)
			o := runCase(q, data)
			if o.Class == "PANIC" || o.Class == "TIMEOUT" {
				continue
			}
			items = append(items, raceItem{kind: "eval", q: q, data: data, op: op, want: o.Line()})
			items = append(items, raceItem{kind: "parse", q: q, want: op.Sprint(0) + "|" + mpathUserString(op)})
		}
	}
	// validation items: few schemas (repeated cache keys) and many queries, plus distinct schemas
	for len(items) < n {
		g := &cueGen{r: r}
		root, steps := c13Root(g, 3)
		txt := cueSchemaText(g, root)
		var ps [][]string
		cueDeclaredPaths(root, nil, &ps, 0)
		for k := 0; k < 6 && len(ps) > 0; k++ {
			p := ps[r.Intn(len(ps))]
			cp := ""
			if r.Intn(2) == 0 {
				cp = steps[r.Intn(len(steps))]
			}
			q := "$." + strings.Join(p, ".")
			o := cueValidateOnce(q, txt, cp)
			items = append(items, raceItem{kind: "validate", q: q, schema: txt, cp: cp, want: o.canonLoose()})
		}
	}
	return items
}

func mpathUserString(op mpath.Operation) string {
	type us interface{ UserString() string }
	if u, ok := op.(us); ok {
		return u.UserString()
	}
	return ""
}

func init() {
	commands["race"] = func(args []string) { // mpv race <outdir> <seed> <tier>
		dir := args[0]
		seed, _ := strconv.ParseUint(args[1], 10, 64)
		tier := args[2]
		os.MkdirAll(dir, 0o755)
		quietStderrUnlessRace()
		r := newRng(seed)
		nItems, rounds := 240, 12
		if tier == "thorough" {
			nItems, rounds = 900, 60
		}
		items := raceCorpus(r, nItems)
		type mism struct{ Kind, Q, CP, Want, Got string }
		var mu sync.Mutex
		var mismatches []mism
		var calls int64
		hist := map[string]int{}
		goroutineCounts := []int{2, 3, 4, 8, 16, 32}
		for round := 0; round < rounds; round++ {
			g := goroutineCounts[round%len(goroutineCounts)]
			perG := 60
			seeds := make([]uint64, g)
			for i := range seeds {
				seeds[i] = r.next()
			}
			var wg sync.WaitGroup
			start := make(chan struct{})
			for gi := 0; gi < g; gi++ {
				wg.Add(1)
				go func(gi int) {
					defer wg.Done()
					lr := newRng(seeds[gi])
					<-start
					for k := 0; k < perG; k++ {
						it := items[lr.Intn(len(items))]
						if lr.Intn(3) == 0 {
							runtime.Gosched()
						}
						var got string
						switch it.kind {
						case "parse":
							op, err := mpath.ParseString(it.q)
							if err != nil || op == nil {
								got = "ERR"
							} else {
								got = op.Sprint(0) + "|" + mpathUserString(op)
							}
						case "eval":
							got = evalShared(it.op, it.data)
						case "validate":
							switch lr.Intn(3) {
							case 0: // the same key as in the sequential run: a cache hit
								got = cueValidateOnce(it.q, it.schema, it.cp).canonLoose()
							case 1: // a query spelling nobody has used yet: a miss in the operation cache, while others read it
								got = cueValidateOnce(it.q+strings.Repeat(" ", 1+lr.Intn(40)), it.schema, it.cp).canonLoose()
							default: // a schema spelling nobody has used yet: a miss in the schema cache
								got = cueValidateOnce(it.q, it.schema+fmt.Sprintf("\n// %d\n", lr.next()), it.cp).canonLoose()
							}
						}
						atomic.AddInt64(&calls, 1)
						if got != it.want {
							mu.Lock()
							mismatches = append(mismatches, mism{it.kind, it.q, it.cp, trunc(it.want, 300), trunc(got, 300)})
							mu.Unlock()
						}
					}
				}(gi)
			}
			close(start)
			wg.Wait()
			hist[fmt.Sprintf("round/%d-goroutines", g)] += g * perG
		}
		kinds := map[string]int{}
		for _, it := range items {
			kinds[it.kind]++
		}
		rep := map[string]any{"calls": calls, "items": len(items), "item_kinds": kinds, "rounds": rounds, "class_histogram": hist,
			"mismatches": mismatches, "race_detector": raceEnabled}
		b, _ := json.MarshalIndent(rep, "", " ")
		os.WriteFile(filepath.Join(dir, "race-report.json"), b, 0o644)
	}
}

func evalShared(op mpath.Operation, data any) (out string) {
	defer func() {
		if r := recover(); r != nil {
			out = "PANIC"
		}
	}()
	res, err := op.Do(data, data)
	if err != nil {
		if errorsIsKNF(err) {
			return "KNF"
		}
		return "ERR"
	}
	return "ok " + canonAny(res)
}

func quietStderrUnlessRace() {} // stderr stays open: the race detector writes its report there

func errorsIsKNF(err error) bool { return errors.Is(err, mpath.ErrKeyNotFound) }

func canonAny(v any) string { return canonV(reflect.ValueOf(v)) }
