package main

// Deterministic blocks added after the fourth round of seeded changes. They use no random numbers (the random streams of the
// generators stay what they were) and run before the generator of the property. Unless an expectation is given, the model decides:
// every case is in the domain, so a difference between the model and the implementation is reported.

import (
	"encoding/json"
	"fmt"
	"math"
	"reflect"
	"strings"

	"github.com/machship/mpath"

	"github.com/shopspring/decimal"
)

func round4(c *Ctx) {
	switch c.Prop {
	case "C01":
		r5StructLayouts(c)
		r4NearMissKeys(c)
		r4TaggedStructs(c)
		r5RecasedKeysInKeyedMaps(c)
		r5MixedObjectCarriers(c)
	case "C04":
		r5DeepCarriers(c)
		r4LocalTypes(c, []string{"$.one.a.Add(1)", "$.two.pad.Subtract($.two.a)", "$.two.a.Subtract($.two.pad)", "$.one.Sum()", "$.two.Sum()", "$.mix.First().Sum()", "$.mix.Last().a.Multiply(2)",
			"$.two.pad.Divide($.two.a)", "$.one.a.Modulo(3)", "$.two.Maximum()", "$.one.Minimum()", "$.two.Average()", "$.mix.a.Sum()"})
	case "C05":
		r5DeepCarriers(c)
		r4CloseNumbers(c)
	case "C06":
		r5BareAtQueries(c)
		r5DeepCarriers(c)
		r4TaggedStructs(c)
	case "C07":
		r5DeepCarriers(c)
		r5NonFiniteNumbers(c)
		r5YAMLKeysThatAreNotStrings(c)
		r4Cyclic(c)
		r4LocalTypes(c, []string{"$.one.k", "$.two.k", "$.one.IsEmpty()", "$.two.Sum()", "$.one.Sum()"})
	case "C10":
		r4TaggedStructs(c)
		r4FullFolding(c)
		r5RecasedKeysInKeyedMaps(c)
		r5MixedObjectCarriers(c)
		r5TextBehindPointers(c)
	case "C11":
		r5DeepCarriers(c)
		r5AnswersOnEqualCopies(c)
		r4Purity(c)
		r4RegexHistory(c)
	case "C17":
		r5DeepCarriers(c)
		r4ScaledIndexes(c)
		r4SelectFromData(c)
	case "C18":
		r5AtArguments(c)
		r5DeepCarriers(c)
		r4CombiningMarks(c)
		r4RegexHistory(c)
		r4ScaledCounts(c)
	case "C19":
		r5StructLayouts(c)
		r5DeepCarriers(c)
		r4NonASCIIMarkedKeys(c)
		// a key that one of two same-named struct types lacks and the other has: asked of the one that lacks it first, and the other way round
		r4LocalTypes(c, []string{"$.one.pad?.IsNull()", "$.two.pad?.IsNull()", "$.two.pad?.IsNotNull()", "$.two.a?.IsNull()", "$.one.a?.IsNull()", "$.one.a?.IsNotNull()", "$.one.pad", "$.two.pad", "$.two.a", "$.one.a",
			"$.mix.pad", "$.mix.a", "$.mix[@.pad?.IsNull()].Count()", "$.mix[@.a?.IsNotNull()].Count()"})
	case "C02", "C03":
		r5DeepCarriers(c)
		r4RootGroupsAcrossDocuments(c)
		r5FiltersOnSingleObjects(c)
	}
}

func kv(k string, v *TV) [2]any { return [2]any{hx(k), v} }

// C01: a key that differs from a key of the document in one bit of one byte is another key (unless that is the case bit of a letter)
func r4NearMissKeys(c *Ctx) {
	for ch := 0x21; ch < 0x7f; ch++ {
		if invalidRunesHarness[rune(ch)] || ch == '?' {
			continue
		}
		for bit := 0; bit < 7; bit++ {
			other := ch ^ (1 << bit)
			have := "k" + string(rune(other)) + "x"
			want := "k" + string(rune(ch)) + "x"
			d := tvMap("str", [][2]any{kv(have, tvF64(1)), kv("pad", tvF64(2)), kv("l", tvSlice(1, tvMap("str", [][2]any{kv(want, tvF64(1))}), tvMap("str", [][2]any{kv(have, tvF64(2))}), tvMap("str", [][2]any{kv(want, tvF64(3))})))})
			c.Do(Case{Q: "$." + want, D: d, Cls: "round4/near-miss-keys", InDomain: true})
			c.Do(Case{Q: "$.l." + want, D: d, Cls: "round4/near-miss-keys/projection", InDomain: true})
			c.Do(Case{Q: "$.l[@." + want + "?.IsNotNull()]", D: d, Cls: "round4/near-miss-keys/filter", InDomain: true})
		}
	}
}

var invalidRunesHarness = map[rune]bool{'\'': true, '"': true, '(': true, ')': true, '[': true, ']': true, '{': true, '}': true, '@': true, '$': true, '&': true, '.': true,
	',': true, '=': true, '>': true, '<': true, '|': true, '!': true, ';': true, '/': true, '*': true, '`': true, '\\': false}

// C01/C06/C10: struct fields that carry json tags are fields like the others - addressed by their Go names, their numbers decimals
func r4TaggedStructs(c *Ctx) {
	for flag := 3; flag <= 6; flag++ {
		line := func(sku string, qty int, price float64) *TV {
			return tvStruct([][3]any{{"Sku", flag, tvStr(sku)}, {"Qty", flag, tvInt("int", fmt.Sprint(qty))}, {"Price", flag, tvF64(price)}})
		}
		d := tvStruct([][3]any{{"Id", flag, tvInt("int64", "-9223372036854775808")}, {"Net", flag, tvF64(10)}, {"Tax", flag, tvF64(2.5)}, {"Name", flag, tvStr("n")}, {"Count", 1, tvInt("int", "3")},
			{"Lines", flag, tvSlice(1, line("a", 1, 1.5), line("b", 2, 2.25))}, {"Ptr", flag, tvPtr(tvInt("uint64", "18446744073709551615"))}, {"Dec", flag, tvDec(decimal.RequireFromString("12.50"))}})
		for _, q := range []string{"$.id", "$.Id", "$.net", "$.tax.Add(1)", "$.name", "$.count", "$.lines.First().qty", "$.lines.Last().price", "$.lines.qty", "$.lines.price.Sum()", "$.lines.sku", "$.ptr", "$.dec",
			"$.Sum()", "$.Maximum()", `$.Select("$").Count()`, "$.lines[@.qty.Greater(1)].sku", `$.lines.Select("$.sku").Count()`, "$.zz_id", "$.zz_net", "$.IsEmpty()", `$.RemoveKeysByPrefix("N")`, "$.lines.First().Sum()"} {
			if c.Prop == "C10" && !strings.Contains(q, "RemoveKeysBy") { // the struct with tags answers like the map that holds the same
				c.sameAcross(q, []string{"map", "tagged-struct", "pointer-to-tagged-struct"}, []*TV{structAsMap(d), d, tvPtr(d)}, fmt.Sprintf("round4/tagged-struct/flag%d", flag))
				continue
			}
			c.Do(Case{Q: q, D: d, Cls: fmt.Sprintf("round4/tagged-struct/flag%d", flag), InDomain: true})
			c.Do(Case{Q: q, D: tvPtr(d), Cls: fmt.Sprintf("round4/tagged-struct/flag%d/ptr", flag), InDomain: true})
		}
	}
}

// two struct types of one name with different layouts, asked in turns, both orders
func r4LocalTypes(c *Ctx, qs []string) {
	lay := tvMap("str", [][2]any{{hx("one"), tvUnexp("R1", tvStr("first"), tvInt("int", "1"))}, {hx("two"), tvUnexp("R2", tvInt("int", "7"), tvInt("int", "8"), tvStr("second"))},
		{hx("mix"), tvSlice(1, tvUnexp("R2", tvInt("int", "70"), tvInt("int", "80"), tvStr("m2")), tvUnexp("R1", tvStr("m1"), tvInt("int", "11")))}})
	for round := 0; round < 2; round++ {
		for i := range qs {
			q := qs[i]
			if round == 1 {
				q = qs[len(qs)-1-i]
			}
			c.Do(Case{Q: q, D: lay, Cls: "round4/same-named-struct-types", InDomain: true})
		}
	}
}

// C05: numbers that differ by less than a float64 can tell, held at different decimal scales
func r4CloseNumbers(c *Ctx) {
	type pair struct{ a, b *TV }
	var ps []pair
	dec := func(coef string, exp int) *TV { return &TV{T: "dec", C: coef, E: fmt.Sprint(exp)} }
	for _, base := range []string{"9007199254740992", "9223372036854775806", "100000000000000000", "123456789012345678", "1234567890123456789"} {
		b, _ := decimal.NewFromString(base)
		b1 := b.Add(decimal.NewFromInt(1)).String()
		ps = append(ps, pair{tvInt("int64", b1), dec(base+"0", -1)}, pair{dec(base+"0", -1), tvInt("int64", b1)}, pair{tvInt("uint64", base), dec(b1+"00", -2)},
			pair{dec(base+"001", -3), dec(base, 0)}, pair{dec(base, 0), dec(base+"0", -1)}, pair{tvStr(b1), dec(base+"0", -1)}, pair{dec(base+"0", -1), tvStr(base + ".00")})
	}
	ps = append(ps, pair{dec("12345678901234567891", -10), dec("123456789012345678", -8)}, pair{dec("1", 400), dec("10000000000000000000001", 378)}, pair{dec("1", -400), dec("100000000000000000001", -420)},
		pair{tvInt("uint64", "18446744073709551615"), dec("184467440737095516160", -1)})
	for _, p := range ps {
		d := tvMap("str", [][2]any{{hx("a"), p.a}, {hx("b"), p.b}, {hx("l"), tvSlice(1, p.b, p.a)}})
		for _, f := range []string{"Equal", "NotEqual", "Less", "LessOrEqual", "Greater", "GreaterOrEqual", "AnyOf"} {
			c.Do(Case{Q: "$.a." + f + "($.b)", D: d, Cls: "round4/close-numbers-other-scale", InDomain: p.a.T != "str" && p.b.T != "str"})
		}
		c.Do(Case{Q: "$.a.AnyOf($.l)", D: d, Cls: "round4/close-numbers-other-scale", InDomain: p.a.T != "str" && p.b.T != "str"})
		c.Do(Case{Q: "$.l[@.Equal($.a)].Count()", D: d, Cls: "round4/close-numbers-other-scale", InDomain: p.a.T != "str" && p.b.T != "str"})
	}
}

// C07: values that contain themselves. Each case runs in a process of its own: a stack overflow kills the process.
func r4Cyclic(c *Ctx) {
	for _, k := range []string{"slice", "map", "node", "parent", "inmap"} {
		d := tvCyc(k)
		for _, q := range []string{"$", "$.Count()", "$.First()", "$.x", "$.self.x", "$.name", "$.next.next.name", "$.kids.name", "$.lines.sku", "$.lines.order.number", "$.order.lines.First().order.number", "$.list.Count()",
			"$.IsEmpty()", "$.IsNull()", "$.AsArray().Count()", "$.Sum()", `$.Select("$").Count()`, `$.RemoveKeysByPrefix("X")`, `$.RemoveKeysBySuffix("ef")`, `$.RemoveKeysByRegex("^x")`, `$.order.RemoveKeysByPrefix("X")`,
			"$.Equal(1)", "$.AnyOf(1)", "$[@.x.Equal(1)]", "$.kids[@.name.Equal(\"n\")].Count()", "$.lines[@.order.number.Equal(\"o1\")].Count()"} {
			c.DoIsolated(Case{Q: q, D: d, Cls: "round4/cyclic-data/" + k, InDomain: false})
		}
	}
}

// sameAcross: the query on several renderings of one document: the same logical answer on each (C10)
func (c *Ctx) sameAcross(q string, names []string, ds []*TV, cls string) {
	var first string
	for i, d := range ds {
		o := c.Do(Case{Q: q, D: d, Cls: cls + "/" + names[i], InDomain: true})
		got := o.Class
		if o.Class == "ok" {
			got = o.Logical
		}
		if i == 0 {
			first = got
			continue
		}
		if got != first {
			c.addViolation(Violation{Kind: "carrier-dependence", Query: q, QueryHex: hx(q), Data: d, Expected: trunc(first, 300), Got: trunc(got, 300), Cls: cls,
				Why: "the same document in the carrier " + names[i] + " gives another answer than in the carrier " + names[0], Key: "carrier:" + cls + ":" + lastFunc(q)})
		}
	}
}

// structAsMap: the map[string]any that holds what the struct holds (fields become keys, recursively)
func structAsMap(t *TV) *TV {
	switch t.T {
	case "struct":
		var kvs [][2]any
		for _, f := range t.V.([][3]any) {
			kvs = append(kvs, [2]any{hx(f[0].(string)), structAsMap(f[2].(*TV))})
		}
		return tvMap("str", kvs)
	case "slice":
		xs := []*TV{}
		for _, x := range t.V.([]*TV) {
			xs = append(xs, structAsMap(x))
		}
		return &TV{T: "slice", EI: t.EI, Nil: t.Nil, V: xs}
	case "ptr":
		if t.Nil == 0 {
			return structAsMap(t.V.(*TV))
		}
	}
	return t
}

// C10: a key that equals a key of the document only under FULL case folding (one letter for two) is another key, in every carrier
func r4FullFolding(c *Ctx) {
	doc := dObj("adresse", dObj("straße", dStr("Hauptstr. 1"), "masse", dNum("3"), "profil", dStr("p"), "ǆ", dNum("1")), "liste", dArr(dObj("straße", dStr("a")), dObj("straße", dStr("b"))), "ſ", dNum("2"), "k", dNum("5"),
		// names a Go struct can have as field names (ASCII), asked for in spellings that fold to them only one-to-two
		"plain", dObj("masse", dNum("3"), "profil", dStr("p"), "strasse", dStr("s"), "fluss", dNum("1")), "rows", dArr(dObj("strasse", dStr("a"), "n", dNum("1")), dObj("strasse", dStr("b"), "n", dNum("2"))))
	qs := []string{"$.adresse.strasse", "$.adresse.STRASSE", "$.adresse.STRAßE", "$.adresse.straße", "$.adresse.maße", "$.adresse.MASSE", "$.adresse.proﬁl", "$.adresse.PROFIL", "$.liste.strasse", "$.liste.STRAßE",
		"$.liste[@.strasse.Equal(\"a\")].Count()", `$.liste.Select("$.strasse")`, "$.adresse.ǅ", "$.adresse.Ǆ", "$.s", "$.S", "$.ſ", "$.K", "$.K.Add(1)", "$.K",
		"$.plain.ma\u00dfe", "$.plain.MASSE", "$.plain.pro\ufb01l", "$.plain.stra\u00dfe", "$.plain.STRA\u00dfE", "$.plain.\ufb02uss", "$.plain.flu\u00df", "$.rows.stra\u00dfe", "$.rows[@.stra\u00dfe.Equal(\"a\")].Count()", "$.rows.Select(\"$.stra\u00dfe\")", "$.plain.Strasse"}
	styles := []Style{{Obj: "map", Num: "f64"}, {Obj: "struct", Num: "f64"}, {Obj: "struct", Num: "int", PtrObj: true}, {Obj: "nmap", Num: "dec"}, {Obj: "imap", Num: "f64"}, {Obj: "inmap", Num: "f64"}}
	var names []string
	var ds []*TV
	for i := range styles {
		names = append(names, fmt.Sprintf("%s-%s", styles[i].Obj, styles[i].Num))
		ds = append(ds, render(doc, &styles[i]))
	}
	for _, q := range qs {
		c.sameAcross(q, names, ds, "round4/full-folding-keys")
	}
}

// C11: evaluation writes nothing into the document, whatever Go types it is made of
func (c *Ctx) purity(q string, d *TV, cls string) {
	data := buildAny(d)
	before := canonV(reflect.ValueOf(data))
	if op, err := mpath.ParseString(q); err == nil && op != nil {
		evalOp(op, data)
	}
	if after := canonV(reflect.ValueOf(data)); after != before {
		c.addViolation(Violation{Kind: "mutation", Query: q, QueryHex: hx(q), Data: d, Expected: trunc(before, 300), Got: trunc(after, 300), Why: "the data passed to the evaluation was modified by it", Cls: cls,
			Key: "mutation:" + lastFunc(q)})
	}
	c.Do(Case{Q: q, D: d, Cls: cls, InDomain: false})
}

func r4Purity(c *Ctx) {
	im := func(kvs ...[2]any) *TV { return tvMap("iface", kvs) }
	line := func(s string, n float64) *TV { return im(kv("sku", tvStr(s)), kv("qty", tvF64(n))) }
	docs := []*TV{
		tvMap("str", [][2]any{kv("order", im(kv("id", tvF64(7)), kv("lines", tvSlice(1, line("a", 1), line("b", 2), tvSlice(1, line("c", 3)))), kv("tags", tvSlice(1, tvStr("x")))))}),
		tvMap("str", [][2]any{kv("order", tvMap("str", [][2]any{kv("lines", tvSlice(1, line("a", 1), tvMap("str", [][2]any{kv("sku", tvStr("z"))})))})), kv("nan", tvF64(math.NaN()))}),
		im(kv("lines", tvSlice(1, line("a", 1))), kv("o", im(kv("lines", tvSlice(1, line("b", 2)))))),
	}
	for _, d := range docs {
		for _, q := range []string{"$.order.AsJSON()", "$.AsJSON()", "$.order.lines.AsJSON()", "$.o.AsJSON()", "$.order.lines.First().AsJSON()", `$.order.RemoveKeysByPrefix("i")`, "$.order.lines.sku", `$.order.lines.Select("$.sku")`,
			"$.order.lines[@.qty?.Greater(1)]", "$.order.Sum()", `$.Sprintf("%v")`} {
			c.purity(q, d, "round4/purity/maps-with-interface-keys")
		}
	}
}

// regular expressions: the answer for a pattern does not depend on which function met the pattern first in the process (each
// query runs in this process, where the pattern has a history, and in a process of its own, where it has none)
func r4RegexHistory(c *Ctx) {
	d := tvMap("str", [][2]any{kv("s", tvStr("abd abd")), kv("t", tvStr("onetwo")), kv("m", tvMap("str", [][2]any{kv("a", tvF64(1)), kv("ab", tvF64(2)), kv("abc", tvF64(3))}))})
	pats := []string{"a|ab", "ab|a", ".+?", "o.*?e|one", "(a|ab)(c|bcd)?", "x*", "a{1,2}?"}
	for order := 0; order < 2; order++ {
		for i, p := range pats {
			p := p
			if order == 1 {
				p = pats[len(pats)-1-i] + "|zzz"
			}
			qs := []string{`$.s.DoesMatchRegex("` + p + `")`, `$.m.RemoveKeysByRegex("` + p + `")`, `$.s.ReplaceRegex("` + p + `","x")`, `$.t.ReplaceRegex("` + p + `","")`, `$.t.ReplaceRegex("` + p + `","[$0]")`}
			if order == 1 { // the replacing function meets the pattern first
				qs = []string{qs[2], qs[3], qs[0], qs[1], qs[4]}
			}
			for _, q := range qs {
				c.warmCold(Case{Q: q, D: d, Cls: "round4/regex-history", InDomain: false})
			}
		}
	}
}

// warmCold: the case in this process (which has evaluated many things before) and in a process of its own: the same answer
func (c *Ctx) warmCold(cs Case) {
	warm := c.Do(cs)
	line, _ := json.Marshal(map[string]any{"q": hx(cs.Q), "d": cs.D, "dom": cs.InDomain})
	cold := runChild(line)
	c.Extra["warm_cold_checks"] = asInt(c.Extra["warm_cold_checks"]) + 1
	if cold.Class == "CRASH" || warm.Class == "TIMEOUT" {
		return
	}
	if warm.Line() != cold.Line() {
		c.addViolation(Violation{Kind: "history", Query: cs.Q, QueryHex: hx(cs.Q), Data: cs.D, Expected: trunc(cold.Line(), 300), Got: trunc(warm.Line(), 300),
			Why: "the answer in this process (after the evaluations that came before) differs from the answer of a process that evaluates nothing else", Cls: cs.Cls, Key: "history:" + lastFunc(cs.Q)})
	}
}

// C17: an index is a whole number whatever its scale (2.0, 4/2, "1.0", a decimal with trailing zeros)
func r4ScaledIndexes(c *Ctx) {
	xs := tvSlice(1, tvF64(10), tvF64(20), tvF64(30), tvF64(40))
	d := tvMap("str", [][2]any{kv("xs", xs), kv("one", &TV{T: "dec", C: "10", E: "-1"}), kv("zero", &TV{T: "dec", C: "0", E: "-2"}), kv("two", &TV{T: "dec", C: "2000", E: "-3"}), kv("half", tvF64(0.5)),
		kv("three", tvStr("3.0")), kv("big", &TV{T: "dec", C: "3", E: "0"}), kv("e", &TV{T: "dec", C: "2", E: "1"})})
	for _, q := range []string{"$.xs.Index($.xs.Count().Divide(2))", `$.xs.Index("1.0")`, "$.xs.Index($.one)", "$.xs.Index($.zero)", "$.xs.Index($.two)", "$.xs.Index($.three)", "$.xs.Index($.big)", "$.xs.Index($.e)",
		"$.xs.Index($.xs.Count().Multiply($.half))", "$.xs.Index($.xs.Count().Subtract(1.0))", "$.xs.Index($.xs.Count().Subtract($.one))", "$.xs.Index($.one.Add($.one))", "$.xs.Index($.two.Divide($.two))",
		"$.xs.Index($.xs.Count().Divide(3))", "$.xs.Index($.half)", "$.xs.Index($.one.Subtract($.two))", `$.xs.Index("2.000")`, `$.xs.Index("0.0")`, `$.xs.Index("1.50")`, "$.xs.Last()", "$.xs.Index($.xs.Count().Subtract(1))"} {
		c.Do(Case{Q: q, D: d, Cls: "round4/scaled-indexes", InDomain: !strings.Contains(q, `"`) && !strings.Contains(q, "three")})
	}
}

// C18: the counts of Left / Right / TrimLeft / TrimRight likewise
func r4ScaledCounts(c *Ctx) {
	d := tvMap("str", [][2]any{kv("s", tvStr("abcdefgh")), kv("two", &TV{T: "dec", C: "20", E: "-1"}), kv("zero", &TV{T: "dec", C: "0", E: "-3"}), kv("n", tvF64(8))})
	for _, f := range []string{"Left", "Right", "TrimLeft", "TrimRight"} {
		for _, a := range []string{"$.two", "$.zero", "$.n.Divide(4)", "$.n.Multiply(0.5)", "$.two.Add($.two)", "$.n.Divide(3)"} {
			c.Do(Case{Q: "$.s." + f + "(" + a + ")", D: d, Cls: "round4/scaled-counts", InDomain: true})
		}
	}
}

// C17: Select takes its query where it finds it, each time
func r4SelectFromData(c *Ctx) {
	mk := func(pick string) *TV {
		item := func(a, b float64) *TV { return tvMap("str", [][2]any{kv("a", tvF64(a)), kv("b", tvF64(b))}) }
		return tvMap("str", [][2]any{kv("xs", tvSlice(1, item(1, 2), item(3, 4))), kv("pick", tvStr(pick)),
			kv("groups", tvSlice(1, tvMap("str", [][2]any{kv("items", tvSlice(1, item(5, 6))), kv("pick", tvStr("$.a"))}), tvMap("str", [][2]any{kv("items", tvSlice(1, item(7, 8))), kv("pick", tvStr("$.b"))})))})
	}
	for round := 0; round < 2; round++ {
		for _, pick := range []string{"$.a", "$.b", "bad(", "$.a.Add(1)", "$", "$.b", "$.a"} {
			for _, q := range []string{"$.xs.Select($.pick)", "$.xs.Select($.pick).Count()", `$.groups.Select("$.items.Select($.pick)")`, "$.xs.Select($.pick).First()"} {
				c.Do(Case{Q: q, D: mk(pick), Cls: "round4/select-query-from-data", InDomain: pick != "bad("})
			}
		}
	}
}

// C18: text is compared byte by byte: a letter followed by a combining mark is not the precomposed letter
func r4CombiningMarks(c *Ctx) {
	vals := []string{"e\u0301cole", "Ame\u0301lie", "cafe\u0301", "caf\u00e9", "x\u1100\u1161", "x\uac00", "\u212b", "\u00c5", "A\u030a", "\u2126", "\u03a9", "a\u0323\u0308", "\u1ea1\u0308"}
	needles := []string{"e", "me", "\u0301", "\u00e9", "e\u0301", "\u1100", "\uac00", "\u00c5", "A", "\u212b", "\u03a9", "\u2126", "\u00e4", "\u1ea1", "\u0323", "caf"}
	for _, v := range vals {
		d := tvMap("str", [][2]any{kv("s", tvStr(v)), kv("p", tvStr("p"))})
		for _, n := range needles {
			dd := tvMap("str", [][2]any{kv("s", tvStr(v)), kv("p", tvStr(n))})
			for _, f := range []string{"Contains", "NotContains", "Prefix", "NotPrefix", "Suffix", "NotSuffix"} {
				c.Do(Case{Q: "$.s." + f + `("` + n + `")`, D: d, Cls: "round4/combining-marks", InDomain: true})
				c.Do(Case{Q: "$.s." + f + "($.p)", D: dd, Cls: "round4/combining-marks/path-argument", InDomain: true})
			}
			c.Do(Case{Q: `$.s.ReplaceAll("` + n + `","_")`, D: d, Cls: "round4/combining-marks", InDomain: true})
		}
		c.Do(Case{Q: "$.s.Left(2)", D: d, Cls: "round4/combining-marks", InDomain: false})
	}
}

// C19: a marked key is its name, whatever letters it is written in
func r4NonASCIIMarkedKeys(c *Ctx) {
	d := tvMap("str", [][2]any{kv("größe", tvMap("str", [][2]any{kv("höhe", tvF64(1)), kv("名前", tvStr("n")), kv("leer", tvNil())})), kv("日本", tvF64(2)), kv("é", tvStr("")), kv("grö", tvF64(9)), kv("ｶﾀｶﾅ", tvMap("str", [][2]any{kv("ﾃﾞｰﾀ", tvBool(true))}))})
	for _, p := range []string{"$.größe?", "$.größe?.höhe?", "$.größe.höhe?", "$.größe?.höhe", "$.größe?.名前?", "$.日本?", "$.é?", "$.grö?", "$.größe?.leer?", "$.größe?.fehlt?", "$.fehlt?.höhe?", "$.ｶﾀｶﾅ?.ﾃﾞｰﾀ?", "$.ｶﾀｶﾅ?.fehlt?", "$.größe?.höhe?.x?"} {
		for _, f := range []string{"", ".IsNull()", ".IsNotNull()", ".IsEmpty()", ".IsNullOrEmpty()", ".IsNotNullOrEmpty()", ".IsNotEmpty()"} {
			c.Do(Case{Q: p + f, D: d, Cls: "round4/non-ascii-marked-keys", InDomain: true})
		}
	}
}

// C02/C03: a nested group that reads only `$` is evaluated for the document in hand (the same query text on documents for which
// the group differs, in both orders: the kept operation of Ctx.keptCheck sees them one after the other)
func r4RootGroupsAcrossDocuments(c *Ctx) {
	mk := func(mode string, flag bool, lim float64) *TV {
		it := func(id float64, ok bool) *TV {
			return tvMap("str", [][2]any{kv("id", tvF64(id)), kv("ok", tvBool(ok))})
		}
		return tvMap("str", [][2]any{kv("mode", tvStr(mode)), kv("flag", tvBool(flag)), kv("lim", tvF64(lim)), kv("items", tvSlice(1, it(1, true), it(2, false), it(3, true)))})
	}
	docs := []*TV{mk("a", true, 2), mk("b", false, 0), mk("a", false, 3), mk("b", true, 1), mk("a", true, 0)}
	qs := []string{`$.items[{$.mode.Equal("a")},@.ok]`, `$.items[OR,{$.flag},@.id.Equal(2)]`, `$.items[{OR,$.flag,$.mode.Equal("b")}]`, "$.items[@.id.Greater($.lim)]", "$.items[{$.flag},{@.ok}].Count()",
		`$.items[@.ok.Equal({$.flag})]`, `{OR,{$.flag},$.mode.Equal("b")}`, `{AND,{$.flag,$.mode.Equal("a")}}`, `$.items[@.id.AnyOf($.lim,{$.flag})]`, `$.items[{{$.flag}}]`, `$.flag.Equal({$.mode.Equal("a")})`}
	for round := 0; round < 2; round++ {
		for i := range docs {
			d := docs[i]
			if round == 1 {
				d = docs[len(docs)-1-i]
			}
			for _, q := range qs {
				c.Do(Case{Q: q, D: d, Cls: "round4/root-groups-across-documents", InDomain: true})
			}
		}
	}
}

// round 5 -------------------------------------------------------------------------------------------------------------------------

// keys written in another letter case against maps whose key type is a named string type, or `any` holding named strings / strings
func r5RecasedKeysInKeyedMaps(c *Ctx) {
	doc := dObj("customer", dObj("city", dStr("Perth"), "zip", dNum("6000"), "Name", dStr("ann")), "Items", dArr(dObj("sku", dStr("a"), "qty", dNum("1")), dObj("SKU", dStr("b"), "qty", dNum("2"))), "n", dNum("3"))
	qs := []string{"$.customer.city", "$.Customer.City", "$.CUSTOMER.city", "$.customer.CITY", "$.customer.name", "$.customer.NAME", "$.items.sku", "$.ITEMS.Sku", "$.Items[@.QTY.Greater(1)].sku", "$.items.First().Sku",
		`$.Items.Select("$.Qty")`, "$.N.Add(1)", "$.customer.zip.Equal(6000)", "$.Customer.Zip", "$.customer.nosuch", "$.CUSTOMER.Nosuch?.IsNull()"}
	styles := []Style{{Obj: "map", Num: "f64"}, {Obj: "nmap", Num: "f64"}, {Obj: "imap", Num: "f64"}, {Obj: "inmap", Num: "f64"}, {Obj: "struct", Num: "f64"}}
	var names []string
	var ds []*TV
	for i := range styles {
		names = append(names, styles[i].Obj)
		ds = append(ds, render(doc, &styles[i]))
	}
	for _, q := range qs {
		c.sameAcross(q, names, ds, "round5/recased-keys-in-keyed-maps")
	}
}

// a list whose objects are carried differently from one another (a map, a struct, a pointer to a struct, a map behind `any`): a key
// stepped across it collects from every element that has it
func r5MixedObjectCarriers(c *Ctx) {
	m := func(name string, n float64) *TV {
		return tvMap("str", [][2]any{kv("name", tvStr(name)), kv("n", tvF64(n))})
	}
	st := func(name string, n float64) *TV {
		return tvStruct([][3]any{{"Name", 1, tvStr(name)}, {"N", 1, tvF64(n)}})
	}
	lists := map[string]*TV{
		"map-struct-ptr":    tvSlice(1, m("a", 1), st("b", 2), tvPtr(st("c", 3))),
		"struct-map-map":    tvSlice(1, st("a", 1), m("b", 2), m("c", 3)),
		"ptr-map-struct":    tvSlice(1, tvPtr(st("a", 1)), m("b", 2), st("c", 3)),
		"map-only-later":    tvSlice(1, tvMap("str", [][2]any{kv("other", tvF64(0))}), st("b", 2), tvPtr(st("c", 3))),
		"struct-only-later": tvSlice(1, tvStruct([][3]any{{"Other", 1, tvF64(0)}}), m("b", 2), m("c", 3)),
		"all-maps":          tvSlice(1, m("a", 1), m("b", 2), m("c", 3)),
	}
	for _, nm := range []string{"all-maps", "map-struct-ptr", "struct-map-map", "ptr-map-struct", "map-only-later", "struct-only-later"} {
		d := tvMap("str", [][2]any{kv("items", lists[nm])})
		for _, q := range []string{"$.items.name", "$.items.n", "$.items.n.Sum()", "$.items.name.Count()", "$.items[@.n.Greater(1)].name", `$.items.Select("$.name")`, "$.items.Last().name", "$.items.NAME"} {
			c.Do(Case{Q: q, D: d, Cls: "round5/mixed-object-carriers/" + nm, InDomain: true})
		}
	}
}

// text that reads as a number, held behind a pointer, is text (C10: the bare value of a key does not depend on the carrier)
func r5TextBehindPointers(c *Ctx) {
	vals := []string{"0012", "1e3", "-3.5", "12", "abc", ""}
	for _, v := range vals {
		plain := tvMap("str", [][2]any{kv("code", tvStr(v)), kv("items", tvSlice(1, tvMap("str", [][2]any{kv("ref", tvStr(v))}), tvMap("str", [][2]any{kv("ref", tvStr("x"))})))})
		ptrs := tvMap("str", [][2]any{kv("code", tvPtr(tvStr(v))), kv("items", tvSlice(1, tvMap("str", [][2]any{kv("ref", tvPtr(tvStr(v)))}), tvMap("str", [][2]any{kv("ref", tvPtr(tvStr("x")))})))})
		strct := tvStruct([][3]any{{"Code", 1, tvPtr(tvStr(v))}, {"Items", 1, tvSlice(1, tvStruct([][3]any{{"Ref", 1, tvPtr(tvStr(v))}}), tvStruct([][3]any{{"Ref", 1, tvPtr(tvNStr("x"))}}))}})
		named := tvMap("str", [][2]any{kv("code", tvPtr(tvNStr(v))), kv("items", tvSlice(1, tvMap("str", [][2]any{kv("ref", tvNStr(v))}), tvMap("str", [][2]any{kv("ref", tvStr("x"))})))})
		for _, q := range []string{"$.code", "$.items.ref", "$.items.First().ref", "$.items[@.ref.IsNotNull()].ref", `$.items.Select("$.ref")`} {
			c.sameAcross(q, []string{"plain", "pointers", "struct-with-pointer-fields", "named-behind-pointer"}, []*TV{plain, ptrs, strct, named}, "round5/text-behind-pointers")
		}
	}
}

// a filter applied to a single object: `$` inside its body (in a nested group or an argument) is the data the whole query was given,
// `@` the object
func r5FiltersOnSingleObjects(c *Ctx) {
	mk := func(enabled bool, wanted, n float64, paid bool, inner bool) *TV {
		return tvMap("str", [][2]any{kv("enabled", tvBool(enabled)), kv("wanted", tvF64(wanted)), kv("limit", tvF64(wanted)),
			kv("order", tvMap("str", [][2]any{kv("paid", tvBool(paid)), kv("n", tvF64(n)), kv("enabled", tvBool(inner)), kv("limit", tvF64(99))})),
			kv("rec", tvStruct([][3]any{{"Paid", 1, tvBool(paid)}, {"N", 1, tvF64(n)}})), kv("list", tvSlice(1, tvMap("str", [][2]any{kv("paid", tvBool(paid)), kv("n", tvF64(n))})))})
	}
	for _, d := range []*TV{mk(true, 3, 3, true, false), mk(false, 3, 3, true, true), mk(true, 2, 3, false, true), mk(false, 5, 5, false, false)} {
		for _, q := range []string{"$.order[AND,{$.enabled},@.paid]", "$.order[@.paid.Equal({$.enabled})]", "$.order[@.n.Equal($.wanted)]", "$.order[@.n.Equal($.limit)]", "$.order[OR,{$.enabled},@.paid]", "$.order[{$.enabled}]",
			"$.rec[@.n.Equal($.wanted)]", "$.rec[AND,{$.enabled},@.paid]", "$.list[@.n.Equal($.wanted)]", "$.list[AND,{$.enabled},@.paid]", "$.order[@.n.Equal($.order.n)]", "$.order[@.limit.Greater($.limit)]",
			"{$.order[{$.enabled}].IsNotNull()}", "$.order[@.paid][@.n.Equal($.wanted)]"} {
			c.Do(Case{Q: q, D: d, Cls: "round5/filters-on-single-objects", InDomain: !strings.Contains(q, "][")})
		}
	}
}

// values held behind two pointers, behind a pointer to an interface variable (*any), and behind both: numbers, texts, booleans,
// lists - as receivers, as arguments, as operands of groups and conditions of filters
func r5DeepCarriers(c *Ctx) {
	wraps := []struct {
		name string
		w    func(*TV) *TV
	}{{"plain", func(t *TV) *TV { return t }}, {"ptr", tvPtr}, {"ptr-ptr", func(t *TV) *TV { return tvPtr(tvPtr(t)) }}, {"ptr-any", tvPtrAny},
		{"ptr-ptr-any", func(t *TV) *TV { return tvPtr(tvPtrAny(t)) }}, {"ptr-any-ptr", func(t *TV) *TV { return tvPtrAny(tvPtr(t)) }}}
	qs := []string{"$.n.Equal(10)", "$.n.Less(10.5)", "$.n.Greater($.m)", "$.m.Equal($.n)", "$.n.AnyOf(3,$.m,10)", "$.n.Add($.m)", "$.n", "$.m.NotEqual($.n)", "$.ns.Sum()", "$.ns.First()", "$.n.LessOrEqual($.ns.Last())",
		"{AND,$.yes}", "{OR,$.no,$.yes}", "$.yes.Equal({OR,$.no,$.yes})", "$.rows[@.ok]", "$.rows[@.ok.Equal($.yes)].Count()", "{$.yes,$.no}", "$.no.Not()",
		`$.s.Prefix("he")`, `$.s.Contains($.p)`, "$.s.Left(2)", `$.s.ReplaceAll($.p,"X")`, `$.s.Suffix(@.Right(2))`, "$.s.IsEmpty()", "$.s", "$.p.IsNull()", `$.s.Equal("hello")`, "$.s.Equal($.s)",
		"$.o.k", "$.o.k.Add(1)", "$.rows.ok", "$.rows.Count()", "$.o.IsEmpty()", "$.nothing?.IsNull()", "$.n.IsNull()", "$.yes.IsEmpty()"}
	plain := map[string]string{}
	for _, w := range wraps {
		d := tvMap("str", [][2]any{kv("n", w.w(tvInt("int", "10"))), kv("m", w.w(tvF64(2.5))), kv("ns", w.w(tvSlice(1, w.w(tvF64(1)), w.w(tvInt("int64", "12"))))),
			kv("yes", w.w(tvBool(true))), kv("no", w.w(tvBool(false))), kv("rows", tvSlice(1, tvMap("str", [][2]any{kv("ok", w.w(tvBool(true)))}), tvMap("str", [][2]any{kv("ok", w.w(tvBool(false)))}))),
			kv("s", w.w(tvStr("hello"))), kv("p", w.w(tvStr("ll"))), kv("o", w.w(tvMap("str", [][2]any{kv("k", w.w(tvF64(7)))})))})
		for _, q := range qs {
			o := c.Do(Case{Q: q, D: d, Cls: "round5/deep-carriers/" + w.name, InDomain: true})
			got := o.Class
			if o.Class == "ok" {
				got = o.Logical
			}
			if w.name == "plain" {
				plain[q] = got
				continue
			}
			// pointers to interface variables are outside the model's values: what a function answers about a number, a truth value or a
			// text behind one is what it answers about the value itself
			if strings.Contains(w.name, "any") && (strings.HasSuffix(q, ")") || strings.HasSuffix(q, "}")) && !strings.HasPrefix(q, "$.o.") && got != plain[q] {
				c.addViolation(Violation{Kind: "carrier-dependence", Query: q, QueryHex: hx(q), Data: d, Expected: trunc(plain[q], 300), Got: trunc(got, 300), Cls: "round5/deep-carriers/" + w.name,
					Why: "the values behind pointers to interface variables give another answer than the values themselves", Key: "carrier:round5/deep-carriers/" + w.name + ":" + lastFunc(q)})
			}
		}
		st := tvStruct([][3]any{{"N", 1, w.w(tvInt("int", "10"))}, {"M", 1, w.w(tvF64(2.5))}, {"Yes", 1, w.w(tvBool(true))}, {"No", 1, w.w(tvBool(false))}, {"S", 1, w.w(tvStr("hello"))}, {"P", 1, w.w(tvStr("ll"))}})
		for _, q := range []string{"$.n.Equal(10)", "$.n.Less($.m)", "$.m.Equal($.n)", "{OR,$.no,$.yes}", `$.s.Contains($.p)`, "$.s.Left(2)", "$.n", "$.s", "$.yes"} {
			c.Do(Case{Q: q, D: st, Cls: "round5/deep-carriers/struct/" + w.name, InDomain: true})
		}
	}
}

// the document itself addressed by a bare `@` (at the top level it is the document, like `$`): a number comes back as a decimal
func r5BareAtQueries(c *Ctx) {
	for _, d := range []*TV{tvInt("uint64", "18446744073709551615"), tvInt("int8", "-128"), tvInt("int", "42"), tvF64(2.5), tvF32(0.1, 2), tvSInt("int64", "1500"), tvPtr(tvInt("uint64", "9223372036854775808")),
		tvPtr(tvF64(-0.75)), &TV{T: "int", K: "int64", N: 1, V: "7"}, tvDec(decimal.RequireFromString("12.50")), tvStr("abc"), tvBool(true), tvNil()} {
		for _, q := range []string{"@", " @ ", "$", "@.Add(0)", "{@.IsNotNull()}"} {
			c.Do(Case{Q: q, D: d, Cls: "round5/bare-at-queries", InDomain: true})
		}
	}
}

// `@` in an argument is the value the function is applied to (not the document)
func r5AtArguments(c *Ctx) {
	d := tvMap("str", [][2]any{kv("s", tvStr("hello")), kv("t", tvStr("lo")), kv("xs", tvSlice(1, tvMap("str", [][2]any{kv("s", tvStr("abcab")), kv("p", tvStr("ab"))}), tvMap("str", [][2]any{kv("s", tvStr("xyz")), kv("p", tvStr("z"))})))})
	for _, q := range []string{`$.s.Suffix(@.Right(2))`, `$.s.NotContains(@)`, `$.s.Contains(@)`, `$.s.ReplaceAll(@.Left(1),"X")`, `$.s.DoesMatchRegex(@.Left(1))`, `$.s.Prefix(@.Left(3))`, `$.s.NotPrefix(@.Right(1))`,
		`$.s.ReplaceRegex(@.Left(2),"_")`, `$.s.Equal(@)`, `$.s.Suffix($.t)`, `$.xs[@.s.Prefix(@.Left(2))].Count()`, `$.xs[@.s.Suffix(@.Right(1))].p`, `$.xs.Select("$.s.Contains(@.Left(2))")`, `$.s.Left(@.Right(1).Equal("o").Not().IsEmpty().Equal(true).Count())`} {
		c.Do(Case{Q: q, D: d, Cls: "round5/at-arguments", InDomain: true})
	}
}

// struct types whose layout is not the list of their exported fields: a leading unexported field, an unexported twin of an exported
// field declared before it (and after it), only unexported fields
func r5StructLayouts(c *Ctx) {
	d := tvMap("str", [][2]any{kv("f", tvUnexp("F", tvInt("int", "9"), tvInt("int", "3"), tvStr("kf"))), kv("d", tvUnexp("D", tvInt("int", "1"), tvStr("acc"), tvStr("n"))), kv("d2", tvUnexp("D2", tvStr("acc"), tvInt("int", "1"), tvStr("n"))),
		kv("a", tvUnexp("A", tvInt("int", "1"), tvInt("int", "2"))), kv("o", tvUnexp("only", tvInt("int", "5"))), kv("z", tvUnexp("F", tvInt("int", "0"), tvInt("int", "0"), tvStr(""))),
		kv("list", tvSlice(1, tvUnexp("D", tvInt("int", "1"), tvStr("x"), tvStr("n1")), tvUnexp("D2", tvStr("y"), tvInt("int", "2"), tvStr("n2")), tvUnexp("F", tvInt("int", "1"), tvInt("int", "2"), tvStr("k"))))})
	for _, base := range []string{"$.f", "$.d", "$.d2", "$.a", "$.o", "$.z"} {
		for _, fn := range []string{"IsEmpty()", "IsNotEmpty()", "IsNullOrEmpty()", "IsNotNullOrEmpty()", "IsNull()", "IsNotNull()", "Sum()", `Select("$").Count()`, "AsJSON()"} {
			c.Do(Case{Q: base + "." + fn, D: d, Cls: "round5/struct-layouts/whole-object", InDomain: true})
		}
	}
	for _, q := range []string{"$.d.id", "$.d.ID", "$.d.id?.IsNull()", "$.d.id.IsNull()", "$.d.Id?.IsNotNull()", "$.d2.id", "$.d2.id?.IsNull()", "$.d.name", "$.d.name?.IsNull()", "$.f.k", "$.f.a", "$.f.hidden", "$.f.hidden?.IsNull()",
		"$.a.a", "$.a.A", "$.o.only", "$.o.only?.IsNull()", "$.list.id", "$.list.ID", "$.list.name", "$.list.k", "$.list[@.id?.IsNotNull()].Count()", "$.list[@.name?.IsNull()].Count()", `$.list.Select("$.id")`} {
		c.Do(Case{Q: q, D: d, Cls: "round5/struct-layouts/keys", InDomain: true})
	}
}

// C07: the floats that no decimal can hold, in every place a number can sit (Go data, and the literals YAML and TOML have for them)
func r5NonFiniteNumbers(c *Ctx) {
	for _, f := range []float64{math.Inf(-1), math.Inf(1), math.NaN()} {
		row := func(n string, d float64) *TV {
			return tvStruct([][3]any{{"Name", 1, tvStr(n)}, {"Delta", 1, tvF64(d)}})
		}
		docs := []*TV{tvMap("str", [][2]any{kv("x", tvF64(f)), kv("n", tvF64(1)), kv("l", tvSlice(1, tvF64(f), tvF64(1))), kv("t", tvSlice(0, tvF64(1), tvF64(f)))}),
			tvMap("str", [][2]any{kv("x", tvPtr(tvF64(f))), kv("n", tvF64(1)), kv("l", tvSlice(1, tvF64(1), tvF64(f))), kv("t", tvSlice(0, tvF64(f)))}),
			tvMap("str", [][2]any{kv("x", tvF32(float32(f), 2)), kv("n", tvF64(1)), kv("l", tvSlice(1)), kv("t", tvSlice(0))}),
			tvStruct([][3]any{{"X", 1, tvF64(f)}, {"N", 1, tvF64(1)}, {"L", 1, tvSlice(0, row("a", 1), row("b", f))}, {"T", 1, tvSlice(0, tvF64(f))}})}
		for _, d := range docs {
			for _, q := range []string{"$.x", "$.x.IsNull()", "$.l.First()", "$.l.Last()", "$.l.Count()", "$.l.Sum()", "$.t.Sum()", "$.t.Maximum()", "$.n.Add($.x)", "$.x.Add(1)", "$.x.Equal($.x)", "$.x.Less(1)", "$.n.AnyOf($.x)",
				"$.l.delta", "$.l[@.name.Equal(\"b\")].First().delta.AsJSON()", "$.l.Select(\"@.delta\")", "$.AsJSON()", "$.x.AsJSON()", "$.Sum()", "$.x.Sprintf(\"%v\")", "$.t.Index($.x)", "$.t.Average()", "{$.x}", "$.l[@.Equal($.x)]"} {
				c.Do(Case{Q: q, D: d, Cls: "round5/non-finite-numbers", InDomain: false})
			}
		}
	}
	for _, doc := range []string{"x: -.inf\n", "x: .inf\n", "x: .nan\n", "l: [1, -.inf]\n", "x = -inf\n", "x = inf\n", "x = nan\n", "l = [1.0, -inf]\n"} {
		for _, q := range []string{"$.ParseYAML().x", "$.ParseYAML().l.Sum()", "$.ParseYAML().x.Add(1)", "$.ParseTOML().x", "$.ParseTOML().l.Sum()", "$.ParseTOML().x.Add(1)", "$.ParseYAML()", "$.ParseTOML()", "$.ParseYAML().x.AsJSON()"} {
			c.Do(Case{Q: q, D: tvStr(doc), Cls: "round5/non-finite-numbers/parsed", InDomain: false})
		}
	}
}

// C07: YAML mappings below the top whose keys are not strings (numbers, null, the YAML 1.1 words yes/no/on/off)
func r5YAMLKeysThatAreNotStrings(c *Ctx) {
	for _, doc := range []string{"retries:\n  404: 0\n  503: 3\n", "country:\n  no: Norway\n  se: Sweden\n", "jobs:\n  on: push\n  name: build\n", "m:\n  ~: nothing\n  a: 1\n", "m: {1.5: x}\n", "rows:\n  - {1: a, 2: b}\n",
		"a:\n  b:\n    7: x\n", "m: {yes: 1}\n", "m: {[1, 2]: x}\n", "m: {{a: 1}: x}\n", "m:\n  2001-01-01: d\n", "m: {0x10: x, 0o7: y, -1: z}\n", "a:\n  b: 1\n  \"2\": x\n  'no': y\n"} {
		for _, q := range []string{"$.ParseYAML()", "$.ParseYAML().retries", "$.ParseYAML().country", "$.ParseYAML().jobs", "$.ParseYAML().m", "$.ParseYAML().rows.First()", "$.ParseYAML().a.b", "$.ParseYAML().m.IsNotNull()", "$.ParseYAML().AsJSON()",
			"$.ParseYAML().m.Count()"} {
			c.Do(Case{Q: q, D: tvStr(doc), Cls: "round5/yaml-keys-that-are-not-strings", InDomain: false})
		}
		d := tvMap("str", [][2]any{kv("docs", tvSlice(1, tvStr(doc)))})
		for _, q := range []string{"$.docs.Select(\"@.ParseYAML().m\")", "$.docs[@.ParseYAML().m.IsNotNull()]", "$.docs.First().ParseYAML()"} {
			c.Do(Case{Q: q, D: d, Cls: "round5/yaml-keys-that-are-not-strings", InDomain: false})
		}
	}
}

// C11: the answer - a value or an error, its text included - is the same on a second document equal to the first (built apart from
// it: other addresses) and on the first again
func r5AnswersOnEqualCopies(c *Ctx) {
	dims := func(w int, u string) *TV {
		return tvPtr(tvStruct([][3]any{{"Weight", 1, tvPtr(tvInt("int", fmt.Sprint(w)))}, {"Unit", 1, tvPtr(tvStr(u))}}))
	}
	item := func(n string, w int) *TV {
		return tvStruct([][3]any{{"Name", 1, tvStr(n)}, {"Dims", 1, dims(w, "kg")}})
	}
	docs := []*TV{
		tvPtr(tvStruct([][3]any{{"Ref", 1, tvStr("r1")}, {"Item", 1, item("box", 7)}, {"Items", 1, tvSlice(0, tvPtr(item("a", 9)))}, {"F", 1, &TV{T: "func"}}, {"Ch", 1, &TV{T: "chan"}}, {"M", 1, tvMap("str", [][2]any{kv("p", tvPtr(tvInt("int", "3")))})}})),
		tvMap("str", [][2]any{kv("ref", tvStr("r1")), kv("item", tvPtr(item("box", 7))), kv("items", tvSlice(1, tvPtr(item("a", 9)), tvPtr(tvPtr(tvInt("int", "4"))))), kv("f", &TV{T: "func"}), kv("ch", &TV{T: "chan"}),
			kv("m", tvMap("iface", [][2]any{kv("p", tvPtr(tvPtr(tvStr("s"))))}))}),
	}
	for _, d := range docs {
		for _, q := range []string{"$.ref.Equal($.item)", "$.ref.AnyOf($.items)", "$.ref.Equal($.item.name)", "$.ref.Equal($.f)", "$.ref.Equal($.ch)", "$.ref.AnyOf($.m)", "$.ref.Contains($.item)", "$.ref.Add($.items)", "$.item.dims.weight.Add($.item)",
			"$.ref.Sprintf($.item)", "$.ref.Equal($.items.First())", "$.ref.Equal($.item.dims)", "$.item.dims.weight.Less($.m)", "$.items.Index($.item)", "$.ref.Left($.item.dims)", "$.ref.Equal($.m.p)", "$.item", "$.items", "$.m", "$.item.Equal($.item)",
			"$.nosuch.Equal($.item)", "$.ref.NoSuch($.item)", "$.items.Select($.item)", "$.ref.ReplaceAll($.item,$.items)", "$.item.AsJSON()", "$.AsJSON()"} {
			a, b := buildAny(d), buildAny(d)
			o1, o2, o3 := runCase(q, a), runCase(q, b), runCase(q, a)
			c.Do(Case{Q: q, D: d, Cls: "round5/answers-on-equal-copies", InDomain: false})
			same := func(x, y Outcome) bool {
				if x.Class != y.Class || x.Msg != y.Msg {
					return false
				}
				return x.Class != "ok" || x.Logical == y.Logical
			}
			if !same(o1, o2) || !same(o1, o3) {
				got := o2
				if same(o1, o2) {
					got = o3
				}
				c.addViolation(Violation{Kind: "nondeterminism", Query: q, QueryHex: hx(q), Data: d, Expected: trunc(o1.Class+" "+o1.Logical+" "+o1.Msg, 300), Got: trunc(got.Class+" "+got.Logical+" "+got.Msg, 300), Cls: "round5/answers-on-equal-copies",
					Why: "the same operation on an equal document (or on the same document again) gives another answer", Key: "nondet:equal-copies:" + lastFunc(q)})
			}
		}
	}
}
