module mpv

go 1.21

require (
	cuelang.org/go v0.8.1
	github.com/machship/mpath v0.0.0
	github.com/pelletier/go-toml/v2 v2.0.5
	github.com/shopspring/decimal v1.3.1
	gopkg.in/yaml.v2 v2.4.0
)

require (
	github.com/basgys/goxml2json v1.1.0 // indirect
	github.com/cockroachdb/apd/v3 v3.2.1 // indirect
	github.com/google/go-cmp v0.6.0 // indirect
	github.com/google/uuid v1.2.0 // indirect
	github.com/pkg/errors v0.9.1 // indirect
	golang.org/x/net v0.22.0 // indirect
	golang.org/x/text v0.14.0 // indirect
	gopkg.in/yaml.v3 v3.0.1 // indirect
)

replace github.com/machship/mpath => /repo
