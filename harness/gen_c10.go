package main

// C10: results do not depend on the Go carrier types. One logical document (rectangular arrays of objects) is
// rendered in many carriers; the same data-directed query must give the same logical answer on each of them.
// Relational oracle on the implementation's own answers; every (query, rendering) is also a case for the model.

import (
	"bytes"
	"encoding/json"
	"fmt"
	"strings"

	toml "github.com/pelletier/go-toml/v2"
	yaml "gopkg.in/yaml.v2"
)

func init() { evalGens["C10"] = genC10 }

var c10Keys = []string{"a", "b", "c", "k", "xs", "o", "s", "n"}
var c10Strs = []string{"", "abc", "abcDEF", "x", "hello"}
var c10NumStrs = []string{"12", "0123", "1e3", "-0.50"}
var c10Nums = []string{"0", "1", "-1", "1.5", "2", "3", "10", "0.1", "100", "-7.25"}

func c10Leaf(r *rng, numerals bool) *Doc {
	switch r.Intn(6) {
	case 0:
		return dNull()
	case 1:
		return dBool(r.Bool())
	case 2:
		if numerals && r.Intn(3) == 0 {
			return dStr(r.Pick(c10NumStrs))
		}
		return dStr(r.Pick(c10Strs))
	default:
		return dNum(r.Pick(c10Nums))
	}
}

func c10Doc(r *rng, depth int, numerals bool) *Doc {
	switch {
	case depth <= 0 || r.Intn(10) < 4:
		return c10Leaf(r, numerals)
	case r.Intn(3) == 0:
		n := r.Intn(4)
		kind := r.Intn(4)
		var proto *Doc
		if kind >= 2 {
			proto = c10Obj(r, depth-1, numerals)
		}
		xs := []*Doc{}
		for i := 0; i < n; i++ {
			switch kind {
			case 3: // a list of lists of objects (rows of cells)
				row := []*Doc{}
				for j := 0; j < 1+r.Intn(2); j++ {
					o := &Doc{K: 'o'}
					for _, k := range proto.Keys {
						o.Keys = append(o.Keys, k)
						o.Vals = append(o.Vals, c10Leaf(r, numerals))
					}
					row = append(row, o)
				}
				xs = append(xs, &Doc{K: 'a', A: row})
			case 0:
				xs = append(xs, dNum(r.Pick([]string{"0", "1", "2", "3.5", "-4"})))
			case 1:
				xs = append(xs, dStr(r.Pick([]string{"a", "b", "abc"})))
			default: // rectangular: same keys, fresh scalar values
				o := &Doc{K: 'o'}
				for _, k := range proto.Keys {
					o.Keys = append(o.Keys, k)
					o.Vals = append(o.Vals, c10Leaf(r, numerals))
				}
				xs = append(xs, o)
			}
		}
		return &Doc{K: 'a', A: xs}
	default:
		return c10Obj(r, depth, numerals)
	}
}

func c10Obj(r *rng, depth int, numerals bool) *Doc {
	n := 1 + r.Intn(4)
	used := map[string]bool{}
	d := &Doc{K: 'o'}
	for i := 0; i < n; i++ {
		k := r.Pick(c10Keys)
		if used[k] {
			continue
		}
		used[k] = true
		d.Keys = append(d.Keys, k)
		d.Vals = append(d.Vals, c10Doc(r, depth-1, numerals))
	}
	return d
}

func c10HasNull(d *Doc) bool {
	switch d.K {
	case 'z':
		return true
	case 'a':
		for _, x := range d.A {
			if c10HasNull(x) {
				return true
			}
		}
	case 'o':
		for _, x := range d.Vals {
			if c10HasNull(x) {
				return true
			}
		}
	}
	return false
}

func c10Hetero(d *Doc) bool { // arrays whose elements have different kinds, or empty arrays (TOML cannot carry them faithfully)
	switch d.K {
	case 'a':
		if len(d.A) == 0 {
			return true
		}
		for _, x := range d.A {
			if x.K != d.A[0].K || c10Hetero(x) {
				return true
			}
		}
	case 'o':
		for _, x := range d.Vals {
			if c10Hetero(x) {
				return true
			}
		}
	}
	return false
}

type c10Rendering struct {
	name string
	st   Style
}

func genC10(c *Ctx) {
	r := c.R
	c.Rule = "random JSON-like documents with rectangular arrays of objects (depth ≤3), each with 5 data-directed queries; every query is evaluated on the json rendering (map[string]any/[]any/float64) and on 12 re-renderings of the same document (integer kinds, decimal.Decimal, named types, pointers to numbers, Go arrays, typed slices, StructOf structs, map[NString]any, map[any]any, objects behind pointers, mixed number carriers, named number types with a String method, a named type over decimal.Decimal; the float32 rounding of the document as plain float32 / named float32 / *float32 (compared with each other), and the document's JSON/YAML/TOML text parsed inside the query); oracle: equal logical result (keys case-folded, numbers by value). Sprintf serialises the carrier by design and is excluded; AsJSON (appended to the first query of every document: a serialisation of whatever sub-document the query reached, incl. lists of lists of objects) is compared between the json maps and the JSON/YAML/TOML text carriers only; RemoveKeysBy* is excluded on the struct rendering (a case-sensitive pattern meets the capitalised field name: an ambiguity of the re-representation itself). distinct = distinct (query skeleton, data shape, outcome class); non-trivial = outcome is not the most common class"
	rends := []c10Rendering{
		{"int-kinds", Style{Obj: "map", Num: "int", R: r}},
		{"decimal", Style{Obj: "map", Num: "dec"}},
		{"named", Style{Obj: "map", Num: "named", NamedS: true}},
		{"ptr-numbers", Style{Obj: "map", Num: "ptr"}},
		{"go-arrays", Style{Obj: "map", Num: "f64", Array: true}},
		{"typed-slices", Style{Obj: "map", Num: "int", Typed: true, R: r}},
		{"typed-named", Style{Obj: "map", Num: "named", Typed: true, NamedS: true}},
		{"struct", Style{Obj: "struct", Num: "f64"}},
		{"struct-int", Style{Obj: "struct", Num: "int", Typed: true, R: r}},
		{"named-key-map", Style{Obj: "nmap", Num: "f64"}},
		{"iface-key-map", Style{Obj: "imap", Num: "f64"}},
		{"iface-named-key-map", Style{Obj: "inmap", Num: "f64"}},
		{"ptr-objects", Style{Obj: "map", Num: "f64", PtrObj: true}},
		{"stringer-numbers", Style{Obj: "map", Num: "stringer"}},
		{"named-decimal", Style{Obj: "map", Num: "ndec"}},
		{"mixed", Style{Obj: "map", Num: "mixed", R: r}},
	}
	n := c.scale(2600, 26000)
	comparisons := 0
	for i := 0; i < n; i++ {
		numerals := i%5 == 4 // a separate class with numeral strings in the data
		doc := c10Obj(r, 3, numerals)
		base := render(doc, &Style{Obj: "map", Num: "f64"})
		baseVal := buildAny(base)
		var jsonText, yamlText, tomlText string
		if b, err := json.Marshal(baseVal); err == nil {
			jsonText = string(b)
		}
		if b, err := yaml.Marshal(baseVal); err == nil {
			yamlText = string(b)
		}
		if !c10HasNull(doc) && !c10Hetero(doc) {
			var buf bytes.Buffer
			if err := toml.NewEncoder(&buf).Encode(baseVal); err == nil {
				tomlText = buf.String()
			}
		}
		for j := 0; j < 5; j++ {
			q := genDirected("$", base, 2)
			if strings.Contains(q, "Sprintf") || strings.Contains(q, "Parse") {
				continue
			}
			if strings.Contains(q, "AsJSON") && j > 0 {
				continue
			}
			if j == 0 && !strings.Contains(q, "AsJSON") {
				// the first query of every document ends in a serialisation of whatever it reached: compared on the text carriers only
				// (AsJSON serialises the Go carrier by design, so the in-memory re-renderings are not comparable)
				if strings.HasSuffix(q, ")") || !strings.Contains(q, "(") {
					q += ".AsJSON()"
				}
			}
			serialises := strings.Contains(q, "AsJSON")
			cls := "json"
			if numerals {
				cls = "json/numeral-strings"
			}
			want := c.Do(Case{Q: q, D: base, Cls: cls, InDomain: true})
			if want.Class == "PARSE-ERR" {
				continue
			}
			wantL := want.Class
			if want.Class == "ok" {
				wantL = want.Logical
			}
			check := func(name string, got Outcome, data *TV, q2 string) {
				comparisons++
				gotL := got.Class
				if got.Class == "ok" {
					gotL = got.Logical
				}
				if gotL != wantL {
					c.addViolation(Violation{Kind: "relational", Query: q2, QueryHex: hx(q2), Data: data, Expected: wantL, Got: gotL,
						Why: "the same document rendered as " + name + " gives a different logical result than as json maps", Cls: name,
						Key: "carrier:" + name + ":" + lastFunc(q), Extra: map[string]any{"json_data": base, "json_query": q}})
				}
			}
			for _, rd := range rends {
				if serialises {
					break
				}
				if strings.HasPrefix(rd.name, "struct") && strings.Contains(q, "RemoveKeysBy") {
					continue
				}
				st := rd.st
				d2 := render(doc, &st)
				got := c.Do(Case{Q: q, D: d2, Cls: rd.name, InDomain: true})
				check(rd.name, got, d2, q)
			}
			// 32-bit floats: the document with every number rounded to float32 is another document, but it is the same one whether
			// the floats are plain float32, a named float32 type or *float32
			if !serialises {
				ref := render(doc, &Style{Obj: "map", Num: "f32"})
				refOut := c.Do(Case{Q: q, D: ref, Cls: "float32", InDomain: true})
				refL := refOut.Class
				if refOut.Class == "ok" {
					refL = refOut.Logical
				}
				for _, alt := range []struct{ name, num string }{{"named-float32", "nf32"}, {"ptr-float32", "pf32"}} {
					d2 := render(doc, &Style{Obj: "map", Num: alt.num})
					got := c.Do(Case{Q: q, D: d2, Cls: alt.name, InDomain: true})
					gotL := got.Class
					if got.Class == "ok" {
						gotL = got.Logical
					}
					comparisons++
					if gotL != refL {
						c.addViolation(Violation{Kind: "relational", Query: q, QueryHex: hx(q), Data: d2, Expected: refL, Got: gotL,
							Why: "the same document of 32-bit floats carried as " + alt.name + " gives a different logical result than as plain float32", Cls: alt.name,
							Key: "carrier:" + alt.name + ":" + lastFunc(q), Extra: map[string]any{"float32_data": ref}})
					}
				}
			}
			// the document's own text, parsed inside the query (only when `$` occurs once: inner `$` would mean the wrapper)
			if strings.Count(q, "$") == 1 && strings.HasPrefix(q, "$") {
				for _, tx := range []struct{ name, fn, text string }{{"json-text", "ParseJSON", jsonText}, {"yaml-text", "ParseYAML", yamlText}, {"toml-text", "ParseTOML", tomlText}} {
					if tx.text == "" {
						continue
					}
					q2 := "$.t." + tx.fn + "()" + q[1:]
					d2 := tvMap("str", [][2]any{{hx("t"), tvStr(tx.text)}})
					got := c.Do(Case{Q: q2, D: d2, Cls: tx.name, InDomain: true})
					check(tx.name, got, d2, q2)
				}
			}
		}
	}
	// YAML written in block style and in flow style (which is also JSON) is the same document: whole numbers beyond 2^53 included
	for i := 0; i < 40; i++ {
		big := []int64{9007199254740993, 18014398509481985, 1234567890123456789, -9007199254740995, 9223372036854775807, 4611686018427387905}
		a, b2, c2 := big[i%6], big[(i+1)%6], big[(i+3)%6]
		val := map[string]any{"id": a, "ids": []any{a, b2, int64(i)}, "o": map[string]any{"n": c2, "s": "x"}, "rows": []any{map[string]any{"k": b2}, map[string]any{"k": c2}}}
		blockB, err1 := yaml.Marshal(val)
		flowB, err2 := json.Marshal(val)
		if err1 != nil || err2 != nil {
			continue
		}
		d2 := tvMap("str", [][2]any{{hx("block"), tvStr(string(blockB))}, {hx("flow"), tvStr(string(flowB))}})
		for _, tail := range []string{".id", ".ids.First()", ".ids.Sum()", ".ids.Last().Add(1)", ".o.n.Subtract(1)", ".rows.k", ".rows.k.Maximum()", ".id.Equal(" + fmt.Sprint(a) + ")", ".ids[@.Greater(100)]", ".o"} {
			ob := c.Do(Case{Q: "$.block.ParseYAML()" + tail, D: d2, Cls: "yaml-block", InDomain: true})
			of := c.Do(Case{Q: "$.flow.ParseYAML()" + tail, D: d2, Cls: "yaml-flow", InDomain: true})
			comparisons++
			lb, lf := ob.Class, of.Class
			if ob.Class == "ok" {
				lb = ob.Logical
			}
			if of.Class == "ok" {
				lf = of.Logical
			}
			if lb != lf {
				c.addViolation(Violation{Kind: "relational", Query: "$.flow.ParseYAML()" + tail, QueryHex: hx("$.flow.ParseYAML()" + tail), Data: d2, Expected: lb, Got: lf,
					Why: "the same YAML document written in flow style (JSON-compatible) gives a different logical result than written in block style", Cls: "yaml-flow",
					Key: "carrier:yaml-flow:" + lastFunc(tail)})
			}
		}
	}
	c.Extra["comparisons"] = comparisons
	_ = fmt.Sprint
}
