package main

// Deterministic blocks added in the sixth round. Like those of gen_round4.go they draw no random numbers and run before the
// generator of the property; every case is in the domain, so the model decides unless an expectation is given.

import (
	"encoding/json"
	"errors"
	"fmt"
	"math"
	"reflect"
	"strings"

	"github.com/machship/mpath"

	"github.com/shopspring/decimal"
)

// round6pre: blocks about what a FIRST failure leaves behind in the process; they run before everything else
func round6pre(c *Ctx) {
	switch c.Prop {
	case "C11":
		r6AsJSONAfterFailure(c)
	}
}

func round6(c *Ctx) {
	switch c.Prop {
	case "C07", "C10":
		r6AsJSON(c)
		r6SelfMarshallingCarriers(c)
		if c.Prop == "C10" {
			r8ObjectsOfNumbers(c)
			r8NullEntriesAcrossCarriers(c)
			r8ObjectsKeyedByAny(c)
			r9ListsOfBytesAndTaggedFields(c)
			r9EmptyObjectsAcrossCarriers(c)
			r10OneQueryAfterAnother(c)
			r12KeysWhoseOtherCaseHasAnotherLength(c)
			r12WideUnsignedAcrossCarriers(c)
		}
	case "C05":
		r6NumbersKeptAsText(c)
		r6HugeUnsigned(c)
		r8SmallFloats(c)
		r9ListsThatWereNeverAllocated(c)
		r12NumeralsThatStartWithADot(c)
		r12TextWithBytesThatAreNotUTF8(c)
	case "C06":
		r12WideUnsignedAcrossCarriers(c)
	case "C04":
		r12SignedNumeralTextAsOperands(c)
		r8ObjectsOfNumbers(c)
		r9ListsOfBytesAndTaggedFields(c)
	case "C01":
		r9KeysThatAreNumerals(c)
		r11ListsOfMixedObjects(c)
	case "C18":
		r8NeedlesEndingInAQuote(c)
	case "C17":
		r6KeysThatFoldTogetherAcrossElements(c)
		r10ElementsThatAreAllZero(c)
		r11ListsOfMixedObjects(c)
	case "C19":
		r12KeysWhoseOtherCaseHasAnotherLength(c)
		r12NumbersWhoseCoefficientIsAMultipleOfTwoToThe64(c)
		r6NilThenSetStructPointers(c)
		r6AllZeroStructs(c)
		r6PaddedZeroNumerals(c)
		r8ObjectsKeyedByAny(c)
	case "C02", "C03":
		r12PrimitivesThatPrintAlike(c)
		r6NullElementsUnderFilters(c)
		r8RunsOfFilters(c)
		r8ObjectsOfObjectsUnderFilters(c)
		r8FieldsThatFoldTogetherAsOperands(c)
	case "C11":
		r6AsJSON(c)
		r6ObjectValuedArguments(c)
		r8FreshParsesOfEscapedBackslashes(c)
	}
}

// AsJSON is inside the model since round six (Mp/JsonOut.lean): texts that need escapes, keys that need sorting, numbers of every kind
// and scale, nil pointers and nil containers, and the text parsed again inside the query
func r6AsJSON(c *Ctx) {
	dec := func(coef int64, exp int32) *TV { return tvDec(decimal.New(coef, exp)) }
	inner := tvMap("str", [][2]any{kv("b", tvStr("x")), kv("a", tvBool(true)), kv("B", tvNil()), kv("ab", tvSlice(1, tvStr("p"), tvBool(false), tvNil())), kv("", tvStr("empty key"))})
	docs := []*TV{
		tvMap("str", [][2]any{kv("zeta", tvStr("plain")), kv("alpha", tvStr("a\"b\\c")), kv("Alpha", tvStr("tab\there\nnl\rcr")), kv("mid", tvStr("<tag> & \x01\x1f\x7f \b\f"))}),
		tvMap("str", [][2]any{kv("n", dec(1250, -2)), kv("m", dec(-5, 3)), kv("z", dec(0, 1)), kv("small", dec(7, -5)), kv("neg", dec(-1005, -3)), kv("whole", dec(4200, -2)), kv("i", tvInt("int", "-12")), kv("u", tvInt("uint64", "18446744073709551615"))}),
		tvMap("str", [][2]any{kv("o", inner), kv("list", tvSlice(1, inner, tvStr("s"), dec(15, -1))), kv("nilptr", tvNilPtr(tvStr("x"))), kv("ptr", tvPtr(tvStr("behind"))), kv("nilslice", &TV{T: "slice", EI: 1, Nil: 1, V: []*TV{}}), kv("emptylist", tvSlice(1))}),
		tvMap("str", [][2]any{kv("k\"q", tvStr("v")), kv("k\\q", tvStr("w")), kv("k", tvStr("u")), kv("K", tvStr("U")), kv("k ", tvStr("sp")), kv("k!", tvStr("bang"))}),
		tvStruct([][3]any{{"Name", 1, tvStr("n")}, {"Tags", 1, tvSlice(0, tvStr("t1"), tvStr("t2"))}, {"Count", 1, tvInt("int", "3")}}),
		tvMap("named", [][2]any{kv("y", tvStr("1")), kv("x", tvNStr("named text"))}),
	}
	qs := []string{"$.AsJSON()", "$.o.AsJSON()", "$.list.AsJSON()", "$.alpha.AsJSON()", "$.mid.AsJSON()", "$.Alpha.AsJSON()", "$.n.AsJSON()", "$.m.AsJSON()", "$.z.AsJSON()", "$.small.AsJSON()",
		"$.neg.AsJSON()", "$.whole.AsJSON()", "$.i.AsJSON()", "$.u.AsJSON()", "$.nilptr.AsJSON()", "$.ptr.AsJSON()", "$.nilslice.AsJSON()", "$.emptylist.AsJSON()", "$.o.ab.AsJSON()",
		"$.AsJSON().ParseJSON()", "$.o.AsJSON().ParseJSON().b", "$.o.AsJSON().ParseJSON().ab.Count()", "$.AsJSON().ParseJSON().o.AsJSON()", "$.list.First().AsJSON().ParseJSON().a", "$.AsJSON(1)",
		"$.Tags.AsJSON()", "$.Name.AsJSON()", "$.x.AsJSON()", "$.AsJSON().Left(12)", `$.list[@.b.Equal("x")].AsJSON()`, `$.list.Select("$.b").AsJSON()`}
	for _, d := range docs {
		for _, q := range qs {
			c.Do(Case{Q: q, D: d, Cls: "round6/asjson", InDomain: true})
		}
	}
}

// a key stepped across a list of objects whose elements spell it differently, some holding two spellings at once: every element is
// asked on its own (the exact spelling first, otherwise the least key equal under folding), so `xs.k.<Agg>()` is `xs.Select("$.k").<Agg>()`
func r6KeysThatFoldTogetherAcrossElements(c *Ctx) {
	f := func(x float64) *TV { return tvF64(x) }
	lists := [][]*TV{
		{tvMap("str", [][2]any{kv("K", f(1))}), tvMap("str", [][2]any{kv("K", f(10)), kv("k", f(2))})},
		{tvMap("str", [][2]any{kv("k", f(1))}), tvMap("str", [][2]any{kv("k", f(2)), kv("K", f(10))}), tvMap("str", [][2]any{kv("K", f(100))})},
		{tvMap("str", [][2]any{kv("Ab", f(1))}), tvMap("str", [][2]any{kv("AB", f(5)), kv("Ab", f(6))}), tvMap("str", [][2]any{kv("aB", f(7)), kv("ab", f(8)), kv("AB", f(9))})},
		{tvMap("str", [][2]any{kv("ab", f(1)), kv("z", f(0))}), tvMap("str", [][2]any{kv("AB", f(5)), kv("aB", f(6))}), tvMap("str", [][2]any{kv("z", f(3))}), tvMap("str", [][2]any{kv("Ab", f(7)), kv("ab", f(8))})},
	}
	for _, l := range lists {
		for _, carrier := range []int{0, 1} {
			var xs *TV
			if carrier == 0 {
				xs = tvSlice(1, l...)
			} else {
				xs = tvArray(1, l...)
			}
			d := tvMap("str", [][2]any{kv("xs", xs)})
			for _, key := range []string{"k", "K", "ab", "AB", "Ab", "aB"} {
				for _, agg := range []string{"Sum()", "Maximum()", "Minimum()", "Average()", "Count()", "First()", "Last()", "AsArray()"} {
					a := c.Do(Case{Q: "$.xs." + key + "." + agg, D: d, Cls: "round6/keys-that-fold-together", InDomain: true})
					b := c.Do(Case{Q: `$.xs.Select("$.` + key + `").` + agg, D: d, Cls: "round6/keys-that-fold-together", InDomain: true})
					// an element that lacks the key is skipped by the projection and is an error for Select: the identity speaks about the lists
					// in which every element has the key
					if agg != "AsArray()" && b.Class != "KNF" && (a.Class != b.Class || (a.Class == "ok" && a.Logical != b.Logical)) {
						c.addViolation(Violation{Kind: "identity", Query: "$.xs." + key + "." + agg, QueryHex: hx("$.xs." + key + "." + agg), Data: d, Expected: trunc(b.Class+" "+b.Logical, 300), Got: trunc(a.Class+" "+a.Logical, 300),
							Cls: "round6/keys-that-fold-together", Key: "identity:projection-vs-select:" + agg, Why: "an aggregate over a key stepped across the objects differs from the aggregate over Select of that key"})
					}
				}
			}
		}
	}
}

// struct carriers with a pointer-to-struct field that is set in one document and nil in the next: the same query text is asked of
// both, in both orders, and inside a filter whose elements alternate (the operation parsed for the first document is kept by the
// runner and asked again on the second)
func r6NilThenSetStructPointers(c *Ctx) {
	owner := func(name string) *TV {
		return tvPtr(tvStruct([][3]any{{"Name", 1, tvStr(name)}, {"Age", 1, tvInt("int", "4")}}))
	}
	noOwner := tvNilPtr(tvStruct([][3]any{{"Name", 1, tvStr("")}, {"Age", 1, tvInt("int", "0")}}))
	item := func(id string, o *TV) *TV { return tvStruct([][3]any{{"ID", 1, tvStr(id)}, {"Owner", 1, o}}) }
	with, without := item("a", owner("ann")), item("b", noOwner)
	docs := []*TV{with, without, with, without, without, with}
	qs := []string{"$.Owner?.Name.IsNull()", "$.Owner?.Name?.IsNull()", "$.Owner?.Name.IsNotNull()", "$.Owner?.Name.IsEmpty()", "$.Owner?.Name.IsNullOrEmpty()", "$.Owner?.Name.IsNotNullOrEmpty()", "$.Owner?.Name.IsNotEmpty()",
		"$.Owner.Name.IsNull()", "$.Owner?.Age?.IsNull()", "$.Owner?.Name", "$.Owner.Name", "$.Owner?.IsNull()"}
	for _, q := range qs {
		for _, d := range docs {
			c.Do(Case{Q: q, D: d, Cls: "round6/nil-then-set-struct-pointers", InDomain: true})
		}
	}
	for _, order := range [][]*TV{{with, without}, {without, with}, {with, without, with}, {without, without, with, without}} {
		d := tvStruct([][3]any{{"Items", 1, tvSlice(0, order...)}})
		dAny := tvMap("str", [][2]any{kv("items", tvSlice(1, order...))})
		for _, q := range []string{"$.Items[@.Owner?.Name.IsNull()]", "$.Items[@.Owner?.Name?.IsNull()].Count()", "$.Items[@.Owner?.Name.IsNotNull()].Count()", `$.Items.Select("$.Owner?.Name?.IsNull()")`, "$.Items[@.Owner?.IsNull()].Count()"} {
			c.Do(Case{Q: q, D: d, Cls: "round6/nil-then-set-struct-pointers/filter", InDomain: true})
			c.Do(Case{Q: strings.Replace(q, "$.Items", "$.items", 1), D: dAny, Cls: "round6/nil-then-set-struct-pointers/filter", InDomain: true})
		}
	}
}

// a number kept as text on the left of a comparison ("10", "10.0", "1e1", a named string): the seven relations answer as for the number,
// coherently, whatever holds the other side
func r6NumbersKeptAsText(c *Ctx) {
	grid := []string{"10", "10.0", "1e1", "0", "0.0", "-1", "2.5", "2.50", "0.1", "999999999999999"}
	for _, as := range grid {
		a := c04Parse(as)
		for _, bs := range []string{"10", "10.0", "0", "2.5", "-1", "0.1", "999999999999998", "1e1"} {
			b := c04Parse(bs)
			for _, named := range []bool{false, true} {
				av := c05Var{name: "text", tv: tvStr(as)}
				if named {
					av = c05Var{name: "named-text", tv: tvNStr(as)}
				}
				for _, bv := range []c05Var{{name: "literal:plain", tv: tvNil(), arg: b.lit(0)}, {name: "path:dec", tv: c04Carry(b, "dec"), arg: "$.b"}, {name: "path:f64", tv: c04Carry(b, "f64"), arg: "$.b"}} {
					if bv.tv == nil {
						continue
					}
					c05Combo(c, a, b, av, bv, "round6/numbers-kept-as-text", nil)
				}
			}
		}
	}
}

// whole numbers that only an unsigned 64-bit kind holds (above the largest int64), in Go's `uint`, in uint64 and as decimals, on either side
func r6HugeUnsigned(c *Ctx) {
	vals := []string{"9223372036854775807", "9223372036854775808", "9223372036854775809", "9300000000000000000", "18446744073709551614", "18446744073709551615", "10000000000000000000"}
	for _, as := range vals {
		a := c04Parse(as)
		for _, bs := range append([]string{"0", "-1", "1"}, vals...) {
			b := c04Parse(bs)
			for _, ak := range []string{"uint", "uint64", "dec", "ptr-uint", "named-uint-wide"} {
				var atv *TV
				switch ak {
				case "ptr-uint":
					if t := c04Carry(a, "uint"); t != nil {
						atv = tvPtr(t)
					}
				case "named-uint-wide":
					if t := c04Carry(a, "uint"); t != nil {
						t.N = 1
						atv = t
					}
				default:
					atv = c04Carry(a, ak)
				}
				if atv == nil {
					continue
				}
				// (a literal of 19 digits is read through float64 and is not the number that was written: the property speaks of literals
				// of up to 15 significant digits, so the other side is always a path here)
				var bvs []c05Var
				for _, bk := range []string{"uint", "uint64", "dec"} {
					if t := c04Carry(b, bk); t != nil {
						bvs = append(bvs, c05Var{name: "path:" + bk, tv: t, arg: "$.b"})
					}
				}
				for _, bv := range bvs {
					c05Combo(c, a, b, c05Var{name: ak, tv: atv}, bv, "round6/huge-unsigned", nil)
				}
			}
		}
	}
}

// lists that hold null entries (JSON null, nil pointers) under filters whose body is true on null
func r6NullElementsUnderFilters(c *Ctx) {
	docs := []*TV{
		tvMap("str", [][2]any{kv("list", tvSlice(1, tvF64(1), tvNil(), tvF64(5))), kv("rows", tvSlice(1, tvMap("str", [][2]any{kv("a", tvF64(1))}), tvNil(), tvMap("str", [][2]any{kv("a", tvNil())})))}),
		tvMap("str", [][2]any{kv("list", tvSlice(0, tvPtr(tvInt("int", "1")), tvNilPtr(tvInt("int", "0")), tvPtr(tvInt("int", "5")))), kv("rows", tvSlice(1, tvNil(), tvNil()))}),
		tvStruct([][3]any{{"List", 1, tvSlice(1, tvNil(), tvStr("x"))}, {"Rows", 1, tvSlice(0, tvNilPtr(tvStruct([][3]any{{"A", 1, tvInt("int", "0")}})), tvPtr(tvStruct([][3]any{{"A", 1, tvInt("int", "2")}})))}}),
	}
	qs := []string{"$.list[@.IsNull()]", "$.list[OR,@.IsNull(),@.IsNotNull()]", "$.list[]", "$.list[@.IsNotNull()]", "$.list[{@.IsNull()}].Count()", "$.list[AND,{OR,@.IsNull(),@.IsNotNull()}].Count()", "$.list[OR].Count()",
		"$.rows[@.IsNull()].Count()", "$.rows[OR,@.IsNull(),@.a?.IsNull()].Count()", "$.rows[@.IsNullOrEmpty()].Count()", "$.list[@.IsNull()][@.IsNull()].Count()", "$.list[{AND}].Count()", "$.rows[]"}
	for _, d := range docs {
		for _, q := range qs {
			c.Do(Case{Q: q, D: d, Cls: "round6/null-elements-under-filters", InDomain: true})
		}
	}
}

// objects carried by structs whose fields are all zero or nil: the keys are there (null, "", 0), not absent
func r6AllZeroStructs(c *Ctx) {
	inner := func() *TV {
		return tvStruct([][3]any{{"B", 2, tvNil()}, {"S", 1, tvStr("")}, {"N", 1, tvInt("int", "0")}, {"P", 1, tvNilPtr(tvStr("x"))}})
	}
	docs := []*TV{
		tvStruct([][3]any{{"A", 1, tvPtr(inner())}}),
		tvStruct([][3]any{{"A", 1, inner()}}),
		inner(),
		tvPtr(inner()),
		tvMap("str", [][2]any{kv("a", inner()), kv("rows", tvSlice(0, inner(), inner()))}),
		tvStruct([][3]any{{"A", 1, inner()}, {"Rows", 1, tvSlice(1, inner(), tvPtr(inner()))}}),
	}
	preds := []string{"IsNull()", "IsNotNull()", "IsEmpty()", "IsNotEmpty()", "IsNullOrEmpty()", "IsNotNullOrEmpty()"}
	for _, d := range docs {
		for _, path := range []string{"$.a.b", "$.a.s", "$.a.n", "$.a.p", "$.a.b?", "$.a.s?", "$.a.zz?", "$.b", "$.s", "$.n", "$.b?", "$.a?.b?", "$.rows.n", "$.rows.First().s", "$.a"} {
			for _, pr := range preds {
				c.Do(Case{Q: path + "." + pr, D: d, Cls: "round6/all-zero-structs", InDomain: true})
			}
			c.Do(Case{Q: path, D: d, Cls: "round6/all-zero-structs", InDomain: true})
		}
		c.Do(Case{Q: "$.rows[@.s.IsEmpty()].Count()", D: d, Cls: "round6/all-zero-structs", InDomain: true})
		c.Do(Case{Q: "$.rows.n.Count()", D: d, Cls: "round6/all-zero-structs", InDomain: true})
	}
}

// texts that are not empty and not numerals, but would read as zero if their blanks were cut off
func r6PaddedZeroNumerals(c *Ctx) {
	preds := []string{"IsNull()", "IsNotNull()", "IsEmpty()", "IsNotEmpty()", "IsNullOrEmpty()", "IsNotNullOrEmpty()"}
	for _, v := range []string{" 0", "0 ", " 0.00 ", "\t0\n", "  -0", " 0e0 ", "0\u00a0", " ", "  ", " 1", "0 0", "\n"} {
		docs := []*TV{tvMap("str", [][2]any{kv("v", tvStr(v))}), tvStruct([][3]any{{"V", 1, tvStr(v)}}), tvMap("str", [][2]any{kv("v", tvPtr(tvStr(v)))}), tvMap("str", [][2]any{kv("v", tvNStr(v))})}
		for _, d := range docs {
			for _, pr := range preds {
				c.Do(Case{Q: "$.v." + pr, D: d, Cls: "round6/padded-zero-numerals", InDomain: true})
				c.Do(Case{Q: "$.v?." + pr, D: d, Cls: "round6/padded-zero-numerals", InDomain: true})
			}
		}
	}
}

// an argument that is a path to an OBJECT, for functions whose answer depends on the order of their arguments: one answer (or one
// error), however often the operation is evaluated
func r6ObjectValuedArguments(c *Ctx) {
	d := tvMap("str", [][2]any{kv("text", tvStr("from here to there")), kv("swap", tvMap("str", [][2]any{kv("from", tvStr("here")), kv("to", tvStr("there"))})), kv("fmt", tvStr("%v-%v-%v")),
		kv("three", tvMap("str", [][2]any{kv("a", tvStr("x")), kv("b", tvStr("y")), kv("c", tvStr("z"))})), kv("n", tvF64(3)), kv("nums", tvMap("str", [][2]any{kv("p", tvF64(1)), kv("q", tvF64(2)), kv("r", tvF64(3))})),
		kv("rec", tvStruct([][3]any{{"From", 1, tvStr("here")}, {"To", 1, tvStr("there")}}))})
	for _, q := range []string{"$.text.ReplaceAll($.swap)", `$.text.ReplaceRegex($.swap)`, "$.fmt.Sprintf($.three)", "$.text.AnyOf($.swap)", "$.n.Sum($.nums)", "$.n.AnyOf($.nums)", "$.text.ReplaceAll($.rec)", "$.text.Equal($.swap)",
		"$.text.Contains($.swap)", "$.n.Minimum($.nums)", "$.fmt.Sprintf($.swap,$.three)", "$.text.ReplaceAll($.three)"} {
		data := buildAny(d)
		first := runCase(q, data)
		c.Do(Case{Q: q, D: d, Cls: "round6/object-valued-arguments", InDomain: false})
		op, err := mpath.ParseString(q)
		if err != nil || op == nil {
			continue
		}
		for i := 0; i < 120; i++ {
			var o Outcome
			if i%2 == 0 {
				o = runCase(q, data)
			} else {
				o = runOp(op, data)
			}
			if o.Class != first.Class || o.Msg != first.Msg || (o.Class == "ok" && o.Logical != first.Logical) {
				c.addViolation(Violation{Kind: "nondeterminism", Query: q, QueryHex: hx(q), Data: d, Expected: trunc(first.Class+" "+first.Logical+" "+first.Msg, 300), Got: trunc(o.Class+" "+o.Logical+" "+o.Msg, 300),
					Cls: "round6/object-valued-arguments", Why: "the same operation on the same document gives another answer at evaluation " + jsonInt(i+2), Key: "nondet:object-valued-argument:" + lastFunc(q)})
				break
			}
		}
	}
}

// an AsJSON that fails (a NaN, a map with keys of any type) between two evaluations of the same operations: their answers, and the
// printed and marshalled forms of kept operations that hold number literals, stay what they were
func r6AsJSONAfterFailure(c *Ctx) {
	good := tvMap("str", [][2]any{kv("n", tvF64(5)), kv("xs", tvSlice(1, tvF64(1.5), tvF64(2))), kv("o", tvMap("str", [][2]any{kv("k", tvF64(7))}))})
	bads := []*TV{tvMap("str", [][2]any{kv("bad", tvSlice(1, tvF64(1), tvF64(math.NaN())))}), tvMap("str", [][2]any{kv("bad", tvMap("iface", [][2]any{kv("k", tvF64(1))}))}),
		tvMap("str", [][2]any{kv("bad", tvMap("str", [][2]any{kv("f", &TV{T: "func"})}))})}
	qs := []string{"$.n.AsJSON()", "$.xs.AsJSON()", "$.o.AsJSON()", "$.AsJSON()", "$.n.Add(5).AsJSON()"}
	data := buildAny(good)
	before := map[string]Outcome{}
	kept := map[string]mpath.Operation{}
	marsh := map[string]string{}
	for _, q := range qs {
		before[q] = runCase(q, data)
		if op, err := mpath.ParseString(q); err == nil && op != nil {
			kept[q] = op
			b, _ := json.Marshal(op)
			marsh[q] = string(b) + "|" + op.Sprint(0)
		}
	}
	for _, bd := range bads {
		bdata := buildAny(bd)
		for _, bq := range []string{"$.bad.AsJSON()", "$.AsJSON()"} {
			runCase(bq, bdata)
			c.Do(Case{Q: bq, D: bd, Cls: "round6/asjson-after-failure", InDomain: false})
		}
		for _, q := range qs {
			o := runCase(q, data)
			f := before[q]
			if o.Class != f.Class || (o.Class == "ok" && o.Logical != f.Logical) {
				c.addViolation(Violation{Kind: "history", Query: q, QueryHex: hx(q), Data: good, Expected: trunc(f.Class+" "+f.Logical, 300), Got: trunc(o.Class+" "+o.Logical, 300), Cls: "round6/asjson-after-failure",
					Why: "after an AsJSON evaluation that failed on another document, this query answers differently than before", Key: "history:asjson-after-failure"})
			}
			if op := kept[q]; op != nil {
				b, _ := json.Marshal(op)
				if now := string(b) + "|" + op.Sprint(0); now != marsh[q] {
					c.addViolation(Violation{Kind: "op-changed", Query: q, QueryHex: hx(q), Data: good, Expected: trunc(marsh[q], 300), Got: trunc(now, 300), Cls: "round6/asjson-after-failure",
						Why: "a kept operation marshals or prints differently after an AsJSON evaluation that failed on another document", Key: "op-changed:asjson-after-failure"})
				}
			}
		}
	}
}

// runOp: one evaluation of a kept operation, classified like runCase
func runOp(op mpath.Operation, data any) (out Outcome) {
	defer func() {
		if r := recover(); r != nil {
			out = Outcome{Class: "PANIC", Msg: fmt.Sprint(r)}
		}
	}()
	res, err := op.Do(data, data)
	if err != nil {
		if errors.Is(err, mpath.ErrKeyNotFound) {
			return Outcome{Class: "KNF", Msg: err.Error()}
		}
		return Outcome{Class: "ERR", Msg: err.Error()}
	}
	rv := reflect.ValueOf(res)
	return Outcome{Class: "ok", Exact: canonV(rv), Logical: logicalV(rv)}
}

func jsonInt(i int) string { return fmt.Sprint(i) }

// objects carried by a struct type that has MarshalJSON / MarshalText: the same answers as on maps and plain structs
func r6SelfMarshallingCarriers(c *Ctx) {
	mp := func(k string, n float64) *TV { return tvMap("str", [][2]any{kv("K", tvStr(k)), kv("N", tvF64(n))}) }
	st := func(k string, n float64) *TV { return tvStruct([][3]any{{"K", 1, tvStr(k)}, {"N", 1, tvF64(n)}}) }
	doc := func(o func(string, float64) *TV) *TV {
		return tvMap("str", [][2]any{kv("o", o("abc", 2)), kv("rows", tvSlice(1, o("p", 1), o("q", 5))), kv("p", tvPtr(o("behind", 3)))})
	}
	for _, q := range []string{"$.o.k", "$.o.n.Add(1)", `$.o.RemoveKeysByPrefix("k")`, `$.o.RemoveKeysBySuffix("n").k`, `$.o.RemoveKeysByRegex("^K")`, "$.o.Sum()", "$.o.IsEmpty()", "$.o.IsNull()", "$.rows.n.Sum()",
		`$.rows.First().RemoveKeysByPrefix("n")`, `$.rows.Select("$.k")`, "$.rows[@.n.Greater(2)].k", "$.p.k", `$.p.RemoveKeysByPrefix("k").n`, "$.rows.Count()", "$.o.Maximum()", `$.rows.Last().RemoveKeysByRegex("n").k`} {
		c.sameAcross(q, []string{"map", "struct", "self-marshalling-struct"}, []*TV{doc(mp), doc(st), doc(tvMarshObj)}, "round6/self-marshalling-carriers")
	}
}

// ---------- round 8 ----------

// an object of numbers under the aggregates, carried by a map of any, by maps whose VALUE type is a number kind (with a zero among the
// values) or a pointer to one, and by a struct: one answer
func r8ObjectsOfNumbers(c *Ctx) {
	sets := [][]float64{{0, 4, 6}, {-2.5, 0, -0.1}, {1.5, 2, 4}, {0, 0, 7}, {0}, {3}}
	for _, vs := range sets {
		mk := func(wrap func(f float64) *TV, typed bool) *TV {
			var kvs [][2]any
			for i, v := range vs {
				kvs = append(kvs, kv(string(rune('a'+i)), wrap(v)))
			}
			if typed {
				return tvTypedMap("str", kvs)
			}
			return tvMap("str", kvs)
		}
		f64 := func(f float64) *TV { return tvF64(f) }
		whole := true
		for _, v := range vs {
			if v != math.Trunc(v) {
				whole = false
			}
		}
		names := []string{"map-of-any", "map-of-float64", "map-of-pointers-to-float64", "map-of-any-holding-pointers", "named-key-map-of-float64"}
		tvs := []*TV{mk(f64, false), mk(f64, true), mk(func(f float64) *TV { return tvPtr(tvF64(f)) }, true), mk(func(f float64) *TV { return tvPtr(tvF64(f)) }, false),
			func() *TV { t := mk(f64, true); t.KK = "named"; return t }()}
		if whole {
			names = append(names, "map-of-int", "map-of-uint8-or-int64")
			tvs = append(tvs, mk(func(f float64) *TV { return tvInt("int", fmt.Sprint(int64(f))) }, true), mk(func(f float64) *TV { return tvInt("int64", fmt.Sprint(int64(f))) }, true))
		}
		var docs []*TV
		for _, t := range tvs {
			docs = append(docs, tvMap("str", [][2]any{kv("m", t), kv("one", tvF64(1))}))
		}
		for _, q := range []string{"$.m.Sum()", "$.m.Average()", "$.m.Minimum()", "$.m.Maximum()", "$.m.Sum(10)", "$.m.Minimum(1)", "$.m.Maximum(-1)", "$.m.Average($.one)", "$.m.Maximum().Greater(3)", "$.m.Minimum().Equal(0)"} {
			c.sameAcross(q, names, docs, "round8/objects-of-numbers")
		}
	}
}

// lists with null entries under filters, the null carried as JSON null, as a nil pointer in a typed list, as a nil map in a list of maps
func r8NullEntriesAcrossCarriers(c *Ctx) {
	row := func(id float64, ok bool) *TV {
		return tvMap("str", [][2]any{kv("id", tvF64(id)), kv("ok", tvBool(ok))})
	}
	rowS := func(id float64, ok bool) *TV { return tvStruct([][3]any{{"Id", 1, tvF64(id)}, {"Ok", 1, tvBool(ok)}}) }
	nilMap := &TV{T: "map", KK: "str", Nil: 1, V: [][2]any{}}
	names := []string{"any-list-with-null", "list-of-maps-with-nil-map", "list-of-pointers-with-nil-pointer", "any-list-with-nil-pointer"}
	docs := []*TV{
		tvMap("str", [][2]any{kv("rows", tvSlice(1, tvNil(), row(1, true), row(2, false)))}),
		tvMap("str", [][2]any{kv("rows", tvSlice(0, nilMap, row(1, true), row(2, false)))}),
		tvMap("str", [][2]any{kv("rows", tvSlice(0, tvNilPtr(rowS(0, false)), tvPtr(rowS(1, true)), tvPtr(rowS(2, false))))}),
		tvMap("str", [][2]any{kv("rows", tvSlice(1, tvNilPtr(rowS(0, false)), tvPtr(rowS(1, true)), row(2, false)))}),
	}
	for _, q := range []string{"$.rows[@.ok].Count()", "$.rows[@.id.Equal(1)].Count()", "$.rows[@.IsNull()].Count()", "$.rows[@.ok?.IsNull()].Count()", "$.rows[@.id?.Greater(1)].Count()", "$.rows[OR,@.IsNull(),@.ok?].Count()",
		"$.rows[@.IsNotNull()].Count()", "$.rows.Count()", "$.rows[@.ok].id"} {
		c.sameAcross(q, names, docs, "round8/null-entries-across-carriers")
	}
}

// a document whose objects below the root are maps keyed by `any` (what yaml.v2 hands out), next to the same document in maps keyed
// by strings: one answer
func r8ObjectsKeyedByAny(c *Ctx) {
	mk := func(kk string) *TV {
		inner := tvMap(kk, [][2]any{kv("c", tvStr("v")), kv("null", tvNil()), kv("zero", tvF64(0)), kv("empty", tvStr(""))})
		return tvMap("str", [][2]any{kv("a", tvMap(kk, [][2]any{kv("b", inner), kv("list", tvSlice(1, inner, tvMap(kk, [][2]any{kv("c", tvNil())})))})), kv("top", tvStr("t"))})
	}
	preds := []string{"IsNull()", "IsNotNull()", "IsEmpty()", "IsNotEmpty()", "IsNullOrEmpty()", "IsNotNullOrEmpty()"}
	for _, path := range []string{"$.a?.b?.c?", "$.a.b.c", "$.a.b.null", "$.a.b.zero", "$.a.b.empty", "$.a?.b?.nosuch?", "$.a.b.nosuch", "$.a.list.c", "$.a.B.C", "$.a.list.First().c"} {
		for _, pr := range preds {
			c.sameAcross(path+"."+pr, []string{"string-keyed", "any-keyed"}, []*TV{mk("str"), mk("iface")}, "round8/objects-keyed-by-any")
		}
		c.sameAcross(path, []string{"string-keyed", "any-keyed"}, []*TV{mk("str"), mk("iface")}, "round8/objects-keyed-by-any")
	}
	c.sameAcross("$.a.list[@.c?.IsNull()].Count()", []string{"string-keyed", "any-keyed"}, []*TV{mk("str"), mk("iface")}, "round8/objects-keyed-by-any")
}

// two filters in a row (`coll[p][q]`) followed by First / Any / Last / Count, where the first element that meets p fails q and a later
// one meets both; and the same run inside a condition
func r8RunsOfFilters(c *Ctx) {
	it := func(ok bool, n float64) *TV { return tvMap("str", [][2]any{kv("ok", tvBool(ok)), kv("n", tvF64(n))}) }
	grp := func(id string, items ...*TV) *TV {
		return tvMap("str", [][2]any{kv("id", tvStr(id)), kv("items", tvSlice(1, items...))})
	}
	docs := []*TV{
		tvMap("str", [][2]any{kv("rows", tvSlice(1, it(true, 1), it(false, 9), it(true, 8), it(true, 2))), kv("groups", tvSlice(1, grp("g1", it(true, 1), it(true, 9)), grp("g2", it(true, 1), it(false, 9)), grp("g3", it(true, 7))))}),
		tvMap("str", [][2]any{kv("rows", tvSlice(1, it(false, 9), it(true, 9))), kv("groups", tvSlice(1, grp("g1", it(false, 9))))}),
		tvMap("str", [][2]any{kv("rows", tvSlice(1, it(true, 1))), kv("groups", tvSlice(1))}),
	}
	for _, d := range docs {
		for _, tail := range []string{".First()", ".Any()", ".Last()", ".Count()", "", ".First().n", ".n.Sum()"} {
			for _, body := range []string{"$.rows[OR,@.ok,@.n.Less(2)][OR,@.n.Greater(5),@.n.Equal(2)]", "$.rows[OR,@.ok][OR,@.n.Greater(5)]", "$.rows[AND,@.ok][OR,@.n.Greater(8),@.n.Less(2)]", "$.rows[@.ok][@.n.Greater(5)]", "$.rows[AND,@.ok,@.n.Greater(5)]", "$.rows[@.n.Greater(5)][@.ok]", "$.rows[@.ok][@.n.Greater(5)][@.n.Less(9)]", "$.rows[@.ok][@.ok][@.n.Greater(5)]"} {
				c.Do(Case{Q: body + tail, D: d, Cls: "round8/runs-of-filters", InDomain: true})
			}
		}
		for _, q := range []string{"$.groups[@.items[@.ok][@.n.Greater(5)].Any()].id", "$.groups[@.items[AND,@.ok,@.n.Greater(5)].Any()].id", "$.groups[@.items[@.ok][@.n.Greater(5)].Count().Greater(0)].Count()"} {
			c.Do(Case{Q: q, D: d, Cls: "round8/runs-of-filters", InDomain: true})
		}
	}
}

// a single object ALL of whose fields are objects, under a filter: it is one object (kept or null), not a collection of its fields
func r8ObjectsOfObjectsUnderFilters(c *Ctx) {
	addr := func(country string, n float64) *TV {
		return tvMap("str", [][2]any{kv("country", tvStr(country)), kv("n", tvF64(n))})
	}
	addrS := func(country string, n float64) *TV {
		return tvStruct([][3]any{{"Country", 1, tvStr(country)}, {"N", 1, tvF64(n)}})
	}
	docs := []*TV{
		tvMap("str", [][2]any{kv("addresses", tvMap("str", [][2]any{kv("billing", addr("AU", 1)), kv("shipping", addr("NZ", 2))})),
			kv("customers", tvSlice(1, tvMap("str", [][2]any{kv("id", tvF64(1)), kv("contacts", tvMap("str", [][2]any{kv("primary", tvMap("str", [][2]any{kv("active", tvBool(true))}))}))}),
				tvMap("str", [][2]any{kv("id", tvF64(2)), kv("contacts", tvMap("str", [][2]any{kv("primary", tvMap("str", [][2]any{kv("active", tvBool(false))}))}))})))}),
		tvMap("str", [][2]any{kv("addresses", tvTypedMap("str", [][2]any{kv("billing", addrS("AU", 1)), kv("shipping", addrS("NZ", 2))})), kv("customers", tvSlice(1))}),
		tvMap("str", [][2]any{kv("addresses", tvStruct([][3]any{{"Billing", 1, addrS("AU", 1)}, {"Shipping", 1, addrS("NZ", 2)}})), kv("customers", tvSlice(1))}),
	}
	for _, d := range docs {
		for _, q := range []string{`$.addresses[@.billing.country.Equal("AU")]`, `$.addresses[@.billing.country.Equal("NZ")]`, `$.addresses[@.billing?.country?.Equal("AU")]`, `$.addresses[@.shipping.n.Greater(1)].billing.country`,
			`$.addresses[@.billing.country.Equal("AU")].IsNotNull()`, `$.addresses[@.billing.country.Equal("NZ")].IsNull()`, "$.customers[@.contacts[@.primary?.active?.Equal(true)].IsNotNull()].id",
			"$.customers[@.contacts[@.primary?.active?.Equal(true)].IsNull()].id", `$.addresses[OR,@.billing.n.Equal(1),@.shipping.n.Equal(1)].shipping.country`} {
			c.Do(Case{Q: q, D: d, Cls: "round8/objects-of-objects-under-filters", InDomain: true})
		}
	}
}

// struct carriers with two exported fields that differ in letter case only, as operands of groups with one, two and three operands,
// at the top, nested, in filters and as arguments: the group is the fold of what each operand answers on its own
func r8FieldsThatFoldTogetherAsOperands(c *Ctx) {
	rec := func(a, b, live bool) *TV {
		return tvStruct([][3]any{{"Ok", 1, tvBool(a)}, {"OK", 1, tvBool(b)}, {"Live", 1, tvBool(live)}})
	}
	for _, v := range [][3]bool{{false, true, false}, {true, false, true}, {false, true, true}, {true, true, false}} {
		d := tvStruct([][3]any{{"Ok", 1, tvBool(v[0])}, {"OK", 1, tvBool(v[1])}, {"Live", 1, tvBool(v[2])}, {"Rows", 1, tvSlice(0, rec(v[0], v[1], v[2]), rec(v[1], v[0], v[2]), rec(v[0], v[1], !v[2]))}})
		for _, q := range []string{"{AND,$.OK}", "{AND,$.OK,$.Live}", "{OR,$.OK,$.Live}", "{AND,$.OK,$.OK}", "{OR,$.Ok,$.Live}", "{AND,{OR,$.OK,$.Live},$.Live}", "$.Rows[AND,@.OK,@.Live].Count()", "$.Rows[@.OK].Count()",
			"$.Rows[OR,@.OK,@.Live].Count()", "$.Live.Equal({AND,$.OK,$.Live})", "$.Rows[{AND,@.OK,@.Live}].Count()", "$.OK", "$.Ok", "$.ok"} {
			c.Do(Case{Q: q, D: d, Cls: "round8/fields-that-fold-together-as-operands", InDomain: true})
		}
	}
}

// small numbers held in float64 (their digits reach past the fifteenth decimal place) against the same and adjacent numbers held as
// decimals, as text, as literals and as other floats
func r8SmallFloats(c *Ctx) {
	vals := []string{"2.5e-16", "1e-17", "0.00100000000000001", "0.00100000000000002", "0", "2.5e-20", "-2.5e-16", "1.5e-15"}
	for _, as := range vals {
		a := c04Parse(as)
		atv := c04Carry(a, "f64")
		if atv == nil {
			continue
		}
		for _, bs := range vals {
			b := c04Parse(bs)
			bvs := []c05Var{{name: "literal:scientific", tv: tvNil(), arg: bs}}
			for _, bk := range []string{"dec", "f64"} {
				if t := c04Carry(b, bk); t != nil {
					bvs = append(bvs, c05Var{name: "path:" + bk, tv: t, arg: "$.b"})
				}
			}
			for _, bv := range bvs {
				c05Combo(c, a, b, c05Var{name: "f64", tv: atv}, bv, "round8/small-floats", nil)
			}
		}
	}
}

// needles written as literals that END in an escaped quote
func r8NeedlesEndingInAQuote(c *Ctx) {
	d := tvMap("str", [][2]any{kv("s", tvStr(`say "hi"`)), kv("t", tvStr(`x"`)), kv("u", tvStr(`""`)), kv("v", tvStr(`plain`))})
	for _, recv := range []string{"s", "t", "u", "v"} {
		for _, q := range []string{`Contains("\"")`, `NotContains("\"")`, `Suffix("hi\"")`, `Suffix("\"")`, `Prefix("x\"")`, `NotSuffix("i\"")`, `NotPrefix("\"")`, `ReplaceAll("\"","_")`, `ReplaceAll("i\"","I")`, `Contains("\"\"")`,
			`Equal("x\"")`, `Equal("\"\"")`, `AnyOf("a","x\"")`, `ReplaceAll("_","\"")`, `Contains("\"h")`, `Prefix("say \"")`} {
			c.Do(Case{Q: "$." + recv + "." + q, D: d, Cls: "round8/needles-ending-in-a-quote", InDomain: true})
		}
	}
}

// a literal that holds an escaped backslash in front of a letter that has an escape of its own: every fresh parse of the text is the
// same operation (printed form, answer)
func r8FreshParsesOfEscapedBackslashes(c *Ctx) {
	d := tvMap("str", [][2]any{kv("s", tvStr("C:\\temp\\new")), kv("t", tvStr("C:\temp"))})
	data := buildAny(d)
	for _, q := range []string{`$.s.Equal("C:\\temp\\new")`, `$.t.Contains("\\t")`, `$.s.ReplaceAll("\\n","/n")`, `$.t.Suffix("\\temp")`, `$.s.Contains("\\\\t")`, `$.t.Equal("C:\\temp")`} {
		c.Do(Case{Q: q, D: d, Cls: "round8/fresh-parses-of-escaped-backslashes", InDomain: false})
		var first string
		for i := 0; i < 80; i++ {
			op, err := mpath.ParseString(q)
			if err != nil || op == nil {
				break
			}
			o := runOp(op, data)
			now := op.Sprint(0) + " => " + o.Class + " " + o.Logical
			if i == 0 {
				first = now
			} else if now != first {
				c.addViolation(Violation{Kind: "nondeterminism", Query: q, QueryHex: hx(q), Data: d, Expected: trunc(first, 300), Got: trunc(now, 300), Cls: "round8/fresh-parses-of-escaped-backslashes",
					Why: "a freshly parsed copy of the query prints or answers differently from an earlier freshly parsed copy (parse " + jsonInt(i+1) + ")", Key: "nondet:fresh-parse"})
				break
			}
		}
	}
}

// ---------- round 9 ----------

// keys made of digits applied to lists: a key is a key (no element has it), not a position
func r9KeysThatAreNumerals(c *Ctx) {
	d := tvMap("str", [][2]any{kv("list", tvSlice(1, tvMap("str", [][2]any{kv("a", tvStr("p"))}), tvMap("str", [][2]any{kv("a", tvStr("q"))}))), kv("tags", tvSlice(1, tvStr("x"), tvStr("y"))),
		kv("typed", tvSlice(0, tvStr("x"), tvStr("y"))), kv("arr", tvArray(1, tvStr("x"))), kv("with", tvSlice(1, tvMap("str", [][2]any{kv("0", tvStr("zero"))}), tvMap("str", [][2]any{kv("a", tvStr("q"))}))),
		kv("o", tvMap("str", [][2]any{kv("1", tvStr("one")), kv("01", tvStr("zero-one"))}))})
	for _, q := range []string{"$.list.1", "$.list.0", "$.list.1.a", "$.tags.0", "$.tags.1", "$.typed.0", "$.arr.0", "$.list.2", "$.list.-1", "$.with.0", "$.with.1", "$.o.1", "$.o.01", "$.list.a.0", "$.0", "$.list.00"} {
		c.Do(Case{Q: q, D: d, Cls: "round9/keys-that-are-numerals", InDomain: true})
	}
}

// lists of small whole numbers carried by []uint8 (which is []byte), and struct fields that carry json tags made of options only:
// operands like any others
func r9ListsOfBytesAndTaggedFields(c *Ctx) {
	u8 := func(vs ...int) []*TV {
		var out []*TV
		for _, v := range vs {
			out = append(out, tvInt("uint8", fmt.Sprint(v)))
		}
		return out
	}
	anyl := func(vs ...int) []*TV {
		var out []*TV
		for _, v := range vs {
			out = append(out, tvF64(float64(v)))
		}
		return out
	}
	for _, vs := range [][]int{{3, 200, 50, 49}, {49, 50}, {0}, {7, 7}} {
		docs := []*TV{
			tvMap("str", [][2]any{kv("levels", tvSlice(1, anyl(vs...)...)), kv("scale", tvF64(0.1))}),
			tvMap("str", [][2]any{kv("levels", tvSlice(0, u8(vs...)...)), kv("scale", tvF64(0.1))}),
			tvStruct([][3]any{{"Levels", 1, tvSlice(0, u8(vs...)...)}, {"Scale", 1, tvF64(0.1)}}),
			tvMap("str", [][2]any{kv("levels", tvPtr(tvSlice(0, u8(vs...)...))), kv("scale", tvF64(0.1))}),
			tvMap("str", [][2]any{kv("levels", tvArray(0, u8(vs...)...)), kv("scale", tvF64(0.1))}),
		}
		for _, q := range []string{"$.levels.Sum()", "$.levels.Maximum()", "$.levels.Minimum()", "$.levels.Average()", "$.levels.Sum(1)", "$.scale.Sum($.levels)", "$.scale.Add($.levels.Sum())", "$.levels.Count()", "$.levels.First()",
			"$.levels.Last().Add(1)", "$.levels.Any()", "$.levels[@.Greater(40)].Count()", `$.levels.Select("$.Add(1)").Sum()`, "$.levels.Index(0).Equal($.levels.First())", "$.scale.AnyOf($.levels)", "$.levels.First().AnyOf($.levels)"} {
			c.sameAcross(q, []string{"any-list", "uint8-slice", "struct-field-uint8-slice", "pointer-to-uint8-slice", "uint8-array"}, docs, "round9/lists-of-bytes")
		}
	}
	// exported fields whose json tag holds options only (flag 3 = `json:",omitempty"`), next to untagged fields and a map
	line := func(flag int) *TV {
		return tvStruct([][3]any{{"Net", flag, tvF64(0.1)}, {"Tax", flag, tvF64(0.2)}, {"Shipping", flag, tvF64(7)}, {"Discount", flag, tvStr("-0.3")}})
	}
	lm := tvMap("str", [][2]any{kv("Net", tvF64(0.1)), kv("Tax", tvF64(0.2)), kv("Shipping", tvF64(7)), kv("Discount", tvStr("-0.3"))})
	docs := []*TV{tvMap("str", [][2]any{kv("line", lm)}), tvMap("str", [][2]any{kv("line", line(1))}), tvMap("str", [][2]any{kv("line", line(3))}), tvMap("str", [][2]any{kv("line", tvPtr(line(3)))})}
	for _, q := range []string{"$.line.Sum()", "$.line.Average()", "$.line.Maximum()", "$.line.Minimum()", "$.line.Sum(1)", "$.line.Net", "$.line.Count()", `$.line.RemoveKeysByPrefix("T").Sum()`, "$.line.IsEmpty()"} {
		c.sameAcross(q, []string{"map", "struct", "struct-with-option-only-json-tags", "pointer-to-such-a-struct"}, docs, "round9/tagged-fields")
	}
}

// the empty object carried by a map and by a struct without fields, under the functions that take an object or a collection
func r9EmptyObjectsAcrossCarriers(c *Ctx) {
	mk := func(empty func() *TV) *TV {
		return tvMap("str", [][2]any{kv("meta", empty()), kv("items", tvSlice(1, tvMap("str", [][2]any{kv("extra", empty()), kv("id", tvF64(1))}), tvMap("str", [][2]any{kv("extra", empty()), kv("id", tvF64(2))}))),
			kv("p", tvPtr(empty()))})
	}
	em := func() *TV { return tvMap("str", [][2]any{}) }
	es := func() *TV { return tvStruct([][3]any{}) }
	for _, q := range []string{"$.meta.Any()", `$.meta.Select("$.x")`, "$.items[@.extra.Any()].Count()", `$.meta.RemoveKeysByPrefix("a")`, `$.meta.RemoveKeysByRegex(".").IsEmpty()`, "$.meta.Count()", "$.meta.IsEmpty()", "$.meta.Sum()",
		"$.meta.IsNullOrEmpty()", "$.p.Any()", `$.p.Select("$.x").Count()`, "$.meta.AsJSON()", "$.items.extra.Count()", "$.meta.First()", "$.meta.x?.IsNull()"} {
		c.sameAcross(q, []string{"empty-map", "struct-without-fields"}, []*TV{mk(em), mk(es)}, "round9/empty-objects-across-carriers")
	}
}

// lists that were never allocated (nil slices of int, string, bool, float64, decimal - the unset slice fields of a Go struct) as
// arguments given by path, alone and next to other arguments: they hold no candidates, like any other empty list
func r9ListsThatWereNeverAllocated(c *Ctx) {
	nilOf := func(k string) *TV { return &TV{T: "slice", EI: 0, Nil: 1, K: k, V: []*TV{}} }
	emptyOf := func(k string) *TV { return &TV{T: "slice", EI: 0, K: k, V: []*TV{}} }
	emptyAny := func(string) *TV { return tvSlice(1) }
	doc := func(mk func(string) *TV, asStruct bool) *TV {
		if asStruct {
			return tvStruct([][3]any{{"ID", 1, tvInt("int", "12")}, {"Five", 1, tvF64(5)}, {"Name", 1, tvStr("n")}, {"Allowed", 1, mk("")}, {"Names", 1, mk("str")}, {"Flags", 1, mk("bool")}, {"Prices", 1, mk("f64")}, {"Decs", 1, mk("dec")}})
		}
		return tvMap("str", [][2]any{kv("ID", tvInt("int", "12")), kv("Five", tvF64(5)), kv("Name", tvStr("n")), kv("Allowed", mk("")), kv("Names", mk("str")), kv("Flags", mk("bool")), kv("Prices", mk("f64")), kv("Decs", mk("dec"))})
	}
	names := []string{"empty-any-lists", "nil-typed-lists-in-a-struct", "nil-typed-lists-in-a-map", "empty-typed-lists-in-a-struct"}
	docs := []*TV{doc(emptyAny, false), doc(nilOf, true), doc(nilOf, false), doc(emptyOf, true)}
	for _, l := range []string{"Allowed", "Names", "Flags", "Prices", "Decs"} {
		for _, q := range []string{"$.ID.AnyOf($." + l + ")", "$.ID.AnyOf($." + l + ",12)", "$.ID.AnyOf(12,$." + l + ")", "$.Five.Less($." + l + ",6)", "$.Name.AnyOf($." + l + ",\"n\")", "$.ID.NotEqual($." + l + ",12)",
			"$.Five.Sum($." + l + ")", "$.ID.AnyOf($." + l + ",$.Names,12)"} {
			c.sameAcross(q, names, docs, "round9/lists-that-were-never-allocated")
		}
	}
}

// lists of objects some of which hold nothing but zero values (0, "", false): the key stepped across the list yields a value from
// EVERY element that has the key - also from those - so counts, positions and aggregates agree with Select and across carriers
func r10ElementsThatAreAllZero(c *Ctx) {
	vals := []float64{3, 0, 5, 0, 4}
	elStruct := func(v float64) *TV {
		return tvStruct([][3]any{{"K", 1, tvInt("int", fmt.Sprint(int(v)))}, {"S", 1, tvStr("")}, {"B", 1, tvBool(false)}})
	}
	elMap := func(v float64) *TV {
		return tvMap("str", [][2]any{kv("K", tvInt("int", fmt.Sprint(int(v)))), kv("S", tvStr("")), kv("B", tvBool(false))})
	}
	list := func(ei int, mk func(float64) *TV, ptr bool) *TV {
		var xs []*TV
		for _, v := range vals {
			x := mk(v)
			if ptr {
				x = tvPtr(x)
			}
			xs = append(xs, x)
		}
		return tvMap("str", [][2]any{kv("xs", tvSlice(ei, xs...)), kv("direct", tvSlice(1, tvF64(3), tvF64(0), tvF64(5), tvF64(0), tvF64(4)))})
	}
	names := []string{"maps-in-any", "structs", "pointers-to-structs", "structs-in-any", "pointers-in-any"}
	docs := []*TV{list(1, elMap, false), list(0, elStruct, false), list(0, elStruct, true), list(1, elStruct, false), list(1, elStruct, true)}
	for _, agg := range []string{"Count()", "Minimum()", "Maximum()", "Average()", "Sum()", "First()", "Last()", "Index(1)", "Index(3)", "Any()", "AnyOf(0)"} {
		c.sameAcross("$.xs.K."+agg, names, docs, "round10/elements-that-are-all-zero")
		c.sameAcross("$.xs.Select(\"$.K\")."+agg, names, docs, "round10/elements-that-are-all-zero")
		c.sameAcross("$.direct."+agg, names, docs, "round10/elements-that-are-all-zero")
	}
	for _, q := range []string{"$.xs.K", "$.xs.S.Count()", "$.xs.B.Count()", "$.xs[@.K.Equal(0)].Count()", "$.xs[@.S.IsEmpty()].K", "$.xs.Count()", "$.xs.Index(1).K", "$.xs.Last().S"} {
		c.sameAcross(q, names, docs, "round10/elements-that-are-all-zero")
	}
}

// one query after another on the SAME in-memory document, in every carrier: what the second query answers does not depend on
// the first having been asked, and it is the same in every carrier (the answers of a carrier that the first query rewrote -
// numbers turned into decimals inside the caller's []any - differ from those of the carriers it copied)
func r10OneQueryAfterAnother(c *Ctx) {
	num := func(v float64) *TV { return tvF64(v) }
	asAny := tvMap("str", [][2]any{kv("order", tvMap("str", [][2]any{
		kv("weights", tvSlice(1, num(3), num(4))), kv("prices", tvSlice(1, num(1.5), num(2.25))),
		kv("rows", tvSlice(1, tvSlice(1, num(1), num(2)), tvSlice(1, num(3), num(4)))), kv("name", tvStr("n"))}))})
	typed := tvMap("str", [][2]any{kv("order", tvMap("str", [][2]any{
		kv("weights", tvSlice(0, num(3), num(4))), kv("prices", tvSlice(0, num(1.5), num(2.25))),
		kv("rows", tvSlice(0, tvSlice(0, num(1), num(2)), tvSlice(0, num(3), num(4)))), kv("name", tvStr("n"))}))})
	strct := tvStruct([][3]any{{"Order", 1, tvStruct([][3]any{{"Weights", 1, tvSlice(0, num(3), num(4))}, {"Prices", 1, tvSlice(0, num(1.5), num(2.25))},
		{"Rows", 1, tvSlice(0, tvSlice(0, num(1), num(2)), tvSlice(0, num(3), num(4)))}, {"Name", 1, tvStr("n")}})}})
	names := []string{"json-decoded", "typed-lists", "struct"}
	docs := []*TV{asAny, typed, strct}
	firsts := []string{"$.order.weights.Sum()", "$.order.rows.First()", "$.order.rows[@.Sum().Greater(3)]", "$.order.weights.AnyOf(3)", "$.order.name.AnyOf($.order.weights)",
		"$.order.prices.Average()", "$.order.rows.Last().Maximum()", "$.order.weights[@.Greater(3)]", "$.order.weights.Count()", "$.order.rows.Select(\"$.Sum()\")"}
	seconds := []string{"$.order.AsJSON()", "$.AsJSON()", "$.order.weights.AsJSON()", "$.order.rows.AsJSON()", "$.order.weights", "$.order.rows.First()", "$.order"}
	run := func(q string, data any) string {
		op, err := mpath.ParseString(q)
		if err != nil || op == nil {
			return "PARSE-ERR"
		}
		o := evalOp(op, data)
		if o.Class == "ok" {
			return o.Logical
		}
		return o.Class
	}
	for _, q1 := range firsts {
		for _, q2 := range seconds {
			var ref string
			for i, d := range docs {
				c.Do(Case{Q: q2, D: d, Cls: "round10/one-query-after-another/" + names[i], InDomain: true})
				alone := run(q2, buildAny(d))
				data := buildAny(d)
				run(q1, data)
				after := run(q2, data)
				if i == 0 {
					ref = alone
				}
				if after != alone {
					c.addViolation(Violation{Kind: "history-dependence", Query: q2, QueryHex: hx(q2), Data: d, Expected: trunc(alone, 300), Got: trunc(after, 300), Cls: "round10/one-query-after-another",
						Why: "in the carrier " + names[i] + " the query answers differently after " + q1 + " was evaluated on the same document", Key: "carrier:round10/one-query-after-another:" + lastFunc(q2)})
				}
				if after != ref && i == 1 { // the struct spells its keys as Go field names: compared with itself only
					c.addViolation(Violation{Kind: "carrier-dependence", Query: q2, QueryHex: hx(q2), Data: d, Expected: trunc(ref, 300), Got: trunc(after, 300), Cls: "round10/one-query-after-another",
						Why: "after " + q1 + " the same document in the carrier " + names[i] + " gives another answer than in the carrier " + names[0], Key: "carrier:round10/one-query-after-another:" + lastFunc(q2)})
				}
			}
		}
	}
}

// lists held in []any whose objects are of DIFFERENT carriers: struct types that declare the same keys at other positions, pointers to
// them, maps, a struct that lacks the key - the key stepped across the list yields that key's value from every element that has it,
// whatever the first element happens to be
func r11ListsOfMixedObjects(c *Ctx) {
	n := func(v int) *TV { return tvInt("int", fmt.Sprint(v)) }
	orderLine := func(q, p int) *TV { return tvStruct([][3]any{{"Qty", 1, n(q)}, {"Price", 1, n(p)}}) }
	quoteLine := func(q, p int) *TV { return tvStruct([][3]any{{"Price", 1, n(p)}, {"Note", 1, tvStr("x")}, {"Qty", 1, n(q)}}) }
	asMap := func(q, p int) *TV { return tvMap("str", [][2]any{kv("Qty", n(q)), kv("Price", n(p))}) }
	onlyA := func() *TV { return tvStruct([][3]any{{"A", 1, n(1)}}) }
	doc := func(xs ...*TV) *TV { return tvMap("str", [][2]any{kv("xs", tvSlice(1, xs...))}) }
	names := []string{"all-maps", "mixed"}
	pairs := [][2]*TV{
		{doc(asMap(1, 10), asMap(2, 20), asMap(4, 40)), doc(orderLine(1, 10), quoteLine(2, 20), tvPtr(orderLine(4, 40)))},
		{doc(asMap(1, 10), asMap(2, 20)), doc(orderLine(1, 10), asMap(2, 20))},
		{doc(asMap(1, 10), asMap(2, 20), asMap(4, 40)), doc(quoteLine(1, 10), orderLine(2, 20), asMap(4, 40))},
		{doc(asMap(1, 10), asMap(2, 20), asMap(4, 40)), doc(tvPtr(quoteLine(1, 10)), tvPtr(orderLine(2, 20)), quoteLine(4, 40))},
		{doc(tvMap("str", [][2]any{kv("A", n(1))}), asMap(2, 3)), doc(onlyA(), orderLine(2, 3))},
		{doc(asMap(1, 2), tvMap("str", [][2]any{kv("Qty", n(5))})), doc(orderLine(1, 2), tvStruct([][3]any{{"Qty", 1, n(5)}}))},
	}
	for _, pr := range pairs {
		ds := []*TV{pr[0], pr[1]}
		for _, key := range []string{"Qty", "Price", "qty", "PRICE"} {
			for _, agg := range []string{"", ".Sum()", ".Count()", ".Index(1)", ".Last()", ".First()", ".Maximum()", ".Average()"} {
				c.sameAcross("$.xs."+key+agg, names, ds, "round11/lists-of-mixed-objects")
			}
			c.sameAcross("$.xs.Select(\"$."+key+"\").Sum()", names, ds, "round11/lists-of-mixed-objects")
		}
		c.sameAcross("$.xs[@.Qty.Greater(1)].Price", names, ds, "round11/lists-of-mixed-objects")
	}
}

// lists that hold a truth value next to the text that spells it (true / "true", false / "false"): a predicate that tells them apart
// keeps exactly the ones it holds for - two elements that PRINT alike are two elements
func r12PrimitivesThatPrintAlike(c *Ctx) {
	xs := func(ei int) *TV {
		return tvSlice(ei, tvBool(true), tvStr("true"), tvBool(false), tvStr("false"), tvBool(true), tvStr("x"), tvStr("true"))
	}
	docs := []*TV{tvMap("str", [][2]any{kv("xs", xs(1)), kv("want", tvBool(true)), kv("text", tvStr("true")), kv("no", tvBool(false))}),
		tvStruct([][3]any{{"Xs", 1, xs(1)}, {"Want", 1, tvBool(true)}, {"Text", 1, tvStr("true")}, {"No", 1, tvBool(false)}})}
	for _, d := range docs {
		for _, q := range []string{"$.xs[@.Equal(true)]", `$.xs[@.Equal("true")]`, "$.xs[@.Equal($.want)]", "$.xs[@.Equal($.text)]", "$.xs[@.NotEqual(false)]", `$.xs[@.NotEqual("false")]`,
			`$.xs[@.AnyOf("false",true)]`, "$.xs[@.Equal(false)].Count()", `$.xs[OR,@.Equal("true"),@.Equal(false)]`, `$.xs[@.Equal(true)][@.Equal(true)]`, "$.xs[@.Equal($.no)]", `$.xs[@.AnyOf($.text,$.no)].Count()`} {
			c.Do(Case{Q: q, D: d, Cls: "round12/primitives-that-print-alike", InDomain: true})
		}
	}
}

// keys whose other letter case is LONGER or SHORTER in UTF-8 (ß / ẞ, the Kelvin sign / k, the long s / s, Å / the Angstrom sign): matched
// without regard to letter case in every carrier, struct fields included
func r12KeysWhoseOtherCaseHasAnotherLength(c *Ctx) {
	type pair struct{ field, asked string }
	pairs := []pair{{"Straße", "STRAẞE"}, {"Temp_k", "temp_\u212a"}, {"Masse", "ma\u017f\u017fe"}, {"Ångström", "\u212bngström"}, {"Kelvin", "\u212aelvin"}, {"Ohm_ω", "ohm_\u2126"}}
	var mk, sk [][2]any
	var sf [][3]any
	for i, p := range pairs {
		mk = append(mk, kv(p.field, tvF64(float64(i+1))))
		sf = append(sf, [3]any{p.field, 1, tvF64(float64(i + 1))})
		sk = append(sk, kv(p.field, tvF64(float64(i+1))))
	}
	row := func(asStruct bool, v float64) *TV {
		if asStruct {
			return tvStruct([][3]any{{"Straße", 1, tvF64(v)}, {"Kelvin", 1, tvF64(v + 1)}})
		}
		return tvMap("str", [][2]any{kv("Straße", tvF64(v)), kv("Kelvin", tvF64(v+1))})
	}
	docs := []*TV{
		tvMap("str", [][2]any{kv("o", tvMap("str", mk)), kv("rows", tvSlice(1, row(false, 1), row(false, 5)))}),
		tvMap("str", [][2]any{kv("o", tvStruct(sf)), kv("rows", tvSlice(0, row(true, 1), row(true, 5)))}),
		tvMap("str", [][2]any{kv("o", tvPtr(tvStruct(sf))), kv("rows", tvSlice(1, tvPtr(row(true, 1)), row(true, 5)))}),
	}
	names := []string{"maps", "structs", "pointers-to-structs"}
	for _, p := range pairs {
		for _, k := range []string{p.field, p.asked} {
			c.sameAcross("$.o."+k, names, docs, "round12/keys-whose-other-case-has-another-length")
			c.sameAcross("$.o."+k+".Add(1)", names, docs, "round12/keys-whose-other-case-has-another-length")
			c.sameAcross("$.o."+k+"?.IsNull()", names, docs, "round12/keys-whose-other-case-has-another-length")
		}
	}
	for _, k := range []string{"Straße", "STRAẞE", "\u212aelvin", "kelvin"} {
		c.sameAcross("$.rows."+k, names, docs, "round12/keys-whose-other-case-has-another-length")
		c.sameAcross("$.rows."+k+".Sum()", names, docs, "round12/keys-whose-other-case-has-another-length")
		c.sameAcross("$.rows[@."+k+".Greater(2)].Count()", names, docs, "round12/keys-whose-other-case-has-another-length")
	}
}

// whole numbers between 2^63 and 2^64 carried by Go's `uint` (not uint64), by a named type over it, behind a pointer, in a list, next to
// the same numbers as uint64, decimal and (where exact) float64: the same number in every carrier
func r12WideUnsignedAcrossCarriers(c *Ctx) {
	for _, v := range []string{"10000000000000000000", "12000000000000000000", "9223372036854775808", "18446744073709551615"} {
		named := tvInt("uint", v)
		named.N = 1
		carr := []*TV{tvInt("uint64", v), tvInt("uint", v), named, tvPtr(tvInt("uint", v)), tvDec(decimal.RequireFromString(v))}
		names := []string{"uint64", "uint", "named-uint", "pointer-to-uint", "decimal"}
		var docs []*TV
		for _, t := range carr {
			docs = append(docs, tvMap("str", [][2]any{kv("n", t), kv("xs", tvSlice(1, t, tvF64(1))), kv("five", tvF64(5))}))
		}
		docs = append(docs, tvMap("str", [][2]any{kv("n", tvInt("uint", v)), kv("xs", tvSlice(0, tvInt("uint", v), tvInt("uint", "1"))), kv("five", tvF64(5))}))
		names = append(names, "typed-list-of-uint")
		for _, q := range []string{"$.n", "$.n.Add(1)", "$.n.Greater($.five)", "$.n.Less(5)", "$.xs.Sum()", "$.xs.Maximum()", "$.xs.First()", "$.n.Equal($.xs.First())", "$.n.Divide(2)", "$.n.IsEmpty()", "$.five.Less($.n)"} {
			c.sameAcross(q, names, docs, "round12/wide-unsigned-across-carriers")
		}
	}
}

// numbers kept as text that starts with the decimal point (".5", ".05e1", "-.5", "+.5") or ends with it ("5."): the number they spell,
// in every relation, like the same number in any other storage
func r12NumeralsThatStartWithADot(c *Ctx) {
	for _, pr := range [][2]string{{".5", "0.5"}, {".05e1", "0.5"}, {"-.5", "-0.5"}, {"+.5", "0.5"}, {"5.", "5"}, {".5e1", "5"}, {"-.25e0", "-0.25"}, {".0", "0"}} {
		d := decimal.RequireFromString(pr[1])
		f, _ := d.Float64()
		names := []string{"decimal", "text-with-a-dot-first", "float64", "plain-text"}
		docs := []*TV{tvMap("str", [][2]any{kv("n", tvDec(d)), kv("one", tvF64(1))}), tvMap("str", [][2]any{kv("n", tvStr(pr[0])), kv("one", tvF64(1))}),
			tvMap("str", [][2]any{kv("n", tvF64(f)), kv("one", tvF64(1))}), tvMap("str", [][2]any{kv("n", tvStr(pr[1])), kv("one", tvF64(1))})}
		for _, q := range []string{"$.n.Equal(" + pr[1] + ")", "$.n.NotEqual(" + pr[1] + ")", "$.n.Less(1)", "$.n.Greater(0)", "$.n.LessOrEqual(" + pr[1] + ")", "$.n.GreaterOrEqual(" + pr[1] + ")", "$.n.Less($.one)",
			"$.one.Greater($.n)", "$.n.AnyOf(7," + pr[1] + ")", "$.n.Equal(\"" + pr[0] + "\")", "$.n.Equal(\"" + pr[1] + "\")", "$.one.Equal($.n)", "$.n.Less(-1)"} {
			c.sameAcross(q, names, docs, "round12/numerals-that-start-with-a-dot")
		}
	}
}

// text that holds bytes which are not UTF-8 (Latin-1 text, a lone 0xff) next to characters that are written with an escape in a
// literal: a text equals itself, and two texts that differ in such a byte are different
func r12TextWithBytesThatAreNotUTF8(c *Ctx) {
	texts := []string{"\xff\n", "caf\xe9\tau lait", "caf\xe8\tau lait", "\xe9\"q\"", "a\xc3", "\xff\xfe\r\n", "na\xefve\n"}
	lit := func(s string) string {
		r := strings.NewReplacer("\\", "\\\\", "\"", "\\\"", "\n", "\\n", "\t", "\\t", "\r", "\\r")
		return "\"" + r.Replace(s) + "\""
	}
	for _, a := range texts {
		for _, b := range texts {
			d := tvMap("str", [][2]any{kv("s", tvStr(a)), kv("o", tvStr(b))})
			x := "b:0"
			if a == b {
				x = "b:1"
			}
			c.Do(Case{Q: "$.s.Equal(" + lit(b) + ")", D: d, XK: "logical", X: x, Cls: "round12/text-with-bytes-that-are-not-utf8", InDomain: true})
			c.Do(Case{Q: "$.s.Equal($.o)", D: d, XK: "logical", X: x, Cls: "round12/text-with-bytes-that-are-not-utf8", InDomain: true})
			c.Do(Case{Q: "$.s.AnyOf(\"zz\"," + lit(b) + ")", D: d, XK: "logical", X: x, Cls: "round12/text-with-bytes-that-are-not-utf8", InDomain: true})
		}
	}
}

// numbers whose decimal coefficient is a multiple of 2^64 (their low 64 bits are all zero): not zero, so neither empty nor equal to 0
func r12NumbersWhoseCoefficientIsAMultipleOfTwoToThe64(c *Ctx) {
	preds := []string{"IsNull()", "IsNotNull()", "IsEmpty()", "IsNotEmpty()", "IsNullOrEmpty()", "IsNotNullOrEmpty()", "Equal(0)", "Greater(0)"}
	for _, v := range []string{"18446744073709551616", "1.8446744073709551616", "-36893488147419103232", "55340232221128654848", "184467440737095516160", "0.000018446744073709551616"} {
		docs := []*TV{tvMap("str", [][2]any{kv("v", tvDec(decimal.RequireFromString(v)))}), tvMap("str", [][2]any{kv("v", tvStr(v))}), tvStruct([][3]any{{"V", 1, tvDec(decimal.RequireFromString(v))}}),
			tvMap("str", [][2]any{kv("v", tvPtr(tvDec(decimal.RequireFromString(v))))})}
		for _, d := range docs {
			for _, pr := range preds {
				c.Do(Case{Q: "$.v." + pr, D: d, Cls: "round12/coefficient-a-multiple-of-2^64", InDomain: true})
				c.Do(Case{Q: "$.v?." + pr, D: d, Cls: "round12/coefficient-a-multiple-of-2^64", InDomain: true})
			}
		}
	}
}

// numbers kept as text with an explicit sign, a leading dot or padding zeros ("+0.1", "+1.5e-3", "-.5", "010", "0100", "-017", "+5") as the
// RECEIVER of the arithmetic and aggregate functions, as an argument and as an element: the number they spell, like the same number as a decimal
func r12SignedNumeralTextAsOperands(c *Ctx) {
	for _, t := range []string{"+0.1", "+1.5e-3", "-.5", "+5", "010", "0100", "-017", "+.25", "007", "+0", "1_0"} {
		d, err := decimal.NewFromString(t)
		if err != nil {
			continue // not a numeral for the library: outside what the property quantifies over
		}
		names := []string{"decimal", "text"}
		mk := func(v *TV) *TV {
			return tvMap("str", [][2]any{kv("n", v), kv("xs", tvSlice(1, v, tvF64(5), v)), kv("two", tvF64(2))})
		}
		docs := []*TV{mk(tvDec(d)), mk(tvStr(t))}
		for _, q := range []string{"$.n.Sum(0.2)", "$.n.Add(1)", "$.n.Subtract(1)", "$.n.Multiply(2)", "$.n.Divide(4)", "$.n.Modulo(3)", "$.n.Average(0.3)", "$.n.Minimum(5)", "$.n.Maximum(-5)", "$.two.Add($.n)",
			"$.two.Multiply($.n)", "$.xs.Sum()", "$.xs.Average()", "$.xs.Maximum()", "$.two.Sum($.xs)", "$.two.Add(\"" + t + "\")", "$.two.Sum(\"" + t + "\",1)"} {
			c.sameAcross(q, names, docs, "round12/signed-numeral-text-as-operands")
		}
	}
}
