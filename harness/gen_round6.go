package main

// Deterministic blocks added in the sixth round. Like those of gen_round4.go they draw no random numbers and run before the
// generator of the property; every case is in the domain, so the model decides unless an expectation is given.

import (
	"strings"

	"github.com/shopspring/decimal"
)

func round6(c *Ctx) {
	switch c.Prop {
	case "C07", "C10", "C11":
		r6AsJSON(c)
	case "C17":
		r6KeysThatFoldTogetherAcrossElements(c)
	case "C19":
		r6NilThenSetStructPointers(c)
	}
}

// AsJSON is inside the model since round six (Mp/JsonOut.lean): texts that need escapes, keys that need sorting, numbers of every kind
// and scale, nil pointers and nil containers, and the text parsed again inside the query
func r6AsJSON(c *Ctx) {
	dec := func(coef int64, exp int32) *TV { return tvDec(decimal.New(coef, exp)) }
	inner := tvMap("str", [][2]any{kv("b", tvStr("x")), kv("a", tvBool(true)), kv("B", tvNil()), kv("ab", tvSlice(1, tvStr("p"), tvBool(false), tvNil())), kv("", tvStr("empty key"))})
	docs := []*TV{
		tvMap("str", [][2]any{kv("zeta", tvStr("plain")), kv("alpha", tvStr("a\"b\\c")), kv("Alpha", tvStr("tab\there\nnl\rcr")), kv("mid", tvStr("<tag> & \x01\x1f\x7f \b\f"))}),
		tvMap("str", [][2]any{kv("n", dec(1250, -2)), kv("m", dec(-5, 3)), kv("z", dec(0, 1)), kv("small", dec(7, -5)), kv("neg", dec(-1005, -3)), kv("whole", dec(4200, -2)), kv("i", tvInt("int", "-12")), kv("u", tvInt("uint64", "18446744073709551615"))}),
		tvMap("str", [][2]any{kv("o", inner), kv("list", tvSlice(1, inner, tvStr("s"), dec(15, -1))), kv("nilptr", tvNilPtr(tvStr("x"))), kv("ptr", tvPtr(tvStr("behind"))), kv("nilslice", &TV{T: "slice", EI: 1, Nil: 1, V: []*TV{}}), kv("emptylist", tvSlice(1))}),
		tvMap("str", [][2]any{kv("k\"q", tvStr("v")), kv("k\\q", tvStr("w")), kv("k", tvStr("u")), kv("K", tvStr("U")), kv("k ", tvStr("sp")), kv("k!", tvStr("bang"))}),
		tvStruct([][3]any{{"Name", 1, tvStr("n")}, {"Tags", 1, tvSlice(0, tvStr("t1"), tvStr("t2"))}, {"Count", 1, tvInt("int", "3")}}),
		tvMap("named", [][2]any{kv("y", tvStr("1")), kv("x", tvNStr("named text"))}),
	}
	qs := []string{"$.AsJSON()", "$.o.AsJSON()", "$.list.AsJSON()", "$.alpha.AsJSON()", "$.mid.AsJSON()", "$.Alpha.AsJSON()", "$.n.AsJSON()", "$.m.AsJSON()", "$.z.AsJSON()", "$.small.AsJSON()",
		"$.neg.AsJSON()", "$.whole.AsJSON()", "$.i.AsJSON()", "$.u.AsJSON()", "$.nilptr.AsJSON()", "$.ptr.AsJSON()", "$.nilslice.AsJSON()", "$.emptylist.AsJSON()", "$.o.ab.AsJSON()",
		"$.AsJSON().ParseJSON()", "$.o.AsJSON().ParseJSON().b", "$.o.AsJSON().ParseJSON().ab.Count()", "$.AsJSON().ParseJSON().o.AsJSON()", "$.list.First().AsJSON().ParseJSON().a", "$.AsJSON(1)",
		"$.Tags.AsJSON()", "$.Name.AsJSON()", "$.x.AsJSON()", "$.AsJSON().Left(12)", `$.list[@.b.Equal("x")].AsJSON()`, `$.list.Select("$.b").AsJSON()`}
	for _, d := range docs {
		for _, q := range qs {
			c.Do(Case{Q: q, D: d, Cls: "round6/asjson", InDomain: true})
		}
	}
}

// a key stepped across a list of objects whose elements spell it differently, some holding two spellings at once: every element is
// asked on its own (the exact spelling first, otherwise the least key equal under folding), so `xs.k.<Agg>()` is `xs.Select("$.k").<Agg>()`
func r6KeysThatFoldTogetherAcrossElements(c *Ctx) {
	f := func(x float64) *TV { return tvF64(x) }
	lists := [][]*TV{
		{tvMap("str", [][2]any{kv("K", f(1))}), tvMap("str", [][2]any{kv("K", f(10)), kv("k", f(2))})},
		{tvMap("str", [][2]any{kv("k", f(1))}), tvMap("str", [][2]any{kv("k", f(2)), kv("K", f(10))}), tvMap("str", [][2]any{kv("K", f(100))})},
		{tvMap("str", [][2]any{kv("Ab", f(1))}), tvMap("str", [][2]any{kv("AB", f(5)), kv("Ab", f(6))}), tvMap("str", [][2]any{kv("aB", f(7)), kv("ab", f(8)), kv("AB", f(9))})},
		{tvMap("str", [][2]any{kv("ab", f(1)), kv("z", f(0))}), tvMap("str", [][2]any{kv("AB", f(5)), kv("aB", f(6))}), tvMap("str", [][2]any{kv("z", f(3))}), tvMap("str", [][2]any{kv("Ab", f(7)), kv("ab", f(8))})},
	}
	for _, l := range lists {
		for _, carrier := range []int{0, 1} {
			var xs *TV
			if carrier == 0 {
				xs = tvSlice(1, l...)
			} else {
				xs = tvArray(1, l...)
			}
			d := tvMap("str", [][2]any{kv("xs", xs)})
			for _, key := range []string{"k", "K", "ab", "AB", "Ab", "aB"} {
				for _, agg := range []string{"Sum()", "Maximum()", "Minimum()", "Average()", "Count()", "First()", "Last()", "AsArray()"} {
					a := c.Do(Case{Q: "$.xs." + key + "." + agg, D: d, Cls: "round6/keys-that-fold-together", InDomain: true})
					b := c.Do(Case{Q: `$.xs.Select("$.` + key + `").` + agg, D: d, Cls: "round6/keys-that-fold-together", InDomain: true})
					// an element that lacks the key is skipped by the projection and is an error for Select: the identity speaks about the lists
					// in which every element has the key
					if agg != "AsArray()" && b.Class != "KNF" && (a.Class != b.Class || (a.Class == "ok" && a.Logical != b.Logical)) {
						c.addViolation(Violation{Kind: "identity", Query: "$.xs." + key + "." + agg, QueryHex: hx("$.xs." + key + "." + agg), Data: d, Expected: trunc(b.Class+" "+b.Logical, 300), Got: trunc(a.Class+" "+a.Logical, 300),
							Cls: "round6/keys-that-fold-together", Key: "identity:projection-vs-select:" + agg, Why: "an aggregate over a key stepped across the objects differs from the aggregate over Select of that key"})
					}
				}
			}
		}
	}
}

// struct carriers with a pointer-to-struct field that is set in one document and nil in the next: the same query text is asked of
// both, in both orders, and inside a filter whose elements alternate (the operation parsed for the first document is kept by the
// runner and asked again on the second)
func r6NilThenSetStructPointers(c *Ctx) {
	owner := func(name string) *TV {
		return tvPtr(tvStruct([][3]any{{"Name", 1, tvStr(name)}, {"Age", 1, tvInt("int", "4")}}))
	}
	noOwner := tvNilPtr(tvStruct([][3]any{{"Name", 1, tvStr("")}, {"Age", 1, tvInt("int", "0")}}))
	item := func(id string, o *TV) *TV { return tvStruct([][3]any{{"ID", 1, tvStr(id)}, {"Owner", 1, o}}) }
	with, without := item("a", owner("ann")), item("b", noOwner)
	docs := []*TV{with, without, with, without, without, with}
	qs := []string{"$.Owner?.Name.IsNull()", "$.Owner?.Name?.IsNull()", "$.Owner?.Name.IsNotNull()", "$.Owner?.Name.IsEmpty()", "$.Owner?.Name.IsNullOrEmpty()", "$.Owner?.Name.IsNotNullOrEmpty()", "$.Owner?.Name.IsNotEmpty()",
		"$.Owner.Name.IsNull()", "$.Owner?.Age?.IsNull()", "$.Owner?.Name", "$.Owner.Name", "$.Owner?.IsNull()"}
	for _, q := range qs {
		for _, d := range docs {
			c.Do(Case{Q: q, D: d, Cls: "round6/nil-then-set-struct-pointers", InDomain: true})
		}
	}
	for _, order := range [][]*TV{{with, without}, {without, with}, {with, without, with}, {without, without, with, without}} {
		d := tvStruct([][3]any{{"Items", 1, tvSlice(0, order...)}})
		dAny := tvMap("str", [][2]any{kv("items", tvSlice(1, order...))})
		for _, q := range []string{"$.Items[@.Owner?.Name.IsNull()]", "$.Items[@.Owner?.Name?.IsNull()].Count()", "$.Items[@.Owner?.Name.IsNotNull()].Count()", `$.Items.Select("$.Owner?.Name?.IsNull()")`, "$.Items[@.Owner?.IsNull()].Count()"} {
			c.Do(Case{Q: q, D: d, Cls: "round6/nil-then-set-struct-pointers/filter", InDomain: true})
			c.Do(Case{Q: strings.Replace(q, "$.Items", "$.items", 1), D: dAny, Cls: "round6/nil-then-set-struct-pointers/filter", InDomain: true})
		}
	}
}
