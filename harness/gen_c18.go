package main

// C18: string functions mean what their names say. The expected value of every case is computed here with Go's own
// strings / regexp packages applied to the inputs (never through mpath):
//   Contains/Prefix/Suffix            = strings.Contains / HasPrefix / HasSuffix, the Not… forms their exact negations
//                                       (plus a relational check on the implementation's own two answers),
//   Left/Right/TrimLeft/TrimRight(n)  = first n / last n characters, or the text without them, clamped at the length
//                                       (whole n ≥ 0, ASCII text),
//   ReplaceAll(find, repl)            = strings.ReplaceAll for a non-empty find,
//   DoesMatchRegex(p)                 = regexp.MustCompile(p).MatchString(s), ReplaceRegex(p, t) = re.ReplaceAllString(s, t),
//                                       an invalid pattern fails (class ERR).
// Receivers that are numerals (anything decimal.NewFromString accepts) are read as numbers by mpath and are outside the
// property: they are kept in their own out-of-domain class. Arbitrary strings reach the query through the DATA (path
// arguments); literals are used only for strings that need no escaping.

import (
	"regexp"
	"strconv"
	"strings"
	"unicode/utf8"

	"github.com/shopspring/decimal"
)

func init() { evalGens["C18"] = genC18 }

// ---------- small helpers ----------

func c18IsNumeral(s string) bool {
	_, err := decimal.NewFromString(s)
	return err == nil
}

// c18LitSafe: s can be written between double quotes in query text and comes back unchanged (no quote, no backslash,
// nothing the scanner objects to inside a string literal).
func c18LitSafe(s string) bool {
	if !utf8.ValidString(s) {
		return false
	}
	for _, r := range s {
		if r < 0x20 || r == 0x7f || r == '"' || r == '\\' || r == utf8.RuneError || r == 0xFEFF {
			return false
		}
	}
	return true
}

func c18IsASCII(s string) bool {
	for i := 0; i < len(s); i++ {
		if s[i] >= 0x80 {
			return false
		}
	}
	return true
}

func c18Lit(s string) string { return `"` + s + `"` }
func c18S(s string) string   { return "s:" + hx(s) }
func c18B(b bool) string     { return "b:" + b2s(b) }

// c18Obj builds the data object: alternating key, *TV.
func c18Obj(kv ...any) *TV {
	kvs := [][2]any{}
	for i := 0; i+1 < len(kv); i += 2 {
		kvs = append(kvs, [2]any{hx(kv[i].(string)), kv[i+1].(*TV)})
	}
	return tvMap("str", kvs)
}

// all strings over alpha of length 0..maxLen, shortest first
func c18AllStrings(alpha string, maxLen int) []string {
	out := []string{""}
	prev := []string{""}
	for l := 1; l <= maxLen; l++ {
		var cur []string
		for _, p := range prev {
			for i := 0; i < len(alpha); i++ {
				cur = append(cur, p+alpha[i:i+1])
			}
		}
		out = append(out, cur...)
		prev = cur
	}
	return out
}

// ---------- the substring family ----------

type c18BoolFn struct {
	name string
	neg  string
	fn   func(s, sub string) bool
}

var c18BoolFns = []c18BoolFn{
	{"Contains", "NotContains", strings.Contains},
	{"Prefix", "NotPrefix", strings.HasPrefix},
	{"Suffix", "NotSuffix", strings.HasSuffix},
}

// c18BoolAll runs the six boolean functions on (s, needle). asPath: the needle comes from the data. inDom=false: no
// expectation (numeral receivers).
func c18BoolAll(c *Ctx, s, needle string, asPath bool, cls string, inDom bool) {
	var d *TV
	arg := c18Lit(needle)
	if asPath {
		d = c18Obj("s", tvStr(s), "needle", tvStr(needle))
		arg = "$.needle"
	} else {
		d = c18Obj("s", tvStr(s))
	}
	for _, bf := range c18BoolFns {
		want := bf.fn(s, needle)
		cp := Case{Q: "$.s." + bf.name + "(" + arg + ")", D: d, Cls: cls, InDomain: inDom}
		cn := Case{Q: "$.s." + bf.neg + "(" + arg + ")", D: d, Cls: cls, InDomain: inDom}
		if inDom {
			cp.XK, cp.X = "logical", c18B(want)
			cn.XK, cn.X = "logical", c18B(!want)
		}
		op := c.Do(cp)
		on := c.Do(cn)
		c.Extra["negation_pairs_checked"] = asInt(c.Extra["negation_pairs_checked"]) + 1
		c18NegCoherent(c, cn.Q, d, cls, bf, op, on)
	}
}

// relational oracle on the implementation's own answers: the negated form is the negation of the plain form, and both
// fail or both succeed.
func c18NegCoherent(c *Ctx, q string, d *TV, cls string, bf c18BoolFn, op, on Outcome) {
	okP, okN := op.Class == "ok", on.Class == "ok"
	bad := ""
	switch {
	case okP != okN:
		bad = bf.name + " and " + bf.neg + " do not both succeed or both fail"
	case okP && okN:
		p, n := op.Logical, on.Logical
		if !((p == "b:1" && n == "b:0") || (p == "b:0" && n == "b:1")) {
			bad = bf.neg + " is not the negation of " + bf.name
		}
	}
	if bad != "" {
		c.addViolation(Violation{Kind: "relational", Query: q, QueryHex: hx(q), Data: d, Expected: "negation of " + op.Line(), Got: on.Line(),
			Why: bad, Cls: cls, Key: "negation:" + bf.neg})
	}
}

// ---------- the slicing family ----------

var c18SliceFns = []string{"Left", "Right", "TrimLeft", "TrimRight"}

// the specification on ASCII text: characters are bytes
func c18SliceWant(fn, s string, n int) string {
	if n > len(s) {
		n = len(s)
	}
	switch fn {
	case "Left":
		return s[:n]
	case "Right":
		return s[len(s)-n:]
	case "TrimLeft":
		return s[n:]
	}
	return s[:len(s)-n] // TrimRight
}

// c18SliceAll runs the four slicing functions on s with the argument text arg (which denotes the whole number n ≥ 0);
// extra are data entries next to "s".
func c18SliceAll(c *Ctx, s string, n int, arg string, cls string, extra ...any) {
	d := c18Obj(append([]any{"s", tvStr(s)}, extra...)...)
	inDom := c18IsASCII(s) && !c18IsNumeral(s)
	if !c18IsASCII(s) {
		cls = "random/slice-non-ascii(outside)" // the statement speaks of ASCII text only
	}
	for _, fn := range c18SliceFns {
		cs := Case{Q: "$.s." + fn + "(" + arg + ")", D: d, Cls: cls, InDomain: inDom}
		if inDom {
			cs.XK, cs.X = "logical", c18S(c18SliceWant(fn, s, n))
		}
		c.Do(cs)
	}
}

// the ways a whole number n can be handed over: 0 literal, 1 numeric string literal, 2 path to an int, 3 path to a
// numeric string, 4 path to a float64, 5 path to a decimal
func c18NForm(form, n int) (arg string, extra []any) {
	ns := strconv.Itoa(n)
	switch form {
	case 0:
		return ns, nil
	case 1:
		return c18Lit(ns), nil
	case 2:
		return "$.n", []any{"n", tvInt("int", ns)}
	case 3:
		return "$.n", []any{"n", tvStr(ns)}
	case 4:
		return "$.n", []any{"n", tvF64(float64(n))}
	}
	return "$.n", []any{"n", tvDec(decimal.NewFromInt(int64(n)))}
}

var c18NFormName = []string{"literal", "numeric-string", "path-int", "path-numeric-string", "path-f64", "path-decimal"}

// ---------- ReplaceAll ----------

func c18ReplaceAll(c *Ctx, s, find, repl string, asPath bool, cls string) {
	var d *TV
	args := c18Lit(find) + "," + c18Lit(repl)
	if asPath {
		d = c18Obj("s", tvStr(s), "find", tvStr(find), "repl", tvStr(repl))
		args = "$.find,$.repl"
	} else {
		d = c18Obj("s", tvStr(s))
	}
	inDom := find != "" && !c18IsNumeral(s)
	cs := Case{Q: "$.s.ReplaceAll(" + args + ")", D: d, Cls: cls, InDomain: inDom}
	if inDom {
		cs.XK, cs.X = "logical", c18S(strings.ReplaceAll(s, find, repl))
	}
	c.Do(cs)
}

// ---------- random strings ----------

var c18Wide = []rune("abcXYZ019 .,-_éüßñΩжд日本語한😀🙂́")

func c18RandRunes(r *rng, pool []rune, maxLen int) string {
	n := r.Intn(maxLen + 1)
	rs := make([]rune, n)
	for i := range rs {
		rs[i] = pool[r.Intn(len(pool))]
	}
	return string(rs)
}

func c18RandASCII(r *rng, maxLen int) string {
	n := r.Intn(maxLen + 1)
	b := make([]byte, n)
	for i := range b {
		switch r.Intn(40) {
		case 0:
			b[i] = "\n\t\r"[r.Intn(3)]
		default:
			b[i] = byte(0x20 + r.Intn(0x5f)) // printable, includes " and \
		}
	}
	return string(b)
}

// a receiver for the substring family: ASCII or not, never a numeral
func c18Receiver(r *rng, maxLen int) string {
	for {
		var s string
		switch r.Intn(6) {
		case 0:
			s = c18RandRunes(r, []rune("ab"), maxLen) // many overlapping occurrences
		case 1:
			s = c18RandRunes(r, []rune("abc -"), maxLen)
		case 2, 3:
			s = c18RandASCII(r, maxLen)
		default:
			s = c18RandRunes(r, c18Wide, maxLen)
		}
		if !c18IsNumeral(s) {
			return s
		}
	}
}

func c18ASCIIReceiver(r *rng, maxLen int) string {
	for {
		var s string
		switch r.Intn(4) {
		case 0:
			s = c18RandRunes(r, []rune("abc"), maxLen)
		case 1:
			s = c18RandRunes(r, []rune("abcdefghijklmnopqrstuvwxyz ABC019.,-_"), maxLen)
		default:
			s = c18RandASCII(r, maxLen)
		}
		if !c18IsNumeral(s) {
			return s
		}
	}
}

// a needle related to s (cut at rune boundaries so that everything stays valid UTF-8)
func c18Needle(r *rng, s string) string {
	rs := []rune(s)
	n := len(rs)
	cut := func() (int, int) {
		if n == 0 {
			return 0, 0
		}
		i := r.Intn(n + 1)
		l := r.Intn(6)
		if r.Intn(4) == 0 {
			l = r.Intn(n + 1)
		}
		j := i + l
		if j > n {
			j = n
		}
		return i, j
	}
	switch r.Intn(11) {
	case 0:
		return ""
	case 1:
		return s
	case 2:
		return s + "x"
	case 3: // prefix
		_, j := cut()
		return string(rs[:j])
	case 4: // suffix
		i, _ := cut()
		return string(rs[i:])
	case 5: // a substring with one rune changed
		i, j := cut()
		sub := append([]rune{}, rs[i:j]...)
		if len(sub) > 0 {
			sub[r.Intn(len(sub))] = c18Wide[r.Intn(len(c18Wide))]
		}
		return string(sub)
	case 6: // unrelated
		return c18RandRunes(r, c18Wide, 4)
	case 7: // prefix with a changed last rune / suffix with a changed first rune
		i, j := cut()
		if r.Bool() {
			sub := append([]rune{}, rs[:j]...)
			if len(sub) > 0 {
				sub[len(sub)-1] = 'q'
			}
			return string(sub)
		}
		sub := append([]rune{}, rs[i:]...)
		if len(sub) > 0 {
			sub[0] = 'q'
		}
		return string(sub)
	default: // substring
		i, j := cut()
		return string(rs[i:j])
	}
}

// ---------- regular expressions ----------

var c18ReLits = []string{"a", "b", "c", "0", "1", "2", " ", "-", "_", "A", "é"}
var c18ReEsc = []string{`\.`, `\d`, `\w`, `\s`, `\D`, `\W`, `\S`, `\-`, `\$`, `\pL`, `\x61`}
var c18ReClasses = []string{"[abc]", "[a-c]", "[^ab]", "[0-9]", "[^0-9a]", "[a-cA-C]", "[[:alpha:]]", "[[:digit:]_]", "[ab-]", `[\d.]`, "[éa]", "[^ ]"}
var c18ReAnchors = []string{"^", "$", `\b`, `\B`, `\A`, `\z`}
var c18ReQuants = []string{"*", "+", "?", "{2}", "{1,2}", "{0,1}", "{2,}", "*?", "+?", "??", "{1,3}?"}

func c18ReAtom(r *rng, depth int) string {
	k := r.Intn(16)
	switch {
	case k < 5:
		return r.Pick(c18ReLits)
	case k < 7:
		return r.Pick(c18ReEsc)
	case k < 8:
		return "."
	case k < 11:
		return r.Pick(c18ReClasses)
	case k < 12:
		return r.Pick(c18ReAnchors)
	default:
		if depth <= 0 {
			return r.Pick(c18ReLits)
		}
		inner := c18ReAlt(r, depth-1)
		switch r.Intn(6) {
		case 0:
			return "(?:" + inner + ")"
		case 1:
			return "(?P<n>" + inner + ")"
		case 2:
			return "(?i:" + inner + ")"
		default:
			return "(" + inner + ")"
		}
	}
}

func c18ReConcat(r *rng, depth int) string {
	n := 1 + r.Intn(4)
	var sb strings.Builder
	for i := 0; i < n; i++ {
		sb.WriteString(c18ReAtom(r, depth))
		if r.Intn(3) == 0 {
			sb.WriteString(r.Pick(c18ReQuants))
		}
	}
	return sb.String()
}

func c18ReAlt(r *rng, depth int) string {
	n := 1
	if r.Intn(3) == 0 {
		n = 2 + r.Intn(2)
	}
	var ps []string
	for i := 0; i < n; i++ {
		ps = append(ps, c18ReConcat(r, depth))
	}
	return strings.Join(ps, "|")
}

func c18Regex(r *rng) string {
	p := c18ReAlt(r, 2)
	switch r.Intn(12) {
	case 0:
		p = "^" + p
	case 1:
		p = p + "$"
	case 2:
		p = "^(" + p + ")$"
	case 3:
		p = "(?i)" + p
	}
	return p
}

// patterns that are not regular expressions (RE2 rejects them)
var c18BadPatterns = []string{"(", ")", "[a", "a**", "a{2,1}", "*a", "(?P<n", "a(b", "[b-a]", `\`, `\8`, "(?<n>a)(?<n>b)", "a{1001}", `\pX`, "(?z)", "+", "x{2}{3}*{", `[[:foo:]]`}

// backslash sequences in a LITERAL that were checked to come through the lexer and mpath's unescape unchanged
// (the letters a b f n r t v and the quote after a backslash would be rewritten, so they are not used)
var c18LitBackslashPatterns = []string{`\d`, `\d+`, `\w+`, `a\.b`, `^\w+$`, `\s`, `\D\D`, `(\d)(\d)`, `[\d.]+`, `\.`, `\S+`, `\W`, `(\w)-(\w)`}

var c18TmplPieces = []string{"$1", "${1}", "$0", "${0}", "$2", "${2}", "$n", "${n}", "$$", "x", "-", "<", ">", "$1x", "${1}x", "é", " ", "$", "$9", "[$1|$2]", "$1$1"}

func c18Template(r *rng) string {
	n := r.Intn(5)
	var sb strings.Builder
	for i := 0; i < n; i++ {
		sb.WriteString(r.Pick(c18TmplPieces))
	}
	return sb.String()
}

var c18ReSubjectPool = []rune("aaabbbccc0122  --__..AABCé")

func c18ReSubject(r *rng) string {
	for {
		s := c18RandRunes(r, c18ReSubjectPool, 30)
		if r.Intn(12) == 0 {
			s = c18Receiver(r, 60)
		}
		if !c18IsNumeral(s) {
			return s
		}
	}
}

// c18RegexCase: DoesMatchRegex or ReplaceRegex on s. lit: pattern (and template) written as literals (the caller has
// checked that they survive), otherwise passed through the data.
func c18RegexCase(c *Ctx, s, pat, tmpl string, replace, lit bool, cls string) {
	re, reErr := regexp.Compile(pat)
	d := c18Obj("s", tvStr(s), "pat", tvStr(pat), "tmpl", tvStr(tmpl))
	pa, ta := "$.pat", "$.tmpl"
	if lit {
		pa, ta = c18Lit(pat), c18Lit(tmpl)
		d = c18Obj("s", tvStr(s))
	}
	inDom := !c18IsNumeral(s)
	var cs Case
	if replace {
		cs = Case{Q: "$.s.ReplaceRegex(" + pa + "," + ta + ")", D: d, Cls: cls, InDomain: inDom}
		if pat == "" {
			// the empty pattern is a valid regular expression, but ReplaceRegex documents its first parameter as
			// "must not be empty" (like ReplaceAll's): not generated by the pattern grammar, kept outside the quantifier
			cs.InDomain, inDom = false, false
		}
	} else {
		cs = Case{Q: "$.s.DoesMatchRegex(" + pa + ")", D: d, Cls: cls, InDomain: inDom}
	}
	if inDom {
		switch {
		case reErr != nil:
			cs.XK, cs.X = "class", "ERR"
		case replace:
			cs.XK, cs.X = "logical", c18S(re.ReplaceAllString(s, tmpl))
		default:
			cs.XK, cs.X = "logical", c18B(re.MatchString(s))
		}
	}
	c.Do(cs)
}

// ---------- the generator ----------

var c18NumeralReceivers = []string{"12", "0123", "1e3", "-0.50", "0", "1.5", "+1", ".5", "007"}

func genC18(c *Ctx) {
	r := c.R
	maxS, maxSForms, maxFind, maxN := 5, 3, 2, 7
	if c.thorough() {
		maxS, maxSForms, maxFind, maxN = 6, 6, 3, 8
	}
	c.Rule = "EXHAUSTIVE blocks (all enumerated completely in both tiers, so exhaustive=true refers to them): " +
		"(B1) all strings of length ≤5 over {a,b,c} (≤6 in thorough) × all needles of length ≤3 incl. the empty needle × the six boolean functions, needle as a literal " +
		"(thorough: also as a path argument; quick: the path form on the complete smaller product strings ≤3 × needles ≤2); " +
		"(B2) the same strings × n in 0..7 (0..8 in thorough) × Left/Right/TrimLeft/TrimRight with n as a number literal, and n as a numeric string literal, as a path to an int, " +
		"to a numeric string, to a float64 and to a decimal on strings ≤3 in quick (all strings in thorough); " +
		"(B3) the same strings × all non-empty finds of length ≤2 (≤3 in thorough) × 4 replacements (empty, \"x\", \"x\"+find i.e. one containing the find, \"c\") for ReplaceAll. " +
		"RANDOM blocks: receivers of ≤60 runes (binary/small alphabets with overlapping occurrences, printable ASCII incl. quote, backslash and control characters, " +
		"multi-byte text with combining marks and astral runes), needles cut from the receiver (prefix, suffix, infix, one rune changed, the receiver itself, empty, unrelated), " +
		"n in 0..70 and beyond 2^31 in six argument forms incl. 3.0/03/1e1 spellings, ReplaceAll with finds cut from the receiver, " +
		"patterns from a regex grammar (literals, escapes, classes, capturing/non-capturing/named/case-folded groups, alternation, anchors, greedy and lazy quantifiers; " +
		"patterns RE2 rejects expect an error) with templates over $1 ${1} $0 $n $$ and text, on subjects over a small alphabet so that matches are common. " +
		"Arguments are literals when the text needs no escaping, otherwise (and half of the time anyway) paths into the data. " +
		"Expected values are computed with Go's strings/regexp on the inputs; every (plain, negated) pair is also checked for coherence on the implementation's own answers. " +
		"Out of domain (no expectation): numeral receivers, Left/Right/Trim on non-ASCII text, ReplaceRegex with the empty pattern. " +
		"distinct = distinct (function, argument form, data shape, outcome class); non-trivial = outcome class is not the most common one"

	strs := c18AllStrings("abc", maxS)
	needles := c18AllStrings("abc", 3)

	// B1: boolean functions, literal needle
	for _, s := range strs {
		for _, nd := range needles {
			c18BoolAll(c, s, nd, false, "exhaustive/bool/literal", true)
		}
	}
	// B1 with the needle as a path argument
	for _, s := range strs {
		if len(s) > maxSForms {
			continue
		}
		for _, nd := range needles {
			if !c.thorough() && len(nd) > 2 {
				continue
			}
			c18BoolAll(c, s, nd, true, "exhaustive/bool/path", true)
		}
	}
	// B2: slicing functions
	for _, s := range strs {
		for n := 0; n <= maxN; n++ {
			for form := 0; form < 6; form++ {
				if form > 0 && len(s) > maxSForms {
					continue
				}
				arg, extra := c18NForm(form, n)
				c18SliceAll(c, s, n, arg, "exhaustive/slice/"+c18NFormName[form], extra...)
			}
		}
	}
	// B3: ReplaceAll
	var finds []string
	for _, f := range c18AllStrings("abc", maxFind) {
		if f != "" {
			finds = append(finds, f)
		}
	}
	for _, s := range strs {
		for _, f := range finds {
			for _, rp := range []string{"", "x", "x" + f, "c"} {
				c18ReplaceAll(c, s, f, rp, false, "exhaustive/replaceall")
			}
		}
	}
	c.Exhaustive = true

	// ---------- random blocks ----------
	budget := c.scale(24000, 300000)

	// substring family: 12 cases per (receiver, needle)
	for i := 0; i < budget*36/100/12; i++ {
		s := c18Receiver(r, 60)
		nd := c18Needle(r, s)
		asPath := !c18LitSafe(nd) || r.Bool()
		cls := "random/bool/"
		if c18IsASCII(s) {
			cls += "ascii"
		} else {
			cls += "non-ascii"
		}
		if asPath {
			cls += "/path"
		} else {
			cls += "/literal"
		}
		c18BoolAll(c, s, nd, asPath, cls, true)
	}

	// slicing family: 4 cases per (receiver, n, form)
	bigN := []string{"2147483646", "2147483647", "2147483648", "4294967296", "1e30", "9223372036854775808", "1000000"}
	for i := 0; i < budget*20/100/4; i++ {
		var s string
		nonASCII := r.Intn(8) == 0
		if nonASCII {
			for {
				s = c18RandRunes(r, c18Wide, 60)
				if !c18IsASCII(s) && !c18IsNumeral(s) {
					break
				}
			}
		} else {
			s = c18ASCIIReceiver(r, 60)
		}
		lbl := "random/slice/"
		switch k := r.Intn(10); {
		case k == 0: // far beyond the length
			t := r.Pick(bigN)
			switch r.Intn(3) {
			case 0:
				c18SliceAll(c, s, len(s), t, lbl+"huge-literal")
			case 1:
				c18SliceAll(c, s, len(s), c18Lit(t), lbl+"huge-numeric-string")
			default:
				c18SliceAll(c, s, len(s), "$.n", lbl+"huge-path", "n", tvDec(decimal.RequireFromString(t)))
			}
		case k == 1: // other spellings of a whole number
			n := r.Intn(70)
			ns := strconv.Itoa(n)
			sp := []string{ns + ".0", "0" + ns, ns + ".00", "+" + ns}
			if n%10 == 0 && n > 0 {
				sp = append(sp, strconv.Itoa(n/10)+"e1")
			}
			t := r.Pick(sp)
			// what the spelling denotes is settled by the same conversions the language documents: ParseFloat for
			// literals, decimal.NewFromString for numeral strings; both must give the whole number n
			if dv, err := decimal.NewFromString(t); err != nil || !dv.Equal(decimal.NewFromInt(int64(n))) {
				continue
			}
			switch r.Intn(3) {
			case 0:
				c18SliceAll(c, s, n, t, lbl+"spelling-literal")
			case 1:
				c18SliceAll(c, s, n, c18Lit(t), lbl+"spelling-numeric-string")
			default:
				c18SliceAll(c, s, n, "$.n", lbl+"spelling-path-numeric-string", "n", tvStr(t))
			}
		default:
			n := r.Intn(70)
			switch r.Intn(5) {
			case 0:
				n = len(s)
			case 1:
				n = len(s) + 1 - r.Intn(3)
				if n < 0 {
					n = 0
				}
			}
			form := r.Intn(6)
			arg, extra := c18NForm(form, n)
			if form == 2 && r.Bool() { // other integer carriers
				k := []string{"int64", "int32", "uint8", "uint64", "int16"}[r.Intn(5)]
				extra = []any{"n", tvInt(k, strconv.Itoa(n))}
			}
			c18SliceAll(c, s, n, arg, lbl+c18NFormName[form], extra...)
		}
	}

	// ReplaceAll
	for i := 0; i < budget*12/100; i++ {
		s := c18Receiver(r, 60)
		var f string
		for f == "" {
			f = c18Needle(r, s)
			if r.Intn(3) == 0 {
				f = c18RandRunes(r, []rune("ab"), 3)
			}
		}
		var rp string
		switch r.Intn(6) {
		case 0:
			rp = ""
		case 1:
			rp = f + f
		case 2:
			rp = c18RandRunes(r, c18Wide, 5)
		case 3:
			rp = c18RandASCII(r, 5)
		case 4:
			rp = "$1\\0"
		default:
			rp = c18RandRunes(r, []rune("abx"), 3)
		}
		asPath := !c18LitSafe(f) || !c18LitSafe(rp) || r.Bool()
		cls := "random/replaceall/literal"
		if asPath {
			cls = "random/replaceall/path"
		}
		c18ReplaceAll(c, s, f, rp, asPath, cls)
	}

	// regular expressions
	nre := budget * 30 / 100
	for i := 0; i < nre; i++ {
		s := c18ReSubject(r)
		replace := r.Bool()
		tmpl := c18Template(r)
		kind := r.Intn(40)
		switch {
		case kind == 0: // patterns RE2 rejects
			p := r.Pick(c18BadPatterns)
			lit := c18LitSafe(p) && c18LitSafe(tmpl) && r.Bool()
			c18RegexCase(c, s, p, tmpl, replace, lit, "random/regex/invalid-pattern")
		case kind == 1: // literal patterns with backslash sequences that survive lexing
			p := r.Pick(c18LitBackslashPatterns)
			if !c18LitSafe(tmpl) {
				tmpl = "<$1>"
			}
			c18RegexCase(c, s, p, tmpl, replace, true, "random/regex/literal-backslash")
		case kind == 2: // the receiver itself, quoted: always matches, replaced as a whole
			p := "^" + regexp.QuoteMeta(s) + "$"
			c18RegexCase(c, s, p, tmpl, replace, false, "random/regex/quotemeta")
		case kind == 3 && i%4 == 0: // the empty pattern
			c18RegexCase(c, s, "", tmpl, replace, r.Bool() && c18LitSafe(tmpl), "random/regex/empty-pattern")
		default:
			p := c18Regex(r)
			lit := c18LitSafe(p) && c18LitSafe(tmpl) && r.Bool()
			cls := "random/regex/"
			if replace {
				cls += "replace"
			} else {
				cls += "match"
			}
			if _, err := regexp.Compile(p); err != nil {
				cls = "random/regex/invalid-pattern"
			} else if lit {
				cls += "/literal"
			} else {
				cls += "/path"
			}
			c18RegexCase(c, s, p, tmpl, replace, lit, cls)
		}
	}

	// zero written with an exponent - as a numeral string, through a path, as a decimal of that scale: the count 0 whatever its scale
	for _, s := range []string{"abcDEF", "x", "héllo wörld"} {
		for _, z := range []string{"0e10", "0E+10", "0e9", "0e-10", "0.0e12", "0e31", "0.000e15"} {
			c18SliceAll(c, s, 0, c18Lit(z), "named/zero-with-an-exponent/numeric-string")
			c18SliceAll(c, s, 0, "$.n", "named/zero-with-an-exponent/path-numeric-string", "n", tvStr(z))
			c18SliceAll(c, s, 0, "$.n", "named/zero-with-an-exponent/path-decimal", "n", tvDec(decimal.RequireFromString(z)))
		}
	}
	// patterns anchored with \A, \z, \b and flags: the whole text (or a word), not a part of it
	{
		anch := []string{`\Aabc\z`, `\Aab`, `bc\z`, `(?s)^abc$`, `\bab\b`, `\Aabc$`, `^abc\z`, `(?m)^abc$`, `\A\z`, `\Aa.c\z`, `\Aabc\z|zzz`, `(?i)\AABC\z`}
		for _, p := range anch {
			for si, sub := range []string{"abc", "xabcx", "abcx", "xabc", "ab", "a\nc", "abc\n", "x ab y", "xaby", "ABC", "xABCx"} {
				c18RegexCase(c, sub, p, "<$0>", false, false, "named/anchored-patterns")
				c18RegexCase(c, sub, p, "-", true, false, "named/anchored-patterns")
				if c18LitSafe(p) && si%2 == 0 {
					c18RegexCase(c, sub, p, "-", false, true, "named/anchored-patterns")
				}
			}
		}
	}
	// patterns in which a group opener, a class or an escape stands next to `?`, `<`, `P` - where a textual rewrite of the pattern
	// (instead of handing it to the regexp package as it is) goes wrong - and every new string constant of the source as a pattern
	// fragment; subjects are the fragments themselves with one character dropped, doubled or preceded by `P`
	{
		pats := []string{`\(\?<([a-z]+)>`, `x[(?<]`, `(?P<n>a+)b`, `(?<n>a+)b`, `\(\?P<`, `a\(?<b`, `[?<(]+`, `(?i)ab`, `(?:a|b)+`, `(?s:.)`, `\Q(?<\E`, `\$1`, `(a)(b)`, `^$`, `[[:alpha:]]+`, `\x41`, `\pL+`}
		subjects := []string{"<b>", "a<b", "xP", "(?<ab>", "(?P<ab>", "aab", "AB", "x(", "x?", "x<", "(?<", "$1", "ab", "", "A", "é"}
		for _, ns := range novelConsts().Strs {
			pats = append(pats, ns, regexp.QuoteMeta(ns), "["+regexp.QuoteMeta(ns)+"]", `\`+ns, "x"+ns)
			subjects = append(subjects, ns, ns+"x", "P"+ns)
			for i := range ns {
				subjects = append(subjects, ns[:i]+ns[i+1:], ns[:i]+"P"+ns[i:])
			}
		}
		for _, p := range pats {
			for si, sub := range subjects {
				if c18IsNumeral(sub) {
					continue
				}
				c18RegexCase(c, sub, p, "<$1>", si%2 == 0, false, "named/regex-syntax-corners")
				if c18LitSafe(p) && si%5 == 0 {
					c18RegexCase(c, sub, p, "-", si%2 == 1, true, "named/regex-syntax-corners")
				}
			}
		}
	}
	// byte strings that are not UTF-8 (Latin-1 text in a Go string) with one-byte search and replacement strings, ASCII and not
	{
		vals := []string{"caf\xe9 cr\xe8me", "\xff\xfe\xfd", "a\x80b\x80c", "\xe9", "na\xefve\xe9\xe9", "ab\xc3", "\xc3\xa9\xe9"}
		for _, v := range vals {
			for _, fr := range [][2]string{{"a", "b"}, {"e", "E"}, {"\xe9", "e"}, {"\x80", "-"}, {" ", "_"}, {"c", ""}, {"\xc3", "?"}, {"\xe9", "\xc9"}, {"zz", "y"}, {"a", "\xe9"}} {
				c18ReplaceAll(c, v, fr[0], fr[1], true, "named/non-utf8-bytes")
			}
			c18BoolAll(c, v, "\xe9", true, "named/non-utf8-bytes", true)
		}
	}
	// long texts: lengths around the usual buffer sizes and around every new integer constant of the source
	for li, L := range around([]int{63, 64, 65, 127, 128, 129, 255, 256, 257, 1000, 4096}, 20000) {
		s := strings.Repeat("ab", L/2) + strings.Repeat("c", L%2)
		for _, n := range []int{0, 1, L - 1, L, L + 1, L / 2} {
			if n < 0 {
				continue
			}
			arg, extra := c18NForm(li%6, n)
			c18SliceAll(c, s, n, arg, "named/long-texts", extra...)
		}
		c18BoolAll(c, s, "bc", false, "named/long-texts", true)
		c18BoolAll(c, s, s[L/3:], li%2 == 0, "named/long-texts", true)
		c18ReplaceAll(c, s, "b", "xy", li%2 == 1, "named/long-texts")
		c18ReplaceAll(c, s, s[:L-1], "", true, "named/long-texts")
	}

	// numeral receivers: outside the property (read as numbers), generic oracles and the model only
	for _, s := range c18NumeralReceivers {
		for _, nd := range []string{"", "1", "x"} {
			c18BoolAll(c, s, nd, false, "numeral-receiver(outside)", false)
		}
		c18SliceAll(c, s, 1, "1", "numeral-receiver(outside)")
		c18ReplaceAll(c, s, "1", "x", false, "numeral-receiver(outside)")
		c18RegexCase(c, s, "[0-9]", "x", false, true, "numeral-receiver(outside)")
		c18RegexCase(c, s, "[0-9]", "x", true, true, "numeral-receiver(outside)")
	}
}
