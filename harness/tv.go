package main

// Tagged values: the one encoding of Go data that both the Go harness (which builds the real value with
// reflect) and the Lean driver (which decodes it into GoVal) read.  Anything reflection cannot build
// (defined types, unexported fields) comes from the fixed families declared here.

import (
	"encoding/hex"
	"encoding/json"
	"fmt"
	"math"
	"reflect"
	"sort"
	"strconv"
	"strings"

	"github.com/shopspring/decimal"
)

type NInt int
type NInt8 int8
type NInt16 int16
type NInt32 int32
type NInt64 int64
type NUint uint
type NUint8 uint8
type NUint16 uint16
type NUint32 uint32
type NUint64 uint64
type NFloat64 float64

// values that contain themselves
type CycNode struct {
	Name  string
	Value int
	Next  *CycNode
	Kids  []*CycNode
}
type CycOrder struct {
	Number, XRef string
	Lines        []*CycLine
}
type CycLine struct {
	SKU   string
	Order *CycOrder
}

func tvCyc(k string) *TV { return &TV{T: "cyc", K: k} }

// tvPtrAny: a pointer to an interface variable (*any) that holds the value
func tvPtrAny(inner *TV) *TV { return &TV{T: "ptr", N: 1, V: inner} }

// NDec: a named type over decimal.Decimal (the model sees the decimal it holds; the exact canonical form of an unconverted one is nd:)
type NDec decimal.Decimal
type NString string
type NBool bool

// structs with an unexported field (reflection cannot create these)
type UnexpA struct {
	A int
	a int
}
type UnexpK struct {
	K string
	k string
}
type UnexpOnly struct {
	hidden int
}

// an unexported field BEFORE the exported ones: the index of a field among the exported fields differs from its index in the type
type UnexpFirst struct {
	hidden int
	A      int
	K      string
}

// two distinct types with the same (package-qualified) name and different layouts: both print as "main.Rec"
func mkRec1(k string, a int) any {
	type Rec struct {
		K string
		A int
	}
	return Rec{K: k, A: a}
}

func mkRec2(pad, priv int, k string) any {
	type Rec struct {
		Pad  int
		priv int
		K    string
	}
	return Rec{Pad: pad, priv: priv, K: k}
}

// named number types that have a String method (time.Duration, stringer enums, money types are like this)
type SDur int64
type SCents int
type SLevel uint8
type SRatio float64

func (d SDur) String() string   { return fmt.Sprintf("%dns", int64(d)) }
func (c SCents) String() string { return fmt.Sprintf("%d.%02d", int(c)/100, int(c)%100) }
func (l SLevel) String() string { return []string{"LOW", "MID", "HIGH"}[int(l)%3] }
func (r SRatio) String() string { return fmt.Sprintf("%.1f%%", float64(r)*100) }

type NFloat32 float32

// a private field BEFORE an exported field whose name differs from it in case only, and the other way round
type UnexpDup struct {
	id   int
	ID   string
	Name string
}
type UnexpDup2 struct {
	ID   string
	id   int
	Name string
}

// a struct that embeds a pointer to another struct (the promoted fields are not keys of the outer one)
type EmbInner struct {
	CreatedBy string
	Revision  int
}
type EmbOuter struct {
	*EmbInner
	ID int
}

// MarshObj: an object carried by a struct type that marshals itself (json.Marshaler and encoding.TextMarshaler): to the library it is
// an object with the keys K and N like any other struct; the model sees the plain struct
type MarshObj struct {
	K string
	N float64
}

func (m MarshObj) MarshalJSON() ([]byte, error) {
	return []byte(fmt.Sprintf(`{"K":%q,"N":%v}`, m.K, m.N)), nil
}
func (m MarshObj) MarshalText() ([]byte, error) { return []byte(m.K), nil }

// tvMarshObj: TV of a MarshObj (N == 7 on a struct TV selects the declared type)
func tvMarshObj(k string, n float64) *TV {
	return &TV{T: "struct", N: 7, V: [][3]any{{"K", 1, tvStr(k)}, {"N", 1, tvF64(n)}}}
}

// TV is the tagged value both sides read.
type TV struct {
	T   string   // nil bool str int f64 dec ptr slice array map struct func chan unexp
	N   int      // named type flag (int: 2 = named with a String method; f64: 2 = float32, 3 = named float32, 4 = named float64 with a String method)
	W   [][2]int // "win": the windows
	K   string   // int kind
	V   any      // payload
	C   string   // decimal coefficient
	E   string   // decimal exponent
	Nil int
	EI  int    // element type is interface
	KK  string // map key kind: str named iface
}

var anyT = reflect.TypeOf((*any)(nil)).Elem()

var intTypes = map[string][2]reflect.Type{
	"int": {reflect.TypeOf(int(0)), reflect.TypeOf(NInt(0))}, "int8": {reflect.TypeOf(int8(0)), reflect.TypeOf(NInt8(0))},
	"int16": {reflect.TypeOf(int16(0)), reflect.TypeOf(NInt16(0))}, "int32": {reflect.TypeOf(int32(0)), reflect.TypeOf(NInt32(0))},
	"int64": {reflect.TypeOf(int64(0)), reflect.TypeOf(NInt64(0))}, "uint": {reflect.TypeOf(uint(0)), reflect.TypeOf(NUint(0))},
	"uint8": {reflect.TypeOf(uint8(0)), reflect.TypeOf(NUint8(0))}, "uint16": {reflect.TypeOf(uint16(0)), reflect.TypeOf(NUint16(0))},
	"uint32": {reflect.TypeOf(uint32(0)), reflect.TypeOf(NUint32(0))}, "uint64": {reflect.TypeOf(uint64(0)), reflect.TypeOf(NUint64(0))},
}

var intKinds = []string{"int", "int8", "int16", "int32", "int64", "uint", "uint8", "uint16", "uint32", "uint64"}

// constructors
func tvNil() *TV                   { return &TV{T: "nil"} }
func tvBool(b bool) *TV            { return &TV{T: "bool", V: b} }
func tvNBool(b bool) *TV           { return &TV{T: "bool", N: 1, V: b} }
func tvStr(s string) *TV           { return &TV{T: "str", V: hx(s)} }
func tvNStr(s string) *TV          { return &TV{T: "str", N: 1, V: hx(s)} }
func tvInt(k string, v string) *TV { return &TV{T: "int", K: k, V: v} }
func tvF64(f float64) *TV          { return &TV{T: "f64", V: fmt.Sprintf("%016x", math.Float64bits(f))} }
func tvDec(d decimal.Decimal) *TV {
	return &TV{T: "dec", C: d.Coefficient().String(), E: strconv.Itoa(int(d.Exponent()))}
}
func tvPtr(inner *TV) *TV    { return &TV{T: "ptr", V: inner} }
func tvNilPtr(inner *TV) *TV { return &TV{T: "ptr", Nil: 1, V: inner} }
func tvSlice(ei int, xs ...*TV) *TV {
	if xs == nil {
		xs = []*TV{}
	}
	return &TV{T: "slice", EI: ei, V: xs}
}
func tvArray(ei int, xs ...*TV) *TV {
	if xs == nil {
		xs = []*TV{}
	}
	return &TV{T: "array", EI: ei, V: xs}
}
func tvMap(kk string, kvs [][2]any) *TV {
	if kvs == nil {
		kvs = [][2]any{}
	}
	return &TV{T: "map", KK: kk, V: kvs}
}
func tvStruct(fs [][3]any) *TV { return &TV{T: "struct", V: fs} }

// tvTypedMap: a map whose value type is that of its values (map[string]int, map[string]*float64)
func tvTypedMap(kk string, kvs [][2]any) *TV { return &TV{T: "map", KK: kk, N: 1, V: kvs} }

func hx(s string) string { return hex.EncodeToString([]byte(s)) }
func unhx(s string) string {
	b, _ := hex.DecodeString(s)
	return string(b)
}

// build returns the Go value for t; ok=false means untyped nil.
func build(t *TV) (reflect.Value, bool) {
	switch t.T {
	case "nil":
		return reflect.Value{}, false
	case "bool":
		if t.N == 1 {
			return reflect.ValueOf(NBool(t.V.(bool))), true
		}
		return reflect.ValueOf(t.V.(bool)), true
	case "str":
		b, _ := hex.DecodeString(t.V.(string))
		if t.N == 1 {
			return reflect.ValueOf(NString(b)), true
		}
		return reflect.ValueOf(string(b)), true
	case "int":
		var typ reflect.Type
		if t.N == 2 { // named, with a String method: int64 -> SDur, int -> SCents, uint8 -> SLevel
			typ = map[string]reflect.Type{"int64": reflect.TypeOf(SDur(0)), "int": reflect.TypeOf(SCents(0)), "uint8": reflect.TypeOf(SLevel(0))}[t.K]
		} else {
			typ = intTypes[t.K][t.N]
		}
		v := reflect.New(typ).Elem()
		if strings.HasPrefix(t.K, "u") {
			u, _ := strconv.ParseUint(t.V.(string), 10, 64)
			v.SetUint(u)
		} else {
			i, _ := strconv.ParseInt(t.V.(string), 10, 64)
			v.SetInt(i)
		}
		return v, true
	case "f64":
		bits, _ := strconv.ParseUint(t.V.(string), 16, 64)
		f := math.Float64frombits(bits)
		switch t.N {
		case 1:
			return reflect.ValueOf(NFloat64(f)), true
		case 2: // float32 (the bits are those of the widened value)
			return reflect.ValueOf(float32(f)), true
		case 3:
			return reflect.ValueOf(NFloat32(f)), true
		case 4: // named float64 with a String method
			return reflect.ValueOf(SRatio(f)), true
		}
		return reflect.ValueOf(f), true
	case "dec":
		d, err := decimal.NewFromString(t.C + "e" + t.E)
		if err != nil {
			panic("bad dec " + t.C + "e" + t.E)
		}
		if t.N == 1 {
			return reflect.ValueOf(NDec(d)), true
		}
		return reflect.ValueOf(d), true
	case "ptr":
		inner := t.V.(*TV)
		iv, ok := build(inner)
		if !ok {
			panic("ptr to nil")
		}
		pt := iv.Type()
		if t.N == 1 { // a pointer to an interface variable (*any) that holds the value
			pt = anyT
		}
		p := reflect.New(pt)
		if t.Nil == 1 {
			return reflect.Zero(p.Type()), true
		}
		p.Elem().Set(iv)
		return p, true
	case "slice", "array":
		elems := t.V.([]*TV)
		et := anyT
		var vals []reflect.Value
		for _, e := range elems {
			ev, ok := build(e)
			if !ok {
				ev = reflect.Zero(anyT)
			}
			vals = append(vals, ev)
		}
		if t.EI == 0 {
			if len(vals) == 0 {
				et = reflect.TypeOf(int(0))
				switch t.K { // an empty or nil typed list names its element type
				case "str":
					et = reflect.TypeOf("")
				case "bool":
					et = reflect.TypeOf(false)
				case "f64":
					et = reflect.TypeOf(float64(0))
				case "dec":
					et = reflect.TypeOf(decimal.Decimal{})
				case "int64":
					et = reflect.TypeOf(int64(0))
				}
			} else {
				et = vals[0].Type()
			}
		}
		var out reflect.Value
		if t.T == "slice" {
			if t.Nil == 1 {
				return reflect.Zero(reflect.SliceOf(et)), true
			}
			out = reflect.MakeSlice(reflect.SliceOf(et), len(vals), len(vals))
		} else {
			out = reflect.New(reflect.ArrayOf(len(vals), et)).Elem()
		}
		for i, v := range vals {
			out.Index(i).Set(v)
		}
		return out, true
	case "map":
		kt := reflect.TypeOf("")
		switch t.KK {
		case "named":
			kt = reflect.TypeOf(NString(""))
		case "iface":
			kt = anyT
		}
		mt := reflect.MapOf(kt, anyT)
		// N == 1 on a map: a map whose VALUE type is the type of its (alike) values - map[string]int, map[string]*float64 - instead of `any`
		// (the model has no static value type for maps: to it this is the same object)
		if t.N == 1 {
			var vt reflect.Type
			for _, kv := range t.V.([][2]any) {
				if ev, ok := build(kv[1].(*TV)); ok {
					if vt == nil {
						vt = ev.Type()
					} else if vt != ev.Type() {
						vt = anyT
					}
				}
			}
			if vt != nil {
				mt = reflect.MapOf(kt, vt)
			}
		}
		if t.Nil == 1 {
			return reflect.Zero(mt), true
		}
		m := reflect.MakeMap(mt)
		for _, kv := range t.V.([][2]any) {
			kb, _ := hex.DecodeString(kv[0].(string))
			var k reflect.Value
			if ks := kv[0].(string); t.KK == "iface" && strings.HasPrefix(ks, "~") {
				// keys of an interface-keyed map that are not strings: "~nil", "~ns:<hex>" (named string), "~int:5", "~bool:1" (the model declines these lines)
				switch {
				case ks == "~nil":
					k = reflect.Zero(anyT)
				case strings.HasPrefix(ks, "~ns:"): // a named-string key held in the interface
					nb, _ := hex.DecodeString(ks[4:])
					k = reflect.ValueOf(NString(nb))
				case strings.HasPrefix(ks, "~f64:"): // a float64 key by its bits (NaN included: such a key can be iterated but not looked up)
					bits, _ := strconv.ParseUint(ks[5:], 16, 64)
					k = reflect.ValueOf(math.Float64frombits(bits))
				case strings.HasPrefix(ks, "~int:"):
					i, _ := strconv.Atoi(ks[5:])
					k = reflect.ValueOf(i)
				default:
					k = reflect.ValueOf(ks == "~bool:1")
				}
			} else if t.KK == "named" {
				k = reflect.ValueOf(NString(kb))
			} else {
				k = reflect.ValueOf(string(kb))
			}
			ev, ok := build(kv[1].(*TV))
			if !ok {
				ev = reflect.Zero(anyT)
			}
			m.SetMapIndex(k, ev)
		}
		return m, true
	case "struct":
		fs := t.V.([][3]any)
		if t.N == 7 && len(fs) == 2 {
			kv, _ := build(fs[0][2].(*TV))
			nv, _ := build(fs[1][2].(*TV))
			return reflect.ValueOf(MarshObj{K: kv.String(), N: nv.Float()}), true
		}
		var sf []reflect.StructField
		var vals []reflect.Value
		for _, f := range fs {
			ev, ok := build(f[2].(*TV))
			ft := anyT
			if ok {
				ft = ev.Type()
			} else {
				ev = reflect.Zero(anyT)
			}
			if fmt.Sprint(f[1]) == "2" { // flag 2: an exported field whose static type is `any`, whatever it holds
				ft = anyT
			}
			fld := reflect.StructField{Name: f[0].(string), Type: ft}
			switch fmt.Sprint(f[1]) { // flags 3..6: an exported field that carries a json tag (the library goes by the Go name of a field)
			case "3":
				fld.Tag = `json:",omitempty"`
			case "4":
				fld.Tag = reflect.StructTag(`json:"` + strings.ToLower(fld.Name) + `,string"`)
			case "5":
				fld.Tag = reflect.StructTag(`json:"zz_` + strings.ToLower(fld.Name) + `" yaml:"-"`)
			case "6":
				fld.Tag = `json:"-"`
			}
			sf = append(sf, fld)
			vals = append(vals, ev)
		}
		st := reflect.New(reflect.StructOf(sf)).Elem()
		for i, v := range vals {
			st.Field(i).Set(v)
		}
		return st, true
	case "cyc":
		// values that contain themselves (the model's values are finite trees: it declines these)
		switch t.K {
		case "slice":
			s := []any{float64(0), "x"}
			s[0] = s
			return reflect.ValueOf(s), true
		case "map":
			m := map[string]any{"x": float64(1)}
			m["self"] = m
			return reflect.ValueOf(m), true
		case "node":
			n := &CycNode{Name: "n", Value: 1}
			n.Next = n
			n.Kids = []*CycNode{n}
			return reflect.ValueOf(n), true
		case "parent":
			o := &CycOrder{Number: "o1", XRef: "x"}
			o.Lines = []*CycLine{{SKU: "a", Order: o}, {SKU: "b", Order: o}}
			return reflect.ValueOf(o), true
		case "inmap":
			o := &CycOrder{Number: "o1", XRef: "x"}
			o.Lines = []*CycLine{{SKU: "a", Order: o}}
			return reflect.ValueOf(map[string]any{"order": o, "n": float64(1), "list": []any{o}}), true
		}
		panic("bad cyc")
	case "unexp":
		// K: "A" (two int fields A, a) | "K" (two string fields K, k) | "only" (one unexported int) | "F" (hidden, A int; K string)
		// | "R1" (local type Rec{K string; A int}) | "R2" (another local type Rec{Pad, priv int; K string}); V: the field values
		fs := t.V.([]*TV)
		geti := func(x *TV) int {
			n, _ := strconv.Atoi(x.V.(string))
			return n
		}
		switch t.K {
		case "only":
			return reflect.ValueOf(UnexpOnly{hidden: geti(fs[0])}), true
		case "A":
			return reflect.ValueOf(UnexpA{A: geti(fs[0]), a: geti(fs[1])}), true
		case "D":
			return reflect.ValueOf(UnexpDup{id: geti(fs[0]), ID: unhx(fs[1].V.(string)), Name: unhx(fs[2].V.(string))}), true
		case "D2":
			return reflect.ValueOf(UnexpDup2{ID: unhx(fs[0].V.(string)), id: geti(fs[1]), Name: unhx(fs[2].V.(string))}), true
		case "E": // fs: [CreatedBy str, Revision int, ID int]; "E0": the embedded pointer is nil, fs: [ID int]
			return reflect.ValueOf(EmbOuter{EmbInner: &EmbInner{CreatedBy: unhx(fs[0].V.(string)), Revision: geti(fs[1])}, ID: geti(fs[2])}), true
		case "E0":
			return reflect.ValueOf(EmbOuter{ID: geti(fs[0])}), true
		case "F":
			return reflect.ValueOf(UnexpFirst{hidden: geti(fs[0]), A: geti(fs[1]), K: unhx(fs[2].V.(string))}), true
		case "R1":
			return reflect.ValueOf(mkRec1(unhx(fs[0].V.(string)), geti(fs[1]))), true
		case "R2":
			return reflect.ValueOf(mkRec2(geti(fs[0]), geti(fs[1]), unhx(fs[2].V.(string)))), true
		}
		return reflect.ValueOf(UnexpK{K: unhx(fs[0].V.(string)), k: unhx(fs[1].V.(string))}), true
	case "win":
		// V: the elements of ONE backing array; W: [lo,hi] pairs - the value is a []any whose elements are the []any windows
		// base[lo:hi] of that array (they share it, and all but the last have spare capacity behind them)
		base := make([]any, 0, len(t.V.([]*TV)))
		for _, e := range t.V.([]*TV) {
			base = append(base, buildAny(e))
		}
		out := make([]any, 0, len(t.W))
		for _, w := range t.W {
			if t.K != "" { // each window sits under the key K of an object of its own
				out = append(out, map[string]any{t.K: base[w[0]:w[1]]})
				continue
			}
			out = append(out, base[w[0]:w[1]])
		}
		return reflect.ValueOf(out), true
	case "func":
		return reflect.ValueOf(func() {}), true
	case "chan":
		return reflect.ValueOf(make(chan int)), true
	}
	panic("bad tag " + t.T)
}

func buildAny(t *TV) any {
	v, ok := build(t)
	if !ok {
		return nil
	}
	return v.Interface()
}

func (t *TV) MarshalJSON() ([]byte, error) {
	m := map[string]any{"t": t.T}
	switch t.T {
	case "bool":
		m["n"] = t.N
		if t.V.(bool) {
			m["v"] = 1
		} else {
			m["v"] = 0
		}
	case "str", "f64":
		m["n"], m["v"] = t.N, t.V
	case "int":
		m["n"], m["v"], m["k"] = t.N, t.V, t.K
	case "dec":
		m["c"], m["e"], m["n"] = t.C, t.E, t.N
	case "ptr":
		m["nil"], m["v"], m["n"] = t.Nil, t.V, t.N
		if t.N == 1 { // a pointer to an interface variable: outside the model's values (its pointers point at concrete values)
			m["pa"] = 1
		}
	case "slice":
		m["ei"], m["nil"], m["v"] = t.EI, t.Nil, t.V
	case "array":
		m["ei"], m["v"] = t.EI, t.V
	case "map":
		m["kk"], m["nil"], m["v"] = t.KK, t.Nil, t.V
	case "struct":
		m["v"] = t.V
	case "unexp":
		m["k"], m["v"] = t.K, t.V
	case "cyc":
		m["k"] = t.K
	case "win":
		m["v"], m["w"], m["k"] = t.V, t.W, t.K
	}
	return json.Marshal(m)
}

// decodeTV reads back what MarshalJSON wrote (replay files).
func decodeTV(raw json.RawMessage) *TV {
	var m map[string]json.RawMessage
	if err := json.Unmarshal(raw, &m); err != nil {
		panic(err)
	}
	str := func(k string) string {
		var s string
		if r, ok := m[k]; ok {
			json.Unmarshal(r, &s)
		}
		return s
	}
	num := func(k string) int {
		var n int
		if r, ok := m[k]; ok {
			json.Unmarshal(r, &n)
		}
		return n
	}
	t := &TV{T: str("t")}
	switch t.T {
	case "bool":
		t.N = num("n")
		t.V = num("v") == 1
	case "str", "f64":
		t.N, t.V = num("n"), str("v")
	case "int":
		t.N, t.V, t.K = num("n"), str("v"), str("k")
	case "dec":
		t.C, t.E, t.N = str("c"), str("e"), num("n")
	case "ptr":
		t.Nil, t.N = num("nil"), num("n")
		t.V = decodeTV(m["v"])
	case "slice", "array":
		t.EI, t.Nil = num("ei"), num("nil")
		var arr []json.RawMessage
		json.Unmarshal(m["v"], &arr)
		xs := []*TV{}
		for _, a := range arr {
			xs = append(xs, decodeTV(a))
		}
		t.V = xs
	case "map":
		t.KK, t.Nil = str("kk"), num("nil")
		var arr [][]json.RawMessage
		json.Unmarshal(m["v"], &arr)
		kvs := [][2]any{}
		for _, a := range arr {
			var k string
			json.Unmarshal(a[0], &k)
			kvs = append(kvs, [2]any{k, decodeTV(a[1])})
		}
		t.V = kvs
	case "struct":
		var arr [][]json.RawMessage
		json.Unmarshal(m["v"], &arr)
		fs := [][3]any{}
		for _, a := range arr {
			var k string
			var e int
			json.Unmarshal(a[0], &k)
			json.Unmarshal(a[1], &e)
			fs = append(fs, [3]any{k, e, decodeTV(a[2])})
		}
		t.V = fs
	case "win":
		var arr []json.RawMessage
		json.Unmarshal(m["v"], &arr)
		xs := []*TV{}
		for _, a := range arr {
			xs = append(xs, decodeTV(a))
		}
		t.V = xs
		json.Unmarshal(m["w"], &t.W)
		t.K = str("k")
	case "cyc":
		t.K = str("k")
	case "unexp":
		t.K = str("k")
		var arr []json.RawMessage
		json.Unmarshal(m["v"], &arr)
		xs := []*TV{}
		for _, a := range arr {
			xs = append(xs, decodeTV(a))
		}
		t.V = xs
	}
	return t
}

func b2s(b bool) string {
	if b {
		return "1"
	}
	return "0"
}

func fcanon(f float64) string {
	if math.IsNaN(f) {
		return "nan"
	}
	if math.IsInf(f, 1) {
		return "+inf"
	}
	if math.IsInf(f, -1) {
		return "-inf"
	}
	d := decimal.NewFromFloat(f)
	return fmt.Sprintf("%se%d", d.Coefficient().String(), d.Exponent())
}

// canonV: the exact canonical form (dynamic Go types visible) compared with the Lean model's output.
func canonV(v reflect.Value) string { return canonVd(v, true, map[[2]uintptr]bool{}) }

// canonVd: top = the value is the result itself, not something inside a returned container (a number inside a container that is
// handed back whole keeps its Go type: the model shows the decimal a named decimal holds)
func canonVd(v reflect.Value, top bool, seen map[[2]uintptr]bool) string {
	switch v.Kind() { // a value that contains itself
	case reflect.Pointer, reflect.Map, reflect.Slice:
		if !v.IsNil() && v.Kind() != reflect.Slice || v.Kind() == reflect.Slice && v.Len() > 0 {
			key := [2]uintptr{v.Pointer(), uintptr(v.Kind())}
			if seen[key] {
				return "<cycle>"
			}
			seen[key] = true
			defer delete(seen, key)
		}
	}
	if !v.IsValid() {
		return "nil"
	}
	if v.Kind() == reflect.Interface {
		if v.IsNil() {
			return "nil"
		}
		return canonVd(v.Elem(), top, seen)
	}
	if v.CanInterface() {
		if d, ok := v.Interface().(decimal.Decimal); ok {
			return fmt.Sprintf("d:%se%d", d.Coefficient().String(), d.Exponent())
		}
		if nd, ok := v.Interface().(NDec); ok {
			d := decimal.Decimal(nd)
			if !top {
				return fmt.Sprintf("d:%se%d", d.Coefficient().String(), d.Exponent())
			}
			return fmt.Sprintf("nd:%se%d", d.Coefficient().String(), d.Exponent())
		}
	}
	named := ""
	if v.Type().PkgPath() != "" {
		named = "n"
	}
	switch v.Kind() {
	case reflect.Bool:
		return named + "b:" + b2s(v.Bool())
	case reflect.String:
		return named + "s:" + hex.EncodeToString([]byte(v.String()))
	case reflect.Int, reflect.Int8, reflect.Int16, reflect.Int32, reflect.Int64:
		return fmt.Sprintf("%si:%s:%d", named, v.Kind().String(), v.Int())
	case reflect.Uint, reflect.Uint8, reflect.Uint16, reflect.Uint32, reflect.Uint64:
		return fmt.Sprintf("%si:%s:%d", named, v.Kind().String(), v.Uint())
	case reflect.Float32: // never the plain float64 type: shown like a named float (the model carries one flag for "not float64 itself")
		return "nf:" + fcanon(v.Float())
	case reflect.Float64:
		return named + "f:" + fcanon(v.Float())
	case reflect.Pointer:
		if v.CanInterface() {
			if _, ok := v.Interface().(error); ok {
				return "errv"
			}
		}
		if v.IsNil() {
			return "p(nil)"
		}
		return "p(" + canonVd(v.Elem(), false, seen) + ")"
	case reflect.Slice, reflect.Array:
		var parts []string
		for i := 0; i < v.Len(); i++ {
			parts = append(parts, canonVd(v.Index(i), false, seen))
		}
		ei := b2s(v.Type().Elem().Kind() == reflect.Interface)
		if v.Kind() == reflect.Slice {
			return "sl" + ei + b2s(v.IsNil()) + "[" + strings.Join(parts, ",") + "]"
		}
		return "ar" + ei + "[" + strings.Join(parts, ",") + "]"
	case reflect.Map:
		kk := "s"
		if v.Type().Key().Kind() == reflect.Interface {
			kk = "i"
		} else if v.Type().Key().PkgPath() != "" {
			kk = "n"
		}
		type kv struct{ k, v string }
		var kvs []kv
		for _, k := range v.MapKeys() {
			ks := ""
			if k.Kind() == reflect.Interface && k.IsNil() {
				ks = "<nil>"
			} else if k.Kind() == reflect.Interface {
				ks = fmt.Sprint(k.Elem().Interface())
			} else {
				ks = k.String()
			}
			kvs = append(kvs, kv{ks, canonVd(v.MapIndex(k), false, seen)})
		}
		sort.Slice(kvs, func(i, j int) bool { return kvs[i].k < kvs[j].k })
		var parts []string
		for _, e := range kvs {
			parts = append(parts, hex.EncodeToString([]byte(e.k))+"="+e.v)
		}
		return "m" + kk + b2s(v.IsNil()) + "{" + strings.Join(parts, ",") + "}"
	case reflect.Struct:
		var parts []string
		for i := 0; i < v.NumField(); i++ {
			f := v.Type().Field(i)
			parts = append(parts, f.Name+b2s(f.IsExported())+"="+canonVd(v.Field(i), false, seen))
		}
		return "st{" + strings.Join(parts, ",") + "}"
	case reflect.Func:
		return "func"
	case reflect.Chan:
		return "chan"
	}
	return "?" + v.Kind().String()
}

func tvUnexp(k string, fs ...*TV) *TV   { return &TV{T: "unexp", K: k, V: fs} }
func tvWin(base []*TV, w ...[2]int) *TV { return &TV{T: "win", V: base, W: w} }
func tvWinKey(key string, base []*TV, w ...[2]int) *TV {
	return &TV{T: "win", K: key, V: base, W: w}
}
func tvSInt(k string, v string) *TV { return &TV{T: "int", K: k, N: 2, V: v} }
func tvF32(f float32, n int) *TV {
	return &TV{T: "f64", N: n, V: fmt.Sprintf("%016x", math.Float64bits(float64(f)))}
}
