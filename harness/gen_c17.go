package main

// C17: array functions return the right element, count and aggregate. Expected values come from plain Go list
// operations on the logical document (Doc); the Go carriers ([]any, typed slices, Go arrays, structs, pointers) are
// renderings of it. Identities (First ≡ Index(0), Last ≡ Index(Count−1), aggregates over a stepped key ≡ over
// Select("$.k") ≡ over the plain values) are checked relationally on the implementation's own answers.

import (
	"fmt"
	"math/big"
	"reflect"
	"strings"

	"github.com/shopspring/decimal"
)

func init() { evalGens["C17"] = genC17 }

var c17Nums = []string{"0", "1", "-1", "1.5", "2", "3", "10", "0.1", "100", "-7.25", "12", "1000", "0.5", "2.25", "7", "4", "5", "-3"}
var c17Strs = []string{"", "abc", "x", "hello", "abcDEF", "a b", "é", "1x", "y"}
var c17NumStrs = []string{"12", "0123", "1e3", "-0.50", "1.5", "2"}

func c17Num(r *rng) *Doc { return dNum(r.Pick(c17Nums)) }
func c17Str(r *rng) *Doc { return dStr(r.Pick(c17Strs)) }

func c17NumArr(r *rng, maxLen int) *Doc {
	n := r.Intn(maxLen + 1)
	xs := []*Doc{}
	for i := 0; i < n; i++ {
		xs = append(xs, c17Num(r))
	}
	return &Doc{K: 'a', A: xs}
}

// c17Obj: one row of a rectangular array of objects
func c17Obj(r *rng) *Doc {
	return dObj("k", c17Num(r), "n", c17Num(r), "s", c17Str(r), "b", dBool(r.Bool()), "items", c17NumArr(r, 4), "o", dObj("a", c17Num(r), "t", c17Str(r)))
}

// c17Elem: an element of the given kind: n number, s non-numeral string, b bool, o object, a array, m any of these, N numeral string
func c17Elem(r *rng, kind byte) *Doc {
	switch kind {
	case 'n':
		return c17Num(r)
	case 's':
		return c17Str(r)
	case 'b':
		return dBool(r.Bool())
	case 'o':
		return c17Obj(r)
	case 'a':
		if r.Intn(4) == 0 {
			xs := []*Doc{}
			for i, n := 0, r.Intn(3); i < n; i++ {
				xs = append(xs, c17Str(r))
			}
			return &Doc{K: 'a', A: xs}
		}
		return c17NumArr(r, 3)
	case 'N':
		return dStr(r.Pick(c17NumStrs))
	}
	return c17Elem(r, "nsboa"[r.Intn(5)])
}

func c17Arr(r *rng, n int, kind byte) *Doc {
	xs := []*Doc{}
	for i := 0; i < n; i++ {
		xs = append(xs, c17Elem(r, kind))
	}
	return &Doc{K: 'a', A: xs}
}

var c17KindName = map[byte]string{'n': "numbers", 's': "strings", 'b': "bools", 'o': "objects", 'a': "arrays", 'm': "mixed", 'N': "numeral-strings"}

// ---------- carriers ----------

type c17Carrier struct {
	name   string
	st     Style
	retype bool // make the top-level sequence a typed slice/array when all elements have one Go type
}

func c17Carriers(r *rng) []c17Carrier {
	return []c17Carrier{
		{"[]any", Style{Obj: "map", Num: "f64"}, false},
		{"[]any-mixed-numbers", Style{Obj: "map", Num: "mixed", R: r}, false},
		{"typed-slice-f64", Style{Obj: "map", Num: "f64", Typed: true}, true},
		{"typed-slice-int", Style{Obj: "map", Num: "int", Typed: true}, true},
		{"typed-slice-decimal", Style{Obj: "map", Num: "dec", Typed: true}, true},
		{"typed-slice-named", Style{Obj: "map", Num: "named", NamedS: true, Typed: true}, true},
		{"go-array", Style{Obj: "map", Num: "f64", Array: true}, false},
		{"go-array-typed", Style{Obj: "map", Num: "dec", Array: true, Typed: true}, true},
		{"structs", Style{Obj: "struct", Num: "f64", Typed: true}, true},
		{"pointers", Style{Obj: "map", Num: "ptr", PtrObj: true}, false},
	}
}

// c17Retype: a sequence whose elements all have one Go type becomes a sequence with that element type
func c17Retype(t *TV) *TV {
	if t.T != "slice" && t.T != "array" {
		return t
	}
	xs := t.V.([]*TV)
	if len(xs) == 0 || t.EI == 0 {
		return t
	}
	var typ reflect.Type
	for _, x := range xs {
		v, ok := build(x)
		if !ok {
			return t
		}
		if typ == nil {
			typ = v.Type()
		} else if v.Type() != typ {
			return t
		}
	}
	cp := *t
	cp.EI = 0
	return &cp
}

func c17Render(d *Doc, cr c17Carrier) *TV {
	st := cr.st
	t := render(d, &st)
	if cr.retype {
		t = c17Retype(t)
	}
	return t
}

// c17Place: the array under key xs of a map / struct, or at the root
type c17Place struct {
	name string
	pre  string
	wrap func(arr *TV) *TV
}

var c17Places = []c17Place{
	{"map-value", "$.xs", func(a *TV) *TV {
		return tvMap("str", [][2]any{{hx("xs"), a}, {hx("one"), tvF64(1)}, {hx("pad"), tvStr("pad")}})
	}},
	{"root", "$", func(a *TV) *TV { return a }},
	{"struct-field", "$.xs", func(a *TV) *TV {
		return tvStruct([][3]any{{"Xs", 1, a}, {"One", 1, tvInt("int", "1")}})
	}},
}

func c17List(ds []*Doc) string {
	ps := make([]string, 0, len(ds))
	for _, d := range ds {
		ps = append(ps, logicalDoc(d))
	}
	return "[" + strings.Join(ps, ",") + "]"
}

func c17Quote(s string) string { return `"` + strings.ReplaceAll(s, `"`, `\"`) + `"` }

func c17Lit(d *Doc) string {
	switch d.K {
	case 'n':
		return d.N.String()
	case 's':
		return c17Quote(d.S)
	case 'b':
		if d.B {
			return "true"
		}
		return "false"
	}
	panic("no literal")
}

// c17Tally counts cases per carrier (the class labels carry function and element kind)
func c17Tally(c *Ctx, hist, key string) {
	m, _ := c.Extra[hist].(map[string]int)
	if m == nil {
		m = map[string]int{}
		c.Extra[hist] = m
	}
	m[key]++
}

func c17Res(o Outcome) string {
	if o.Class == "ok" {
		return o.Logical
	}
	return o.Class
}

func (c *Ctx) c17Rel(name, q1, q2 string, d *TV, a, b string, cls string) {
	if a != b {
		c.addViolation(Violation{Kind: "relational", Query: q1, QueryHex: hx(q1), Data: d, Expected: q2 + " = " + b, Got: a,
			Why: "identity " + name + " does not hold on the implementation's own answers", Cls: cls, Key: "identity:" + name + ":" + cls,
			Extra: map[string]any{"other_query": q2}})
	}
	c.Extra["identity_comparisons"] = asInt(c.Extra["identity_comparisons"]) + 1
}

// ---------- block A: Count / Any / First / Last / Index / AsArray over every length and every index ----------

// 1e64, 3e70 and 1e100 are multiples of 2^64: an index taken modulo 2^64 would land on element 0
var c17OddIndexes = []string{"0.5", "1.5", "-0.5", "1e30", "18446744073709551617", "1e64", "3e70", "1e100", "-1e64"}

func c17ElementBlock(c *Ctx) {
	r := c.R
	carriers := c17Carriers(r)
	kinds := []byte{'n', 's', 'b', 'o', 'a', 'm', 'N'}
	reps := 1
	if c.thorough() {
		reps = 4
	}
	runOne := func(doc *Doc, arr *TV, kind byte, crName string, places []c17Place) {
		ln := len(doc.A)
		cls := c17KindName[kind]
		if ln == 0 {
			cls = "empty" // an empty array has no element kind
		}
		for _, pl := range places {
			d := pl.wrap(arr)
			do := func(fn, q, x string) Outcome {
				c17Tally(c, "carrier_histogram", crName)
				c17Tally(c, "placement_histogram", pl.name)
				c17Tally(c, "length_histogram", fmt.Sprintf("%02d", ln))
				return c.Do(Case{Q: q, D: d, XK: "logical", X: x, Cls: fn + "/" + cls, InDomain: true})
			}
			oc := do("Count", pl.pre+".Count()", "n:"+fmt.Sprint(ln))
			do("Any", pl.pre+".Any()", "b:"+b2s(ln > 0))
			do("AsArray", pl.pre+".AsArray()", "["+logicalDoc(doc)+"]")
			do("AsArray", pl.pre+".AsArray().Count()", "n:1")
			do("AsArray", pl.pre+".AsArray().First()", logicalDoc(doc))
			if ln > 0 && kind != 'N' {
				// AsArray of a single element (a numeral string as the receiver of a function is read as a number: not here)
				i := r.Intn(ln)
				do("AsArray-of-element", fmt.Sprintf("%s.Index(%d).AsArray()", pl.pre, i), "["+logicalDoc(doc.A[i])+"]")
			}
			first, last := "ERR", "ERR"
			if ln > 0 {
				first, last = logicalDoc(doc.A[0]), logicalDoc(doc.A[ln-1])
			}
			of := do("First", pl.pre+".First()", first)
			ol := do("Last", pl.pre+".Last()", last)
			var oi0 Outcome
			for i := -2; i <= ln+2; i++ {
				x := "ERR"
				fn := "Index-out-of-range"
				if i >= 0 && i < ln {
					x = logicalDoc(doc.A[i])
					fn = "Index"
				}
				o := do(fn, fmt.Sprintf("%s.Index(%d)", pl.pre, i), x)
				if i == 0 {
					oi0 = o
				}
			}
			for _, ix := range c17OddIndexes {
				do("Index-fractional-or-huge", pl.pre+".Index("+ix+")", "ERR")
			}
			// a whole number written with a fraction part is a whole number
			x := "ERR"
			if ln > 1 {
				x = logicalDoc(doc.A[1])
			}
			do("Index-whole-as-float", pl.pre+".Index(1.0)", x)
			// identities on the implementation's own answers
			c.c17Rel("First≡Index(0)", pl.pre+".First()", pl.pre+".Index(0)", d, c17Res(of), c17Res(oi0), "identity/"+cls)
			if oc.Class == "ok" && strings.HasPrefix(oc.Logical, "n:") && !strings.Contains(oc.Logical, "/") {
				cnt := new(big.Int)
				cnt.SetString(oc.Logical[2:], 10)
				cnt.Sub(cnt, big.NewInt(1))
				q2 := pl.pre + ".Index(" + cnt.String() + ")"
				o2 := c.Do(Case{Q: q2, D: d, XK: "logical", X: last, Cls: "identity-Last/" + cls, InDomain: true})
				c.c17Rel("Last≡Index(Count−1)", pl.pre+".Last()", q2, d, c17Res(ol), c17Res(o2), "identity/"+cls)
			}
			// the index as a path argument
			if ln > 0 {
				i := r.Intn(ln)
				d2 := tvMap("str", [][2]any{{hx("xs"), arr}, {hx("i"), tvInt("int", fmt.Sprint(i))}, {hx("j"), tvF64(float64(ln))}})
				c.Do(Case{Q: "$.xs.Index($.i)", D: d2, XK: "logical", X: logicalDoc(doc.A[i]), Cls: "Index-path-argument/" + cls, InDomain: true})
				c.Do(Case{Q: "$.xs.Index($.j)", D: d2, XK: "logical", X: "ERR", Cls: "Index-path-argument/" + cls, InDomain: true})
				// exact huge indexes (a literal goes through float64; a decimal or a numeric string in the data does not):
				// 2^64+i and -2^64+i are congruent to the in-range index i modulo 2^64, 2^63 is the first int64 overflow
				two64 := new(big.Int).Lsh(big.NewInt(1), 64)
				for hi, h := range []*big.Int{new(big.Int).Add(two64, big.NewInt(int64(i))), new(big.Int).Add(new(big.Int).Neg(two64), big.NewInt(int64(i))),
					new(big.Int).Lsh(big.NewInt(1), 63), new(big.Int).Add(new(big.Int).Mul(two64, big.NewInt(3)), big.NewInt(int64(i)))} {
					hv := &TV{T: "dec", C: h.String(), E: "0"}
					if hi%2 == 1 {
						hv = tvStr(h.String())
					}
					d3 := tvMap("str", [][2]any{{hx("xs"), arr}, {hx("h"), hv}})
					c.Do(Case{Q: "$.xs.Index($.h)", D: d3, XK: "logical", X: "ERR", Cls: "Index-huge-exact-path-argument/" + cls, InDomain: true})
				}
				// indexes that are NOT whole numbers but closer to an in-range one than a float64 can tell (given exactly: a decimal or a
				// numeral string in the data, or a numeral string as the argument)
				for ai, a := range []string{fmt.Sprintf("%d.00000000000000000001", i), fmt.Sprintf("%d.99999999999999999999", i), "-1e-400", "-0.00000000000000000000000001", fmt.Sprintf("%d.5e-30", i+1)} {
					av := tvStr(a)
					if ai%2 == 0 {
						av = tvDec(decimal.RequireFromString(a))
					}
					d4 := tvMap("str", [][2]any{{hx("xs"), arr}, {hx("h"), av}})
					c.Do(Case{Q: "$.xs.Index($.h)", D: d4, XK: "logical", X: "ERR", Cls: "Index-almost-whole-path-argument/" + cls, InDomain: true})
					c.Do(Case{Q: "$.xs.Index(\"" + a + "\")", D: d4, XK: "logical", X: "ERR", Cls: "Index-almost-whole-numeral-string/" + cls, InDomain: true})
				}
			}
		}
	}
	for rep := 0; rep < reps; rep++ {
		for ln := 0; ln <= 12; ln++ {
			for _, kind := range kinds {
				doc := c17Arr(r, ln, kind)
				for ci, cr := range carriers {
					arr := c17Render(doc, cr)
					places := c17Places
					if ci > 1 && !c.thorough() {
						// the two []any carriers in all three placements, the others in rotation
						places = []c17Place{c17Places[(ln+ci)%3]}
					}
					runOne(doc, arr, kind, cr.name, places)
				}
			}
		}
	}
	// empty sequences of the other Go shapes
	empty := &Doc{K: 'a', A: []*Doc{}}
	for _, e := range []struct {
		name string
		tv   *TV
	}{
		{"empty-typed-slice", tvSlice(0)},
		{"empty-typed-array", tvArray(0)},
		{"nil-[]any", &TV{T: "slice", EI: 1, Nil: 1, V: []*TV{}}},
		{"nil-typed-slice", &TV{T: "slice", EI: 0, Nil: 1, V: []*TV{}}},
	} {
		runOne(empty, e.tv, 'n', e.name, c17Places[:2])
	}
}

// ---------- block B: Select ----------

type c17Sub struct {
	q string
	f func(e *Doc) ([]*Doc, bool) // what one element contributes (array results already spread); false: not applicable
}

func c17One(d *Doc) ([]*Doc, bool) { return []*Doc{d}, true }

func c17Filter(xs []*Doc, p func(decimal.Decimal) bool) []*Doc {
	out := []*Doc{}
	for _, x := range xs {
		if x.K == 'n' && p(x.N) {
			out = append(out, x)
		}
	}
	return out
}

func c17SumDocs(xs []*Doc) *Doc {
	s := decimal.Zero
	for _, x := range xs {
		s = s.Add(x.N)
	}
	return dDec(s)
}

var c17One1 = decimal.NewFromInt(1)
var c17Two = decimal.NewFromInt(2)

func c17AllNums(xs []*Doc) bool {
	for _, x := range xs {
		if x.K != 'n' {
			return false
		}
	}
	return true
}

// sub-queries for elements that are objects (rows of c17Obj)
var c17ObjSubs = []c17Sub{
	{`$.k`, func(e *Doc) ([]*Doc, bool) { return c17One(e.get("k")) }},
	{`@.k`, func(e *Doc) ([]*Doc, bool) { return c17One(e.get("k")) }},
	{`$.K`, func(e *Doc) ([]*Doc, bool) { return c17One(e.get("k")) }},
	{`$.s`, func(e *Doc) ([]*Doc, bool) { return c17One(e.get("s")) }},
	{`$.b`, func(e *Doc) ([]*Doc, bool) { return c17One(e.get("b")) }},
	{`$.o`, func(e *Doc) ([]*Doc, bool) { return c17One(e.get("o")) }},
	{`$.o.a`, func(e *Doc) ([]*Doc, bool) { return c17One(e.get("o").get("a")) }},
	{`$`, func(e *Doc) ([]*Doc, bool) { return c17One(e) }},
	{`$.items`, func(e *Doc) ([]*Doc, bool) { return e.get("items").A, true }},
	{`$.n.Add(1)`, func(e *Doc) ([]*Doc, bool) { return c17One(dDec(e.get("n").N.Add(c17One1))) }},
	{`$.n.Multiply(2)`, func(e *Doc) ([]*Doc, bool) { return c17One(dDec(e.get("n").N.Mul(c17Two))) }},
	{`$.n.Subtract($.k)`, func(e *Doc) ([]*Doc, bool) { return c17One(dDec(e.get("n").N.Sub(e.get("k").N))) }},
	// `@` inside a function argument is the function's receiver (here $.n), so this doubles n
	{`$.n.Add(@)`, func(e *Doc) ([]*Doc, bool) { return c17One(dDec(e.get("n").N.Add(e.get("n").N))) }},
	{`$.k.Greater(1)`, func(e *Doc) ([]*Doc, bool) { return c17One(dBool(e.get("k").N.GreaterThan(c17One1))) }},
	{`$.s.Equal(\"abc\")`, func(e *Doc) ([]*Doc, bool) { return c17One(dBool(e.get("s").S == "abc")) }},
	{`$.b.Not()`, func(e *Doc) ([]*Doc, bool) { return c17One(dBool(!e.get("b").B)) }},
	{`$.items.Count()`, func(e *Doc) ([]*Doc, bool) { return c17One(dDec(decimal.NewFromInt(int64(len(e.get("items").A))))) }},
	{`$.items.Any()`, func(e *Doc) ([]*Doc, bool) { return c17One(dBool(len(e.get("items").A) > 0)) }},
	{`$.items.Sum()`, func(e *Doc) ([]*Doc, bool) { return c17One(c17SumDocs(e.get("items").A)) }},
	{`$.items.Sum($.k)`, func(e *Doc) ([]*Doc, bool) {
		return c17One(dDec(c17SumDocs(e.get("items").A).N.Add(e.get("k").N)))
	}},
	{`$.items[@.Greater(1)]`, func(e *Doc) ([]*Doc, bool) {
		return c17Filter(e.get("items").A, func(x decimal.Decimal) bool { return x.GreaterThan(c17One1) }), true
	}},
	{`$.items[@.LessOrEqual(2)]`, func(e *Doc) ([]*Doc, bool) {
		return c17Filter(e.get("items").A, func(x decimal.Decimal) bool { return x.LessThanOrEqual(c17Two) }), true
	}},
	{`$.items[@.Greater(1),@.Less(10)]`, func(e *Doc) ([]*Doc, bool) {
		return c17Filter(e.get("items").A, func(x decimal.Decimal) bool {
			return x.GreaterThan(c17One1) && x.LessThan(decimal.NewFromInt(10))
		}), true
	}},
	{`$.items[@.Greater(1)].Count()`, func(e *Doc) ([]*Doc, bool) {
		n := len(c17Filter(e.get("items").A, func(x decimal.Decimal) bool { return x.GreaterThan(c17One1) }))
		return c17One(dDec(decimal.NewFromInt(int64(n))))
	}},
	{`$.items.Select(\"$.Add(1)\")`, func(e *Doc) ([]*Doc, bool) {
		out := []*Doc{}
		for _, x := range e.get("items").A {
			out = append(out, dDec(x.N.Add(c17One1)))
		}
		return out, true
	}},
	{`$.AsArray()`, func(e *Doc) ([]*Doc, bool) { return c17One(e) }},
	{`$.items.AsArray()`, func(e *Doc) ([]*Doc, bool) { return c17One(e.get("items")) }},
	{`$.items.Last()`, func(e *Doc) ([]*Doc, bool) {
		a := e.get("items").A
		if len(a) == 0 {
			return nil, false
		}
		return c17One(a[len(a)-1])
	}},
	{`$.items.Index(0)`, func(e *Doc) ([]*Doc, bool) {
		a := e.get("items").A
		if len(a) == 0 {
			return nil, false
		}
		return c17One(a[0])
	}},
}

// sub-queries for elements that are numbers
var c17NumSubs = []c17Sub{
	{`$`, c17One},
	{`@`, c17One},
	{`$.Add(1)`, func(e *Doc) ([]*Doc, bool) { return c17One(dDec(e.N.Add(c17One1))) }},
	{`$.Multiply($)`, func(e *Doc) ([]*Doc, bool) { return c17One(dDec(e.N.Mul(e.N))) }},
	{`$.Greater(1)`, func(e *Doc) ([]*Doc, bool) { return c17One(dBool(e.N.GreaterThan(c17One1))) }},
	{`$.Equal(2)`, func(e *Doc) ([]*Doc, bool) { return c17One(dBool(e.N.Equal(c17Two))) }},
	{`$.AsArray()`, c17One},
	{`$.AnyOf(1,2,3)`, func(e *Doc) ([]*Doc, bool) {
		return c17One(dBool(e.N.Equal(c17One1) || e.N.Equal(c17Two) || e.N.Equal(decimal.NewFromInt(3))))
	}},
}

// sub-queries for elements that are arrays
var c17ArrSubs = []c17Sub{
	{`$`, func(e *Doc) ([]*Doc, bool) { return e.A, true }},
	{`$.Count()`, func(e *Doc) ([]*Doc, bool) { return c17One(dDec(decimal.NewFromInt(int64(len(e.A))))) }},
	{`$.Any()`, func(e *Doc) ([]*Doc, bool) { return c17One(dBool(len(e.A) > 0)) }},
	{`$.AsArray()`, c17One},
	{`$.Sum()`, func(e *Doc) ([]*Doc, bool) {
		if !c17AllNums(e.A) {
			return nil, false
		}
		return c17One(c17SumDocs(e.A))
	}},
	{`$[@.Greater(1)]`, func(e *Doc) ([]*Doc, bool) {
		if !c17AllNums(e.A) {
			return nil, false
		}
		return c17Filter(e.A, func(x decimal.Decimal) bool { return x.GreaterThan(c17One1) }), true
	}},
	{`$.First()`, func(e *Doc) ([]*Doc, bool) {
		if len(e.A) == 0 {
			return nil, false
		}
		return c17One(e.A[0])
	}},
	{`$.Select(\"$\")`, func(e *Doc) ([]*Doc, bool) { return e.A, true }},
}

// sub-queries for elements that are strings / bools
var c17StrSubs = []c17Sub{
	{`$`, c17One},
	{`$.Equal(\"abc\")`, func(e *Doc) ([]*Doc, bool) { return c17One(dBool(e.S == "abc")) }},
	{`$.AsArray()`, c17One},
	{`$.AnyOf(\"x\",\"abc\")`, func(e *Doc) ([]*Doc, bool) { return c17One(dBool(e.S == "x" || e.S == "abc")) }},
}
var c17BoolSubs = []c17Sub{
	{`$`, c17One},
	{`$.Not()`, func(e *Doc) ([]*Doc, bool) { return c17One(dBool(!e.B)) }},
	{`$.Equal(true)`, func(e *Doc) ([]*Doc, bool) { return c17One(dBool(e.B)) }},
}

func c17SelectBlock(c *Ctx) {
	r := c.R
	carriers := c17Carriers(r)
	n := c.scale(450, 6000)
	for it := 0; it < n; it++ {
		var kind byte
		var subs []c17Sub
		switch r.Intn(10) {
		case 0, 1, 2, 3, 4:
			kind, subs = 'o', c17ObjSubs
		case 5, 6:
			kind, subs = 'n', c17NumSubs
		case 7, 8:
			kind, subs = 'a', c17ArrSubs
		default:
			if r.Bool() {
				kind, subs = 's', c17StrSubs
			} else {
				kind, subs = 'b', c17BoolSubs
			}
		}
		ln := r.Intn(13)
		doc := c17Arr(r, ln, kind)
		cr := carriers[r.Intn(len(carriers))]
		arr := c17Render(doc, cr)
		pl := c17Places[r.Intn(len(c17Places))]
		d := pl.wrap(arr)
		for _, sb := range subs {
			var want []*Doc
			ok := true
			for _, e := range doc.A {
				part, good := sb.f(e)
				if !good {
					ok = false
					break
				}
				want = append(want, part...)
			}
			subCls := "key"
			switch {
			case strings.Contains(sb.q, "["):
				subCls = "filter"
			case strings.Contains(sb.q, "("):
				subCls = "function"
			case sb.q == "$" || sb.q == "@":
				subCls = "identity"
			}
			cls := "Select-" + subCls + "/" + c17KindName[kind]
			c17Tally(c, "carrier_histogram", cr.name)
			q := pl.pre + `.Select("` + sb.q + `")`
			if !ok {
				// the sub-query fails on some element (First/Last/Index of an empty array): what Select then does is not specified
				c.Do(Case{Q: q, D: d, XK: "", Cls: "Select-subquery-fails/" + c17KindName[kind], InDomain: false})
				continue
			}
			o := c.Do(Case{Q: q, D: d, XK: "logical", X: c17List(want), Cls: cls, InDomain: true})
			// a function applied to the selection sees the flattened list
			if o.Class == "ok" && r.Intn(4) == 0 {
				c.Do(Case{Q: q + ".Count()", D: d, XK: "logical", X: "n:" + fmt.Sprint(len(want)), Cls: "Select-then-Count/" + c17KindName[kind], InDomain: true})
				if len(want) > 0 {
					c.Do(Case{Q: q + ".Last()", D: d, XK: "logical", X: logicalDoc(want[len(want)-1]), Cls: "Select-then-Last/" + c17KindName[kind], InDomain: true})
					c.Do(Case{Q: q + ".Index(0)", D: d, XK: "logical", X: logicalDoc(want[0]), Cls: "Select-then-Index/" + c17KindName[kind], InDomain: true})
				}
			}
		}
	}
	// lists that are windows of one backing array: selecting from them must not write behind them
	for it := 0; it < c.scale(30, 300); it++ {
		n := 4 + r.Intn(5)
		var base []*TV
		var vals []*Doc
		for j := 0; j < n; j++ {
			v := c17Num(r)
			vals = append(vals, v)
			base = append(base, tvDec(v.N))
		}
		var ws [][2]int
		var want []*Doc
		var lastOf *Doc
		for k := 0; k < 2+r.Intn(4); k++ {
			lo := r.Intn(n - 1)
			hi := lo + 1 + r.Intn(n-lo-1)
			ws = append(ws, [2]int{lo, hi})
			want = append(want, vals[lo:hi]...)
		}
		ws = append(ws, [2]int{0, n})
		want = append(want, vals...)
		lastOf = vals[n-1]
		d := tvMap("str", [][2]any{{hx("ws"), tvWin(base, ws...)}, {hx("gs"), tvWinKey("ids", base, ws...)}})
		c.Do(Case{Q: `$.gs.Select("$.ids")`, D: d, XK: "logical", X: c17List(want), Cls: "Select-windows-of-one-array", InDomain: true})
		c.Do(Case{Q: `$.gs.Select("$.ids").Last()`, D: d, XK: "logical", X: logicalDoc(lastOf), Cls: "Select-windows-of-one-array", InDomain: true})
		c.Do(Case{Q: `$.gs.Last().ids.Last()`, D: d, XK: "logical", X: logicalDoc(lastOf), Cls: "Select-windows-of-one-array", InDomain: true})
		c.Do(Case{Q: `$.ws.Select("$")`, D: d, XK: "logical", X: c17List(want), Cls: "Select-windows-of-one-array", InDomain: true})
		c.Do(Case{Q: `$.ws.Select("$").Last()`, D: d, XK: "logical", X: logicalDoc(lastOf), Cls: "Select-windows-of-one-array", InDomain: true})
		c.Do(Case{Q: `$.ws.Last().Last()`, D: d, XK: "logical", X: logicalDoc(lastOf), Cls: "Select-windows-of-one-array", InDomain: true})
	}
	// two selections alive in one query: the result of the first is the receiver while the second is worked out as an argument
	for it := 0; it < c.scale(150, 1500); it++ {
		mkList := func(n int) ([]*Doc, []decimal.Decimal) {
			var xs []*Doc
			var ks []decimal.Decimal
			for i := 0; i < n; i++ {
				k := c17Num(r)
				xs = append(xs, dObj("k", k, "j", c17Num(r)))
				ks = append(ks, k.N)
			}
			return xs, ks
		}
		xs, xk := mkList(r.Intn(8))
		ys, yk := mkList(r.Intn(8))
		if it%5 == 0 { // longer than any small buffer
			xs, xk = mkList(60 + r.Intn(20))
			ys, yk = mkList(70 + r.Intn(20))
		}
		cr := carriers[r.Intn(len(carriers))]
		d := tvMap("str", [][2]any{{hx("xs"), c17Render(&Doc{K: 'a', A: xs}, cr)}, {hx("ys"), c17Render(&Doc{K: 'a', A: ys}, cr)}})
		sum := func(a ...[]decimal.Decimal) decimal.Decimal {
			t := decimal.Zero
			for _, l := range a {
				for _, v := range l {
					t = t.Add(v)
				}
			}
			return t
		}
		num := func(v decimal.Decimal) string { return logicalDoc(dDec(v)) }
		c.Do(Case{Q: `$.xs.Select("$.k").Sum($.ys.Select("$.k"))`, D: d, XK: "logical", X: num(sum(xk, yk)), Cls: "two-selections/Sum", InDomain: true})
		c.Do(Case{Q: `$.ys.Select("$.k").Sum($.xs.Select("$.k"),$.ys.Select("$.k"))`, D: d, XK: "logical", X: num(sum(yk, xk, yk)), Cls: "two-selections/Sum", InDomain: true})
		if len(yk) > 0 { // a key stepped across an empty list is "key not found"
			c.Do(Case{Q: `$.xs.Select("$.k").Sum($.ys.k)`, D: d, XK: "logical", X: num(sum(xk, yk)), Cls: "two-selections/Sum-with-projection", InDomain: true})
		}
		if len(xk) > 0 {
			want := xk[0]
			for _, v := range append(append([]decimal.Decimal{}, xk...), yk...) {
				if v.Cmp(want) > 0 {
					want = v
				}
			}
			c.Do(Case{Q: `$.xs.Select("$.k").Maximum($.ys.Select("$.k"))`, D: d, XK: "logical", X: num(want), Cls: "two-selections/Maximum", InDomain: true})
		}
		var both []*Doc
		for _, v := range xk {
			both = append(both, dDec(v))
		}
		if len(xk) == 0 { // the selection from an empty list is a nil slice, which the next step reads as null (observed; C02 speaks of collections)
			continue
		}
		c.Do(Case{Q: `$.xs.Select("$.k")[@.GreaterOrEqual($.ys.Select("$.k").Count().Multiply(0).Subtract(1000000))]`, D: d, XK: "logical", X: c17List(both), Cls: "two-selections/filter-argument", InDomain: true})
	}
	// rows that lack the selected key, and numeral strings: outside the quantifier, run for the model comparison only
	for it := 0; it < c.scale(60, 600); it++ {
		ln := 1 + r.Intn(5)
		xs := []*Doc{}
		for i := 0; i < ln; i++ {
			if r.Intn(3) == 0 {
				xs = append(xs, dObj("other", c17Num(r)))
			} else {
				xs = append(xs, dObj("k", c17Elem(r, "nN"[r.Intn(2)]), "other", c17Num(r)))
			}
		}
		cr := carriers[r.Intn(len(carriers))]
		d := c17Places[0].wrap(c17Render(&Doc{K: 'a', A: xs}, cr))
		c.Do(Case{Q: `$.xs.Select("$.k")`, D: d, XK: "", Cls: "Select-ragged-or-numeral", InDomain: false})
		c.Do(Case{Q: `$.xs.Select("$.k.Add(1)")`, D: d, XK: "", Cls: "Select-ragged-or-numeral", InDomain: false})
	}
}

// ---------- block C: AnyOf ----------

func c17Scalar(r *rng) *Doc {
	switch r.Intn(5) {
	case 0:
		return c17Str(r)
	case 1:
		return dBool(r.Bool())
	default:
		return c17Num(r)
	}
}

func c17Equal(a, b *Doc) bool {
	if a.K != b.K {
		return false
	}
	switch a.K {
	case 'n':
		return a.N.Equal(b.N)
	case 's':
		return a.S == b.S
	case 'b':
		return a.B == b.B
	}
	return false
}

func c17AnyOfBlock(c *Ctx) {
	r := c.R
	carriers := c17Carriers(r)
	n := c.scale(4000, 50000)
	for it := 0; it < n; it++ {
		v := c17Scalar(r)
		numeral := r.Intn(12) == 0
		arrInput := !numeral && r.Intn(25) == 0
		if numeral {
			v = dStr(r.Pick(c17NumStrs))
		}
		if arrInput {
			v = c17Arr(r, r.Intn(3), 'n')
		}
		near := func() *Doc { // an argument value that is often the input itself
			if !arrInput && r.Intn(3) == 0 {
				return v
			}
			if numeral && r.Intn(3) == 0 {
				return dNum(decimal.RequireFromString(v.S).String())
			}
			return c17Scalar(r)
		}
		a, b := near(), near()
		arr := &Doc{K: 'a', A: []*Doc{}}
		for i, k := 0, r.Intn(5); i < k; i++ {
			arr.A = append(arr.A, near())
		}
		nums := &Doc{K: 'a', A: []*Doc{}}
		for i, k := 0, r.Intn(5); i < k; i++ {
			x := c17Num(r)
			if v.K == 'n' && r.Intn(4) == 0 {
				x = v
			}
			nums.A = append(nums.A, x)
		}
		doc := dObj("v", v, "a", a, "b", b, "arr", arr, "nums", nums, "o", dObj("arr", arr, "a", a))
		cr := carriers[r.Intn(len(carriers))]
		d := c17Render(doc, cr)
		// arguments
		var parts []string
		var spread []*Doc
		kindsUsed := map[string]bool{}
		nArgs := 1 + r.Intn(4)
		if r.Intn(16) == 0 {
			nArgs = 0
		}
		for i := 0; i < nArgs; i++ {
			switch r.Intn(9) {
			case 0, 1, 2:
				x := near()
				if numeral && x.K == 's' {
					x = c17Num(r)
				}
				parts, spread = append(parts, c17Lit(x)), append(spread, x)
				kindsUsed["literal"] = true
			case 3:
				parts, spread = append(parts, "$.a"), append(spread, a)
				kindsUsed["path"] = true
			case 4:
				parts, spread = append(parts, "$.b"), append(spread, b)
				kindsUsed["path"] = true
			case 5:
				parts, spread = append(parts, "$.arr"), append(spread, arr.A...)
				kindsUsed["array"] = true
			case 6:
				parts, spread = append(parts, "$.nums"), append(spread, nums.A...)
				kindsUsed["array"] = true
			case 7:
				parts, spread = append(parts, "$.o.arr"), append(spread, arr.A...)
				kindsUsed["array"] = true
			default:
				if arrInput {
					continue
				}
				parts, spread = append(parts, "@"), append(spread, v) // the receiver itself
				kindsUsed["receiver"] = true
			}
		}
		want := false
		for _, p := range spread {
			if c17Equal(v, p) {
				want = true
			}
		}
		argCls := "no-arguments"
		switch {
		case kindsUsed["array"] && (kindsUsed["literal"] || kindsUsed["path"]):
			argCls = "array+scalar-arguments"
		case kindsUsed["array"]:
			argCls = "array-arguments"
		case kindsUsed["path"] && kindsUsed["literal"]:
			argCls = "path+literal-arguments"
		case kindsUsed["path"]:
			argCls = "path-arguments"
		case kindsUsed["literal"]:
			argCls = "literal-arguments"
		case kindsUsed["receiver"]:
			argCls = "receiver-argument"
		}
		q := "$.v.AnyOf(" + strings.Join(parts, ",") + ")"
		inDomain := !numeral
		for _, p := range spread {
			if p.K == 's' {
				if _, err := decimal.NewFromString(p.S); err == nil {
					inDomain = false
				}
			}
		}
		switch {
		case !inDomain:
			c.Do(Case{Q: q, D: d, XK: "", Cls: "AnyOf-numeral-string/" + argCls, InDomain: false})
		case arrInput:
			c.Do(Case{Q: q, D: d, XK: "logical", X: "b:0", Cls: "AnyOf-array-input/" + argCls, InDomain: true})
		default:
			res := "true"
			if !want {
				res = "false"
			}
			c.Do(Case{Q: q, D: d, XK: "logical", X: "b:" + b2s(want), Cls: "AnyOf-" + res + "/" + c17KindName[v.K] + "/" + argCls, InDomain: true})
			c17Tally(c, "carrier_histogram", cr.name)
		}
	}
}

// ---------- block D: aggregates over a stepped key ≡ over Select ≡ over the plain values ----------

// c17RoundQuot: num/den rounded half away from zero at `places` decimal places, as a fraction
func c17RoundQuot(q *big.Rat, places int) *big.Rat {
	scale := new(big.Int).Exp(big.NewInt(10), big.NewInt(int64(places)), nil)
	x := new(big.Rat).Mul(q, new(big.Rat).SetInt(scale))
	neg := x.Sign() < 0
	if neg {
		x.Neg(x)
	}
	// floor(x + 1/2)
	x.Add(x, big.NewRat(1, 2))
	fl := new(big.Int).Quo(x.Num(), x.Denom())
	if neg {
		fl.Neg(fl)
	}
	return new(big.Rat).SetFrac(fl, scale)
}

func c17AggregateBlock(c *Ctx) {
	r := c.R
	carriers := c17Carriers(r)
	n := c.scale(500, 7000)
	for it := 0; it < n; it++ {
		ln := 1 + r.Intn(12)
		if it < 13 {
			ln = it%12 + 1
		}
		xs := &Doc{K: 'a'}
		vs := &Doc{K: 'a'}
		for i := 0; i < ln; i++ {
			row := c17Obj(r)
			xs.A = append(xs.A, row)
			vs.A = append(vs.A, row.get("k"))
		}
		doc := dObj("xs", xs, "vs", vs)
		cr := carriers[r.Intn(len(carriers))]
		d := c17Render(doc, cr)
		sum, min, max := vs.A[0].N, vs.A[0].N, vs.A[0].N
		for _, x := range vs.A[1:] {
			sum = sum.Add(x.N)
			if x.N.LessThan(min) {
				min = x.N
			}
			if x.N.GreaterThan(max) {
				max = x.N
			}
		}
		avg := c17RoundQuot(new(big.Rat).Quo(ratOf(sum), big.NewRat(int64(ln), 1)), 16)
		want := map[string]string{
			"Sum": "n:" + ratOf(sum).RatString(), "Minimum": "n:" + ratOf(min).RatString(), "Maximum": "n:" + ratOf(max).RatString(),
			"Average": "n:" + avg.RatString(),
		}
		for _, agg := range []string{"Sum", "Average", "Minimum", "Maximum"} {
			cls := "aggregate-" + agg
			c17Tally(c, "carrier_histogram", cr.name)
			q1 := "$.xs.k." + agg + "()"
			q2 := `$.xs.Select("$.k").` + agg + "()"
			q3 := "$.vs." + agg + "()"
			o1 := c.Do(Case{Q: q1, D: d, XK: "logical", X: want[agg], Cls: cls + "/stepped-key", InDomain: true})
			o2 := c.Do(Case{Q: q2, D: d, XK: "logical", X: want[agg], Cls: cls + "/Select", InDomain: true})
			o3 := c.Do(Case{Q: q3, D: d, XK: "logical", X: want[agg], Cls: cls + "/direct", InDomain: true})
			c.c17Rel("xs.k."+agg+"()≡xs.Select(\"$.k\")."+agg+"()", q1, q2, d, c17Res(o1), c17Res(o2), "identity-aggregate")
			c.c17Rel("xs.k."+agg+"()≡values."+agg+"()", q1, q3, d, c17Res(o1), c17Res(o3), "identity-aggregate")
		}
		// the collected values themselves
		c.Do(Case{Q: "$.xs.k", D: d, XK: "logical", X: logicalDoc(vs), Cls: "stepped-key", InDomain: true})
		c.Do(Case{Q: "$.xs.k.Count()", D: d, XK: "logical", X: "n:" + fmt.Sprint(ln), Cls: "stepped-key-Count", InDomain: true})
	}
	// an empty array has no objects to step across (`$.xs.k` is key-not-found, `Select` gives the empty list): outside the identity
	for _, cr := range carriers {
		d := c17Render(dObj("xs", dArr(), "vs", dArr()), cr)
		for _, q := range []string{"$.xs.k.Sum()", `$.xs.Select("$.k").Sum()`, "$.vs.Sum()"} {
			c.Do(Case{Q: q, D: d, XK: "", Cls: "aggregate-empty-array", InDomain: false})
		}
	}
}

func genC17(c *Ctx) {
	c.Rule = "block A, enumerated completely: every length 0..12 x element kind (numbers, non-numeral strings, booleans, objects, arrays, mixed, and numeral strings as a separate class) x 10 carriers ([]any of float64, []any of mixed number carriers, typed slices of float64 / int / decimal.Decimal / named types, [n]any, typed Go arrays, (typed slices of) StructOf structs, pointers to numbers and objects) plus empty typed and nil slices, under a map key, at the root and in a struct field; queries Count, Any, AsArray (of the array and of one element), First, Last, Index(i) for every i in -2..len+2, fractional and huge indexes (0.5, 1.5, -0.5, 1e30, 18446744073709551617, the multiples of 2^64 1e64 / 3e70 / 1e100, and exact 2^64+i, -2^64+i, 2^63, 3*2^64+i given as a decimal or numeric string through a path), Index(1.0), Index given as a path; element values are random. Expected: length, length>0, [input], the element of the logical document at 0 / len-1 / i compared by logical value (numbers by value), ERR when the index is outside 0..len-1, fractional, or the array is empty. A numeral-string element is returned as that string. Identities First≡Index(0) and Last≡Index(Count-1) on the implementation's own answers. Block B (random): Select with key, identity, function, filter and nested-Select sub-queries on arrays (length 0..12) of objects, numbers, arrays, strings, bools in a random carrier; expected = concatenation over the elements of the sub-query's value computed from the document, array values spread one level; then Count/Last/Index on the selection. Block C (random): `$.v.AnyOf(args)` with 0..4 arguments (mostly 1..4) drawn from literals, scalar paths, array paths (spread), nested array paths and `@`; expected true iff the input equals (numbers by value, strings and bools by ==, different kinds never) one of the spread arguments; arguments are biased towards the input so both answers are frequent; numeral strings anywhere put the case outside the domain. Block D (random): rectangular arrays (length 1..12) of objects with numeric field k: Sum/Average/Minimum/Maximum over `$.xs.k`, over `$.xs.Select(\"$.k\")` and over the plain array of the same values, each against the value computed from the document (Average: rounded half away from zero at 16 places) and against each other. distinct = distinct (query skeleton, data shape to depth 2, outcome class); non-trivial = outcome class is not the most common one"
	c17ElementBlock(c)
	c.Exhaustive = true
	c17SelectBlock(c)
	c17AnyOfBlock(c)
	c05ManyCandidates(c) // AnyOf with many candidates: the answer does not depend on how many there are
	c17AggregateBlock(c)
}
