package main

// Constants that the current source of the library holds and the source the model was validated against did not:
// a change that keys its behaviour to a length, a count, a depth, a value or a piece of text (`len(x) >= 512`, `n == 1024`,
// `"(?<"`) puts that constant into the source. The generators use these constants - and their neighbours - as list lengths,
// argument counts, string lengths, nesting depths, number values and text fragments. On the unchanged tree the set is empty
// and nothing changes. This only steers the search for a failing input: the oracles stay the ones of the properties.

import (
	_ "embed"
	"encoding/json"
	"fmt"
	"go/ast"
	"go/parser"
	"go/token"
	"os"
	"path/filepath"
	"sort"
	"strconv"
	"strings"
	"sync"
)

//go:embed baseline_consts.json
var baselineConstsJSON []byte

// sourceConsts: every integer and string literal of the non-test Go files of the package in dir, with multiplicities
func sourceConsts(dir string) (map[string]int, error) {
	out := map[string]int{}
	files, err := filepath.Glob(filepath.Join(dir, "*.go"))
	if err != nil {
		return nil, err
	}
	fset := token.NewFileSet()
	for _, f := range files {
		if strings.HasSuffix(f, "_test.go") {
			continue
		}
		af, err := parser.ParseFile(fset, f, nil, 0)
		if err != nil {
			return nil, err
		}
		ast.Inspect(af, func(n ast.Node) bool {
			switch t := n.(type) {
			case *ast.ImportSpec:
				return false
			case *ast.BasicLit:
				switch t.Kind {
				case token.INT:
					if v, err := strconv.ParseInt(strings.ReplaceAll(t.Value, "_", ""), 0, 64); err == nil {
						out["i:"+strconv.FormatInt(v, 10)]++
					}
				case token.FLOAT:
					out["f:"+t.Value]++
				case token.STRING:
					if s, err := strconv.Unquote(t.Value); err == nil {
						out["s:"+s]++
					}
				case token.CHAR:
					if s, err := strconv.Unquote(t.Value); err == nil {
						out["s:"+s]++
					}
				}
			}
			return true
		})
	}
	return out, nil
}

type novelSet struct {
	Ints []int64  // new integer constants (2 <= n <= 2^20), ascending, at most 16
	Strs []string // new short string constants (1..48 bytes, one line), at most 24
}

var (
	novelOnce sync.Once
	novel     novelSet
)

// novelConsts: the constants of the current source (MPV_REPO, default /repo) that the baseline does not hold
func novelConsts() *novelSet {
	novelOnce.Do(func() {
		dir := os.Getenv("MPV_REPO")
		if dir == "" {
			dir = "/repo"
		}
		cur, err := sourceConsts(dir)
		if err != nil {
			return
		}
		base := map[string]int{}
		if json.Unmarshal(baselineConstsJSON, &base) != nil {
			return
		}
		for k, n := range cur {
			if n <= base[k] {
				continue
			}
			switch {
			case strings.HasPrefix(k, "i:"):
				v, _ := strconv.ParseInt(k[2:], 10, 64)
				if v >= 2 && v <= 1<<20 {
					novel.Ints = append(novel.Ints, v)
				}
			case strings.HasPrefix(k, "s:"):
				s := k[2:]
				if len(s) >= 1 && len(s) <= 48 && !strings.ContainsAny(s, "\n\r") && base[k] == 0 {
					novel.Strs = append(novel.Strs, s)
				}
			}
		}
		sort.Slice(novel.Ints, func(i, j int) bool { return novel.Ints[i] < novel.Ints[j] })
		sort.Strings(novel.Strs)
		if len(novel.Ints) > 16 {
			novel.Ints = novel.Ints[:16]
		}
		if len(novel.Strs) > 24 {
			// messages are long and come in numbers: prefer the short ones
			sort.SliceStable(novel.Strs, func(i, j int) bool { return len(novel.Strs[i]) < len(novel.Strs[j]) })
			novel.Strs = novel.Strs[:24]
		}
	})
	return &novel
}

// around: n-1, n, n+1 for every new integer constant not above max (and not below 1), without repetitions, after the fixed ones
func around(fixed []int, max int) []int {
	seen := map[int]bool{}
	var out []int
	add := func(v int) {
		if v >= 1 && v <= max && !seen[v] {
			seen[v] = true
			out = append(out, v)
		}
	}
	for _, v := range fixed {
		add(v)
	}
	for _, n := range novelConsts().Ints {
		for d := -1; d <= 1; d++ {
			add(int(n) + d)
		}
	}
	return out
}

func init() {
	commands["consts"] = func(args []string) { // mpv consts <repo>: the baseline file on stdout
		m, err := sourceConsts(args[0])
		if err != nil {
			fmt.Fprintln(os.Stderr, err)
			os.Exit(2)
		}
		b, _ := json.MarshalIndent(m, "", " ")
		os.Stdout.Write(append(b, '\n'))
	}
	commands["novel"] = func(args []string) { // mpv novel: what the generators will add on this tree
		b, _ := json.Marshal(novelConsts())
		fmt.Println(string(b))
	}
}
