package main

// C01: a key-only path returns exactly the value stored at that path. The expected answer of every in-domain case
// comes from c01SpecLookup, a direct reading of the property statement on the logical document (no mpath code is
// involved): objects are looked up by the unique key equal under case folding; a key applied to an array whose first
// element is an object gives that key's values from the elements that have it, in array order; everything else
// (missing key, key applied to null / a primitive / an empty array / an array that does not start with an object)
// is key-not-found.

import (
	"fmt"
	"strings"
	"unicode"
)

func init() { evalGens["C01"] = genC01 }

// ---------- the specification ----------

// c01Fold: equality of keys without regard to letter case (upper- and lower-case forms of each letter identified).
func c01Fold(a, b string) bool {
	ra, rb := []rune(a), []rune(b)
	if len(ra) != len(rb) {
		return false
	}
	for i := range ra {
		if ra[i] == rb[i] {
			continue
		}
		if unicode.ToLower(ra[i]) != unicode.ToLower(rb[i]) && unicode.ToUpper(ra[i]) != unicode.ToUpper(rb[i]) {
			return false
		}
	}
	return true
}

// c01ObjGet: the value under the unique key of o equal to k under case folding; n is the number of such keys.
func c01ObjGet(o *Doc, k string) (v *Doc, n int) {
	for i, kk := range o.Keys {
		if c01Fold(kk, k) {
			if n == 0 {
				v = o.Vals[i]
			}
			n++
		}
	}
	return
}

// c01Step applies one key to one logical value.
func c01Step(d *Doc, k string) (*Doc, bool) {
	switch d.K {
	case 'o':
		v, n := c01ObjGet(d, k)
		return v, n == 1
	case 'a':
		if len(d.A) == 0 || d.A[0].K != 'o' {
			return nil, false
		}
		out := &Doc{K: 'a', A: []*Doc{}}
		for _, e := range d.A {
			if e.K != 'o' {
				continue
			}
			if v, n := c01ObjGet(e, k); n == 1 {
				out.A = append(out.A, v)
			}
		}
		return out, len(out.A) > 0
	}
	return nil, false // null, bool, number, string: nothing is stored under a key
}

// c01SpecLookup: the value stored under keys, or false for key-not-found.
func c01SpecLookup(doc *Doc, keys []string) (*Doc, bool) {
	cur := doc
	for _, k := range keys {
		nx, ok := c01Step(cur, k)
		if !ok {
			return nil, false
		}
		cur = nx
	}
	return cur, true
}

// c01Hazard reports whether the walk meets something outside the quantifier / outside what the Doc-level rule decides:
// "collide": an object on the way has two keys equal under folding to the key asked for;
// "numfirst": a key is applied to an array whose first element is a number while a later element is an object having
// the key (a decimal.Decimal is struct-kinded, so the answer depends on the number carrier: KNF for float64/int stored
// in the data, the later elements' values for decimals - and numbers collected by an earlier projection are decimals).
func c01Hazard(doc *Doc, keys []string) string {
	cur := doc
	for _, k := range keys {
		switch cur.K {
		case 'o':
			if _, n := c01ObjGet(cur, k); n > 1 {
				return "collide"
			}
		case 'a':
			for _, e := range cur.A {
				if e.K == 'o' {
					if _, n := c01ObjGet(e, k); n > 1 {
						return "collide"
					}
				}
			}
			if len(cur.A) > 0 && cur.A[0].K == 'n' {
				for _, e := range cur.A[1:] {
					if e.K == 'o' {
						if _, n := c01ObjGet(e, k); n > 0 {
							return "numfirst"
						}
					}
				}
			}
		}
		nx, ok := c01Step(cur, k)
		if !ok {
			return ""
		}
		cur = nx
	}
	return ""
}

func c01Expect(doc *Doc, keys []string) string {
	if v, ok := c01SpecLookup(doc, keys); ok {
		return logicalDoc(v)
	}
	return "KNF"
}

// ---------- helpers ----------

// c01Casings: every ASCII re-casing of k (2^letters strings; k itself included).
func c01Casings(k string) []string {
	out := []string{""}
	for i := 0; i < len(k); i++ {
		ch := k[i]
		var alts []byte
		switch {
		case ch >= 'a' && ch <= 'z':
			alts = []byte{ch, ch - 32}
		case ch >= 'A' && ch <= 'Z':
			alts = []byte{ch, ch + 32}
		default:
			alts = []byte{ch}
		}
		var nx []string
		for _, p := range out {
			for _, a := range alts {
				nx = append(nx, p+string(a))
			}
		}
		out = nx
	}
	return out
}

// c01RandCase: a random re-casing of k (letter by letter; all-upper and all-lower forms are favoured).
func c01RandCase(r *rng, k string) string {
	switch r.Intn(5) {
	case 0:
		return k
	case 1:
		return strings.ToUpper(k)
	case 2:
		return strings.ToLower(k)
	}
	rs := []rune(k)
	for i, ch := range rs {
		if r.Bool() {
			// any member of the letter's case orbit (unicode.SimpleFold): for most letters the other case, for a few a
			// third form whose UTF-8 encoding has another length (k / K / KELVIN SIGN, s / S / LONG S, å / Å / ANGSTROM SIGN)
			o := unicode.SimpleFold(ch)
			for n := r.Intn(3); n > 0 && o != ch; n-- {
				if nx := unicode.SimpleFold(o); nx != ch {
					o = nx
				}
			}
			rs[i] = o
		}
	}
	return string(rs)
}

func c01HasStructObj(d *Doc) bool { // would the struct rendering differ from the map rendering?
	switch d.K {
	case 'a':
		for _, x := range d.A {
			if c01HasStructObj(x) {
				return true
			}
		}
	case 'o':
		if len(d.Keys) > 0 {
			return true
		}
	}
	return false
}

func c01NonASCII(keys []string) bool {
	for _, k := range keys {
		for i := 0; i < len(k); i++ {
			if k[i] >= 0x80 {
				return true
			}
		}
	}
	return false
}

// c01NonASCIIRecased: some non-ASCII letter of the path is written in another case than in keys
func c01NonASCIIRecased(keys, asked []string) bool {
	for i := range keys {
		a, b := []rune(keys[i]), []rune(asked[i])
		for j := range a {
			if j < len(b) && a[j] != b[j] && (a[j] >= 0x80 || b[j] >= 0x80) {
				return true
			}
		}
	}
	return false
}

func c01Query(keys []string) string { return "$." + strings.Join(keys, ".") }

// ---------- bounded-exhaustive block ----------

var c01ExKeys = []string{"a", "b", "ab"}

func c01ExLeaves() []*Doc {
	return []*Doc{dNull(), dBool(true), dNum("0"), dNum("1.5"), dStr("x"), dArr()}
}

// c01DocsBySize[n]: every document with exactly n nodes (a leaf, an empty object and an empty array count 1; a
// container counts 1 plus its children) over the key alphabet and the leaf set. Objects list their keys in alphabet
// order (sibling order is not observable), arrays are ordered.
func c01DocsBySize(max int) [][]*Doc {
	by := make([][]*Doc, max+1)
	by[1] = append(c01ExLeaves(), dObj())
	// tuples[n][k]: ordered k-tuples of documents with n nodes in total
	var tuples func(n, k int) [][]*Doc
	memo := map[[2]int][][]*Doc{}
	tuples = func(n, k int) [][]*Doc {
		if k == 0 {
			if n == 0 {
				return [][]*Doc{{}}
			}
			return nil
		}
		if n < k {
			return nil
		}
		if m, ok := memo[[2]int{n, k}]; ok {
			return m
		}
		var out [][]*Doc
		for first := 1; first <= n-(k-1); first++ {
			for _, d := range by[first] {
				for _, rest := range tuples(n-first, k-1) {
					out = append(out, append([]*Doc{d}, rest...))
				}
			}
		}
		memo[[2]int{n, k}] = out
		return out
	}
	for n := 2; n <= max; n++ {
		// objects over every non-empty subset of the key alphabet
		for mask := 1; mask < 1<<len(c01ExKeys); mask++ {
			var ks []string
			for i, k := range c01ExKeys {
				if mask>>i&1 == 1 {
					ks = append(ks, k)
				}
			}
			for _, tp := range tuples(n-1, len(ks)) {
				by[n] = append(by[n], &Doc{K: 'o', Keys: ks, Vals: tp})
			}
		}
		// arrays of every length ≥ 1
		for k := 1; k <= n-1; k++ {
			for _, tp := range tuples(n-1, k) {
				by[n] = append(by[n], &Doc{K: 'a', A: tp})
			}
		}
	}
	return by
}

func c01ExPaths(depth int) [][]string {
	var out [][]string
	var rec func(cur []string)
	rec = func(cur []string) {
		if len(cur) > 0 {
			out = append(out, append([]string{}, cur...))
		}
		if len(cur) == depth {
			return
		}
		for _, k := range c01ExKeys {
			rec(append(cur, k))
		}
	}
	rec(nil)
	return out
}

// c01AllCasings: the product of the re-casings of every key of the path.
func c01AllCasings(keys []string) [][]string {
	out := [][]string{{}}
	for _, k := range keys {
		var nx [][]string
		for _, p := range out {
			for _, kc := range c01Casings(k) {
				nx = append(nx, append(append([]string{}, p...), kc))
			}
		}
		out = nx
	}
	return out
}

func genC01(c *Ctx) {
	r := c.R
	fullNodes, prunedNodes := 2, 3
	if c.thorough() {
		fullNodes, prunedNodes = 3, 4
	}
	c.Rule = fmt.Sprintf("bounded-exhaustive block: every document (root of any kind) with at most %d nodes over the key alphabet {a,b,ab} and the leaf set {null,true,0,1.5,\"x\",[]} (plus {}), rendered as map/slice values and, when it has a non-empty object, as Go structs, x every key path of depth 1..3 over the alphabet x every ASCII re-casing of every key (584 query strings per document); then every document with %d nodes x every path of depth 1..3, with every re-casing for the paths whose proper prefix resolves; a path that already failed at a proper prefix is run in the written casing (and, at depth 2, also in the all-upper casing). random block: documents of depth <= 6 and fan-out <= 6 (objects with mixed-case ASCII and a few non-ASCII keys that stay distinct under folding, arrays of heterogeneous objects, arrays with non-object elements, nested arrays, null/bool/number/non-numeral-string leaves), each rendered as map or struct with number carriers f64/int/dec/mixed, with data-directed paths of depth 1..6 (a step follows an existing key with probability 5/6, otherwise a key that is absent; the walk continues past the point of failure) under a random re-casing. Expected answers come from c01SpecLookup on the logical document. Out-of-domain classes (no expectation): documents with numeral strings as leaves, paths through sibling keys that collide under case folding (maps only), paths through arrays that start with a number and continue with objects having the key (the answer depends on the number carrier). Re-casing draws from the whole case orbit of a letter (unicode.SimpleFold), so ASCII keys are also asked with KELVIN SIGN / LONG S spellings and some spellings differ in UTF-8 length; the model folds with the regenerated unicode tables. distinct = distinct (query skeleton, data shape to depth 2, outcome class); non-trivial = outcome class is not the most common one", fullNodes, prunedNodes)

	by := c01DocsBySize(prunedNodes)
	paths := c01ExPaths(3)
	stMap := &Style{Obj: "map", Num: "f64"}
	stStruct := &Style{Obj: "struct", Num: "f64"}
	run := func(doc *Doc, keys []string, dm, ds *TV, cls string) {
		x := c01Expect(doc, keys)
		q := c01Query(keys)
		c.Do(Case{Q: q, D: dm, XK: "logical", X: x, Cls: cls + "/map", InDomain: true})
		if ds != nil {
			c.Do(Case{Q: q, D: ds, XK: "logical", X: x, Cls: cls + "/struct", InDomain: true})
		}
	}
	for n := 1; n <= prunedNodes; n++ {
		for _, doc := range by[n] {
			dm := render(doc, stMap)
			var ds *TV
			if c01HasStructObj(doc) {
				ds = render(doc, stStruct)
			}
			for _, p := range paths {
				if n <= fullNodes {
					for _, pc := range c01AllCasings(p) {
						run(doc, pc, dm, ds, fmt.Sprintf("exhaustive/nodes%d/depth%d", n, len(p)))
					}
					continue
				}
				if _, live := c01SpecLookup(doc, p[:len(p)-1]); live {
					for _, pc := range c01AllCasings(p) {
						run(doc, pc, dm, ds, fmt.Sprintf("exhaustive/nodes%d/live-prefix/depth%d", n, len(p)))
					}
				} else {
					up := make([]string, len(p))
					for i, k := range p {
						up[i] = strings.ToUpper(k)
					}
					run(doc, p, dm, ds, fmt.Sprintf("exhaustive/nodes%d/dead-prefix/depth%d", n, len(p)))
					if len(p) < 3 {
						run(doc, up, dm, ds, fmt.Sprintf("exhaustive/nodes%d/dead-prefix/depth%d", n, len(p)))
					}
				}
			}
		}
	}
	c.Exhaustive = true
	c.Extra["exhaustive_documents"] = func() int {
		t := 0
		for n := 1; n <= prunedNodes; n++ {
			t += len(by[n])
		}
		return t
	}()

	// ---------- structs whose layout is not the list of their exported fields ----------
	// (reflect.StructOf cannot make these: a hidden field before the exported ones, and two distinct types that print alike)
	{
		f := func(h, a int, k string) *TV {
			return tvUnexp("F", tvInt("int", fmt.Sprint(h)), tvInt("int", fmt.Sprint(a)), tvStr(k))
		}
		r1 := func(k string, a int) *TV { return tvUnexp("R1", tvStr(k), tvInt("int", fmt.Sprint(a))) }
		r2 := func(pad, priv int, k string) *TV {
			return tvUnexp("R2", tvInt("int", fmt.Sprint(pad)), tvInt("int", fmt.Sprint(priv)), tvStr(k))
		}
		doc := tvMap("str", [][2]any{
			{hx("f"), f(9, 3, "kf")},
			{hx("fs"), tvSlice(1, f(1, 10, "x"), f(2, 20, "y"))},
			{hx("p"), tvPtr(f(5, 6, "kp"))},
			{hx("one"), r1("first", 1)},
			{hx("two"), r2(7, 8, "second")},
			{hx("mix"), tvSlice(1, r1("m1", 11), r2(70, 80, "m2"), r1("m3", 33))},
		})
		n := func(x string) string { return logicalDoc(dNum(x)) }
		st := func(x string) string { return logicalDoc(dStr(x)) }
		// a private field whose name differs in case only from an exported one (before it, and after it), and an embedded pointer
		dup := func(k string, id int, ID, name string) *TV {
			return tvUnexp(k, tvInt("int", fmt.Sprint(id)), tvStr(ID), tvStr(name))
		}
		dup2 := func(ID string, id int, name string) *TV {
			return tvUnexp("D2", tvStr(ID), tvInt("int", fmt.Sprint(id)), tvStr(name))
		}
		doc2 := tvMap("str", [][2]any{
			{hx("d"), dup("D", 5, "acc-1", "n1")}, {hx("e"), dup2("acc-2", 6, "n2")},
			{hx("ds"), tvSlice(1, dup("D", 1, "m-1", "x"), dup2("m-2", 2, "y"), dup("D", 3, "m-3", "z"))},
			{hx("pd"), tvPtr(dup("D", 7, "acc-7", "n7"))},
			{hx("emb"), tvUnexp("E", tvStr("ann"), tvInt("int", "4"), tvInt("int", "11"))}, {hx("emb0"), tvUnexp("E0", tvInt("int", "12"))},
			{hx("embs"), tvSlice(1, tvUnexp("E0", tvInt("int", "1")), tvUnexp("E", tvStr("bob"), tvInt("int", "2"), tvInt("int", "3")))},
		})
		for _, qx := range [][2]string{
			{"$.d.id", st("acc-1")}, {"$.d.ID", st("acc-1")}, {"$.d.Id", st("acc-1")}, {"$.d.name", st("n1")}, {"$.e.id", st("acc-2")}, {"$.e.ID", st("acc-2")}, {"$.e.name", st("n2")},
			{"$.ds.id", logicalDoc(dArr(dStr("m-1"), dStr("m-2"), dStr("m-3")))}, {"$.ds.ID", logicalDoc(dArr(dStr("m-1"), dStr("m-2"), dStr("m-3")))},
			{"$.ds.name", logicalDoc(dArr(dStr("x"), dStr("y"), dStr("z")))}, {"$.pd.id", st("acc-7")},
			{"$.emb.id", n("11")}, {"$.emb0.id", n("12")}, {"$.emb.createdby", "KNF"}, {"$.emb0.createdby", "KNF"}, {"$.emb0.CreatedBy", "KNF"}, {"$.emb0.revision", "KNF"},
			{"$.embs.id", logicalDoc(dArr(dNum("1"), dNum("3")))}, {"$.embs.createdby", "KNF"}, {"$.emb.embinner.createdby", st("ann")}, {"$.emb0.embinner.createdby", "KNF"},
		} {
			c.Do(Case{Q: qx[0], D: doc2, XK: "logical", X: qx[1], Cls: "named/struct-layouts", InDomain: true})
		}
		for round := 0; round < 2; round++ { // the second round meets whatever the first one left behind
			for _, qx := range [][2]string{
				{"$.f.a", n("3")}, {"$.f.A", n("3")}, {"$.f.k", st("kf")}, {"$.f.K", st("kf")}, {"$.f.hidden", "KNF"}, {"$.f.Hidden", "KNF"},
				{"$.fs.a", logicalDoc(dArr(dNum("10"), dNum("20")))}, {"$.fs.k", logicalDoc(dArr(dStr("x"), dStr("y")))}, {"$.fs.hidden", "KNF"},
				{"$.p.a", n("6")}, {"$.p.k", st("kp")},
				{"$.one.k", st("first")}, {"$.two.k", st("second")}, {"$.one.k", st("first")}, {"$.one.a", n("1")}, {"$.two.pad", n("7")},
				{"$.two.a", "KNF"}, {"$.one.pad", "KNF"}, {"$.two.priv", "KNF"}, {"$.two.K", st("second")}, {"$.one.K", st("first")},
				{"$.mix.k", logicalDoc(dArr(dStr("m1"), dStr("m2"), dStr("m3")))}, {"$.mix.a", logicalDoc(dArr(dNum("11"), dNum("33")))},
				{"$.mix.pad", logicalDoc(dArr(dNum("70")))},
			} {
				c.Do(Case{Q: qx[0], D: doc, XK: "logical", X: qx[1], Cls: "named/struct-layouts", InDomain: true})
			}
		}
	}

	// ---------- random block ----------
	nDocs := c.scale(2000, 20000)
	for i := 0; i < nDocs; i++ {
		mode := "plain"
		switch i % 11 {
		case 7:
			mode = "unicode"
		case 8:
			mode = "numeral"
		case 9:
			mode = "collide"
		case 10:
			mode = "numfirst"
		}
		g := &c01Gen{r: r, mode: mode, budget: 20 + r.Intn(70)}
		doc := g.obj(3+r.Intn(4), true)
		type rendering struct {
			name string
			tv   *TV
		}
		var rends []rendering
		num := []string{"f64", "int", "dec", "mixed"}[r.Intn(4)]
		rends = append(rends, rendering{"map/" + num, render(doc, &Style{Obj: "map", Num: num, R: r})})
		if mode != "collide" && !g.nonIdent {
			num2 := []string{"f64", "int", "dec", "mixed"}[r.Intn(4)]
			rends = append(rends, rendering{"struct/" + num2, render(doc, &Style{Obj: "struct", Num: num2, R: r})})
		}
		for j := 0; j < 8; j++ {
			depth := 1 + r.Intn(6)
			if d2 := 1 + r.Intn(6); d2 > depth && r.Bool() {
				depth = d2 // skew towards the deep paths, which die early more often
			}
			keys := c01RandPath(r, doc, depth)
			asked := make([]string, len(keys))
			for t, k := range keys {
				asked[t] = c01RandCase(r, k)
			}
			hz := c01Hazard(doc, asked)
			for _, rd := range rends {
				cs := Case{Q: c01Query(asked), D: rd.tv, InDomain: true, XK: "logical", X: c01Expect(doc, asked)}
				switch {
				case hz == "collide":
					cs.Cls, cs.InDomain, cs.XK, cs.X = "ood/case-colliding-keys/"+rd.name, false, "", ""
				case hz == "numfirst":
					// a decimal.Decimal first element is struct-kinded, so the projection looks at the later elements; numbers
					// are decimals in the dec carrier and in every array that an earlier projection produced, float64/int otherwise
					cs.Cls, cs.InDomain, cs.XK, cs.X = "ood/number-first-array/"+rd.name, false, "", ""
				case mode == "numeral":
					cs.Cls, cs.InDomain, cs.XK, cs.X = "ood/numeral-string/"+rd.name, false, "", ""
				case c01NonASCIIRecased(keys, asked):
					// the model folds with the unicode tables of the running Go (regenerated on every run)
					cs.Cls = "random/non-ascii-recasing/" + rd.name
				case c01NonASCII(asked):
					cs.Cls = "random/non-ascii-keys/" + rd.name
				default:
					cs.Cls = fmt.Sprintf("random/%s/depth%d", rd.name, len(asked))
				}
				c.Do(cs)
			}
		}
	}
}

// ---------- random documents ----------

var c01Keys = []string{"a", "b", "ab", "k", "id", "name", "userName", "Zed", "ITEMS", "x1", "a_b", "o", "xs", "q"}
var c01UniKeys = []string{"é", "ñu", "Ωmega", "straße", "Ⱥccount", "ångström", "ǆ"}
var c01Strs = []string{"", "x", "abc", "abcDEF", "hello world", "1x", "e3", "-", "true", "null"}
var c01NumStrs = []string{"12", "0123", "1e3", "-0.50", "0"}
var c01Nums = []string{"0", "1", "-1", "1.5", "2", "10", "0.1", "100", "-7.25", "123456789", "3.14159"}

type c01Gen struct {
	r        *rng
	mode     string // plain | unicode | numeral | collide | numfirst
	nonIdent bool   // some key is not a valid Go identifier (no struct rendering)
	budget   int    // nodes still allowed (keeps deep, wide documents small enough to run many of them)
}

func (g *c01Gen) leaf() *Doc {
	r := g.r
	g.budget--
	switch r.Intn(7) {
	case 0:
		return dNull()
	case 1:
		return dBool(r.Bool())
	case 2, 3:
		if g.mode == "numeral" && r.Intn(2) == 0 {
			return dStr(r.Pick(c01NumStrs))
		}
		return dStr(r.Pick(c01Strs))
	case 4:
		if r.Intn(3) == 0 {
			return dArr()
		}
		return dObj()
	}
	return dNum(r.Pick(c01Nums))
}

func (g *c01Gen) val(depth int) *Doc {
	r := g.r
	if depth <= 0 || g.budget <= 0 {
		return g.leaf()
	}
	switch x := r.Intn(10); {
	case x < 3:
		return g.leaf()
	case x < 6:
		return g.arr(depth-1, false)
	}
	return g.obj(depth-1, false)
}

// obj: an object with 1..6 keys distinct under case folding (unless mode is "collide"); spine forces one deep child.
func (g *c01Gen) obj(depth int, spine bool) *Doc {
	r := g.r
	n := 1 + r.Intn(6)
	g.budget--
	d := &Doc{K: 'o'}
	has := func(k string) bool {
		for _, kk := range d.Keys {
			if c01Fold(kk, k) {
				return true
			}
		}
		return false
	}
	for i := 0; i < n && (i == 0 || g.budget > 0); i++ {
		var k string
		if g.mode == "unicode" && r.Intn(3) == 0 {
			k = r.Pick(c01UniKeys)
			g.nonIdent = true
		} else {
			k = r.Pick(c01Keys)
			if r.Intn(4) == 0 {
				// the same logical key spelled differently from object to object (elements of one array are not
				// siblings: `id`, `ID` and `Id` in three elements all answer `$.items.id`)
				k = c01RandCase(r, k)
			}
		}
		if has(k) {
			continue
		}
		var v *Doc
		switch {
		case spine && i == 0 && depth > 0 && r.Intn(3) > 0:
			v = g.obj(depth-1, true)
		case spine && i == 0 && depth > 0:
			v = g.arr(depth-1, true)
		default:
			v = g.val(depth - 1)
		}
		d.Keys = append(d.Keys, k)
		d.Vals = append(d.Vals, v)
		if g.mode == "collide" && r.Intn(3) == 0 {
			k2 := strings.ToUpper(k)
			if k2 == k {
				k2 = strings.ToLower(k)
			}
			if k2 != k {
				dup := false
				for _, kk := range d.Keys {
					if kk == k2 {
						dup = true
					}
				}
				if !dup {
					d.Keys = append(d.Keys, k2)
					d.Vals = append(d.Vals, g.val(depth-1))
				}
			}
		}
	}
	return d
}

// arr: mostly arrays of heterogeneous objects; sometimes scalars, nested arrays, non-objects among objects.
func (g *c01Gen) arr(depth int, spine bool) *Doc {
	r := g.r
	n := r.Intn(7)
	if spine {
		n = 1 + r.Intn(6)
	}
	g.budget--
	d := &Doc{K: 'a', A: []*Doc{}}
	kind := r.Intn(10)
	if spine {
		kind = r.Intn(7)
	}
	if g.mode == "numfirst" && r.Intn(2) == 0 {
		kind = 10
	}
	for i := 0; i < n && (i < 2 || g.budget > 0); i++ {
		var e *Doc
		switch {
		case kind < 6: // objects with independently drawn key sets
			e = g.obj(depth, spine && i == 0)
		case kind == 6: // objects with an occasional non-object element after the first
			if i > 0 && r.Intn(3) == 0 {
				e = g.leaf()
			} else {
				e = g.obj(depth, false)
			}
		case kind == 7: // scalars (strings, bools, nulls: numbers only when they cannot be followed by objects)
			e = g.leaf()
			if e.K == 'o' {
				e = dStr("s")
			}
		case kind == 8: // a non-object first element followed by anything
			if i == 0 {
				e = []*Doc{dNull(), dStr("x"), dBool(true), dArr(), dArr(dObj("a", dNum("1")))}[r.Intn(5)]
			} else {
				e = g.val(depth)
			}
		case kind == 9: // nested arrays
			e = g.arr(depth-1, false)
		default: // numfirst: a number, then objects
			if i == 0 {
				e = dNum(r.Pick(c01Nums))
			} else {
				e = g.obj(depth, false)
			}
		}
		d.A = append(d.A, e)
	}
	if kind == 7 && g.mode != "numfirst" {
		// an array that starts with a number must not continue with objects outside the numfirst class
		if len(d.A) > 0 && d.A[0].K == 'n' {
			for i := range d.A {
				if d.A[i].K == 'o' {
					d.A[i] = dBool(false)
				}
			}
		}
	}
	return d
}

// c01RandPath: a data-directed path of the given depth, in the document's own spelling of the keys.
func c01RandPath(r *rng, doc *Doc, depth int) []string {
	var keys []string
	cur := doc
	for len(keys) < depth {
		var cands []string
		if cur != nil {
			switch cur.K {
			case 'o':
				cands = cur.Keys
			case 'a':
				seen := map[string]bool{}
				for _, e := range cur.A {
					if e.K == 'o' {
						for _, k := range e.Keys {
							if !seen[strings.ToLower(k)] {
								seen[strings.ToLower(k)] = true
								cands = append(cands, k)
							}
						}
					}
				}
			}
		}
		var k string
		if len(cands) == 0 && len(keys) > 0 && r.Intn(4) > 0 {
			break // nothing below: mostly stop here rather than produce one more certain failure
		}
		if len(cands) > 0 && r.Intn(6) > 0 {
			k = cands[r.Intn(len(cands))]
			// more keys to come: prefer a key with something below it
			for try := 0; try < 3 && len(keys)+1 < depth; try++ {
				if nx, ok := c01Step(cur, k); ok && (nx.K == 'o' || nx.K == 'a') {
					break
				}
				k = cands[r.Intn(len(cands))]
			}
		} else {
			k = r.Pick(c01Keys)
		}
		keys = append(keys, k)
		if cur != nil {
			if nx, ok := c01Step(cur, k); ok {
				cur = nx
			} else if cur.K == 'a' && len(cur.A) > 0 {
				// keep walking below an array the rule rejects (first element not an object): later keys still name real fields
				var nxt *Doc
				for _, e := range cur.A {
					if e.K == 'o' {
						if v, n := c01ObjGet(e, k); n >= 1 {
							nxt = v
							break
						}
					}
				}
				cur = nxt
			} else if cur.K == 'o' {
				v, _ := c01ObjGet(cur, k) // colliding keys: follow the first
				cur = v
			} else {
				cur = nil
			}
		}
	}
	return keys
}
