package main

// C03: logical groups are truth-functional AND / OR, wherever a group may stand.
//
// Group trees are values of c03Node. The expected truth value comes from the generator's own recursive evaluation
// (c03Eval) of the tree on the logical document: leaves are boolean fields and comparison paths whose truth the
// generator decides itself, never by calling mpath.

import (
	"fmt"
	"strings"
	"time"

	"github.com/shopspring/decimal"
)

func init() { evalGens["C03"] = genC03 }

// ---------- trees ----------

type c03Leaf struct {
	path    string // appended to the prefix: ".b0", ".n1.Greater(3)"
	f       func(cur, root *Doc) bool
	useRoot bool // reads `$` even where an element `@` is available (filter placement, inside nested groups only)
}

type c03Node struct {
	leaf *c03Leaf // nil: a group
	mode string   // "", "AND", "OR" ("" is the omitted keyword: AND)
	kids []*c03Node
}

// c03Text renders the tree. open/close are the brackets of this node ("{","}" or "[","]" for a filter body);
// elem says whether leaves read the element (`@`) or the root (`$`).
func c03Text(n *c03Node, elem bool, open, close string) string {
	if n.leaf != nil {
		if elem && !n.leaf.useRoot {
			return "@" + n.leaf.path
		}
		return "$" + n.leaf.path
	}
	var parts []string
	if n.mode != "" {
		parts = append(parts, n.mode)
	}
	for _, k := range n.kids {
		parts = append(parts, c03Text(k, elem, "{", "}"))
	}
	return open + strings.Join(parts, ",") + close
}

// c03Eval: the specification. cur is what `@` denotes (equal to root outside a filter).
func c03Eval(n *c03Node, cur, root *Doc) bool {
	if n.leaf != nil {
		if n.leaf.useRoot {
			return n.leaf.f(root, root)
		}
		return n.leaf.f(cur, root)
	}
	if n.mode == "OR" {
		for _, k := range n.kids {
			if c03Eval(k, cur, root) {
				return true
			}
		}
		return false // the empty OR is false
	}
	for _, k := range n.kids {
		if !c03Eval(k, cur, root) {
			return false
		}
	}
	return true // the empty AND is true
}

func c03Depth(n *c03Node) int {
	if n.leaf != nil {
		return 0
	}
	d := 0
	for _, k := range n.kids {
		if x := c03Depth(k); x > d {
			d = x
		}
	}
	return d + 1
}

// ---------- exhaustive enumeration of shapes ----------

type c03Shape struct {
	leaf bool
	mode string
	kids []*c03Shape
}

type c03Enum struct {
	width int
	modes []string
	memo  map[[2]int][]*c03Shape
}

// terms(d, n): every shape of depth <= d with exactly n atoms (an atom is a leaf or an empty group), every group with
// at most width operands and one of the modes. A leaf has depth 0, a group one more than its deepest operand.
func (e *c03Enum) terms(d, n int) []*c03Shape {
	key := [2]int{d, n}
	if r, ok := e.memo[key]; ok {
		return r
	}
	var out []*c03Shape
	if n == 1 {
		out = append(out, &c03Shape{leaf: true})
	}
	if d >= 1 {
		if n == 1 {
			for _, m := range e.modes {
				out = append(out, &c03Shape{mode: m})
			}
		}
		for w := 1; w <= e.width && w <= n; w++ {
			for _, seq := range e.seqs(d-1, w, n) {
				for _, m := range e.modes {
					out = append(out, &c03Shape{mode: m, kids: seq})
				}
			}
		}
	}
	e.memo[key] = out
	return out
}

// seqs(d, w, n): every sequence of w shapes of depth <= d with n atoms in total
func (e *c03Enum) seqs(d, w, n int) [][]*c03Shape {
	if w == 0 {
		if n == 0 {
			return [][]*c03Shape{{}}
		}
		return nil
	}
	var out [][]*c03Shape
	for a := 1; a <= n-(w-1); a++ {
		firsts := e.terms(d, a)
		if len(firsts) == 0 {
			continue
		}
		rests := e.seqs(d, w-1, n-a)
		for _, f := range firsts {
			for _, rs := range rests {
				out = append(out, append([]*c03Shape{f}, rs...))
			}
		}
	}
	return out
}

// groups(d, n): terms(d, n) without the bare leaf (a query is a group)
func (e *c03Enum) groups(d, n int) []*c03Shape {
	var out []*c03Shape
	for _, s := range e.terms(d, n) {
		if !s.leaf {
			out = append(out, s)
		}
	}
	return out
}

func (s *c03Shape) leaves() int {
	if s.leaf {
		return 1
	}
	n := 0
	for _, k := range s.kids {
		n += k.leaves()
	}
	return n
}

// inst copies the shape into a tree, taking the leaves in order
func (s *c03Shape) inst(leaves []*c03Leaf, next *int) *c03Node {
	if s.leaf {
		l := leaves[*next]
		*next++
		return &c03Node{leaf: l}
	}
	n := &c03Node{mode: s.mode}
	for _, k := range s.kids {
		n.kids = append(n.kids, k.inst(leaves, next))
	}
	return n
}

// ---------- leaves whose truth is one chosen bit ----------

const c03LeafKinds = 6

func c03Add(o *Doc, k string, v *Doc) { o.Keys, o.Vals = append(o.Keys, k), append(o.Vals, v) }

// c03BitLeaf: leaf number i of the given kind; put adds the field that makes it true or false
func c03BitLeaf(kind, i int) (*c03Leaf, func(o *Doc, bit bool)) {
	is := fmt.Sprint(i)
	numPut := func(o *Doc, bit bool) {
		if bit {
			c03Add(o, "n"+is, dNum("5"))
		} else {
			c03Add(o, "n"+is, dNum("1"))
		}
	}
	switch kind {
	case 0:
		return &c03Leaf{path: ".b" + is, f: func(cur, _ *Doc) bool { return cur.get("b" + is).B }},
			func(o *Doc, bit bool) { c03Add(o, "b"+is, dBool(bit)) }
	case 1:
		return &c03Leaf{path: ".n" + is + ".Greater(3)", f: func(cur, _ *Doc) bool { return cur.get("n"+is).N.Cmp(decimal.New(3, 0)) > 0 }}, numPut
	case 2:
		return &c03Leaf{path: ".c" + is + ".Not()", f: func(cur, _ *Doc) bool { return !cur.get("c" + is).B }},
			func(o *Doc, bit bool) { c03Add(o, "c"+is, dBool(!bit)) }
	case 3:
		return &c03Leaf{path: ".s" + is + `.Prefix("y")`, f: func(cur, _ *Doc) bool { return strings.HasPrefix(cur.get("s"+is).S, "y") }},
			func(o *Doc, bit bool) {
				if bit {
					c03Add(o, "s"+is, dStr("yes"))
				} else {
					c03Add(o, "s"+is, dStr("no"))
				}
			}
	case 4:
		return &c03Leaf{path: ".n" + is + ".Equal(5)", f: func(cur, _ *Doc) bool { return cur.get("n"+is).N.Cmp(decimal.New(5, 0)) == 0 }}, numPut
	default: // the argument reads `$`
		return &c03Leaf{path: ".n" + is + ".GreaterOrEqual($.five)", f: func(cur, root *Doc) bool { return cur.get("n"+is).N.Cmp(root.get("five").N) >= 0 }}, numPut
	}
}

var c03True = &c03Leaf{path: ".t", useRoot: true, f: func(_, root *Doc) bool { return root.get("t").B }}
var c03False = &c03Leaf{path: ".f", useRoot: true, f: func(_, root *Doc) bool { return root.get("f").B }}

func c03Consts() []any { return []any{"t", dBool(true), "f", dBool(false), "five", dNum("5")} }

// ---------- run state ----------

type c03Style struct {
	name string
	st   Style
}

type c03Run struct {
	c      *Ctx
	r      *rng
	styles []c03Style
	n      int
	stHist map[string]int
}

func c03Styles(r *rng) []c03Style {
	return []c03Style{
		{"map-f64", Style{Obj: "map", Num: "f64"}},
		{"struct-int", Style{Obj: "struct", Num: "int", R: r}},
		{"map-dec", Style{Obj: "map", Num: "dec"}},
		{"nmap-named", Style{Obj: "nmap", Num: "named", NamedS: true}},
		{"imap-mixed", Style{Obj: "imap", Num: "mixed", R: r}},
		{"map-ptrnum", Style{Obj: "map", Num: "ptr"}},
		{"ptr-objects", Style{Obj: "map", Num: "f64", PtrObj: true}},
		{"go-arrays", Style{Obj: "map", Num: "int", Array: true}},
		{"struct-named", Style{Obj: "struct", Num: "named", NamedS: true}},
		{"map-uint", Style{Obj: "map", Num: "uint"}},
		{"struct-ptr", Style{Obj: "struct", Num: "dec", PtrObj: true}},
	}
}

func (g *c03Run) render(d *Doc) *TV {
	g.n++
	s := &g.styles[g.n%len(g.styles)]
	g.stHist[s.name]++
	st := s.st
	return render(d, &st)
}

func c03BoolLine(b bool) string { return "ok b:" + b2s(b) } // the result is a Go bool

// placements of a tree whose leaves read the root

func (g *c03Run) emitTop(t *c03Node, root *Doc, cls string) {
	g.c.DoR(Case{Q: c03Text(t, false, "{", "}"), D: g.render(root), Cls: cls, InDomain: true, XK: "exact", X: c03BoolLine(c03Eval(t, root, root))})
}

// nested in another group: eight wrappers (neutral and deciding constant siblings, before and after, double nesting)
func (g *c03Run) emitNested(t *c03Node, root *Doc, cls string, which int) {
	tl, fl := &c03Node{leaf: c03True}, &c03Node{leaf: c03False}
	var w *c03Node
	switch which % 8 {
	case 0:
		w = &c03Node{mode: "AND", kids: []*c03Node{tl, t}}
	case 1:
		w = &c03Node{mode: "OR", kids: []*c03Node{t, fl}}
	case 2:
		w = &c03Node{mode: "", kids: []*c03Node{t}}
	case 3:
		w = &c03Node{mode: "OR", kids: []*c03Node{{mode: "AND", kids: []*c03Node{t}}}}
	case 4:
		w = &c03Node{mode: "", kids: []*c03Node{t, tl}}
	case 5:
		w = &c03Node{mode: "OR", kids: []*c03Node{fl, t, fl}}
	case 6:
		w = &c03Node{mode: "AND", kids: []*c03Node{t, fl}}
	default:
		w = &c03Node{mode: "OR", kids: []*c03Node{t, tl}}
	}
	g.emitTop(w, root, cls)
}

// as a function argument
func (g *c03Run) emitArg(t *c03Node, root *Doc, cls string, which int) {
	v := c03Eval(t, root, root)
	gt := c03Text(t, false, "{", "}")
	var q string
	var want bool
	switch which % 6 {
	case 0:
		q, want = "$.t.Equal("+gt+")", v
	case 1:
		q, want = "$.f.Equal("+gt+")", !v
	case 2:
		q, want = "$.t.NotEqual("+gt+")", !v
	case 3:
		q, want = "$.f.AnyOf("+gt+")", !v
	case 4: // the group is the second of two arguments
		q, want = "$.t.AnyOf($.f,"+gt+")", v
	default:
		q, want = "$.f.AnyOf("+gt+",$.t)", !v
	}
	g.c.DoR(Case{Q: q, D: g.render(root), Cls: cls, InDomain: true, XK: "exact", X: c03BoolLine(want)})
}

// as a nested group inside a filter body: every element or none
func (g *c03Run) emitFilterNested(t *c03Node, root *Doc, cls string) {
	xs := dArr(dObj("id", dNum("0")), dObj("id", dNum("1")))
	r2 := &Doc{K: 'o', Keys: append([]string{"xs"}, root.Keys...), Vals: append([]*Doc{xs}, root.Vals...)}
	want := dArr()
	if c03Eval(t, r2, r2) {
		want = xs
	}
	g.c.DoR(Case{Q: "$.xs[" + c03Text(t, false, "{", "}") + "]", D: g.render(r2), Cls: cls, InDomain: true, XK: "logical", X: logicalDoc(want)})
}

// the tree itself as a filter body `$.xs[MODE,...]`, leaves reading the element
func (g *c03Run) emitFilterBody(t *c03Node, elems []*Doc, extra []any, cls string) {
	root := dObj(append([]any{"xs", dArr(elems...)}, extra...)...)
	kept := []*Doc{}
	for _, e := range elems {
		if c03Eval(t, e, root) {
			kept = append(kept, e)
		}
	}
	g.c.DoR(Case{Q: "$.xs" + c03Text(t, true, "[", "]"), D: g.render(root), Cls: cls, InDomain: true, XK: "logical", X: logicalDoc(dArr(kept...))})
}

// one shape, every assignment: the placements named in where ("top","nested","arg","fnested" all assignments; "filter"
// one case whose elements are all assignments; "sample" one random (placement, assignment))
func (g *c03Run) shape(s *c03Shape, block string, where map[string]bool) {
	L := s.leaves()
	g.n++
	base := g.n
	mk := func(salt int) ([]*c03Leaf, []func(o *Doc, bit bool)) {
		var leaves []*c03Leaf
		var puts []func(o *Doc, bit bool)
		for i := 0; i < L; i++ {
			l, p := c03BitLeaf((base+salt+5*i)%c03LeafKinds, i)
			leaves, puts = append(leaves, l), append(puts, p)
		}
		return leaves, puts
	}
	build := func(a int) (*c03Node, *Doc) {
		leaves, puts := mk(a)
		root := dObj(c03Consts()...)
		for i := 0; i < L; i++ {
			puts[i](root, a>>uint(i)&1 == 1)
		}
		for i := 0; i < L; i++ { // the enumeration is over assignments: every leaf must realise exactly its bit
			if leaves[i].f(root, root) != (a>>uint(i)&1 == 1) {
				panic("c03: leaf does not realise its bit: " + leaves[i].path)
			}
		}
		k := 0
		return s.inst(leaves, &k), root
	}
	for a := 0; a < 1<<uint(L); a++ {
		if where["top"] {
			t, root := build(a)
			g.emitTop(t, root, "exhaustive/"+block+"/whole-query")
		}
		if where["nested"] {
			t, root := build(a)
			g.emitNested(t, root, "exhaustive/"+block+"/nested-in-group", base+a)
		}
		if where["arg"] {
			t, root := build(a)
			g.emitArg(t, root, "exhaustive/"+block+"/function-argument", base+a)
		}
		if where["fnested"] {
			t, root := build(a)
			g.emitFilterNested(t, root, "exhaustive/"+block+"/group-in-filter-body")
		}
	}
	if where["filter"] {
		leaves, puts := mk(0)
		var elems []*Doc
		for a := 0; a < 1<<uint(L); a++ {
			e := dObj("id", dNum(fmt.Sprint(a)))
			for i := 0; i < L; i++ {
				puts[i](e, a>>uint(i)&1 == 1)
			}
			elems = append(elems, e)
		}
		k := 0
		g.emitFilterBody(s.inst(leaves, &k), elems, c03Consts(), "exhaustive/"+block+"/filter-body(all assignments as elements)")
	}
	if where["sample"] {
		r := g.r
		t, root := build(r.Intn(1 << uint(L)))
		switch r.Intn(3) {
		case 0:
			g.emitNested(t, root, "sample/"+block+"/nested-in-group", r.Intn(8))
		case 1:
			g.emitArg(t, root, "sample/"+block+"/function-argument", r.Intn(6))
		default:
			g.emitFilterNested(t, root, "sample/"+block+"/group-in-filter-body")
		}
	}
}

func genC03(c *Ctx) {
	// every random choice comes from c.R: one draw seeds a private stream. (core.go's newRng makes seed k+1 the stream
	// of seed k shifted by one draw, and a step that consumes a data-dependent number of draws - rendering mixed
	// number carriers - re-synchronises such streams for good; a stream seeded by a drawn value is not a small shift.)
	r := newRng(c.R.next())
	g := &c03Run{c: c, r: r, styles: c03Styles(r), stHist: map[string]int{}}
	all := map[string]bool{"top": true, "nested": true, "arg": true, "fnested": true, "filter": true}
	t0 := time.Now()

	// flat groups: depth 1, every width up to the bound, the three spellings, every assignment, every placement
	flatW := 5
	if c.thorough() {
		flatW = 7
	}
	for w := 0; w <= flatW; w++ {
		for _, m := range []string{"", "AND", "OR"} {
			s := &c03Shape{mode: m}
			for i := 0; i < w; i++ {
				s.kids = append(s.kids, &c03Shape{leaf: true})
			}
			g.shape(s, fmt.Sprintf("flat(width<=%d)", flatW), all)
		}
	}

	// trees bounded by depth 3, width 3 and the number of atoms
	e3 := &c03Enum{width: 3, modes: []string{"", "AND", "OR"}, memo: map[[2]int][]*c03Shape{}}
	e2 := &c03Enum{width: 3, modes: []string{"AND", "OR"}, memo: map[[2]int][]*c03Shape{}}
	for n := 1; n <= 2; n++ {
		for _, s := range e3.groups(3, n) {
			g.shape(s, "depth<=3,atoms<=2", all)
		}
	}
	if c.thorough() {
		for _, s := range e3.groups(3, 3) {
			g.shape(s, "depth<=3,atoms=3", map[string]bool{"top": true, "filter": true})
		}
		for _, s := range e2.groups(3, 3) {
			g.shape(s, "depth<=3,atoms=3,keywords-written", map[string]bool{"nested": true, "arg": true, "fnested": true})
		}
	} else {
		for _, s := range e2.groups(3, 3) {
			g.shape(s, "depth<=3,atoms=3,keywords-written", map[string]bool{"top": true, "filter": true, "sample": true})
		}
	}
	c03ArgRelative(g)
	c.Exhaustive = true
	c.Extra["exhaustive_cases"], c.Extra["exhaustive_ms"] = c.N, int(time.Since(t0).Milliseconds())
	t1 := time.Now()
	c03Random(g)
	c.Extra["random_ms"] = int(time.Since(t1).Milliseconds())
	c.Extra["style_histogram"] = g.stHist

	c.Rule = fmt.Sprintf("A tree is a group {..}, {AND,..} or {OR,..} whose operands are leaves or trees; an atom is a leaf or an empty group; a leaf has depth 0. The property's literal bound (every tree of depth <=3 and width <=4) has more than 10^21 members and cannot be enumerated, so the complete blocks are bounded by the number of atoms as well. Complete blocks, each with EVERY assignment of truth values to its leaves: (1) every flat group of width 0..%d in the three spellings, in all five placements; (2) every tree of depth <=3, width <=3 with <=2 atoms in the three spellings (2421 trees: all unary chains, empty groups at every level, all two-operand nestings), in all five placements; (3) quick: every tree of depth <=3, width <=3 with exactly 3 atoms and the keyword written (AND/OR; 7790 trees) as the whole query and as a filter body, plus one random (placement, assignment) per tree in the three other placements (classes sample/.., not complete); thorough: every tree with exactly 3 atoms in the three spellings (73767 trees) as the whole query and as a filter body, and the 7790 keyword-written ones completely in the three other placements. Width 4 is reached exhaustively only by the flat block; wider and deeper trees are sampled by the random block. Placements: whole query `{..}` (exact result `bool`), operand of another group (8 wrappers: neutral and deciding constant siblings before/after, double nesting, omitted keyword), function argument (`$.t.Equal({..})`, `$.f.Equal`, `$.t.NotEqual`, `$.f.AnyOf`, and as one of two arguments `$.t.AnyOf($.f,{..})`, `$.f.AnyOf({..},$.t)`), nested group inside a filter body (`$.xs[{..}]`: all elements or none), and the tree itself as a filter body `$.xs[OR,@.a,{..}]` over an array whose elements realise all 2^L assignments (one case per tree: expected = the elements on which the tree is true, in order). Leaf i is realised by one of 6 kinds in rotation (boolean field, `.n.Greater(3)`, `.c.Not()`, `.s.Prefix(\"y\")`, `.n.Equal(5)`, `.n.GreaterOrEqual($.five)`) and the data rotates over 11 Go renderings (maps with string/named/interface keys, structs, pointers to objects, Go arrays, float64/int/uint/decimal/named/pointer numbers, named bools and strings). arg-relative block: every flat group of width 1..3 in the three spellings over the leaves `@`, `@.Not()`, `@.Equal($.t)`, `$.t`, `$.f` as the argument of Equal/NotEqual/AnyOf applied to a true and to a false receiver under a key (the document's own t/f carry the other values) and inside a filter `$.xs[@.b.Equal({..})]`: inside an argument `@` is the value the function is applied to. random: trees of depth <=6 and width <=%d over comparison, string-test, boolean and null-test leaves (arguments may read `$`) on random data, placed as whole query, argument, filter body over 0..6 random elements (leaves inside nested groups read `@` or `$`) and group inside a filter body. Expected values come from the generator's own recursive evaluation. distinct = distinct (query skeleton, data shape to depth 2, outcome class); non-trivial = outcome class is not the most common one", flatW, c03RandWidth(c))
}

// c03ArgRelative: groups as function arguments whose operands read `@` - inside an argument `@` is the value the function is
// applied to (not the document, not the filter element). Every flat group of width 1..3 in the three spellings over five leaf
// kinds, for a true and a false receiver, under a key, inside a filter, and nested once.
func c03ArgRelative(g *c03Run) {
	leaves := []*c03Leaf{
		{path: "", f: func(cur, _ *Doc) bool { return cur.B }},
		{path: ".Not()", f: func(cur, _ *Doc) bool { return !cur.B }},
		{path: ".Equal($.t)", f: func(cur, root *Doc) bool { return cur.B == root.get("t").B }},
		c03True, c03False,
	}
	var trees []*c03Node
	for _, m := range []string{"", "AND", "OR"} {
		var rec func(w int, kids []*c03Node)
		rec = func(w int, kids []*c03Node) {
			if len(kids) > 0 {
				trees = append(trees, &c03Node{mode: m, kids: append([]*c03Node{}, kids...)})
			}
			if w == 0 {
				return
			}
			for _, l := range leaves {
				rec(w-1, append(kids, &c03Node{leaf: l}))
			}
		}
		rec(3, nil)
	}
	n := 0
	for _, t := range trees {
		for _, recv := range []bool{true, false} {
			n++
			// the document's own t/f differ from the receiver's, and the document is an object (not a boolean)
			o := dObj("v", dBool(recv), "t", dBool(false), "f", dBool(true))
			root := dObj(append([]any{"o", o, "xs", dArr(dObj("id", dNum("0"), "b", dBool(recv)), dObj("id", dNum("1"), "b", dBool(!recv)), dObj("id", dNum("2"), "b", dBool(recv)))}, c03Consts()...)...)
			cur := dBool(recv)
			v := c03Eval(t, cur, root)
			gt := c03Text(t, true, "{", "}")
			var q string
			var want bool
			switch n % 4 {
			case 0:
				q, want = "$.o.v.Equal("+gt+")", recv == v
			case 1:
				q, want = "$.o.v.NotEqual("+gt+")", recv != v
			case 2:
				q, want = "$.o.v.AnyOf($.f,"+gt+")", recv == false || recv == v
			default: // nested once more
				q, want = "$.o.v.Equal({OR,"+gt+",$.f})", recv == v
			}
			g.c.DoR(Case{Q: q, D: g.render(root), Cls: "exhaustive/arg-relative/under-key", InDomain: true, XK: "exact", X: c03BoolLine(want)})
			if n%3 == 0 {
				// inside a filter: `@` in the body is the element, `@` in the argument is the element's b
				var kept []*Doc
				for _, e := range root.get("xs").A {
					if e.get("b").B == c03Eval(t, dBool(e.get("b").B), root) {
						kept = append(kept, e)
					}
				}
				g.c.DoR(Case{Q: "$.xs[@.b.Equal(" + gt + ")]", D: g.render(root), Cls: "exhaustive/arg-relative/in-filter", InDomain: true, XK: "logical", X: logicalDoc(dArr(kept...))})
			}
		}
	}
}

// ---------- random deeper trees over comparison leaves on random data ----------

var c03Nums = []string{"0", "1", "2", "3", "5", "-1", "1.5", "2.5", "10", "0.1", "-7.25", "100"}
var c03Strs = []string{"", "abc", "abcDEF", "x", "hello", "ab", "yes", "no", "Abc"}
var c03Subs = []string{"", "a", "ab", "abc", "DEF", "x", "y", "lo", "e"}

func c03RandWidth(c *Ctx) int {
	if c.thorough() {
		return 5
	}
	return 4
}

type c03Fields struct{ nn, ns, nb, nz int }

func c03RandObj(r *rng, fs c03Fields, id int) *Doc {
	o := dObj()
	if id >= 0 {
		c03Add(o, "id", dNum(fmt.Sprint(id)))
	}
	for i := 0; i < fs.nn; i++ {
		c03Add(o, fmt.Sprint("n", i), dNum(r.Pick(c03Nums)))
	}
	for i := 0; i < fs.ns; i++ {
		c03Add(o, fmt.Sprint("s", i), dStr(r.Pick(c03Strs)))
	}
	for i := 0; i < fs.nb; i++ {
		c03Add(o, fmt.Sprint("b", i), dBool(r.Bool()))
	}
	for i := 0; i < fs.nz; i++ {
		switch r.Intn(3) {
		case 0:
			c03Add(o, fmt.Sprint("z", i), dNull())
		case 1:
			c03Add(o, fmt.Sprint("z", i), dNum(r.Pick(c03Nums)))
		}
	}
	return o
}

func c03RandLeaf(r *rng, fs c03Fields) *c03Leaf {
	cmps := []struct {
		name string
		ok   func(c int) bool
	}{
		{"Greater", func(c int) bool { return c > 0 }}, {"GreaterOrEqual", func(c int) bool { return c >= 0 }},
		{"Less", func(c int) bool { return c < 0 }}, {"LessOrEqual", func(c int) bool { return c <= 0 }},
		{"Equal", func(c int) bool { return c == 0 }}, {"NotEqual", func(c int) bool { return c != 0 }},
	}
	for {
		switch k := r.Intn(12); {
		case k < 5 && fs.nn > 0:
			key := fmt.Sprint("n", r.Intn(fs.nn))
			cm := cmps[r.Intn(len(cmps))]
			path := "." + key
			val := func(cur *Doc) decimal.Decimal { return cur.get(key).N }
			if r.Intn(5) == 0 {
				a := r.Pick(c03Nums)
				ad := decimal.RequireFromString(a)
				inner := val
				if r.Bool() {
					path += ".Add(" + a + ")"
					val = func(cur *Doc) decimal.Decimal { return inner(cur).Add(ad) }
				} else {
					path += ".Multiply(" + a + ")"
					val = func(cur *Doc) decimal.Decimal { return inner(cur).Mul(ad) }
				}
			}
			if r.Intn(3) == 0 { // the argument reads `$`
				k2 := fmt.Sprint("n", r.Intn(fs.nn))
				return &c03Leaf{path: path + "." + cm.name + "($." + k2 + ")", f: func(cur, root *Doc) bool { return cm.ok(val(cur).Cmp(root.get(k2).N)) }}
			}
			l := r.Pick(c03Nums)
			ld := decimal.RequireFromString(l)
			return &c03Leaf{path: path + "." + cm.name + "(" + l + ")", f: func(cur, _ *Doc) bool { return cm.ok(val(cur).Cmp(ld)) }}
		case k < 8 && fs.ns > 0:
			key := fmt.Sprint("s", r.Intn(fs.ns))
			fns := []struct {
				name string
				f    func(s, a string) bool
			}{
				{"Contains", strings.Contains}, {"NotContains", func(s, a string) bool { return !strings.Contains(s, a) }},
				{"Prefix", strings.HasPrefix}, {"NotPrefix", func(s, a string) bool { return !strings.HasPrefix(s, a) }},
				{"Suffix", strings.HasSuffix}, {"NotSuffix", func(s, a string) bool { return !strings.HasSuffix(s, a) }},
				{"Equal", func(s, a string) bool { return s == a }}, {"NotEqual", func(s, a string) bool { return s != a }},
			}
			fn := fns[r.Intn(len(fns))]
			if r.Intn(4) == 0 {
				k2 := fmt.Sprint("s", r.Intn(fs.ns))
				return &c03Leaf{path: "." + key + "." + fn.name + "($." + k2 + ")", f: func(cur, root *Doc) bool { return fn.f(cur.get(key).S, root.get(k2).S) }}
			}
			a := r.Pick(c03Subs)
			if strings.HasSuffix(fn.name, "qual") {
				a = r.Pick(c03Strs)
			}
			return &c03Leaf{path: "." + key + "." + fn.name + `("` + a + `")`, f: func(cur, _ *Doc) bool { return fn.f(cur.get(key).S, a) }}
		case k < 10 && fs.nb > 0:
			key := fmt.Sprint("b", r.Intn(fs.nb))
			switch r.Intn(4) {
			case 0:
				return &c03Leaf{path: "." + key + ".Not()", f: func(cur, _ *Doc) bool { return !cur.get(key).B }}
			case 1:
				lit := r.Bool()
				return &c03Leaf{path: "." + key + ".Equal(" + fmt.Sprint(lit) + ")", f: func(cur, _ *Doc) bool { return cur.get(key).B == lit }}
			}
			return &c03Leaf{path: "." + key, f: func(cur, _ *Doc) bool { return cur.get(key).B }}
		case k >= 10 && fs.nz > 0:
			key := fmt.Sprint("z", r.Intn(fs.nz))
			present := func(cur *Doc) bool { v := cur.get(key); return v != nil && v.K != 'z' }
			if r.Bool() {
				return &c03Leaf{path: "." + key + "?.IsNull()", f: func(cur, _ *Doc) bool { return !present(cur) }}
			}
			return &c03Leaf{path: "." + key + "?.IsNotNull()", f: func(cur, _ *Doc) bool { return present(cur) }}
		}
	}
}

// c03RandTree: a random group; top says the node is the placed group itself (its leaves cannot read `$` directly when
// it is a filter body)
func c03RandTree(r *rng, fs c03Fields, depth, width int, top, mixRoot bool) *c03Node {
	n := &c03Node{mode: []string{"", "AND", "OR"}[r.Intn(3)]}
	w := r.Intn(width + 1)
	if w == 0 && r.Intn(4) != 0 {
		w = 1 + r.Intn(width)
	}
	for i := 0; i < w; i++ {
		if depth > 1 && r.Intn(5) < 2 {
			n.kids = append(n.kids, c03RandTree(r, fs, depth-1, width, false, mixRoot))
			continue
		}
		l := c03RandLeaf(r, fs)
		if mixRoot && !top && r.Intn(3) == 0 {
			l.useRoot = true
		}
		n.kids = append(n.kids, &c03Node{leaf: l})
	}
	return n
}

func c03Random(g *c03Run) {
	c, r := g.c, g.r
	width := c03RandWidth(c)
	n := c.scale(20000, 250000)
	for i := 0; i < n; i++ {
		fs := c03Fields{nn: 1 + r.Intn(4), ns: r.Intn(3), nb: r.Intn(3), nz: r.Intn(2)}
		depth := 2 + r.Intn(5)
		root := c03RandObj(r, fs, -1)
		for j, kv := 0, c03Consts(); j+1 < len(kv); j += 2 {
			c03Add(root, kv[j].(string), kv[j+1].(*Doc))
		}
		dcls := fmt.Sprintf("depth%d", depth)
		if depth > 3 {
			dcls = "depth4-6"
		}
		switch k := r.Intn(10); {
		case k < 4:
			g.emitTop(c03RandTree(r, fs, depth, width, true, false), root, "random/whole-query/"+dcls)
		case k < 6:
			g.emitArg(c03RandTree(r, fs, depth, width, true, false), root, "random/function-argument/"+dcls, r.Intn(6))
		case k < 7:
			g.emitFilterNested(c03RandTree(r, fs, depth, width, true, false), root, "random/group-in-filter-body/"+dcls)
		default:
			t := c03RandTree(r, fs, depth, width, true, true)
			var elems []*Doc
			for j, m := 0, r.Intn(7); j < m; j++ {
				elems = append(elems, c03RandObj(r, fs, j))
			}
			var extra []any
			for j, k := range root.Keys {
				extra = append(extra, k, root.Vals[j])
			}
			g.emitFilterBody(t, elems, extra, "random/filter-body/"+dcls)
		}
	}
}
