package main

// C07: evaluation is total. The property's own product — every function in ListFunctions() × every receiver
// kind × argument tuples of length 0..3 over 10 argument kinds (incl. a string that is not a valid regular expression) — plus random composite queries on random data.
// The generic oracles in Ctx.Do (no panic, no hang, no error handed back as data) are the property.

import (
	"math"
	"sort"
	"strings"

	"github.com/machship/mpath"
	"github.com/shopspring/decimal"
)

func funcNames() []string {
	var names []string
	for k := range mpath.ListFunctions() {
		names = append(names, string(k))
	}
	sort.Strings(names)
	return names
}

type recvKind struct {
	name string
	tv   *TV
}

func c07Receivers() []recvKind {
	obj := tvMap("str", [][2]any{{hx("a"), tvF64(1)}, {hx("k"), tvStr("v")}})
	return []recvKind{
		{"null", tvNil()},
		{"bool", tvBool(true)},
		{"number", tvF64(2.5)},
		{"zero", tvF64(0)},
		{"decimal", tvDec(decimal.RequireFromString("7"))},
		{"string", tvStr("hello")},
		{"numeral-string", tvStr("12")},
		{"empty-string", tvStr("")},
		{"empty-array", tvSlice(1)},
		{"array", tvSlice(1, tvF64(1), tvF64(2), tvStr("x"))},
		{"typed-array", tvSlice(0, tvInt("int", "3"), tvInt("int", "4"))},
		{"object", obj},
		{"empty-object", tvMap("str", nil)},
		{"struct", tvStruct([][3]any{{"A", 1, tvInt("int", "1")}, {"K", 1, tvStr("v")}})},
		{"struct-unexported", tvUnexp("A", tvInt("int", "1"), tvInt("int", "2"))},
		{"struct-unexported-zero", tvUnexp("A", tvInt("int", "0"), tvInt("int", "0"))},
		{"struct-only-unexported", tvUnexp("only", tvInt("int", "0"))},
		{"struct-unexported-first", tvUnexp("F", tvInt("int", "1"), tvInt("int", "2"), tvStr("v"))},
		{"struct-embedded-nil-pointer", tvUnexp("E0", tvInt("int", "1"))},
		{"struct-embedded-pointer", tvUnexp("E", tvStr("ann"), tvInt("int", "2"), tvInt("int", "3"))},
		{"struct-private-twin-field", tvUnexp("D", tvInt("int", "1"), tvStr("acc"), tvStr("n"))},
		{"stringer-number", tvSInt("int64", "1500")},
		{"float32", tvF32(2.7, 2)},
		{"windows-of-one-array", tvWin([]*TV{tvF64(1), tvF64(2), tvF64(3), tvF64(4)}, [2]int{0, 2}, [2]int{1, 3}, [2]int{2, 4})},
		{"struct-local-type-1", tvUnexp("R1", tvStr("v"), tvInt("int", "1"))},
		{"struct-local-type-2", tvUnexp("R2", tvInt("int", "1"), tvInt("int", "2"), tvStr("w"))},
		{"nil-pointer", tvNilPtr(tvInt("int", "0"))},
		{"pointer", tvPtr(tvInt("int", "5"))},
		{"nil-pointer-to-bool", tvNilPtr(tvBool(false))},
		{"nil-pointer-to-string", tvNilPtr(tvStr(""))},
		{"nil-pointer-to-float", tvNilPtr(tvF64(0))},
		{"nil-pointer-to-struct", tvNilPtr(tvStruct([][3]any{{"A", 1, tvInt("int", "1")}}))},
		{"nil-pointer-to-slice", tvNilPtr(tvSlice(1))},
		{"nil-pointer-to-map", tvNilPtr(tvMap("str", nil))},
		{"pointer-to-bool", tvPtr(tvBool(true))},
		{"pointer-to-pointer", tvPtr(tvPtr(tvBool(true)))},
		{"pointer-to-nil-pointer", tvPtr(tvNilPtr(tvBool(true)))},
		{"map-with-nan-key", tvMap("iface", [][2]any{{"~f64:7ff8000000000001", tvF64(1)}, {"~f64:4000000000000000", tvF64(3)}, {hx("a"), tvF64(2)}})},
		{"func", &TV{T: "func"}},
		{"chan", &TV{T: "chan"}},
		{"nan", tvF64(nan())},
		{"minus-infinity", tvF64(math.Inf(-1))},
		{"plus-infinity", tvF64(math.Inf(1))},
		{"array-with-minus-infinity", tvSlice(1, tvF64(1), tvF64(math.Inf(-1)))},
		{"array-of-objects", tvSlice(1, obj, obj)},
		{"nil-map", &TV{T: "map", KK: "str", Nil: 1, V: [][2]any{}}},
		{"nil-slice", &TV{T: "slice", EI: 1, Nil: 1, V: []*TV{}}},
		{"map-with-nil-key", tvMap("iface", [][2]any{{"~nil", tvF64(1)}, {hx("a"), tvF64(2)}})},
		{"map-with-int-and-bool-keys", tvMap("iface", [][2]any{{"~int:5", tvF64(1)}, {"~bool:1", tvStr("x")}, {hx("k"), tvStr("v")}})},
	}
}

func nan() float64 {
	var z float64
	return z / z
}

var c07Args = []string{"0", "-1", "1.5", "1e30", `""`, `"abc"`, "true", "$.x", "{$.b}", `"("`}

func init() {
	evalGens["C07"] = genC07
}

func genC07(c *Ctx) {
	c.Rule = "exhaustive: every function of ListFunctions() x 46 receiver kinds x argument tuples (all of length 0..2 in quick, 0..3 in thorough, over 10 argument kinds (incl. a string that is not a valid regular expression)), receiver under a key and at the root; every function x 5 receivers x 12 whole numbers around 2^31, 2^32, 2^63, 2^64 as literal, as a path to a uint64 / decimal and twice; then random composite queries on random data. distinct = distinct (query skeleton, data shape to depth 2, outcome class); non-trivial = outcome class is not the most common one"
	names := funcNames()
	recvs := c07Receivers()
	var tuples [][]string
	maxLen := 2
	if c.thorough() {
		maxLen = 3
	}
	var rec func(n int, cur []string)
	rec = func(n int, cur []string) {
		tuples = append(tuples, append([]string{}, cur...))
		if n == 0 {
			return
		}
		for _, a := range c07Args {
			rec(n-1, append(cur, a))
		}
	}
	// all tuples of length ≤ maxLen (prefix closed enumeration yields each exactly once)
	rec(maxLen, nil)
	for _, fn := range names {
		for _, rk := range recvs {
			wrapped := tvMap("str", [][2]any{{hx("r"), rk.tv}, {hx("x"), tvF64(5)}, {hx("b"), tvBool(true)}, {hx("s"), tvStr("abc")}})
			for _, tp := range tuples {
				q := "$.r." + fn + "(" + strings.Join(tp, ",") + ")"
				c.Do(Case{Q: q, D: wrapped, Cls: "product/" + rk.name, InDomain: true})
			}
			// receiver at the root, literal arguments only
			for _, tp := range tuples {
				if len(tp) > 1 {
					continue
				}
				if len(tp) == 1 && strings.HasPrefix(tp[0], "$") || len(tp) == 1 && strings.HasPrefix(tp[0], "{") {
					continue
				}
				q := "$." + fn + "(" + strings.Join(tp, ",") + ")"
				c.Do(Case{Q: q, D: rk.tv, Cls: "root/" + rk.name, InDomain: true})
			}
		}
	}
	// huge counts and indexes that are whole numbers around 2^31, 2^32, 2^63 and 2^64 (a conversion to a machine integer wraps or
	// saturates there), as literals and through a path to an unsigned number
	{
		huge := []string{"2147483647", "2147483648", "4294967296", "9223372036854775807", "9223372036854775808", "1e19", "1.5e19", "18446744073709551615", "18446744073709551616", "3e19", "-9223372036854775808", "-9223372036854775809"}
		recvsH := []struct {
			name string
			tv   *TV
		}{{"string", tvStr("hello")}, {"empty-string", tvStr("")}, {"array", tvSlice(1, tvF64(1), tvF64(2), tvStr("x"))}, {"number", tvF64(2.5)}, {"object", tvMap("str", [][2]any{{hx("a"), tvF64(1)}})}}
		for _, fn := range names {
			for _, rk := range recvsH {
				for hi, h := range huge {
					var n *TV
					if strings.HasPrefix(h, "-") || strings.ContainsAny(h, "e.") || len(h) > 19 && h > "18446744073709551615" {
						n = tvDec(decimal.RequireFromString(h))
					} else {
						n = tvInt("uint64", h)
					}
					d := tvMap("str", [][2]any{{hx("r"), rk.tv}, {hx("n"), n}})
					c.Do(Case{Q: "$.r." + fn + "(" + h + ")", D: d, Cls: "huge-counts/" + rk.name, InDomain: true})
					if hi%2 == 0 {
						c.Do(Case{Q: "$.r." + fn + "($.n)", D: d, Cls: "huge-counts/" + rk.name + "/path", InDomain: true})
						c.Do(Case{Q: "$.r." + fn + "(" + h + "," + h + ")", D: d, Cls: "huge-counts/" + rk.name, InDomain: true})
					}
				}
			}
		}
	}
	// special queries named by the property text
	obj := tvMap("str", [][2]any{{hx("n"), tvNil()}, {hx("q"), tvStr("$.AsArray().Select($.q)")}, {hx("l"), tvSlice(1, tvF64(1), tvF64(2))},
		{hx("e"), tvStr("")}, {hx("u"), tvUnexp("K", tvStr("pub"), tvStr("priv"))}})
	for _, q := range []string{"$.n.x", "$.n.x.y", "$.n?.x", "$.l.Index(-1)", "$.l.Index(1.5)", "$.l.Index(1e30)", "$.l.Index(18446744073709551617)",
		`$.l.Select("")`, `$.l.Select($.e)`, "$.u.k", "$.u.K", "$.AsArray().Select($.q)", "$.e.Left(-1)", "$.e.Right(-1)", "$.e.TrimLeft(-1)", "$.e.TrimRight(-1)",
		"$.l.First().Divide(0)", "$.l.First().Modulo(0)", "$.n.IsEmpty()", "$.n.IsNotEmpty()", "$.u.IsEmpty()", "$.u.IsNullOrEmpty()", "$", "@", "$.l[@.Greater(1)]", "$.l[@]", "$.l[@.Add(1)]"} {
		c.DoIsolated(Case{Q: q, D: obj, Cls: "named-by-property", InDomain: true})
	}
	// struct types whose layout is not the list of their exported fields, and two types that print alike, asked in turns
	lay := tvMap("str", [][2]any{{hx("f"), tvUnexp("F", tvInt("int", "9"), tvInt("int", "3"), tvStr("kf"))},
		{hx("one"), tvUnexp("R1", tvStr("first"), tvInt("int", "1"))}, {hx("two"), tvUnexp("R2", tvInt("int", "7"), tvInt("int", "8"), tvStr("second"))},
		{hx("mix"), tvSlice(1, tvUnexp("R2", tvInt("int", "70"), tvInt("int", "80"), tvStr("m2")), tvUnexp("R1", tvStr("m1"), tvInt("int", "11")))}})
	// a key stepped onto lists that are empty, behind pointers, typed, Go arrays of length 0, nil - at a key, at the root, inside a filter
	for _, ev := range []struct {
		name string
		tv   *TV
	}{{"ptr-empty-any-slice", tvPtr(tvSlice(1))}, {"ptr-empty-typed-slice", tvPtr(tvSlice(0))}, {"ptr-empty-array", tvPtr(tvArray(1))}, {"empty-array", tvArray(1)},
		{"ptr-ptr-empty-slice", tvPtr(tvPtr(tvSlice(1)))}, {"ptr-nil-slice", tvPtr(&TV{T: "slice", EI: 1, Nil: 1, V: []*TV{}})}, {"ptr-slice-of-nil", tvPtr(tvSlice(1, tvNil()))},
		{"ptr-slice-of-empty-slices", tvPtr(tvSlice(1, tvSlice(1)))}} {
		d := tvMap("str", [][2]any{{hx("l"), ev.tv}, {hx("orders"), tvSlice(1, tvMap("str", [][2]any{{hx("items"), ev.tv}}), tvStruct([][3]any{{"Items", 1, ev.tv}}))}})
		for _, q := range []string{"$.l.name", "$.l.name?.Count()", "$.l.name.first", "$.l.First()", "$.l.Last()", "$.l.Index(0)", "$.l.Last().Equal(1)", "$.l.Last().IsNull()", "$.l.Index(0).Add(1)", "{$.l.Last().IsNull()}", "$.l.Count()", "$.l[@.name.Equal(1)]", "$.orders.items.name", "$.orders[@.items.name.Count().Greater(0)]",
			"$.orders[@.items.name?.IsNull()]", `$.l.Select("$.name")`, "$.l.name.Sum()", "{$.l.name?.IsNull()}"} {
			c.Do(Case{Q: q, D: d, Cls: "named-by-property/empty-lists-behind-pointers/" + ev.name, InDomain: true})
		}
		for _, q := range []string{"$.name", "$.name?.Count()", "$[@.name.Equal(1)]", "$.First()", "$.Last()", "$.Index(0)", "$.Last().Equal(1)", "$.Count()"} {
			c.Do(Case{Q: q, D: ev.tv, Cls: "named-by-property/empty-lists-behind-pointers/" + ev.name + "/root", InDomain: true})
		}
	}
	// products whose exponent leaves the 32 bits the decimal type has for it: an error, never the decimal package's panic (only
	// Multiply: the other operations first scale one operand to the other's exponent, which for exponents this far apart is a
	// question of time and memory, not of the outcome)
	for _, d := range []*TV{tvF64(1), tvInt("int", "7"), tvStr("3"), &TV{T: "dec", C: "1", E: "2147483647"}, &TV{T: "dec", C: "-5", E: "-2147483648"}, tvMap("str", [][2]any{{hx("a"), &TV{T: "dec", C: "2", E: "2000000000"}}, {hx("b"), tvStr("1e2000000000")}})} {
		for _, q := range []string{`$.Multiply("1e2000000000")`, `$.Multiply("1e2000000000").Multiply("1e2000000000")`, `$.Multiply("1e-2000000000").Multiply("1e-2000000000")`, `$.Multiply("1e1")`, `$.Multiply("1e-1")`,
			`$.Multiply(10)`, `$.a.Multiply($.b)`, `$.a.Multiply($.a)`, `$.a.Multiply("1e147483647")`, `$.a.Multiply("1e147483648")`, `$.a.Multiply("1e-2000000000").Multiply("1e-2000000000")`, `$.Multiply("1e2147483647").Multiply("1e-2147483648").Multiply("1e-2147483648")`,
			`{$.Multiply("1e2000000000").Multiply("1e2000000000").IsNull()}`, `$.AsArray()[@.Multiply("1e2000000000").Multiply("1e2000000000").IsNotNull()]`} {
			c.Do(Case{Q: q, D: d, Cls: "named-by-property/exponent-out-of-range", InDomain: true})
		}
	}
	// keys that name a field of a struct embedded through a (nil) pointer: not keys of the outer struct
	emb := tvMap("str", [][2]any{{hx("r"), tvUnexp("E0", tvInt("int", "1"))}, {hx("s"), tvUnexp("E", tvStr("ann"), tvInt("int", "2"), tvInt("int", "3"))},
		{hx("list"), tvSlice(1, tvUnexp("E0", tvInt("int", "1")), tvUnexp("E", tvStr("bob"), tvInt("int", "2"), tvInt("int", "3")), tvUnexp("E0", tvInt("int", "4")))}})
	for _, q := range []string{"$.r.CreatedBy", "$.r.createdby", "$.r.Revision", "$.s.CreatedBy", "$.list.CreatedBy", "$.list.Revision", "$.list[@.Revision.Greater(1)]", "$.list[@.Revision?.IsNull()]",
		`$.list.Select("$.CreatedBy")`, `$.list.Select("$.id")`, "$.r.CreatedBy?.IsNull()", "$.r.EmbInner", "$.r.EmbInner.CreatedBy", "$.r.EmbInner?.CreatedBy", "$.s.EmbInner.CreatedBy", "$.r.IsEmpty()", "$.r.Sum()",
		"$.r.AsJSON()", `$.r.RemoveKeysByPrefix("C")`, "$.list.id.Sum()", "{$.r.CreatedBy?.IsNull()}"} {
		c.Do(Case{Q: q, D: emb, Cls: "named-by-property/embedded-pointer", InDomain: true})
	}
	for round := 0; round < 2; round++ {
		for _, q := range []string{"$.f.a", "$.f.k", "$.f.hidden", "$.two.k", "$.one.k", "$.two.k", "$.one.a", "$.two.pad", "$.two.a", "$.one.pad", "$.mix.k", "$.mix.a", "$.mix.pad",
			"$.mix[@.k.Equal(\"m1\")]", "$.mix.First().k", "$.mix.Last().k", "$.one.IsEmpty()", "$.two.IsEmpty()", "$.f.IsNullOrEmpty()", "$.f.AsJSON()", "$.two.AsJSON()"} {
			c.Do(Case{Q: q, D: lay, Cls: "named-by-property/struct-layouts", InDomain: true})
		}
	}
	// conditions whose value is a boolean in another Go carrier (named bool, pointer to bool, bool behind `any`): a body of one condition, of several, and groups
	be := func(id string, a, o bool) *TV {
		return tvStruct([][3]any{{"Id", 1, tvInt("int", id)}, {"Active", 1, tvNBool(a)}, {"On", 1, tvPtr(tvBool(o))}, {"Any", 2, tvNBool(a)}, {"Off", 1, tvNilPtr(tvBool(false))}})
	}
	bools := tvMap("str", [][2]any{{hx("xs"), tvSlice(1, be("1", true, false), be("2", false, true), be("3", true, true))}, {hx("nb"), tvNBool(true)}, {hx("pb"), tvPtr(tvBool(true))},
		{hx("ms"), tvSlice(1, tvMap("str", [][2]any{{hx("active"), tvNBool(true)}, {hx("on"), tvPtr(tvBool(false))}}), tvMap("str", [][2]any{{hx("active"), tvNBool(false)}, {hx("on"), tvPtr(tvBool(true))}}))}})
	for _, q := range []string{"$.xs[@.active]", "$.xs[@.on]", "$.xs[@.any]", "$.xs[@.off]", "$.xs[OR,@.active]", "$.xs[AND,@.on]", "$.xs[{@.on}]", "$.xs[{OR,@.active}]", "$.xs[@.active,@.on]", "$.xs[OR,@.active,@.on]",
		"$.xs[@.active][@.on]", "$.ms[@.active]", "$.ms[@.on]", "$.ms[OR,@.on]", "{$.nb}", "{OR,$.pb}", "{AND,$.nb}", "{$.nb,$.pb}", "{{$.nb}}", "$.xs.First()[@.active]", "$.xs.Last()[@.on]",
		"$.xs.Any(@.active)", "$.xs.Any({@.on})", "$.nb.Equal({$.pb})", "$.xs[@.active.Not()]", "$.xs[@.on.Equal({@.on})]"} {
		c.Do(Case{Q: q, D: bools, Cls: "named-by-property/boolean-carriers", InDomain: true})
	}
	nk := tvMap("str", [][2]any{{hx("m"), tvMap("iface", [][2]any{{"~nil", tvF64(1)}, {hx("a"), tvF64(2)}, {"~int:7", tvF64(3)}})}})
	for _, q := range []string{"$.m.a", "$.m.A", "$.m.zz", "$.m.a?.b", `$.m.RemoveKeysByPrefix("a")`, `$.m.RemoveKeysBySuffix("")`, `$.m.RemoveKeysByRegex(".")`, "$.m.Sum()", `$.m.Select("$")`, "$.m[@.a.Equal(2)]", "$.m.IsEmpty()", "$.m.AsJSON()"} {
		c.Do(Case{Q: q, D: nk, Cls: "named-by-property/non-string-map-keys", InDomain: true})
	}
	c.Exhaustive = true
	// random composite queries on random data
	n := c.scale(60000, 600000)
	for i := 0; i < n/6; i++ {
		var d *TV
		if R.Intn(12) == 0 {
			d = genVal(2)
		} else {
			d = genObj(3)
		}
		for j := 0; j < 6; j++ {
			var q string
			switch {
			case R.Intn(10) == 0:
				q = "{" + genPred("$", 2) + "}"
			case R.Intn(5) == 0:
				q = genPath("$", 2, false)
			case R.Intn(8) == 0:
				q = strings.ReplaceAll("{"+genDirectedPred(d, 2)+"}", "@", "$")
			default:
				q = genDirected("$", d, 2)
			}
			c.Do(Case{Q: q, D: d, Cls: "random-composite", InDomain: true})
		}
	}
}
