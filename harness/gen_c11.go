package main

// C11: evaluation is pure. History oracle on the implementation: each parsed operation is evaluated several times,
// interleaved with other operations, on the same data and on a deep copy; the data and the operation are
// snapshotted before and after; every answer must equal the first one and the one of a freshly parsed copy.

import (
	"encoding/json"
	"fmt"
	"math"
	"reflect"
	"strconv"
	"strings"

	"github.com/machship/mpath"
)

func init() { evalGens["C11"] = genC11 }

func c11CollidingObj(r *rng) *TV {
	// sibling keys that collide under case folding, in every map flavour
	kk := r.Pick([]string{"str", "str", "named", "iface"})
	kvs := [][2]any{}
	for _, k := range []string{"a", "A", "k", "K", "Key", "KEY", "xs"} {
		if r.Intn(3) != 0 {
			var v *TV
			switch r.Intn(4) {
			case 0:
				v = genNum()
			case 1:
				v = genStr()
			case 2:
				v = tvMap("str", [][2]any{{hx("a"), genNum()}, {hx("A"), genNum()}, {hx("b"), genStr()}})
			default:
				v = tvSlice(1, tvMap("str", [][2]any{{hx("k"), genNum()}, {hx("K"), genStr()}}), tvMap("str", [][2]any{{hx("K"), genNum()}}))
			}
			kvs = append(kvs, [2]any{hx(k), v})
		}
	}
	return tvMap(kk, kvs)
}

func genC11(c *Ctx) {
	r := c.R
	c.Rule = "random documents in every carrier (including maps whose sibling keys collide under case folding, maps with interface-typed keys, and lists that are overlapping windows of one backing array) with 6 data-directed queries each (all functions incl. RemoveKeysBy*, Select, AsArray, filters); each operation is evaluated 3..8 times (50 in a thorough sample) interleaved with the other operations of the document, on the data and on a deep copy; oracle: data deep-equal before/after (canonical snapshot), Sprint/structure of the operation unchanged, every answer equal to the first and to that of a freshly parsed copy; every value handed out is kept and must still be what it was after the later evaluations; finally every kept operation is reused on a document of the same shape with other leaf values - as a separate value and written into the original document in place - and on the same document with its map keys re-cased (one key in three with a colliding sibling spelling beside it) - and must answer like a freshly parsed copy. distinct = distinct (query skeleton, data shape, outcome class)"
	n := c.scale(5000, 50000)
	mutations, nondet, opchg, stale := 0, 0, 0, 0
	for i := 0; i < n; i++ {
		var d *TV
		if i%3 == 0 {
			d = c11CollidingObj(r)
		} else {
			d = genObj(3)
		}
		windows := i%10 == 7
		if windows {
			// lists that are windows of one backing array (sub-slices with spare capacity behind them, overlapping): whatever is
			// appended to one of them in place shows in the others
			var base []*TV
			for j := 0; j < 6; j++ {
				if i%20 == 7 {
					base = append(base, tvStr(string(rune('a'+j))))
				} else {
					base = append(base, tvF64(float64(10*(j+1))))
				}
			}
			d = tvMap("str", [][2]any{{hx("ws"), tvWin(base, [2]int{0, 2}, [2]int{1, 3}, [2]int{2, 4}, [2]int{0, 6}, [2]int{4, 5})}, {hx("n"), tvF64(2)},
				{hx("gs"), tvWinKey("ids", base, [2]int{0, 2}, [2]int{3, 5}, [2]int{1, 3}, [2]int{4, 6})}})
		}
		// filters in a row over a list held as []any whose elements all pass the first filter: the second filter works on what
		// the first one handed on - which must not be the caller's own list
		filtersInARow := i%10 == 3
		if filtersInARow {
			var items []*TV
			for j := 0; j < 4+i%3; j++ {
				items = append(items, tvMap("str", [][2]any{{hx("n"), tvF64(float64(j + 1))}, {hx("k"), tvStr(string(rune('a' + (j*7+i/10)%3)))}, {hx("ok"), tvBool(j%2 == 0)}}))
			}
			var nums []*TV
			for j := 0; j < 5; j++ {
				nums = append(nums, tvF64(float64((j*3+i/10)%7+1)))
			}
			d = tvMap("str", [][2]any{{hx("items"), tvSlice(1, items...)}, {hx("nums"), tvSlice(1, nums...)}, {hx("lim"), tvF64(0)}})
		}
		data := buildAny(d)
		copyData := buildAny(d)
		before := canonV(reflect.ValueOf(data))
		type entry struct {
			q     string
			op    mpath.Operation
			dump  string
			first string
		}
		var ops []*entry
		for j := 0; j < 6; j++ {
			q := genDirected("$", d, 2)
			if d.T == "map" && i%3 == 0 && r.Intn(2) == 0 {
				q = r.Pick([]string{"$.a", "$.A", "$.k", "$.key", "$.KEY", "$.xs.k", "$.xs.K", "$.k.a", "$.K.A", `$.Select("$")`, "$.Sum()", `$.RemoveKeysByPrefix("a")`, `$.RemoveKeysBySuffix("s")`, "$.xs.First().k", "$.a.Equal($.A)"})
			}
			if aq := c11ArgQueries(d, r); len(aq) > 0 && j >= 4 {
				// arguments that read the document ($ paths and groups as arguments): their values must be re-read on
				// every evaluation, not remembered in the operation
				q = aq[r.Intn(len(aq))]
			}
			if windows {
				q = []string{`$.gs.Select("$.ids")`, `$.gs.ids`, `$.gs.Select("$.ids").Count()`, `$.gs.Last().ids`, `$.gs[@.ids.Count().Greater(1)].ids`, `$.gs.Select("$.ids.First()")`,
					`$.ws.Select("$")`, `$.ws.Select("@")`, "$.ws.First()", "$.ws.Last()", `$.ws.Select("$").Count()`, `$.ws[@.Count().Greater($.n)]`, `$.ws.Select("$.First()")`,
					`$.ws.Index(1).Select("$")`, `$.ws.Select("$").Last()`, "$.ws.Index(3)"}[(j+i/10)%16]
			}
			if filtersInARow {
				q = []string{`$.items[@.n.Greater(0)][@.k.Equal("b")]`, `$.items[@.n.Greater($.lim)][@.ok]`, `$.items[@.n.Greater(0)][@.k.Equal("a")].n`, `$.nums[@.Greater(0)][@.Less(4)]`,
					`$.items[@.n.Greater(0)][@.n.Greater(0)][@.k.NotEqual("c")].Count()`, `$.nums[@.Greater($.lim)][@.Greater(3)].Sum()`, `$.items[OR,@.ok,@.n.Greater(0)][@.ok.Not()].k`,
					`$.items[@.n.Greater(0)][@.k.Equal("c")].First().n`}[(j+i/10)%8]
			}
			if j == 5 && i%4 == 1 && !filtersInARow {
				// a text argument with blanks around it, handed to a function that reads numbers
				q = r.Pick([]string{`$.n.Sum(" 1000 ")`, `$.n.Average("2 ")`, `$.n.Minimum("\t3")`, `$.n.Maximum(" x")`, `$.n.Add(" 5")`, `$.n.Equal(" 2 ")`, `$.n.AnyOf(" 2","2 ")`, `$.xs.Sum(" 1 ")`, `$.a.Contains(" a ")`})
			}
			if strings.Contains(q, "Sprintf") { // fmt verbs on arbitrary values: output is deterministic but not modelled
				continue
			}
			o := c.Do(Case{Q: q, D: d, Cls: "history", InDomain: true})
			if o.Class == "PARSE-ERR" || o.Class == "NEITHER" || o.Class == "PARSE-PANIC" {
				continue
			}
			op, err := mpath.ParseString(q)
			if err != nil || op == nil {
				continue
			}
			ops = append(ops, &entry{q: q, op: op, dump: dumpOp(op, true) + "|" + op.Sprint(0), first: o.Line()})
		}
		if len(ops) == 0 {
			continue
		}
		rounds := 3 + r.Intn(6)
		if c.thorough() && i%50 == 0 {
			rounds = 50
		}
		report := func(kind, why string, e *entry, exp, got string) {
			c.addViolation(Violation{Kind: kind, Query: e.q, QueryHex: hx(e.q), Data: d, Expected: trunc(exp, 300), Got: trunc(got, 300), Why: why, Cls: "history",
				Key: kind + ":" + lastFunc(e.q)})
		}
		type keptRes struct {
			e     *entry
			res   any
			canon string
		}
		var kept []keptRes
		for k := 0; k < rounds; k++ {
			e := ops[r.Intn(len(ops))]
			target := data
			if k%3 == 2 {
				target = copyData
			}
			// the caller keeps what it was handed: a later evaluation must not change it
			if res, ok := evalRaw(e.op, target); ok {
				kept = append(kept, keptRes{e, res, canonAny(res)})
			}
			got := evalOp(e.op, target).Line()
			if got != e.first {
				nondet++
				report("nondeterministic", "the same operation evaluated again on equal data returns a different result", e, e.first, got)
			}
			if after := canonV(reflect.ValueOf(data)); after != before {
				mutations++
				report("mutation", "evaluation changed the data that was passed to it", e, before, after)
				before = after
			}
			if dmp := dumpOp(e.op, true) + "|" + e.op.Sprint(0); dmp != e.dump {
				opchg++
				report("op-changed", "evaluation changed the operation", e, e.dump, dmp)
				e.dump = dmp
			}
			if b1, err := json.Marshal(e.op); err == nil {
				fresh, _ := mpath.ParseString(e.q)
				if b2, err2 := json.Marshal(fresh); err2 == nil && string(b1) != string(b2) {
					opchg++
					report("op-changed", "json.Marshal of the evaluated operation differs from that of a freshly parsed copy", e, string(b2), string(b1))
				}
			}
		}
		for _, kr := range kept {
			if now := canonAny(kr.res); now != kr.canon {
				nondet++
				report("result-changed", "a result that was handed to the caller changed while later evaluations ran (the data was not touched in between)", kr.e, kr.canon, now)
				break
			}
		}
		if cp := canonV(reflect.ValueOf(copyData)); cp != canonV(reflect.ValueOf(buildAny(d))) {
			mutations++
			report("mutation", "evaluation changed the deep copy of the data", ops[0], "", cp)
		}
		// reuse of the kept operation on OTHER data: a document of the same shape with other leaf values, first as a
		// separate value, then written into the original document in place (same identity, new content). The kept
		// operation must answer like a freshly parsed copy of the query: state remembered inside an operation (or keyed by
		// the identity of the data) shows here.
		variant := c11Variant(d, r)
		vdata := buildAny(variant)
		fresh := func(q string, data any) string {
			op, err := mpath.ParseString(q)
			if err != nil || op == nil {
				return "PARSE-ERR"
			}
			return evalOp(op, data).Line()
		}
		for _, e := range ops {
			if want, got := fresh(e.q, vdata), evalOp(e.op, vdata).Line(); want != got {
				stale++
				report("stale-state", "the kept operation, reused on a document with other values, answers differently from a freshly parsed copy of the query", e, want, got)
			}
		}
		// ... and on the same document with its keys spelt in other cases (and sometimes a second, colliding spelling beside them)
		for round := 0; round < 2; round++ {
			rdata := buildAny(c11Respell(d, r))
			for _, e := range ops {
				if want, got := fresh(e.q, rdata), evalOp(e.op, rdata).Line(); want != got {
					stale++
					report("stale-state", "the kept operation, reused on a document whose keys are spelt in another case, answers differently from a freshly parsed copy of the query", e, want, got)
				}
			}
		}
		if dv, sv := reflect.ValueOf(data), reflect.ValueOf(vdata); dv.Kind() == reflect.Map && sv.Kind() == reflect.Map && dv.Type() == sv.Type() {
			for _, e := range ops {
				evalOp(e.op, data) // the last document every kept operation has seen is the one that is about to change
			}
			for _, k := range sv.MapKeys() {
				dv.SetMapIndex(k, sv.MapIndex(k))
			}
			for _, e := range ops {
				if want, got := fresh(e.q, data), evalOp(e.op, data).Line(); want != got {
					stale++
					report("stale-state", "after the document was changed in place the kept operation answers differently from a freshly parsed copy of the query", e, want, got)
				}
			}
		}
	}
	c.Extra["stale_state"] = stale
	c.Extra["mutations"], c.Extra["nondeterministic"], c.Extra["op_changed"] = mutations, nondet, opchg
}

// evalRaw: the value Do returns (nil error only), panics contained
func evalRaw(op mpath.Operation, data any) (res any, ok bool) {
	defer func() {
		if r := recover(); r != nil {
			res, ok = nil, false
		}
	}()
	v, err := op.Do(data, data)
	if err != nil {
		return nil, false
	}
	return v, true
}

// c11Variant: the same shape with other leaf values (numbers shifted, booleans flipped, strings extended)
func c11Variant(t *TV, r *rng) *TV {
	if t == nil {
		return nil
	}
	c := *t
	switch t.T {
	case "bool":
		if b, ok := t.V.(bool); ok {
			c.V = !b
		}
	case "f64":
		bits, _ := strconv.ParseUint(t.V.(string), 16, 64)
		f := math.Float64frombits(bits)
		if f == f && f < 1e15 && f > -1e15 {
			c.V = fmt.Sprintf("%016x", math.Float64bits(f+float64(1+r.Intn(3))))
		}
	case "int":
		if i, err := strconv.ParseInt(t.V.(string), 10, 64); err == nil && i < 100 && i > -100 {
			c.V = strconv.FormatInt(i+1, 10)
		}
	case "str":
		c.V = hx(unhx(t.V.(string)) + "x")
	case "ptr":
		if inner, ok := t.V.(*TV); ok {
			c.V = c11Variant(inner, r)
		}
	case "slice", "array":
		xs := t.V.([]*TV)
		ys := make([]*TV, len(xs))
		for i, x := range xs {
			ys[i] = c11Variant(x, r)
		}
		c.V = ys
	case "map":
		kvs := t.V.([][2]any)
		out := make([][2]any, len(kvs))
		for i, kv := range kvs {
			out[i] = [2]any{kv[0], c11Variant(kv[1].(*TV), r)}
		}
		c.V = out
	case "struct":
		fs := t.V.([][3]any)
		out := make([][3]any, len(fs))
		for i, f := range fs {
			out[i] = [3]any{f[0], f[1], c11Variant(f[2].(*TV), r)}
		}
		c.V = out
	}
	return &c
}

// c11Respell: the same document with every map key in a random re-casing; one key in three gets a sibling that differs from it
// in case only and holds another value
func c11Respell(t *TV, r *rng) *TV {
	if t == nil {
		return nil
	}
	c := *t
	recase := func(k string) string {
		b := []byte(k)
		for i, ch := range b {
			if r.Intn(2) == 0 {
				switch {
				case ch >= 'a' && ch <= 'z':
					b[i] = ch - 32
				case ch >= 'A' && ch <= 'Z':
					b[i] = ch + 32
				}
			}
		}
		return string(b)
	}
	switch t.T {
	case "ptr":
		if inner, ok := t.V.(*TV); ok {
			c.V = c11Respell(inner, r)
		}
	case "slice", "array":
		xs := t.V.([]*TV)
		ys := make([]*TV, len(xs))
		for i, x := range xs {
			ys[i] = c11Respell(x, r)
		}
		c.V = ys
	case "map":
		kvs := t.V.([][2]any)
		var out [][2]any
		used := map[string]bool{}
		for _, kv := range kvs {
			used[kv[0].(string)] = true
		}
		for _, kv := range kvs {
			ks := kv[0].(string)
			v := c11Respell(kv[1].(*TV), r)
			if strings.HasPrefix(ks, "~") {
				out = append(out, [2]any{ks, v})
				continue
			}
			nk := hx(recase(unhx(ks)))
			if nk != ks && used[nk] {
				nk = ks
			}
			used[nk] = true
			out = append(out, [2]any{nk, v})
			if r.Intn(3) == 0 {
				if sib := hx(recase(unhx(ks))); !used[sib] {
					used[sib] = true
					out = append(out, [2]any{sib, tvF64(float64(900 + r.Intn(99)))})
				}
			}
		}
		c.V = out
	case "struct":
		fs := t.V.([][3]any)
		out := make([][3]any, len(fs))
		for i, f := range fs {
			out[i] = [3]any{f[0], f[1], c11Respell(f[2].(*TV), r)}
		}
		c.V = out
	}
	return &c
}

// c11ArgQueries: queries whose function arguments are `$` paths and groups over the top-level keys of the document
func c11ArgQueries(d *TV, r *rng) []string {
	var nums, bools, strs []string
	add := func(k string, v *TV) {
		for v != nil && v.T == "ptr" && v.Nil == 0 {
			v, _ = v.V.(*TV)
		}
		if v == nil {
			return
		}
		switch v.T {
		case "f64", "int", "dec":
			nums = append(nums, k)
		case "bool":
			bools = append(bools, k)
		case "str":
			strs = append(strs, k)
		}
	}
	switch d.T {
	case "map":
		if d.KK == "iface" {
			return nil
		}
		for _, kv := range d.V.([][2]any) {
			k := unhx(kv[0].(string))
			if k == "" || strings.ContainsAny(k, " .,()[]{}\"'?") {
				continue
			}
			add(k, kv[1].(*TV))
		}
	case "struct":
		for _, f := range d.V.([][3]any) {
			add(f[0].(string), f[2].(*TV))
		}
	}
	var qs []string
	for _, n := range nums {
		for _, m := range nums {
			qs = append(qs, "$."+n+".Greater($."+m+")", "$."+n+".Add($."+m+")", "$."+n+".AnyOf(1,$."+m+")", "$."+n+".Equal({OR,$."+m+".Greater(1)})",
				"$."+n+".IsNull().Equal({AND,$."+m+".Less(2)})")
		}
	}
	for _, b := range bools {
		for _, b2 := range bools {
			qs = append(qs, "$."+b+".Equal({AND,$."+b2+"})", "$."+b+".AnyOf({OR,$."+b2+".Not()},$."+b2+")", "{AND,$."+b+",{OR,$."+b2+"}}")
		}
		for _, n := range nums {
			qs = append(qs, "$."+b+".Equal({AND,$."+n+".Greater(0)})", "$."+b+".NotEqual({OR,$."+n+".Less(1.5)})")
		}
	}
	for _, s1 := range strs {
		for _, s2 := range strs {
			qs = append(qs, "$."+s1+".Equal($."+s2+")", "$."+s1+".AnyOf(\"x\",$."+s2+")")
		}
	}
	return qs
}
