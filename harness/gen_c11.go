package main

// C11: evaluation is pure. History oracle on the implementation: each parsed operation is evaluated several times,
// interleaved with other operations, on the same data and on a deep copy; the data and the operation are
// snapshotted before and after; every answer must equal the first one and the one of a freshly parsed copy.

import (
	"encoding/json"
	"reflect"
	"strings"

	"github.com/machship/mpath"
)

func init() { evalGens["C11"] = genC11 }

func c11CollidingObj(r *rng) *TV {
	// sibling keys that collide under case folding, in every map flavour
	kk := r.Pick([]string{"str", "str", "named", "iface"})
	kvs := [][2]any{}
	for _, k := range []string{"a", "A", "k", "K", "Key", "KEY", "xs"} {
		if r.Intn(3) != 0 {
			var v *TV
			switch r.Intn(4) {
			case 0:
				v = genNum()
			case 1:
				v = genStr()
			case 2:
				v = tvMap("str", [][2]any{{hx("a"), genNum()}, {hx("A"), genNum()}, {hx("b"), genStr()}})
			default:
				v = tvSlice(1, tvMap("str", [][2]any{{hx("k"), genNum()}, {hx("K"), genStr()}}), tvMap("str", [][2]any{{hx("K"), genNum()}}))
			}
			kvs = append(kvs, [2]any{hx(k), v})
		}
	}
	return tvMap(kk, kvs)
}

func genC11(c *Ctx) {
	r := c.R
	c.Rule = "random documents in every carrier (including maps whose sibling keys collide under case folding and maps with interface-typed keys) with 6 data-directed queries each (all functions incl. RemoveKeysBy*, Select, AsArray, filters); each operation is evaluated 3..8 times (50 in a thorough sample) interleaved with the other operations of the document, on the data and on a deep copy; oracle: data deep-equal before/after (canonical snapshot), Sprint/structure of the operation unchanged, every answer equal to the first and to that of a freshly parsed copy. distinct = distinct (query skeleton, data shape, outcome class)"
	n := c.scale(5000, 50000)
	mutations, nondet, opchg := 0, 0, 0
	for i := 0; i < n; i++ {
		var d *TV
		if i%3 == 0 {
			d = c11CollidingObj(r)
		} else {
			d = genObj(3)
		}
		data := buildAny(d)
		copyData := buildAny(d)
		before := canonV(reflect.ValueOf(data))
		type entry struct {
			q     string
			op    mpath.Operation
			dump  string
			first string
		}
		var ops []*entry
		for j := 0; j < 6; j++ {
			q := genDirected("$", d, 2)
			if d.T == "map" && i%3 == 0 && r.Intn(2) == 0 {
				q = r.Pick([]string{"$.a", "$.A", "$.k", "$.key", "$.KEY", "$.xs.k", "$.xs.K", "$.k.a", "$.K.A", `$.Select("$")`, "$.Sum()", `$.RemoveKeysByPrefix("a")`, `$.RemoveKeysBySuffix("s")`, "$.xs.First().k", "$.a.Equal($.A)"})
			}
			if strings.Contains(q, "Sprintf") { // fmt verbs on arbitrary values: output is deterministic but not modelled
				continue
			}
			o := c.Do(Case{Q: q, D: d, Cls: "history", InDomain: true})
			if o.Class == "PARSE-ERR" || o.Class == "NEITHER" || o.Class == "PARSE-PANIC" {
				continue
			}
			op, err := mpath.ParseString(q)
			if err != nil || op == nil {
				continue
			}
			ops = append(ops, &entry{q: q, op: op, dump: dumpOp(op, true) + "|" + op.Sprint(0), first: o.Line()})
		}
		if len(ops) == 0 {
			continue
		}
		rounds := 3 + r.Intn(6)
		if c.thorough() && i%50 == 0 {
			rounds = 50
		}
		report := func(kind, why string, e *entry, exp, got string) {
			c.addViolation(Violation{Kind: kind, Query: e.q, QueryHex: hx(e.q), Data: d, Expected: trunc(exp, 300), Got: trunc(got, 300), Why: why, Cls: "history",
				Key: kind + ":" + lastFunc(e.q)})
		}
		for k := 0; k < rounds; k++ {
			e := ops[r.Intn(len(ops))]
			target := data
			if k%3 == 2 {
				target = copyData
			}
			got := evalOp(e.op, target).Line()
			if got != e.first {
				nondet++
				report("nondeterministic", "the same operation evaluated again on equal data returns a different result", e, e.first, got)
			}
			if after := canonV(reflect.ValueOf(data)); after != before {
				mutations++
				report("mutation", "evaluation changed the data that was passed to it", e, before, after)
				before = after
			}
			if dmp := dumpOp(e.op, true) + "|" + e.op.Sprint(0); dmp != e.dump {
				opchg++
				report("op-changed", "evaluation changed the operation", e, e.dump, dmp)
				e.dump = dmp
			}
			if b1, err := json.Marshal(e.op); err == nil {
				fresh, _ := mpath.ParseString(e.q)
				if b2, err2 := json.Marshal(fresh); err2 == nil && string(b1) != string(b2) {
					opchg++
					report("op-changed", "json.Marshal of the evaluated operation differs from that of a freshly parsed copy", e, string(b2), string(b1))
				}
			}
		}
		if cp := canonV(reflect.ValueOf(copyData)); cp != canonV(reflect.ValueOf(buildAny(d))) {
			mutations++
			report("mutation", "evaluation changed the deep copy of the data", ops[0], "", cp)
		}
	}
	c.Extra["mutations"], c.Extra["nondeterministic"], c.Extra["op_changed"] = mutations, nondet, opchg
}
