package main

import (
	"fmt"
	"os"
	"strconv"
	"syscall"
)

type genFn func(c *Ctx)

var evalGens = map[string]genFn{}

func main() {
	if len(os.Args) < 2 {
		fmt.Fprintln(os.Stderr, "usage: mpv <cmd> ...")
		os.Exit(2)
	}
	switch os.Args[1] {
	case "eval": // mpv eval <prop> <outdir> <seed> <tier>
		prop, dir := os.Args[2], os.Args[3]
		seed, _ := strconv.ParseUint(os.Args[4], 10, 64)
		tier := os.Args[5]
		g, ok := evalGens[prop]
		if !ok {
			fmt.Fprintln(os.Stderr, "no eval generator for", prop)
			os.Exit(2)
		}
		quietStderr()
		c := newCtx(prop, dir, tier, seed)
		R = c.R
		round6pre(c)
		round4(c)
		round6(c)
		g(c)
		c.Finish()
	default:
		if f, ok := commands[os.Args[1]]; ok {
			f(os.Args[2:])
			return
		}
		fmt.Fprintln(os.Stderr, "unknown command", os.Args[1])
		os.Exit(2)
	}
}

var commands = map[string]func(args []string){}

// the scanner prints diagnostics to stderr on the pinned tree; keep our own stderr usable via fd 3 if needed
func quietStderr() {
	if os.Getenv("MPV_KEEP_STDERR") != "" {
		return
	}
	devnull, _ := os.OpenFile("/dev/null", os.O_WRONLY, 0)
	syscall.Dup2(int(devnull.Fd()), 2)
}
