package main

// Data-directed random generators for (query, data) cases (from the design-phase prototype).

import (
	"encoding/hex"
	"fmt"
	"math"
	"strconv"
	"strings"

	"github.com/shopspring/decimal"
)

// ---------- generators ----------
var R *rng

var numPool = []float64{0, 1, -1, 1.5, 2, 3, 10, 0.1, 0.2, 100, -7.25, 1234, 1e-9, 999999999999999}

func genNum() *TV {
	f := numPool[R.Intn(len(numPool))]
	switch R.Intn(9) {
	case 0, 1, 2:
		return &TV{T: "f64", N: 0, V: fmt.Sprintf("%016x", math.Float64bits(f))}
	case 3:
		return &TV{T: "f64", N: 1, V: fmt.Sprintf("%016x", math.Float64bits(f))}
	case 4:
		ks := []string{"int", "int8", "int16", "int32", "int64"}
		return &TV{T: "int", K: ks[R.Intn(len(ks))], N: R.Intn(2), V: strconv.Itoa(int(f) % 100)}
	case 5:
		ks := []string{"uint", "uint8", "uint16", "uint32", "uint64"}
		k := ks[R.Intn(len(ks))]
		v := strconv.Itoa(int(math.Abs(f)) % 100)
		if k == "uint64" && R.Intn(2) == 0 {
			v = "18446744073709551610"
		}
		return &TV{T: "int", K: k, N: R.Intn(2), V: v}
	case 6:
		d := decimal.NewFromFloat(f)
		return &TV{T: "dec", C: d.Coefficient().String(), E: strconv.Itoa(int(d.Exponent()))}
	case 7:
		return &TV{T: "ptr", Nil: 0, V: &TV{T: "int", K: "int", V: strconv.Itoa(int(f) % 100)}}
	default:
		return &TV{T: "f64", N: 0, V: fmt.Sprintf("%016x", math.Float64bits(f))}
	}
}

var strPool = []string{"", "abc", "abcDEF", "x", "hello world", "12", "1.5", "a,b", "é"}

func genStr() *TV {
	return &TV{T: "str", N: btoi(R.Intn(8) == 0), V: hx(strPool[R.Intn(len(strPool))])}
}
func btoi(b bool) int {
	if b {
		return 1
	}
	return 0
}

var keyPool = []string{"a", "b", "c", "k", "xs", "o", "s", "n", "t", "A", "Key", "id"}

func structName(k string) string { return strings.ToUpper(k[:1]) + k[1:] }

func genObj(depth int) *TV {
	n := 1 + R.Intn(5)
	used := map[string]bool{}
	asStruct := R.Intn(3) == 0
	var mv [][2]any
	var sv [][3]any
	for i := 0; i < n; i++ {
		k := keyPool[R.Intn(len(keyPool))]
		fold := strings.ToLower(k)
		if asStruct && used[fold] || !asStruct && used[k] {
			continue
		}
		used[fold], used[k] = true, true
		v := genVal(depth - 1)
		if asStruct {
			sv = append(sv, [3]any{structName(k), 1, v})
		} else {
			mv = append(mv, [2]any{hx(k), v})
		}
	}
	if asStruct {
		if len(sv) == 0 {
			sv = append(sv, [3]any{"A", 1, genNum()})
		}
		return &TV{T: "struct", V: sv}
	}
	kk := "str"
	switch R.Intn(8) {
	case 0:
		kk = "named"
	case 1:
		kk = "iface"
	}
	return &TV{T: "map", KK: kk, V: mv}
}

func genList(depth int) *TV {
	n := R.Intn(5)
	kind := R.Intn(6)
	var elems []*TV
	var first *TV
	for i := 0; i < n; i++ {
		var e *TV
		switch kind {
		case 0, 1:
			e = genNum()
		case 2:
			e = genStr()
		case 3:
			e = genObj(depth - 1)
		case 4:
			e = &TV{T: "bool", V: R.Intn(2) == 0}
		default:
			e = genVal(depth - 1)
		}
		if first == nil {
			first = e
		}
		elems = append(elems, e)
	}
	ei := 1
	// typed slice only when all elements have identical tags (scalars)
	if n > 0 && kind != 5 && kind != 3 && R.Intn(3) == 0 {
		same := true
		for _, e := range elems {
			if e.T != first.T || e.K != first.K || e.N != first.N || e.T == "ptr" {
				same = false
			}
		}
		if same {
			ei = 0
		}
	}
	t := "slice"
	if R.Intn(10) == 0 {
		t = "array"
	}
	if elems == nil {
		elems = []*TV{}
	}
	return &TV{T: t, EI: ei, V: elems}
}

func genVal(depth int) *TV {
	if depth <= 0 {
		switch R.Intn(6) {
		case 0:
			return &TV{T: "nil"}
		case 1:
			return &TV{T: "bool", N: btoi(R.Intn(8) == 0), V: R.Intn(2) == 0}
		case 2:
			return genStr()
		default:
			return genNum()
		}
	}
	switch R.Intn(10) {
	case 0:
		return &TV{T: "nil"}
	case 1:
		return &TV{T: "bool", N: btoi(R.Intn(8) == 0), V: R.Intn(2) == 0}
	case 2:
		return genStr()
	case 3, 4:
		return genNum()
	case 5, 6:
		return genList(depth)
	default:
		return genObj(depth)
	}
}

var funcs0 = []string{"Count", "Any", "First", "Last", "AsArray", "Sum", "Average", "Minimum", "Maximum", "Not", "Invert", "IsNull", "IsNotNull", "IsEmpty", "IsNotEmpty", "IsNullOrEmpty", "IsNotNullOrEmpty"}
var funcs1n = []string{"Equal", "NotEqual", "Less", "LessOrEqual", "Greater", "GreaterOrEqual", "Add", "Subtract", "Multiply", "Divide", "Modulo", "Index", "Left", "Right", "TrimLeft", "TrimRight", "AnyOf", "Sum", "Minimum", "Maximum", "Average"}
var funcs1s = []string{"Equal", "NotEqual", "Contains", "NotContains", "Prefix", "NotPrefix", "Suffix", "NotSuffix", "AnyOf", "RemoveKeysByPrefix", "RemoveKeysBySuffix"}
var numLits = []string{"0", "1", "2", "-1", "1.5", "0.1", "3", "10", "1e30", "100", "0.2", "7"}
var strLits = []string{`""`, `"abc"`, `"a"`, `"x"`, `"DEF"`, `"12"`, `"k"`}

func genKey() string {
	k := keyPool[R.Intn(len(keyPool))]
	if R.Intn(6) == 0 {
		k = strings.ToUpper(k)
	}
	if R.Intn(8) == 0 {
		k += "?"
	}
	return k
}

func genArg(depth int) string {
	switch R.Intn(8) {
	case 0, 1, 2:
		return numLits[R.Intn(len(numLits))]
	case 3, 4:
		return strLits[R.Intn(len(strLits))]
	case 5:
		return []string{"true", "false"}[R.Intn(2)]
	case 6:
		if depth > 0 {
			return genPath("$", depth-1, false)
		}
		return "1"
	default:
		if depth > 0 {
			return "{" + genPred("$", depth-1) + "}"
		}
		return "2"
	}
}

func genFunc(depth int) string {
	switch R.Intn(5) {
	case 0, 1:
		return funcs0[R.Intn(len(funcs0))] + "()"
	case 2:
		f := funcs1n[R.Intn(len(funcs1n))]
		return f + "(" + numLits[R.Intn(len(numLits))] + ")"
	case 3:
		f := funcs1s[R.Intn(len(funcs1s))]
		return f + "(" + strLits[R.Intn(len(strLits))] + ")"
	default:
		all := append(append(append([]string{}, funcs0...), funcs1n...), funcs1s...)
		f := all[R.Intn(len(all))]
		n := R.Intn(4)
		var args []string
		for i := 0; i < n; i++ {
			args = append(args, genArg(depth))
		}
		if R.Intn(12) == 0 {
			return `Select("` + strings.ReplaceAll(genPath("$", 0, false), `"`, `\"`) + `")`
		}
		if R.Intn(12) == 0 {
			return `ReplaceAll(` + strLits[R.Intn(len(strLits))] + "," + strLits[R.Intn(len(strLits))] + ")"
		}
		return f + "(" + strings.Join(args, ",") + ")"
	}
}

func genPred(root string, depth int) string {
	n := 1 + R.Intn(2)
	var ps []string
	if R.Intn(3) == 0 {
		ps = append(ps, []string{"AND", "OR"}[R.Intn(2)])
	}
	for i := 0; i < n; i++ {
		if depth > 0 && R.Intn(6) == 0 {
			ps = append(ps, "{"+genPred("$", depth-1)+"}")
		} else {
			ps = append(ps, genPath(root, depth, true))
		}
	}
	return strings.Join(ps, ",")
}

func genPath(root string, depth int, pred bool) string {
	var sb strings.Builder
	sb.WriteString(root)
	nk := R.Intn(4)
	for i := 0; i < nk; i++ {
		sb.WriteString("." + genKey())
	}
	if depth > 0 && R.Intn(4) == 0 {
		sb.WriteString("[" + genPred("@", depth-1) + "]")
	}
	nf := R.Intn(3)
	if pred && nf == 0 && R.Intn(2) == 0 {
		nf = 1
	}
	for i := 0; i < nf; i++ {
		sb.WriteString("." + genFunc(depth))
	}
	if R.Intn(10) == 0 {
		sb.WriteString("." + genKey())
	}
	return sb.String()
}

// keysOf returns the keys of an object TV (map or struct), as a query would write them.
func keysOf(t *TV) []string {
	var ks []string
	switch t.T {
	case "map":
		for _, kv := range t.V.([][2]any) {
			b, _ := hex.DecodeString(kv[0].(string))
			ks = append(ks, string(b))
		}
	case "struct":
		for _, f := range t.V.([][3]any) {
			ks = append(ks, strings.ToLower(f[0].(string)))
		}
	}
	return ks
}

func child(t *TV, k string) *TV {
	switch t.T {
	case "map":
		for _, kv := range t.V.([][2]any) {
			b, _ := hex.DecodeString(kv[0].(string))
			if strings.EqualFold(string(b), k) {
				return kv[1].(*TV)
			}
		}
	case "struct":
		for _, f := range t.V.([][3]any) {
			if strings.EqualFold(f[0].(string), k) {
				return f[2].(*TV)
			}
		}
	}
	return nil
}

func recase(k string) string {
	switch R.Intn(6) {
	case 0:
		return strings.ToUpper(k)
	case 1:
		return strings.ToLower(k)
	}
	return k
}

// genDirected walks the document so that most steps exist, and picks functions that fit the value reached.
func genDirected(root string, t *TV, depth int) string {
	var sb strings.Builder
	sb.WriteString(root)
	cur := t
	for steps := 0; steps < 4 && cur != nil; steps++ {
		for cur != nil && cur.T == "ptr" && cur.Nil == 0 {
			cur = cur.V.(*TV)
		}
		if cur == nil {
			break
		}
		ks := keysOf(cur)
		if len(ks) > 0 && R.Intn(5) != 0 {
			k := ks[R.Intn(len(ks))]
			nxt := child(cur, k)
			k = recase(k)
			if R.Intn(10) == 0 {
				k += "?"
			}
			sb.WriteString("." + k)
			cur = nxt
			continue
		}
		if (cur.T == "slice" || cur.T == "array") && len(cur.V.([]*TV)) > 0 {
			el := cur.V.([]*TV)[0]
			switch R.Intn(5) {
			case 0: // project a key across the elements
				if ks := keysOf(el); len(ks) > 0 {
					sb.WriteString("." + recase(ks[R.Intn(len(ks))]))
					cur = nil
					continue
				}
			case 1: // filter
				if depth > 0 {
					sb.WriteString("[" + genDirectedPred(el, depth-1) + "]")
					continue
				}
			case 2:
				sb.WriteString("." + []string{"First()", "Last()", "Index(0)", "Index(1)"}[R.Intn(4)])
				cur = el
				continue
			}
		}
		break
	}
	// trailing functions fitted to the value kind
	nf := R.Intn(3)
	for i := 0; i < nf; i++ {
		kind := "any"
		if cur != nil {
			kind = cur.T
		}
		var f string
		switch {
		case (kind == "f64" || kind == "int" || kind == "dec") && R.Intn(4) != 0:
			f = funcs1n[R.Intn(11)] + "(" + genArg(depth) + ")"
			if R.Intn(3) == 0 {
				f = funcs1n[R.Intn(11)] + "(" + numLits[R.Intn(len(numLits))] + ")"
			}
		case kind == "str" && R.Intn(4) != 0:
			if R.Intn(2) == 0 {
				f = funcs1s[R.Intn(9)] + "(" + strLits[R.Intn(len(strLits))] + ")"
			} else {
				f = []string{"Left", "Right", "TrimLeft", "TrimRight"}[R.Intn(4)] + "(" + numLits[R.Intn(len(numLits))] + ")"
			}
		case (kind == "slice" || kind == "array") && R.Intn(4) != 0:
			f = []string{"Count()", "Any()", "First()", "Last()", "Sum()", "Sum(1,2)", "Average()", "Minimum()", "Maximum(5)", "Index(1)", "Index(-1)", "Index(1.5)", "AnyOf(1,2)", "IsEmpty()", `Select("$")`, `Select("$.k")`, `Select("$.a.Add(1)")`}[R.Intn(17)]
		case (kind == "map" || kind == "struct") && R.Intn(4) != 0:
			f = []string{"IsNull()", "IsEmpty()", "IsNullOrEmpty()", `RemoveKeysByPrefix("a")`, `RemoveKeysBySuffix("s")`, "Sum()", "Any()", "Count()", `Select("$")`}[R.Intn(9)]
		default:
			f = genFunc(depth)
		}
		sb.WriteString("." + f)
		cur = nil
	}
	return sb.String()
}

func genDirectedPred(el *TV, depth int) string {
	n := 1 + R.Intn(2)
	var ps []string
	if R.Intn(3) == 0 {
		ps = append(ps, []string{"AND", "OR"}[R.Intn(2)])
	}
	for i := 0; i < n; i++ {
		p := genDirected("@", el, depth)
		if R.Intn(3) != 0 && !strings.HasSuffix(p, ")") {
			p += "." + []string{"Equal(1)", "Greater(0)", "Less(2)", "IsNotNull()", `Equal("abc")`, "IsNotEmpty()", "Equal($.a)"}[R.Intn(7)]
		}
		ps = append(ps, p)
	}
	return strings.Join(ps, ",")
}
