package main

// C08 / C09: the parser. `mpv parse <prop> <outdir> <seed> <tier>` generates query strings, runs the real parser,
// writes one hex line per case for the Lean parser model and the implementation's canonical answer
// (`OP <dump> SPRINT <hex>` | ERR), and applies the property's oracles to the implementation.

import (
	"bytes"
	"encoding/json"
	"errors"
	"fmt"
	"io"
	"io/fs"
	"os"
	"path/filepath"
	"reflect"
	"strings"
	"syscall"
	"time"
	"unicode"
	"unicode/utf8"

	"github.com/machship/mpath"
)

// dumpOp: canonical structure of a parsed operation, read by reflection over the exported fields plus
// PropagateNull() and (optionally) UserString() of every node.
func dumpOp(op any, us bool) string {
	v := reflect.ValueOf(op)
	if v.Kind() == reflect.Pointer {
		v = v.Elem()
	}
	o := op.(mpath.Operation)
	u := func() string {
		if us {
			return "," + hx(o.UserString())
		}
		return ""
	}
	switch v.Type().Name() {
	case "opPath":
		var sb strings.Builder
		ops := v.FieldByName("Operations")
		for i := 0; i < ops.Len(); i++ {
			sb.WriteString(dumpOp(ops.Index(i).Interface(), us))
			sb.WriteString(";")
		}
		return fmt.Sprintf("P(%s,%s,%s,%s,[%s]%s)", b2s(v.FieldByName("IsInvalid").Bool()), b2s(v.FieldByName("StartAtRoot").Bool()), b2s(v.FieldByName("IsFilter").Bool()), b2s(v.FieldByName("MustEndInFunctionOrIdent").Bool()), sb.String(), u())
	case "opPathIdent":
		return fmt.Sprintf("I(%s,%s%s)", hx(v.FieldByName("IdentName").String()), b2s(o.PropagateNull()), u())
	case "opFilter":
		return fmt.Sprintf("F(%s%s)", dumpOp(v.FieldByName("LogicalOperation").Interface(), us), u())
	case "opLogicalOperation":
		var sb strings.Builder
		ops := v.FieldByName("Operations")
		for i := 0; i < ops.Len(); i++ {
			sb.WriteString(dumpOp(ops.Index(i).Interface(), us))
			sb.WriteString(";")
		}
		return fmt.Sprintf("L(%s,%s,%s,[%s]%s)", b2s(v.FieldByName("IsInvalid").Bool()), b2s(v.FieldByName("IsFilter").Bool()), hx(v.FieldByName("LogicalOperationType").String()), sb.String(), u())
	case "opFunction":
		var sb strings.Builder
		ps := v.FieldByName("Params")
		for i := 0; i < ps.Len(); i++ {
			p := ps.Index(i).Interface()
			switch t := p.(type) {
			case *mpath.FP_Number:
				sb.WriteString(fmt.Sprintf("N(%s,%d)", t.Value.Coefficient().String(), t.Value.Exponent()))
			case *mpath.FP_String:
				sb.WriteString(fmt.Sprintf("S(%s)", hx(t.Value)))
			case *mpath.FP_Bool:
				sb.WriteString(fmt.Sprintf("B(%s)", b2s(t.Value)))
			case *mpath.FP_Path:
				sb.WriteString("PP(" + dumpOp(reflect.ValueOf(t).Elem().FieldByName("Value").Interface(), us) + ")")
			case *mpath.FP_LogicalOperation:
				sb.WriteString("PL(" + dumpOp(reflect.ValueOf(t).Elem().FieldByName("Value").Interface(), us) + ")")
			}
			sb.WriteString(";")
		}
		return fmt.Sprintf("Fn(%s,%s,[%s]%s)", b2s(v.FieldByName("IsInvalid").Bool()), hx(v.FieldByName("FunctionType").String()), sb.String(), u())
	}
	return "?" + v.Type().Name()
}

type parseRes struct {
	Class string // OP | ERR | NEITHER | BOTH | PANIC | TIMEOUT
	Op    mpath.Operation
	Line  string
	Msg   string
}

func parseWith(f func() (mpath.Operation, error)) (res parseRes) {
	type raw struct {
		op    mpath.Operation
		err   error
		panic any
	}
	ch := make(chan raw, 1)
	go func() {
		var r raw
		defer func() {
			if p := recover(); p != nil {
				r = raw{panic: p}
			}
			ch <- r
		}()
		r.op, r.err = f()
	}()
	var r raw
	select {
	case r = <-ch:
	case <-time.After(caseTimeout):
		return parseRes{Class: "TIMEOUT", Line: "TIMEOUT"}
	}
	if r.panic != nil {
		return parseRes{Class: "PANIC", Line: "PANIC", Msg: fmt.Sprint(r.panic)}
	}
	op, err := r.op, r.err
	isNil := op == nil || (reflect.ValueOf(op).Kind() == reflect.Pointer && reflect.ValueOf(op).IsNil())
	switch {
	case err != nil && !isNil:
		return parseRes{Class: "BOTH", Line: "BOTH", Msg: err.Error()}
	case err != nil:
		return parseRes{Class: "ERR", Line: "ERR", Msg: err.Error()}
	case isNil:
		return parseRes{Class: "NEITHER", Line: "NEITHER"}
	}
	// the dump is ours, not the parser's: outside the watchdog
	return parseRes{Class: "OP", Op: op, Line: "OP " + dumpOp(op, true) + " SPRINT " + hx(op.Sprint(0))}
}

func parseStr(q string) parseRes {
	return parseWith(func() (mpath.Operation, error) { return mpath.ParseString(q) })
}

// ---------- readers ----------

type chunkReader struct {
	data   []byte
	pos    int
	chunks func() int // next chunk size (≥1)
	failAt int        // -1: never; otherwise fail once pos reaches failAt
	failed bool
	// how the fault is delivered: 0 = (0, err) and the same again on every later call; 1 = the bytes before the fault TOGETHER with
	// the error in one call, then (0, io.EOF); 2 = bytes together with the error, then (0, err) again; 3 = (0, err) once, then (0, io.EOF)
	style int
	// seekLimit > 0: only that many calls of Seek succeed
	seekLimit, seeks int
	// errVal: the fault itself (nil: errInjected)
	errVal error
	// style 4: (0, err) once, then the rest of the data as if nothing had happened; style 5: the bytes before the fault together with
	// the error, then the rest of the data (a transient fault: the parse must still end in an error)
	// zeroEvery > 0: every zeroEvery-th call returns (0, nil) without delivering anything (allowed by io.Reader; not the end)
	zeroEvery, calls int
}

var errInjected = errors.New("injected read fault")

// faults of other makes: the end of data is io.EOF ITSELF; an error that wraps it, claims to be it, or is a relative of it is a fault
type errClaimsEOF struct{}

func (errClaimsEOF) Error() string        { return "connection reset (claims to be EOF)" }
func (errClaimsEOF) Is(target error) bool { return target == io.EOF }

var faultValues = []error{errInjected, fmt.Errorf("stream truncated: %w", io.EOF), io.ErrUnexpectedEOF, &fs.PathError{Op: "read", Path: "query", Err: io.EOF}, errClaimsEOF{},
	fmt.Errorf("outer: %w", fmt.Errorf("inner: %w", io.EOF)), io.ErrClosedPipe}

func (r *chunkReader) fault() error {
	if r.errVal != nil {
		return r.errVal
	}
	return errInjected
}

func (r *chunkReader) Read(p []byte) (int, error) {
	r.calls++
	if r.zeroEvery > 0 && r.calls%r.zeroEvery == 0 && len(p) > 0 {
		return 0, nil
	}
	if r.failed && r.style < 4 {
		switch r.style {
		case 1, 3:
			return 0, io.EOF
		}
		return 0, r.fault()
	}
	if r.failAt >= 0 && r.pos >= r.failAt && !r.failed {
		r.failed = true
		return 0, r.fault()
	}
	if r.pos >= len(r.data) {
		return 0, io.EOF
	}
	n := r.chunks()
	if n < 1 {
		n = 1
	}
	if n > len(p) {
		n = len(p)
	}
	if r.pos+n > len(r.data) {
		n = len(r.data) - r.pos
	}
	if !r.failed && r.failAt >= 0 && r.pos+n >= r.failAt && (r.style == 1 || r.style == 2 || r.style == 5) && len(p) >= r.failAt-r.pos {
		// the last bytes before the fault arrive in the same call as the error
		n = r.failAt - r.pos
		copy(p, r.data[r.pos:r.pos+n])
		r.pos += n
		r.failed = true
		return n, r.fault()
	}
	if !r.failed && r.failAt >= 0 && r.pos+n > r.failAt {
		n = r.failAt - r.pos
		if n == 0 {
			r.failed = true
			return 0, r.fault()
		}
	}
	copy(p, r.data[r.pos:r.pos+n])
	r.pos += n
	return n, nil
}

func (r *chunkReader) Seek(off int64, whence int) (int64, error) {
	if r.seekLimit > 0 && r.seeks >= r.seekLimit {
		return 0, errInjected
	}
	r.seeks++
	switch whence {
	case io.SeekStart:
		r.pos = int(off)
	case io.SeekCurrent:
		r.pos += int(off)
	case io.SeekEnd:
		r.pos = len(r.data) + int(off)
	}
	return int64(r.pos), nil
}

// ---------- std stream capture ----------

type fdCapture struct {
	f *os.File
}

func captureStd() *fdCapture {
	f, err := os.CreateTemp("", "mpv-std")
	if err != nil {
		panic(err)
	}
	syscall.Dup2(int(f.Fd()), 1)
	syscall.Dup2(int(f.Fd()), 2)
	return &fdCapture{f: f}
}

func (c *fdCapture) size() int64 {
	st, err := c.f.Stat()
	if err != nil {
		return 0
	}
	return st.Size()
}

func (c *fdCapture) close() {
	name := c.f.Name()
	c.f.Close()
	os.Remove(name)
}

// ---------- generators ----------

var c08Alphabet = []string{"$", "@", ".", ",", "(", ")", "[", "]", "{", "}", "?", "a", "Equal", "1", `"s"`, "AND", "OR", " "}

var parseExtra = []string{"true", "false", "-1.5", "1e3", ".5", "5.", "NaN", "Inf", "infinity", "-Inf", "nan", "'c'", "'cc'", "`r`", "\"a\\\"b\"", "\"a\\nb\"", "\"un", "//c\n", "/*c*/", "/", "\t", "\n", "\x00", "\x01", "\xff", "é", "\xef\xbb\xbf", "Not", "x?", "??", "1.2.3", "0x1p4", "1_0", "0700", "0x1F", "0b1", "0o7", "017", "1__0", "\\", "=", "!", "\u00a0", "\u0085", "\v", "*", "-", "+", "\"\\x41\"", "\"\\q\"", "\"tab\there\"", "IsNull", "Select", "Sum", "b", "k1", "9", "0.25", "1e400", "\"\"", "\"\\\\\"", "Foo", "XOR"}

func genGrammarQuery(r *rng, depth int) string {
	return gPath(r, "$", depth, false)
}

var gKeys = []string{"a", "b", "k", "xs", "Key", "n_1", "é", "a?", "b?", "k?", "?", "xs?"}
var gNums = []string{"0", "1", "-1", "1.5", "-0.25", "1e3", "2.5e-3", "123456789012345", "0.1", "10", "1E2", "007", "+3", "1e-7", "0700", "010", "0x1F", "0x10", "0b11", "0o17", "1_000", "0_17", "0x1p-2", "08", "00.5"}
var gStrs = []string{`""`, `"abc"`, `"a b"`, `"a\"b"`, `"a\\b"`, `"l1\nl2"`, `"t\tb"`, `"é"`, `"'"`, "\"`\"", `"\\n"`, `"\\\""`, `"$.a"`, `"x,y"`, `"(]"`, `"日本"`,
	// runes beyond the basic plane: printable (an emoji, a CJK extension ideograph) and hidden ones (tag characters as in the flag of England, a language tag, private-use glyphs), and hidden runes of the basic plane
	"\"\U0001F3F4\U000E0067\U000E0062\U000E0065\U000E006E\U000E0067\U000E007F\"", "\"a\U000E0001b\"", "\"\U000F0001\"", "\"\U00100000x\"", "\"\U0001F600\"", "\"\U00020000\"", "\"\u00a0\u200b\ufeff\"", "\"\u0001\u007f\"", "\"\U0010FFFF\"", "\"\U0001D173\""}

func gArg(r *rng, depth int, fns []string) string {
	switch r.Intn(8) {
	case 0, 1:
		return r.Pick(gNums)
	case 2, 3:
		return r.Pick(gStrs)
	case 4:
		return r.Pick([]string{"true", "false"})
	case 5:
		if depth > 0 {
			return gPath(r, r.Pick([]string{"$", "@"}), depth-1, false)
		}
		return "1"
	default:
		if depth > 0 {
			return gGroup(r, "$", depth-1)
		}
		return `"s"`
	}
}

var gFuncs []string

// gSep: what stands between two arguments or operands: a comma, and now and then only a blank, a line break, a comment or a token
// that means nothing there - the parser takes all of these, and only the blank keeps `1 2` from being `12`
func gSep(r *rng) string {
	switch r.Intn(14) {
	case 0:
		return " "
	case 1:
		return "\n"
	case 2:
		return "/*c*/"
	case 3:
		return " , "
	case 4:
		return ";"
	}
	return ","
}

func gPath(r *rng, root string, depth int, pred bool) string {
	var sb strings.Builder
	sb.WriteString(root)
	nk := r.Intn(4)
	for i := 0; i < nk; i++ {
		if i > 0 && r.Intn(16) == 0 {
			sb.WriteString(" " + r.Pick(gKeys)) // a key after a blank instead of a dot
			continue
		}
		sb.WriteString("." + r.Pick(gKeys))
	}
	if depth > 0 && r.Intn(4) == 0 {
		sb.WriteString(gFilter(r, depth-1))
		if r.Intn(3) == 0 {
			sb.WriteString(gFilter(r, depth-1))
		}
		if r.Intn(8) == 0 { // a mark directly after a filter
			sb.WriteString("?")
		}
	}
	nf := r.Intn(3)
	if pred && nf == 0 {
		nf = 1
	}
	for i := 0; i < nf; i++ {
		fn := r.Pick(gFuncs)
		na := r.Intn(3)
		var args []string
		for j := 0; j < na; j++ {
			args = append(args, gArg(r, depth, gFuncs))
		}
		sb.WriteString("." + fn + "(" + strings.Join(args, gSep(r)) + ")")
		if r.Intn(7) == 0 { // a mark directly after a call
			sb.WriteString("?")
		}
	}
	if r.Intn(12) == 0 {
		sb.WriteString("." + r.Pick(gKeys))
	}
	return sb.String()
}

func gBody(r *rng, root string, depth int) string {
	var ps []string
	switch r.Intn(4) {
	case 0:
		ps = append(ps, "AND")
	case 1:
		ps = append(ps, "OR")
	}
	n := r.Intn(4)
	if len(ps) == 0 && n == 0 {
		n = 1
	}
	for i := 0; i < n; i++ {
		if depth > 0 && r.Intn(5) == 0 {
			ps = append(ps, gGroup(r, root, depth-1))
		} else {
			ps = append(ps, gPath(r, root, depth, true))
		}
	}
	return strings.Join(ps, gSep(r))
}
func gGroup(r *rng, root string, depth int) string { return "{" + gBody(r, root, depth) + "}" }
func gFilter(r *rng, depth int) string             { return "[" + gBody(r, "@", depth) + "]" }

func noOptionalSpace(q string) bool {
	if strings.Contains(q, "/") || !utf8.ValidString(q) {
		return false
	}
	for _, r := range q {
		if unicode.IsSpace(r) || !unicode.IsPrint(r) || r == 0xFEFF || r == 0xFFFD {
			return false
		}
	}
	return true
}

func validNames(dump string) bool { // known function names and AND/OR only
	return !strings.Contains(dump, "Fn(1") && !strings.Contains(dump, "L(1")
}

func init() {
	commands["parse"] = func(args []string) {
		prop, dir := args[0], args[1]
		var seed uint64
		fmt.Sscan(args[2], &seed)
		tier := args[3]
		c := newCtx(prop, dir, tier, seed)
		gFuncs = funcNames()
		std := captureStd()
		defer std.close()
		runParse(c, std)
		c.Finish()
	}
}

func runParse(c *Ctx, std *fdCapture) {
	r := c.R
	isC09 := c.Prop == "C09"
	c.Rule = "exhaustive: every string of up to L tokens over the 18-token alphabet of the property (L=4 quick, 5 thorough; longer lengths sampled); random token strings over an 80-token alphabet (escapes, comments, BOM, NUL, invalid UTF-8, NaN/Inf spellings); random byte strings; grammar-generated queries; deep nesting and long inputs. distinct = distinct (outcome class, structure skeleton of the parsed operation); non-trivial = not a plain rejection"
	var history []string
	stdViol := 0
	accepted := 0
	skel := func(line string) string {
		// erase hex payloads
		var sb strings.Builder
		for i := 0; i < len(line); i++ {
			ch := line[i]
			if ch >= '0' && ch <= '9' || ch >= 'a' && ch <= 'f' {
				continue
			}
			sb.WriteByte(ch)
		}
		s := sb.String()
		if len(s) > 80 {
			s = s[:80]
		}
		return s
	}
	emit := func(q string, cls string) {
		before := std.size()
		pr := parseStr(q)
		wrote := std.size() - before
		// record for the model
		c.cases.WriteString(hx(q))
		c.cases.WriteByte('\n')
		line := pr.Line
		c.impl.WriteString(line)
		c.impl.WriteByte('\n')
		c.N++
		c.InDom++
		c.Hist[cls]++
		c.OutHist[pr.Class]++
		c.Distinct[pr.Class+"|"+skel(line)] = struct{}{}
		if len(c.Samples) < 10 && (c.N%4001 == 1 || pr.Class == "OP" && len(c.Samples) < 4) {
			c.Samples = append(c.Samples, map[string]any{"query": q, "query_hex": hx(q), "impl": trunc(line, 200), "class": cls})
		}
		mk := func(kind, why string) Violation {
			return Violation{Kind: kind, Query: q, QueryHex: hx(q), Why: why, Cls: cls, Got: trunc(line, 300), Key: kind}
		}
		if !isC09 {
			switch pr.Class {
			case "PANIC":
				c.addViolation(mk("panic", "the parser panicked: "+trunc(pr.Msg, 120)))
			case "NEITHER":
				c.addViolation(mk("neither", "ParseString returned neither an operation nor an error"))
			case "BOTH":
				c.addViolation(mk("both", "ParseString returned both an operation and an error"))
			case "TIMEOUT":
				c.addViolation(mk("timeout", "the parser did not return"))
			}
			if wrote > 0 {
				stdViol++
				c.addViolation(mk("stdstreams", fmt.Sprintf("%d byte(s) were written to the process's standard streams during the parse", wrote)))
			}
			// history independence + chunking + faults on a sample (all short inputs, sampled long ones)
			if len(q) <= 12 && c.N%7 == 0 || c.N%97 == 0 || cls == "corpus" {
				// random history of other parses on the pooled scanners
				for i := 0; i < 1+r.Intn(3) && len(history) > 0; i++ {
					parseStr(history[r.Intn(len(history))])
				}
				again := parseStr(q)
				if again.Line != line {
					v := mk("history", "the same query parsed again after other parses gives a different result")
					v.Extra = map[string]string{"first": trunc(line, 200), "again": trunc(again.Line, 200)}
					c.addViolation(v)
				}
				for _, mode := range []string{"one-byte", "random-chunks", "offset-start", "one-seek-only", "empty-reads", "empty-reads-one-byte"} {
					cr := &chunkReader{data: []byte(q), failAt: -1}
					switch mode {
					case "one-byte":
						cr.chunks = func() int { return 1 }
					case "random-chunks":
						cr.chunks = func() int { return 1 + r.Intn(5) }
					case "offset-start":
						cr.chunks = func() int { return 4096 }
						cr.pos = len(q) / 2
					case "empty-reads": // now and then a read that delivers nothing and reports nothing: not the end of the query
						cr.chunks = func() int { return 1 + r.Intn(3) }
						cr.zeroEvery = 2 + r.Intn(3)
					case "empty-reads-one-byte":
						cr.chunks = func() int { return 1 }
						cr.zeroEvery = 2
					case "one-seek-only": // the reader can be positioned once (at the start of the parse) and never again
						cr.chunks = func() int { return 7 }
						cr.pos = len(q) / 3
						cr.seekLimit = 1
					}
					got := parseWith(func() (mpath.Operation, error) { return mpath.ParseReadSeeker(cr) })
					if got.Line != line {
						v := mk("chunking", "ParseReadSeeker through a "+mode+" reader differs from ParseString on the same bytes")
						v.Extra = map[string]string{"string": trunc(line, 200), "reader": trunc(got.Line, 200)}
						v.Key = "chunking:" + mode
						c.addViolation(v)
					}
				}
				// the library's own readers, already read (to their end, half way) before they are handed over, and one reader parsed twice:
				// the parse starts at the first byte whatever was read before
				for _, mode := range []string{"strings.Reader-at-its-end", "strings.Reader-half-way", "bytes.Reader-at-its-end", "same-reader-a-second-time"} {
					var rs io.ReadSeeker
					switch mode {
					case "strings.Reader-at-its-end":
						sr := strings.NewReader(q)
						sr.Seek(0, io.SeekEnd)
						rs = sr
					case "strings.Reader-half-way":
						sr := strings.NewReader(q)
						sr.Seek(int64(len(q)/2), io.SeekStart)
						rs = sr
					case "bytes.Reader-at-its-end":
						br := bytes.NewReader([]byte(q))
						br.Seek(0, io.SeekEnd)
						rs = br
					default:
						sr := strings.NewReader(q)
						parseWith(func() (mpath.Operation, error) { return mpath.ParseReadSeeker(sr) })
						rs = sr
					}
					got := parseWith(func() (mpath.Operation, error) { return mpath.ParseReadSeeker(rs) })
					if got.Line != line {
						v := mk("chunking", "ParseReadSeeker on a "+mode+" differs from ParseString on the same bytes")
						v.Extra = map[string]string{"string": trunc(line, 200), "reader": trunc(got.Line, 200)}
						v.Key = "chunking:" + mode
						c.addViolation(v)
					}
				}
				// a read fault at every offset (short inputs) or sampled offsets
				offs := []int{}
				if len(q) <= 24 {
					for k := 0; k <= len(q); k++ {
						offs = append(offs, k)
					}
				} else {
					for k := 0; k < 6; k++ {
						offs = append(offs, r.Intn(len(q)+1))
					}
				}
				for _, k := range offs {
					cr := &chunkReader{data: []byte(q), failAt: k, chunks: func() int { return 1 + r.Intn(4) }, style: (k + c.N) % 6, errVal: faultValues[(k+c.N/6)%len(faultValues)]}
					if k == 0 && cr.style != 0 && cr.style < 4 {
						cr.style = 3
					}
					b0 := std.size()
					got := parseWith(func() (mpath.Operation, error) { return mpath.ParseReadSeeker(cr) })
					if cr.failed && got.Class != "ERR" {
						v := mk("fault", fmt.Sprintf("a reader that fails at offset %d (%s) yields %s instead of an error", k,
							[]string{"no bytes with the error, the error again on later calls", "the bytes before the fault in the same call as the error, then end of input", "bytes with the error, then the error again", "the error once, then end of input", "the error once, then the rest of the data", "bytes with the error, then the rest of the data"}[cr.style], got.Class))
						v.Key = fmt.Sprintf("fault:%s:style%d", got.Class, cr.style)
						v.Extra = map[string]any{"fail_at": k, "result": trunc(got.Line, 200)}
						c.addViolation(v)
					}
					if std.size() > b0 {
						v := mk("stdstreams", "a failing reader makes the parser write to the standard streams")
						v.Key = "stdstreams:fault"
						c.addViolation(v)
					}
					c.Extra["fault_injections"] = asInt(c.Extra["fault_injections"]) + 1
					// the same fault behind the standard library's own reader types: an io.SectionReader over a source that fails from
					// offset k on (whatever the type of the reader, a fault in the middle of the data is an error)
					if k < len(q) {
						fa := &failingAt{data: []byte(q), failAt: k}
						got := parseWith(func() (mpath.Operation, error) {
							return mpath.ParseReadSeeker(io.NewSectionReader(fa, 0, int64(len(q))))
						})
						if fa.failed && got.Class != "ERR" {
							v := mk("fault", fmt.Sprintf("an io.SectionReader over a source that fails from offset %d on yields %s instead of an error", k, got.Class))
							v.Key = "fault:section-reader:" + got.Class
							v.Extra = map[string]any{"fail_at": k, "result": trunc(got.Line, 200)}
							c.addViolation(v)
						}
					}
				}
				// a reader that cannot even seek, then the query once more: the parse that ended early must not change the next one
				if got := parseWith(func() (mpath.Operation, error) { return mpath.ParseReadSeeker(seekFailer{}) }); got.Class != "ERR" {
					v := mk("fault", "a reader whose Seek fails yields "+got.Class+" instead of an error")
					v.Key = "fault:seek:" + got.Class
					c.addViolation(v)
				}
				if after := parseStr(q); after.Line != line {
					v := mk("history", "the same query parsed again after parses that ended in reader faults gives a different result")
					v.Extra = map[string]string{"first": trunc(line, 200), "again": trunc(after.Line, 200)}
					v.Key = "history:after-faults"
					c.addViolation(v)
				}
			}
		}
		if pr.Class == "OP" {
			accepted++
			if len(history) < 4000 {
				history = append(history, q)
			}
			if isC09 {
				c09Oracles(c, q, pr, mk)
			}
		}
	}
	// corpus first
	for _, q := range loadCorpus("parse") {
		emit(q, "corpus")
	}
	for _, q := range []string{"", " ", "\n", "// c", "/* c */", "\xef\xbb\xbf", "$.a.Equal(NaN)", "$.a.Equal(Inf)", "$.a.Equal(infinity)", "$.a.Equal(-Inf)", "$.a.Equal(1e400)",
		"$.a?.b?.IsNull()", "$.a.Equal(.5)", "$.a.Equal(1.5.5)", "$.a.Equal(5.)", "$.a.Equal(1", "{$.a", "$[", "$.a.Equal (1)", "$.a.Equal(\"\\d+\")", "$.a.Equal('x')", "$.a.Equal(`r`)",
		"$.a.Equal(\"un", "$.a.Equal(1,,2)", "$.a.Equal(1 2)", `$.a.Equal('\t')`, `$.a.Equal('a\nb')`, `$.a.Equal('\"')`, `$.a.Contains('x\ty', "z")`, `$.k.Equal('abc')`, `{$.k.Equal('\r')}`, "$.a.Equal(1.)", "$.a.Add(2.).Greater(10.)", "$.a.Sum(1.,2)", `$.xs.Select("@ . a")`, `$.xs[@.a.Less(100)].Select("@.b.AnyOf(1 2)")`, `$.xs.Select("$.a /*c*/ .b")`, `{$.xs.Select("@.a.AnyOf(1 2)").Any()}`, `$.k.Equal($.xs.Select("@ .a").First())`, "$.a.Equal(()", "$.a.Equal(])", "$.a.Equal(?)", "$.a.Equal(x?)", "$.a[@.b]", "$.a[@.b][@.c]", "$.a[OR,@.b,@.c]",
		// percent signs in literals and names, inside groups and filters and outside
		`{$.s.Suffix("%")}`, `$.list[@.s.Equal("50%d")].Count()`, `{$.s.Equal("100%%")}`, `{$.rate%.Equal(5)}`, `$.s.Equal("100%")`, `{OR,$.s.Sprintf("%s-%v",1),$.s.Contains("%!")}`, `$.list[OR,@.s.Prefix("%5"),@.s.Equal("%")]`,
		// conditions that are not Boolean in front of other conditions
		"{AND,$.tags.First(),$.ok}", "$.list[@.tags.First(),@.ok]", "{OR,$.tags.Last(),{AND,$.ok}}", "$.ok.Equal({OR,$.tags.Count(),$.ok})", "{$.a,{$.b}}", "{AND,$.a.Equal(1),{OR,$.b,$.c}}", "$.list[@.x.Equal(1),{OR,@.y,@.z}]"} {
		emit(q, "named")
	}
	// a transient fault (the error once, then the data goes on) at every offset of queries in which the scanner is in the middle of
	// something when it comes: a multi-byte character, a string, a comment
	for _, q := range []string{"$.caf\u00e9.name", "$.\u65e5\u672c.x", `$.a.Equal("two words")`, "$.a/* c */.b", `$.a.Equal("\u00e9t\u00e9")`, "$.a.b.c", "{OR,$.a,$.b}", "$.\U0001F600.k"} {
		want := parseStr(q)
		for k := 0; k <= len(q); k++ {
			for _, style := range []int{4, 5} {
				for _, ev := range []error{errInjected, io.ErrUnexpectedEOF} {
					cr := &chunkReader{data: []byte(q), failAt: k, chunks: func() int { return 3 }, style: style, errVal: ev}
					got := parseWith(func() (mpath.Operation, error) { return mpath.ParseReadSeeker(cr) })
					c.Extra["fault_injections"] = asInt(c.Extra["fault_injections"]) + 1
					if cr.failed && got.Class != "ERR" {
						v := Violation{Kind: "fault", Query: q, QueryHex: hx(q), Expected: "an error", Got: trunc(got.Line, 200), Cls: "named/transient-fault",
							Why: fmt.Sprintf("a reader that fails once at offset %d and then goes on delivering yields %s instead of an error", k, got.Class), Key: fmt.Sprintf("fault:%s:style%d", got.Class, style)}
						c.addViolation(v)
					}
				}
			}
			// the same offsets with an empty read instead of a fault: the outcome of ParseString
			cr := &chunkReader{data: []byte(q), failAt: -1, chunks: func() int { return k%3 + 1 }, zeroEvery: 2 + k%3}
			if got := parseWith(func() (mpath.Operation, error) { return mpath.ParseReadSeeker(cr) }); got.Line != want.Line {
				c.addViolation(Violation{Kind: "chunking", Query: q, QueryHex: hx(q), Expected: trunc(want.Line, 200), Got: trunc(got.Line, 200), Cls: "named/empty-reads",
					Why: "ParseReadSeeker through a reader that sometimes delivers nothing (0, nil) differs from ParseString on the same bytes", Key: "chunking:empty-reads"})
			}
		}
	}
	// bounded-exhaustive block
	maxLen := 4
	if c.thorough() {
		maxLen = 5
	}
	var rec func(n int, cur string)
	rec = func(n int, cur string) {
		if cur != "" {
			emit(cur, "exhaustive")
		}
		if n == 0 {
			return
		}
		for _, t := range c08Alphabet {
			rec(n-1, cur+t)
		}
	}
	if !isC09 {
		rec(maxLen, "")
		c.Exhaustive = true
		c.Extra["exhaustive_token_length"] = maxLen
		// lengths 5..7 sampled
		for i := 0; i < c.scale(30000, 400000); i++ {
			l := maxLen + 1 + r.Intn(7-maxLen)
			var sb strings.Builder
			for j := 0; j < l; j++ {
				sb.WriteString(r.Pick(c08Alphabet))
			}
			emit(sb.String(), "sampled-6-7")
		}
	} else {
		// C09: accepted strings of the parser exploration: all token strings up to length 4 (5 in thorough)
		rec(maxLen, "")
		// string literals: every body over the pieces below up to length 4 (5 in thorough) - plain and non-ASCII
		// characters before, between and after every escape
		pieces := []string{"a", `\\`, `\"`, `\n`, `\t`, "\t", "é", "'", "`", "日", "n", " "}
		litLen := 4
		if c.thorough() {
			litLen = 5
		}
		var lit func(n int, cur string)
		lit = func(n int, cur string) {
			emit(`$.a.Equal("`+cur+`")`, "string-literals")
			if n == 0 {
				return
			}
			for _, p := range pieces {
				lit(n-1, cur+p)
			}
		}
		lit(litLen, "")
	}
	// long tokens: keys, words, literals and numbers of many bytes (one-, two-, three- and four-byte characters), where they are
	// accepted and where they are rejected (the message quotes the token it stumbled on); lengths around the usual buffer and
	// cut-off sizes and around every integer constant that is new in the source
	{
		lens := around([]int{16, 17, 21, 22, 33, 60, 61, 63, 64, 65, 96, 97, 127, 128, 129, 255, 256, 257, 1000}, 4000)
		units := []string{"a", "é", "日", "😀", "я"}
		for li, L := range lens {
			for ui, u := range units {
				if (li+ui)%2 == 1 && !c.thorough() && L > 70 {
					continue
				}
				tok := strings.Repeat(u, L)
				mixed := strings.Repeat("a", L/2) + strings.Repeat(u, L-L/2)
				for _, q := range []string{tok, "$." + tok, "$.a " + tok, "$.a." + tok + "(", "$.a." + tok + "(1)", "$.a.Equal(" + tok + ")", `$.a.Equal("` + tok + `")`, `$.a.Equal("` + tok,
					"$." + tok + ".Equal(1) x", "{" + tok + "}", "$.a[" + tok + "]", "$.a[@." + tok + "]", "$.a.Equal(1" + tok + ")", `$.a.Contains("` + mixed + `").Not()`,
					`$.xs[@.k.Equal("` + tok + `")].k`, `$.a.AnyOf("x","` + mixed + `",1)`, `$.a.Equal($.b.Equal("` + tok + `"))`, `{$.a.Equal("` + tok + `")}`, "$." + tok + "?." + mixed,
					"$.a.Equal(" + strings.Repeat("7", L) + ")", "$.a.Equal(0." + strings.Repeat("3", L) + ")"} {
					emit(q, "long-tokens")
				}
			}
		}
	}
	// every new string constant of the source, as a key, a function name, a literal and a bare token
	for _, ns := range novelConsts().Strs {
		for _, q := range []string{ns, "$." + ns, "$.a." + ns + "(1)", "$.a." + ns + "()", `$.a.Equal("` + strings.ReplaceAll(strings.ReplaceAll(ns, `\`, `\\`), `"`, `\"`) + `")`, "$.a.Equal(" + ns + ")",
			"{" + ns + ",$.a}", "$.a[" + ns + ",@.b]", "$.a[@." + ns + "(2)]", "{$.a." + ns + "($.b)}"} {
			emit(q, "new-source-strings")
		}
	}
	all := append(append([]string{}, c08Alphabet...), parseExtra...)
	for i := 0; i < c.scale(40000, 400000); i++ {
		l := 1 + r.Intn(14)
		var sb strings.Builder
		for j := 0; j < l; j++ {
			sb.WriteString(r.Pick(all))
		}
		emit(sb.String(), "random-tokens")
	}
	if !isC09 {
		for i := 0; i < c.scale(10000, 100000); i++ {
			l := r.Intn(24)
			b := make([]byte, l)
			for j := range b {
				if r.Intn(3) == 0 {
					b[j] = byte(r.Intn(256))
				} else {
					const al = "$@.,()[]{}?aE1\"' \n/*\\"
					b[j] = al[r.Intn(len(al))]
				}
			}
			emit(string(b), "random-bytes")
		}
	}
	for i := 0; i < c.scale(30000, 300000); i++ {
		q := genGrammarQuery(r, 1+r.Intn(3))
		if r.Intn(8) == 0 {
			q = gGroup(r, "$", 2)
		}
		if !isC09 && r.Intn(6) == 0 {
			// optional whitespace / comments sprinkled between tokens
			q = strings.ReplaceAll(q, ",", r.Pick([]string{" ,", ", ", ",\n", ",/*c*/", ", // c\n"}))
		}
		emit(q, "grammar")
	}
	if !isC09 {
		// long and deep inputs
		for _, n := range around([]int{10, 60, 200}, 300) {
			emit(strings.Repeat("{", n)+"$.a"+strings.Repeat("}", n), "deep")
			emit("$.a"+strings.Repeat("[@.b", n)+strings.Repeat("]", n), "deep")
			emit("$.a.Equal("+strings.Repeat("{", n)+"$.a"+strings.Repeat("}", n)+")", "deep")
			emit("$"+strings.Repeat(".a", n), "long")
			emit("$.a.AnyOf("+strings.Repeat("1,", n)+"1)", "long")
		}
		// nesting depth 1000: the parser's answer only (the dump of a 1000-level tree is cubic in our own code)
		for _, q := range []string{strings.Repeat("{", 1000) + "$.a" + strings.Repeat("}", 1000), "$.a" + strings.Repeat("[@.b", 1000) + strings.Repeat("]", 1000),
			strings.Repeat("{", 1000), "$.a" + strings.Repeat("[@.b", 1000), "$.a.Equal(" + strings.Repeat("{", 1000)} {
			pr := parseWith(func() (mpath.Operation, error) {
				op, err := mpath.ParseString(q)
				if op != nil && err == nil {
					return nil, errors.New("accepted") // do not dump
				}
				return op, err
			})
			c.Extra["depth1000/"+trunc(skeletonParse(q), 12)] = pr.Class + ":" + trunc(pr.Msg, 20)
			if pr.Class != "ERR" {
				c.addViolation(Violation{Kind: "deep", Query: trunc(q, 60), QueryHex: hx(q), Why: "nesting depth 1000: " + pr.Class, Key: "deep:" + pr.Class})
			}
		}
		// 64 KiB inputs: implementation only (the list-based Lean lexer is quadratic in the input length);
		// 4 KiB versions of the same shapes go to the model too
		for _, size := range []int{4096, 65536} {
			big := make([]byte, size)
			for j := range big {
				big[j] = byte(r.Intn(256))
			}
			qs := []string{string(big), "$.a.Equal(\"" + strings.Repeat("x", size-100) + "\")", strings.Repeat(" ", size), "$.a.Equal(" + strings.Repeat("1,", size/2) + "1)"}
			for _, q := range qs {
				if size <= 4096 {
					emit(q, "4KiB")
					continue
				}
				before := std.size()
				pr := parseWith(func() (mpath.Operation, error) { return mpath.ParseString(q) })
				c.Extra["64KiB/"+trunc(skeletonParse(q), 10)] = pr.Class
				if pr.Class == "PANIC" || pr.Class == "NEITHER" || pr.Class == "BOTH" || pr.Class == "TIMEOUT" || std.size() > before {
					c.addViolation(Violation{Kind: "large", Query: trunc(q, 60), QueryHex: hx(q), Why: "64 KiB input: " + pr.Class, Key: "large:" + pr.Class})
				}
			}
		}
	}
	c.Extra["accepted"] = accepted
	c.Extra["std_stream_violations"] = stdViol
}

// skeletonParse: the token-class shape of a query, used to group violations
func skeletonParse(q string) string {
	var sb strings.Builder
	prev := byte(0)
	for i := 0; i < len(q); i++ {
		ch := q[i]
		var cl byte
		switch {
		case ch >= '0' && ch <= '9':
			cl = '9'
		case ch >= 'a' && ch <= 'z' || ch >= 'A' && ch <= 'Z':
			cl = 'a'
		case ch >= 0x80:
			cl = 'u'
		case ch < 0x20:
			cl = 'c'
		default:
			cl = ch
		}
		if cl == prev && (cl == '9' || cl == 'a' || cl == 'u' || cl == ' ') {
			continue
		}
		sb.WriteByte(cl)
		prev = cl
	}
	return sb.String()
}

var c09Data []any

func c09Oracles(c *Ctx, q string, pr parseRes, mk func(kind, why string) Violation) {
	d1 := dumpOp(pr.Op, false)
	if noOptionalSpace(q) {
		c.Extra["userstring_checked"] = asInt(c.Extra["userstring_checked"]) + 1
		if us := pr.Op.UserString(); us != q {
			v := mk("userstring", "UserString() of the parsed operation differs from the query text (no optional whitespace or comments in it)")
			v.Expected, v.Got = q, us
			c.addViolation(v)
		}
	}
	if !validNames(d1) {
		return
	}
	c.Extra["roundtrip_checked"] = asInt(c.Extra["roundtrip_checked"]) + 1
	sp := pr.Op.Sprint(0)
	p2 := parseStr(sp)
	if p2.Class != "OP" {
		v := mk("reparse", "the text produced by Sprint does not parse")
		v.Extra = map[string]string{"sprint": sp, "result": p2.Class}
		c.addViolation(v)
		return
	}
	if d2 := dumpOp(p2.Op, false); d2 != d1 {
		v := mk("structure", "the operation parsed from Sprint's text has a different structure")
		v.Extra = map[string]string{"sprint": sp, "before": trunc(d1, 300), "after": trunc(d2, 300)}
		c.addViolation(v)
		return
	}
	if sp2 := p2.Op.Sprint(0); sp2 != sp {
		v := mk("fixedpoint", "Sprint of the re-parsed operation differs from the first Sprint")
		v.Extra = map[string]string{"sprint": sp, "again": sp2}
		c.addViolation(v)
		return
	}
	// same result on data
	if c09Data == nil {
		st := &Style{Obj: "map", Num: "f64"}
		for _, d := range []*Doc{
			dObj("a", dNum("1"), "b", dNull(), "k", dStr("abc"), "xs", dArr(dNum("1"), dNum("2"), dNum("3")), "Key", dObj("a", dNum("5"), "b", dBool(true))),
			dObj("a", dObj("b", dObj("k", dNum("1"))), "xs", dArr(dObj("a", dNum("1"), "b", dNum("2")), dObj("a", dNum("3"), "b", dNull())), "k", dBool(true)),
			dObj("n_1", dStr("x"), "é", dNum("1.5")),
			dNull(),
		} {
			c09Data = append(c09Data, buildAny(render(d, st)))
		}
	}
	for _, data := range c09Data {
		o1 := evalOp(pr.Op, data)
		o2 := evalOp(p2.Op, data)
		c.Extra["roundtrip_evaluations"] = asInt(c.Extra["roundtrip_evaluations"]) + 1
		if o1.Line() != o2.Line() {
			v := mk("evaluation", "the re-parsed operation evaluates differently")
			v.Extra = map[string]string{"sprint": sp, "before": trunc(o1.Line(), 200), "after": trunc(o2.Line(), 200)}
			c.addViolation(v)
			return
		}
	}
}

func evalOp(op mpath.Operation, data any) (out Outcome) {
	ch := make(chan Outcome, 1)
	go func() {
		var o Outcome
		defer func() {
			if r := recover(); r != nil {
				o = Outcome{Class: "PANIC", Msg: fmt.Sprint(r)}
			}
			ch <- o
		}()
		res, err := op.Do(data, data)
		if err != nil {
			if errors.Is(err, mpath.ErrKeyNotFound) {
				o = Outcome{Class: "KNF"}
			} else {
				o = Outcome{Class: "ERR"}
			}
			return
		}
		rv := reflect.ValueOf(res)
		o = Outcome{Class: "ok", Exact: canonV(rv), Logical: logicalV(rv)}
	}()
	select {
	case o := <-ch:
		return o
	case <-time.After(caseTimeout):
		return Outcome{Class: "TIMEOUT"}
	}
}

// corpus of minimised past failures (runs first)
func loadCorpus(name string) []string {
	p := filepath.Join(os.Getenv("MPV_CORPUS_DIR"), name+".json")
	b, err := os.ReadFile(p)
	if err != nil {
		return nil
	}
	var xs []string
	json.Unmarshal(b, &xs)
	return xs
}

// failingAt: an io.ReaderAt that delivers the bytes before failAt and fails on any read that reaches it
type failingAt struct {
	data   []byte
	failAt int
	failed bool
}

func (f *failingAt) ReadAt(p []byte, off int64) (int, error) {
	if int(off) >= len(f.data) {
		return 0, io.EOF
	}
	end := int(off) + len(p)
	if end > len(f.data) {
		end = len(f.data)
	}
	if end > f.failAt {
		f.failed = true
		n := 0
		if int(off) < f.failAt {
			n = copy(p, f.data[off:f.failAt])
		}
		return n, errInjected
	}
	n := copy(p, f.data[off:end])
	if n < len(p) {
		return n, io.EOF
	}
	return n, nil
}
