package main

// C16: CueValidate is a total, deterministic function of its three arguments; its caches are unobservable.
// Every triple is evaluated (a) first in a fresh process, (b) in this process after a random history of other
// validations, (c) repeatedly, (d) under neutral re-spellings that defeat the caches; result trees returned earlier are
// re-marshalled after all later calls. Malformed queries / schemas / steps feed the totality half.

import (
	"bufio"
	"bytes"
	"encoding/json"
	"fmt"
	"os"
	"os/exec"
	"path/filepath"
	"strconv"
	"strings"
	"time"

	"github.com/machship/mpath"
)

type c16Triple struct {
	Q, S, CP string
	cls      string
	model    *cueCase // key-path triples are also given to the Lean model
}

func (o cueOut) canon() string { return o.Line + " | " + o.Errs + " | " + o.JSON }

// canonLoose: the echo of the query text and the pretty-printed query removed (they legitimately change under re-spelling)
func (o cueOut) canonLoose() string {
	var tree any
	if o.JSON == "" || json.Unmarshal([]byte(o.JSON), &tree) != nil {
		return o.Line + " | " + o.JSON
	}
	var strip func(v any) any
	strip = func(v any) any {
		switch t := v.(type) {
		case map[string]any:
			delete(t, "string")
			delete(t, "prettyPrintedString")
			for k, x := range t {
				t[k] = strip(x)
			}
		case []any:
			for i, x := range t {
				t[i] = strip(x)
			}
		}
		return v
	}
	b, _ := json.Marshal(strip(tree))
	return o.Line + " | " + string(b)
}

func init() {
	// mpv cuefresh: one triple on stdin (JSON), its canonical result on stdout: the FIRST call of a fresh process
	commands["cuefresh"] = func(args []string) {
		quietStderr()
		var t struct{ Q, S, CP string }
		if json.NewDecoder(bufio.NewReader(os.Stdin)).Decode(&t) != nil {
			os.Exit(3)
		}
		o := cueValidateGuarded(unhx(t.Q), unhx(t.S), unhx(t.CP)) // hex: the strings need not be valid UTF-8
		b, _ := json.Marshal(map[string]string{"canon": hx(o.canon())})
		os.Stdout.Write(b)
	}
}

func c16Fresh(t c16Triple) (string, bool) {
	in, _ := json.Marshal(map[string]string{"Q": hx(t.Q), "S": hx(t.S), "CP": hx(t.CP)})
	cmd := exec.Command(os.Args[0], "cuefresh")
	cmd.Stdin = bytes.NewReader(in)
	var out bytes.Buffer
	cmd.Stdout = &out
	cmd.Env = append(os.Environ(), "GOMEMLIMIT=2GiB")
	if err := cmd.Start(); err != nil {
		return "", false
	}
	done := make(chan error, 1)
	go func() { done <- cmd.Wait() }()
	select {
	case err := <-done:
		var m map[string]string
		if err != nil || json.Unmarshal(out.Bytes(), &m) != nil {
			return "CRASH", true
		}
		return unhx(m["canon"]), true
	case <-time.After(3 * caseTimeout):
		cmd.Process.Kill()
		return "TIMEOUT", true
	}
}

func c16Triples(c *Ctx, n int) []c16Triple {
	var ts []c16Triple
	r := c.R
	for len(ts) < n {
		switch r.Intn(10) {
		case 0, 1, 2, 3: // key paths on random schemas (also modelled)
			g := &cueGen{r: r}
			root, steps := c13Root(g, 3)
			txt := cueSchemaText(g, root)
			var ps [][]string
			cueDeclaredPaths(root, nil, &ps, 0)
			for k := 0; k < 3 && len(ps) > 0; k++ {
				p := append([]string{}, ps[r.Intn(len(ps))]...)
				if r.Intn(4) == 0 {
					p = append(p, "zz")
				}
				cp := ""
				if r.Intn(2) == 0 {
					cp = steps[r.Intn(len(steps))]
				}
				q := "$." + strings.Join(p, ".")
				ts = append(ts, c16Triple{q, txt, cp, "key-path", &cueCase{S: root, P: p, CP: cp, Dom: true}})
			}
		case 4, 5: // dependency graphs, cycles included
			k := 3 + r.Intn(3)
			var steps []string
			for j := 0; j < k; j++ {
				steps = append(steps, fmt.Sprintf("s%d", j+1))
			}
			edges := map[string][]string{}
			for a := 0; a < k; a++ {
				for b := 0; b < k; b++ {
					if r.Intn(3) == 0 {
						edges[steps[a]] = append(edges[steps[a]], steps[b])
					}
				}
			}
			if r.Intn(6) == 0 {
				edges[steps[0]] = append(edges[steps[0]], "ghost")
			}
			_, txt := c15Schema(steps, edges, []string{"lonely"})
			tgt := append([]string{"input", "lonely"}, steps...)[r.Intn(k+2)]
			for _, pq := range c15Queries(tgt) {
				ts = append(ts, c16Triple{pq[1], txt, steps[r.Intn(k)], "dependency-graph", nil})
			}
		case 6, 7: // function calls and chains
			recvs := c14Receivers()
			rc := recvs[r.Intn(len(recvs))]
			root := &CTy{T: "struct", F: []*CField{{N: "input", M: "reg", Ty: &CTy{T: "struct", F: []*CField{
				{N: "recv", M: "reg", Ty: rc.ty}, {N: "_dependencies", M: "reg", H: 1, Ty: &CTy{T: "deplist", V: []string{}}}}}},
				{N: "top", M: "reg", Ty: rc.ty}}} // the same receiver also as a top-level field: `$.top.First()` has no object-typed field before the call
			txt := cueSchemaText(&cueGen{}, root)
			names := funcNames()
			fns := mpath.ListFunctions()
			q := "$.input.recv"
			if r.Intn(2) == 0 {
				q = "$.top"
			}
			if r.Intn(6) == 0 {
				ts = append(ts, c16Triple{"$.input", txt, "", "function-chain", nil})
			}
			for d := 0; d < 1+r.Intn(3); d++ {
				fn := names[r.Intn(len(names))]
				conf, _ := c14ArgLists(fns[mpath.FT_FunctionType(fn)])
				q += "." + fn + "(" + strings.Join(conf[r.Intn(len(conf))], ",") + ")"
			}
			ts = append(ts, c16Triple{q, txt, "", "function-chain", nil})
			if r.Intn(3) == 0 {
				// what the validator has a message for: an unknown function (alone, followed by a filter, by a key, by a call), a filter
				// right after a call, a call where none can be - every error text must read the same whatever was validated before
				odd := []string{q + ".Nope()", q + ".Nope()[@.x.Greater(1)]", q + ".Nope()[@.x][@.y]", q + ".Nope().k", q + ".Nope().Left(1)", q + "[@.x.Greater(1)]", q + "[@.Nope()]",
					"$.input.recv.Nope()[@.a]", "{$.input.recv.Nope()[@.a]}", "{OR," + q + "}", "$.input.recv.Equal($.input.Nope()[@.b])", "$.input.recv.Equal($.nowhere)", "$.input.recv.Equal({$.nowhere})"}
				for k := 0; k < 3; k++ {
					ts = append(ts, c16Triple{odd[r.Intn(len(odd))], txt, "", "function-chain/messages", nil})
				}
			}
		default: // malformed stream (totality)
			g := &cueGen{r: r}
			root, steps := c13Root(g, 2)
			txt := cueSchemaText(g, root)
			qs := []string{"", " ", "// c", "$", "@", "$.", "$..a", "$.input.", "{", "{OR}", "{AND,$.input}", "$.input[", "$.input[@.a", "$.input.Equal(", "$.input.Equal(NaN)", "$.input?.x", "$.\xff\xfe", "$.input.NoSuch()", "$.input.name.Equal(\"unterminated", strings.Repeat("{", 50), "$.input" + strings.Repeat(".a", 200), randomBytes(r, 1+r.Intn(30)),
				// keys that begin with `_` without being identifiers (a hidden-field selector cannot be made from them)
				"$._a+b", "$.input._a+b", "$.input._é", "$._#x", "$.#x", "$._", "$.__", "$._1", "$.input._a b", "$._a-b",
				// an error deep inside nested groups: the text that reports it must stay proportionate
				strings.Repeat("{", 8) + "$.zzz.Equal(1)" + strings.Repeat("}", 8), strings.Repeat("{", 24) + "$.zzz.Equal(1)" + strings.Repeat("}", 24),
				strings.Repeat("{OR,", 28) + "$.input.Nope()" + strings.Repeat("}", 28), "$.input.Equal(" + strings.Repeat("{", 26) + "$.zzz.Equal(1)" + strings.Repeat("}", 26) + ")"}
			ss := []string{"", " ", "{", "input: {", "input: string | int", "input: null", "#D: {a: #D}\ninput: #D", "input: {a: string}\ninput: {a: int}", "x: y", "input: {_dependencies: [1]}", "input: {_dependencies: \"s\"}", "input: {_dependencies: [\"input\"]}", txt[:len(txt)/2], randomBytes(r, 1+r.Intn(40)), txt}
			cps := []string{"", "input", "nosuchstep", " ", "input.a", steps[r.Intn(len(steps))]}
			q := qs[r.Intn(len(qs))]
			s := ss[r.Intn(len(ss))]
			if r.Intn(3) == 0 {
				s = txt
			}
			if r.Intn(4) == 0 {
				q = "$.input"
			}
			ts = append(ts, c16Triple{q, s, cps[r.Intn(len(cps))], "malformed", nil})
		}
	}
	// every odd key and every deep nesting at least once against a schema that compiles (the validation walk is reached)
	{
		schema := "input: {\n\tname: string\n\t_h: int\n\t\"_q x\": int\n\t_dependencies: []\n}\n"
		for _, q := range []string{"$._a+b", "$.input._a+b", "$.input._é", "$._#x", "$.#x", "$._", "$.__", "$._1", "$.input._a b", "$._a-b", "$.input._h", "$.input._q x", "$.input._h+",
			strings.Repeat("{", 8) + "$.zzz.Equal(1)" + strings.Repeat("}", 8), strings.Repeat("{", 24) + "$.zzz.Equal(1)" + strings.Repeat("}", 24),
			strings.Repeat("{OR,", 28) + "$.input.Nope()" + strings.Repeat("}", 28), "$.input.name.Equal(" + strings.Repeat("{", 26) + "$.zzz.Equal(1)" + strings.Repeat("}", 26) + ")",
			"$.input.name.Equal(" + strings.Repeat("$.input.name.Equal(", 30) + "$.zzz" + strings.Repeat(")", 31)} {
			ts = append(ts, c16Triple{q, schema, "", "malformed/odd-keys-and-deep-nesting", nil})
		}
	}
	// known function names written in another letter case (unknown names as far as the validator goes), each validated more than once
	// and under two schemas: the first validation of a query text must leave nothing behind that changes the later ones
	{
		schemaA := "input: {\n\tname: string\n\tcount: int\n\titems: [...{v: string}]\n\t_dependencies: []\n}\n"
		schemaB := "input: {\n\tname: string\n\tcount: int\n\titems: [...{v: string}]\n\tmore: bool\n\t_dependencies: []\n}\n"
		qs := []string{"$.input.name.isnull()", "$.input.count.LESS(1)", `$.input.name.equal("x")`, "{OR,$.input.name.isnull(),$.input.count.Greater(1)}", "$.input.name.Equal($.input.name.left(1))",
			"$.input.count.aDD(1).Less(2)", `$.input.items[@.v.EQUAL("x")]`, "$.input.items.count()", "$.input.name.IsNull()", `{AND,$.input.name.PREFIX("a"),{$.input.count.less(2)}}`, "$.input.items.FIRST().v"}
		for round := 0; round < 3; round++ {
			for _, q := range qs {
				sc := schemaA
				if round == 1 {
					sc = schemaB
				}
				ts = append(ts, c16Triple{q, sc, "", "function-names-in-another-case", nil})
			}
		}
	}
	// a query and, after it, the text that Sprint makes of it (another spelling of the same structure: a numeral written otherwise, an
	// AND that was left out, blanks): each text has its own answer, the one a fresh process gives
	{
		schema := "input: {\n\tname: string\n\tcount: number\n\titems: [...{v: string, n: number}]\n\t_dependencies: []\n}\n"
		for _, q := range []string{"$.input.count.Less(2.50)", "$.input.count.Equal(007)", "{$.input.name.IsNull()}", "$.input.items[@.n.Greater(1.0)].Count().Less(1e1)", "{OR,$.input.count.Less(1.50),{$.input.name.IsNull()}}",
			"$.input.count.Add(1 2)", `$.input.name.Equal("a" ; )`} {
			ts = append(ts, c16Triple{q, schema, "", "query-then-its-printed-form", nil})
			if op, err := mpath.ParseString(q); err == nil && op != nil {
				ts = append(ts, c16Triple{op.Sprint(0), schema, "", "query-then-its-printed-form", nil})
				ts = append(ts, c16Triple{q, schema, "", "query-then-its-printed-form", nil})
			}
		}
	}
	// arguments of another kind than the descriptor declares (a number where a text is wanted, a list where one value is wanted, a
	// group where a number is wanted), misspelt group operators, filters on values that are not lists: every message the validator
	// has for them, each asked twice in a row and after the others
	{
		schema := "input: {\n\tname: string\n\tcount: number\n\tok: bool\n\titems: [...{v: string, n: number}]\n\ttags: [...string]\n\t_dependencies: []\n}\n"
		for _, q := range []string{"$.input.name.Contains($.input.count)", "$.input.name.Contains($.input.tags)", "$.input.count.Add($.input.name)", "$.input.count.Add({$.input.ok})", "$.input.name.Left($.input.ok)",
			"$.input.count.Less($.input.items)", "$.input.name.AnyOf($.input.count,$.input.ok,$.input.tags)", "$.input.tags.Index($.input.name)", "$.input.name.ReplaceAll($.input.count,1)", "$.input.name.Equal(1)",
			"{XOR,$.input.ok}", "{NOT,$.input.ok,$.input.ok}", "{and,$.input.ok}", "$.input.items[XOR,@.n.Less(1)]", "$.input.name.Equal({XOR,$.input.ok})", "$.input.name[@.v.IsNull()]", "$.input.count[@.IsNull()]",
			"$.input[@.name.IsNull()]", "$.input.items.First()[@.v.IsNull()]", "$.input.items.Count()[@.IsNull()]", "$.input.ok.Not().Not($.input.ok)", "$.input.name.Sprintf($.input.items)"} {
			ts = append(ts, c16Triple{q, schema, "", "function-arguments-of-another-kind", nil}, c16Triple{q, schema, "input", "function-arguments-of-another-kind", nil})
		}
	}
	// step ids that contain a dot next to nested fields of the same spelling: `"job.out"` (one root field) and `job: {out: ..}`
	for i := 0; i < 3; i++ {
		schema := fmt.Sprintf("fetch: {r: string, _dependencies: []}\n\"job.out\": {r: string, n%d: int, _dependencies: [\"fetch\"]}\njob: {out: {r: int}, _dependencies: []}\n\"a.b.c\": {v: bool, _dependencies: [\"job.out\"]}\na: {b: {c: {v: string}}, _dependencies: []}\n", i)
		seq := [][2]string{{"$.job.out.r", ""}, {"$.fetch.r", "job.out"}, {"$.job.out.r", "job.out"}, {"$.a.b.c.v", ""}, {"$.fetch.r", "a.b.c"}, {"$.a.b.c.v", "a.b.c"}, {"$.job.out.r", "a.b.c"}, {"$.job.out.r", "fetch"}}
		if i == 1 { // the other order
			for l, r2 := 0, len(seq)-1; l < r2; l, r2 = l+1, r2-1 {
				seq[l], seq[r2] = seq[r2], seq[l]
			}
		}
		for _, qc := range seq {
			ts = append(ts, c16Triple{qc[0], schema, qc[1], "dotted-step-ids", nil})
		}
	}
	// several dependencies that cannot be resolved, reachable from the current step: whichever is reported, it is the same one every time
	{
		schema := "input: {\n\tname: string\n\t_dependencies: []\n}\nprepare: {\n\tout: string\n\t_dependencies: [\"goneA\", \"goneB\"]\n}\nfetch: {\n\tout: string\n\t_dependencies: [\"removedEarlier\", \"prepare\", \"removedLater\", \"alsoGone\"]\n}\nreport: {\n\tout: string\n\t_dependencies: [\"fetch\"]\n}\n"
		for rep := 0; rep < 6; rep++ {
			for _, cp := range []string{"fetch", "report", "prepare"} {
				ts = append(ts, c16Triple{"$.input.name", schema, cp, "several-broken-dependencies", nil}, c16Triple{"$.fetch.out", schema, cp, "several-broken-dependencies", nil})
			}
		}
	}
	// schemas that declare HIDDEN DEFINITIONS (`_#name`), at the root, inside a step and inside the element of a list: every struct whose
	// fields get listed
	{
		schema := "_#unit: \"kg\" | \"lb\"\n_#address: {street: string}\n#Pub: {x: int}\ninput: {\n\tname: string\n\t_#inner: {v: string}\n\taddr: _#address\n\tunit: _#unit\n\trows: [...{v: string, _#el: int, w: #Pub}]\n\t_dependencies: []\n}\nstep1: {\n\tout: string\n\t_#t: bool\n\t_dependencies: [\"input\"]\n}\n"
		for _, qc := range [][2]string{{"$.input.name", ""}, {"$.input", ""}, {"$.input.addr.street", ""}, {"$.input.unit", "step1"}, {"$.input.rows[@.v.Equal(\"x\")]", ""}, {"$.input.rows.First().w.x", "step1"}, {"$.step1.out", ""},
			{"$.input.rows.Count()", "step1"}, {"{AND,$.input.name.IsNull()}", ""}, {"$", ""}, {"$.input.nosuch", ""}, {"$.input._#inner", ""}} {
			ts = append(ts, c16Triple{qc[0], schema, qc[1], "hidden-definitions", nil}, c16Triple{qc[0], schema, qc[1], "hidden-definitions", nil})
		}
	}
	// literals that hold an escaped backslash in front of a letter that has an escape of its own (`"C:\\temp"`): each text has one
	// answer, the one a fresh process gives, however often and in whatever order the query is parsed
	{
		schema := "input: {\n\tname: string\n\tpath: string\n\t_dependencies: []\n}\n"
		for _, lit := range []string{`C:\\temp`, `\\n`, `a\\tb\\nc`, `\\\\a`, `x\\"y`, `\\r\\v\\f\\b\\a`, `dir\\new\\table`, `\\t`, `\\\\n\\\\t`, `q\\nq\\tq`} {
			for _, fn := range []string{"Equal", "Contains", "Suffix"} {
				q := "$.input.name." + fn + "(\"" + lit + "\")"
				ts = append(ts, c16Triple{q, schema, "", "escaped-backslash-literals", nil}, c16Triple{q + " ", schema, "", "escaped-backslash-literals", nil})
			}
		}
	}
	// query texts that differ in white space only where white space MATTERS (a line break that ends a comment against a blank that
	// does not, blanks inside a literal, a line break inside a block comment): each text has its own answer, in either order
	{
		schema := "input: {\n\tname: string\n\tok: bool\n\t_dependencies: []\n}\nstep1: {\n\tresult: string\n\t_dependencies: [\"input\"]\n}\n"
		pairs := [][2]string{
			{"$.step1.result // c\n.nope", "$.step1.result // c .nope"},
			{"$.input.name.Equal(\"a  b\")", "$.input.name.Equal(\"a b\")"},
			{"$.input.name.Equal(\"a\tb\")", "$.input.name.Equal(\"a b\")"},
			{"$.input // x\n.name", "$.input // x\t.name"},
			{"$.input.name.AnyOf(\"x\", \" \")", "$.input.name.AnyOf(\"x\", \"  \")"},
			{"{AND,$.input.ok // k\n,$.input.nosuch\n}", "{AND,$.input.ok // k ,$.input.nosuch\n}"},
			{"$.input.name.Left(1)  // t\n.Equal(\"a\")", "$.input.name.Left(1) // t .Equal(\"a\")"},
		}
		for rep := 0; rep < 2; rep++ {
			for _, pr := range pairs {
				a, b := pr[0], pr[1]
				if rep == 1 {
					a, b = b+" ", a+" "
				}
				ts = append(ts, c16Triple{a, schema, "", "texts-that-differ-in-white-space", nil}, c16Triple{b, schema, "", "texts-that-differ-in-white-space", nil},
					c16Triple{a, schema, "step1", "texts-that-differ-in-white-space", nil}, c16Triple{b, schema, "step1", "texts-that-differ-in-white-space", nil})
			}
		}
	}
	// the same query text validated in several contexts - a schema in which a path argument of a call fails (its filter is applied to an
	// object), a current step for which a field read inside the argument is blocked, and the good context again: what the cached
	// operation keeps from one validation must not show in the next, and trees returned earlier stay what they were
	{
		good := "input: {\n\tstatus: string\n\t_dependencies: []\n}\nsettings: {\n\tcodes: [...{code: string, active: bool}]\n\tlimit: number\n\t_dependencies: []\n}\nother: {\n\tflag: bool\n\t_dependencies: [\"settings\"]\n}\nlone: {\n\tv: string\n\t_dependencies: []\n}\n"
		bad := strings.Replace(good, "codes: [...{code: string, active: bool}]", "codes: {code: string, active: bool}", 1)
		qs := []string{`$.input.status.AnyOf($.settings.codes[@.active].First().code,"open","held")`, `$.input.status.AnyOf($.settings.codes[@.active.Equal($.other.flag)].First().code,"open","held")`,
			`$.input.status.Sprintf($.settings.codes[@.active].Count(),"a",1,true)`, `{OR,$.input.status.AnyOf($.settings.codes[@.active].Last().code,"x"),$.input.status.Equal("y")}`,
			`$.settings.limit.Sum($.settings.codes[@.active].Count(),1,2)`, `$.input.status.AnyOf("first",$.settings.codes[@.active].First().code,"last")`}
		for rep := 0; rep < 2; rep++ {
			for _, q := range qs {
				for _, cx := range [][2]string{{good, ""}, {bad, ""}, {good, "lone"}, {good, "other"}, {good, ""}, {bad, "lone"}} {
					ts = append(ts, c16Triple{q, cx[0], cx[1], "same-query-across-contexts", nil})
				}
			}
		}
	}
	// First / Last / Index on a TOP-LEVEL list of structs next to queries that address a struct-typed field: both reach the
	// "functions offered for (Object, Single)" computation, one with and one without the element's schema expression
	for i := 0; i < 6 && len(ts) > 12; i++ {
		schema := fmt.Sprintf("orders: [...{id: string, n%d: number}]\ninput: {name: string, ok: bool, _dependencies: []}\n", i)
		qs := []string{"$.orders.First()", "$.input", "$.orders.Last().id", "$.input.name", "$.orders.Index(0)", "$.orders"}
		for j, q := range qs {
			ts[(i*len(qs)+j)%n] = c16Triple{q, schema, "", "offered-functions", nil}
		}
	}
	return ts
}

func randomBytes(r *rng, n int) string {
	b := make([]byte, n)
	for i := range b {
		b[i] = byte(r.Intn(256))
	}
	return string(b)
}

func genC16(c *Ctx) {
	c.Rule = "triples (query, schema, current step) of four classes - key paths on random schemas, dependency graphs with cycles and dangling names (blocked field at the head / in a filter / argument / group), function calls and chains (also with unknown functions followed by filters, keys and calls, filters right after calls, unknown root fields inside arguments: everything the validator has an error text for), and a malformed stream (empty, unterminated, non-UTF-8 and random-byte queries; schemas that do not compile, are truncated, contradictory, recursive or have ill-typed _dependencies; unknown steps) - each evaluated (a) as the first call of a fresh process, (b) in the long-running process after a random history of other validations, (c) twice in a row, (d) with trailing whitespace/comment added to the query and to the schema (different cache keys; compared after removing the echoed query text); every result tree returned earlier is marshalled again after all later calls. Oracle: all observations of one triple are identical after removing the random ids; no panic, no hang, never (nil, nil). distinct = distinct (class, verdict)"
	n := c.scale(900, 9000)
	ts := c16Triples(c, n)
	type kept struct {
		tc    mpath.CanBeAPart
		canon string
		t     c16Triple
	}
	var keep []kept
	viol := func(t c16Triple, kind, why, a, b string) {
		c.addViolation(Violation{Kind: "relational", Query: t.Q, QueryHex: hx(t.Q), Expected: trunc(a, 400), Got: trunc(b, 400), Why: why, Cls: t.cls,
			Key: "c16:" + kind + ":" + t.cls, Extra: map[string]any{"schema": t.S, "current_step": t.CP}})
	}
	// shuffled order = the history
	order := make([]int, len(ts))
	for i := range order {
		order[i] = i
	}
	for i := len(order) - 1; i > 0; i-- {
		j := c.R.Intn(i + 1)
		order[i], order[j] = order[j], order[i]
	}
	fresh := 0
	for _, idx := range order {
		t := ts[idx]
		o := cueValidateGuarded(t.Q, t.S, t.CP)
		var line []byte
		if t.model != nil {
			line, _ = json.Marshal(t.model)
		} else {
			line, _ = json.Marshal(map[string]any{"pos": "unmodelled", "q": hx(t.Q), "dom": false})
		}
		c.Record(line, o.Line, t.cls, true, t.cls, o.Line, map[string]any{"query": t.Q, "current_step": t.CP, "schema": trunc(t.S, 300), "impl": o.Line, "class": t.cls})
		switch o.Line {
		case "PANIC", "TIMEOUT", "NEITHER":
			c.addViolation(Violation{Kind: "panic", Query: t.Q, QueryHex: hx(t.Q), Got: o.Line, Why: "CueValidate did not return a result or an error: " + o.Line + " " + trunc(o.Errs, 160), Cls: t.cls,
				Key: "c16:total:" + o.Line, Extra: map[string]any{"schema": t.S, "current_step": t.CP}})
			continue
		}
		// (c) repeated
		o2 := cueValidateGuarded(t.Q, t.S, t.CP)
		if o2.canon() != o.canon() {
			viol(t, "repeat", "the same call gives a different result the second time", o.canon(), o2.canon())
		}
		// (d) neutral re-spellings
		if !strings.ContainsAny(t.Q, "\"") && t.Q != "" && t.cls != "malformed" {
			o3 := cueValidateGuarded(t.Q+" ", t.S, t.CP)
			if o3.canonLoose() != o.canonLoose() {
				viol(t, "respell-query", "a trailing space in the query changes the result", o.canonLoose(), o3.canonLoose())
			}
			o4 := cueValidateGuarded(t.Q, t.S+"\n// neutral comment\n", t.CP)
			if o4.canonLoose() != o.canonLoose() {
				viol(t, "respell-schema", "a trailing comment in the schema changes the result", o.canonLoose(), o4.canonLoose())
			}
		}
		// (a) fresh process (every triple in quick; sampled in thorough to bound process spawns)
		if !c.thorough() || c.R.Intn(3) == 0 {
			if f, ok := c16Fresh(t); ok {
				fresh++
				if f != o.canon() {
					viol(t, "fresh", "the first call of a fresh process gives a different result than the call after a history", f, o.canon())
				}
			}
		}
		// keep the tree for the re-marshal check
		if tc, err := safeValidate(t); tc != nil && err == nil {
			keep = append(keep, kept{tc, marshalNoIDs(tc), t})
		}
	}
	for _, k := range keep {
		if again := marshalNoIDs(k.tc); again != k.canon {
			viol(k.t, "altered", "a result returned earlier marshals differently after later calls", k.canon, again)
		}
	}
	// fields declared as the closed empty list (`tags: []`): there is no element type to look at
	{
		schema := "input: {\n\tname: string\n\ttags: []\n\trows: [...{labels: [], v: string}]\n\t_dependencies: []\n}\nstep1: {\n\tresult: {none: [], some: [...string]}\n\t_dependencies: []\n}\n"
		for _, qc := range [][2]string{{"$.step1.result.some", ""}, {"$.input.rows", "step1"}, {"$.input.tags", ""}, {"$.input.tags.Count()", "step1"}, {"$.step1.result.none", ""}, {"$.input._dependencies", "step1"},
			{"$.input.rows[@.labels.Any()]", "step1"}, {"{AND,$.input.tags.Any(),$.input.name.Equal(\"x\")}", ""}, {"$.input.tags.First()", ""}, {"$.input.tags.zz", ""}, {"$.input.rows.First().labels", ""}} {
			t := c16Triple{qc[0], schema, qc[1], "closed-empty-lists", nil}
			o := cueValidateGuarded(t.Q, t.S, t.CP)
			line, _ := json.Marshal(map[string]any{"pos": "unmodelled", "q": hx(t.Q), "dom": false})
			c.Record(line, o.Line, t.cls, true, t.cls, o.Line, map[string]any{"query": t.Q, "current_step": t.CP, "schema": trunc(t.S, 300), "impl": o.Line, "class": t.cls})
			switch o.Line {
			case "PANIC", "TIMEOUT", "NEITHER":
				c.addViolation(Violation{Kind: "panic", Query: t.Q, QueryHex: hx(t.Q), Got: o.Line, Why: "CueValidate did not return a result or an error: " + o.Line + " " + trunc(o.Errs, 160), Cls: t.cls,
					Key: "c16:total:" + o.Line, Extra: map[string]any{"schema": t.S, "current_step": t.CP}})
				continue
			}
			if o2 := cueValidateGuarded(t.Q, t.S, t.CP); o2.canon() != o.canon() {
				viol(t, "repeat", "the same call gives a different result the second time", o.canon(), o2.canon())
			}
		}
	}
	// calls whose argument is a group whose member is a call whose argument is a group ...: the text that reports an error found at the
	// bottom must stay proportionate to the query (validated last: a call that does not return keeps the package mutex)
	{
		schema := "input: {\n\tname: string\n\t_dependencies: []\n}\n"
		for _, depth := range []int{6, 12, 18, 24} {
			q := strings.Repeat("$.input.name.AnyOf({", depth) + "$.zzz.Equal(1)" + strings.Repeat("})", depth)
			t := c16Triple{q, schema, "", "calls-and-groups-nested-in-turn", nil}
			o := cueValidateGuarded(t.Q, t.S, t.CP)
			line, _ := json.Marshal(map[string]any{"pos": "unmodelled", "q": hx(t.Q), "dom": false})
			c.Record(line, o.Line, t.cls, true, t.cls, o.Line, map[string]any{"query": trunc(t.Q, 200), "current_step": t.CP, "schema": t.S, "impl": o.Line, "class": t.cls})
			if o.Line == "PANIC" || o.Line == "TIMEOUT" || o.Line == "NEITHER" {
				c.addViolation(Violation{Kind: "panic", Query: t.Q, QueryHex: hx(t.Q), Got: o.Line, Why: "CueValidate did not return a result or an error: " + o.Line + " " + trunc(o.Errs, 160), Cls: t.cls,
					Key: "c16:total:" + o.Line, Extra: map[string]any{"schema": t.S, "current_step": t.CP, "nesting_depth": depth}})
				break
			}
		}
	}
	c.Extra["fresh_process_comparisons"] = fresh
	c.Extra["kept_trees_remarshalled"] = len(keep)
}

func safeValidate(t c16Triple) (tc mpath.CanBeAPart, err error) {
	defer func() {
		if r := recover(); r != nil {
			tc, err = nil, fmt.Errorf("panic")
		}
	}()
	tc, err = mpath.CueValidate(t.Q, t.S, t.CP)
	if tc != nil && isNilIface(tc) {
		return nil, err
	}
	return tc, nil
}

func marshalNoIDs(tc mpath.CanBeAPart) string {
	b, err := json.Marshal(tc)
	if err != nil {
		return "marshal error"
	}
	var tree any
	if json.Unmarshal(b, &tree) != nil {
		return "unmarshal error"
	}
	nb, _ := json.Marshal(stripIDs(tree))
	return string(nb)
}

// ---------- search for two texts that the caches take for one another ----------
//
// `mpv collide <outdir> <nQueries> <nSchemas>`: used by the orchestrator as the search for a failing input when the proof
// obligations about the caches (keyed by the texts themselves, values functions of their keys) no longer check. Texts of two
// kinds that differ in a trailing comment only are validated in one process; every answer must be the answer of its kind.
// A cache keyed by anything shorter than the text (a 32-bit hash, a prefix, a length) confuses two of them sooner or later.

func init() {
	commands["collide"] = func(args []string) {
		quietStderr()
		dir := args[0]
		nq, _ := strconv.Atoi(args[1])
		ns, _ := strconv.Atoi(args[2])
		os.MkdirAll(dir, 0o755)
		schema := func(ty string, tail string) string {
			return "input: {\n\tamount: " + ty + "\n\tname: string\n\t_dependencies: []\n}\n" + tail
		}
		type hit struct {
			Kind, Text, Schema, Want, Got string
			Index                         int
		}
		var hits []hit
		// queries: `$.input.amount // i` (a number) and `$.input.name // i` (a string) against one schema
		base := schema("number", "")
		qk := []string{"$.input.amount", "$.input.name"}
		want := []string{cueValidateOnce(qk[0]+" ", base, "").canonLoose(), cueValidateOnce(qk[1]+" ", base, "").canonLoose()}
		x := uint64(12345)
		next := func() uint64 { // texts that differ in a counter alone are too regular for a weak hash to confuse: add noise
			x = x*6364136223846793005 + 1442695040888963407
			return x >> 20
		}
		for i := 0; i < nq && len(hits) < 3; i++ {
			q := fmt.Sprintf("%s // %x %d", qk[i%2], next(), i)
			if got := cueValidateOnce(q, base, "").canonLoose(); got != want[i%2] {
				hits = append(hits, hit{"query", q, base, want[i%2], got, i})
			}
		}
		// schemas: `amount: number ... // revision i` and `amount: string ... // revision i`, one query
		q := "$.input.amount.Greater(1)"
		sw := []string{cueValidateOnce(q, schema("number", "// r\n"), "").canonLoose(), cueValidateOnce(q, schema("string", "// r\n"), "").canonLoose()}
		for i := 0; i < ns && len(hits) < 6; i++ {
			s := schema([]string{"number", "string"}[i%2], fmt.Sprintf("// revision %x %d\n", next(), i))
			if got := cueValidateOnce(q, s, "").canonLoose(); got != sw[i%2] {
				hits = append(hits, hit{"schema", q, s, sw[i%2], got, i})
			}
		}
		b, _ := json.MarshalIndent(map[string]any{"queries": nq, "schemas": ns, "hits": hits,
			"history": "texts `<kind> // <noise(i)> i` for i = 0..index (noise from the fixed generator in gen_c16.go) validated in this order in one process (kinds alternate); the text at `index` got the answer of an earlier text of the other kind"}, "", " ")
		os.WriteFile(filepath.Join(dir, "collide.json"), b, 0o644)
	}
}
