package main

func genC16(c *Ctx) {}
