package main

// C04: arithmetic is exact decimal arithmetic. Ground truth is math/big.Rat computed here from the operand
// specifications (coefficient × 10^exponent); neither shopspring/decimal nor mpath takes part in the expectation.
// Add, Subtract, Multiply, Modulo, Sum, Minimum, Maximum: exact. Divide, Average: |got − exact| ≤ 5·10⁻¹⁷.
// (The c04Num helpers are also used by gen_c05.go.)

import (
	"fmt"
	"github.com/machship/mpath"
	"github.com/shopspring/decimal"
	"math/big"
	"strconv"
	"strings"
)

func init() { evalGens["C04"] = genC04 }

// ---------- operand specifications ----------

// c04Num is a finite decimal coef × 10^exp; the pair (not only the value) is kept so that 10, 10.00 and 1e3 differ in scale.
type c04Num struct {
	coef *big.Int
	exp  int
}

func c04N(coef int64, exp int) c04Num { return c04Num{big.NewInt(coef), exp} }

// c04Parse reads "10.00", "-0.5", "1e3", "1.5e-9" keeping the written scale.
func c04Parse(s string) c04Num {
	exp := 0
	if i := strings.IndexAny(s, "eE"); i >= 0 {
		e, err := strconv.Atoi(s[i+1:])
		if err != nil {
			panic("c04Parse " + s)
		}
		exp = e
		s = s[:i]
	}
	if i := strings.IndexByte(s, '.'); i >= 0 {
		exp -= len(s) - i - 1
		s = s[:i] + s[i+1:]
	}
	co, ok := new(big.Int).SetString(s, 10)
	if !ok {
		panic("c04Parse " + s)
	}
	return c04Num{co, exp}
}

func c04Pow10(k int) *big.Int { return new(big.Int).Exp(big.NewInt(10), big.NewInt(int64(k)), nil) }

func (n c04Num) rat() *big.Rat {
	r := new(big.Rat).SetInt(n.coef)
	if n.exp >= 0 {
		return r.Mul(r, new(big.Rat).SetInt(c04Pow10(n.exp)))
	}
	return r.Quo(r, new(big.Rat).SetInt(c04Pow10(-n.exp)))
}

func (n c04Num) isZero() bool { return n.coef.Sign() == 0 }
func (n c04Num) neg() bool    { return n.coef.Sign() < 0 }

// whole: the value as an integer, when it is one
func (n c04Num) whole() (*big.Int, bool) {
	r := n.rat()
	if !r.IsInt() {
		return nil, false
	}
	return new(big.Int).Set(r.Num()), true
}

// norm: the same value with no trailing zeros in the coefficient (zero is 0e0)
func (n c04Num) norm() c04Num {
	if n.isZero() {
		return c04N(0, 0)
	}
	co, e := new(big.Int).Set(n.coef), n.exp
	ten, m := big.NewInt(10), new(big.Int)
	for {
		q, r := new(big.Int).QuoRem(co, ten, m)
		if r.Sign() != 0 {
			break
		}
		co, e = q, e+1
	}
	return c04Num{co, e}
}

// sigDigits: number of significant digits of the value
func (n c04Num) sigDigits() int { return len(new(big.Int).Abs(n.norm().coef).String()) }

// rescale: the same value with k more fractional digits
func (n c04Num) rescale(k int) c04Num {
	return c04Num{new(big.Int).Mul(n.coef, c04Pow10(k)), n.exp - k}
}

// plain: positional notation showing exactly the written scale ("10.00", "1000", "0.000000001", "-0.5")
func (n c04Num) plain() string {
	ds := new(big.Int).Abs(n.coef).String()
	sign := ""
	if n.neg() {
		sign = "-"
	}
	switch {
	case n.exp >= 0:
		if ds != "0" {
			ds += strings.Repeat("0", n.exp)
		}
		return sign + ds
	default:
		k := -n.exp
		if len(ds) <= k {
			ds = strings.Repeat("0", k-len(ds)+1) + ds
		}
		return sign + ds[:len(ds)-k] + "." + ds[len(ds)-k:]
	}
}

// expForm: "<coef>e<exp>"
func (n c04Num) expForm() string { return n.coef.String() + "e" + strconv.Itoa(n.exp) }

// sci: "d.ddde<k>" (one digit before the point)
func (n c04Num) sci(upper bool) string {
	ds := new(big.Int).Abs(n.coef).String()
	sign := ""
	if n.neg() {
		sign = "-"
	}
	k := n.exp + len(ds) - 1
	m := ds[:1]
	if len(ds) > 1 {
		m += "." + ds[1:]
	}
	e := "e"
	ks := strconv.Itoa(k)
	if upper {
		e = "E"
		if k >= 0 {
			ks = "+" + ks
		}
	}
	return sign + m + e + ks
}

// lit: the i-th literal spelling (all denote the same value; none starts or ends with '.')
func (n c04Num) lit(i int) string {
	switch i % 8 {
	case 5: // a leading zero (a decimal numeral all the same: 0700 is seven hundred)
		p := n.plain()
		if strings.HasPrefix(p, "-") {
			return "-0" + p[1:]
		}
		return "0" + p
	case 6: // two leading zeros and, for whole numbers of two or more digits, a digit separator
		p, sign := n.plain(), ""
		if strings.HasPrefix(p, "-") {
			p, sign = p[1:], "-"
		}
		if !strings.Contains(p, ".") && len(p) >= 2 {
			return sign + "00" + p[:1] + "_" + p[1:]
		}
		return sign + "00" + p
	case 7: // a digit separator in the whole part
		p, sign := n.plain(), ""
		if strings.HasPrefix(p, "-") {
			p, sign = p[1:], "-"
		}
		if w := strings.IndexByte(p+".", '.'); w >= 2 {
			return sign + p[:w-1] + "_" + p[w-1:]
		}
		return sign + p
	case 0:
		return n.plain()
	case 1:
		return n.expForm()
	case 2:
		return n.sci(false)
	case 3: // one more trailing zero
		p := n.plain()
		if strings.Contains(p, ".") {
			return p + "0"
		}
		return p + ".0"
	default:
		return n.sci(true)
	}
}

// str: the i-th numeral-string spelling (what decimal.NewFromString reads as the same value)
func (n c04Num) str(i int) string {
	switch i % 7 {
	case 0, 1:
		return n.plain()
	case 2:
		return n.expForm()
	case 3:
		return n.sci(false)
	case 4: // leading zero: "0123", "-00.5"
		p := n.plain()
		if strings.HasPrefix(p, "-") {
			return "-0" + p[1:]
		}
		return "0" + p
	case 5: // trailing zero
		p := n.plain()
		if strings.Contains(p, ".") {
			return p + "0"
		}
		return p + ".0"
	default:
		return n.sci(true)
	}
}

// ---------- carriers ----------

var c04IntRanges = map[string][2]string{
	"int": {"-9223372036854775808", "9223372036854775807"}, "int64": {"-9223372036854775808", "9223372036854775807"},
	"int32": {"-2147483648", "2147483647"}, "int16": {"-32768", "32767"}, "int8": {"-128", "127"},
	"uint": {"0", "18446744073709551615"}, "uint64": {"0", "18446744073709551615"},
	"uint32": {"0", "4294967295"}, "uint16": {"0", "65535"}, "uint8": {"0", "255"},
}

func c04Fits(w *big.Int, kind string) bool {
	rg := c04IntRanges[kind]
	lo, _ := new(big.Int).SetString(rg[0], 10)
	hi, _ := new(big.Int).SetString(rg[1], 10)
	return w.Cmp(lo) >= 0 && w.Cmp(hi) <= 0
}

// c04F64: the float64 carrier, only when the float64 prints (shortest digits) as exactly this value
func c04F64(n c04Num) (float64, bool) {
	f, err := strconv.ParseFloat(n.expForm(), 64)
	if err != nil {
		return 0, false
	}
	back, ok := new(big.Rat).SetString(strconv.FormatFloat(f, 'e', -1, 64))
	if !ok || back.Cmp(n.rat()) != 0 {
		return 0, false
	}
	return f, true
}

func c04Dec(n c04Num) *TV { return &TV{T: "dec", C: n.coef.String(), E: strconv.Itoa(n.exp)} }

var c04CarrierNames = []string{"f64", "dec", "int", "int64", "int32", "int16", "int8", "uint", "uint64", "uint32", "uint16", "uint8",
	"named-int", "named-uint", "named-f64", "ptr-int", "ptr-f64", "ptr-dec", "dec-rescaled"}

// c04Carry renders n in the named Go carrier; nil when that carrier cannot hold the value exactly.
func c04Carry(n c04Num, carrier string) *TV {
	w, isWhole := n.whole()
	intOf := func(kind string, named int) *TV {
		if !isWhole || !c04Fits(w, kind) {
			return nil
		}
		t := tvInt(kind, w.String())
		t.N = named
		return t
	}
	switch carrier {
	case "f64", "named-f64", "ptr-f64":
		f, ok := c04F64(n)
		if !ok {
			return nil
		}
		t := tvF64(f)
		switch carrier {
		case "named-f64":
			t.N = 1
		case "ptr-f64":
			return tvPtr(t)
		}
		return t
	case "dec":
		return c04Dec(n)
	case "dec-rescaled":
		return c04Dec(n.rescale(3))
	case "ptr-dec":
		return tvPtr(c04Dec(n))
	case "named-int":
		return intOf("int64", 1)
	case "named-uint":
		return intOf("uint16", 1)
	case "ptr-int":
		if t := intOf("int", 0); t != nil {
			return tvPtr(t)
		}
		return nil
	}
	return intOf(carrier, 0)
}

// c04Carriers: every carrier that holds n exactly, with its name
func c04Carriers(n c04Num) (names []string, tvs []*TV) {
	for _, k := range c04CarrierNames {
		if t := c04Carry(n, k); t != nil {
			names = append(names, k)
			tvs = append(tvs, t)
		}
	}
	return
}

// c04Pick: a carrier for n chosen by index i (cycling through the applicable ones)
func c04Pick(n c04Num, i int) *TV {
	_, tvs := c04Carriers(n)
	return tvs[i%len(tvs)]
}

func c04Rand(n c04Num, r *rng) *TV {
	_, tvs := c04Carriers(n)
	return tvs[r.Intn(len(tvs))]
}

// ---------- ground truth ----------

var c04Binary = []string{"Add", "Subtract", "Multiply", "Divide", "Modulo"}
var c04Aggr = []string{"Sum", "Average", "Minimum", "Maximum"}
var c04Tol = new(big.Rat).SetFrac(big.NewInt(5), c04Pow10(17)) // 5·10⁻¹⁷

// c04BinExact: the exact value of a fn b (Divide: the exact quotient); ok=false for a zero divisor
func c04BinExact(fn string, a, b *big.Rat) (*big.Rat, bool) {
	switch fn {
	case "Add":
		return new(big.Rat).Add(a, b), true
	case "Subtract":
		return new(big.Rat).Sub(a, b), true
	case "Multiply":
		return new(big.Rat).Mul(a, b), true
	case "Divide":
		if b.Sign() == 0 {
			return nil, false
		}
		return new(big.Rat).Quo(a, b), true
	case "Modulo": // a − b·trunc(a/b)
		if b.Sign() == 0 {
			return nil, false
		}
		q := new(big.Rat).Quo(a, b)
		t := new(big.Int).Quo(q.Num(), q.Denom()) // big.Int.Quo truncates towards zero
		return new(big.Rat).Sub(a, new(big.Rat).Mul(b, new(big.Rat).SetInt(t))), true
	}
	panic("c04BinExact " + fn)
}

// c04AggExact: Sum / Average (exact quotient) / Minimum / Maximum of xs; the empty collection gives 0
func c04AggExact(fn string, xs []*big.Rat) *big.Rat {
	if len(xs) == 0 {
		return new(big.Rat)
	}
	acc := new(big.Rat).Set(xs[0])
	for _, x := range xs[1:] {
		switch fn {
		case "Sum", "Average":
			acc.Add(acc, x)
		case "Minimum":
			if x.Cmp(acc) < 0 {
				acc.Set(x)
			}
		case "Maximum":
			if x.Cmp(acc) > 0 {
				acc.Set(x)
			}
		}
	}
	if fn == "Average" {
		acc.Quo(acc, new(big.Rat).SetInt64(int64(len(xs))))
	}
	return acc
}

// c04Exact2: any of the nine functions on the two operands a (receiver) and b; nil for a zero divisor
func c04Exact2(fn string, a, b *big.Rat) *big.Rat {
	switch fn {
	case "Sum", "Average", "Minimum", "Maximum":
		return c04AggExact(fn, []*big.Rat{a, b})
	}
	x, _ := c04BinExact(fn, a, b)
	return x
}

func c04IsApprox(fn string) bool { return fn == "Divide" || fn == "Average" }

// c04Check runs one case. Exact functions use the harness' own logical expectation; Divide and Average are run
// without one and the returned decimal is compared with the exact quotient here (tolerance 5·10⁻¹⁷).
func c04Check(c *Ctx, fn, q string, d *TV, exact *big.Rat, cls string) {
	c04CheckDom(c, fn, q, d, exact, cls, true)
}

func c04CheckDom(c *Ctx, fn, q string, d *TV, exact *big.Rat, cls string, inDomain bool) {
	if exact == nil { // zero divisor: outside the quantifier, the specification says the call fails
		c.Do(Case{Q: q, D: d, XK: "logical", X: "ERR", Cls: "out-of-domain/zero-divisor/" + strings.SplitN(cls, "/", 2)[0], InDomain: false})
		return
	}
	if !c04IsApprox(fn) {
		c.Do(Case{Q: q, D: d, XK: "logical", X: "n:" + exact.RatString(), Cls: cls, InDomain: inDomain})
		return
	}
	o := c.Do(Case{Q: q, D: d, XK: "", Cls: cls, InDomain: inDomain})
	switch o.Class {
	case "PANIC", "PARSE-PANIC", "CRASH", "TIMEOUT", "NEITHER":
		return // already reported by the generic oracles
	}
	want := "n:" + exact.RatString() + " ± 5e-17"
	bad := func(got, why string) {
		c.addViolation(Violation{Kind: "oracle", Query: q, QueryHex: hx(q), Data: d, Expected: want, Got: got, Why: why, Cls: cls})
	}
	if o.Class != "ok" {
		bad(o.Class, fn+" of finite operands with a non-zero divisor must succeed: "+trunc(o.Msg, 120))
		return
	}
	if o.ErrData {
		return
	}
	if !strings.HasPrefix(o.Logical, "n:") {
		bad(o.Logical, fn+" did not return a number")
		return
	}
	got, ok := new(big.Rat).SetString(o.Logical[2:])
	if !ok {
		bad(o.Logical, fn+" returned a number that is not finite")
		return
	}
	diff := new(big.Rat).Sub(got, exact)
	diff.Abs(diff)
	if diff.Cmp(c04Tol) > 0 {
		bad(o.Logical, fn+" is further than half a unit of the 16th decimal place from the exact quotient (difference "+diff.FloatString(25)+")")
	}
}

// ---------- exhaustive block: pairs × functions × ways of supplying each operand ----------

var c04GridQuick = []string{"0", "1", "-1", "0.1", "-0.1", "0.2", "-0.2", "1e-9", "999999999999999", "2.5", "-0.5", "0.5", "10", "10.00", "1e3"}
var c04GridMore = []string{"-999999999999999", "-2.5", "1.5", "0.30", "3", "7", "-1e-9", "123456789.123456", "1e-12", "100e-2"}

var c04RecvWays = []string{"data-number", "data-string", "literal", "nested-path"}
var c04ArgWays = []string{"literal", "string-literal", "path-number", "path-string"}

// c04BinCase builds (query, data) for  a fn b  with a and b supplied in the given ways; k varies carriers/spellings.
func c04BinCase(fn string, a, b c04Num, rway, away string, k int) (string, *TV) {
	var aTV, bTV *TV
	recv, arg := "$.a", ""
	switch rway {
	case "data-number":
		aTV = c04Pick(a, k)
	case "data-string":
		aTV = tvStr(a.str(k))
	case "literal": // the literal becomes the receiver through 0 + literal
		aTV = c04Pick(a, k+1)
		recv = "$.z.Add(" + a.lit(k) + ")"
	case "nested-path":
		aTV = c04Pick(a, k+2)
		recv = "$.o.a"
	}
	switch away {
	case "literal":
		bTV = c04Pick(b, k+3)
		arg = b.lit(k / 2)
	case "string-literal":
		bTV = c04Pick(b, k+3)
		arg = `"` + b.str(k/2) + `"`
	case "path-number":
		bTV = c04Pick(b, k/3)
		arg = "$.b"
		if k%2 == 1 {
			arg = "$.o.b"
		}
	case "path-string":
		bTV = tvStr(b.str(k / 3))
		arg = "$.b"
		if k%2 == 1 {
			arg = "$.o.b"
		}
	}
	var inner *TV
	if k%3 == 0 {
		inner = tvStruct([][3]any{{"A", 1, aTV}, {"B", 1, bTV}})
	} else {
		inner = tvMap("str", [][2]any{{hx("a"), aTV}, {hx("b"), bTV}})
	}
	d := tvMap("str", [][2]any{{hx("a"), aTV}, {hx("b"), bTV}, {hx("z"), tvInt("int", "0")}, {hx("o"), inner}})
	return recv + "." + fn + "(" + arg + ")", d
}

// c04List renders numbers as a collection in the named carrier; nil when not applicable. k varies element carriers.
var c04ListCarriers = []string{"any-slice", "any-array", "typed-f64", "typed-int", "typed-dec", "typed-string", "map", "struct", "ptr-slice", "mixed-strings"}

func c04List(xs []c04Num, carrier string, k int, r *rng) *TV {
	pick := func(n c04Num, i int) *TV {
		if r != nil {
			return c04Rand(n, r)
		}
		return c04Pick(n, k+i)
	}
	var es []*TV
	switch carrier {
	case "any-slice", "any-array", "ptr-slice":
		for i, x := range xs {
			es = append(es, pick(x, i))
		}
	case "map", "struct":
		// Go map iteration order is random and Minimum/Maximum return the first of several equal elements, so
		// the scale of the answer (not its value) would differ from run to run; elements that are equal in value
		// are therefore all stored as the same decimal, which keeps cases.jsonl/impl.txt replayable.
		for i, x := range xs {
			tied := false
			for j, y := range xs {
				if i != j && x.rat().Cmp(y.rat()) == 0 {
					tied = true
				}
			}
			if tied {
				es = append(es, c04Dec(x.norm()))
			} else {
				es = append(es, pick(x, i))
			}
		}
	case "mixed-strings": // numbers and numeral strings side by side
		for i, x := range xs {
			if (k+i)%2 == 0 {
				es = append(es, tvStr(x.str(k+i)))
			} else {
				es = append(es, pick(x, i))
			}
		}
	case "typed-f64":
		for _, x := range xs {
			t := c04Carry(x, "f64")
			if t == nil {
				return nil
			}
			es = append(es, t)
		}
	case "typed-int":
		kind := []string{"int", "int64", "int32", "uint64", "int8"}[k%5]
		for _, x := range xs {
			t := c04Carry(x, kind)
			if t == nil {
				return nil
			}
			es = append(es, t)
		}
	case "typed-dec":
		for _, x := range xs {
			es = append(es, c04Dec(x))
		}
	case "typed-string":
		for i, x := range xs {
			es = append(es, tvStr(x.str(k+i)))
		}
	}
	switch carrier {
	case "any-slice", "mixed-strings":
		return tvSlice(1, es...)
	case "any-array":
		return tvArray(1, es...)
	case "ptr-slice":
		return tvPtr(tvSlice(1, es...))
	case "map":
		kvs := [][2]any{}
		for i, e := range es {
			kvs = append(kvs, [2]any{hx(fmt.Sprintf("k%d", i)), e})
		}
		return tvMap("str", kvs)
	case "struct":
		if len(es) == 0 {
			return nil
		}
		fs := [][3]any{}
		for i, e := range es {
			fs = append(fs, [3]any{fmt.Sprintf("F%d", i), 1, e})
		}
		return tvStruct(fs)
	case "typed-string":
		if len(es) == 0 {
			return nil // an empty typed slice is built as []int
		}
	}
	return tvSlice(0, es...)
}

func c04Rats(xs []c04Num) []*big.Rat {
	out := []*big.Rat{}
	for _, x := range xs {
		out = append(out, x.rat())
	}
	return out
}

// ---------- random operands ----------

// c04RandNum: up to 15 significant digits, decimal exponent −12..12, either sign; small whole numbers,
// .5 fractions and round numbers are over-represented.
func c04RandNum(r *rng) c04Num {
	switch r.Intn(12) {
	case 0:
		return c04N(int64(r.Intn(21)-10), 0)
	case 1:
		return c04N(int64(2*r.Intn(2000)-1999), 0).mulHalf() // k + .5
	case 2:
		return c04N(int64(r.Intn(19)-9), r.Intn(25)-12)
	case 3:
		return c04N(int64(r.Intn(300)-150), 0)
	}
	nd := 1 + r.Intn(15)
	ds := make([]byte, nd)
	for i := range ds {
		ds[i] = byte('0' + r.Intn(10))
	}
	if ds[0] == '0' {
		ds[0] = byte('1' + r.Intn(9))
	}
	co, _ := new(big.Int).SetString(string(ds), 10)
	if r.Intn(2) == 0 {
		co.Neg(co)
	}
	var e int
	switch r.Intn(3) {
	case 0:
		e = r.Intn(25) - 12
	case 1:
		e = -r.Intn(nd + 1) // around the units
	default:
		e = r.Intn(7) - 3
	}
	if e < -12 {
		e = -12
	}
	return c04Num{co, e}
}

// mulHalf: n/2 written with one more fractional digit (n odd gives a .5 fraction)
func (n c04Num) mulHalf() c04Num {
	return c04Num{new(big.Int).Mul(n.coef, big.NewInt(5)), n.exp - 1}
}

var c04IntExtremes = []string{"9223372036854775807", "-9223372036854775808", "18446744073709551615", "2147483647", "-2147483648",
	"4294967295", "9007199254740993", "127", "-128", "255", "65535", "-32768"}

func genC04(c *Ctx) {
	r := c.R
	c.Rule = "ground truth: math/big.Rat over the operand specifications (coefficient, exponent). exhaustive: boundary grid (0, ±1, ±0.1, ±0.2, 1e-9, " +
		"999999999999999, 2.5, ±0.5, 10 / 10.00 / 1e3; thorough adds 10 more incl. negatives, 0.30, 100e-2, 1e-12) × all ordered pairs × the nine functions × " +
		"4 ways of supplying the receiver (data number in a Go carrier, numeral string in the data, literal via 0+literal, nested path) × 4 ways of supplying the " +
		"argument (literal, numeral string literal, path to a data number, path to a numeral string), carriers and spellings cycling; zero divisors are run " +
		"out of domain and must fail; then all pairs as a two-element collection in every collection carrier and all triples as a collection plus one argument; " +
		"random: decimals with ≤15 significant digits and exponents −12..12 (small integers, .5 fractions and round numbers over-represented), binary " +
		"functions with random ways/carriers, aggregates over lists of 0..8 elements in 10 collection carriers plus 0..3 extra arguments (literals, numeral " +
		"strings, scalar paths, array paths that are spread), data integers at the limits of the Go integer types. Exact functions are compared by value; " +
		"Divide/Average must be within 5e-17 of the exact quotient. distinct = distinct (query skeleton, data shape to depth 2, outcome class)"

	grid := []c04Num{}
	gs := append([]string{}, c04GridQuick...)
	if c.thorough() {
		gs = append(gs, c04GridMore...)
	}
	for _, s := range gs {
		grid = append(grid, c04Parse(s))
	}

	// the property's own example and its relatives, in every way of writing them
	for _, t := range [][3]string{{"Add", "0.1", "0.2"}, {"Add", "1.1", "2.2"}, {"Add", "0.7", "0.1"}, {"Subtract", "0.3", "0.1"}, {"Multiply", "0.1", "3"},
		{"Multiply", "1.1", "1.1"}, {"Subtract", "1", "0.9"}, {"Add", "0.1", "0.7"}, {"Multiply", "4.35", "100"}, {"Multiply", "1.15", "100"},
		{"Divide", "0.3", "0.1"}, {"Modulo", "1", "0.1"}, {"Modulo", "0.3", "0.1"}, {"Sum", "0.1", "0.2"}, {"Average", "0.1", "0.2"}, {"Subtract", "100", "99.99"}} {
		a, b := c04Parse(t[1]), c04Parse(t[2])
		exact := c04Exact2(t[0], a.rat(), b.rat())
		for ri, rw := range c04RecvWays {
			for ai, aw := range c04ArgWays {
				for k := 0; k < 3; k++ {
					q, d := c04BinCase(t[0], a, b, rw, aw, k+ri+ai)
					c04Check(c, t[0], q, d, exact, "named/binary-float-traps")
				}
			}
		}
		// both operands literals
		q := "$.z.Add(" + t[1] + ")." + t[0] + "(" + t[2] + ")"
		c04Check(c, t[0], q, tvMap("str", [][2]any{{hx("z"), tvF64(0)}}), exact, "named/binary-float-traps")
	}

	// quotients that sit just below / on / just above a rounding boundary of the 16th place, with long tails: rounding twice
	// (first to some guard digits, then to 16) and truncating both show here and nowhere on a grid of short numbers
	{
		heads := []string{"0", "1", "12345678901234567", "9999999999999999", "250"}
		tails := []string{"49995", "4999", "49999999", "499999999999999999999995", "5", "50", "5000000001", "50000000000000000000", "4", "45", "449", "4444449",
			"94999", "0005", "00049", "9995", "99949999", "1", "9", "149995", "849996", "4999500001"}
		divs := []string{"1", "3", "7", "0.3", "-2", "1e-5", "1234.5", "-0.007"}
		n := 0
		for _, h := range heads {
			for _, t := range tails {
				// q = h·10⁻¹⁶ + 0.t·10⁻¹⁶
				q := c04Num{new(big.Int), -16 - len(t)}
				q.coef.SetString(h+t, 10)
				for _, sgn := range []int64{1, -1} {
					qq := c04Num{new(big.Int).Mul(q.coef, big.NewInt(sgn)), q.exp}
					for di, ds := range divs {
						if (n+di)%3 != 0 && !c.thorough() {
							continue
						}
						b := c04Parse(ds)
						a := c04Num{new(big.Int).Mul(qq.coef, b.coef), qq.exp + b.exp}
						toDec := func(x c04Num) decimal.Decimal { return decimal.NewFromBigInt(x.coef, int32(x.exp)) }
						d := tvMap("str", [][2]any{{hx("a"), tvDec(toDec(a))}, {hx("b"), tvDec(toDec(b))}, {hx("as"), tvStr(a.plain())}})
						c04Check(c, "Divide", "$.a.Divide($.b)", d, qq.rat(), "named/rounding-boundary/Divide")
						c04Check(c, "Divide", "$.as.Divide(\""+b.plain()+"\")", d, qq.rat(), "named/rounding-boundary/Divide-strings")
					}
					n++
					// Average of two numbers whose mean is q: q−δ and q+δ
					dl := c04Parse([]string{"0", "1", "0.25", "1e-30", "123.456"}[n%5])
					e := qq.exp
					if dl.exp < e {
						e = dl.exp
					}
					al := func(x c04Num) *big.Int { return new(big.Int).Mul(x.coef, c04Pow10(x.exp-e)) }
					lo := decimal.NewFromBigInt(new(big.Int).Sub(al(qq), al(dl)), int32(e))
					hi := decimal.NewFromBigInt(new(big.Int).Add(al(qq), al(dl)), int32(e))
					d := tvMap("str", [][2]any{{hx("xs"), tvSlice(1, tvDec(lo), tvDec(hi))}})
					c04Check(c, "Average", "$.xs.Average()", d, qq.rat(), "named/rounding-boundary/Average")
				}
			}
		}
	}

	// operands whose scales lie far apart (the sum has to be formed at the smaller exponent), and numbers written as strings in
	// exponent notation with more digits than a float64 holds: every function, operands as decimals, as strings and as literals
	{
		spreads := around([]int{15, 16, 17, 18, 19, 20, 30, 38, 39, 63, 64, 65, 70, 100, 127, 128, 129, 200, 308, 309, 400}, 2000)
		coefs := []string{"1", "7", "25", "123456789", "9007199254740993", "12345678901234567891"}
		for si, sp := range spreads {
			for ci, co := range coefs {
				if (si+ci)%2 == 1 && !c.thorough() {
					continue
				}
				big1 := c04Num{new(big.Int), sp}
				big1.coef.SetString(co, 10)
				small := c04Parse([]string{"1", "7", "2.5e-30", "-3", "0.001"}[(si+ci)%5])
				neg := c04Num{new(big.Int).Neg(big1.coef), big1.exp}
				toDec := func(x c04Num) decimal.Decimal { return decimal.NewFromBigInt(x.coef, int32(x.exp)) }
				for oi, ops := range [][]c04Num{{big1, small}, {small, big1}, {big1, small, neg}, {small, big1, small}} {
					var tvsDec, tvsStr []*TV
					var rats []*big.Rat
					for _, x := range ops {
						tvsDec = append(tvsDec, tvDec(toDec(x)))
						tvsStr = append(tvsStr, tvStr(x.expForm()))
						rats = append(rats, x.rat())
					}
					d := tvMap("str", [][2]any{{hx("xs"), tvSlice(1, tvsDec...)}, {hx("ss"), tvSlice(1, tvsStr...)}, {hx("a"), tvsDec[0]}, {hx("b"), tvsDec[1]}, {hx("as"), tvsStr[0]}, {hx("bs"), tvsStr[1]}})
					for _, fn := range c04Aggr {
						if fn == "Average" && sp > 400 {
							continue
						}
						c04Check(c, fn, "$.xs."+fn+"()", d, c04AggExact(fn, rats), "scale-spread/collection/"+fn)
						if oi < 2 {
							c04Check(c, fn, "$.ss."+fn+"()", d, c04AggExact(fn, rats), "scale-spread/collection-of-strings/"+fn)
							c04Check(c, fn, "$.a."+fn+"($.b)", d, c04AggExact(fn, rats), "scale-spread/receiver+argument/"+fn)
							c04Check(c, fn, "$.as."+fn+"(\""+ops[1].expForm()+"\")", d, c04AggExact(fn, rats), "scale-spread/strings/"+fn)
						}
					}
					if oi < 2 {
						for _, fn := range []string{"Add", "Subtract", "Multiply"} {
							c04Check(c, fn, "$.a."+fn+"($.b)", d, c04Exact2(fn, rats[0], rats[1]), "scale-spread/binary/"+fn)
							c04Check(c, fn, "$.as."+fn+"($.bs)", d, c04Exact2(fn, rats[0], rats[1]), "scale-spread/binary-strings/"+fn)
						}
					}
				}
			}
		}
	}

	// pairs × functions × ways
	k := 0
	for _, a := range grid {
		for _, b := range grid {
			for _, fn := range append(append([]string{}, c04Binary...), c04Aggr...) {
				exact := c04Exact2(fn, a.rat(), b.rat())
				for _, rw := range c04RecvWays {
					for _, aw := range c04ArgWays {
						k++
						q, d := c04BinCase(fn, a, b, rw, aw, k)
						c04Check(c, fn, q, d, exact, "grid/recv:"+rw+"/arg:"+aw)
					}
				}
			}
		}
	}
	// pairs as a collection, in every collection carrier
	for _, a := range grid {
		for _, b := range grid {
			for _, lc := range c04ListCarriers {
				k++
				xs := []c04Num{a, b}
				l := c04List(xs, lc, k, nil)
				if l == nil {
					continue
				}
				d := tvMap("str", [][2]any{{hx("xs"), l}})
				for _, fn := range c04Aggr {
					c04Check(c, fn, "$.xs."+fn+"()", d, c04AggExact(fn, c04Rats(xs)), "grid/collection-pair/"+lc)
				}
			}
		}
	}
	// triples: a two-element collection plus one argument (the argument's way cycles)
	for _, a := range grid {
		for _, b := range grid {
			for _, x := range grid {
				k++
				lc := c04ListCarriers[k%len(c04ListCarriers)]
				l := c04List([]c04Num{a, b}, lc, k, nil)
				if l == nil {
					l = c04List([]c04Num{a, b}, "any-slice", k, nil)
				}
				aw := c04ArgWays[k%4]
				var arg string
				var pTV *TV = c04Pick(x, k)
				switch aw {
				case "literal":
					arg = x.lit(k / 4)
				case "string-literal":
					arg = `"` + x.str(k/4) + `"`
				case "path-number":
					arg = "$.p"
				case "path-string":
					arg, pTV = "$.p", tvStr(x.str(k/4))
				}
				d := tvMap("str", [][2]any{{hx("xs"), l}, {hx("p"), pTV}})
				fn := c04Aggr[(k/4)%4]
				if c.thorough() {
					for _, fn := range c04Aggr {
						c04Check(c, fn, "$.xs."+fn+"("+arg+")", d, c04AggExact(fn, c04Rats([]c04Num{a, b, x})), "grid/collection-triple/arg:"+aw)
					}
				} else {
					c04Check(c, fn, "$.xs."+fn+"("+arg+")", d, c04AggExact(fn, c04Rats([]c04Num{a, b, x})), "grid/collection-triple/arg:"+aw)
				}
			}
		}
	}
	// the empty collection in every carrier, with and without arguments
	for _, lc := range c04ListCarriers {
		l := c04List(nil, lc, 0, nil)
		if l == nil {
			continue
		}
		d := tvMap("str", [][2]any{{hx("xs"), l}, {hx("e"), tvSlice(1)}})
		for _, fn := range c04Aggr {
			c04Check(c, fn, "$.xs."+fn+"()", d, new(big.Rat), "grid/empty-collection")
			c04Check(c, fn, "$.xs."+fn+"($.e)", d, new(big.Rat), "grid/empty-collection")
			for _, x := range grid {
				c04Check(c, fn, "$.xs."+fn+"("+x.lit(0)+")", d, x.rat(), "grid/empty-collection+argument")
			}
		}
	}
	c.Exhaustive = true

	// ---------- random ----------
	related := func(a c04Num) c04Num { // a second operand related to the first: same digits at another scale, neighbour, negation
		switch r.Intn(5) {
		case 0:
			return c04Num{new(big.Int).Set(a.coef), a.exp + r.Intn(7) - 3}
		case 1:
			return c04Num{new(big.Int).Add(a.coef, big.NewInt(int64(r.Intn(3)-1))), a.exp}
		case 2:
			return c04Num{new(big.Int).Neg(a.coef), a.exp}
		}
		return c04RandNum(r)
	}
	n := c.scale(30000, 360000)
	for i := 0; i < n; i++ {
		a := c04RandNum(r)
		b := c04RandNum(r)
		if r.Intn(4) == 0 {
			b = related(a)
		}
		fn := c04Binary[r.Intn(5)]
		if r.Intn(5) == 0 {
			fn = c04Aggr[r.Intn(4)]
		}
		exact := c04Exact2(fn, a.rat(), b.rat())
		rw, aw := c04RecvWays[r.Intn(4)], c04ArgWays[r.Intn(4)]
		q, d := c04BinCase(fn, a, b, rw, aw, r.Intn(1<<20))
		c04Check(c, fn, q, d, exact, "random/binary/"+fn)
	}
	// data integers at the limits of the Go integer types
	n = c.scale(2000, 20000)
	for i := 0; i < n; i++ {
		a := c04Parse(r.Pick(c04IntExtremes))
		b := c04RandNum(r)
		if r.Bool() {
			b = c04Parse(r.Pick(c04IntExtremes))
		}
		if r.Bool() {
			a, b = b, a
		}
		fn := append(append([]string{}, c04Binary...), c04Aggr...)[r.Intn(9)]
		exact := c04Exact2(fn, a.rat(), b.rat())
		// both operands are data numbers (the literal limit of 15 digits does not apply to them)
		q, d := c04BinCase(fn, a, b, []string{"data-number", "nested-path"}[r.Intn(2)], "path-number", r.Intn(1<<20))
		// operands of more than 15 significant digits are covered by the statement ("a data number of any Go numeric
		// type") but lie outside the quantifier's random regime: the oracle stays on, the case is marked out of domain
		c04CheckDom(c, fn, q, d, exact, "beyond-15-digits/integer-type-limits", a.sigDigits() <= 15 && b.sigDigits() <= 15)
	}
	// Modulo where a/b lies within 5e-17 below an integer: only possible with more than 15 significant digits, so outside
	// the quantifier, but inside the statement (a − b·trunc(a/b) for all finite decimal operands); the oracle stays on
	for _, t := range [][2]string{{"99999999999999999", "100000000000000000"}, {"0.99999999999999999", "1"}, {"199999999999999999", "1e17"},
		{"-99999999999999999", "100000000000000000"}, {"9223372036854775807", "-9223372036854775808"}} {
		a, b := c04Parse(t[0]), c04Parse(t[1])
		exact := c04Exact2("Modulo", a.rat(), b.rat())
		for k, ways := range [][2]string{{"data-number", "path-number"}, {"data-string", "string-literal"}, {"nested-path", "path-string"}} {
			q, d := c04BinCase("Modulo", a, b, ways[0], ways[1], k)
			c04CheckDom(c, "Modulo", q, d, exact, "beyond-15-digits/modulo-quotient-just-below-integer", false)
		}
	}
	// aggregates over lists of 0..8 elements plus extra arguments
	n = c.scale(26000, 320000)
	for i := 0; i < n; i++ {
		ln := r.Intn(9)
		xs := []c04Num{}
		for j := 0; j < ln; j++ {
			if j > 0 && r.Intn(4) == 0 {
				xs = append(xs, related(xs[r.Intn(len(xs))]))
			} else {
				xs = append(xs, c04RandNum(r))
			}
		}
		lc := c04ListCarriers[r.Intn(len(c04ListCarriers))]
		l := c04List(xs, lc, r.Intn(1<<16), r)
		if l == nil {
			lc = "any-slice"
			l = c04List(xs, lc, r.Intn(1<<16), r)
		}
		all := c04Rats(xs)
		kvs := [][2]any{{hx("xs"), l}}
		var args []string
		na := 0
		if r.Intn(3) > 0 {
			na = r.Intn(4)
		}
		for j := 0; j < na; j++ {
			key := fmt.Sprintf("p%d", j)
			switch r.Intn(5) {
			case 0:
				x := c04RandNum(r)
				args = append(args, x.lit(r.Intn(8)))
				all = append(all, x.rat())
			case 1:
				x := c04RandNum(r)
				args = append(args, `"`+x.str(r.Intn(7))+`"`)
				all = append(all, x.rat())
			case 2:
				x := c04RandNum(r)
				args = append(args, "$."+key)
				kvs = append(kvs, [2]any{hx(key), c04Rand(x, r)})
				all = append(all, x.rat())
			case 3:
				x := c04RandNum(r)
				args = append(args, "$."+key)
				kvs = append(kvs, [2]any{hx(key), tvStr(x.str(r.Intn(7)))})
				all = append(all, x.rat())
			default: // a path to an array: every element becomes an argument
				ys := []c04Num{}
				for m := r.Intn(4); m > 0; m-- {
					ys = append(ys, c04RandNum(r))
				}
				yc := []string{"any-slice", "typed-f64", "typed-dec", "mixed-strings", "any-array", "typed-string"}[r.Intn(6)]
				yl := c04List(ys, yc, r.Intn(1<<16), r)
				if yl == nil {
					yl = c04List(ys, "any-slice", 0, r)
				}
				args = append(args, "$."+key)
				kvs = append(kvs, [2]any{hx(key), yl})
				all = append(all, c04Rats(ys)...)
			}
		}
		d := tvMap("str", kvs)
		fn := c04Aggr[r.Intn(4)]
		cls := "random/aggregate/" + lc
		if ln == 0 && len(all) == 0 {
			cls = "random/aggregate/empty"
		}
		c04Check(c, fn, "$.xs."+fn+"("+strings.Join(args, ",")+")", d, c04AggExact(fn, all), cls)
	}
	// the package's one configuration switch (how decimals are marshalled to JSON) must not change arithmetic: the
	// division grid again after Setup(true) and after Setup(false) - a history, not an input
	for _, on := range []bool{true, false} {
		mpath.Setup(on)
		cls := fmt.Sprintf("after-Setup(%v)", on)
		grid := []string{"1", "2", "3", "7", "-3", "0.3", "1e-9", "999999999999999", "2.5", "10.00"}
		for i, as := range grid {
			for j, bs := range grid {
				a, b := c04Parse(as), c04Parse(bs)
				d := tvMap("str", [][2]any{{hx("a"), c04Pick(a, i+j)}, {hx("b"), c04Pick(b, i)}, {hx("xs"), tvSlice(1, c04Pick(a, j), c04Pick(b, i), c04Pick(b, j))}})
				c04Check(c, "Divide", "$.a.Divide($.b)", d, c04Exact2("Divide", a.rat(), b.rat()), cls+"/Divide")
				c04Check(c, "Average", "$.xs.Average()", d, c04AggExact("Average", []*big.Rat{a.rat(), b.rat(), b.rat()}), cls+"/Average")
				c04Check(c, "Multiply", "$.a.Multiply($.b)", d, c04Exact2("Multiply", a.rat(), b.rat()), cls+"/Multiply")
			}
		}
	}
}
