package main

// C06: numbers come out as decimal.Decimal with their value intact. The property is about the DYNAMIC TYPE and the
// exact value of what Do returns, so every case has two oracles: the value (XK "logical": the source number as a
// reduced fraction computed here from the source, never from the implementation) and the type (the exact canonical
// form must be `d:...`, or for a key stepped across an array a non-nil []any whose number elements are all `d:...`).
// Booleans and non-numeral strings must come back unchanged (XK "exact").

import (
	"fmt"
	"math"
	"math/big"
	"strconv"
	"strings"

	"github.com/shopspring/decimal"
)

func init() { evalGens["C06"] = genC06 }

// c06Num is one source number in one Go carrier, with the value the statement promises.
type c06Num struct {
	tv   *TV      // the number in its carrier (no pointer)
	rat  *big.Rat // the source value, exactly
	kind string   // carrier label: "uint8", "named-int16", "float64", "named-float64", "decimal"
	fam  string   // carrier family for the class label: int uint named-int named-uint float64 named-float64 decimal
	vcls string   // value class: min max zero one minus-one near-min near-max above-maxint64 random ...
	lit  string   // a literal denoting the same value with at most 15 significant digits ("" if there is none)
}

type c06Bounds struct{ min, max string }

var c06IntBounds = map[string]c06Bounds{
	"int8":   {"-128", "127"},
	"int16":  {"-32768", "32767"},
	"int32":  {"-2147483648", "2147483647"},
	"int64":  {"-9223372036854775808", "9223372036854775807"},
	"int":    {"-9223372036854775808", "9223372036854775807"},
	"uint8":  {"0", "255"},
	"uint16": {"0", "65535"},
	"uint32": {"0", "4294967295"},
	"uint64": {"0", "18446744073709551615"},
	"uint":   {"0", "18446744073709551615"},
}

func c06Big(s string) *big.Int {
	b, ok := new(big.Int).SetString(s, 10)
	if !ok {
		panic("bad int " + s)
	}
	return b
}

// c06Literal: a query literal for the value when it has at most 15 significant digits and a plain short spelling.
func c06Literal(r *big.Rat) string {
	if !r.IsInt() {
		// a finite decimal expansion with few digits
		for p := 1; p <= 12; p++ {
			s := r.FloatString(p)
			back, _ := new(big.Rat).SetString(s)
			if back.Cmp(r) == 0 {
				digits := strings.TrimLeft(strings.NewReplacer("-", "", ".", "").Replace(s), "0")
				if len(digits) <= 15 {
					return s
				}
				return ""
			}
		}
		return ""
	}
	s := r.Num().String()
	digits := strings.TrimRight(strings.TrimPrefix(s, "-"), "0")
	if len(digits) <= 15 && len(s) <= 22 {
		return s
	}
	return ""
}

func c06IntNum(kind string, named bool, v *big.Int, vcls string) c06Num {
	t := tvInt(kind, v.String())
	label := kind
	if named {
		t.N = 1
		label = "named-" + kind
	}
	fam := "int"
	if strings.HasPrefix(kind, "u") {
		fam = "uint"
	}
	if named {
		fam = "named-" + fam
	}
	r := new(big.Rat).SetInt(v)
	return c06Num{tv: t, rat: r, kind: label, fam: fam, vcls: vcls, lit: c06Literal(r)}
}

// c06IntValues: min, max, zero, ±1, the neighbours of the bounds, (for 64-bit unsigned) the values around MaxInt64,
// and nRandom points drawn uniformly from the type's range.
func c06IntValues(c *Ctx, kind string, named bool, nRandom int) []c06Num {
	b := c06IntBounds[kind]
	lo, hi := c06Big(b.min), c06Big(b.max)
	one := big.NewInt(1)
	var out []c06Num
	add := func(v *big.Int, cls string) {
		if v.Cmp(lo) < 0 || v.Cmp(hi) > 0 {
			return
		}
		out = append(out, c06IntNum(kind, named, v, cls))
	}
	add(lo, "min")
	add(hi, "max")
	add(big.NewInt(0), "zero")
	add(big.NewInt(1), "one")
	add(big.NewInt(-1), "minus-one")
	add(new(big.Int).Add(lo, one), "near-min")
	add(new(big.Int).Sub(hi, one), "near-max")
	if kind == "uint64" || kind == "uint" {
		add(c06Big("9223372036854775807"), "maxint64")
		add(c06Big("9223372036854775808"), "above-maxint64")
		add(c06Big("9223372036854775809"), "above-maxint64")
		add(c06Big("18446744073709551614"), "above-maxint64")
	}
	width := new(big.Int).Sub(hi, lo)
	width.Add(width, one)
	for i := 0; i < nRandom; i++ {
		// a uniform point of the range: 64 random bits reduced modulo the width, shifted to the lower bound
		x := new(big.Int).SetUint64(c.R.next())
		x.Mod(x, width)
		x.Add(x, lo)
		cls := "random"
		if x.Cmp(c06Big("9223372036854775807")) > 0 {
			cls = "above-maxint64"
		}
		add(x, cls)
	}
	return out
}

// c06RatOfFloat: the shortest decimal that reads back as f (strconv 'e' format with -1 precision), as a fraction.
func c06RatOfFloat(f float64) *big.Rat {
	s := strconv.FormatFloat(f, 'e', -1, 64) // d.ddddde±xx
	i := strings.IndexByte(s, 'e')
	mant, exps := s[:i], s[i+1:]
	e, err := strconv.Atoi(exps)
	if err != nil {
		panic("bad exponent " + s)
	}
	neg := strings.HasPrefix(mant, "-")
	mant = strings.TrimPrefix(mant, "-")
	frac := 0
	if j := strings.IndexByte(mant, '.'); j >= 0 {
		frac = len(mant) - j - 1
		mant = mant[:j] + mant[j+1:]
	}
	n := c06Big(mant)
	if neg {
		n.Neg(n)
	}
	r := new(big.Rat).SetInt(n)
	e -= frac
	p := new(big.Rat).SetInt(new(big.Int).Exp(big.NewInt(10), big.NewInt(int64(abs64(int64(e)))), nil))
	if e >= 0 {
		return r.Mul(r, p)
	}
	return r.Quo(r, p)
}

func c06FloatNum(f float64, named bool, vcls string) c06Num {
	t := tvF64(f)
	label := "float64"
	if named {
		t.N = 1
		label = "named-float64"
	}
	r := c06RatOfFloat(f)
	return c06Num{tv: t, rat: r, kind: label, fam: label, vcls: vcls, lit: c06Literal(r)}
}

func c06FloatValues(c *Ctx, named bool, nRandom int) []c06Num {
	var out []c06Num
	for _, fv := range []struct {
		f   float64
		cls string
	}{
		{0, "zero"}, {math.Copysign(0, -1), "zero"}, {1, "one"}, {-1, "minus-one"},
		{math.MaxFloat64, "max"}, {-math.MaxFloat64, "min"}, {math.SmallestNonzeroFloat64, "smallest"}, {-math.SmallestNonzeroFloat64, "smallest"},
		{2.2250738585072014e-308, "smallest-normal"},
		{0.1, "fraction"}, {0.5, "fraction"}, {1.5, "fraction"}, {-7.25, "fraction"}, {0.3, "fraction"}, {1.0 / 3.0, "fraction"}, {2.0 / 3.0, "fraction"},
		{1e15, "whole"}, {123456789012345, "whole"}, {9007199254740992, "whole"}, {9007199254740993, "whole"}, {9223372036854775808, "whole"}, {18446744073709551615, "whole"},
		{1e21, "large"}, {1e22, "large"}, {1e23, "large"}, {1e300, "large"}, {-1e100, "large"},
		{1e-7, "small"}, {1e-9, "small"}, {123456.789e-20, "small"}, {5e-300, "small"},
		{math.Pi, "seventeen-digits"}, {0.1 + 0.2, "seventeen-digits"},
	} {
		out = append(out, c06FloatNum(fv.f, named, fv.cls))
	}
	for i := 0; i < nRandom; i++ {
		var f float64
		switch c.R.Intn(4) {
		case 0: // any finite bit pattern
			f = math.Float64frombits(c.R.next())
			if math.IsNaN(f) || math.IsInf(f, 0) {
				f = 42
			}
		case 1: // a short decimal
			f = float64(c.R.Intn(2000001)-1000000) / float64([]int{1, 10, 100, 1000, 10000}[c.R.Intn(5)])
		case 2: // a whole number up to 2^63
			f = float64(int64(c.R.next() >> uint(1+c.R.Intn(62))))
			if c.R.Bool() {
				f = -f
			}
		default: // a moderate magnitude with a full mantissa
			f = (float64(c.R.next()>>11) / (1 << 53)) * math.Pow(10, float64(c.R.Intn(41)-20))
			if c.R.Bool() {
				f = -f
			}
		}
		out = append(out, c06FloatNum(f, named, "random"))
	}
	return out
}

func c06DecNum(coef string, exp int, vcls string) c06Num {
	d := decimal.NewFromBigInt(c06Big(coef), int32(exp))
	r := new(big.Rat).SetInt(c06Big(coef))
	p := new(big.Rat).SetInt(new(big.Int).Exp(big.NewInt(10), big.NewInt(abs64(int64(exp))), nil))
	if exp >= 0 {
		r.Mul(r, p)
	} else {
		r.Quo(r, p)
	}
	return c06Num{tv: tvDec(d), rat: r, kind: "decimal", fam: "decimal", vcls: vcls, lit: c06Literal(r)}
}

func c06DecValues(c *Ctx, nRandom int) []c06Num {
	var out []c06Num
	for _, dv := range []struct {
		coef string
		exp  int
		cls  string
	}{
		{"0", 0, "zero"}, {"0", -5, "zero"}, {"0", 3, "zero"}, {"1", 0, "one"}, {"-1", 0, "minus-one"}, {"10", -1, "one"},
		{"15", -1, "fraction"}, {"-725", -2, "fraction"}, {"1", -1, "fraction"}, {"1", -30, "small"}, {"-3", -40, "small"},
		{"5", 3, "positive-exponent"}, {"-12", 20, "positive-exponent"}, {"1", 50, "positive-exponent"},
		{"9223372036854775807", 0, "whole"}, {"9223372036854775808", 0, "whole"}, {"-9223372036854775809", 0, "whole"},
		{"18446744073709551615", 0, "whole"}, {"18446744073709551616", 0, "whole"},
		{"123456789012345678901234567890", 0, "big-coefficient"}, {"-123456789012345678901234567890", -12, "big-coefficient"},
		{"99999999999999999999999999999999999999", -19, "big-coefficient"},
	} {
		out = append(out, c06DecNum(dv.coef, dv.exp, dv.cls))
	}
	for i := 0; i < nRandom; i++ {
		n := new(big.Int).SetUint64(c.R.next() >> uint(c.R.Intn(64)))
		if c.R.Intn(4) == 0 {
			n.Mul(n, new(big.Int).SetUint64(c.R.next()))
		}
		if c.R.Bool() {
			n.Neg(n)
		}
		out = append(out, c06DecNum(n.String(), c.R.Intn(41)-25, "random"))
	}
	return out
}

// ---------- coverage tallies (the class labels carry position, read form and carrier family) ----------

var c06Tag = map[string]string{} // histogram name -> current key

func c06Tally(c *Ctx) {
	for hist, key := range c06Tag {
		m, _ := c.Extra[hist].(map[string]int)
		if m == nil {
			m = map[string]int{}
			c.Extra[hist] = m
		}
		m[key]++
	}
}

// ---------- the two oracles ----------

func c06Parts(exact string) (head string, elems []string) {
	i := strings.IndexByte(exact, '[')
	if i < 0 || !strings.HasSuffix(exact, "]") {
		return exact, nil
	}
	head = exact[:i]
	body := exact[i+1 : len(exact)-1]
	if body == "" {
		return head, []string{}
	}
	return head, strings.Split(body, ",")
}

// c06Scalar runs q on d: the result must be a decimal.Decimal (type oracle) of value want (value oracle).
func c06Scalar(c *Ctx, q string, d *TV, want *big.Rat, cls string) {
	x := "n:" + want.RatString()
	c06Tally(c)
	o := c.Do(Case{Q: q, D: d, XK: "logical", X: x, Cls: cls, InDomain: true})
	if o.Class == "ok" && !o.ErrData && !strings.HasPrefix(o.Exact, "d:") {
		c.addViolation(Violation{Kind: "oracle", Query: q, QueryHex: hx(q), Data: d, Expected: "a decimal.Decimal (d:...) of value " + x, Got: o.Line(),
			Why: "a number was returned with a dynamic type other than decimal.Decimal", Cls: cls, Key: "type:" + cls + ":" + lastFunc(q)})
	}
}

// c06Collected runs q on d: the result must be a non-nil []any whose i-th element has the logical form wantL[i] and
// whose exact form starts with wantTag[i] ("d:" for numbers).
func c06Collected(c *Ctx, q string, d *TV, wantL, wantTag []string, cls string) {
	x := "[" + strings.Join(wantL, ",") + "]"
	c06Tally(c)
	o := c.Do(Case{Q: q, D: d, XK: "logical", X: x, Cls: cls, InDomain: true})
	if o.Class != "ok" || o.ErrData {
		return
	}
	head, elems := c06Parts(o.Exact)
	bad := ""
	if head != "sl10" {
		bad = "the collected values are not a non-nil []any"
	} else if len(elems) == len(wantTag) {
		for i, e := range elems {
			if !strings.HasPrefix(e, wantTag[i]) {
				bad = fmt.Sprintf("collected element %d has the wrong dynamic type (want %s...)", i, wantTag[i])
				break
			}
		}
	}
	if bad != "" {
		c.addViolation(Violation{Kind: "oracle", Query: q, QueryHex: hx(q), Data: d, Expected: "sl10[" + strings.Join(wantTag, "...,") + "...] of value " + x, Got: o.Line(),
			Why: bad, Cls: cls, Key: "type:" + cls + ":" + lastFunc(q)})
	}
}

func c06Exact(c *Ctx, q string, d *TV, x string, cls string) {
	c06Tally(c)
	c.Do(Case{Q: q, D: d, XK: "exact", X: "ok " + x, Cls: cls, InDomain: true})
}

func c06Logical(c *Ctx, q string, d *TV, x string, cls string) {
	c06Tally(c)
	c.Do(Case{Q: q, D: d, XK: "logical", X: x, Cls: cls, InDomain: true})
}

// ---------- carriers ----------

type c06Holder struct {
	name string
	wrap func(t *TV) *TV
}

var c06Holders = []c06Holder{
	{"direct", func(t *TV) *TV { return t }},
	{"pointer", func(t *TV) *TV { return tvPtr(t) }},
}

func c06Map(k string, v *TV) *TV {
	return tvMap("str", [][2]any{{hx("pad"), tvStr("pad")}, {hx(k), v}, {hx("z"), tvBool(true)}})
}

func c06Struct(k string, v *TV) *TV {
	return tvStruct([][3]any{{"Pad", 1, tvStr("pad")}, {structFieldName(k), 1, v}, {"Z", 1, tvBool(true)}})
}

type c06Seq struct {
	name string
	mk   func(xs []*TV) *TV
}

var c06Seqs = []c06Seq{
	{"[]any", func(xs []*TV) *TV { return tvSlice(1, xs...) }},
	{"typed-slice", func(xs []*TV) *TV { return tvSlice(0, xs...) }},
	{"[n]any", func(xs []*TV) *TV { return tvArray(1, xs...) }},
	{"typed-array", func(xs []*TV) *TV { return tvArray(0, xs...) }},
}

// the read forms for one number in one position: bare path, and as a function receiver
func c06ReadScalar(c *Ctx, path string, d *TV, n c06Num, cls string) {
	c06Scalar(c, path, d, n.rat, cls+"/bare")
	c06Scalar(c, path+".Add(0)", d, n.rat, cls+"/receiver")
	if n.lit != "" {
		c06Exact(c, path+".Equal("+n.lit+")", d, "b:1", cls+"/receiver-equal")
	}
}

func genC06(c *Ctx) {
	c.Rule = "finite block, enumerated completely: every Go numeric kind (int, int8..int64, uint, uint8..uint64, float64, decimal.Decimal) and the named type over each integer kind and float64, named integer / float types that have a String method, float32 plain and named (value = the widened float64, as for float64), a named type over decimal.Decimal, held directly or behind one pointer; for every integer kind the values min, max, 0, 1, -1, min+1, max-1 (for uint/uint64 also MaxInt64, MaxInt64+1, MaxInt64+2, MaxUint64-1) and random points uniform in the type's range; for float64 a fixed list (0, -0, +-1, +-MaxFloat64, +-smallest denormal, smallest normal, short fractions, 1/3, whole numbers around 2^53/2^63/2^64, 1e21..1e300, 1e-7..5e-300, 17-digit values) and random bit patterns / short decimals / whole numbers / full mantissas; for decimal.Decimal fixed coefficients and exponents (zero with exponent, positive exponents, 30..38-digit coefficients, values around the int64/uint64 bounds) and random ones; each number is read at the root (`$`), as a map value and as a struct field (`$.k`, `$.K`), as a function receiver (`.Add(0)`, `.Equal(<literal>)` when the value has a literal of at most 15 significant digits), as an element of []any, typed slices, [n]any and typed arrays under a key and at the root (First, Last, Index(i) for every i), and collected by stepping a key across []any of maps, []any of structs, []any of pointers to structs and typed slices of structs (`$.xs.k`, then First/Last/Index on the collection). Oracles: value = the source number as a fraction computed from the source text/bits (float64: the shortest decimal that reads back, strconv 'e' -1) compared with the result's value; type = the exact form is d:... (a decimal.Decimal), for a collection a non-nil []any of d:.... Booleans and non-numeral strings (plain, named, behind a pointer) in the same positions must come back exactly as they went in at a bare path and with the same content through First/Last/Index. Then random mixed documents: heterogeneous []any of numbers of all carriers, strings and bools. Numeral strings are a separate out-of-domain class. distinct = distinct (query skeleton, data shape to depth 2, outcome class)"
	nRandInt := c.scale(4, 40)
	nRandF := c.scale(40, 800)
	nRandD := c.scale(30, 600)

	// groups of numbers sharing one carrier type (so that typed slices can hold them)
	var groups [][]c06Num
	for _, k := range intKinds {
		groups = append(groups, c06IntValues(c, k, false, nRandInt))
		groups = append(groups, c06IntValues(c, k, true, nRandInt))
	}
	groups = append(groups, c06FloatValues(c, false, nRandF))
	groups = append(groups, c06FloatValues(c, true, nRandF/4))
	groups = append(groups, c06DecValues(c, nRandD))
	// named numbers whose type has a String method (time.Duration, stringer enums and money types look like this), and 32-bit
	// floats (plain and named): numbers like the others, with the value of the number and not of its text
	{
		strg := func(kind string, vals ...string) []c06Num {
			var out []c06Num
			for _, v := range vals {
				n := c06IntNum(kind, true, c06Big(v), "fixed")
				n.tv.N = 2
				n.kind, n.fam = "stringer-"+kind, "stringer-"+strings.TrimPrefix(n.fam, "named-")
				out = append(out, n)
			}
			return out
		}
		groups = append(groups, strg("int64", "0", "1", "-1", "1500", "9223372036854775807", "-9223372036854775808", "60000000000"),
			strg("int", "1234", "0", "-5", "100", "99"), strg("uint8", "0", "1", "2", "255"))
		var ratios, f32s, nf32s []c06Num
		for _, f := range []float64{0, 0.5, 0.123, 1, -2.25, 1e10} {
			n := c06FloatNum(f, true, "fixed")
			n.tv.N, n.kind, n.fam = 4, "stringer-float64", "stringer-float64"
			ratios = append(ratios, n)
		}
		for _, f := range []float32{0, 0.1, 2.7, 0.5, 1.25, -0.3, 3.4028235e38, 1e-45, 16777216, 1e10, 123456.789} {
			for _, named := range []bool{false, true} {
				n := c06FloatNum(float64(f), named, "fixed")
				if named {
					n.tv.N, n.kind, n.fam = 3, "named-float32", "named-float32"
					nf32s = append(nf32s, n)
				} else {
					n.tv.N, n.kind, n.fam = 2, "float32", "float32"
					f32s = append(f32s, n)
				}
			}
		}
		groups = append(groups, ratios, f32s, nf32s)
		// a named type over decimal.Decimal holds the same number
		var ndecs []c06Num
		for i, n := range c06DecValues(c, 6) {
			if i%3 == 2 {
				continue
			}
			m := n
			t := *n.tv
			t.N = 1
			m.tv, m.kind, m.fam = &t, "named-decimal", "named-decimal"
			ndecs = append(ndecs, m)
		}
		groups = append(groups, ndecs)
	}
	var all []c06Num
	for _, g := range groups {
		all = append(all, g...)
	}
	c.Extra["source_numbers"] = len(all)

	// 1. one number, every position, bare and as receiver
	for _, g := range groups {
		for _, n := range g {
			for _, h := range c06Holders {
				t := h.wrap(n.tv)
				base := n.fam
				c06Tag = map[string]string{"kind_histogram": n.kind, "holder_histogram": h.name, "value_class_histogram": n.vcls}
				c06ReadScalar(c, "$", t, n, "root/"+base)
				c06ReadScalar(c, "$.k", c06Map("k", t), n, "map-value/"+base)
				c06Scalar(c, "$.K", c06Map("k", t), n.rat, "map-value/"+base+"/bare")
				c06ReadScalar(c, "$.k", c06Struct("k", t), n, "struct-field/"+base)
				c06Scalar(c, "$.K", c06Struct("k", t), n.rat, "struct-field/"+base+"/bare")
				// the object itself behind a pointer
				c06Scalar(c, "$.k", tvPtr(c06Map("k", t)), n.rat, "map-value/"+base+"/bare")
				c06Scalar(c, "$.k", tvPtr(c06Struct("k", t)), n.rat, "struct-field/"+base+"/bare")
				// one level down
				c06Scalar(c, "$.o.k", c06Map("o", c06Struct("k", t)), n.rat, "struct-field/"+base+"/bare")
				c06Scalar(c, "$.o.k", c06Struct("o", c06Map("k", t)), n.rat, "map-value/"+base+"/bare")
			}
		}
	}

	// 2. slice elements: First / Last / Index(i); 3. a key stepped across an array of objects
	for _, g := range groups {
		// windows of at most 9 numbers of one carrier type, so every index is visited
		for start := 0; start < len(g); start += 9 {
			end := start + 9
			if end > len(g) {
				end = len(g)
			}
			win := g[start:end]
			for _, h := range c06Holders {
				var xs []*TV
				for _, n := range win {
					xs = append(xs, h.wrap(n.tv))
				}
				for _, sq := range c06Seqs {
					seq := sq.mk(xs)
					base := "element/" + win[0].fam
					c06Tag = map[string]string{"kind_histogram": win[0].kind, "holder_histogram": h.name, "sequence_histogram": sq.name}
					for _, pos := range []struct {
						pre string
						d   *TV
					}{{"$.xs", c06Map("xs", seq)}, {"$", seq}, {"$.xs", c06Struct("xs", seq)}} {
						c06Scalar(c, pos.pre+".First()", pos.d, win[0].rat, base+"/First")
						c06Scalar(c, pos.pre+".Last()", pos.d, win[len(win)-1].rat, base+"/Last")
						for i, n := range win {
							c06Scalar(c, fmt.Sprintf("%s.Index(%d)", pos.pre, i), pos.d, n.rat, base+"/Index")
						}
					}
					c06Scalar(c, "$.xs.First().Add(0)", c06Map("xs", seq), win[0].rat, base+"/First-receiver")
				}
				// stepped key
				var wantL, wantTag []string
				for _, n := range win {
					wantL = append(wantL, "n:"+n.rat.RatString())
					wantTag = append(wantTag, "d:")
				}
				objsOf := func(mk func(v *TV) *TV) []*TV {
					var os []*TV
					for _, x := range xs {
						os = append(os, mk(x))
					}
					return os
				}
				for _, oc := range []struct {
					name string
					seq  *TV
				}{
					{"[]any-of-maps", tvSlice(1, objsOf(func(v *TV) *TV { return c06Map("k", v) })...)},
					{"[]any-of-structs", tvSlice(1, objsOf(func(v *TV) *TV { return c06Struct("k", v) })...)},
					{"[]any-of-struct-pointers", tvSlice(1, objsOf(func(v *TV) *TV { return tvPtr(c06Struct("k", v)) })...)},
					{"typed-slice-of-structs", tvSlice(0, objsOf(func(v *TV) *TV { return c06Struct("k", v) })...)},
					{"typed-slice-of-maps", tvSlice(0, objsOf(func(v *TV) *TV { return c06Map("k", v) })...)},
					{"array-of-structs", tvArray(0, objsOf(func(v *TV) *TV { return c06Struct("k", v) })...)},
				} {
					base := "stepped-key/" + win[0].fam
					c06Tag = map[string]string{"kind_histogram": win[0].kind, "holder_histogram": h.name, "sequence_histogram": oc.name}
					for _, pos := range []struct {
						pre string
						d   *TV
					}{{"$.xs", c06Map("xs", oc.seq)}, {"$", oc.seq}} {
						c06Collected(c, pos.pre+".k", pos.d, wantL, wantTag, base+"/collect")
						c06Scalar(c, pos.pre+".k.First()", pos.d, win[0].rat, base+"/First")
						c06Scalar(c, pos.pre+".k.Last()", pos.d, win[len(win)-1].rat, base+"/Last")
					}
					d := c06Struct("xs", oc.seq)
					c06Collected(c, "$.xs.K", d, wantL, wantTag, base+"/collect")
					for i, n := range win {
						c06Scalar(c, fmt.Sprintf("$.xs.k.Index(%d)", i), d, n.rat, base+"/Index")
					}
				}
			}
		}
	}

	// 4. booleans and non-numeral strings are returned unchanged
	c06Tag = map[string]string{}
	c06Unchanged(c)
	c06SameTypeHistory(c)
	c.Exhaustive = true

	// 5. random heterogeneous documents: numbers of every carrier next to strings and bools
	strs := c06NonNumerals()
	nDocs := c.scale(900, 20000)
	for it := 0; it < nDocs; it++ {
		ln := 1 + c.R.Intn(8)
		var elems, objsM, objsS []*TV
		var wantL, wantTag []string
		var rats []*big.Rat
		for i := 0; i < ln; i++ {
			var t *TV
			switch c.R.Intn(8) {
			case 0:
				s := c.R.Pick(strs)
				t = tvStr(s)
				wantL, wantTag, rats = append(wantL, "s:"+hx(s)), append(wantTag, "s:"+hx(s)), append(rats, nil)
			case 1:
				b := c.R.Bool()
				t = tvBool(b)
				wantL, wantTag, rats = append(wantL, "b:"+b2s(b)), append(wantTag, "b:"+b2s(b)), append(rats, nil)
			default:
				n := all[c.R.Intn(len(all))]
				t = n.tv
				if c.R.Intn(3) == 0 {
					t = tvPtr(t)
				}
				wantL, wantTag, rats = append(wantL, "n:"+n.rat.RatString()), append(wantTag, "d:"), append(rats, n.rat)
			}
			elems = append(elems, t)
			objsM = append(objsM, c06Map("k", t))
			objsS = append(objsS, c06Struct("k", t))
		}
		seqs := []struct {
			name string
			tv   *TV
		}{{"[]any", tvSlice(1, elems...)}, {"[n]any", tvArray(1, elems...)}}
		sq := seqs[c.R.Intn(2)]
		d := tvMap("str", [][2]any{{hx("xs"), sq.tv}, {hx("ms"), tvSlice(1, objsM...)}, {hx("ss"), tvSlice(1, objsS...)}})
		if c.R.Bool() {
			d = tvStruct([][3]any{{"Xs", 1, sq.tv}, {"Ms", 1, tvSlice(1, objsM...)}, {"Ss", 1, tvArray(1, objsS...)}})
		}
		one := func(q string, i int, cls string) {
			if rats[i] != nil {
				c06Scalar(c, q, d, rats[i], cls)
			} else {
				c06Exact(c, q, d, wantTag[i], cls)
			}
		}
		one("$.xs.First()", 0, "random-mixed/First")
		one("$.xs.Last()", ln-1, "random-mixed/Last")
		i := c.R.Intn(ln)
		one(fmt.Sprintf("$.xs.Index(%d)", i), i, "random-mixed/Index")
		c06Collected(c, "$.ms.k", d, wantL, wantTag, "random-mixed/stepped-key-maps")
		c06Collected(c, "$.ss.k", d, wantL, wantTag, "random-mixed/stepped-key-structs")
		j := c.R.Intn(ln)
		one(fmt.Sprintf("$.ms.k.Index(%d)", j), j, "random-mixed/stepped-key-Index")
		one(fmt.Sprintf("$.ss.Index(%d).k", j), j, "random-mixed/Index-then-key")
		if rats[j] != nil {
			c06Scalar(c, fmt.Sprintf("$.ms.Index(%d).k.Add(0)", j), d, rats[j], "random-mixed/receiver")
		}
	}

	// 6. numeral strings: outside the quantifier ("strings that are not numerals"), run for the model comparison only
	for _, s := range []string{"12", "0123", "1e3", "-0.50", "1.5", "+7", ".5", "1_000"} {
		_, err := decimal.NewFromString(s)
		cls := "numeral-string"
		if err != nil {
			cls = "numeral-lookalike"
		}
		for _, t := range []*TV{tvStr(s), tvNStr(s), tvPtr(tvStr(s))} {
			for _, qd := range []struct {
				q string
				d *TV
			}{{"$", t}, {"$.k", c06Map("k", t)}, {"$.k", c06Struct("k", t)}, {"$.k.Add(0)", c06Map("k", t)}, {"$.xs.First()", c06Map("xs", tvSlice(1, t))},
				{"$.xs.k", c06Map("xs", tvSlice(1, c06Map("k", t)))}, {"$.xs.Index(0)", c06Map("xs", tvSlice(0, t, t))}} {
				c.Do(Case{Q: qd.q, D: qd.d, XK: "", Cls: cls, InDomain: false})
			}
		}
	}
}

func c06NonNumerals() []string {
	cand := []string{"", "abc", "hello world", "x1", "1x", "e", "-", ".", "1.2.3", "0x10", "1e", "e5", "--1", "NaN", "Inf", "true", "12 ", " 12", "1,5", "é", "a\"b", "½", "१२"}
	var out []string
	for _, s := range cand {
		if _, err := decimal.NewFromString(s); err != nil {
			out = append(out, s)
		}
	}
	return out
}

func c06Quote(s string) string {
	return `"` + strings.ReplaceAll(s, `"`, `\"`) + `"`
}

// c06Unchanged: booleans and non-numeral strings in every position; plain, named and behind a pointer.
func c06Unchanged(c *Ctx) {
	type val struct {
		tv    *TV
		exact string // exact form of the value itself
		logic string
		lit   string // literal equal to it
		cls   string
	}
	var vals []val
	for _, b := range []bool{true, false} {
		lit := "false"
		if b {
			lit = "true"
		}
		vals = append(vals, val{tvBool(b), "b:" + b2s(b), "b:" + b2s(b), lit, "bool"})
		vals = append(vals, val{tvNBool(b), "nb:" + b2s(b), "b:" + b2s(b), lit, "named-bool"})
	}
	for _, s := range c06NonNumerals() {
		lit := c06Quote(s)
		if strings.ContainsAny(s, "\\") {
			lit = ""
		}
		vals = append(vals, val{tvStr(s), "s:" + hx(s), "s:" + hx(s), lit, "string"})
		vals = append(vals, val{tvNStr(s), "ns:" + hx(s), "s:" + hx(s), lit, "named-string"})
	}
	for _, v := range vals {
		cls := "unchanged/" + v.cls
		// bare paths: the value comes back exactly as it went in (a named string stays the named string)
		c06Exact(c, "$", v.tv, v.exact, cls+"/root")
		c06Exact(c, "$.k", c06Map("k", v.tv), v.exact, cls+"/map-value")
		c06Exact(c, "$.k", c06Struct("k", v.tv), v.exact, cls+"/struct-field")
		c06Exact(c, "$.k", tvPtr(c06Struct("k", v.tv)), v.exact, cls+"/struct-field")
		// behind a pointer the pointer itself is what was stored
		c06Exact(c, "$", tvPtr(v.tv), "p("+v.exact+")", cls+"/pointer/root")
		c06Exact(c, "$.k", c06Map("k", tvPtr(v.tv)), "p("+v.exact+")", cls+"/pointer/map-value")
		c06Exact(c, "$.k", c06Struct("k", tvPtr(v.tv)), "p("+v.exact+")", cls+"/pointer/struct-field")
		// collected by a stepped key: unchanged elements in a []any
		other := tvInt("uint8", "255")
		for _, oc := range []struct {
			name string
			mk   func(v *TV) *TV
		}{{"maps", func(x *TV) *TV { return c06Map("k", x) }}, {"structs", func(x *TV) *TV { return c06Struct("k", x) }}} {
			seq := tvSlice(1, oc.mk(v.tv), oc.mk(other), oc.mk(v.tv))
			o := c.Do(Case{Q: "$.xs.k", D: c06Map("xs", seq), XK: "exact", X: "ok sl10[" + v.exact + ",d:255e0," + v.exact + "]", Cls: cls + "/stepped-key-" + oc.name, InDomain: true})
			_ = o
		}
		// slice elements through First/Last/Index: same content (the functions work on plain strings and bools, so a
		// named type is compared by content here; plain values must be exactly unchanged)
		for _, sq := range c06Seqs {
			seq := sq.mk([]*TV{v.tv, v.tv})
			if sq.name == "[]any" || sq.name == "[n]any" {
				seq = sq.mk([]*TV{v.tv, tvInt("int16", "-32768"), v.tv})
			}
			for _, q := range []string{"$.xs.First()", "$.xs.Last()", "$.xs.Index(0)"} {
				if v.cls == "bool" || v.cls == "string" {
					c06Exact(c, q, c06Map("xs", seq), v.exact, cls+"/element")
				} else {
					c06Logical(c, q, c06Map("xs", seq), v.logic, cls+"/element")
				}
			}
		}
		// as a function receiver
		if v.lit != "" {
			c06Exact(c, "$.k.Equal("+v.lit+")", c06Map("k", v.tv), "b:1", cls+"/receiver-equal")
			c06Exact(c, "$.k.Equal("+v.lit+")", c06Struct("k", v.tv), "b:1", cls+"/receiver-equal")
		}
		c06Logical(c, "$.k.AsArray().First()", c06Map("k", v.tv), v.logic, cls+"/receiver")
	}
}

// c06SameTypeHistory: a struct field whose static type is an interface or a pointer holds a non-number in one record and
// a number in the next record OF THE SAME STRUCT TYPE - one after the other in one process, and side by side in one
// array. Whatever was learnt about the field from the first record must not be applied to the second.
func c06SameTypeHistory(c *Ctx) {
	type holder struct {
		name string
		non  *TV // what the field holds first
		num  func(v *TV) *TV
		flag int
	}
	holders := []holder{
		{"iface-field/string-then-number", tvStr("n/a"), func(v *TV) *TV { return v }, 2},
		{"iface-field/nil-then-number", tvNil(), func(v *TV) *TV { return v }, 2},
		{"iface-field/bool-then-number", tvBool(true), func(v *TV) *TV { return v }, 2},
	}
	nums := []struct {
		tv  *TV
		rat *big.Rat
		ptr bool
	}{
		{tvInt("int", "7"), big.NewRat(7, 1), false},
		{tvInt("uint64", "18446744073709551615"), new(big.Rat).SetInt(c06Big("18446744073709551615")), false},
		{tvInt("int8", "-128"), big.NewRat(-128, 1), false},
		{tvF64(2.5), big.NewRat(5, 2), false},
		{tvPtr(tvInt("int64", "9")), big.NewRat(9, 1), true},
	}
	mk := func(flag int, v *TV) *TV {
		return tvStruct([][3]any{{"Pad", 1, tvStr("pad")}, {"K", flag, v}})
	}
	for _, h := range holders {
		for _, n := range nums {
			first, second := mk(h.flag, h.non), mk(h.flag, h.num(n.tv))
			// one after the other
			c.Do(Case{Q: "$.K", D: first, XK: "", Cls: "same-type-history/" + h.name + "/first", InDomain: true})
			c06Scalar(c, "$.K", second, n.rat, "same-type-history/"+h.name+"/second")
			c06Scalar(c, "$.k.Add(0)", second, n.rat, "same-type-history/"+h.name+"/second-receiver")
			// side by side: the key stepped across the records
			d := tvMap("str", [][2]any{{hx("xs"), tvSlice(1, first, second, second)}})
			o := c.Do(Case{Q: "$.xs.K.Last()", D: d, XK: "logical", X: "n:" + n.rat.RatString(), Cls: "same-type-history/" + h.name + "/stepped-key", InDomain: true})
			if o.Class == "ok" && !strings.HasPrefix(o.Exact, "d:") {
				c.addViolation(Violation{Kind: "oracle", Query: "$.xs.K.Last()", QueryHex: hx("$.xs.K.Last()"), Data: d, Expected: "a decimal.Decimal", Got: o.Line(),
					Why: "a number collected by stepping a key across records of one struct type is not a decimal.Decimal", Cls: "same-type-history/" + h.name, Key: "type:same-type-history"})
			}
		}
	}
	// pointer-typed fields: nil pointer first, then a pointer to a number (the same field type *T)
	for _, k := range []string{"int", "int64", "uint8", "uint64"} {
		first := tvStruct([][3]any{{"Pad", 1, tvStr("pad")}, {"K", 1, tvNilPtr(tvInt(k, "0"))}})
		second := tvStruct([][3]any{{"Pad", 1, tvStr("pad")}, {"K", 1, tvPtr(tvInt(k, "5"))}})
		c.Do(Case{Q: "$.K", D: first, XK: "", Cls: "same-type-history/ptr-field/first", InDomain: true})
		c06Scalar(c, "$.K", second, big.NewRat(5, 1), "same-type-history/ptr-field/second")
		d := tvMap("str", [][2]any{{hx("xs"), tvSlice(1, first, second)}})
		c06Scalar(c, "$.xs.K.Last()", d, big.NewRat(5, 1), "same-type-history/ptr-field/stepped-key")
	}
}
