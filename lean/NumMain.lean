import Mp
open Mp
partial def loop (h : IO.FS.Stream) (out : IO.FS.Stream) : IO Unit := do
  let line ← h.getLine
  if line.isEmpty then return ()
  let tok := (line.dropRightWhile (· == '\n')).toUTF8.toList
  let r := match parseFloat tok with
    | .syntaxErr => "syntax"
    | .rangeErr => "range"
    | .nan => "nan"
    | .inf n => if n then "-inf" else "+inf"
    | .fin neg m e => let (c, x) := decOfFloat neg m e; s!"{c}e{x}"
  out.putStrLn r
  loop h out
def main : IO Unit := do loop (← IO.getStdin) (← IO.getStdout)
