import Lean.Data.Json
import Mp.Cue
open Lean Mp

partial def decTy (j : Json) : CTy :=
  let t := (j.getObjValAs? String "t").toOption.getD ""
  let isOpen := (j.getObjValAs? Nat "open").toOption.getD 0 == 1
  match t with
  | "list" => .list isOpen (match j.getObjVal? "e" with | .ok e => decTy e | _ => .prim "top")
  | "struct" =>
    let fs := match j.getObjVal? "f" with | .ok (.arr a) => a.toList | _ => []
    .struct isOpen (fs.map fun f =>
      let m := match (f.getObjValAs? String "m").toOption.getD "reg" with | "opt" => Mark.opt | "req" => .req | _ => .reg
      .mk ((f.getObjValAs? String "n").toOption.getD "") m ((f.getObjValAs? Nat "h").toOption.getD 0 == 1) ((f.getObjValAs? Nat "q").toOption.getD 0 == 1)
        (match f.getObjVal? "ty" with | .ok ty => decTy ty | _ => .prim "top"))
  | "deplist" => .deplist (match j.getObjVal? "v" with | .ok (.arr a) => a.toList.filterMap (·.getStr?.toOption) | _ => [])
  | k => .prim k

def handleCue (line : String) : String :=
  match Json.parse line with
  | .error e => s!"BADJSON {e}"
  | .ok j =>
    let root := match j.getObjVal? "s" with | .ok s => decTy s | _ => .prim "top"
    let p := match j.getObjVal? "p" with | .ok (.arr a) => a.toList.filterMap (·.getStr?.toOption) | _ => []
    let cp := (j.getObjValAs? String "cp").toOption.getD ""
    match validate root p cp with
    | .acc t io => s!"ACC {t} {io}"
    | .rej c => s!"REJ {c}"
    | .err => "ERR"

partial def loop (h : IO.FS.Stream) (out : IO.FS.Stream) : IO Unit := do
  let line ← h.getLine
  if line.isEmpty then return ()
  out.putStrLn (handleCue line.trimRight)
  loop h out
def main : IO Unit := do loop (← IO.getStdin) (← IO.getStdout)
