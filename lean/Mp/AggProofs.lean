import Mp.DivProofs3
import Mathlib.Algebra.Order.Ring.Abs
/-! C04 — aggregates over lists of ANY length: Sum is exact, Minimum / Maximum return the least / greatest value,
    Average is within half a unit of the 16th decimal place of the exact mean. -/
namespace Mp
namespace Dec

theorem sumL_toRat : ∀ (xs : List Dec) (acc : Dec), (sumL acc xs).toRat = acc.toRat + (xs.map toRat).sum := by
  intro xs
  induction xs with
  | nil => intro acc; simp [sumL]
  | cons x xs ih => intro acc; rw [sumL, ih, add_toRat]; simp [add_assoc]

theorem cmp_lt_iff (a b : Dec) : (cmp a b == .lt) = true ↔ a.toRat < b.toRat := by
  rw [cmp_spec]
  rcases lt_trichotomy a.toRat b.toRat with h | h | h
  · simp [compare_lt_iff_lt.mpr h, h]
  · simp [h]
  · have : compare a.toRat b.toRat = .gt := compare_gt_iff_gt.mpr h
    simp [this, not_lt.mpr (le_of_lt h)]

theorem cmp_gt_iff (a b : Dec) : (cmp a b == .gt) = true ↔ b.toRat < a.toRat := by
  rw [cmp_spec]
  rcases lt_trichotomy a.toRat b.toRat with h | h | h
  · simp [compare_lt_iff_lt.mpr h, not_lt.mpr (le_of_lt h)]
  · simp [h]
  · have : compare a.toRat b.toRat = .gt := compare_gt_iff_gt.mpr h
    simp [this, h]

/-- Minimum returns a lower bound that is one of the values -/
theorem minL_spec : ∀ (xs : List Dec) (acc : Dec),
    (∀ y ∈ acc :: xs, (minL acc xs).toRat ≤ y.toRat) ∧ (minL acc xs) ∈ acc :: xs := by
  intro xs
  induction xs with
  | nil => intro acc; simp [minL]
  | cons x xs ih =>
    intro acc
    rw [minL]
    by_cases h : (cmp x acc == .lt) = true
    · simp only [h, if_true]
      obtain ⟨hle, hmem⟩ := ih x
      have hx : x.toRat < acc.toRat := (cmp_lt_iff x acc).mp h
      refine ⟨?_, ?_⟩
      · intro y hy
        rcases List.mem_cons.mp hy with rfl | hy
        · exact le_trans (hle x (List.mem_cons_self)) (le_of_lt hx)
        · exact hle y hy
      · rcases List.mem_cons.mp hmem with h1 | h1
        · rw [h1]; simp
        · exact List.mem_cons_of_mem _ (List.mem_cons_of_mem _ h1)
    · simp only [h, if_false, Bool.false_eq_true]
      obtain ⟨hle, hmem⟩ := ih acc
      have hx : ¬ x.toRat < acc.toRat := fun hh => h ((cmp_lt_iff x acc).mpr hh)
      refine ⟨?_, ?_⟩
      · intro y hy
        rcases List.mem_cons.mp hy with rfl | hy
        · exact hle _ (List.mem_cons_self)
        · rcases List.mem_cons.mp hy with rfl | hy
          · exact le_trans (hle acc (List.mem_cons_self)) (not_lt.mp hx)
          · exact hle y (List.mem_cons_of_mem _ hy)
      · rcases List.mem_cons.mp hmem with h1 | h1
        · rw [h1]; simp
        · exact List.mem_cons_of_mem _ (List.mem_cons_of_mem _ h1)

/-- Maximum returns an upper bound that is one of the values -/
theorem maxL_spec : ∀ (xs : List Dec) (acc : Dec),
    (∀ y ∈ acc :: xs, y.toRat ≤ (maxL acc xs).toRat) ∧ (maxL acc xs) ∈ acc :: xs := by
  intro xs
  induction xs with
  | nil => intro acc; simp [maxL]
  | cons x xs ih =>
    intro acc
    rw [maxL]
    by_cases h : (cmp x acc == .gt) = true
    · simp only [h, if_true]
      obtain ⟨hle, hmem⟩ := ih x
      have hx : acc.toRat < x.toRat := (cmp_gt_iff x acc).mp h
      refine ⟨?_, ?_⟩
      · intro y hy
        rcases List.mem_cons.mp hy with rfl | hy
        · exact le_trans (le_of_lt hx) (hle x (List.mem_cons_self))
        · exact hle y hy
      · rcases List.mem_cons.mp hmem with h1 | h1
        · rw [h1]; simp
        · exact List.mem_cons_of_mem _ (List.mem_cons_of_mem _ h1)
    · simp only [h, if_false, Bool.false_eq_true]
      obtain ⟨hle, hmem⟩ := ih acc
      have hx : ¬ acc.toRat < x.toRat := fun hh => h ((cmp_gt_iff x acc).mpr hh)
      refine ⟨?_, ?_⟩
      · intro y hy
        rcases List.mem_cons.mp hy with rfl | hy
        · exact hle _ (List.mem_cons_self)
        · rcases List.mem_cons.mp hy with rfl | hy
          · exact le_trans (not_lt.mp hx) (hle acc (List.mem_cons_self))
          · exact hle y (List.mem_cons_of_mem _ hy)
      · rcases List.mem_cons.mp hmem with h1 | h1
        · rw [h1]; simp
        · exact List.mem_cons_of_mem _ (List.mem_cons_of_mem _ h1)

theorem ofNat_toRat (n : Nat) : (ofNat n).toRat = n := by simp [ofNat, toRat]

/-- Average is within ½·10⁻¹⁶ of the exact mean, for lists of any length -/
theorem avgL_bound (first : Dec) (rest : List Dec) :
    |(avgL first rest).toRat - (first.toRat + (rest.map toRat).sum) / ((rest.length + 1 : Nat) : ℚ)| ≤ 1 / 2 * (10 : ℚ) ^ (-16 : Int) := by
  unfold avgL
  have hne : (ofNat (rest.length + 1)).coef ≠ 0 := by simp [ofNat]; omega
  have := div_bound (sumL first rest) (ofNat (rest.length + 1)) hne
  rw [sumL_toRat, ofNat_toRat] at this
  exact this

#print axioms sumL_toRat
#print axioms minL_spec
#print axioms maxL_spec
#print axioms avgL_bound
end Dec
end Mp
