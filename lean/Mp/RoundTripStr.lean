import Mp.RoundTripLex
import Mp.EscBridge
/-! C09 — string literals through print → scan → unescape: for every ASCII string without a backslash, the printed literal
    `"…"` (with `"` and the seven control characters escaped) is scanned as ONE string token whose text is the printed literal,
    and unquoting + unescaping the token gives the string back. With `Mp.RoundTrip` this extends the print/parse round trip to
    calls that take a string argument. -/
namespace Mp
open Esc

/-- what one byte of the literal becomes in the printed text -/
def escByte (c : UInt8) : Bytes :=
  if c == 34 then [92, 34] else if c == 7 then [92, 97] else if c == 8 then [92, 98] else if c == 12 then [92, 102]
  else if c == 10 then [92, 110] else if c == 13 then [92, 114] else if c == 9 then [92, 116] else if c == 11 then [92, 118] else [c]

theorem escape_cons (c : UInt8) (t : Bytes) : Mp.escape (c :: t) = escByte c ++ Mp.escape t := by
  simp [Mp.escape, escByte]

theorem escape_nil : Mp.escape [] = [] := rfl

/-- a byte of a literal body: ASCII, not NUL, not a backslash -/
structure LitByte (b : UInt8) : Prop where
  asc : b.toNat < 128
  nz : b.toNat ≠ 0
  notBs : b ≠ 92

def Lit (s : Bytes) : Prop := ∀ b ∈ s, LitByte b

theorem asc_escByte (c : UInt8) (h : LitByte c) : Asc (escByte c) := by
  unfold escByte
  repeat' split
  all_goals (intro b hb; simp at hb)
  all_goals first
    | (rcases hb with rfl | rfl <;> exact ⟨by decide, by decide⟩)
    | (subst hb; exact ⟨h.asc, h.nz⟩)

theorem asc_escape (s : Bytes) (h : Lit s) : Asc (Mp.escape s) := by
  induction s with
  | nil => intro b hb; cases hb
  | cons c t ih =>
    rw [escape_cons]
    intro b hb
    rcases List.mem_append.mp hb with h1 | h1
    · exact asc_escByte c (h c (by simp)) b h1
    · exact ih (fun x hx => h x (List.mem_cons_of_mem _ hx)) b h1

/-- one byte of the literal inside the string loop: either a plain byte is stepped over, or the two bytes of an escape are -/
theorem stringLoop_step (c : UInt8) (hc : LitByte c) (tok : Bytes) (e : Nat) (rest : Bytes) (har : Asc rest) (f n : Nat) :
    ∃ n', scanStringLoop 34 (f + 1) (mkS tok e (escByte c ++ rest)) n = scanStringLoop 34 f (mkS (tok ++ escByte c) e rest) n' := by
  unfold escByte
  by_cases h34 : c = 34
  · subst h34
    simp only [beq_self_eq_true, if_true, List.cons_append, List.nil_append]
    have hr : Asc (34 :: rest) := fun b hb => by
      rcases List.mem_cons.mp hb with rfl | h
      · exact ⟨by decide, by decide⟩
      · exact har b h
    refine ⟨n + 1, ?_⟩
    conv => lhs; unfold scanStringLoop
    have h1 : ((mkS tok e (92 :: 34 :: rest)).ch == 34) = false := by simp [mkS]
    have h2 : ((mkS tok e (92 :: 34 :: rest)).ch == 10 || decide ((mkS tok e (92 :: 34 :: rest)).ch < 0)) = false := by simp [mkS]
    have h3 : ((mkS tok e (92 :: 34 :: rest)).ch == 92) = true := by simp [mkS]
    simp only [h1, h2, h3, Bool.false_eq_true, if_false, if_true]
    unfold scanEscape
    rw [mkS_next tok e 92 (34 :: rest) hr]
    have hch : (mkS (tok ++ [92]) e (34 :: rest)).ch = 34 := rfl
    simp only [hch]
    rw [mkS_next (tok ++ [92]) e 34 rest har]
    simp
  · -- the seven control characters and the plain bytes
    have hplain : ∀ (x : UInt8), (x.toNat < 128 ∧ x.toNat ≠ 0) → x ≠ 34 → x ≠ 92 → x ≠ 10 → ∀ (tok : Bytes) (rest : Bytes), Asc rest → ∀ n,
        scanStringLoop 34 (f + 1) (mkS tok e (x :: rest)) n = scanStringLoop 34 f (mkS (tok ++ [x]) e rest) (n + 1) := by
      intro x hx h34' h92 h10 tok rest har n
      conv => lhs; unfold scanStringLoop
      have hxi : ((x.toNat : Int) == 34) = false := by
        have : x.toNat ≠ 34 := fun h => h34' (UInt8.toNat_inj.mp (by simpa using h))
        simp; omega
      have hx10 : ((x.toNat : Int) == 10) = false := by
        have : x.toNat ≠ 10 := fun h => h10 (UInt8.toNat_inj.mp (by simpa using h))
        simp; omega
      have hx92 : ((x.toNat : Int) == 92) = false := by
        have : x.toNat ≠ 92 := fun h => h92 (UInt8.toNat_inj.mp (by simpa using h))
        simp; omega
      have hneg : decide ((x.toNat : Int) < 0) = false := by simp
      have hch : (mkS tok e (x :: rest)).ch = (x.toNat : Int) := rfl
      simp only [hch, hxi, hx10, hx92, hneg, Bool.or_self, Bool.false_eq_true, if_false]
      rw [mkS_next tok e x rest har]
    have hesc : ∀ (x : UInt8), (x = 97 ∨ x = 98 ∨ x = 102 ∨ x = 110 ∨ x = 114 ∨ x = 116 ∨ x = 118) → ∀ (tok : Bytes) (rest : Bytes), Asc rest → ∀ n,
        scanStringLoop 34 (f + 1) (mkS tok e (92 :: x :: rest)) n = scanStringLoop 34 f (mkS (tok ++ [92, x]) e rest) (n + 1) := by
      intro x hx tok rest har n
      have hxa : x.toNat < 128 ∧ x.toNat ≠ 0 := by rcases hx with rfl | rfl | rfl | rfl | rfl | rfl | rfl <;> exact ⟨by decide, by decide⟩
      have hr : Asc (x :: rest) := fun b hb => by
        rcases List.mem_cons.mp hb with rfl | h
        · exact hxa
        · exact har b h
      conv => lhs; unfold scanStringLoop
      have h1 : ((mkS tok e (92 :: x :: rest)).ch == 34) = false := by simp [mkS]
      have h2 : ((mkS tok e (92 :: x :: rest)).ch == 10 || decide ((mkS tok e (92 :: x :: rest)).ch < 0)) = false := by simp [mkS]
      have h3 : ((mkS tok e (92 :: x :: rest)).ch == 92) = true := by simp [mkS]
      simp only [h1, h2, h3, Bool.false_eq_true, if_false, if_true]
      unfold scanEscape
      rw [mkS_next tok e 92 (x :: rest) hr]
      have hch : (mkS (tok ++ [92]) e (x :: rest)).ch = (x.toNat : Int) := rfl
      simp only [hch]
      have hok : (((x.toNat : Int) == 97 || (x.toNat : Int) == 98 || (x.toNat : Int) == 102 || (x.toNat : Int) == 110 || (x.toNat : Int) == 114 ||
          (x.toNat : Int) == 116 || (x.toNat : Int) == 118 || (x.toNat : Int) == 92 || (x.toNat : Int) == 34) = true) := by
        rcases hx with rfl | rfl | rfl | rfl | rfl | rfl | rfl <;> decide
      simp only [hok, if_true]
      rw [mkS_next (tok ++ [92]) e x rest har]
      simp
    by_cases h7 : c = 7
    · subst h7; exact ⟨n + 1, by simpa using hesc 97 (by simp) tok rest har n⟩
    by_cases h8 : c = 8
    · subst h8; exact ⟨n + 1, by simpa using hesc 98 (by simp) tok rest har n⟩
    by_cases h12 : c = 12
    · subst h12; exact ⟨n + 1, by simpa using hesc 102 (by simp) tok rest har n⟩
    by_cases h10 : c = 10
    · subst h10; exact ⟨n + 1, by simpa using hesc 110 (by simp) tok rest har n⟩
    by_cases h13 : c = 13
    · subst h13; exact ⟨n + 1, by simpa using hesc 114 (by simp) tok rest har n⟩
    by_cases h9 : c = 9
    · subst h9; exact ⟨n + 1, by simpa using hesc 116 (by simp) tok rest har n⟩
    by_cases h11 : c = 11
    · subst h11; exact ⟨n + 1, by simpa using hesc 118 (by simp) tok rest har n⟩
    · refine ⟨n + 1, ?_⟩
      have := hplain c ⟨hc.asc, hc.nz⟩ h34 hc.notBs h10 tok rest har n
      simpa [h34, h7, h8, h12, h10, h13, h9, h11] using this

/-- the string loop takes the whole printed body and stops at the closing quote -/
theorem stringLoop_body : ∀ (s : Bytes) (tok : Bytes) (e : Nat) (rest : Bytes) (f n : Nat), Lit s → Asc rest → s.length < f →
    ∃ n', scanStringLoop 34 f (mkS tok e (Mp.escape s ++ 34 :: rest)) n = (mkS (tok ++ Mp.escape s) e (34 :: rest), n') := by
  intro s
  induction s with
  | nil =>
    intro tok e rest f n _ _ hf
    cases f with
    | zero => omega
    | succ f =>
      refine ⟨n, ?_⟩
      unfold scanStringLoop
      simp [escape_nil, mkS]
  | cons c t ih =>
    intro tok e rest f n hl har hf
    cases f with
    | zero => omega
    | succ f =>
      have hc := hl c (by simp)
      have hlt : Lit t := fun x hx => hl x (List.mem_cons_of_mem _ hx)
      have har2 : Asc (Mp.escape t ++ 34 :: rest) := by
        intro b hb
        rcases List.mem_append.mp hb with h | h
        · exact asc_escape t hlt b h
        · rcases List.mem_cons.mp h with rfl | h
          · exact ⟨by decide, by decide⟩
          · exact har b h
      obtain ⟨n1, h1⟩ := stringLoop_step c hc tok e (Mp.escape t ++ 34 :: rest) har2 f n
      obtain ⟨n2, h2⟩ := ih (tok ++ escByte c) e rest f n1 hlt har (by simp at hf; omega)
      refine ⟨n2, ?_⟩
      rw [escape_cons, List.append_assoc, h1, h2]
      simp [List.append_assoc]

theorem escape_length_ge (s : Bytes) : s.length ≤ (Mp.escape s).length := by
  induction s with
  | nil => simp [escape_nil]
  | cons c t ih =>
    rw [escape_cons]
    have : 1 ≤ (escByte c).length := by
      unfold escByte
      repeat' split
      all_goals simp
    simp; omega

/-- THE STRING TOKEN: the printed literal is scanned as one string token, and its text is the printed literal -/
theorem scan_string (T : Tables) (s : Bytes) (st : Sc) (e : Nat) (rest : Bytes) (hl : Lit s) (har : Asc rest)
    (hprep : sxPrep st = mkS [] e (34 :: (Mp.escape s ++ 34 :: rest))) :
    scan T st = (.str, mkS (34 :: (Mp.escape s ++ [34])) e rest) := by
  have hbody : Asc (Mp.escape s ++ 34 :: rest) := by
    intro b hb
    rcases List.mem_append.mp hb with h | h
    · exact asc_escape s hl b h
    · rcases List.mem_cons.mp h with rfl | h
      · exact ⟨by decide, by decide⟩
      · exact har b h
  unfold scan mScan sxScan
  rw [hprep]
  unfold sxBody
  have h1 : isIdentRune T (mkS [] e (34 :: (Mp.escape s ++ 34 :: rest))).ch = false := by
    have : (34 : Nat) ∈ invalidRunes := by decide
    simp [isIdentRune, mkS, this]
  have hc : (mkS [] e (34 :: (Mp.escape s ++ 34 :: rest))).ch = 34 := rfl
  simp only [h1, hc]
  have hstr : scanString (mkS [] e (34 :: (Mp.escape s ++ 34 :: rest))) 34 = (mkS ([34] ++ Mp.escape s) e (34 :: rest), (scanString (mkS [] e (34 :: (Mp.escape s ++ 34 :: rest))) 34).2) := by
    unfold scanString
    rw [mkS_next [] e 34 _ hbody]
    obtain ⟨n', hn⟩ := stringLoop_body s ([] ++ [34]) e rest ((mkS ([] ++ [34]) e (Mp.escape s ++ 34 :: rest)).rest.length + 2) 0 hl har (by
      have h := escape_length_ge s
      cases hq : Mp.escape s ++ 34 :: rest with
      | nil => simp at hq
      | cons a b =>
        have hlen : (Mp.escape s ++ 34 :: rest).length = (a :: b).length := by rw [hq]
        simp [mkS] at hlen ⊢; omega)
    simp only [hn]
    simp
  rw [hstr]
  simp only []
  rw [mkS_next ([34] ++ Mp.escape s) e 34 rest har]
  have h1' : isIdentRune T 34 = false := by
    have : (34 : Nat) ∈ invalidRunes := by decide
    simp [isIdentRune, this]
  simp [h1']

/-- unquoting and unescaping the token text gives the string back -/
theorem unescape_token (s : Bytes) (hl : Lit s) : unescape (stripQuotes (34 :: (Mp.escape s ++ [34]))) = s := by
  have hs : stripQuotes (34 :: (Mp.escape s ++ [34])) = Mp.escape s := by
    have hlast : (34 :: (Mp.escape s ++ [34])).getLast? = some 34 := by
      rw [← List.cons_append, List.getLast?_append]; simp
    unfold stripQuotes
    simp [hlast]
  rw [hs, unescape_eq_unescS, escape_eq]
  apply unesc_escape 92 byteRules byteRules_wf
  -- no backslash at all: no bad pair
  have hno : ∀ b ∈ s, b ≠ 92 := fun b hb => (hl b hb).notBs
  clear hs hl
  induction s with
  | nil => trivial
  | cons x t ih =>
    cases t with
    | nil => trivial
    | cons y t' =>
      refine ⟨fun h => hno x (by simp) h.1, ih (fun b hb => hno b (List.mem_cons_of_mem _ hb))⟩

#print axioms scan_string
#print axioms unescape_token
end Mp
