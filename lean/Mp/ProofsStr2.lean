import Mp.ProofsStr
import Mp.ProofsArr2
/-! C18 — the count of Left / Right / TrimLeft / TrimRight is a NUMBER, whatever decimal represents it: the count k written as
    `k`, `k.0`, `k.000` (what a division or a numeric string leaves) or with a positive exponent gives the same answer. Core-only. -/
namespace Mp

theorem stringPart_of (s : Bytes) (d : Dec) (k : Nat) (hd : IsIndex d k) (hk : k < 2147483647) (f : Bytes → Nat → Bytes) :
    stringPart [.num d] (.str false s) f = okStr (f s k) := by
  obtain ⟨h1, h2, h3, h4⟩ := hd
  have h5 : Dec.cmp d ⟨2147483647, 0⟩ = .lt := by
    have := h4 2147483647
    simp only [Dec.ofNat] at this
    rw [show ((2147483647 : Nat) : Int) = 2147483647 from rfl] at this
    rw [this]
    exact compare_lt_of_lt hk
  simp only [stringPart, firstOfNumber, prmNumbers, List.filterMap, List.length_singleton, bne_self_eq_false,
    Bool.false_eq_true, ↓reduceIte]
  simp [h1, h2, h3, h5]

/-- Left with the count k at any scale takes the first k bytes -/
theorem left_take_scaled (s : Bytes) (k sc : Nat) (hk : k < 2147483647) :
    pureFunc "Left" [.num ⟨((k * 10 ^ sc : Nat) : Int), -(sc : Int)⟩] (.str false s) = pureFunc "Left" [.num ⟨k, 0⟩] (.str false s) := by
  unfold pureFunc
  simp only [stringPart_of s _ k (isIndex_scaled k sc (by omega)) hk, stringPart_nat s k hk]

theorem right_drop_scaled (s : Bytes) (k sc : Nat) (hk : k < 2147483647) :
    pureFunc "Right" [.num ⟨((k * 10 ^ sc : Nat) : Int), -(sc : Int)⟩] (.str false s) = pureFunc "Right" [.num ⟨k, 0⟩] (.str false s) := by
  unfold pureFunc
  simp only [stringPart_of s _ k (isIndex_scaled k sc (by omega)) hk, stringPart_nat s k hk]

theorem trimLeft_scaled (s : Bytes) (k sc : Nat) (hk : k < 2147483647) :
    pureFunc "TrimLeft" [.num ⟨((k * 10 ^ sc : Nat) : Int), -(sc : Int)⟩] (.str false s) = pureFunc "TrimLeft" [.num ⟨k, 0⟩] (.str false s) := by
  unfold pureFunc
  simp only [stringPart_of s _ k (isIndex_scaled k sc (by omega)) hk, stringPart_nat s k hk]

theorem trimRight_scaled (s : Bytes) (k sc : Nat) (hk : k < 2147483647) :
    pureFunc "TrimRight" [.num ⟨((k * 10 ^ sc : Nat) : Int), -(sc : Int)⟩] (.str false s) = pureFunc "TrimRight" [.num ⟨k, 0⟩] (.str false s) := by
  unfold pureFunc
  simp only [stringPart_of s _ k (isIndex_scaled k sc (by omega)) hk, stringPart_nat s k hk]

#print axioms stringPart_of
#print axioms left_take_scaled
#print axioms right_drop_scaled
#print axioms trimLeft_scaled
#print axioms trimRight_scaled
end Mp
