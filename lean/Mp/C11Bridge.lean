import Mp.Eval
import Mp.PermProofs
import Mp.OrdProofs
/-! Prototype: C11 bridge — the concrete `findMapKey` of the evaluator model is the abstract `findKey` instantiated with
    bytewise `<`, `==` and `EqualFold`; hence it does not depend on the order in which Go iterates the map. Core-only. -/
namespace Mp

theorem bytesLt_eq_lex : ∀ a b : Bytes, bytesLt a b = OrdP.lexLt (fun (x y : UInt8) => decide (x < y)) a b := by
  intro a
  induction a with
  | nil => intro b; cases b <;> rfl
  | cons x xs ih =>
    intro b
    cases b with
    | nil => rfl
    | cons y ys =>
      simp only [bytesLt, OrdP.lexLt, ih ys, decide_eq_true_eq, GT.gt]

theorem bytesLt_ord : PermP.Ord bytesLt := by
  have h := OrdP.lex_ord (fun (x y : UInt8) => decide (x < y)) OrdP.byte_ord
  have e : bytesLt = OrdP.lexLt (fun (x y : UInt8) => decide (x < y)) := by
    funext a b; exact bytesLt_eq_lex a b
  rw [e]
  exact ⟨h.1, h.2.1, h.2.2⟩

theorem findMapKey_eq (keys : List Bytes) (vals : List GoVal) (name : Bytes) :
    findMapKey keys vals name =
      (PermP.findKey bytesLt (fun k => k == name) (fun k => equalFold k name && !k.isEmpty) (keys.zip vals)).map (fun p => p.2) := by
  unfold findMapKey PermP.findKey
  simp only []
  cases h1 : (keys.zip vals).find? (fun p => p.1 == name) with
  | some p => rfl
  | none =>
    simp only []
    cases h2 : (keys.zip vals).filter (fun p => equalFold p.1 name && !p.1.isEmpty) with
    | nil => rfl
    | cons c cs => rfl

/-- C11 on the model's own lookup: two listings of the same map entries (any two iteration orders) give the same value -/
theorem findMapKey_order_independent (keys keys' : List Bytes) (vals vals' : List GoVal) (name : Bytes)
    (hp : (keys.zip vals).Perm (keys'.zip vals'))
    (hd : (keys.zip vals).Pairwise (fun a b => a.1 ≠ b.1)) :
    findMapKey keys vals name = findMapKey keys' vals' name := by
  rw [findMapKey_eq, findMapKey_eq]
  rw [PermP.findKey_perm bytesLt (fun k => k == name) (fun k => equalFold k name && !k.isEmpty) bytesLt_ord _ _ hp hd
    (by intro a b ha hb; simp only [beq_iff_eq] at ha hb; rw [ha, hb])]

#print axioms findMapKey_order_independent
end Mp
