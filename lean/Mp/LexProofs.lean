import Mp.Lex
/-! Prototype: C08 — progress of the lexer: every token consumes input. Core-only. -/
namespace Mp

/-- bytes not yet consumed, counting the look-ahead character -/
def rem (s : Sc) : Nat := s.rest.length + (if s.ch == -1 then 0 else 1)

set_option maxHeartbeats 2000000 in
theorem decodeRune_width (b : UInt8) (t : Bytes) : 1 ≤ (decodeRune (b :: t)).2.1 := by
  unfold decodeRune
  simp only []
  (repeat' split) <;> first
    | exact Nat.le_refl 1
    | exact (by decide : 1 ≤ 2)
    | exact (by decide : 1 ≤ 3)
    | exact (by decide : 1 ≤ 4)

theorem natCast_ne_neg_one (r : Nat) : ((r : Int) == -1) = false := by
  have h0 : (0 : Int) ≤ (r : Int) := Int.natCast_nonneg r
  exact beq_eq_false_iff_ne.mpr (by omega)

theorem next_le (s : Sc) : rem s.next ≤ rem s := by
  unfold Sc.next rem
  cases hr : s.rest with
  | nil => simp
  | cons b t =>
    simp only []
    have hw := decodeRune_width b t
    generalize decodeRune (b :: t) = d at hw
    obtain ⟨r, w, bad⟩ := d
    simp only [List.length_drop, List.length_cons, natCast_ne_neg_one, Bool.false_eq_true, if_false]
    have hw' : 1 ≤ w := hw
    split <;> omega

theorem next_lt (s : Sc) (h : s.ch ≠ -1) : rem s.next < rem s := by
  unfold Sc.next rem
  have hc : (s.ch == -1) = false := by simpa using h
  cases hr : s.rest with
  | nil => simp [hc]
  | cons b t =>
    simp only []
    have hw := decodeRune_width b t
    generalize decodeRune (b :: t) = d at hw
    obtain ⟨r, w, bad⟩ := d
    simp only [List.length_drop, List.length_cons, hc, natCast_ne_neg_one, Bool.false_eq_true, if_false]
    have hw' : 1 ≤ w := hw
    omega

theorem err_rem (s : Sc) : rem s.err = rem s := rfl

theorem skipWs_le : ∀ (fuel : Nat) (s : Sc), rem (skipWs fuel s) ≤ rem s := by
  intro fuel
  induction fuel with
  | zero => intro s; exact Nat.le_refl _
  | succ n ih =>
    intro s
    unfold skipWs
    split
    · exact Nat.le_trans (ih _) (next_le s)
    · exact Nat.le_refl _

theorem scanIdent_le (T : Tables) : ∀ (fuel : Nat) (s : Sc), rem (scanIdent T fuel s) ≤ rem s := by
  intro fuel
  induction fuel with
  | zero => intro s; exact Nat.le_refl _
  | succ n ih =>
    intro s
    unfold scanIdent
    split
    · exact Nat.le_trans (ih _) (next_le s)
    · exact Nat.le_refl _

theorem scanDigits_le (base : Nat) : ∀ (n : Nat) (s : Sc), rem (scanDigits s base n) ≤ rem s := by
  intro n
  induction n with
  | zero => intro s; exact Nat.le_refl _
  | succ n ih =>
    intro s
    unfold scanDigits
    split
    · exact Nat.le_trans (ih _) (next_le s)
    · exact Nat.le_refl _

theorem scanEscape_le (s : Sc) (q : Int) : rem (scanEscape s q) ≤ rem s := by
  unfold scanEscape
  simp only []
  have h1 := next_le s
  (repeat' split)
  all_goals first
    | exact Nat.le_trans (next_le _) h1
    | exact Nat.le_trans (scanDigits_le _ _ _) h1
    | exact Nat.le_trans (scanDigits_le _ _ _) (Nat.le_trans (next_le _) h1)
    | exact h1

theorem scanStringLoop_le (q : Int) : ∀ (fuel : Nat) (s : Sc) (n : Nat), rem (scanStringLoop q fuel s n).1 ≤ rem s := by
  intro fuel
  induction fuel with
  | zero => intro s n; exact Nat.le_refl _
  | succ f ih =>
    intro s n
    unfold scanStringLoop
    (repeat' split)
    all_goals first
      | exact Nat.le_refl _
      | exact Nat.le_trans (ih _ _) (scanEscape_le s q)
      | exact Nat.le_trans (ih _ _) (next_le s)

theorem scanString_le (s : Sc) (q : Int) : rem (scanString s q).1 ≤ rem s := by
  unfold scanString
  exact Nat.le_trans (scanStringLoop_le q _ _ _) (next_le s)

theorem scanRaw_le : ∀ (fuel : Nat) (s : Sc), rem (scanRaw fuel s) ≤ rem s := by
  intro fuel
  induction fuel with
  | zero => intro s; exact Nat.le_refl _
  | succ n ih =>
    intro s
    unfold scanRaw
    (repeat' split)
    all_goals first
      | exact Nat.le_refl _
      | exact Nat.le_trans (ih _) (next_le s)

theorem lineComment_le : ∀ (fuel : Nat) (s : Sc), rem (lineComment fuel s) ≤ rem s := by
  intro fuel
  induction fuel with
  | zero => intro s; exact Nat.le_refl _
  | succ n ih =>
    intro s
    unfold lineComment
    split
    · exact Nat.le_trans (ih _) (next_le s)
    · exact Nat.le_refl _

theorem blockComment_le : ∀ (fuel : Nat) (s : Sc), rem (blockComment fuel s) ≤ rem s := by
  intro fuel
  induction fuel with
  | zero => intro s; exact Nat.le_refl _
  | succ n ih =>
    intro s
    unfold blockComment
    simp only []
    (repeat' split)
    all_goals first
      | exact Nat.le_refl _
      | exact Nat.le_trans (next_le _) (next_le s)
      | exact Nat.le_trans (ih _) (next_le s)

theorem peekInit_le (s : Sc) : rem s.peekInit ≤ rem s := by
  unfold Sc.peekInit
  split
  · have h1 : rem ({ s with chRaw := [] } : Sc).next ≤ rem s := next_le _
    simp only []
    split
    · exact Nat.le_trans (next_le _) h1
    · exact h1
  · exact Nat.le_refl _

theorem isIdentRune_ne (T : Tables) (ch : Int) (h : isIdentRune T ch = true) : ch ≠ -1 := by
  unfold isIdentRune at h
  simp only [Bool.and_eq_true, decide_eq_true_eq] at h
  omega

theorem rem_tok (s : Sc) (t : Bytes) : rem ({ s with tok := t } : Sc) = rem s := rfl

theorem sxPrep_le (s0 : Sc) : rem (sxPrep s0) ≤ rem s0 := by
  unfold sxPrep
  simp only [rem_tok]
  exact Nat.le_trans (skipWs_le _ _) (peekInit_le s0)

/-- what a scan returns, relative to the state it started from: nothing is ever given back, and every token other
    than EOF consumes at least one byte -/
def Progress (s : Sc) (r : TokKind × Sc) : Prop := rem r.2 ≤ rem s ∧ (r.1 ≠ .eof → rem r.2 < rem s)

theorem progress_of_lt {s : Sc} {k : TokKind} {s' : Sc} (h : rem s' < rem s) : Progress s (k, s') :=
  ⟨Nat.le_of_lt h, fun _ => h⟩

theorem progress_trans_lt {s s1 : Sc} {r : TokKind × Sc} (h : Progress s1 r) (hl : rem s1 < rem s) : Progress s r :=
  ⟨Nat.le_trans h.1 (Nat.le_of_lt hl), fun _ => Nat.lt_of_le_of_lt h.1 hl⟩

theorem progress_trans_le {s s1 : Sc} {r : TokKind × Sc} (h : Progress s1 r) (hl : rem s1 ≤ rem s) : Progress s r :=
  ⟨Nat.le_trans h.1 hl, fun hk => Nat.lt_of_lt_of_le (h.2 hk) hl⟩

theorem sxBody_progress (T : Tables) (again : Sc → TokKind × Sc) (hag : ∀ x, Progress x (again x)) (s : Sc) :
    Progress s (sxBody T again s) := by
  unfold sxBody
  split
  · rename_i hid
    exact progress_of_lt (Nat.lt_of_le_of_lt (scanIdent_le T _ _) (next_lt s (isIdentRune_ne T _ hid)))
  · split
    · rename_i _ hd
      have hne : s.ch ≠ -1 := by
        simp only [Bool.and_eq_true, decide_eq_true_eq] at hd; omega
      exact progress_of_lt (next_lt s hne)
    · split
      · exact ⟨Nat.le_refl _, fun h => absurd rfl h⟩
      · rename_i _ _ heof
        have hne : s.ch ≠ -1 := by simpa using heof
        have hlt := next_lt s hne
        split
        · exact progress_of_lt (Nat.lt_of_le_of_lt (next_le _) (Nat.lt_of_le_of_lt (scanStringLoop_le _ _ _ _) hlt))
        · split
          · refine progress_of_lt (Nat.lt_of_le_of_lt (next_le _) ?_)
            split
            · exact Nat.lt_of_le_of_lt (scanStringLoop_le _ _ _ _) hlt
            · exact Nat.lt_of_le_of_lt (scanStringLoop_le _ _ _ _) hlt
          · split
            · exact progress_of_lt hlt
            · split
              · split
                · exact progress_trans_lt (hag _) (Nat.lt_of_le_of_lt (lineComment_le _ _) (Nat.lt_of_le_of_lt (next_le _) hlt))
                · split
                  · exact progress_trans_lt (hag _) (Nat.lt_of_le_of_lt (blockComment_le _ _) (Nat.lt_of_le_of_lt (next_le _) hlt))
                  · exact progress_of_lt hlt
              · split
                · exact progress_of_lt (Nat.lt_of_le_of_lt (next_le _) (Nat.lt_of_le_of_lt (scanRaw_le _ _) hlt))
                · exact progress_of_lt hlt

theorem sxScan_progress (T : Tables) : ∀ (fuel : Nat) (s : Sc), Progress s (sxScan T fuel s) := by
  intro fuel
  induction fuel with
  | zero => intro s; unfold sxScan; exact ⟨Nat.le_refl _, fun h => absurd rfl h⟩
  | succ n ih =>
    intro s0
    unfold sxScan
    exact progress_trans_le (sxBody_progress T (sxScan T n) ih (sxPrep s0)) (sxPrep_le s0)

theorem mScan_progress (T : Tables) : ∀ (fuel : Nat) (s : Sc), Progress s (mScan T fuel s) := by
  intro fuel
  induction fuel with
  | zero => intro s; unfold mScan; exact ⟨Nat.le_refl _, fun h => absurd rfl h⟩
  | succ n ih =>
    intro s
    unfold mScan
    have h := sxScan_progress T (s.rest.length + 3) s
    generalize sxScan T (s.rest.length + 3) s = r at h
    obtain ⟨k, s1⟩ := r
    simp only []
    split
    · split
      · exact h
      · exact progress_trans_le (ih s1) h.1
    · exact h

/-- C08: mpath's `Scan` never gives input back, and every token other than EOF consumes at least one byte -/
theorem scan_progress (T : Tables) (s : Sc) : Progress s (scan T s) := mScan_progress T _ s

#print axioms scan_progress
end Mp
