import Mathlib.Tactic.Ring
import Mathlib.Tactic.FieldSimp
import Mathlib.Tactic.Linarith
import Mathlib.Algebra.Order.Field.Rat

structure Dec where
  coef : Int
  exp  : Int
deriving Repr, DecidableEq

namespace Dec
def toRat (d : Dec) : ℚ := d.coef * (10 : ℚ) ^ d.exp

def rescale (d : Dec) (e : Int) : Dec :=
  if e ≤ d.exp then ⟨d.coef * 10 ^ (d.exp - e).toNat, e⟩
  else ⟨Int.tdiv d.coef (10 ^ (e - d.exp).toNat), e⟩

def add (a b : Dec) : Dec :=
  let e := min a.exp b.exp
  ⟨(a.rescale e).coef + (b.rescale e).coef, e⟩

theorem rescale_down_toRat (d : Dec) (e : Int) (h : e ≤ d.exp) : (d.rescale e).toRat = d.toRat := by
  unfold rescale toRat
  simp only [h, if_true]
  obtain ⟨k, hk⟩ : ∃ k : ℕ, d.exp - e = k := ⟨(d.exp - e).toNat, by omega⟩
  have : d.exp = e + k := by omega
  rw [hk, this]
  simp only [Int.toNat_natCast]
  push_cast
  rw [zpow_add₀ (by norm_num : (10:ℚ) ≠ 0), zpow_natCast]
  ring

theorem add_toRat (a b : Dec) : (a.add b).toRat = a.toRat + b.toRat := by
  have ha := rescale_down_toRat a (min a.exp b.exp) (min_le_left _ _)
  have hb := rescale_down_toRat b (min a.exp b.exp) (min_le_right _ _)
  have ea : (a.rescale (min a.exp b.exp)).exp = min a.exp b.exp := by unfold rescale; split <;> rfl
  have eb : (b.rescale (min a.exp b.exp)).exp = min a.exp b.exp := by unfold rescale; split <;> rfl
  rw [← ha, ← hb]
  unfold add toRat
  simp only [ea, eb]
  push_cast
  ring
end Dec
#print axioms Dec.add_toRat
