import Mp.RoundTrip
import Mp.Fold
/-! C09 — the round-trip theorem instantiated with the unicode tables REGENERATED from the running Go (`goTables`,
    Generated/Unicode.lean): what the theorem asks of the tables about `$ . ( ) ?` holds for them (kernel-checked by
    evaluation), so for the tables the driver really uses the printed text of every path of keys, `?`-marked keys and
    zero-argument calls (names of identifier bytes) parses back to the path. -/
namespace Mp

theorem go_punct : PunctOK goTables := ⟨by decide +kernel, by decide +kernel⟩
theorem go_paren : ParenOK goTables := ⟨by decide +kernel, by decide +kernel⟩
theorem go_at : AtOK goTables := by unfold AtOK; decide +kernel
theorem go_mark : MarkOK goTables := ⟨by decide +kernel, by decide +kernel, by decide +kernel, by decide +kernel⟩

theorem parse_sprint_keyPath_go (root : Bool) (ss : List Seg) (hss : ∀ sg ∈ ss, sg.OK goTables) :
    (parse goTables (sprintPath 0 (keyPath root ss))).1 = .op (.path (keyPath root ss)) :=
  parse_sprint_keyPath goTables go_punct go_at go_mark go_paren root ss hss

/-- non-vacuity: `k` is a key for the Go tables -/
example : Key goTables [107] := ⟨by simp, by
  intro b hb
  have : b = 107 := by simpa using hb
  subst this
  exact ⟨⟨by decide, by decide, by decide +kernel, by decide⟩, by decide⟩⟩

#print axioms parse_sprint_keyPath_go
end Mp
