import Mp.RoundTrip
import Mp.Fold
/-! C09 — the round-trip theorem instantiated with the unicode tables REGENERATED from the running Go (`goTables`,
    Generated/Unicode.lean): what the theorem asks of the tables about `$ . ( ) ?` holds for them (kernel-checked by
    evaluation), so for the tables the driver really uses the printed text of every path of keys, `?`-marked keys and
    zero-argument calls (names of identifier bytes) parses back to the path. -/
namespace Mp

theorem go_punct : PunctOK goTables := ⟨by decide +kernel, by decide +kernel⟩
theorem go_paren : ParenOK goTables := ⟨by decide +kernel, by decide +kernel⟩
theorem go_at : AtOK goTables := by unfold AtOK; decide +kernel
theorem go_mark : MarkOK goTables := ⟨by decide +kernel, by decide +kernel, by decide +kernel, by decide +kernel⟩
theorem go_l116 : IdB goTables 116 := ⟨by decide, by decide, by decide +kernel, by decide⟩
theorem go_l114 : IdB goTables 114 := ⟨by decide, by decide, by decide +kernel, by decide⟩
theorem go_l117 : IdB goTables 117 := ⟨by decide, by decide, by decide +kernel, by decide⟩
theorem go_l101 : IdB goTables 101 := ⟨by decide, by decide, by decide +kernel, by decide⟩
theorem go_l102 : IdB goTables 102 := ⟨by decide, by decide, by decide +kernel, by decide⟩
theorem go_l97 : IdB goTables 97 := ⟨by decide, by decide, by decide +kernel, by decide⟩
theorem go_l108 : IdB goTables 108 := ⟨by decide, by decide, by decide +kernel, by decide⟩
theorem go_l115 : IdB goTables 115 := ⟨by decide, by decide, by decide +kernel, by decide⟩
theorem go_letter (b : UInt8) (h : b ∈ ([116, 114, 117, 101, 102, 97, 108, 115] : List UInt8)) : IdB goTables b := by
  simp only [List.mem_cons, List.not_mem_nil, or_false] at h
  rcases h with rfl | rfl | rfl | rfl | rfl | rfl | rfl | rfl
  · exact go_l116
  · exact go_l114
  · exact go_l117
  · exact go_l101
  · exact go_l102
  · exact go_l97
  · exact go_l108
  · exact go_l115
theorem go_arg : ArgOK goTables := ⟨by decide +kernel, by
  intro b hb
  apply go_letter
  simp only [wordTrue, wordFalse, List.cons_append, List.nil_append, List.mem_cons, List.not_mem_nil, or_false] at hb ⊢
  rcases hb with rfl | rfl | rfl | rfl | rfl | rfl | rfl | rfl | rfl <;> simp⟩

theorem parse_sprint_keyPath_go (root : Bool) (ss : List Seg) (hss : ∀ sg ∈ ss, sg.OK goTables) :
    (parse goTables (sprintPath 0 (keyPath root ss))).1 = .op (.path (keyPath root ss)) :=
  parse_sprint_keyPath goTables go_punct go_at go_mark go_paren go_arg root ss hss

/-- non-vacuity: `k` is a key for the Go tables -/
example : Key goTables [107] := ⟨by simp, by
  intro b hb
  have : b = 107 := by simpa using hb
  subst this
  exact ⟨⟨by decide, by decide, by decide +kernel, by decide⟩, by decide⟩⟩

/-- non-vacuity: `$.k.AnyOf("a b",true,"",false).Count()` is a path the theorem speaks about -/
example : ∀ sg ∈ [Seg.key [107] false, Seg.callA [65] [.s [97, 32, 98], .b true, .s [], .b false], Seg.call [67]], sg.OK goTables := by
  have hk : ∀ c : UInt8, c = 107 ∨ c = 65 ∨ c = 67 → KeyByte goTables c := by
    intro c hc
    rcases hc with rfl | rfl | rfl <;> exact ⟨⟨by decide, by decide, by decide +kernel, by decide⟩, by decide⟩
  intro sg hsg
  simp only [List.mem_cons, List.not_mem_nil, or_false] at hsg
  rcases hsg with rfl | rfl | rfl
  · exact ⟨by simp, fun b hb => hk b (by simp at hb; simp [hb])⟩
  · refine ⟨⟨by simp, fun b hb => hk b (by simp at hb; simp [hb])⟩, ?_⟩
    intro a ha
    simp only [List.mem_cons, List.not_mem_nil, or_false] at ha
    rcases ha with rfl | rfl | rfl | rfl
    · intro b hb
      simp only [List.mem_cons, List.not_mem_nil, or_false] at hb
      rcases hb with rfl | rfl | rfl <;> exact ⟨by decide, by decide, by decide⟩
    · trivial
    · intro b hb; cases hb
    · trivial
  · exact ⟨by simp, fun b hb => hk b (by simp at hb; simp [hb])⟩

#print axioms go_arg
#print axioms parse_sprint_keyPath_go
end Mp
