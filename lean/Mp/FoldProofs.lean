import Mp.Fold
import Mp.RoundTripLex
/-! C01 — what "without regard to letter case" means for ASCII keys, proved about the model's `strings.EqualFold`
    (`Mp.equalFoldU`, the function the evaluator model uses for every key): two ASCII strings match iff they have the same
    length and, position by position, the bytes are equal or are the two cases of ONE LETTER. No other pair of bytes folds
    together - not `^`/`~`, not `-`/CR, not `1`/0x11, whatever bit they differ in. Core-only. -/
namespace Mp

/-- the two cases of one ASCII letter -/
def CasePair (a b : Nat) : Prop := (65 ≤ a ∧ a ≤ 90 ∧ b = a + 32) ∨ (65 ≤ b ∧ b ≤ 90 ∧ a = b + 32)

theorem runeEqFold_ascii (a b : Nat) (ha : a < 128) (hb : b < 128) : runeEqFold a b = true ↔ (a = b ∨ CasePair a b) := by
  unfold runeEqFold CasePair
  by_cases hab : a = b
  · subst hab; simp
  · have hne : (a == b) = false := by simpa using hab
    simp only [hne, Bool.false_eq_true, if_false]
    by_cases hlt : a < b
    · have h80 : b < 0x80 := hb
      simp only [hlt, if_true, h80]
      simp only [Bool.and_eq_true, decide_eq_true_eq, beq_iff_eq]
      constructor
      · rintro ⟨⟨h1, h2⟩, h3⟩; exact Or.inr (Or.inl ⟨h1, h2, h3⟩)
      · rintro (h | h | h)
        · exact absurd h hab
        · exact ⟨⟨h.1, h.2.1⟩, h.2.2⟩
        · omega
    · have h80 : a < 0x80 := ha
      simp only [hlt, if_false, h80, if_true]
      simp only [Bool.and_eq_true, decide_eq_true_eq, beq_iff_eq]
      constructor
      · rintro ⟨⟨h1, h2⟩, h3⟩; exact Or.inr (Or.inr ⟨h1, h2, h3⟩)
      · rintro (h | h | h)
        · exact absurd h hab
        · omega
        · exact ⟨⟨h.1, h.2.1⟩, h.2.2⟩

/-- a string of ASCII bytes decodes to its bytes -/
theorem decodeRunes_ascii : ∀ (p : Bytes) (f : Nat), p.length ≤ f → (∀ b ∈ p, b.toNat < 128) → decodeRunes f p = p.map (·.toNat) := by
  intro p
  induction p with
  | nil => intro f _ _; cases f <;> rfl
  | cons b t ih =>
    intro f hf hall
    cases f with
    | zero => simp at hf
    | succ f =>
      have hb : b.toNat < 128 := hall b (List.mem_cons_self)
      unfold decodeRunes
      simp only [decodeRune_ascii b t hb, Nat.max_self, List.drop_one, List.tail_cons, List.map_cons]
      rw [ih f (by simpa using hf) (fun x hx => hall x (List.mem_cons_of_mem _ hx))]

/-- position by position -/
def AsciiFoldEq : Bytes → Bytes → Prop
  | [], [] => True
  | a :: as, b :: bs => (a.toNat = b.toNat ∨ CasePair a.toNat b.toNat) ∧ AsciiFoldEq as bs
  | _, _ => False

theorem allEqFold_ascii : ∀ (p q : Bytes), (∀ b ∈ p, b.toNat < 128) → (∀ b ∈ q, b.toNat < 128) →
    (allEqFold (p.map (·.toNat)) (q.map (·.toNat)) = true ↔ AsciiFoldEq p q) := by
  intro p
  induction p with
  | nil => intro q _ _; cases q <;> simp [allEqFold, AsciiFoldEq]
  | cons a as ih =>
    intro q hp hq
    cases q with
    | nil => simp [allEqFold, AsciiFoldEq]
    | cons b bs =>
      simp only [List.map_cons, allEqFold, AsciiFoldEq, Bool.and_eq_true]
      rw [runeEqFold_ascii _ _ (hp a List.mem_cons_self) (hq b List.mem_cons_self),
        ih bs (fun x hx => hp x (List.mem_cons_of_mem _ hx)) (fun x hx => hq x (List.mem_cons_of_mem _ hx))]

/-- **C01, ASCII keys**: the key comparison of the model accepts two ASCII names iff they agree byte by byte up to the case of
    letters -/
theorem equalFold_ascii (p q : Bytes) (hp : ∀ b ∈ p, b.toNat < 128) (hq : ∀ b ∈ q, b.toNat < 128) :
    equalFoldU p q = true ↔ AsciiFoldEq p q := by
  unfold equalFoldU
  rw [decodeRunes_ascii p p.length (Nat.le_refl _) hp, decodeRunes_ascii q q.length (Nat.le_refl _) hq]
  exact allEqFold_ascii p q hp hq

/-- `^` and `~` differ in the case bit and are not a letter: they do not match; `k` and `K` do -/
example : equalFoldU [0x5e] [0x7e] = false := by decide
example : equalFoldU [0x2d] [0x0d] = false := by decide
example : equalFoldU [0x6b] [0x4b] = true := by decide

#print axioms runeEqFold_ascii
#print axioms equalFold_ascii
end Mp
