import Mp.Cue
import Mp.Deps
import Mp.DepsExact
/-! C15 — the dependency graph of a schema, and the bridge between the fuel-driven closure the validator model runs
    (`Mp.closure`) and the well-founded closure the C15 theorems are about (`Deps.closure`). Core-only. -/
namespace Mp

/-- a step that has a `_dependencies` list is a declared root field -/
theorem depsOf_declared (isOpen : Bool) (fs : List CField) (n : String) (h : (depsOf (.struct isOpen fs) n).isSome) :
    n ∈ fs.map (·.name) := by
  unfold depsOf at h
  simp only [findValueAtPath, stepKey, stepStruct] at h
  cases hf : List.find? (fun f => f.name == n && if f.hidden = true then n.startsWith "_" && !n.contains '-' && f.isReg else true) fs with
  | none =>
    rw [hf] at h
    cases isOpen <;> simp at h
  | some f =>
    have hp := List.find?_some hf
    have hm := List.mem_of_find?_eq_some hf
    have hn : f.name = n := by
      have : (f.name == n) = true := by
        simp only [Bool.and_eq_true] at hp
        exact hp.1
      simpa using this
    exact List.mem_map.mpr ⟨f, hm, hn⟩

/-- the dependency graph of a schema whose root is a struct -/
def graphOf (isOpen : Bool) (fs : List CField) : Deps.Graph where
  U := fs.map (·.name)
  deps := depsOf (.struct isOpen fs)
  closed := fun n h => depsOf_declared isOpen fs n h

/-- **bridge**: whenever the fuel-driven closure of the validator model returns a result, it is the result of the
    well-founded closure over the schema's dependency graph — so `Deps.closure_exact` (the result is exactly the set
    reachable from the start set) applies to what the model, and by correspondence the code, computes -/
theorem closure_bridge (isOpen : Bool) (fs : List CField) : ∀ (fuel : Nat) (q v res : List String),
    closure (.struct isOpen fs) fuel q v = some res → Deps.closure (graphOf isOpen fs) q v = .ok res := by
  intro fuel
  induction fuel with
  | zero => intro q v res h; simp [closure] at h
  | succ f ih =>
    intro q v res h
    cases q with
    | nil =>
      simp only [closure] at h
      rw [Deps.closure_nil]; simp at h; rw [h]
    | cons d q =>
      simp only [closure] at h
      by_cases hv : v.contains d = true
      · simp only [hv, if_true] at h
        rw [Deps.closure_seen _ _ _ _ hv]
        exact ih q v res h
      · have hv' : v.contains d = false := by simpa using hv
        simp only [hv', Bool.false_eq_true, if_false] at h
        cases hd : depsOf (.struct isOpen fs) d with
        | none => rw [hd] at h; simp at h
        | some nx =>
          rw [hd] at h
          rw [Deps.closure_some (graphOf isOpen fs) d q v nx hv' hd]
          exact ih (q ++ nx) (d :: v) res h

/-- consequence: what the model's closure returns from an empty visited set is exactly the set of steps reachable from
    the start set through `_dependencies` (reflexive-transitive closure) -/
theorem closure_model_exact (isOpen : Bool) (fs : List CField) (fuel : Nat) (start res : List String)
    (h : closure (.struct isOpen fs) fuel start [] = some res) (x : String) :
    x ∈ res ↔ ∃ s ∈ start, Deps.Reach (graphOf isOpen fs) s x :=
  Deps.closure_exact (graphOf isOpen fs) start res (closure_bridge isOpen fs fuel start [] res h) x

#print axioms closure_bridge
#print axioms closure_model_exact
end Mp

namespace Mp
/-- **C15 on the validator model**: with a current step `cp`, a root field is blocked exactly when it is the current
    step itself (unless that is `input`), or it is a declared root field that is neither a base path nor reachable from
    the current step's `_dependencies` through any number of `_dependencies` edges. -/
theorem blocked_iff (isOpen : Bool) (fs : List CField) (cp : String) (hcp : cp ≠ "") (bl : List String)
    (h : blockedFields (.struct isOpen fs) [] cp = some bl) :
    ∃ deps, depsOf (.struct isOpen fs) cp = some deps ∧ ∀ f, f ∈ bl ↔
      (f = cp ∧ cp ≠ "input") ∨
      (f ∈ rootFieldNames (.struct isOpen fs) [] ∧ f ≠ cp ∧ f ∉ baseNames ∧ ¬ ∃ s ∈ deps, Deps.Reach (graphOf isOpen fs) s f) := by
  unfold blockedFields at h
  have hcp' : (cp == "") = false := by simpa using hcp
  simp only [hcp', Bool.false_eq_true, if_false] at h
  split at h
  · simp at h
  · split at h
    · simp at h
    · rename_i deps hdeps
      split at h
      · simp at h
      · rename_i reach hreach
        refine ⟨deps, hdeps, ?_⟩
        have hex := closure_model_exact isOpen fs _ deps reach hreach
        simp only [Option.some.injEq] at h
        subst h
        intro f
        simp only [List.mem_append, List.mem_filter, List.contains_eq_mem, List.mem_cons, Bool.not_eq_true',
          decide_eq_false_iff_not, not_or]
        constructor
        · rintro (h1 | ⟨hall, hnv⟩)
          · left
            by_cases hi : cp = "input"
            · simp [hi] at h1
            · have : (cp != "input") = true := by simpa using hi
              simp only [this, if_true, List.mem_singleton] at h1
              exact ⟨h1, hi⟩
          · right
            obtain ⟨⟨⟨hne, hnb⟩, hnd⟩, hnr⟩ := hnv
            refine ⟨hall, hne, hnb, ?_⟩
            rintro ⟨s, hs, hr⟩
            exact hnr ((hex f).mpr ⟨s, hs, hr⟩)
        · rintro (⟨rfl, hi⟩ | ⟨hall, hne, hnb, hnr⟩)
          · left
            have : (f != "input") = true := by simpa using hi
            simp [this]
          · right
            refine ⟨hall, ⟨⟨hne, hnb⟩, ?_⟩, ?_⟩
            · intro hd
              exact hnr ⟨f, hd, Deps.Reach.refl f⟩
            · intro hr
              exact hnr ((hex f).mp hr)

#print axioms blocked_iff
end Mp

namespace Mp
/-- a query that starts at a blocked root field is rejected, whatever follows -/
theorem blocked_first_key_rejected (root : CTy) (blocked : List String) (k : String) (ks : List String) (h : k ∈ blocked) :
    validateKeys root blocked (k :: ks) [] none true = .rej "blocked" := by
  simp [validateKeys, h]

/-- after the first key the blocked list is never consulted -/
theorem validateKeys_blocked_irrel (root : CTy) (b1 b2 : List String) : ∀ (ks p : List String) (cur : Option (String × String)),
    validateKeys root b1 ks p cur false = validateKeys root b2 ks p cur false := by
  intro ks
  induction ks with
  | nil => intro p cur; simp [validateKeys]
  | cons k ks ih =>
    intro p cur
    simp only [validateKeys, Bool.false_and, Bool.false_eq_true, if_false]
    split
    · rfl
    · cases findValueAtPath root (p ++ [k]) with
      | none => rfl
      | some v =>
        simp only []
        cases kindOf v with
        | none => rfl
        | some ti => exact ih _ _

/-- and a first key that is not blocked is validated exactly as without a current step -/
theorem unblocked_first_key (root : CTy) (blocked : List String) (k : String) (ks : List String) (h : k ∉ blocked) :
    validateKeys root blocked (k :: ks) [] none true = validateKeys root [] (k :: ks) [] none true := by
  simp only [validateKeys, h, List.contains_eq_mem, decide_false, Bool.and_false, Bool.false_eq_true, if_false,
    List.not_mem_nil, List.nil_append]
  cases findValueAtPath root [k] with
  | none => rfl
  | some v =>
    simp only []
    cases kindOf v with
    | none => rfl
    | some ti => exact validateKeys_blocked_irrel root blocked [] ks [k] (some ti)

#print axioms blocked_first_key_rejected
#print axioms unblocked_first_key
end Mp

namespace Mp
/-! ### what is offered at the root (cue.go getAvailableFieldsForValue): the declared root fields that are not blocked -/

theorem offered_iff (root : CTy) (defNames : List String) (cp : String) (bl off : List String)
    (hb : blockedFields root defNames cp = some bl) (ho : offeredFields root defNames cp = some off) :
    ∀ f, f ∈ off ↔ f ∈ rootFieldNames root defNames ∧ f ∉ bl := by
  intro f
  unfold offeredFields at ho
  rw [hb] at ho
  simp only [Option.map_some, Option.some.injEq] at ho
  subst ho
  simp [List.mem_filter]

/-- without a current step every declared root field is offered -/
theorem offered_without_step (root : CTy) (defNames : List String) :
    offeredFields root defNames "" = some (rootFieldNames root defNames) := by
  simp [offeredFields, blockedFields]

/-- **C15, the offer**: with a current step `cp`, the fields offered at the root are exactly the declared root fields that are
    a base path, or the current step when it is `input`, or reachable from the current step's `_dependencies` through any
    number of `_dependencies` edges - the current step itself (unless it is `input`) and every other step are left out. -/
theorem offered_exact (isOpen : Bool) (fs : List CField) (cp : String) (hcp : cp ≠ "") (off : List String)
    (h : offeredFields (.struct isOpen fs) [] cp = some off) :
    ∃ deps, depsOf (.struct isOpen fs) cp = some deps ∧ ∀ f, f ∈ off ↔
      f ∈ rootFieldNames (.struct isOpen fs) [] ∧ ¬ (f = cp ∧ cp ≠ "input") ∧
        (f = cp ∨ f ∈ baseNames ∨ ∃ s ∈ deps, Deps.Reach (graphOf isOpen fs) s f) := by
  cases hb : blockedFields (.struct isOpen fs) [] cp with
  | none => simp [offeredFields, hb] at h
  | some bl =>
    obtain ⟨deps, hd, hbl⟩ := blocked_iff isOpen fs cp hcp bl hb
    refine ⟨deps, hd, ?_⟩
    intro f
    rw [offered_iff _ _ _ bl off hb h f, hbl f]
    constructor
    · rintro ⟨hroot, hnb⟩
      refine ⟨hroot, fun hc => hnb (Or.inl hc), ?_⟩
      by_cases h1 : f = cp
      · exact Or.inl h1
      · by_cases h2 : f ∈ baseNames
        · exact Or.inr (Or.inl h2)
        · by_cases h3 : ∃ s ∈ deps, Deps.Reach (graphOf isOpen fs) s f
          · exact Or.inr (Or.inr h3)
          · exact absurd (Or.inr ⟨hroot, h1, h2, h3⟩) hnb
    · rintro ⟨hroot, hnc, hor⟩
      refine ⟨hroot, ?_⟩
      rintro (hc | ⟨_, h1, h2, h3⟩)
      · exact hnc hc
      · rcases hor with h | h | h
        · exact h1 h
        · exact h2 h
        · exact h3 h

/-- below the first key the verdict is never "blocked" -/
theorem validateKeys_not_blocked (root : CTy) (bl : List String) : ∀ (ks p : List String) (cur : Option (String × String)),
    validateKeys root bl ks p cur false ≠ .rej "blocked" := by
  intro ks
  induction ks with
  | nil => intro p cur; cases cur <;> simp [validateKeys]
  | cons k ks ih =>
    intro p cur
    simp only [validateKeys, Bool.false_and, Bool.false_eq_true, if_false]
    split
    · rename_i r hr
      split at hr
      · split at hr
        · cases hr; simp
        · cases hr
      · cases hr; simp
      · cases hr
    · cases findValueAtPath root (p ++ [k]) with
      | none => simp
      | some v =>
        simp only []
        cases kindOf v with
        | none => simp
        | some ti => exact ih _ _

/-- **the offer and the verdict agree**: a declared root field is offered exactly when a query that starts at it is not
    rejected as unavailable, whatever follows the first key -/
theorem offered_coherent (root : CTy) (defNames : List String) (cp : String) (bl off : List String)
    (hb : blockedFields root defNames cp = some bl) (ho : offeredFields root defNames cp = some off)
    (f : String) (ks : List String) (hf : f ∈ rootFieldNames root defNames) :
    f ∈ off ↔ validateKeys root bl (f :: ks) [] none true ≠ .rej "blocked" := by
  rw [offered_iff root defNames cp bl off hb ho f]
  constructor
  · rintro ⟨_, hnb⟩
    simp only [validateKeys, hnb, List.contains_eq_mem, decide_false, Bool.and_false, Bool.false_eq_true, if_false,
      List.nil_append]
    cases findValueAtPath root [f] with
    | none => simp
    | some v =>
      simp only []
      cases kindOf v with
      | none => simp
      | some ti => exact validateKeys_not_blocked root bl ks [f] (some ti)
  · intro hne
    refine ⟨hf, fun hmem => hne (blocked_first_key_rejected root bl f ks hmem)⟩

#print axioms offered_iff
#print axioms offered_exact
#print axioms offered_coherent
end Mp
