import Mp.RoundTripStr
/-! C09 — print/parse round trip, as a theorem about the lexer + parser + printer models:
    for every path `$` followed by any number of steps, each a key (`.key`), a `?`-marked key (`.key?`), a call without
    arguments (`.Name()`) or a call with one string literal (`.Name("…")`, any ASCII text without a backslash: quotes and the seven
    control characters are printed escaped), with names made of ASCII identifier bytes, the printed text parses back to exactly that path: same
    keys, same marks, same calls (with the "unknown function" flag the parser derives from the name), same recorded text
    (`parse_sprint_keyPath`); printing is therefore a fixed point (`sprint_parse_sprint`). The proof runs the model of
    text/scanner (look-ahead, token text, identifier scanning, mpath's wrapper that skips unprintable single runes) and the
    recursive-descent parser on the printed bytes, for any number of steps of any length; what it needs from the unicode tables
    is stated as hypotheses (`PunctOK`, `ParenOK`, `MarkOK`, `Key`) and instantiated for the ASCII tables at the end. -/
namespace Mp

/-- the `?` mark is an identifier byte for the scanner (it is not one of mpath's reserved runes) -/
def MarkOK (T : Tables) : Prop := IdB T 63

/-- the token text of a key with or without its mark -/
def tokB (km : Bytes × Bool) : Bytes := if km.2 then km.1 ++ [63] else km.1

/-- a literal argument: a string or a truth value -/
inductive Arg where
  | s (a : Bytes)
  | b (v : Bool)

def wordTrue : Bytes := [116, 114, 117, 101]
def wordFalse : Bytes := [102, 97, 108, 115, 101]

def Arg.text : Arg → Bytes
  | .s a => 34 :: (Mp.escape a ++ [34])
  | .b true => wordTrue
  | .b false => wordFalse

def Arg.param : Arg → Param
  | .s a => .str a
  | .b v => .bool v

def Arg.OK : Arg → Prop
  | .s a => Lit a
  | .b _ => True

/-- what follows an argument up to and including the closing parenthesis: `)` or `,next…)` -/
def sepArgs : List Arg → Bytes
  | [] => [41]
  | a :: t => 44 :: (a.text ++ sepArgs t)

/-- the argument list with its closing parenthesis -/
def argsText : List Arg → Bytes
  | [] => [41]
  | a :: t => a.text ++ sepArgs t


/-- what the tables must say for literal arguments: the comma is printable, the letters of `true` and `false` are identifier bytes -/
structure ArgOK (T : Tables) : Prop where
  comma : T.isPrint 44 = true
  word : ∀ b ∈ wordTrue ++ wordFalse, IdB T b

theorem not_ident_44 (T : Tables) : isIdentRune T 44 = false := by
  have : (44 : Nat) ∈ invalidRunes := by decide
  simp [isIdentRune, this]

theorem scan_comma (T : Tables) (hA : ArgOK T) (s : Sc) (e : Nat) (t : Bytes) (hprep : sxPrep s = mkS [] e (44 :: t)) (ha : Asc t) :
    scan T s = (.rune 44, mkS [44] e t) := by
  unfold scan mScan sxScan
  rw [hprep]
  unfold sxBody
  have h1 : isIdentRune T 44 = false := not_ident_44 T
  have hc : (mkS [] e (44 :: t)).ch = 44 := rfl
  have hn := mkS_next [] e 44 t ha
  simp only [List.nil_append] at hn
  simp only [hc, hn]
  simp [h1, hA.comma]

theorem asc_argText (a : Arg) (h : a.OK) : Asc a.text := by
  cases a with
  | s x =>
    intro b hb
    simp only [Arg.text, List.mem_cons, List.mem_append] at hb
    rcases hb with rfl | hb | hb
    · exact ⟨by decide, by decide⟩
    · exact asc_escape x h b hb
    · have : b = 34 := by simpa using hb
      subst this; exact ⟨by decide, by decide⟩
  | b v =>
    intro x hx
    cases v with
    | true =>
      simp only [Arg.text, wordTrue, List.mem_cons, List.not_mem_nil, or_false] at hx
      rcases hx with rfl | rfl | rfl | rfl <;> exact ⟨by decide, by decide⟩
    | false =>
      simp only [Arg.text, wordFalse, List.mem_cons, List.not_mem_nil, or_false] at hx
      rcases hx with rfl | rfl | rfl | rfl | rfl <;> exact ⟨by decide, by decide⟩

theorem asc_sepArgs : ∀ (as : List Arg), (∀ a ∈ as, a.OK) → Asc (sepArgs as) := by
  intro as
  induction as with
  | nil => intro _ b hb; have : b = 41 := by simpa [sepArgs] using hb
           subst this; exact ⟨by decide, by decide⟩
  | cons a t ih =>
    intro h b hb
    simp only [sepArgs, List.mem_cons, List.mem_append] at hb
    rcases hb with rfl | hb | hb
    · exact ⟨by decide, by decide⟩
    · exact asc_argText a (h a (by simp)) b hb
    · exact ih (fun x hx => h x (List.mem_cons_of_mem _ hx)) b hb

theorem asc_argsText (as : List Arg) (h : ∀ a ∈ as, a.OK) : Asc (argsText as) := by
  cases as with
  | nil => intro b hb; have : b = 41 := by simpa [argsText] using hb
           subst this; exact ⟨by decide, by decide⟩
  | cons a t =>
    intro b hb
    simp only [argsText, List.mem_append] at hb
    rcases hb with hb | hb
    · exact asc_argText a (h a (by simp)) b hb
    · exact asc_sepArgs t (fun x hx => h x (List.mem_cons_of_mem _ hx)) b hb

/-- one step of a path: a key (with or without `?`), a call without arguments, a call with literal arguments -/
inductive Seg where
  | key (k : Bytes) (m : Bool)
  | call (name : Bytes)
  | callS (name : Bytes) (arg : Bytes)   -- a call with one string literal
  | callA (name : Bytes) (args : List Arg)   -- a call with any number of string and truth-value literals

def Seg.text : Seg → Bytes
  | .key k m => tokB (k, m)
  | .call n => n ++ [40, 41]
  | .callS n a => n ++ (40 :: 34 :: (Mp.escape a ++ [34, 41]))
  | .callA n as => n ++ (40 :: argsText as)

/-- as the parser builds it: the key without its mark, the mark as a flag, the text as written; for a call the name, the
    "unknown function" flag as the parser computes it from the name, no parameters -/
def Seg.part : Seg → PathPart
  | .key k m => .ident k m (tokB (k, m))
  | .call n => .func (!(knownFuncs.map str).contains n) n [] (n ++ [40, 41])
  | .callS n a => .func (!(knownFuncs.map str).contains n) n [.str a] (n ++ (40 :: 34 :: (Mp.escape a ++ [34, 41])))
  | .callA n as => .func (!(knownFuncs.map str).contains n) n (as.map Arg.param) (n ++ (40 :: argsText as))

def Seg.OK (T : Tables) : Seg → Prop
  | .key k _ => Key T k
  | .call n => Key T n
  | .callS n a => Key T n ∧ Lit a
  | .callA n as => Key T n ∧ ∀ a ∈ as, a.OK

/-- how many arguments a step carries (the parser's fuel is counted against it) -/
def Seg.nargs : Seg → Nat
  | .callA _ as => as.length
  | .callS _ _ => 1
  | _ => 0

/-- the fuel the path loop needs from the token after a step on -/
def need : List Seg → Nat
  | [] => 1
  | sg :: ss => max (need ss + 2) (2 * sg.nargs + 5)

/-- the text after `$`: `.k₁.k₂?.Count()…` -/
def restK : List Seg → Bytes
  | [] => []
  | sg :: ss => 46 :: (sg.text ++ restK ss)

def keyParts (ss : List Seg) : List PathPart := ss.map Seg.part
/-- the byte of the root: `$` or `@` -/
def rootB (root : Bool) : UInt8 := if root then 36 else 64
def keyPath (root : Bool) (ss : List Seg) : PathOp := .mk false root false false (keyParts ss) (rootB root :: restK ss)

theorem idb_tokB {T : Tables} (hm : MarkOK T) {km : Bytes × Bool} (h : Key T km.1) : ∀ b ∈ tokB km, IdB T b := by
  intro b hb
  unfold tokB at hb
  split at hb
  · rcases List.mem_append.mp hb with h1 | h1
    · exact (h.2 b h1).toIdB
    · have : b = 63 := by simpa using h1
      subst this; exact hm
  · exact (h.2 b hb).toIdB

theorem tokB_ne_nil {T : Tables} {km : Bytes × Bool} (h : Key T km.1) : tokB km ≠ [] := by
  unfold tokB
  split
  · simp
  · exact h.1

theorem asc_of_idb {T : Tables} {bs : Bytes} (h : ∀ b ∈ bs, IdB T b) : Asc bs := fun b hb => ⟨(h b hb).asc, (h b hb).nz⟩

theorem asc_seg {T : Tables} (hm : MarkOK T) (sg : Seg) (h : sg.OK T) : Asc sg.text := by
  cases sg with
  | key k m => exact asc_of_idb (idb_tokB hm (km := (k, m)) h)
  | call n =>
    intro b hb
    simp only [Seg.text, List.mem_append, List.mem_cons] at hb
    rcases hb with hb | rfl | rfl | hb
    · exact ⟨(h.2 b hb).asc, (h.2 b hb).nz⟩
    · exact ⟨by decide, by decide⟩
    · exact ⟨by decide, by decide⟩
    · cases hb
  | callS n a =>
    intro b hb
    simp only [Seg.text, List.mem_append, List.mem_cons] at hb
    rcases hb with hb | rfl | rfl | hb | rfl | rfl | hb
    · exact ⟨(h.1.2 b hb).asc, (h.1.2 b hb).nz⟩
    · exact ⟨by decide, by decide⟩
    · exact ⟨by decide, by decide⟩
    · exact asc_escape a h.2 b hb
    · exact ⟨by decide, by decide⟩
    · exact ⟨by decide, by decide⟩
    · cases hb
  | callA n as =>
    intro b hb
    simp only [Seg.text, List.mem_append, List.mem_cons] at hb
    rcases hb with hb | rfl | hb
    · exact ⟨(h.1.2 b hb).asc, (h.1.2 b hb).nz⟩
    · exact ⟨by decide, by decide⟩
    · exact asc_argsText as h.2 b hb

theorem asc_restK {T : Tables} (hm : MarkOK T) : ∀ (ss : List Seg), (∀ sg ∈ ss, sg.OK T) → Asc (restK ss) := by
  intro ss
  induction ss with
  | nil => intro _ b hb; cases hb
  | cons sg ss ih =>
    intro h b hb
    simp only [restK, List.mem_cons, List.mem_append] at hb
    rcases hb with rfl | hb | hb
    · exact ⟨by decide, by decide⟩
    · exact asc_seg hm sg (h sg (by simp)) b hb
    · exact ih (fun x hx => h x (List.mem_cons_of_mem _ hx)) b hb

theorem stopAt_restK (T : Tables) (ss : List Seg) : StopAt T (restK ss) := by
  cases ss with
  | nil => trivial
  | cons k ks => exact stopAt_dot T _

/-- the token that `pathLoop` holds, and the scanner state behind it, when `restK ss` is still to be read -/
def tokOf (e : Nat) : List Seg → TokKind × Sc
  | [] => (.eof, mkS [] e [])
  | sg :: ss => (.rune 46, mkS [46] e (sg.text ++ restK ss))

/-- scanning the token that follows, from a state whose unread input is `restK ss` -/
theorem scan_restK (T : Tables) (hT : PunctOK T) (hm : MarkOK T) (tok : Bytes) (e : Nat) (ss : List Seg) (hss : ∀ sg ∈ ss, sg.OK T) :
    scan T (mkS tok e (restK ss)) = tokOf e ss := by
  cases ss with
  | nil => exact scan_eof T _ e (sxPrep_mkS tok e [] trivial)
  | cons sg ss =>
    have ha : Asc (sg.text ++ restK ss) := by
      intro b hb
      rcases List.mem_append.mp hb with h | h
      · exact asc_seg hm sg (hss sg (by simp)) b h
      · exact asc_restK hm ss (fun x hx => hss x (List.mem_cons_of_mem _ hx)) b h
    exact scan_dot T hT _ e _ (sxPrep_mkS tok e (46 :: (sg.text ++ restK ss)) (show isWs ((46 : UInt8).toNat : Int) = false from by decide)) ha

theorem getLast_ne_mark {T : Tables} {k : Bytes} (h : Key T k) : k.getLast? ≠ some 63 := by
  intro hl
  obtain ⟨hne, hb⟩ := h
  have hm : (63 : UInt8) ∈ k := List.mem_of_getLast? hl
  exact (hb 63 hm).notMark rfl

/-- how the parser splits the token text into key and mark -/
theorem split_mark {T : Tables} (km : Bytes × Bool) (h : Key T km.1) :
    (if (tokB km).getLast? == some 63 then ((tokB km).dropLast, true) else (tokB km, false)) = (km.1, km.2) := by
  obtain ⟨k, m⟩ := km
  cases m with
  | true => simp [tokB]
  | false =>
    have hne : k.getLast? ≠ some 63 := getLast_ne_mark h
    simp [tokB, hne]

/-- a call without arguments: from the name token (look-ahead `(`) to the token after `)` -/
theorem parseFunc_call0 (T : Tables) (hT : PunctOK T) (hm : MarkOK T) (hp : ParenOK T) (e : Nat) (n : Bytes) (ss : List Seg) (f : Nat)
    (hss : ∀ sg ∈ ss, sg.OK T) :
    parseFunc T (f + 2) (mkS n e (40 :: 41 :: restK ss)) =
      .ok (.func (!(knownFuncs.map str).contains n) n [] (n ++ [40, 41])) (tokOf e ss).1 (tokOf e ss).2 := by
  have har : Asc (restK ss) := asc_restK hm ss hss
  have ha1 : Asc (41 :: restK ss) := by
    intro b hb
    rcases List.mem_cons.mp hb with rfl | h
    · exact ⟨by decide, by decide⟩
    · exact har b h
  unfold parseFunc
  have hch : ((mkS n e (40 :: 41 :: restK ss)).ch != 40) = false := by simp [mkS]
  have htok : (mkS n e (40 :: 41 :: restK ss)).tok = n := rfl
  simp only [hch, Bool.false_eq_true, if_false, htok]
  rw [scan_lparen T hp _ e (41 :: restK ss) (sxPrep_mkS n e _ (show isWs ((40 : UInt8).toNat : Int) = false from by decide)) ha1]
  simp only []
  rw [scan_rparen T hp _ e (restK ss) (sxPrep_mkS [40] e _ (show isWs ((41 : UInt8).toNat : Int) = false from by decide)) har]
  simp only [lparen_bytes]
  unfold funcLoop
  have h44 : ((41 : Nat) == 44) = false := by decide
  simp only [h44, Bool.false_eq_true, if_false, beq_self_eq_true, if_true]
  rw [scan_restK T hT hm [41] e ss hss]
  simp

/-- a call with one string literal: from the name token to the token after `)`; the parameter is the string itself -/
theorem parseFunc_callS (T : Tables) (hT : PunctOK T) (hm : MarkOK T) (hp : ParenOK T) (e : Nat) (n a : Bytes) (ss : List Seg) (f : Nat)
    (hss : ∀ sg ∈ ss, sg.OK T) (hl : Lit a) :
    parseFunc T (f + 3) (mkS n e (40 :: 34 :: (Mp.escape a ++ 34 :: 41 :: restK ss))) =
      .ok (.func (!(knownFuncs.map str).contains n) n [.str a] (n ++ (40 :: 34 :: (Mp.escape a ++ [34, 41])))) (tokOf e ss).1 (tokOf e ss).2 := by
  have har : Asc (restK ss) := asc_restK hm ss hss
  have ha1 : Asc (41 :: restK ss) := by
    intro b hb
    rcases List.mem_cons.mp hb with rfl | h
    · exact ⟨by decide, by decide⟩
    · exact har b h
  have ha2 : Asc (34 :: (Mp.escape a ++ 34 :: 41 :: restK ss)) := by
    intro b hb
    simp only [List.mem_cons, List.mem_append] at hb
    rcases hb with rfl | hb | rfl | rfl | hb
    · exact ⟨by decide, by decide⟩
    · exact asc_escape a hl b hb
    · exact ⟨by decide, by decide⟩
    · exact ⟨by decide, by decide⟩
    · exact har b hb
  unfold parseFunc
  have hch : ((mkS n e (40 :: 34 :: (Mp.escape a ++ 34 :: 41 :: restK ss))).ch != 40) = false := by simp [mkS]
  have htok : (mkS n e (40 :: 34 :: (Mp.escape a ++ 34 :: 41 :: restK ss))).tok = n := rfl
  simp only [hch, Bool.false_eq_true, if_false, htok]
  rw [scan_lparen T hp _ e _ (sxPrep_mkS n e _ (show isWs ((40 : UInt8).toNat : Int) = false from by decide)) ha2]
  simp only []
  rw [scan_string T a _ e (41 :: restK ss) hl ha1 (sxPrep_mkS [40] e _ (show isWs ((34 : UInt8).toNat : Int) = false from by decide))]
  simp only [lparen_bytes]
  unfold funcLoop
  simp only []
  have htt : (mkS (34 :: (Mp.escape a ++ [34])) e (41 :: restK ss)).tok = 34 :: (Mp.escape a ++ [34]) := rfl
  simp only [htt, unescape_token a hl]
  rw [scan_rparen T hp _ e (restK ss) (sxPrep_mkS _ e _ (show isWs ((41 : UInt8).toNat : Int) = false from by decide)) har]
  unfold funcLoop
  have h44 : ((41 : Nat) == 44) = false := by decide
  simp only [h44, Bool.false_eq_true, if_false, beq_self_eq_true, if_true]
  rw [scan_restK T hT hm [41] e ss hss]
  simp [List.append_assoc]


/-! ### calls with any number of literal arguments -/

theorem str_true : str "true" = wordTrue := by with_unfolding_all decide
theorem str_false : str "false" = wordFalse := by with_unfolding_all decide

/-- the token the argument loop holds after an argument, when `sepArgs t ++ rest` is still to be read -/
def tokSep (e : Nat) (rest : Bytes) : List Arg → TokKind × Sc
  | [] => (.rune 41, mkS [41] e rest)
  | a :: t => (.rune 44, mkS [44] e (a.text ++ (sepArgs t ++ rest)))

/-- the token of an argument, when `sepArgs t ++ rest` follows it -/
def tokArg (e : Nat) (rest : Bytes) (a : Arg) (t : List Arg) : TokKind × Sc :=
  match a with
  | .s x => (.str, mkS (34 :: (Mp.escape x ++ [34])) e (sepArgs t ++ rest))
  | .b true => (.ident, mkS wordTrue e (sepArgs t ++ rest))
  | .b false => (.ident, mkS wordFalse e (sepArgs t ++ rest))

theorem asc_sepRest (t : List Arg) (ht : ∀ a ∈ t, a.OK) (rest : Bytes) (hr : Asc rest) : Asc (sepArgs t ++ rest) := by
  intro b hb
  rcases List.mem_append.mp hb with h | h
  · exact asc_sepArgs t ht b h
  · exact hr b h

theorem stopAt_sepRest (T : Tables) (t : List Arg) (rest : Bytes) : StopAt T (sepArgs t ++ rest) := by
  cases t with
  | nil => exact ⟨not_ident_41 T, by decide⟩
  | cons a t => exact ⟨not_ident_44 T, by decide⟩

theorem scan_sep (T : Tables) (hp : ParenOK T) (hA : ArgOK T) (tok : Bytes) (e : Nat) (rest : Bytes) (hr : Asc rest)
    (t : List Arg) (ht : ∀ a ∈ t, a.OK) : scan T (mkS tok e (sepArgs t ++ rest)) = tokSep e rest t := by
  cases t with
  | nil =>
    exact scan_rparen T hp _ e rest (sxPrep_mkS tok e (41 :: rest) (show isWs ((41 : UInt8).toNat : Int) = false from by decide)) hr
  | cons a t =>
    have ha : Asc (a.text ++ (sepArgs t ++ rest)) := by
      intro b hb
      rcases List.mem_append.mp hb with h | h
      · exact asc_argText a (ht a (by simp)) b h
      · exact asc_sepRest t (fun x hx => ht x (List.mem_cons_of_mem _ hx)) rest hr b h
    have hform : sepArgs (a :: t) ++ rest = 44 :: (a.text ++ (sepArgs t ++ rest)) := by simp [sepArgs, List.append_assoc]
    rw [hform]
    exact scan_comma T hA _ e _ (sxPrep_mkS tok e _ (show isWs ((44 : UInt8).toNat : Int) = false from by decide)) ha

theorem scan_arg (T : Tables) (hA : ArgOK T) (tok : Bytes) (e : Nat) (rest : Bytes) (hr : Asc rest) (a : Arg) (ha : a.OK)
    (t : List Arg) (ht : ∀ x ∈ t, x.OK) :
    scan T (mkS tok e (a.text ++ (sepArgs t ++ rest))) = tokArg e rest a t := by
  have hsr := asc_sepRest t ht rest hr
  cases a with
  | s x =>
    have hform : (Arg.s x).text ++ (sepArgs t ++ rest) = 34 :: (Mp.escape x ++ 34 :: (sepArgs t ++ rest)) := by
      simp [Arg.text, List.append_assoc]
    rw [hform]
    exact scan_string T x _ e (sepArgs t ++ rest) ha hsr
      (sxPrep_mkS tok e _ (show isWs ((34 : UInt8).toNat : Int) = false from by decide))
  | b v =>
    cases v with
    | true =>
      have hidb : ∀ x ∈ (116 : UInt8) :: [114, 117, 101], IdB T x := fun x hx => hA.word x (List.mem_append_left _ hx)
      have hall : Asc ((116 : UInt8) :: [114, 117, 101] ++ (sepArgs t ++ rest)) := by
        intro b hb
        rcases List.mem_append.mp hb with h | h
        · exact ⟨(hidb b h).asc, (hidb b h).nz⟩
        · exact hsr b h
      exact scan_ident T _ e 116 [114, 117, 101] (sepArgs t ++ rest)
        (sxPrep_mkS tok e _ (hidb 116 List.mem_cons_self).notWs) hidb (stopAt_sepRest T t rest) hall
    | false =>
      have hidb : ∀ x ∈ (102 : UInt8) :: [97, 108, 115, 101], IdB T x := fun x hx => hA.word x (List.mem_append_right _ hx)
      have hall : Asc ((102 : UInt8) :: [97, 108, 115, 101] ++ (sepArgs t ++ rest)) := by
        intro b hb
        rcases List.mem_append.mp hb with h | h
        · exact ⟨(hidb b h).asc, (hidb b h).nz⟩
        · exact hsr b h
      exact scan_ident T _ e 102 [97, 108, 115, 101] (sepArgs t ++ rest)
        (sxPrep_mkS tok e _ (hidb 102 List.mem_cons_self).notWs) hidb (stopAt_sepRest T t rest) hall

/-- THE ARGUMENT LOOP: from the token after an argument (first half) and from the token of an argument (second half) to the
    token after the closing parenthesis; the parameters are the literals, in order -/
theorem funcLoop_args (T : Tables) (hT : PunctOK T) (hm : MarkOK T) (hp : ParenOK T) (hA : ArgOK T) (e : Nat) (inv : Bool)
    (name : Bytes) (ss : List Seg) (hss : ∀ sg ∈ ss, sg.OK T) :
    ∀ (t : List Arg), (∀ a ∈ t, a.OK) →
      (∀ (F : Nat) (ps : List Param) (us : Bytes), 2 * t.length + 1 ≤ F →
        funcLoop T F inv name ps us (tokSep e (restK ss) t).1 (tokSep e (restK ss) t).2 =
          .ok (.func inv name (ps.reverse ++ t.map Arg.param) (us ++ sepArgs t)) (tokOf e ss).1 (tokOf e ss).2) ∧
      (∀ (a : Arg), a.OK → ∀ (F : Nat) (ps : List Param) (us : Bytes), 2 * t.length + 2 ≤ F →
        funcLoop T F inv name ps us (tokArg e (restK ss) a t).1 (tokArg e (restK ss) a t).2 =
          .ok (.func inv name (ps.reverse ++ (a :: t).map Arg.param) (us ++ a.text ++ sepArgs t)) (tokOf e ss).1 (tokOf e ss).2) := by
  have har : Asc (restK ss) := asc_restK hm ss hss
  -- the second half follows from the first for the same `t`
  have second : ∀ (t : List Arg), (∀ a ∈ t, a.OK) →
      (∀ (F : Nat) (ps : List Param) (us : Bytes), 2 * t.length + 1 ≤ F →
        funcLoop T F inv name ps us (tokSep e (restK ss) t).1 (tokSep e (restK ss) t).2 =
          .ok (.func inv name (ps.reverse ++ t.map Arg.param) (us ++ sepArgs t)) (tokOf e ss).1 (tokOf e ss).2) →
      (∀ (a : Arg), a.OK → ∀ (F : Nat) (ps : List Param) (us : Bytes), 2 * t.length + 2 ≤ F →
        funcLoop T F inv name ps us (tokArg e (restK ss) a t).1 (tokArg e (restK ss) a t).2 =
          .ok (.func inv name (ps.reverse ++ (a :: t).map Arg.param) (us ++ a.text ++ sepArgs t)) (tokOf e ss).1 (tokOf e ss).2) := by
    intro t ht first a ha F ps us hF
    match F, hF with
    | f + 1, hF =>
      cases a with
      | s x =>
        unfold funcLoop
        simp only [tokArg]
        have htt : (mkS (34 :: (Mp.escape x ++ [34])) e (sepArgs t ++ restK ss)).tok = 34 :: (Mp.escape x ++ [34]) := by
          cases h : sepArgs t ++ restK ss <;> rfl
        simp only [htt, unescape_token x ha]
        rw [scan_sep T hp hA _ e (restK ss) har t ht]
        rw [first f _ _ (by omega)]
        simp [Arg.param, Arg.text, List.append_assoc]
      | b v =>
        cases v with
        | true =>
          unfold funcLoop
          simp only [tokArg]
          have htt : (mkS wordTrue e (sepArgs t ++ restK ss)).tok = wordTrue := by
            cases h : sepArgs t ++ restK ss <;> rfl
          have h1 : (wordTrue == str "true") = true := by rw [str_true]; decide
          simp only [htt, h1, if_true]
          rw [scan_sep T hp hA _ e (restK ss) har t ht]
          rw [first f _ _ (by omega)]
          simp [Arg.param, Arg.text, List.append_assoc]
        | false =>
          unfold funcLoop
          simp only [tokArg]
          have htt : (mkS wordFalse e (sepArgs t ++ restK ss)).tok = wordFalse := by
            cases h : sepArgs t ++ restK ss <;> rfl
          have h1 : (wordFalse == str "true") = false := by rw [str_true]; decide
          have h2 : (wordFalse == str "false") = true := by rw [str_false]; decide
          simp only [htt, h1, h2, if_true, Bool.false_eq_true, if_false]
          rw [scan_sep T hp hA _ e (restK ss) har t ht]
          rw [first f _ _ (by omega)]
          simp [Arg.param, Arg.text, List.append_assoc]
  intro t
  induction t with
  | nil =>
    intro ht
    have first : ∀ (F : Nat) (ps : List Param) (us : Bytes), 2 * ([] : List Arg).length + 1 ≤ F →
        funcLoop T F inv name ps us (tokSep e (restK ss) []).1 (tokSep e (restK ss) []).2 =
          .ok (.func inv name (ps.reverse ++ ([] : List Arg).map Arg.param) (us ++ sepArgs [])) (tokOf e ss).1 (tokOf e ss).2 := by
      intro F ps us hF
      match F, hF with
      | f + 1, _ =>
        unfold funcLoop
        simp only [tokSep]
        have h44 : ((41 : Nat) == 44) = false := by decide
        simp only [h44, Bool.false_eq_true, if_false, beq_self_eq_true, if_true]
        rw [scan_restK T hT hm [41] e ss hss]
        simp [sepArgs]
    exact ⟨first, second [] ht first⟩
  | cons a t ih =>
    intro ht
    have hta : a.OK := ht a (by simp)
    have htt : ∀ x ∈ t, x.OK := fun x hx => ht x (List.mem_cons_of_mem _ hx)
    obtain ⟨_, ihArg⟩ := ih htt
    have first : ∀ (F : Nat) (ps : List Param) (us : Bytes), 2 * (a :: t).length + 1 ≤ F →
        funcLoop T F inv name ps us (tokSep e (restK ss) (a :: t)).1 (tokSep e (restK ss) (a :: t)).2 =
          .ok (.func inv name (ps.reverse ++ (a :: t).map Arg.param) (us ++ sepArgs (a :: t))) (tokOf e ss).1 (tokOf e ss).2 := by
      intro F ps us hF
      match F, hF with
      | f + 1, hF =>
        unfold funcLoop
        simp only [tokSep]
        simp only [beq_self_eq_true, if_true]
        rw [scan_arg T hA [44] e (restK ss) har a hta t htt]
        rw [ihArg a hta f ps (us ++ [44]) (by simp at hF; omega)]
        simp [sepArgs, List.append_assoc]
    exact ⟨first, second (a :: t) ht first⟩


/-- a call with literal arguments: from the name token (look-ahead `(`) to the token after `)` -/
theorem parseFunc_callA (T : Tables) (hT : PunctOK T) (hm : MarkOK T) (hp : ParenOK T) (hA : ArgOK T) (e : Nat) (n : Bytes)
    (as : List Arg) (ss : List Seg) (f : Nat) (hss : ∀ sg ∈ ss, sg.OK T) (has : ∀ a ∈ as, a.OK) :
    parseFunc T (f + 2 * as.length + 2) (mkS n e (40 :: (argsText as ++ restK ss))) =
      .ok (.func (!(knownFuncs.map str).contains n) n (as.map Arg.param) (n ++ (40 :: argsText as))) (tokOf e ss).1 (tokOf e ss).2 := by
  have har : Asc (restK ss) := asc_restK hm ss hss
  have hall : Asc (argsText as ++ restK ss) := by
    intro b hb
    rcases List.mem_append.mp hb with h | h
    · exact asc_argsText as has b h
    · exact har b h
  have hfu : f + 2 * as.length + 2 = (f + 2 * as.length + 1) + 1 := rfl
  rw [hfu]
  unfold parseFunc
  have hch : ((mkS n e (40 :: (argsText as ++ restK ss))).ch != 40) = false := by simp [mkS]
  have htok : (mkS n e (40 :: (argsText as ++ restK ss))).tok = n := rfl
  simp only [hch, Bool.false_eq_true, if_false, htok]
  rw [scan_lparen T hp _ e _ (sxPrep_mkS n e _ (show isWs ((40 : UInt8).toNat : Int) = false from by decide)) hall]
  simp only [lparen_bytes]
  cases as with
  | nil =>
    have hform : argsText ([] : List Arg) ++ restK ss = sepArgs [] ++ restK ss := rfl
    rw [hform, scan_sep T hp hA [40] e (restK ss) har [] (by simp)]
    rw [(funcLoop_args T hT hm hp hA e (!(knownFuncs.map str).contains n) n ss hss [] (by simp)).1 _ [] (n ++ [40]) (by simp)]
    simp [argsText, sepArgs]
  | cons a t =>
    have hta : a.OK := has a (by simp)
    have htt : ∀ x ∈ t, x.OK := fun x hx => has x (List.mem_cons_of_mem _ hx)
    have hform : argsText (a :: t) ++ restK ss = a.text ++ (sepArgs t ++ restK ss) := by simp [argsText, List.append_assoc]
    rw [hform, scan_arg T hA [40] e (restK ss) har a hta t htt]
    rw [(funcLoop_args T hT hm hp hA e (!(knownFuncs.map str).contains n) n ss hss t htt).2 a hta _ [] (n ++ [40]) (by simp; omega)]
    simp [argsText, List.append_assoc]

theorem pathLoop_callS_step (T : Tables) (hT : PunctOK T) (hm : MarkOK T) (hp : ParenOK T) (root : Bool) (e : Nat) (n a : Bytes) (ss : List Seg) (g : Nat)
    (ops : List PathPart) (us : Bytes) (hk : Key T n) (hl : Lit a) (hrest : ∀ x ∈ ss, x.OK T)
    (ih : pathLoop T (g + 3) root false false ((Seg.callS n a).part :: ops) (us ++ [46] ++ (Seg.callS n a).part.us) (tokOf e ss).1 (tokOf e ss).2 =
      .ok (.mk false root false false (((Seg.callS n a).part :: ops).reverse ++ keyParts ss) (us ++ [46] ++ (Seg.callS n a).part.us ++ restK ss)) (.rune 0) (mkS [] e [])) :
    pathLoop T (g + 5) root false false ops us (.rune 46) (mkS [46] e ((Seg.callS n a).text ++ restK ss)) =
      .ok (.mk false root false false (ops.reverse ++ keyParts (Seg.callS n a :: ss)) (us ++ restK (Seg.callS n a :: ss))) (.rune 0) (mkS [] e []) := by
  have hidb : ∀ x ∈ n, IdB T x := fun x hx => (hk.2 x hx).toIdB
  obtain ⟨b, n', rfl⟩ : ∃ b n', n = b :: n' := by
    cases n with
    | nil => exact absurd rfl hk.1
    | cons b n' => exact ⟨b, n', rfl⟩
  have har : Asc (restK ss) := asc_restK hm ss hrest
  have hacall : Asc (b :: n' ++ (40 :: 34 :: (Mp.escape a ++ 34 :: 41 :: restK ss))) := by
    intro x hx
    simp only [List.mem_append, List.mem_cons] at hx
    rcases hx with (rfl | h) | rfl | rfl | h | rfl | rfl | h
    · exact ⟨(hidb _ List.mem_cons_self).asc, (hidb _ List.mem_cons_self).nz⟩
    · exact ⟨(hidb x (List.mem_cons_of_mem _ h)).asc, (hidb x (List.mem_cons_of_mem _ h)).nz⟩
    · exact ⟨by decide, by decide⟩
    · exact ⟨by decide, by decide⟩
    · exact asc_escape a hl x h
    · exact ⟨by decide, by decide⟩
    · exact ⟨by decide, by decide⟩
    · exact har x h
  unfold pathLoop
  have htext : (Seg.callS (b :: n') a).text ++ restK ss = b :: n' ++ (40 :: 34 :: (Mp.escape a ++ 34 :: 41 :: restK ss)) := by simp [Seg.text]
  rw [htext]
  have hscan := scan_ident T (mkS [46] e (b :: n' ++ (40 :: 34 :: (Mp.escape a ++ 34 :: 41 :: restK ss)))) e b n' (40 :: 34 :: (Mp.escape a ++ 34 :: 41 :: restK ss))
    (sxPrep_mkS [46] e _ (hidb b List.mem_cons_self).notWs) hidb ⟨not_ident_40 T, by decide⟩ hacall
  simp only [beq_self_eq_true, if_true, hscan]
  unfold pathLoop
  have hch : ((mkS (b :: n') e (40 :: 34 :: (Mp.escape a ++ 34 :: 41 :: restK ss))).ch == 40) = true := by simp [mkS]
  simp only [hch, if_true]
  rw [parseFunc_callS T hT hm hp e (b :: n') a ss g hrest hl]
  simp only []
  have hpart : (Seg.callS (b :: n') a).part = .func (!(knownFuncs.map str).contains (b :: n')) (b :: n') [.str a] ((b :: n') ++ (40 :: 34 :: (Mp.escape a ++ [34, 41]))) := rfl
  rw [hpart] at ih
  simp only [PathPart.us] at ih ⊢
  rw [ih]
  simp [keyParts, restK, Seg.part, Seg.text, List.append_assoc]

/-- the loop over the steps: from the token after `$` (or after a step) to the end of the input -/
theorem pathLoop_keys (T : Tables) (hT : PunctOK T) (hm : MarkOK T) (hp : ParenOK T) (hA : ArgOK T) (root : Bool) (e : Nat) : ∀ (ss : List Seg) (F : Nat) (ops : List PathPart) (us : Bytes),
    (∀ sg ∈ ss, sg.OK T) → need ss ≤ F →
    pathLoop T F root false false ops us (tokOf e ss).1 (tokOf e ss).2 =
      .ok (.mk false root false false (ops.reverse ++ keyParts ss) (us ++ restK ss)) (.rune 0) (mkS [] e []) := by
  intro ss
  induction ss with
  | nil =>
    intro F ops us _ hF
    have hn : need ([] : List Seg) = 1 := rfl
    cases F with
    | zero => omega
    | succ f =>
      unfold pathLoop
      simp [tokOf, keyParts, restK]
  | cons sg ss ih =>
    intro F ops us hss hF
    have hsg := hss sg (by simp)
    have hrest : ∀ x ∈ ss, x.OK T := fun x hx => hss x (List.mem_cons_of_mem _ hx)
    have hF1 : need ss + 2 ≤ F := Nat.le_trans (Nat.le_max_left _ _) hF
    have hF2 : 2 * sg.nargs + 5 ≤ F := Nat.le_trans (Nat.le_max_right _ _) hF
    cases sg with
    | key k m =>
      have hk : Key T k := hsg
      have hidb := idb_tokB hm (km := (k, m)) hk
      obtain ⟨b, k', hbk⟩ : ∃ b k', tokB (k, m) = b :: k' := by
        cases h : tokB (k, m) with
        | nil => exact absurd h (tokB_ne_nil (km := (k, m)) hk)
        | cons b k' => exact ⟨b, k', rfl⟩
      have ha : Asc (b :: k' ++ restK ss) := by
        intro x hx
        rcases List.mem_append.mp hx with h | h
        · exact asc_of_idb hidb x (hbk ▸ h)
        · exact asc_restK hm ss hrest x h
      obtain ⟨f, rfl⟩ : ∃ f, F = f + 2 := ⟨F - 2, by simp only [Seg.nargs] at hF2; omega⟩
      unfold pathLoop
      simp only [tokOf, Seg.text, hbk]
      have hscan := scan_ident T (mkS [46] e (b :: k' ++ restK ss)) e b k' (restK ss)
        (sxPrep_mkS [46] e _ (hidb b (hbk ▸ List.mem_cons_self)).notWs) (hbk ▸ hidb) (stopAt_restK T ss) ha
      simp only [beq_self_eq_true, if_true, hscan]
      unfold pathLoop
      have hch : ((mkS (b :: k') e (restK ss)).ch == 40) = false := by
        cases ss with
        | nil => simp [restK, mkS]
        | cons k2 ks2 => simp [restK, mkS]
      have htok : (mkS (b :: k') e (restK ss)).tok = b :: k' := by cases h : restK ss <;> rfl
      simp only [hch, Bool.false_eq_true, if_false, htok]
      have hsplit := split_mark (k, m) hk
      rw [hbk] at hsplit
      simp only [splitMark, hsplit]
      rw [scan_restK T hT hm (b :: k') e ss hrest]
      rw [ih f (.ident k m (b :: k') :: ops) (us ++ [46] ++ (b :: k')) hrest (by omega)]
      simp [keyParts, restK, Seg.part, Seg.text, hbk, List.append_assoc]
    | call n =>
      have hk : Key T n := hsg
      have hidb : ∀ x ∈ n, IdB T x := fun x hx => (hk.2 x hx).toIdB
      obtain ⟨b, n', rfl⟩ : ∃ b n', n = b :: n' := by
        cases n with
        | nil => exact absurd rfl hk.1
        | cons b n' => exact ⟨b, n', rfl⟩
      have har : Asc (restK ss) := asc_restK hm ss hrest
      have hacall : Asc (b :: n' ++ (40 :: 41 :: restK ss)) := by
        intro x hx
        rcases List.mem_append.mp hx with h | h
        · exact asc_of_idb hidb x h
        · simp only [List.mem_cons] at h
          rcases h with rfl | rfl | h
          · exact ⟨by decide, by decide⟩
          · exact ⟨by decide, by decide⟩
          · exact har x h
      obtain ⟨f, rfl⟩ : ∃ f, F = f + 4 := ⟨F - 4, by simp only [Seg.nargs] at hF2; omega⟩
      unfold pathLoop
      simp only [tokOf, Seg.text]
      have htext : (b :: n') ++ [40, 41] ++ restK ss = b :: n' ++ (40 :: 41 :: restK ss) := by simp
      rw [htext]
      have hscan := scan_ident T (mkS [46] e (b :: n' ++ (40 :: 41 :: restK ss))) e b n' (40 :: 41 :: restK ss)
        (sxPrep_mkS [46] e _ (hidb b List.mem_cons_self).notWs) hidb ⟨not_ident_40 T, by decide⟩ hacall
      simp only [beq_self_eq_true, if_true, hscan]
      unfold pathLoop
      have hch : ((mkS (b :: n') e (40 :: 41 :: restK ss)).ch == 40) = true := by simp [mkS]
      simp only [hch, if_true]
      rw [parseFunc_call0 T hT hm hp e (b :: n') ss f hrest]
      simp only []
      rw [ih (f + 2) _ _ hrest (by omega)]
      simp [keyParts, restK, Seg.part, Seg.text, PathPart.us, List.append_assoc]
    | callS n a =>
      obtain ⟨g, rfl⟩ : ∃ g, F = g + 5 := ⟨F - 5, by simp only [Seg.nargs] at hF2; omega⟩
      simp only [tokOf]
      exact pathLoop_callS_step T hT hm hp root e n a ss g ops us hsg.1 hsg.2 hrest
        (ih (g + 3) _ _ hrest (by omega))
    | callA n as =>
      have hk : Key T n := hsg.1
      have has : ∀ a ∈ as, a.OK := hsg.2
      have hidb : ∀ x ∈ n, IdB T x := fun x hx => (hk.2 x hx).toIdB
      obtain ⟨b, n', rfl⟩ : ∃ b n', n = b :: n' := by
        cases n with
        | nil => exact absurd rfl hk.1
        | cons b n' => exact ⟨b, n', rfl⟩
      have har : Asc (restK ss) := asc_restK hm ss hrest
      have hacall : Asc (b :: n' ++ (40 :: (argsText as ++ restK ss))) := by
        intro x hx
        simp only [List.mem_append, List.mem_cons] at hx
        rcases hx with (rfl | h) | rfl | h | h
        · exact ⟨(hidb _ List.mem_cons_self).asc, (hidb _ List.mem_cons_self).nz⟩
        · exact ⟨(hidb x (List.mem_cons_of_mem _ h)).asc, (hidb x (List.mem_cons_of_mem _ h)).nz⟩
        · exact ⟨by decide, by decide⟩
        · exact asc_argsText as has x h
        · exact har x h
      obtain ⟨g, rfl⟩ : ∃ g, F = g + 2 * as.length + 4 := ⟨F - (2 * as.length + 4), by simp only [Seg.nargs] at hF2; omega⟩
      have hfu : g + 2 * as.length + 4 = (g + 2 * as.length + 3) + 1 := rfl
      rw [hfu]
      unfold pathLoop
      simp only [tokOf]
      have htext : (Seg.callA (b :: n') as).text ++ restK ss = b :: n' ++ (40 :: (argsText as ++ restK ss)) := by simp [Seg.text]
      rw [htext]
      have hscan := scan_ident T (mkS [46] e (b :: n' ++ (40 :: (argsText as ++ restK ss)))) e b n' (40 :: (argsText as ++ restK ss))
        (sxPrep_mkS [46] e _ (hidb b List.mem_cons_self).notWs) hidb ⟨not_ident_40 T, by decide⟩ hacall
      simp only [beq_self_eq_true, if_true, hscan]
      have hfu2 : g + 2 * as.length + 3 = (g + 2 * as.length + 2) + 1 := rfl
      rw [hfu2]
      unfold pathLoop
      have hch : ((mkS (b :: n') e (40 :: (argsText as ++ restK ss))).ch == 40) = true := by simp [mkS]
      simp only [hch, if_true]
      rw [parseFunc_callA T hT hm hp hA e (b :: n') as ss g hrest has]
      simp only []
      rw [ih (g + 2 * as.length + 2) _ _ hrest (by omega)]
      simp [keyParts, restK, Seg.part, Seg.text, PathPart.us, List.append_assoc]

theorem restK_length_ge {T : Tables} : ∀ (ss : List Seg), (∀ sg ∈ ss, sg.OK T) → 2 * ss.length ≤ (restK ss).length := by
  intro ss
  induction ss with
  | nil => intro _; simp [restK]
  | cons sg ss ih =>
    intro h
    have hk := h sg (by simp)
    have h1 : 1 ≤ sg.text.length := by
      cases sg with
      | key k m => exact List.length_pos_iff.mpr (tokB_ne_nil (km := (k, m)) hk)
      | call n => simp [Seg.text]
      | callS n a => simp [Seg.text]; omega
      | callA n as => simp [Seg.text]; omega
    have := ih (fun x hx => h x (List.mem_cons_of_mem _ hx))
    simp [restK]; omega


theorem sepArgs_length (as : List Arg) : 2 * as.length + 1 ≤ (sepArgs as).length := by
  induction as with
  | nil => simp [sepArgs]
  | cons a t ih =>
    have h1 : 1 ≤ a.text.length := by
      cases a with
      | s x => simp [Arg.text]
      | b v => cases v <;> simp [Arg.text, wordTrue, wordFalse]
    simp only [sepArgs, List.length_cons, List.length_append]
    omega

theorem argsText_length (as : List Arg) : 2 * as.length + 1 ≤ (argsText as).length := by
  cases as with
  | nil => simp [argsText]
  | cons a t =>
    have h1 : 2 ≤ a.text.length := by
      cases a with
      | s x => simp [Arg.text]
      | b v => cases v <;> simp [Arg.text, wordTrue, wordFalse]
    have := sepArgs_length t
    simp only [argsText, List.length_cons, List.length_append]
    omega

/-- the fuel the parser hands the path loop (twice the text and some) covers what the loop needs -/
theorem need_le {T : Tables} : ∀ (ss : List Seg), (∀ sg ∈ ss, sg.OK T) → need ss ≤ 2 * (restK ss).length + 4 := by
  intro ss
  induction ss with
  | nil => intro _; simp [need]
  | cons sg ss ih =>
    intro h
    have hk := h sg (by simp)
    have := ih (fun x hx => h x (List.mem_cons_of_mem _ hx))
    have h1 : 1 ≤ sg.text.length ∧ 2 * sg.nargs + 1 ≤ 2 * sg.text.length := by
      cases sg with
      | key k m => exact ⟨List.length_pos_iff.mpr (tokB_ne_nil (km := (k, m)) hk), by
          have := List.length_pos_iff.mpr (tokB_ne_nil (km := (k, m)) hk); simp [Seg.nargs, Seg.text]; omega⟩
      | call n => simp [Seg.text, Seg.nargs]; omega
      | callS n a => simp [Seg.text, Seg.nargs]; omega
      | callA n as =>
        have := argsText_length as
        simp [Seg.text, Seg.nargs]; omega
    simp only [need, restK, List.length_cons, List.length_append]
    apply Nat.max_le.mpr
    constructor <;> omega

theorem str_dollar : str "$" = [36] := by with_unfolding_all decide
theorem str_at : str "@" = [64] := by with_unfolding_all decide

/-- what the tables must say about `@` (a relative path) -/
def AtOK (T : Tables) : Prop := T.isPrint 64 = true

theorem not_ident_64 (T : Tables) : isIdentRune T 64 = false := by
  have : (64 : Nat) ∈ invalidRunes := by decide
  simp [isIdentRune, this]

theorem scan_at (T : Tables) (hT : AtOK T) (s : Sc) (e : Nat) (t : Bytes) (hprep : sxPrep s = mkS [] e (64 :: t)) (ha : Asc t) :
    scan T s = (.rune 64, mkS [64] e t) := by
  unfold scan mScan sxScan
  rw [hprep]
  unfold sxBody
  have h1 : isIdentRune T 64 = false := not_ident_64 T
  have hc : (mkS [] e (64 :: t)).ch = 64 := rfl
  have hn := mkS_next [] e 64 t ha
  simp only [List.nil_append] at hn
  simp only [hc, hn]
  have hp : T.isPrint 64 = true := hT
  simp [h1, hp]


theorem sprintParams_args (as : List Arg) : sprintParams (as.map Arg.param) ++ [41] = argsText as := by
  have hp : ∀ a : Arg, sprintParam a.param = a.text := by
    intro a
    cases a with
    | s x => simp [Arg.param, Arg.text, sprintParam]
    | b v => cases v <;> simp [Arg.param, Arg.text, sprintParam, str_true, str_false]
  have hsep : ∀ (a : Arg) (t : List Arg), sprintParams ((a :: t).map Arg.param) ++ [41] = a.text ++ sepArgs t := by
    intro a t
    induction t generalizing a with
    | nil => simp [sprintParams, sepArgs, hp]
    | cons b t ih =>
      have := ih b
      simp only [List.map_cons] at this ⊢
      simp only [sprintParams, sepArgs, hp, List.append_assoc]
      rw [this]
      simp
  cases as with
  | nil => simp [sprintParams, argsText]
  | cons a t => simpa [argsText] using hsep a t

/-- the printed form: `$` (or `@`) followed by `.key`, `.key?`, `.Name()` or `.Name("…")` for every step -/
theorem sprint_keyPath (root : Bool) (ss : List Seg) : sprintPath 0 (keyPath root ss) = rootB root :: restK ss := by
  have hparts : ∀ ss : List Seg, sprintParts 0 (keyParts ss) = restK ss := by
    intro ss
    induction ss with
    | nil => simp [keyParts, sprintParts, restK]
    | cons sg ss ih =>
      simp only [keyParts, List.map_cons, sprintParts] at ih ⊢
      rw [ih]
      cases sg with
      | key k m => cases m <;> simp [Seg.part, Seg.text, sprintPart, restK, tokB]
      | call n => simp [Seg.part, Seg.text, sprintPart, restK, sprintParams]
      | callS n a => simp [Seg.part, Seg.text, sprintPart, restK, sprintParams, sprintParam]
      | callA n as =>
        have hsp := sprintParams_args as
        simp only [Seg.part, Seg.text, sprintPart, restK]
        have : sprintParams (List.map Arg.param as) ++ ([41] ++ restK ss) = argsText as ++ restK ss := by
          rw [← List.append_assoc, hsp]
        simp only [List.append_assoc, this]
        simp
  unfold keyPath sprintPath
  rw [hparts]
  cases root <;> simp [tabs, str_dollar, str_at, rootB]

/-- PARSING THE PRINTED PATH GIVES THE PATH BACK: same root, same keys, same `?` marks, same calls, same string values, same
    recorded text -/
theorem parse_sprint_keyPath (T : Tables) (hT : PunctOK T) (hat : AtOK T) (hm : MarkOK T) (hp : ParenOK T) (hA : ArgOK T) (root : Bool) (ss : List Seg)
    (hss : ∀ sg ∈ ss, sg.OK T) :
    (parse T (sprintPath 0 (keyPath root ss))).1 = .op (.path (keyPath root ss)) := by
  rw [sprint_keyPath root ss]
  have hasc : Asc (restK ss) := asc_restK hm ss hss
  have hall : Asc (rootB root :: restK ss) := by
    intro b hb
    rcases List.mem_cons.mp hb with rfl | h
    · cases root <;> exact ⟨by decide, by decide⟩
    · exact hasc b h
  have hfuel : ∃ f, 2 * (restK ss).length + 16 - 2 = f ∧ 2 * ss.length + 4 ≤ f := by
    refine ⟨_, rfl, ?_⟩
    have := restK_length_ge ss hss
    omega
  unfold parse
  cases root with
  | true =>
    simp only [rootB, if_true]
    rw [scan_dollar T hT (Sc.init (36 :: restK ss)) 0 (restK ss) (sxPrep_init _ hall (show isWs ((36 : UInt8).toNat : Int) = false from by decide)) hasc]
    simp only []
    unfold topLoop
    simp only []
    have h0 : ((36 : Nat) == 0) = false := by decide
    have h123 : ((36 : Nat) == 123) = false := by decide
    have hor : ((36 : Nat) == 64 || (36 : Nat) == 36) = true := by decide
    simp only [h0, h123, hor, Bool.false_eq_true, if_false, if_true, Option.isSome_none]
    have hpp : parsePath T (2 * (mkS [36] 0 (restK ss)).rest.length + 16) false false (.rune 36) (mkS [36] 0 (restK ss)) =
        .ok (keyPath true ss) (.rune 0) (mkS [] 0 []) := by
      have hf2 : ∃ f, 2 * (mkS [36] 0 (restK ss)).rest.length + 16 = f + 1 ∧ need ss ≤ f := by
        refine ⟨2 * (mkS [36] 0 (restK ss)).rest.length + 15, rfl, ?_⟩
        have := need_le ss hss
        cases hr : restK ss with
        | nil => rw [hr] at this; simp at this; simp [mkS]; omega
        | cons c t => rw [hr] at this; simp [mkS] at this ⊢; omega
      obtain ⟨f, hf, hle⟩ := hf2
      rw [hf]
      unfold parsePath
      have hd : isRune (.rune 36) '$' = true := by decide
      simp only [hd, if_true, Bool.false_eq_true, if_false]
      rw [scan_restK T hT hm [36] 0 ss hss]
      rw [pathLoop_keys T hT hm hp hA true 0 ss f [] (str "$") hss hle]
      simp [keyPath, str_dollar, rootB]
    rw [hpp]
    simp only []
    cases hfl : (36 :: restK ss).length + 3 with
    | zero => omega
    | succ n =>
      unfold topLoop
      simp
  | false =>
    simp only [rootB, Bool.false_eq_true, if_false]
    rw [scan_at T hat (Sc.init (64 :: restK ss)) 0 (restK ss) (sxPrep_init _ hall (show isWs ((64 : UInt8).toNat : Int) = false from by decide)) hasc]
    simp only []
    unfold topLoop
    simp only []
    have h0 : ((64 : Nat) == 0) = false := by decide
    have h123 : ((64 : Nat) == 123) = false := by decide
    have hor : ((64 : Nat) == 64 || (64 : Nat) == 36) = true := by decide
    simp only [h0, h123, hor, Bool.false_eq_true, if_false, if_true, Option.isSome_none]
    have hpp : parsePath T (2 * (mkS [64] 0 (restK ss)).rest.length + 16) false false (.rune 64) (mkS [64] 0 (restK ss)) =
        .ok (keyPath false ss) (.rune 0) (mkS [] 0 []) := by
      have hf2 : ∃ f, 2 * (mkS [64] 0 (restK ss)).rest.length + 16 = f + 1 ∧ need ss ≤ f := by
        refine ⟨2 * (mkS [64] 0 (restK ss)).rest.length + 15, rfl, ?_⟩
        have := need_le ss hss
        cases hr : restK ss with
        | nil => rw [hr] at this; simp at this; simp [mkS]; omega
        | cons c t => rw [hr] at this; simp [mkS] at this ⊢; omega
      obtain ⟨f, hf, hle⟩ := hf2
      rw [hf]
      unfold parsePath
      have hd : isRune (.rune 64) '$' = false := by decide
      have hd2 : isRune (.rune 64) '@' = true := by decide
      simp only [hd, hd2, if_true, Bool.false_eq_true, if_false]
      rw [scan_restK T hT hm [64] 0 ss hss]
      rw [pathLoop_keys T hT hm hp hA false 0 ss f [] (str "@") hss hle]
      simp [keyPath, str_at, rootB]
    rw [hpp]
    simp only []
    cases hfl : (64 :: restK ss).length + 3 with
    | zero => omega
    | succ n =>
      unfold topLoop
      simp

/-- and so printing is a fixed point on what it printed: print, parse, print again gives the same text -/
theorem sprint_parse_sprint (T : Tables) (hT : PunctOK T) (hat : AtOK T) (hm : MarkOK T) (hp : ParenOK T) (hA : ArgOK T) (root : Bool) (ss : List Seg)
    (hss : ∀ sg ∈ ss, sg.OK T) :
    ∃ p, (parse T (sprintPath 0 (keyPath root ss))).1 = .op (.path p) ∧ sprintPath 0 p = sprintPath 0 (keyPath root ss) :=
  ⟨keyPath root ss, parse_sprint_keyPath T hT hat hm hp hA root ss hss, rfl⟩

/-- non-vacuity with the ASCII tables: `$.ab.c?.Count()` -/
example : PunctOK protoTables := ⟨by decide, by decide⟩
example : AtOK protoTables := by unfold AtOK; decide
example : ParenOK protoTables := ⟨by decide, by decide⟩
example : MarkOK protoTables := ⟨by decide, by decide, by decide, by decide⟩
example : ArgOK protoTables := ⟨by decide, by
  intro b hb
  simp only [wordTrue, wordFalse, List.cons_append, List.nil_append, List.mem_cons, List.not_mem_nil, or_false] at hb
  rcases hb with rfl | rfl | rfl | rfl | rfl | rfl | rfl | rfl | rfl <;> exact ⟨by decide, by decide, by decide, by decide⟩⟩
example : Key protoTables [97, 98] := ⟨by simp, by
  intro b hb
  have : b = 97 ∨ b = 98 := by simpa using hb
  rcases this with rfl | rfl <;> exact ⟨⟨by decide, by decide, by decide, by decide⟩, by decide⟩⟩

#print axioms parseFunc_call0
#print axioms parseFunc_callS
#print axioms funcLoop_args
#print axioms parseFunc_callA
#print axioms need_le
#print axioms pathLoop_keys
#print axioms sprint_keyPath
#print axioms parse_sprint_keyPath
#print axioms sprint_parse_sprint
end Mp
