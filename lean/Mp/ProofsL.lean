import Mp.EvalS
/-! Prototype: C01 — refinement of key-only paths to a lookup on logical documents (objects and primitives; arrays next).
    Core-only. -/
namespace Mp

inductive Doc where
  | null
  | bool (b : Bool)
  | num (d : Dec)
  | str (s : Bytes)
  | obj (ks : List Bytes) (vs : List Doc)

mutual
def render : Doc → GoVal
  | .null => .nil
  | .bool b => .bool false b
  | .num d => .dec d
  | .str s => .str false s
  | .obj ks vs => .map .str false ks (renderList vs)
def renderList : List Doc → List GoVal
  | [] => []
  | d :: ds => render d :: renderList ds
end

theorem renderList_eq_map (ds : List Doc) : renderList ds = ds.map render := by
  induction ds with
  | nil => rfl
  | cons d ds ih => simp [renderList, ih]

/-- the specification: the first (hence, under the uniqueness hypothesis, the only) key equal under folding -/
def specGet (name : Bytes) : List Bytes → List Doc → Option Doc
  | k :: ks, v :: vs => if equalFold k name then some v else specGet name ks vs
  | _, _ => none

def pathSpec : List Bytes → Doc → Option Doc
  | [], d => some d
  | k :: ks, .obj keys vals => (specGet k keys vals).bind (pathSpec ks)
  | _ :: _, _ => none

/-- at most one key of the object equals `name` under folding, and keys are not empty -/
def UniqueKey (name : Bytes) (keys : List Bytes) : Prop :=
  (∀ k ∈ keys, k ≠ []) ∧ (keys.filter (fun k => equalFold k name)).length ≤ 1

theorem equalFold_refl (a : Bytes) : equalFold a a = true := by simp [equalFold]
theorem equalFold_of_eq {a b : Bytes} (h : a = b) : equalFold a b = true := by subst h; exact equalFold_refl a

/-- key lookup in a map finds exactly what the specification finds -/
theorem findMapKey_spec (name : Bytes) : ∀ (keys : List Bytes) (vals : List GoVal) (dvals : List Doc),
    vals = renderList dvals → keys.length = dvals.length → UniqueKey name keys →
    findMapKey keys vals name = (specGet name keys dvals).map render := by
  intro keys
  induction keys with
  | nil => intro vals dvals _ _ _; simp [findMapKey, specGet]
  | cons k ks ih =>
    intro vals dvals hv hl hu
    cases dvals with
    | nil => simp at hl
    | cons dv dvs =>
      subst hv
      obtain ⟨hne, hlen⟩ := hu
      have hkne : k ≠ [] := hne k List.mem_cons_self
      by_cases hf : equalFold k name = true
      · -- k is the unique folding match: no other key matches
        have hrest : ∀ k' ∈ ks, equalFold k' name = false := by
          intro k' hk'
          cases hc' : equalFold k' name with
          | false => rfl
          | true =>
          exfalso
          have : (List.filter (fun k => equalFold k name) (k :: ks)).length ≥ 2 := by
            simp only [List.filter_cons, hf, if_true, List.length_cons]
            have : 0 < (List.filter (fun k => equalFold k name) ks).length :=
              List.length_pos_of_mem (List.mem_filter.mpr ⟨hk', hc'⟩)
            omega
          omega
        have hnoexact : ∀ k' ∈ ks, (k' == name) = false := by
          intro k' hk'
          have h1 := hrest k' hk'
          cases hc : (k' == name) with
          | false => rfl
          | true =>
            have h2 : k' = name := by simpa using hc
            rw [equalFold_of_eq h2] at h1
            simp at h1
        have hfilt : (List.filter (fun p => equalFold p.1 name && !p.1.isEmpty) (ks.zip (renderList dvs))) = [] := by
          apply List.filter_eq_nil_iff.mpr
          intro p hp
          have := hrest p.1 (List.of_mem_zip hp).1
          simp [this]
        have hfind : List.find? (fun p => p.1 == name) (ks.zip (renderList dvs)) = none := by
          apply List.find?_eq_none.mpr
          intro p hp
          have := hnoexact p.1 (List.of_mem_zip hp).1
          simp [this]
        simp only [specGet, hf, if_true, Option.map_some]
        unfold findMapKey
        simp only [renderList, List.zip_cons_cons, List.find?_cons]
        by_cases hex : (k == name) = true
        · simp [hex]
        · have hke : k.isEmpty = false := by cases k <;> simp_all
          simp [hex, hfind, List.filter_cons, hf, hke, hfilt]
      · -- k does not match: recurse
        have hf' : equalFold k name = false := by simpa using hf
        have hex : (k == name) = false := by
          cases hc : (k == name) with
          | false => rfl
          | true =>
            have h2 : k = name := by simpa using hc
            rw [equalFold_of_eq h2] at hf'
            simp at hf'
        have hu' : UniqueKey name ks := by
          refine ⟨fun k' hk' => hne k' (List.mem_cons_of_mem _ hk'), ?_⟩
          simpa [List.filter_cons, hf'] using hlen
        have := ih (renderList dvs) dvs rfl (by simpa using hl) hu'
        simp only [specGet, hf', Bool.false_eq_true, if_false]
        rw [← this]
        unfold findMapKey
        simp [renderList, List.find?_cons, hex, List.filter_cons, hf']

theorem conv_render (v : Doc) : numberKindsToDecimal (render v) = render v := by
  cases v with
  | null => simp [render, numberKindsToDecimal, RV.of, isEmptyValue, RV.kind, RV.derefOnce, toDecimalIfNumber, toDecimalCheck]
  | bool b => cases b <;> simp [render, numberKindsToDecimal, RV.of, isEmptyValue, RV.kind, GoVal.kind, RV.derefOnce, toDecimalIfNumber, toDecimalCheck]
  | num d => simp [render, numberKindsToDecimal, RV.of, isEmptyValue, RV.kind, GoVal.kind, RV.derefOnce, toDecimalIfNumber, toDecimalCheck]
  | str s => cases s <;> simp [render, numberKindsToDecimal, RV.of, isEmptyValue, RV.kind, GoVal.kind, RV.derefOnce]
  | obj ks vs => cases ks <;> simp [render, numberKindsToDecimal, RV.of, isEmptyValue, RV.kind, GoVal.kind, RV.derefOnce, toDecimalIfNumber, toDecimalCheck]

/-- documents whose objects are well formed: one value per key, no empty key, no two keys equal under folding -/
inductive Good : Doc → Prop
  | null : Good .null
  | bool (b) : Good (.bool b)
  | num (d) : Good (.num d)
  | str (s) : Good (.str s)
  | obj (ks vs) : ks.length = vs.length → (∀ name, UniqueKey name ks) → (∀ v ∈ vs, Good v) → Good (.obj ks vs)

theorem specGet_mem (name : Bytes) : ∀ (ks : List Bytes) (vs : List Doc) (v : Doc), specGet name ks vs = some v → v ∈ vs := by
  intro ks
  induction ks with
  | nil => intro vs v h; simp [specGet] at h
  | cons k ks ih =>
    intro vs v h
    cases vs with
    | nil => simp [specGet] at h
    | cons w ws =>
      simp only [specGet] at h
      split at h
      · cases h; exact List.mem_cons_self
      · exact List.mem_cons_of_mem _ (ih ws v h)

theorem identDo_obj (name : Bytes) (ks : List Bytes) (vs : List Doc) (hl : ks.length = vs.length) (hu : UniqueKey name ks) :
    identDo name (render (.obj ks vs)) = match specGet name ks vs with | some v => .ok (render v) | none => .knf := by
  unfold identDo
  have hd : (RV.of (render (.obj ks vs))).derefOnce = .val (.map .str false ks (renderList vs)) := by
    simp [render, RV.of, RV.derefOnce, RV.kind, GoVal.kind]
  rw [hd]
  simp only []
  rw [findMapKey_spec name ks (renderList vs) vs rfl hl hu]
  cases specGet name ks vs with
  | none => rfl
  | some v => simp [conv_render]

theorem identDo_prim (name : Bytes) (d : Doc) (h : ∀ ks vs, d ≠ .obj ks vs) : identDo name (render d) = .knf := by
  cases d with
  | null => simp [render, identDo, RV.of, RV.derefOnce, RV.kind, valuesByName, isEmptyValue]
  | bool b => cases b <;> simp [render, identDo, RV.of, RV.derefOnce, RV.kind, GoVal.kind, valuesByName, isEmptyValue]
  | num x => simp [render, identDo, RV.of, RV.derefOnce, RV.kind, GoVal.kind, valuesByName, isEmptyValue, fieldByName]
  | str s => cases s <;> simp [render, identDo, RV.of, RV.derefOnce, RV.kind, GoVal.kind, valuesByName, isEmptyValue]
  | obj ks vs => exact absurd rfl (h ks vs)

def idents (ks : List Bytes) : List EPart := ks.map (fun k => EPart.ident k false)

def isNull : Doc → Bool | .null => true | _ => false

theorem isNilVal_render (d : Doc) : isNilVal (render d) = isNull d := by
  cases d <;> simp [render, isNilVal, isNull]

theorem sPart_ident' (k : Bytes) (p : Bool) (cur orig : GoVal) : sPart (.ident k p) cur orig = identDo k cur := by
  unfold sPart; rfl

/-- the loop of opPath.Do over unmarked keys, started in the state it is in after a step that produced `d` -/
theorem tail_refines (orig : GoVal) : ∀ (ks : List Bytes) (d : Doc), Good d → ks ≠ [] →
    sParts (idents ks) (render d) orig (isNull d) (some false) =
      match pathSpec ks d with | some v => .ok (render v) | none => .knf := by
  intro ks
  induction ks with
  | nil => intro d _ h; exact absurd rfl h
  | cons k ks ih =>
    intro d hg _
    simp only [idents, List.map_cons]
    unfold sParts
    simp only [sPart_ident']
    cases d with
    | obj keys vals =>
      cases hg with
      | obj _ _ hl hu hgs =>
        simp only [isNull, Bool.and_false, Bool.false_eq_true, if_false, Option.isSome_some, Bool.true_and]
        rw [identDo_obj k keys vals hl (hu k)]
        simp only [pathSpec]
        cases hs : specGet k keys vals with
        | none => simp
        | some v =>
          simp only [Option.bind_some]
          have hgv := hgs v (specGet_mem k keys vals v hs)
          cases ks with
          | nil => simp [sParts, pathSpec]
          | cons k2 ks2 =>
            have := ih v hgv (by simp)
            simp only [idents] at this
            rw [isNilVal_render, Bool.false_or]
            exact this
    | null => simp [isNull, pathSpec]
    | bool b =>
      simp only [isNull, Bool.and_false, Bool.false_eq_true, if_false]
      rw [identDo_prim k (.bool b) (by intro _ _ h; cases h)]
      simp [pathSpec]
    | num x =>
      simp only [isNull, Bool.and_false, Bool.false_eq_true, if_false]
      rw [identDo_prim k (.num x) (by intro _ _ h; cases h)]
      simp [pathSpec]
    | str x =>
      simp only [isNull, Bool.and_false, Bool.false_eq_true, if_false]
      rw [identDo_prim k (.str x) (by intro _ _ h; cases h)]
      simp [pathSpec]

/-- C01 (objects and primitives): `$.k1.….kn` returns exactly the value stored under those keys, matched without
    regard to case, or key-not-found; for paths of ANY length and documents of ANY depth. -/
theorem path_refines (ks : List Bytes) (d : Doc) (hg : Good d) (hne : ks ≠ []) :
    sPath (.mk true false (idents ks)) (render d) (render d) =
      match pathSpec ks d with | some v => .ok (render v) | none => .knf := by
  unfold sPath
  cases ks with
  | nil => exact absurd rfl hne
  | cons k ks =>
    simp only [Bool.and_false, Bool.false_eq_true, if_false, if_true, idents, List.map_cons]
    unfold sParts
    simp only [sPart_ident', Option.isSome_none, Bool.false_and, Bool.false_eq_true, if_false]
    cases d with
    | obj keys vals =>
      cases hg with
      | obj _ _ hl hu hgs =>
        rw [identDo_obj k keys vals hl (hu k)]
        simp only [pathSpec]
        cases hs : specGet k keys vals with
        | none => simp
        | some v =>
          simp only [Option.bind_some]
          have hgv := hgs v (specGet_mem k keys vals v hs)
          cases ks with
          | nil => simp [sParts, pathSpec]
          | cons k2 ks2 =>
            have := tail_refines (render (.obj keys vals)) (k2 :: ks2) v hgv (by simp)
            simp only [idents] at this
            rw [isNilVal_render, Bool.false_or]
            exact this
    | null => rw [identDo_prim k .null (by intro _ _ h; cases h)]; simp [pathSpec]
    | bool b => rw [identDo_prim k (.bool b) (by intro _ _ h; cases h)]; simp [pathSpec]
    | num x => rw [identDo_prim k (.num x) (by intro _ _ h; cases h)]; simp [pathSpec]
    | str x => rw [identDo_prim k (.str x) (by intro _ _ h; cases h)]; simp [pathSpec]

#print axioms path_refines
end Mp
