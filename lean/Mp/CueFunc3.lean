import Mp.CueFunc
/-! C14 — two more facts about the call rule of the validator model, over the descriptor table regenerated from the running package:
    an argument list longer than the descriptor declares is rejected whatever the arguments are and whatever follows (the model
    counts arguments, it does not look at their kind), and the element type of a list is known one level deep only
    (`x.AsArray().AsArray()` is a list of lists: what First / Last / Index hand back from it is reported as Any). Core-only. -/
namespace Mp
open Generated

/-- the names of the table are distinct: a name finds its own row -/
theorem lookup_self : ∀ fd ∈ funcTable, lookupFunc fd.name = some fd := by decide

/-- **over-long argument lists are rejected**: for every function that is not variadic and every count above the number of declared
    parameters, the chain is rejected at that call - whatever the receiver type, whatever comes after -/
theorem over_long_rejected (fd : FuncDesc) (hfd : fd ∈ funcTable) (hv : fd.params.any (fun p => p.2 == "Variadic") = false)
    (nargs : Nat) (hn : fd.params.length < nargs) (last : CTy) (rest : List (String × Nat)) (prev : String × String) (b : Bool) :
    validateCalls last ((fd.name, nargs) :: rest) prev b = none := by
  unfold validateCalls
  rw [lookup_self fd hfd]
  have : argCountOk fd nargs = false := by
    unfold argCountOk
    simp only [hv, Bool.or_false, decide_eq_false_iff_not, Nat.not_le]
    exact hn
  simp [this]

/-- a list of lists: the element type is not carried through the second AsArray -/
theorem asArray_twice_then_element : ∀ t ∈ ["String", "Number", "Boolean", "Object", "Any"], ∀ f ∈ ["First", "Last"],
    validateCalls (.prim "top") [("AsArray", 0), ("AsArray", 0), (f, 0)] (t, "Single") false = some ("Any", "Single") := by
  decide

/-- one level deep it is known -/
theorem asArray_once_then_element : ∀ t ∈ ["String", "Number", "Boolean", "Object", "Any"], ∀ f ∈ ["First", "Last"],
    validateCalls (.prim "top") [("AsArray", 0), (f, 0)] (t, "Single") false = some (t, "Single") := by
  decide

#print axioms lookup_self
#print axioms over_long_rejected
#print axioms asArray_twice_then_element
#print axioms asArray_once_then_element
end Mp
