import Mp.Parse
namespace Mp

def tabs (n : Nat) : Bytes := List.replicate n 9

def natDigits (n : Nat) : Bytes := (Nat.toDigits 10 n).map (fun c => UInt8.ofNat c.toNat)

/-- decimal.Decimal.String() -/
def Dec.toBytes (d : Dec) : Bytes :=
  if d.exp ≥ 0 then
    let v := d.coef * 10 ^ d.exp.toNat
    (if v < 0 then [45] else []) ++ natDigits v.natAbs
  else
    let s := natDigits d.coef.natAbs
    let k := (-d.exp).toNat
    let (ip, fp) : Bytes × Bytes :=
      if s.length > k then (s.take (s.length - k), s.drop (s.length - k))
      else (str "0", List.replicate (k - s.length) 48 ++ s)
    let fp := (fp.reverse.dropWhile (· == 48)).reverse
    let num := if fp.isEmpty then ip else ip ++ [46] ++ fp
    if d.coef < 0 then 45 :: num else num

def joinB (sep : Bytes) : List Bytes → Bytes
  | [] => []
  | [x] => x
  | x :: xs => x ++ sep ++ joinB sep xs

/-- FP_*.String(): what the validator's tree shows for an argument (a path or group argument: what the user typed) -/
def Param.toBytes : Param → Bytes
  | .num d => d.toBytes
  | .str s => [34] ++ escape s ++ [34]
  | .bool b => if b then Mp.str "true" else Mp.str "false"
  | .path p => p.us
  | .logic l => l.us

mutual
def sprintPath (depth : Nat) : PathOp → Bytes
  | .mk _ root _ _ ops _ => tabs depth ++ (if root then str "$" else str "@") ++ sprintParts depth ops
def sprintParts (depth : Nat) : List PathPart → Bytes
  | [] => []
  | p :: ps => sprintPart depth p ++ sprintParts depth ps
def sprintPart (depth : Nat) : PathPart → Bytes
  | .ident name prop _ => [46] ++ name ++ (if prop then [63] else [])
  | .filter lo _ => sprintLogic depth lo
  | .func _ name params _ => [46] ++ name ++ [40] ++ sprintParams params ++ [41]
/-- opFunction.Sprint: a path or group argument is printed from its structure (at depth 0), the others by String() -/
def sprintParam : Param → Bytes
  | .num d => d.toBytes
  | .str s => [34] ++ escape s ++ [34]
  | .bool b => if b then Mp.str "true" else Mp.str "false"
  | .path p => sprintPath 0 p
  | .logic l => sprintLogic 0 l
def sprintParams : List Param → Bytes
  | [] => []
  | [p] => sprintParam p
  | p :: ps => sprintParam p ++ [44] ++ sprintParams ps
def sprintLogic (depth : Nat) : LogicOp → Bytes
  | .mk _ isFilter ty ops _ =>
    (if isFilter then [91] else tabs depth ++ [123]) ++ [10] ++ tabs (depth + 1) ++
    (if ty == str "And" then str "AND," else if ty == str "Or" then str "OR," else []) ++
    sprintLogicParts depth ops ++ [10] ++ tabs depth ++ (if isFilter then [93] else [125])
def sprintLogicParts (depth : Nat) : List LogicPart → Bytes
  | [] => []
  | [p] => [10] ++ sprintLogicPart (depth + 1) p
  | p :: ps => [10] ++ sprintLogicPart (depth + 1) p ++ [44] ++ sprintLogicParts depth ps
def sprintLogicPart (depth : Nat) : LogicPart → Bytes
  | .path p => sprintPath depth p
  | .logic l => sprintLogic depth l
end

def hexDigit (n : Nat) : UInt8 := UInt8.ofNat (if n < 10 then 48 + n else 87 + n)
def hex (b : Bytes) : String := String.mk ((b.flatMap fun c => [hexDigit (c.toNat / 16), hexDigit (c.toNat % 16)]).map (fun c => Char.ofNat c.toNat))
def b2s (b : Bool) : String := if b then "1" else "0"

mutual
def dumpPath : PathOp → String
  | .mk inv root isF must ops us => s!"P({b2s inv},{b2s root},{b2s isF},{b2s must},[{dumpParts ops}],{hex us})"
def dumpParts : List PathPart → String
  | [] => ""
  | p :: ps => dumpPart p ++ ";" ++ dumpParts ps
def dumpPart : PathPart → String
  | .ident name prop us => s!"I({hex name},{b2s prop},{hex us})"
  | .filter lo us => s!"F({dumpLogic lo},{hex us})"
  | .func inv name ps us => s!"Fn({b2s inv},{hex name},[{dumpParams ps}],{hex us})"
def dumpParams : List Param → String
  | [] => ""
  | p :: ps => dumpParam p ++ ";" ++ dumpParams ps
def dumpParam : Param → String
  | .num d => s!"N({d.coef},{d.exp})"
  | .str s => s!"S({hex s})"
  | .bool b => s!"B({b2s b})"
  | .path p => s!"PP({dumpPath p})"
  | .logic l => s!"PL({dumpLogic l})"
def dumpLogic : LogicOp → String
  | .mk inv isF ty ops us => s!"L({b2s inv},{b2s isF},{hex ty},[{dumpLogicParts ops}],{hex us})"
def dumpLogicParts : List LogicPart → String
  | [] => ""
  | p :: ps => dumpLogicPart p ++ ";" ++ dumpLogicParts ps
def dumpLogicPart : LogicPart → String
  | .path p => dumpPath p
  | .logic l => dumpLogic l
end

def unhex (s : String) : Bytes :=
  let v (c : Char) : Nat := if c.isDigit then c.toNat - 48 else c.toNat - 87
  let rec go : List Char → Bytes
    | a :: b :: t => UInt8.ofNat (v a * 16 + v b) :: go t
    | _ => []
  go s.toList

def handle (T : Tables) (line : String) : String :=
  let src := unhex line
  match (parse T src).1 with
  | .op (.path p) => s!"OP {dumpPath p} SPRINT {hex (sprintPath 0 p)}"
  | .op (.logic l) => s!"OP {dumpLogic l} SPRINT {hex (sprintLogic 0 l)}"
  | .neither => "NEITHER"
  | .err => "ERR"
  | .panic => "PANIC"
  | .fuel => "FUEL"

end Mp
