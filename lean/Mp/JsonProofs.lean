import Mp.Json
/-! C10 — "a document produced inside the query by ParseJSON from its serialised text behaves like the document itself", the first
    half at the level of the model: parsing the compact JSON text of a document (objects, arrays, strings, booleans, null; numbers
    go through the float model and are covered by the correspondence run, not by this theorem) gives that document back, for
    documents of ANY size and nesting. Core-only. -/
namespace Mp.GoJson

/-- a byte that can stand in a JSON string as it is -/
def SafeByte (c : UInt8) : Prop := c ≠ 34 ∧ c ≠ 92 ∧ 32 ≤ c.toNat ∧ c.toNat < 128
def Safe (s : Bytes) : Prop := ∀ c ∈ s, SafeByte c

def quote (s : Bytes) : Bytes := [34] ++ s ++ [34]

mutual
/-- the compact text json.Marshal writes for a document without numbers -/
def render : J → Bytes
  | .null => [110, 117, 108, 108]
  | .bool true => [116, 114, 117, 101]
  | .bool false => [102, 97, 108, 115, 101]
  | .num t => t
  | .str s => quote s
  | .arr [] => [91, 93]
  | .arr (x :: xs) => [91] ++ render x ++ renderElems xs
  | .obj [] => [123, 125]
  | .obj ((k, v) :: kvs) => [123] ++ quote k ++ [58] ++ render v ++ renderMembers kvs
/-- the rest of an array after an element: `,x…]` or `]` -/
def renderElems : List J → Bytes
  | [] => [93]
  | x :: xs => [44] ++ render x ++ renderElems xs
def renderMembers : List (Bytes × J) → Bytes
  | [] => [125]
  | (k, v) :: kvs => [44] ++ quote k ++ [58] ++ render v ++ renderMembers kvs
end

mutual
/-- documents the theorem speaks about: no numbers, strings and keys of safe bytes -/
def Good : J → Prop
  | .null => True
  | .bool _ => True
  | .num _ => False
  | .str s => Safe s
  | .arr xs => GoodList xs
  | .obj kvs => GoodMembers kvs
def GoodList : List J → Prop
  | [] => True
  | x :: xs => Good x ∧ GoodList xs
def GoodMembers : List (Bytes × J) → Prop
  | [] => True
  | (k, v) :: kvs => Safe k ∧ Good v ∧ GoodMembers kvs
end

mutual
def size : J → Nat
  | .arr xs => 1 + sizeList xs
  | .obj kvs => 1 + sizeMembers kvs
  | _ => 1
def sizeList : List J → Nat
  | [] => 0
  | x :: xs => size x + sizeList xs + 1
def sizeMembers : List (Bytes × J) → Nat
  | [] => 0
  | (_, v) :: kvs => size v + sizeMembers kvs + 1
end

theorem pStringBody_safe (s rest : Bytes) (h : Safe s) : pStringBody (s ++ 34 :: rest) = .ok s rest := by
  induction s with
  | nil => simp [pStringBody]
  | cons c t ih =>
    have hc := h c List.mem_cons_self
    obtain ⟨h1, h2, h3, h4⟩ := hc
    have e1 : (c == 34) = false := by simpa using h1
    have e2 : (c == 92) = false := by simpa using h2
    have e3 : ¬ (c.toNat < 32) := by omega
    have e4 : ¬ (c.toNat ≥ 128) := by omega
    simp only [List.cons_append, pStringBody, e1, e2, Bool.false_eq_true, if_false, e3, e4, decide_false, Bool.or_self]
    rw [ih (fun x hx => h x (List.mem_cons_of_mem _ hx))]

/-- a byte that is not white space stays at the head -/
theorem skipWs_nonws (c : UInt8) (t : Bytes) (h : isWs c = false) : skipWs (c :: t) = c :: t := by
  simp [skipWs, h]


theorem startsWith_append (p rest : Bytes) : startsWith p (p ++ rest) = some rest := by
  simp [startsWith, List.prefix_append]

/-- the first byte of a rendered document: not white space, not a closing bracket -/
theorem render_head (d : J) (h : Good d) : ∃ c t, render d = c :: t ∧ isWs c = false ∧ c ≠ 93 ∧ c ≠ 125 := by
  cases d with
  | null => exact ⟨110, [117, 108, 108], by simp [render], by decide, by decide, by decide⟩
  | bool b =>
    cases b with
    | false => exact ⟨102, [97, 108, 115, 101], by simp [render], by decide, by decide, by decide⟩
    | true => exact ⟨116, [114, 117, 101], by simp [render], by decide, by decide, by decide⟩
  | num t => simp [Good] at h
  | str s => exact ⟨34, s ++ [34], by simp [render, quote], by decide, by decide, by decide⟩
  | arr xs => cases xs with
    | nil => exact ⟨91, [93], by simp [render], by decide, by decide, by decide⟩
    | cons x xs => exact ⟨91, render x ++ renderElems xs, by simp [render], by decide, by decide, by decide⟩
  | obj kvs => cases kvs with
    | nil => exact ⟨123, [125], by simp [render], by decide, by decide, by decide⟩
    | cons kv kvs => obtain ⟨k, v⟩ := kv; exact ⟨123, quote k ++ [58] ++ render v ++ renderMembers kvs, by simp [render], by decide, by decide, by decide⟩

theorem size_pos (d : J) : 1 ≤ size d := by
  cases d <;> simp [size] <;> omega

/-- the text between the brackets of a non-empty array / object -/
def elemsBody : List J → Bytes
  | [] => []
  | x :: xs => render x ++ renderElems xs
def membersBody : List (Bytes × J) → Bytes
  | [] => []
  | (k, v) :: kvs => quote k ++ [58] ++ render v ++ renderMembers kvs

mutual
theorem pValue_render (d : J) (h : Good d) : ∀ (fuel : Nat) (rest : Bytes), size d < fuel → pValue fuel (render d ++ rest) = .ok d rest := by
  intro fuel rest hf
  cases fuel with
  | zero => omega
  | succ fuel =>
    cases d with
    | null => simp [pValue, render, skipWs, isWs, startsWith]
    | bool b => cases b <;> simp [pValue, render, skipWs, isWs, startsWith]
    | num t => simp [Good] at h
    | str s =>
      simp only [Good] at h
      have e : render (.str s) ++ rest = 34 :: (s ++ 34 :: rest) := by simp [render, quote]
      rw [e]
      unfold pValue
      rw [skipWs_nonws 34 _ (by decide)]
      simp only []
      rw [pStringBody_safe s rest h]
    | arr xs =>
      cases xs with
      | nil => simp [pValue, render, skipWs, isWs]
      | cons x xs =>
        have hg : GoodList (x :: xs) := by simpa [Good] using h
        have e : render (.arr (x :: xs)) ++ rest = 91 :: (elemsBody (x :: xs) ++ rest) := by simp [render, elemsBody]
        rw [e]
        unfold pValue
        rw [skipWs_nonws 91 _ (by decide)]
        simp only []
        have hx : Good x := by simp only [GoodList] at hg; exact hg.1
        obtain ⟨c, t, hr, hws, h93, _⟩ := render_head x hx
        have hb : elemsBody (x :: xs) ++ rest = c :: (t ++ renderElems xs ++ rest) := by simp [elemsBody, hr]
        have hsk : skipWs (elemsBody (x :: xs) ++ rest) = elemsBody (x :: xs) ++ rest := by
          rw [hb]; exact skipWs_nonws c _ hws
        rw [hsk]
        have := pElems_render (x :: xs) hg [] fuel rest (by simp) (by simp [size] at hf; omega)
        rw [hb] at this ⊢
        split
        · rename_i r heq; simp at heq; exact absurd heq.1 h93
        · simpa using this
    | obj kvs =>
      cases kvs with
      | nil => simp [pValue, render, skipWs, isWs]
      | cons kv kvs =>
        obtain ⟨k, v⟩ := kv
        have hg : GoodMembers ((k, v) :: kvs) := by simpa [Good] using h
        have e : render (.obj ((k, v) :: kvs)) ++ rest = 123 :: (membersBody ((k, v) :: kvs) ++ rest) := by simp [render, membersBody]
        rw [e]
        unfold pValue
        rw [skipWs_nonws 123 _ (by decide)]
        simp only []
        have hb : membersBody ((k, v) :: kvs) ++ rest = 34 :: (k ++ 34 :: 58 :: (render v ++ renderMembers kvs ++ rest)) := by
          simp [membersBody, quote]
        have hsk : skipWs (membersBody ((k, v) :: kvs) ++ rest) = membersBody ((k, v) :: kvs) ++ rest := by
          rw [hb]; exact skipWs_nonws 34 _ (by decide)
        rw [hsk]
        have := pMembers_render ((k, v) :: kvs) hg [] fuel rest (by simp) (by simp [size] at hf; omega)
        rw [hb] at this ⊢
        split
        · rename_i r heq; simp at heq
        · simpa using this
termination_by structural d
theorem pElems_render (l : List J) (hl : GoodList l) : ∀ (acc : List J) (fuel : Nat) (rest : Bytes), l ≠ [] →
    sizeList l < fuel → pElems fuel (elemsBody l ++ rest) acc = .ok (.arr (acc ++ l)) rest := by
  intro acc fuel rest hne hf
  cases l with
  | nil => exact absurd rfl hne
  | cons x xs =>
    simp only [GoodList] at hl
    cases fuel with
    | zero => omega
    | succ fuel =>
      unfold pElems
      have e : elemsBody (x :: xs) ++ rest = render x ++ (renderElems xs ++ rest) := by simp [elemsBody]
      rw [e, pValue_render x hl.1 fuel (renderElems xs ++ rest) (by simp [sizeList] at hf; omega)]
      simp only []
      cases xs with
      | nil => simp [renderElems, skipWs, isWs]
      | cons y ys =>
        have e2 : renderElems (y :: ys) ++ rest = 44 :: (elemsBody (y :: ys) ++ rest) := by simp [renderElems, elemsBody]
        rw [e2, skipWs_nonws 44 _ (by decide)]
        simp only []
        have := pElems_render (y :: ys) hl.2 (acc ++ [x]) fuel rest (by simp) (by simp [sizeList] at hf ⊢; have := size_pos x; omega)
        simpa [List.append_assoc] using this
termination_by structural l
theorem pMembers_render (l : List (Bytes × J)) (hl : GoodMembers l) : ∀ (acc : List (Bytes × J)) (fuel : Nat) (rest : Bytes), l ≠ [] →
    sizeMembers l < fuel → pMembers fuel (membersBody l ++ rest) acc = .ok (.obj (acc ++ l)) rest := by
  intro acc fuel rest hne hf
  cases l with
  | nil => exact absurd rfl hne
  | cons kv kvs =>
    obtain ⟨k, v⟩ := kv
    simp only [GoodMembers] at hl
    cases fuel with
    | zero => omega
    | succ fuel =>
      unfold pMembers
      have e : membersBody ((k, v) :: kvs) ++ rest = 34 :: (k ++ 34 :: (58 :: (render v ++ (renderMembers kvs ++ rest)))) := by
        simp [membersBody, quote]
      rw [e, skipWs_nonws 34 _ (by decide)]
      simp only []
      rw [pStringBody_safe k _ hl.1]
      simp only []
      rw [skipWs_nonws 58 _ (by decide)]
      simp only []
      rw [pValue_render v hl.2.1 fuel (renderMembers kvs ++ rest) (by simp [sizeMembers] at hf; omega)]
      simp only []
      cases kvs with
      | nil => simp [renderMembers, skipWs, isWs]
      | cons kv2 kvs2 =>
        obtain ⟨k2, v2⟩ := kv2
        have e2 : renderMembers ((k2, v2) :: kvs2) ++ rest = 44 :: (membersBody ((k2, v2) :: kvs2) ++ rest) := by simp [renderMembers, membersBody]
        rw [e2, skipWs_nonws 44 _ (by decide)]
        simp only []
        have := pMembers_render ((k2, v2) :: kvs2) hl.2.2 (acc ++ [(k, v)]) fuel rest (by simp) (by simp [sizeMembers] at hf ⊢; have := size_pos v; omega)
        simpa [List.append_assoc] using this
termination_by structural l
end


mutual
theorem size_le_length (d : J) (h : Good d) : size d ≤ (render d).length := by
  cases d with
  | null => simp [size, render]
  | bool b => cases b <;> simp [size, render]
  | num t => simp [Good] at h
  | str s => simp [size, render, quote]
  | arr xs =>
    cases xs with
    | nil => simp [size, sizeList, render]
    | cons x xs =>
      simp only [Good, GoodList] at h
      have h1 := size_le_length x h.1
      have h2 := sizeList_le_length xs h.2
      simp [size, sizeList, render] at *
      omega
  | obj kvs =>
    cases kvs with
    | nil => simp [size, sizeMembers, render]
    | cons kv kvs =>
      obtain ⟨k, v⟩ := kv
      simp only [Good, GoodMembers] at h
      have h1 := size_le_length v h.2.1
      have h2 := sizeMembers_le_length kvs h.2.2
      simp [size, sizeMembers, render, quote] at *
      omega
termination_by structural d
theorem sizeList_le_length (xs : List J) (h : GoodList xs) : sizeList xs + 1 ≤ (renderElems xs).length := by
  cases xs with
  | nil => simp [sizeList, renderElems]
  | cons x xs =>
    simp only [GoodList] at h
    have h1 := size_le_length x h.1
    have h2 := sizeList_le_length xs h.2
    simp [sizeList, renderElems] at *
    omega
termination_by structural xs
theorem sizeMembers_le_length (kvs : List (Bytes × J)) (h : GoodMembers kvs) : sizeMembers kvs + 1 ≤ (renderMembers kvs).length := by
  cases kvs with
  | nil => simp [sizeMembers, renderMembers]
  | cons kv kvs =>
    obtain ⟨k, v⟩ := kv
    simp only [GoodMembers] at h
    have h1 := size_le_length v h.2.1
    have h2 := sizeMembers_le_length kvs h.2.2
    simp [sizeMembers, renderMembers, quote] at *
    omega
termination_by structural kvs
end

/-- **parsing the compact JSON text of a document gives the document back** (objects, arrays, strings, booleans, null; any size,
    any nesting) -/
theorem parse_render (d : J) (h : Good d) : parse (render d) = .ok d [] := by
  unfold parse
  have := pValue_render d h ((render d).length + 2) [] (by have := size_le_length d h; omega)
  rw [List.append_nil] at this
  rw [this]
  simp [skipWs]

/-- … and so does `json.Unmarshal(text, &map[string]any{})` of the model for an object: the map the conversion `toGo` makes of it -/
theorem unmarshal_render_object (kvs : List (Bytes × J)) (h : Good (.obj kvs)) :
    unmarshalObject (render (.obj kvs)) = some (toGo (.obj kvs)) := by
  unfold unmarshalObject
  rw [parse_render _ h]

example : parse (render (.obj [([107], .arr [.bool true, .null, .str [97, 98]]), ([113], .obj [])])) =
    .ok (.obj [([107], .arr [.bool true, .null, .str [97, 98]]), ([113], .obj [])]) [] :=
  parse_render _ (by simp [Good, GoodMembers, GoodList, Safe, SafeByte])

#print axioms pValue_render
#print axioms parse_render
#print axioms unmarshal_render_object
end Mp.GoJson
