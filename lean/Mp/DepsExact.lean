import Mp.Deps
namespace Deps
/-! completeness of the dependency closure: the result is closed under `deps` and contains the start set,
    hence contains everything reachable (C15). -/

theorem closure_complete_aux (g : Graph) : ∀ (queue visited res : List Name),
    closure g queue visited = .ok res →
    (∀ v, v ∈ visited → ∀ nx, g.deps v = some nx → ∀ y, y ∈ nx → y ∈ visited ∨ y ∈ queue) →
    (∀ v, v ∈ visited → v ∈ res) ∧ (∀ q, q ∈ queue → q ∈ res) ∧
      (∀ v, v ∈ res → ∀ nx, g.deps v = some nx → ∀ y, y ∈ nx → y ∈ res) := by
  intro queue visited
  induction queue, visited using closure.induct g with
  | case1 visited =>
    intro res h hinv
    rw [closure_nil] at h; cases h
    refine ⟨fun v hv => hv, ?_, ?_⟩
    · intro q hq; cases hq
    · intro v hv nx hd y hy
      rcases hinv v hv nx hd y hy with h1 | h1
      · exact h1
      · cases h1
  | case2 visited d q hv ih =>
    intro res h hinv
    rw [closure_seen g d q visited hv] at h
    have hdv : d ∈ visited := by simpa using hv
    have := ih res h (by
      intro v hvv nx hd y hy
      rcases hinv v hvv nx hd y hy with h1 | h1
      · exact Or.inl h1
      · rcases List.mem_cons.mp h1 with rfl | h2
        · exact Or.inl hdv
        · exact Or.inr h2)
    obtain ⟨a, b, c⟩ := this
    refine ⟨a, ?_, c⟩
    intro x hx
    rcases List.mem_cons.mp hx with rfl | h2
    · exact a _ hdv
    · exact b x h2
  | case3 visited d q hv hd =>
    intro res h _
    obtain ⟨e, he⟩ := closure_none g d q visited (by simpa using hv) hd
    rw [he] at h; cases h
  | case4 visited d q hv nx hd ih =>
    intro res h hinv
    rw [closure_some g d q visited nx (by simpa using hv) hd] at h
    have := ih res h (by
      intro v hvv nx' hd' y hy
      rcases List.mem_cons.mp hvv with rfl | hvv'
      · -- v = d : its successors were just queued
        rw [hd] at hd'; cases hd'
        exact Or.inr (List.mem_append.mpr (Or.inr hy))
      · rcases hinv v hvv' nx' hd' y hy with h1 | h1
        · exact Or.inl (List.mem_cons_of_mem _ h1)
        · rcases List.mem_cons.mp h1 with rfl | h2
          · exact Or.inl List.mem_cons_self
          · exact Or.inr (List.mem_append.mpr (Or.inl h2)))
    obtain ⟨a, b, c⟩ := this
    refine ⟨fun v hv' => a v (List.mem_cons_of_mem _ hv'), ?_, c⟩
    intro x hx
    rcases List.mem_cons.mp hx with rfl | h2
    · exact a _ List.mem_cons_self
    · exact b x (List.mem_append.mpr (Or.inl h2))

/-- everything reachable from the start set is in the result -/
theorem closure_complete (g : Graph) (start res : List Name) (h : closure g start [] = .ok res) :
    ∀ s ∈ start, ∀ x, Reach g s x → x ∈ res := by
  obtain ⟨_, hb, hc⟩ := closure_complete_aux g start [] res h (by intro v hv; cases hv)
  intro s hs x hr
  have hsr := hb s hs
  clear hs
  induction hr with
  | refl a => exact hsr
  | step nx hd hy _ ih => exact ih (hc _ hsr nx hd _ hy)

/-- with soundness: the result is exactly the reachable set -/
theorem closure_exact (g : Graph) (start res : List Name) (h : closure g start [] = .ok res) (x : Name) :
    x ∈ res ↔ ∃ s ∈ start, Reach g s x := by
  constructor
  · intro hx
    rcases closure_sound g start [] res h x hx with h1 | h1
    · cases h1
    · exact h1
  · rintro ⟨s, hs, hr⟩
    exact closure_complete g start res h s hs x hr

#print axioms closure_exact

end Deps
