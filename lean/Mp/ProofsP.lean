import Mp.EvalS
namespace Mp

def Out.np : Out → Bool | .panic => false | _ => true

@[simp] theorem np_okBool (b) : (okBool b).np = true := rfl
@[simp] theorem np_okDec (d) : (okDec d).np = true := rfl
@[simp] theorem np_okStr (s) : (okStr s).np = true := rfl
@[simp] theorem np_err : Out.err.np = true := rfl
@[simp] theorem np_ok (v) : (Out.ok v).np = true := rfl

theorem decimalSlice_np (ps v f) : (decimalSlice ps v f).np = true := by
  unfold decimalSlice
  simp only []
  split <;> simp

theorem stringPart_np (ps v f) : (stringPart ps v f).np = true := by
  unfold stringPart
  (repeat' split) <;> simp [Out.np, okStr]

set_option maxHeartbeats 1600000 in
theorem pureFunc_np (nm : String) (ps : List Prm) (v : GoVal) (o : Out) (h : pureFunc nm ps v = some o) : o.np = true := by
  unfold pureFunc at h
  simp only [] at h
  split at h
  all_goals first
    | (cases h; exact decimalSlice_np _ _ _)
    | (cases h; exact stringPart_np _ _ _)
    | (cases h; done)
    | (simp only [Option.some.injEq] at h; subst h; (repeat' split) <;> simp [Out.np, okBool, okDec, okStr])
    | skip
#print axioms pureFunc_np
end Mp
