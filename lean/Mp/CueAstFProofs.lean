import Mp.CueAstF
/-! What the validator with filters (`Mp/CueAstF.lean`) does at a filter: once a path is stopped nothing after it counts; a filter on a
    value that is not a list is an error of the path; an error inside the group of a filter ends the walk of the path with exactly
    that error; a filter whose group has no error changes nothing (the keys before it are validated as if it were not there). Core-only. -/
namespace Mp
open Generated

theorem stoppedF_keeps (root : CTy) (bl eb : List String) (errs : List String) :
    ∀ (rest : List PathPart) (r : List String × (String × String)), vPartsF root bl eb (.stopped errs) rest = some r → r.1 = errs := by
  intro rest
  induction rest with
  | nil => intro r h; simp only [vPartsF, Option.some.injEq] at h; rw [← h]
  | cons op rest ih =>
    intro r h
    cases op with
    | ident n pr us => simp only [vPartsF] at h; exact ih r h
    | filter lo us => simp only [vPartsF] at h; exact ih r h
    | func inv n ps us =>
      simp only [vPartsF] at h
      cases inv with
      | true => simp at h
      | false => simp only [Bool.false_eq_true, if_false] at h; exact ih r h

/-- **only lists can be filtered**: a filter after keys that lead to a value that is not a list is an error of the path, whatever
    the filter says and whatever follows -/
theorem filter_on_non_list (root : CTy) (bl eb ks : List String) (lo : LogicOp) (us : Bytes) (rest : List PathPart)
    (last : CTy) (prev : String × String) (pwf : Bool) (e : List String)
    (hk : finishKeysB root bl eb ks = some (.calls last prev pwf e)) (hl : isListTy last = false)
    (r : List String × (String × String)) (h : vPartsF root bl eb (.keys ks) (.filter lo us :: rest) = some r) : r.1 = ["other"] := by
  simp only [vPartsF, hk, hl, Bool.not_false, if_true] at h
  exact stoppedF_keeps root bl eb ["other"] rest r h

/-- **an error inside a filter ends the walk**: the path reports exactly the errors of the filter's group -/
theorem filter_error_ends_walk (root : CTy) (bl eb ks : List String) (lo : LogicOp) (us : Bytes) (rest : List PathPart)
    (last : CTy) (prev : String × String) (pwf : Bool) (e : List String)
    (hk : finishKeysB root bl eb ks = some (.calls last prev pwf e)) (hl : isListTy last = true)
    (errs : List String) (ty : String × String) (hg : vLogicF root bl (eb ++ ks) true lo = some (errs, ty)) (hne : errs ≠ [])
    (r : List String × (String × String)) (h : vPartsF root bl eb (.keys ks) (.filter lo us :: rest) = some r) : r.1 = errs := by
  have hemp : errs.isEmpty = false := by cases errs with | nil => exact absurd rfl hne | cons a as => rfl
  simp only [vPartsF, hk, hl, Bool.not_true, Bool.false_eq_true, if_false, hg, hemp] at h
  exact stoppedF_keeps root bl eb errs rest r h

/-- **a filter without an error changes nothing**: the path is validated as if the filter were not there -/
theorem clean_filter_transparent (root : CTy) (bl eb ks : List String) (lo : LogicOp) (us : Bytes) (rest : List PathPart)
    (last : CTy) (prev : String × String) (pwf : Bool) (e : List String)
    (hk : finishKeysB root bl eb ks = some (.calls last prev pwf e)) (hl : isListTy last = true)
    (ty : String × String) (hg : vLogicF root bl (eb ++ ks) true lo = some ([], ty)) :
    vPartsF root bl eb (.keys ks) (.filter lo us :: rest) = vPartsF root bl eb (.keys ks) rest := by
  simp only [vPartsF, hk, hl, Bool.not_true, Bool.false_eq_true, if_false, hg, List.isEmpty_nil, if_true]

/-- a filter after a call is an error of that call, and the walk goes on -/
theorem filter_after_call (root : CTy) (bl eb : List String) (lo : LogicOp) (us : Bytes) (rest : List PathPart)
    (last : CTy) (prev : String × String) (pwf : Bool) (e : List String) :
    vPartsF root bl eb (.calls last prev pwf e) (.filter lo us :: rest) = vPartsF root bl eb (.calls last prev pwf (e ++ ["other"])) rest := by
  simp only [vPartsF]

end Mp

/-! ### only a root field can be blocked: an `@` path that starts below the root (inside a filter, as an argument of a call on a
    value reached by keys) is validated without regard to the blocked root fields, whatever its keys are called -/
namespace Mp
open Generated

theorem finishKeysB_below_root (root : CTy) (bl : List String) (eb ks : List String) (h : eb ≠ []) :
    finishKeysB root bl eb ks = finishKeysB root [] eb ks := by
  unfold finishKeysB
  cases eb with
  | nil => exact absurd rfl h
  | cons b bs => rfl

theorem keys_below_root_not_blocked (root : CTy) (bl : List String) (eb : List String) (h : eb ≠ []) :
    ∀ (names : List Bytes) (ks : List String),
      vPartsF root bl eb (.keys ks) (names.map (fun n => PathPart.ident n false [])) =
      vPartsF root [] eb (.keys ks) (names.map (fun n => PathPart.ident n false [])) := by
  intro names
  induction names with
  | nil => intro ks; simp only [List.map_nil, vPartsF, finishKeysB_below_root root bl eb ks h]
  | cons n ns ih =>
    intro ks
    simp only [List.map_cons, vPartsF]
    cases bytesToString n with
    | none => rfl
    | some s => exact ih (ks ++ [s])

/-- **C15**: inside a filter on `$.input.items`, the condition path `@.s2.name` is validated the same whether or not `s2` is a blocked
    root field: the blocked list concerns root fields only -/
theorem at_path_below_root_ignores_blocked (root : CTy) (bl base : List String) (h : base ≠ []) (i f m : Bool) (us : Bytes) (names : List Bytes) :
    vPathF root bl base (.mk i false f m (names.map (fun n => PathPart.ident n false [])) us) =
    vPathF root [] base (.mk i false f m (names.map (fun n => PathPart.ident n false [])) us) := by
  simp only [vPathF, Bool.false_eq_true, if_false]
  exact keys_below_root_not_blocked root bl base h names []

end Mp
