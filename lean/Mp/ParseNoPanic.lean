import Mp.ParseProofs
/-! C08 — the parser model has no panicking step: whatever the bytes, the result is an operation or an error (with
    `parse_fuel_sufficient`: never "out of fuel" either). The model marks with `.panic` the places where the Go code would
    panic; none is reachable from `parse`. -/
namespace Mp

def PR.isPanic {α} : PR α → Bool | .panic => true | _ => false

def AllNP (T : Tables) (F : Nat) : Prop :=
  (∀ isF mE r s, (parsePath T F isF mE r s).isPanic = false) ∧
  (∀ root isF mE ops us r s, (pathLoop T F root isF mE ops us r s).isPanic = false) ∧
  (∀ isF r s, (parseLogic T F isF r s).isPanic = false) ∧
  (∀ inv isF ty ops us r s, (logicLoop T F inv isF ty ops us r s).isPanic = false) ∧
  (∀ s, (parseFunc T F s).isPanic = false) ∧
  (∀ inv name ps us r s, (funcLoop T F inv name ps us r s).isPanic = false)

theorem allNP (T : Tables) : ∀ F, AllNP T F := by
  intro F
  induction F with
  | zero =>
    refine ⟨?_, ?_, ?_, ?_, ?_, ?_⟩ <;> intros
    · unfold parsePath; rfl
    · unfold pathLoop; rfl
    · unfold parseLogic; rfl
    · unfold logicLoop; rfl
    · unfold parseFunc; rfl
    · unfold funcLoop; rfl
  | succ n ih =>
    obtain ⟨h1, h2, h3, h4, h5, h6⟩ := ih
    refine ⟨?_, ?_, ?_, ?_, ?_, ?_⟩
    · intro isF mE r s
      unfold parsePath
      split
      · split
        · rfl
        · exact h2 _ _ _ _ _ _ _
      · split
        · exact h2 _ _ _ _ _ _ _
        · rfl
    · intro root isF mE ops us r s
      unfold pathLoop
      simp only
      split
      · rfl
      · split
        · exact h2 _ _ _ _ _ _ _
        · split
          · split
            · split <;> rfl
            · rfl
          · split
            · split
              · exact h2 _ _ _ _ _ _ _
              · rfl
              · rename_i heq; have := congrArg PR.isPanic heq; rw [h3] at this; exact absurd this (by decide)
              · rfl
            · rfl
      · split
        · split
          · exact h2 _ _ _ _ _ _ _
          · rfl
          · rename_i heq; have := congrArg PR.isPanic heq; rw [h5] at this; exact absurd this (by decide)
          · rfl
        · exact h2 _ _ _ _ _ _ _
      · rfl
    · intro isF r s
      unfold parseLogic
      split
      · split
        · simp only
          split
          · exact h4 _ _ _ _ _ _ _
          · split
            · exact h4 _ _ _ _ _ _ _
            · exact h4 _ _ _ _ _ _ _
        · rfl
      · rfl
    · intro inv isF ty ops us r s
      unfold logicLoop
      split
      · rfl
      · split
        · exact h4 _ _ _ _ _ _ _
        · split
          · split
            · exact h4 _ _ _ _ _ _ _
            · rfl
            · rename_i heq; have := congrArg PR.isPanic heq; rw [h1] at this; exact absurd this (by decide)
            · rfl
          · split
            · split
              · exact h4 _ _ _ _ _ _ _
              · rfl
              · rename_i heq; have := congrArg PR.isPanic heq; rw [h3] at this; exact absurd this (by decide)
              · rfl
            · split <;> rfl
      · rfl
    · intro s
      unfold parseFunc
      split
      · rfl
      · exact h6 _ _ _ _ _ _
    · intro inv name ps us r s
      unfold funcLoop
      simp only
      split
      · rfl
      · split
        · exact h6 _ _ _ _ _ _
        · split
          · rfl
          · split
            · split
              · exact h6 _ _ _ _ _ _
              · rfl
              · rename_i heq; have := congrArg PR.isPanic heq; rw [h1] at this; exact absurd this (by decide)
              · rfl
            · split
              · split
                · exact h6 _ _ _ _ _ _
                · rfl
                · rename_i heq; have := congrArg PR.isPanic heq; rw [h3] at this; exact absurd this (by decide)
                · rfl
              · exact h6 _ _ _ _ _ _
      · exact h6 _ _ _ _ _ _
      · exact h6 _ _ _ _ _ _
      · exact h6 _ _ _ _ _ _
      · split
        · exact h6 _ _ _ _ _ _
        · split
          · exact h6 _ _ _ _ _ _
          · split <;> first | rfl | exact h6 _ _ _ _ _ _

def ParseResult.isPanic : ParseResult → Bool | .panic => true | _ => false

theorem topLoop_no_panic (T : Tables) : ∀ (F : Nat) (top : Option TopOp) (r : TokKind) (s : Sc), (topLoop T F top r s).isPanic = false := by
  intro F
  induction F with
  | zero => intros; unfold topLoop; rfl
  | succ n ih =>
    intro top r s
    unfold topLoop
    split
    · split <;> rfl
    · split
      · split <;> rfl
      · split
        · split
          · rfl
          · split
            · exact ih _ _ _
            · rfl
            · rename_i heq; have := congrArg PR.isPanic heq; rw [(allNP T (2 * s.rest.length + 16)).2.2.1] at this; exact absurd this (by decide)
            · rfl
        · split
          · split
            · rfl
            · split
              · exact ih _ _ _
              · rfl
              · rename_i heq; have := congrArg PR.isPanic heq; rw [(allNP T (2 * s.rest.length + 16)).1] at this; exact absurd this (by decide)
              · rfl
          · rfl
    · rfl

/-- PARSING NEVER PANICS (in the model): for every byte string the result is an operation, "neither" or an error -/
theorem parse_never_panics (T : Tables) (src : Bytes) : (parse T src).1.isPanic = false := by
  unfold parse
  exact topLoop_no_panic T _ _ _ _

def ParseResult.isNeither : ParseResult → Bool | .neither => true | _ => false

theorem topLoop_not_neither (T : Tables) : ∀ (F : Nat) (top : Option TopOp) (r : TokKind) (s : Sc), (topLoop T F top r s).isNeither = false := by
  intro F
  induction F with
  | zero => intros; unfold topLoop; rfl
  | succ n ih =>
    intro top r s
    unfold topLoop
    split
    · split <;> rfl
    · split
      · split <;> rfl
      · split
        · split
          · rfl
          · split
            · exact ih _ _ _
            all_goals rfl
        · split
          · split
            · rfl
            · split
              · exact ih _ _ _
              all_goals rfl
          · rfl
    · rfl

/-- THE CONTRACT: for every byte string the parser model returns an operation or an error - never neither, never a panic,
    never "out of fuel" -/
theorem parse_op_or_err (T : Tables) (src : Bytes) : (∃ t, (parse T src).1 = .op t) ∨ (parse T src).1 = .err := by
  have h1 := parse_never_panics T src
  have h2 := parse_fuel_sufficient T src
  have h3 : (parse T src).1.isNeither = false := by unfold parse; exact topLoop_not_neither T _ _ _ _
  cases h : (parse T src).1 with
  | op t => exact Or.inl ⟨t, rfl⟩
  | err => exact Or.inr rfl
  | neither => rw [h] at h3; cases h3
  | panic => rw [h] at h1; cases h1
  | fuel => rw [h] at h2; cases h2

#print axioms parse_never_panics
#print axioms parse_op_or_err
end Mp
