namespace Deps
abbrev Name := String

def cnt (visited : List Name) : List Name → Nat
  | [] => 0
  | x :: xs => (if visited.contains x then 0 else 1) + cnt visited xs

theorem cnt_le (visited : List Name) (d : Name) (l : List Name) : cnt (d :: visited) l ≤ cnt visited l := by
  induction l with
  | nil => simp [cnt]
  | cons x xs ih =>
    simp only [cnt, List.contains_cons]
    by_cases h1 : visited.contains x <;> by_cases h2 : x == d <;> simp [h1, h2] <;> omega

theorem cnt_lt (visited : List Name) (d : Name) (l : List Name) (hU : d ∈ l) (hv : visited.contains d = false) :
    cnt (d :: visited) l < cnt visited l := by
  induction l with
  | nil => cases hU
  | cons x xs ih =>
    have hle := cnt_le visited d xs
    simp only [cnt, List.contains_cons]
    by_cases hx : x = d
    · subst hx
      have hv' : x ∉ visited := by simpa using hv
      simp [hv']; omega
    · have hU' : d ∈ xs := by
        cases hU with
        | head => exact absurd rfl hx
        | tail _ h => exact h
      have := ih hU'
      have hxd : (x == d) = false := by simp [hx]
      by_cases h1 : visited.contains x <;> simp [h1, hxd] <;> omega

structure Graph where
  U    : List Name
  deps : Name → Option (List Name)
  closed : ∀ n, (deps n).isSome → n ∈ U

def closure (g : Graph) (queue visited : List Name) : Except String (List Name) :=
  match queue with
  | [] => .ok visited
  | d :: q =>
    if hv : visited.contains d then closure g q visited
    else
      match hd : g.deps d with
      | none => .error s!"failed to find dependency {d}"
      | some nx => closure g (q ++ nx) (d :: visited)
termination_by (cnt visited g.U, queue.length)
decreasing_by
  · apply Prod.Lex.right; simp
  · apply Prod.Lex.left
    exact cnt_lt visited d g.U (g.closed d (by simp [hd])) (by simpa using hv)

def g1 : Graph := ⟨["a","b","c"], fun n => if n = "a" then some ["b"] else if n = "b" then some ["a","c"] else if n = "c" then some ["c"] else none, by
  intro n; split <;> try split <;> try split
  all_goals simp_all⟩
#eval closure g1 ["a"] []
#print axioms closure

/-- reachability spec -/
inductive Reach (g : Graph) : Name → Name → Prop
  | refl (a) : Reach g a a
  | step {a b c} (nx) : g.deps a = some nx → b ∈ nx → Reach g b c → Reach g a c

/-- soundness: everything in the result is in the initial visited set or reachable from the queue. -/
theorem closure_nil (g : Graph) (v : List Name) : closure g [] v = .ok v := by rw [closure]
theorem closure_seen (g : Graph) (d q v) (hv : v.contains d = true) : closure g (d :: q) v = closure g q v := by
  rw [closure]; split
  · rfl
  · rename_i h; exact absurd hv h
theorem closure_none (g : Graph) (d q v) (hv : v.contains d = false) (hd : g.deps d = none) :
    ∃ e, closure g (d :: q) v = .error e := by
  rw [closure]; split
  · rename_i h; rw [hv] at h; cases h
  · split
    · exact ⟨_, rfl⟩
    · rename_i nx' hd'; rw [hd] at hd'; cases hd'
theorem closure_some (g : Graph) (d q v nx) (hv : v.contains d = false) (hd : g.deps d = some nx) :
    closure g (d :: q) v = closure g (q ++ nx) (d :: v) := by
  rw [closure]; split
  · rename_i h; rw [hv] at h; cases h
  · split
    · rename_i hd'; rw [hd] at hd'; cases hd'
    · rename_i nx' hd'; rw [hd] at hd'; cases hd'; rfl

theorem closure_sound (g : Graph) : ∀ (queue visited res : List Name),
    closure g queue visited = .ok res →
    ∀ x ∈ res, x ∈ visited ∨ ∃ q ∈ queue, Reach g q x := by
  intro queue visited
  induction queue, visited using closure.induct g with
  | case1 visited => intro res h x hx; rw [closure_nil] at h; cases h; exact Or.inl hx
  | case2 visited d q hv ih =>
    intro res h x hx
    rw [closure_seen g d q visited hv] at h
    rcases ih res h x hx with h1 | ⟨q', hq', hr⟩
    · exact Or.inl h1
    · exact Or.inr ⟨q', List.mem_cons_of_mem _ hq', hr⟩
  | case3 visited d q hv hd =>
    intro res h
    obtain ⟨e, he⟩ := closure_none g d q visited (by simpa using hv) hd
    rw [he] at h; cases h
  | case4 visited d q hv nx hd ih =>
    intro res h x hx
    rw [closure_some g d q visited nx (by simpa using hv) hd] at h
    rcases ih res h x hx with h1 | ⟨q', hq', hr⟩
    · rcases List.mem_cons.mp h1 with rfl | h2
      · exact Or.inr ⟨x, List.mem_cons_self, Reach.refl _⟩
      · exact Or.inl h2
    · rcases List.mem_append.mp hq' with h3 | h3
      · exact Or.inr ⟨q', List.mem_cons_of_mem _ h3, hr⟩
      · exact Or.inr ⟨d, List.mem_cons_self, Reach.step nx hd h3 hr⟩
#print axioms closure_sound

end Deps
