import Mp.JsonDoc
/-! C10 — the other half of "a document produced inside the query from its serialised text behaves like the document itself":
    the text `AsJSON()` writes for a document in its map / slice carrier IS the compact JSON text of that document
    (`marshal_render`), so `d.AsJSON().ParseJSON()` is `d` again (`asJSON_then_parseJSON`), for number-free documents of any size
    whose strings need no escape and whose objects list their keys in key order (the order json.Marshal writes them in; a
    document that lists them otherwise comes back with the same members in key order). Core-only. -/
namespace Mp.GoJson
open Mp.L2 (Doc)

/-- a byte json.Marshal writes as it is (escapeHTML is on: `<`, `>` and `&` are not among them) -/
def OutByte (c : UInt8) : Prop := SafeByte c ∧ c ≠ 60 ∧ c ≠ 62 ∧ c ≠ 38
def Out (s : Bytes) : Prop := ∀ c ∈ s, OutByte c

theorem out_safe {s : Bytes} (h : Out s) : Safe s := fun c hc => (h c hc).1

theorem encByte_out (c : UInt8) (h : OutByte c) : encByte c = [c] := by
  obtain ⟨⟨h1, h2, h3, h4⟩, h5, h6, h7⟩ := h
  have e1 : (c == 92) = false := by simpa using h2
  have e2 : (c == 34) = false := by simpa using h1
  have e3 : (c == 8) = false := by
    apply beq_false_of_ne; intro hc; subst hc; simp at h3
  have e4 : (c == 12) = false := by
    apply beq_false_of_ne; intro hc; subst hc; simp at h3
  have e5 : (c == 10) = false := by
    apply beq_false_of_ne; intro hc; subst hc; simp at h3
  have e6 : (c == 13) = false := by
    apply beq_false_of_ne; intro hc; subst hc; simp at h3
  have e7 : (c == 9) = false := by
    apply beq_false_of_ne; intro hc; subst hc; simp at h3
  have e8 : (c == 60) = false := by simpa using h5
  have e9 : (c == 62) = false := by simpa using h6
  have e10 : (c == 38) = false := by simpa using h7
  have e11 : ¬ (c.toNat < 32) := by omega
  simp [encByte, e1, e2, e3, e4, e5, e6, e7, e8, e9, e10, e11]

theorem encBytes_out (s : Bytes) (h : Out s) : encBytes s = s := by
  induction s with
  | nil => rfl
  | cons c t ih =>
    simp only [encBytes, encByte_out c (h c List.mem_cons_self), ih (fun x hx => h x (List.mem_cons_of_mem _ hx))]
    rfl

theorem encString_out (s : Bytes) (h : Out s) : encString s = .ok (quote s) := by
  unfold encString
  have : s.any (fun b => decide (b.toNat ≥ 128)) = false := by
    rw [List.any_eq_false]
    intro b hb
    have := (h b hb).1.2.2.2
    simp; omega
  rw [this]
  simp [encBytes_out s h, quote]

/-- members that are already in key order stay where they are -/
def KeysAscending : List (Bytes × Bytes) → Prop
  | [] => True
  | [_] => True
  | a :: b :: t => keyLt a.1 b.1 = true ∧ KeysAscending (b :: t)

theorem sortMembers_ascending : ∀ (ms : List (Bytes × Bytes)), KeysAscending ms → sortMembers ms = ms := by
  intro ms
  induction ms with
  | nil => intro _; rfl
  | cons m t ih =>
    intro h
    cases t with
    | nil => simp [sortMembers, insertMember]
    | cons b t' =>
      obtain ⟨h1, h2⟩ := h
      have := ih h2
      simp only [sortMembers] at this ⊢
      rw [this]
      simp [insertMember, h1]

mutual
/-- the documents the theorem speaks about: no numbers, strings and keys json.Marshal writes as they are, the keys of every object
    distinct and listed in key order -/
def WFo : Doc → Prop
  | .null => True
  | .bool _ => True
  | .num _ => False
  | .str s => Out s
  | .arr xs => WFos xs
  | .obj ks vs => ks.length = vs.length ∧ ks.Pairwise (fun a b => keyLt a b = true) ∧ (∀ k ∈ ks, Out k) ∧ WFos vs
def WFos : List Doc → Prop
  | [] => True
  | d :: ds => WFo d ∧ WFos ds
end

theorem keyLt_irrefl : ∀ (a : Bytes), keyLt a a = false := by
  intro a
  induction a with
  | nil => rfl
  | cons x t ih => simp [keyLt, ih]

theorem nodup_of_ascending (ks : List Bytes) (h : ks.Pairwise (fun a b => keyLt a b = true)) : ks.Nodup := by
  apply List.Pairwise.imp _ h
  intro a b hab heq
  subst heq
  rw [keyLt_irrefl] at hab
  cases hab

mutual
theorem wf_of_wfo (d : Doc) (h : WFo d) : WF d := by
  cases d with
  | null => trivial
  | bool b => trivial
  | num x => simp [WFo] at h
  | str s => simp only [WFo] at h; simp only [WF]; exact out_safe h
  | arr xs => simp only [WFo] at h; simp only [WF]; exact wfs_of_wfos xs h
  | obj ks vs =>
    simp only [WFo] at h
    simp only [WF]
    exact ⟨h.1, nodup_of_ascending ks h.2.1, fun k hk => out_safe (h.2.2.1 k hk), wfs_of_wfos vs h.2.2.2⟩
termination_by structural d
theorem wfs_of_wfos (ds : List Doc) (h : WFos ds) : WFs ds := by
  cases ds with
  | nil => trivial
  | cons d ds => simp only [WFos] at h; simp only [WFs]; exact ⟨wf_of_wfo d h.1, wfs_of_wfos ds h.2⟩
termination_by structural ds
end

/-- the texts of the members of an object, in the order of the document -/
def memberTexts : List Bytes → List J → List (Bytes × Bytes)
  | k :: ks, v :: vs => (k, quote k ++ [58] ++ render v) :: memberTexts ks vs
  | _, _ => []

theorem joinElems_render (xs : List J) : joinElems (xs.map render) = renderElems xs := by
  induction xs with
  | nil => rfl
  | cons x t ih => simp [joinElems, renderElems, ih]

theorem arrText_render (xs : List J) : arrText (xs.map render) = render (.arr xs) := by
  cases xs with
  | nil => rfl
  | cons x t => simp [arrText, render, joinElems_render]

theorem joinMembers_render : ∀ (ks : List Bytes) (vs : List J), ks.length = vs.length →
    joinMembers (memberTexts ks vs) = renderMembers (ks.zip vs) := by
  intro ks
  induction ks with
  | nil => intro vs h; cases vs <;> simp [memberTexts, joinMembers, renderMembers]
  | cons k t ih =>
    intro vs h
    cases vs with
    | nil => simp at h
    | cons v vt =>
      simp only [List.length_cons, Nat.add_right_cancel_iff] at h
      simp [memberTexts, joinMembers, renderMembers, ih vt h, List.append_assoc]

theorem objText_render (ks : List Bytes) (vs : List J) (h : ks.length = vs.length) :
    objText (memberTexts ks vs) = render (.obj (ks.zip vs)) := by
  cases ks with
  | nil => cases vs <;> simp [memberTexts, objText, render]
  | cons k t =>
    cases vs with
    | nil => simp at h
    | cons v vt =>
      simp only [List.length_cons, Nat.add_right_cancel_iff] at h
      simp [memberTexts, objText, render, joinMembers_render t vt h, List.append_assoc]

theorem memberTexts_ascending : ∀ (ks : List Bytes) (vs : List J), ks.length = vs.length →
    ks.Pairwise (fun a b => keyLt a b = true) → KeysAscending (memberTexts ks vs) := by
  intro ks
  induction ks with
  | nil => intro vs _ _; cases vs <;> simp [memberTexts, KeysAscending]
  | cons k t ih =>
    intro vs h hp
    cases vs with
    | nil => simp at h
    | cons v vt =>
      simp only [List.length_cons, Nat.add_right_cancel_iff] at h
      rw [List.pairwise_cons] at hp
      cases t with
      | nil => cases vt <;> simp [memberTexts, KeysAscending]
      | cons k2 t2 =>
        cases vt with
        | nil => simp at h
        | cons v2 vt2 =>
          have := ih (v2 :: vt2) h hp.2
          simp only [memberTexts, KeysAscending] at this ⊢
          exact ⟨hp.1 k2 List.mem_cons_self, this⟩

mutual
/-- **AsJSON writes the compact JSON text of the document** -/
theorem marshal_render (d : Doc) (h : WFo d) : marshal (L2.render d) = .ok (render (ofDoc d)) := by
  cases d with
  | null => simp [L2.render, marshal, ofDoc, render]
  | bool b => cases b <;> simp [L2.render, marshal, ofDoc, render]
  | num x => simp [WFo] at h
  | str s => simp only [WFo] at h; simp [L2.render, marshal, ofDoc, render, encString_out s h]
  | arr xs =>
    simp only [WFo] at h
    simp only [L2.render, marshal, ofDoc, Bool.false_eq_true, if_false, isByteSlice, Bool.not_true, Bool.false_and,
      marshalList_render xs h, arrText_render]
  | obj ks vs =>
    simp only [WFo] at h
    obtain ⟨hlen, hasc, hout, hw⟩ := h
    have hl : ks.length = (ofDocs vs).length := by rw [ofDocs_length]; exact hlen
    simp only [L2.render, marshal, ofDoc]
    rw [marshalMembers_render ks vs hout hw]
    have hk : (KeyKind.str == KeyKind.iface) = false := by decide
    simp only [hk, Bool.false_eq_true, if_false]
    rw [sortMembers_ascending _ (memberTexts_ascending ks (ofDocs vs) hl hasc), objText_render ks (ofDocs vs) hl]
termination_by structural d
theorem marshalList_render (ds : List Doc) (h : WFos ds) : marshalList (L2.renderList ds) = .inl ((ofDocs ds).map render) := by
  cases ds with
  | nil => simp [L2.renderList, marshalList, ofDocs]
  | cons d ds =>
    simp only [WFos] at h
    simp only [L2.renderList, marshalList, marshal_render d h.1, marshalList_render ds h.2, ofDocs, List.map_cons]
termination_by structural ds
theorem marshalMembers_render (ks : List Bytes) (vs : List Doc) (hk : ∀ k ∈ ks, Out k) (h : WFos vs) :
    marshalMembers ks (L2.renderList vs) = .inl (memberTexts ks (ofDocs vs)) := by
  cases vs with
  | nil => cases ks <;> simp [L2.renderList, marshalMembers, ofDocs, memberTexts]
  | cons v vs =>
    cases ks with
    | nil => simp [marshalMembers, memberTexts]
    | cons k ks =>
      simp only [WFos] at h
      simp only [L2.renderList, marshalMembers, encString_out k (hk k List.mem_cons_self), marshal_render v h.1,
        marshalMembers_render ks vs (fun x hx => hk x (List.mem_cons_of_mem _ hx)) h.2, ofDocs, memberTexts]
termination_by structural vs
end

/-- the function model: `AsJSON()` on an object that is not empty returns the compact JSON text of the document -/
theorem asJSON_func (ks : List Bytes) (vs : List Doc) (h : WFo (.obj ks vs)) (hne : ks ≠ []) :
    pureFunc "AsJSON" [] (L2.render (.obj ks vs)) = some (.ok (.str false (render (ofDoc (.obj ks vs))))) := by
  have hm := marshal_render (.obj ks vs) h
  have hemp : isEmptyValue (RV.of (L2.render (.obj ks vs))) = false := by
    cases ks with
    | nil => exact absurd rfl hne
    | cons k t => simp [L2.render, RV.of, isEmptyValue]
  unfold pureFunc
  simp only [List.isEmpty_nil, Bool.not_true, Bool.false_eq_true, if_false, hemp, hm]

/-- **C10, AsJSON then ParseJSON**: the text a document is written as, parsed again inside the query, is the document -/
theorem asJSON_then_parseJSON (ks : List Bytes) (vs : List Doc) (h : WFo (.obj ks vs)) (hne : ks ≠ []) :
    ∃ t, pureFunc "AsJSON" [] (L2.render (.obj ks vs)) = some (.ok (.str false t)) ∧
      pureFunc "ParseJSON" [] (.str false t) = some (.ok (L2.render (.obj ks vs))) :=
  ⟨_, asJSON_func ks vs h hne, parseJSON_func ks vs (wf_of_wfo _ h)⟩

/-- non-vacuity: a nested document with two keys in key order meets the hypotheses -/
example : WFo (.obj [[97], [98, 99]] [.arr [.bool true, .null, .str [120, 121]], .obj [[107]] [.str []]]) ∧ ([[97], [98, 99]] : List Bytes) ≠ [] := by
  refine ⟨?_, by simp⟩
  simp [WFo, WFos, Out, OutByte, SafeByte, keyLt]

#print axioms marshal_render
#print axioms asJSON_func
#print axioms asJSON_then_parseJSON
end Mp.GoJson
