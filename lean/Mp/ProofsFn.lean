import Mp.EvalS
/-! Prototype: C17 / C18 function specifications on the model (core-only). -/
namespace Mp

/-- C18: Prefix / NotPrefix are exact negations of each other, with the same errors -/
theorem notPrefix_neg (ps : List Prm) (v : GoVal) :
    pureFunc "NotPrefix" ps v = (pureFunc "Prefix" ps v).map (fun o => match o with | .ok (.bool n b) => .ok (.bool n (!b)) | o => o) := by
  unfold pureFunc
  simp only [Option.map]
  cases firstOfString ps with
  | none => rfl
  | some p =>
    cases v with
    | str n s => cases n <;> simp [okBool]
    | _ => rfl

/-- C18: Left(n) on a string is `take n`, clamped at the length (bytes; characters for ASCII) -/
theorem left_spec (s : Bytes) (k : Nat) (hk : k < 2147483647) :
    pureFunc "Left" [.num ⟨k, 0⟩] (.str false s) = some (okStr (s.take k)) := by
  unfold pureFunc
  simp only [stringPart, firstOfNumber, prmNumbers, List.filterMap, List.length_singleton, bne_self_eq_false,
    Bool.false_eq_true, ↓reduceIte]
  have h1 : (⟨(k : Int), 0⟩ : Dec).isInteger = true := by simp [Dec.isInteger]
  have h2 : (⟨(k : Int), 0⟩ : Dec).isNegative = false := by simp [Dec.isNegative]
  have h3 : Dec.cmp ⟨(k : Int), 0⟩ ⟨2147483647, 0⟩ = .lt := by
    simp [Dec.cmp, Dec.rescalePair, compare, compareOfLessAndEq]; omega
  have h4 : (⟨(k : Int), 0⟩ : Dec).intPart.toNat = k := by
    simp [Dec.intPart, Dec.rescale]
    have : k % 18446744073709551616 = k := Nat.mod_eq_of_lt (by omega)
    simp [this]
    split <;> omega
  simp [h1, h2, h3, h4]
  split
  · rename_i hlt; simp [okStr, List.take_of_length_le (Nat.le_of_lt hlt)]
  · rfl

/-- C17: Count is the length, for every slice carrier -/
theorem count_spec (ei n : Bool) (xs : List GoVal) :
    pureFunc "Count" [] (.slice ei n xs) = some (okDec (if xs.isEmpty then Dec.zero else Dec.ofNat xs.length)) := by
  unfold pureFunc
  cases xs with
  | nil => simp [isEmptyValue, RV.of]
  | cons x t => simp [isEmptyValue, RV.of, listOf, RV.derefOnce, RV.kind, GoVal.kind, RV.elems]

/-- C17: AsArray wraps its input in a one-element array -/
theorem asArray_spec (ps : List Prm) (v : GoVal) : pureFunc "AsArray" ps v = some (.ok (.slice true false [v])) := by
  unfold pureFunc; rfl

#print axioms left_spec
#print axioms count_spec
end Mp
