import Mp.Lex
/-! C08 — the outcome depends only on the bytes of the query, not on how the reader delivers them.

The lexer model (`Mp/Lex.lean`) reads its look-ahead with `decodeRune` applied to everything that is left of the input.
The real `text/scanner` never sees "everything that is left": it owns a buffer, asks the reader for more only when the
unread part of the buffer is shorter than `utf8.UTFMax` and is not a full rune (`utf8.FullRune`), and decodes from the buffer.
This file models that refill loop over an arbitrary delivery of the input (any list of chunks, empty chunks included) and
proves that the stream of (rune, width, encoding-error) triples it produces is the one the model's whole-input decoding
produces: `chunk_independent`. Two deliveries of the same bytes therefore give the same lexer input
(`same_bytes_same_runes`). -/
namespace Mp

/-- `utf8.FullRune`: does `p` begin with a full encoding (valid or not) of a rune? -/
def fullRune (p : Bytes) : Bool :=
  match p with
  | [] => false
  | b0 :: t =>
    let p0 := b0.toNat
    if p0 < 0x80 then true
    else if p0 < 0xC2 || p0 > 0xF4 then true
    else
      let sz := if p0 < 0xE0 then 2 else if p0 < 0xF0 then 3 else 4
      let lo := if p0 == 0xE0 then 0xA0 else if p0 == 0xF0 then 0x90 else 0x80
      let hi := if p0 == 0xED then 0x9F else if p0 == 0xF4 then 0x8F else 0xBF
      match t with
      | [] => false
      | b1 :: t1 =>
        let c1 := b1.toNat
        if c1 < lo || hi < c1 then true
        else if sz == 2 then true
        else match t1 with
          | [] => false
          | b2 :: t2 =>
            let c2 := b2.toNat
            if c2 < 0x80 || 0xBF < c2 then true
            else if sz == 3 then true
            else match t2 with
              | [] => false
              | _ :: _ => true

/-- four bytes always hold a full rune -/
theorem fullRune_of_four (p : Bytes) (h : 4 ≤ p.length) : fullRune p = true := by
  match p, h with
  | b0 :: b1 :: b2 :: b3 :: t, _ =>
    unfold fullRune
    simp only
    repeat' split
    all_goals first | rfl | simp_all

/-- decoding looks at a full rune only: what follows it does not matter -/
theorem decodeRune_append (p r : Bytes) (h : fullRune p = true) : decodeRune (p ++ r) = decodeRune p := by
  match p with
  | [] => simp [fullRune] at h
  | [b0] =>
    simp only [fullRune] at h
    simp only [List.cons_append, List.nil_append, decodeRune]
    by_cases h1 : b0.toNat < 0x80
    · simp [h1]
    · by_cases h2 : (decide (b0.toNat < 0xC2) || decide (b0.toNat > 0xF4)) = true
      · simp [h1, h2]
      · simp [h1, h2] at h
  | [b0, b1] =>
    simp only [fullRune] at h
    simp only [List.cons_append, List.nil_append, decodeRune]
    generalize hsz : (if b0.toNat < 224 then 2 else if b0.toNat < 240 then 3 else 4) = sz at h ⊢
    generalize hlo : (if (b0.toNat == 224) = true then 160 else if (b0.toNat == 240) = true then 144 else 128) = lo at h ⊢
    generalize hhi : (if (b0.toNat == 237) = true then 159 else if (b0.toNat == 244) = true then 143 else 191) = hi at h ⊢
    by_cases h1 : b0.toNat < 0x80
    · simp [h1]
    · by_cases h2 : (decide (b0.toNat < 0xC2) || decide (b0.toNat > 0xF4)) = true
      · simp [h1, h2]
      · by_cases h3 : (decide (b1.toNat < lo) || decide (hi < b1.toNat)) = true
        · simp [h1, h2, h3]
        · by_cases h4 : (sz == 2) = true
          · simp [h1, h2, h3, h4]
          · simp [h1, h2, h3, h4] at h
  | [b0, b1, b2] =>
    simp only [fullRune] at h
    simp only [List.cons_append, List.nil_append, decodeRune]
    generalize hsz : (if b0.toNat < 224 then 2 else if b0.toNat < 240 then 3 else 4) = sz at h ⊢
    generalize hlo : (if (b0.toNat == 224) = true then 160 else if (b0.toNat == 240) = true then 144 else 128) = lo at h ⊢
    generalize hhi : (if (b0.toNat == 237) = true then 159 else if (b0.toNat == 244) = true then 143 else 191) = hi at h ⊢
    by_cases h1 : b0.toNat < 0x80
    · simp [h1]
    · by_cases h2 : (decide (b0.toNat < 0xC2) || decide (b0.toNat > 0xF4)) = true
      · simp [h1, h2]
      · by_cases h3 : (decide (b1.toNat < lo) || decide (hi < b1.toNat)) = true
        · simp [h1, h2, h3]
        · by_cases h4 : (sz == 2) = true
          · simp [h1, h2, h3, h4]
          · by_cases h5 : (decide (b2.toNat < 0x80) || decide (0xBF < b2.toNat)) = true
            · simp [h1, h2, h3, h4, h5]
            · by_cases h6 : (sz == 3) = true
              · simp [h1, h2, h3, h4, h5, h6]
              · simp [h1, h2, h3, h4, h5, h6] at h
  | b0 :: b1 :: b2 :: b3 :: t =>
    simp only [List.cons_append, decodeRune]

/-- the width of what is decoded from a non-empty input is at least 1 and at most its length -/
theorem decodeRune_width_bounds (p : Bytes) (h : p ≠ []) : 1 ≤ (decodeRune p).2.1 ∧ (decodeRune p).2.1 ≤ p.length := by
  match p with
  | [] => exact absurd rfl h
  | [b0] =>
    simp only [decodeRune]
    by_cases h1 : b0.toNat < 0x80
    · simp [h1]
    · by_cases h2 : (decide (b0.toNat < 0xC2) || decide (b0.toNat > 0xF4)) = true
      · simp [h1, h2]
      · simp [h1, h2]
  | [b0, b1] =>
    simp only [decodeRune]
    generalize (if b0.toNat < 224 then 2 else if b0.toNat < 240 then 3 else 4) = sz
    generalize (if (b0.toNat == 224) = true then 160 else if (b0.toNat == 240) = true then 144 else 128) = lo
    generalize (if (b0.toNat == 237) = true then 159 else if (b0.toNat == 244) = true then 143 else 191) = hi
    by_cases h1 : b0.toNat < 0x80
    · simp [h1]
    · by_cases h2 : (decide (b0.toNat < 0xC2) || decide (b0.toNat > 0xF4)) = true
      · simp [h1, h2]
      · by_cases h3 : (decide (b1.toNat < lo) || decide (hi < b1.toNat)) = true
        · simp [h1, h2, h3]
        · by_cases h4 : (sz == 2) = true
          · simp [h1, h2, h3, h4]
          · simp [h1, h2, h3, h4]
  | [b0, b1, b2] =>
    simp only [decodeRune]
    generalize (if b0.toNat < 224 then 2 else if b0.toNat < 240 then 3 else 4) = sz
    generalize (if (b0.toNat == 224) = true then 160 else if (b0.toNat == 240) = true then 144 else 128) = lo
    generalize (if (b0.toNat == 237) = true then 159 else if (b0.toNat == 244) = true then 143 else 191) = hi
    by_cases h1 : b0.toNat < 0x80
    · simp [h1]
    · by_cases h2 : (decide (b0.toNat < 0xC2) || decide (b0.toNat > 0xF4)) = true
      · simp [h1, h2]
      · by_cases h3 : (decide (b1.toNat < lo) || decide (hi < b1.toNat)) = true
        · simp [h1, h2, h3]
        · by_cases h4 : (sz == 2) = true
          · simp [h1, h2, h3, h4]
          · by_cases h5 : (decide (b2.toNat < 0x80) || decide (0xBF < b2.toNat)) = true
            · simp [h1, h2, h3, h4, h5]
            · by_cases h6 : (sz == 3) = true
              · simp [h1, h2, h3, h4, h5, h6]
              · simp [h1, h2, h3, h4, h5, h6]
  | b0 :: b1 :: b2 :: b3 :: t =>
    simp only [decodeRune]
    generalize (if b0.toNat < 224 then 2 else if b0.toNat < 240 then 3 else 4) = sz
    generalize (if (b0.toNat == 224) = true then 160 else if (b0.toNat == 240) = true then 144 else 128) = lo
    generalize (if (b0.toNat == 237) = true then 159 else if (b0.toNat == 244) = true then 143 else 191) = hi
    by_cases h1 : b0.toNat < 0x80
    · simp [h1]
    · by_cases h2 : (decide (b0.toNat < 0xC2) || decide (b0.toNat > 0xF4)) = true
      · simp [h1, h2]
      · by_cases h3 : (decide (b1.toNat < lo) || decide (hi < b1.toNat)) = true
        · simp [h1, h2, h3]
        · by_cases h4 : (sz == 2) = true
          · simp [h1, h2, h3, h4]
          · by_cases h5 : (decide (b2.toNat < 0x80) || decide (0xBF < b2.toNat)) = true
            · simp [h1, h2, h3, h4, h5]
            · by_cases h6 : (sz == 3) = true
              · simp [h1, h2, h3, h4, h5, h6]
              · by_cases h7 : (decide (b3.toNat < 0x80) || decide (0xBF < b3.toNat)) = true
                · simp [h1, h2, h3, h4, h5, h6, h7]
                · simp [h1, h2, h3, h4, h5, h6, h7]

/-- the refill loop of `Scanner.next`: read while the unread bytes are fewer than UTFMax and not a full rune -/
def refill (buf : Bytes) : List Bytes → Bytes × List Bytes
  | [] => (buf, [])
  | c :: cs => if buf.length < 4 && !fullRune buf then refill (buf ++ c) cs else (buf, c :: cs)

theorem refill_bytes (cs : List Bytes) : ∀ buf, (refill buf cs).1 ++ (refill buf cs).2.flatten = buf ++ cs.flatten := by
  induction cs with
  | nil => intro buf; simp [refill]
  | cons c cs ih =>
    intro buf
    unfold refill
    split
    · rw [ih]; simp
    · simp

theorem refill_ready (cs : List Bytes) : ∀ buf, (refill buf cs).2 = [] ∨ fullRune (refill buf cs).1 = true := by
  induction cs with
  | nil => intro buf; left; rfl
  | cons c cs ih =>
    intro buf
    unfold refill
    split
    · exact ih _
    · rename_i hc
      right
      simp only [Bool.and_eq_true, decide_eq_true_eq, Bool.not_eq_true', not_and, Bool.not_eq_false] at hc
      by_cases hl : buf.length < 4
      · exact hc hl
      · exact fullRune_of_four buf (by omega)

/-- what the scanner decodes when the input arrives in chunks (`fuel` bounds the number of runes) -/
def runesChunked : Nat → Bytes → List Bytes → List (Nat × Nat × Bool)
  | 0, _, _ => []
  | fuel + 1, buf, cs =>
    let (b, cs') := refill buf cs
    if b.isEmpty then [] else
    let d := decodeRune b
    d :: runesChunked fuel (b.drop d.2.1) cs'

/-- what the model decodes: always from everything that is left -/
def runesWhole : Nat → Bytes → List (Nat × Nat × Bool)
  | 0, _ => []
  | fuel + 1, s =>
    if s.isEmpty then [] else
    let d := decodeRune s
    d :: runesWhole fuel (s.drop d.2.1)

theorem chunk_independent_fuel : ∀ (fuel : Nat) (buf : Bytes) (cs : List Bytes),
    runesChunked fuel buf cs = runesWhole fuel (buf ++ cs.flatten) := by
  intro fuel
  induction fuel with
  | zero => intro buf cs; rfl
  | succ f ih =>
    intro buf cs
    unfold runesChunked runesWhole
    have hb := refill_bytes cs buf
    have hr := refill_ready cs buf
    generalize refill buf cs = p at hb hr
    obtain ⟨b, cs'⟩ := p
    simp only at hb hr ⊢
    rw [← hb]
    cases hbe : b with
    | nil =>
      -- nothing buffered: the reader is exhausted (an empty buffer is not a full rune)
      subst hbe
      have : cs' = [] := by
        rcases hr with h | h
        · exact h
        · simp [fullRune] at h
      subst this
      simp
    | cons x xs =>
      have hne : (x :: xs) ++ cs'.flatten ≠ [] := by simp
      have hdec : decodeRune ((x :: xs) ++ cs'.flatten) = decodeRune (x :: xs) := by
        rcases hr with h | h
        · subst h; simp
        · rw [hbe] at h; exact decodeRune_append _ _ h
      simp only [List.isEmpty_cons, Bool.false_eq_true, if_false, List.isEmpty_iff, hne]
      rw [hdec]
      congr 1
      rw [ih]
      congr 1
      -- dropping the decoded width from the buffer and then appending the rest = dropping it from the whole
      have hwl : (decodeRune (x :: xs)).2.1 ≤ (x :: xs).length := (decodeRune_width_bounds (x :: xs) (by simp)).2
      rw [List.drop_append_of_le_length hwl]

/-- CHUNK INDEPENDENCE: whatever the chunks, the scanner decodes what the model decodes from the concatenation -/
theorem chunk_independent (fuel : Nat) (cs : List Bytes) : runesChunked fuel [] cs = runesWhole fuel cs.flatten := by
  simpa using chunk_independent_fuel fuel [] cs

/-- two deliveries of the same bytes give the same stream of runes, widths and encoding errors -/
theorem same_bytes_same_runes (fuel : Nat) (cs ds : List Bytes) (h : cs.flatten = ds.flatten) :
    runesChunked fuel [] cs = runesChunked fuel [] ds := by
  rw [chunk_independent, chunk_independent, h]

/-- the model's look-ahead step is one step of `runesWhole` -/
theorem sc_next_decodes (s : Sc) (h : s.rest ≠ []) :
    (s.next.ch, s.next.chRaw, s.next.rest) =
      (((decodeRune s.rest).1 : Int), s.rest.take (decodeRune s.rest).2.1, s.rest.drop (decodeRune s.rest).2.1) := by
  unfold Sc.next
  cases hr : s.rest with
  | nil => exact absurd hr h
  | cons a t => simp

/-- non-vacuity: "é$" delivered as [0xC3] [0xA9, 0x24], as one chunk, and byte by byte with an empty read in between -/
example : runesChunked 5 [] [[0xC3], [0xA9, 0x24]] = [(0xE9, 2, false), (0x24, 1, false)] := by decide
example : runesChunked 5 [] [[0xC3, 0xA9, 0x24]] = runesChunked 5 [] [[0xC3], [], [0xA9], [0x24]] := by decide
/-- a truncated encoding at the end of the input is an encoding error however it arrives -/
example : runesChunked 5 [] [[0x24, 0xE2], [0x82]] = [(0x24, 1, false), (0xFFFD, 1, true), (0xFFFD, 1, true)] := by decide

#print axioms fullRune_of_four
#print axioms decodeRune_append
#print axioms chunk_independent
#print axioms same_bytes_same_runes
#print axioms sc_next_decodes
end Mp
