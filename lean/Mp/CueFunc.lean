import Mp.Cue
import Mp.Generated.FuncTable
/-! opFunction.Validate for calls whose arguments are literals of the declared kinds: the accept rule
    (known function, argument count, ValidOn against the previous part's type) and the reported result type.
    The descriptor table is the one regenerated from the running package (`Mp.Generated.funcTable`). Core-only. -/
namespace Mp
open Generated

def lookupFunc (name : String) : Option FuncDesc := funcTable.find? (fun fd => fd.name == name)

/-- the two ValidOn tests of opFunction.Validate, as the code has them -/
def validOnOk (fd : FuncDesc) (prev : String × String) : Bool :=
  let typeErr := fd.validOn.2 != "Variadic" && fd.validOn.1 != "Any" && fd.validOn.1 != prev.1
  let ioErr := fd.validOn.1 != "Any" && fd.validOn.2 != prev.2
  !typeErr && !ioErr

/-- GetParamAtPosition succeeds for every supplied argument -/
def argCountOk (fd : FuncDesc) (nargs : Nat) : Bool :=
  nargs ≤ fd.params.length || fd.params.any (fun p => p.2 == "Variadic")

/-- the kind switch on the schema value of the last identifier (lists: their element) -/
def underlyingKind (v : CTy) : String :=
  let e := match v with | .list _ e => e | v => v
  match e with
  | .prim "bool" => "Boolean"
  | .prim "string" | .prim "bytes" => "String"
  | .prim "int" | .prim "float" | .prim "number" => "Number"
  | .struct .. => "Object"
  | _ => "Any"       -- _, lists of lists: no case of the switch applies

def isStructKind (v : CTy) : Bool :=
  match (match v with | .list _ e => e | v => v) with | .struct .. => true | _ => false

/-- the type reported for a call (`returnedType` at the end of opFunction.Validate) -/
def funcReturns (fd : FuncDesc) (prev : String × String) (prevWasFunc : Bool) (lastIdent : CTy) : String × String :=
  let ty :=
    if fd.returns.1 != "Any" then fd.returns.1
    else if fd.name == "Select" then "Any"
    else if fd.name == "AsArray" then (if prev.2 == "Single" then prev.1 else "Any")
    else if prevWasFunc then (if prev.2 == "Array" then prev.1 else "Any")
    else underlyingKind lastIdent
  let ty := if fd.returnsKnown && fd.returns.2 == "Single" && !prevWasFunc && prev.2 == "Array" && isStructKind lastIdent then "Object" else ty
  (ty, fd.returns.2)

/-- a chain of calls after a key path: none = some call is rejected -/
def validateCalls (lastIdent : CTy) : List (String × Nat) → String × String → Bool → Option (String × String)
  | [], prev, _ => some prev
  | (name, nargs) :: rest, prev, prevWasFunc =>
    match lookupFunc name with
    | none => none
    | some fd =>
      if !(validOnOk fd prev && argCountOk fd nargs) then none
      else validateCalls lastIdent rest (funcReturns fd prev prevWasFunc lastIdent) true

/-- the rule the property states: ValidOn admits the receiver's type -/
def admits (validOn prev : String × String) : Bool :=
  (validOn.1 == "Any" || validOn.1 == prev.1) && (validOn.2 == "Variadic" || validOn.2 == prev.2)

/-- the pairs the property leaves unspecified: only the Single/Array side differs, under a ValidOn type of Any -/
def unspecifiedPair (validOn prev : String × String) : Bool :=
  validOn.1 == "Any" && validOn.2 != "Variadic" && validOn.2 != prev.2

/-- C14 (accept rule): for every descriptor of the regenerated table and every receiver type, outside the pairs the
    property leaves unspecified, the validator's ValidOn test is exactly "the descriptor's ValidOn admits the type" -/
theorem validOnOk_iff_admits : ∀ fd ∈ funcTable, ∀ t ∈ ["String", "Number", "Boolean", "Object", "Any"], ∀ io ∈ ["Single", "Array"],
    unspecifiedPair fd.validOn (t, io) = false → validOnOk fd (t, io) = admits fd.validOn (t, io) := by
  decide

/-- every function whose descriptor admits some receiver is reachable: the table has no row that rejects everything -/
theorem every_row_admits_something : ∀ fd ∈ funcTable, ∃ t ∈ ["String", "Number", "Boolean", "Object", "Any"], ∃ io ∈ ["Single", "Array"],
    validOnOk fd (t, io) = true := by
  decide

#print axioms validOnOk_iff_admits
#print axioms every_row_admits_something
end Mp
