import Mp.LexProofs
import Mp.Parse
/-! Prototype: C08 — the recursive-descent parser never runs out of fuel (so the Go parser, whose recursion the fuel
    mirrors, terminates on every input). Core-only. -/
namespace Mp

def isOkOrErr {α} : PR α → Prop
  | .fuel => False
  | _ => True

/-- requirement on the fuel of a loop function entered with token `r` in state `s` -/
def ReqLoop (F : Nat) (r : TokKind) (s : Sc) : Prop :=
  match r with
  | .eof => 1 ≤ F
  | .rune 0 => 2 * rem s + 3 ≤ F + 1
  | _ => 2 * rem s + 3 ≤ F

def ReqParse (F : Nat) (s : Sc) : Prop := 2 * rem s + 2 ≤ F

def PostLoop {α} (s : Sc) (res : PR α) : Prop :=
  isOkOrErr res ∧ ∀ a r1 s1, res = .ok a r1 s1 → rem s1 ≤ rem s

def PostParse {α} (s : Sc) (res : PR α) : Prop :=
  isOkOrErr res ∧ ∀ a r1 s1, res = .ok a r1 s1 → rem s1 ≤ rem s ∧ (rem s1 = rem s → r1 = .rune 0)

theorem reqLoop_one {F r s} (h : ReqLoop F r s) : 1 ≤ F := by
  unfold ReqLoop at h
  split at h <;> omega

theorem reqLoop_bound {F r s} (h : ReqLoop (F + 1) r s) (hr : r ≠ .eof) : 2 * rem s + 3 ≤ F + 2 := by
  unfold ReqLoop at h
  split at h
  · exact absurd rfl hr
  · omega
  · omega

/-- from a state whose requirement gives `2·rem s + 1 ≤ F + 0`-style slack, a scan re-establishes the loop requirement -/
theorem reqLoop_of_scan (T : Tables) {F : Nat} {s : Sc} (h : 2 * rem s + 3 ≤ F + 2) :
    ReqLoop F (scan T s).1 (scan T s).2 := by
  have hp := scan_progress T s
  generalize scan T s = q at hp
  obtain ⟨r1, s1⟩ := q
  obtain ⟨hle, hlt⟩ := hp
  simp only at hle hlt ⊢
  unfold ReqLoop
  split
  · omega
  · have := hlt (by intro hc; cases hc); omega
  · rename_i h1 h2
    have := hlt (by intro hc; exact h1 hc); omega

theorem scan_le (T : Tables) (s : Sc) : rem (scan T s).2 ≤ rem s := (scan_progress T s).1


def AllGood (T : Tables) (F : Nat) : Prop :=
  (∀ isF mE r s, ReqParse F s → PostParse s (parsePath T F isF mE r s)) ∧
  (∀ root isF mE ops us r s, ReqLoop F r s → PostLoop s (pathLoop T F root isF mE ops us r s)) ∧
  (∀ isF r s, ReqParse F s → PostParse s (parseLogic T F isF r s)) ∧
  (∀ inv isF ty ops us r s, ReqLoop F r s → PostLoop s (logicLoop T F inv isF ty ops us r s)) ∧
  (∀ s, ReqParse F s → PostParse s (parseFunc T F s)) ∧
  (∀ inv name ps us r s, ReqLoop F r s → PostLoop s (funcLoop T F inv name ps us r s))

theorem postLoop_mono {α} {s s' : Sc} {res : PR α} (h : PostLoop s' res) (hl : rem s' ≤ rem s) : PostLoop s res :=
  ⟨h.1, fun a r1 s1 he => Nat.le_trans (h.2 a r1 s1 he) hl⟩

/-- a loop result obtained after real progress satisfies the strict post-condition of the `parse*` functions -/
theorem postParse_of_loop_lt {α} {s s' : Sc} {res : PR α} (h : PostLoop s' res) (hl : rem s' < rem s) : PostParse s res :=
  ⟨h.1, fun a r1 s1 he => by
    have := h.2 a r1 s1 he
    exact ⟨by omega, fun heq => by omega⟩⟩

theorem pathLoop_eof (T : Tables) (F : Nat) (root isF mE ops us s) :
    pathLoop T (F + 1) root isF mE ops us .eof s = .ok (.mk false root isF mE ops.reverse us) (.rune 0) s := by
  unfold pathLoop; rfl

theorem logicLoop_eof (T : Tables) (F : Nat) (inv isF ty ops us s) :
    logicLoop T (F + 1) inv isF ty ops us .eof s = .ok (.mk inv isF ty ops.reverse us) (.rune 0) s := by
  unfold logicLoop; rfl

theorem funcLoop_eof (T : Tables) (F : Nat) (inv name ps us s) :
    funcLoop T (F + 1) inv name ps us .eof s = .ok (.func inv name ps.reverse us) (.rune 0) s := by
  unfold funcLoop; rfl

/-- the common step of the three `parse*` functions: scan once more, then enter the loop -/
theorem parse_then_loop (T : Tables) {α} (F : Nat) (s : Sc) (hreq : 2 * rem s + 2 ≤ F + 1)
    (loop : TokKind → Sc → PR α)
    (hloop : ∀ r s', ReqLoop F r s' → PostLoop s' (loop r s'))
    (heof : ∀ s', 1 ≤ F → ∃ a, loop .eof s' = .ok a (.rune 0) s') :
    PostParse s (loop (scan T s).1 (scan T s).2) := by
  have hp := scan_progress T s
  have hreq2 := reqLoop_of_scan T (F := F) (s := s) (by omega)
  generalize scan T s = q at hp hreq2
  obtain ⟨r1, s1⟩ := q
  obtain ⟨hle, hlt⟩ := hp
  simp only at hle hlt hreq2 ⊢
  by_cases hr : r1 = .eof
  · subst hr
    have hF : 1 ≤ F := by unfold ReqLoop at hreq2; simpa using hreq2
    obtain ⟨a, ha⟩ := heof s1 hF
    rw [ha]
    refine ⟨trivial, ?_⟩
    intro a' r' s' he
    cases he
    exact ⟨hle, fun _ => rfl⟩
  · exact postParse_of_loop_lt (hloop r1 s1 hreq2) (hlt hr)


theorem parse_then_loop' (T : Tables) {α} (F : Nat) (s : Sc) (hreq : 2 * rem s + 2 ≤ F + 1)
    (loop : TokKind → Sc → PR α)
    (hloop : ∀ r s', ReqLoop F r s' → PostLoop s' (loop r s'))
    (heof : ∀ s', 1 ≤ F → ∃ a, loop .eof s' = .ok a (.rune 0) s') :
    PostParse s (match scan T s with | (r1, s1) => loop r1 s1) := by
  have := parse_then_loop T F s hreq loop hloop heof
  generalize scan T s = q at this ⊢
  obtain ⟨r1, s1⟩ := q
  exact this

theorem postParse_mono {α} {s s' : Sc} {res : PR α} (h : PostParse s' res) (hl : rem s' ≤ rem s) : PostParse s res :=
  ⟨h.1, fun a r1 s1 he => by
    have := h.2 a r1 s1 he
    exact ⟨by omega, fun heq => this.2 (by omega)⟩⟩

/-- re-entering a loop after one more scan -/
theorem loop_after_scan (T : Tables) {α} (F : Nat) (s : Sc) (hb : 2 * rem s + 3 ≤ F + 2)
    (loop : TokKind → Sc → PR α) (hloop : ∀ r s', ReqLoop F r s' → PostLoop s' (loop r s')) :
    PostLoop s (match scan T s with | (r1, s1) => loop r1 s1) := by
  have h1 := reqLoop_of_scan T (F := F) (s := s) hb
  have h2 := scan_le T s
  generalize scan T s = q at h1 h2 ⊢
  obtain ⟨r1, s1⟩ := q
  exact postLoop_mono (hloop r1 s1 h1) h2

theorem reqLoop_after_nested {F : Nat} {s s1 : Sc} {r1 : TokKind} (hb : 2 * rem s + 3 ≤ F + 1)
    (hle : rem s1 ≤ rem s) (hz : rem s1 = rem s → r1 = .rune 0) : ReqLoop F r1 s1 := by
  unfold ReqLoop
  by_cases heq : rem s1 = rem s
  · rw [hz heq]; simp only []; omega
  · have : rem s1 < rem s := by omega
    split <;> omega

/-- a nested `parse*` call followed by re-entering the loop -/
theorem loop_after_nested {α β} (F : Nat) (s : Sc) (hb : 2 * rem s + 3 ≤ F + 1)
    (nested : PR β) (hn : PostParse s nested)
    (loop : β → TokKind → Sc → PR α) (hloop : ∀ b r s', ReqLoop F r s' → PostLoop s' (loop b r s')) :
    PostLoop s (match nested with
      | .ok b r1 s1 => loop b r1 s1
      | .err => .err | .panic => .panic | .fuel => .fuel) := by
  cases hn' : nested with
  | ok b r1 s1 =>
    simp only []
    have := hn.2 b r1 s1 hn'
    exact postLoop_mono (hloop b r1 s1 (reqLoop_after_nested hb this.1 this.2)) this.1
  | err => exact ⟨trivial, fun a r1 s1 he => by cases he⟩
  | panic => exact ⟨trivial, fun a r1 s1 he => by cases he⟩
  | fuel => rw [hn'] at hn; exact absurd hn.1 (by simp [isOkOrErr])

theorem postLoop_err {α} (s : Sc) : PostLoop s (PR.err : PR α) := ⟨trivial, fun a r1 s1 he => by cases he⟩
theorem postLoop_panic {α} (s : Sc) : PostLoop s (PR.panic : PR α) := ⟨trivial, fun a r1 s1 he => by cases he⟩
theorem postParse_err {α} (s : Sc) : PostParse s (PR.err : PR α) := ⟨trivial, fun a r1 s1 he => by cases he⟩
theorem postLoop_ok {α} (s s1 : Sc) (a : α) (r : TokKind) (h : rem s1 ≤ rem s) : PostLoop s (PR.ok a r s1) :=
  ⟨trivial, fun a' r1 s1' he => by cases he; exact h⟩


theorem isRune_ne_zero {c : Nat} {ch : Char} (h : (TokKind.rune c == TokKind.rune ch.toNat) = true) (hc : ch.toNat ≠ 0) : c ≠ 0 := by
  have : c = ch.toNat := by simpa using h
  omega

theorem reqLoop_strong_rune {F c s} (h : ReqLoop (F + 1) (.rune c) s) (hc : c ≠ 0) : 2 * rem s + 3 ≤ F + 1 := by
  unfold ReqLoop at h
  split at h
  · next heq => cases heq
  · next heq => cases heq; exact absurd rfl hc
  · exact h

theorem reqLoop_strong_ident {F s} (h : ReqLoop (F + 1) .ident s) : 2 * rem s + 3 ≤ F + 1 := by
  unfold ReqLoop at h; exact h

theorem nested_ok {β} {F : Nat} {s : Sc} {nested : PR β} (hb : 2 * rem s + 3 ≤ F + 1) (hn : PostParse s nested)
    {b : β} {r1 : TokKind} {s1 : Sc} (he : nested = .ok b r1 s1) : ReqLoop F r1 s1 ∧ rem s1 ≤ rem s := by
  have := hn.2 b r1 s1 he
  exact ⟨reqLoop_after_nested hb this.1 this.2, this.1⟩

theorem nested_not_fuel {β} {s : Sc} {nested : PR β} (hn : PostParse s nested) : nested ≠ .fuel := by
  intro h; rw [h] at hn; exact hn.1

theorem step_parsePath (T : Tables) (F : Nat) (ih : AllGood T F) :
    ∀ isF mE r s, ReqParse (F + 1) s → PostParse s (parsePath T (F + 1) isF mE r s) := by
  intro isF mE r s hreq
  unfold ReqParse at hreq
  have hl := ih.2.1
  unfold parsePath
  split
  · split
    · exact postParse_err s
    · exact parse_then_loop' T F s hreq (fun r' s' => pathLoop T F true isF mE [] (str "$") r' s')
        (fun r' s' h => hl true isF mE [] _ r' s' h)
        (fun s' hF => by
          obtain ⟨n, rfl⟩ : ∃ n, F = n + 1 := ⟨F - 1, by omega⟩
          exact ⟨_, pathLoop_eof T n true isF mE [] _ s'⟩)
  · split
    · exact parse_then_loop' T F s hreq (fun r' s' => pathLoop T F false isF mE [] (str "@") r' s')
        (fun r' s' h => hl false isF mE [] _ r' s' h)
        (fun s' hF => by
          obtain ⟨n, rfl⟩ : ∃ n, F = n + 1 := ⟨F - 1, by omega⟩
          exact ⟨_, pathLoop_eof T n false isF mE [] _ s'⟩)
    · exact postParse_err s

theorem step_pathLoop (T : Tables) (F : Nat) (ih : AllGood T F) :
    ∀ root isF mE ops us r s, ReqLoop (F + 1) r s → PostLoop s (pathLoop T (F + 1) root isF mE ops us r s) := by
  intro root isF mE ops us r s hreq
  have hloop := ih.2.1
  unfold pathLoop
  simp only []
  split
  · -- eof
    exact postLoop_ok s s _ _ (Nat.le_refl _)
  · -- a single rune
    rename_i c
    have hb := reqLoop_bound hreq (by intro h; cases h)
    split
    · exact loop_after_scan T F s hb (fun r' s' => pathLoop T F root isF mE ops (us ++ [46]) r' s')
        (fun r' s' h => hloop root isF mE ops _ r' s' h)
    · split
      · -- a terminator: return without consuming
        (repeat' split) <;> exact postLoop_ok s s _ _ (Nat.le_refl _)
      · split
        · -- '[' : a filter
          rename_i _ _ h91
          have hc : c ≠ 0 := by
            have : c = 91 := by simpa using h91
            omega
          have hs := reqLoop_strong_rune hreq hc
          have hn := ih.2.2.1 true (.rune c) s (by unfold ReqParse; omega)
          cases hnr : parseLogic T F true (.rune c) s with
          | ok lo r1 s1 =>
            have := nested_ok hs hn hnr
            exact postLoop_mono (hloop root isF mE _ _ r1 s1 this.1) this.2
          | err => exact postLoop_err s
          | panic => exact postLoop_panic s
          | fuel => exact absurd hnr (nested_not_fuel hn)
        · exact postLoop_err s
  · -- identifier
    have hs := reqLoop_strong_ident hreq
    split
    · have hn := ih.2.2.2.2.1 s (by unfold ReqParse; omega)
      cases hnr : parseFunc T F s with
      | ok f r1 s1 =>
        have := nested_ok hs hn hnr
        exact postLoop_mono (hloop root isF mE _ _ r1 s1 this.1) this.2
      | err => exact postLoop_err s
      | panic => exact postLoop_panic s
      | fuel => exact absurd hnr (nested_not_fuel hn)
    · exact loop_after_scan T F s (by omega)
        (fun r' s' => pathLoop T F root isF mE _ _ r' s')
        (fun r' s' h => hloop root isF mE _ _ r' s' h)
  · exact postLoop_err s


theorem step_parseLogic (T : Tables) (F : Nat) (ih : AllGood T F) :
    ∀ isF r s, ReqParse (F + 1) s → PostParse s (parseLogic T (F + 1) isF r s) := by
  intro isF r s hreq
  unfold ReqParse at hreq
  have hl := ih.2.2.2.1
  have heof : ∀ inv ty us, ∀ s', 1 ≤ F → ∃ a, logicLoop T F inv isF ty [] us .eof s' = .ok a (.rune 0) s' := by
    intro inv ty us s' hF
    obtain ⟨n, rfl⟩ : ∃ n, F = n + 1 := ⟨F - 1, by omega⟩
    exact ⟨_, logicLoop_eof T n inv isF ty [] us s'⟩
  unfold parseLogic
  split
  · rename_i c
    split
    · -- '{' or '['
      have hp := scan_progress T s
      generalize hq : scan T s = q at hp
      obtain ⟨r1, s1⟩ := q
      obtain ⟨hle, hlt⟩ := hp
      simp only at hle hlt ⊢
      split
      · -- AND / OR : one more scan
        exact postParse_mono (parse_then_loop' T F s1 (by omega) (fun r' s' => logicLoop T F false isF _ [] _ r' s')
          (fun r' s' h => hl false isF _ [] _ r' s' h) (heof false _ _)) hle
      · split
        · exact postParse_mono (parse_then_loop' T F s1 (by omega) (fun r' s' => logicLoop T F true isF _ [] _ r' s')
            (fun r' s' h => hl true isF _ [] _ r' s' h) (heof true _ _)) hle
        · -- no keyword: enter the loop with the token just scanned
          have := parse_then_loop T F s hreq (fun r' s' => logicLoop T F false isF (str "And") [] [UInt8.ofNat c] r' s')
            (fun r' s' h => hl false isF _ [] _ r' s' h) (heof false _ _)
          rw [hq] at this
          exact this
    · exact postParse_err s
  · exact postParse_err s


theorem step_logicLoop (T : Tables) (F : Nat) (ih : AllGood T F) :
    ∀ inv isF ty ops us r s, ReqLoop (F + 1) r s → PostLoop s (logicLoop T (F + 1) inv isF ty ops us r s) := by
  intro inv isF ty ops us r s hreq
  have hloop := ih.2.2.2.1
  unfold logicLoop
  split
  · exact postLoop_ok s s _ _ (Nat.le_refl _)
  · rename_i c
    have hb := reqLoop_bound hreq (by intro h; cases h)
    split
    · exact loop_after_scan T F s hb (fun r' s' => logicLoop T F inv isF ty ops (us ++ [44]) r' s')
        (fun r' s' h => hloop inv isF ty ops _ r' s' h)
    · split
      · -- '$' or '@' : a path
        rename_i _ hc'
        have hc : c ≠ 0 := by
          simp only [Bool.or_eq_true, beq_iff_eq] at hc'; omega
        have hs := reqLoop_strong_rune hreq hc
        have hn := ih.1 isF true (.rune c) s (by unfold ReqParse; omega)
        cases hnr : parsePath T F isF true (.rune c) s with
        | ok p r1 s1 =>
          have := nested_ok hs hn hnr
          exact postLoop_mono (hloop inv isF ty _ _ r1 s1 this.1) this.2
        | err => exact postLoop_err s
        | panic => exact postLoop_panic s
        | fuel => exact absurd hnr (nested_not_fuel hn)
      · split
        · -- '{' : a nested group
          rename_i _ _ hc'
          have hc : c ≠ 0 := by
            have : c = 123 := by simpa using hc'
            omega
          have hs := reqLoop_strong_rune hreq hc
          have hn := ih.2.2.1 false (.rune c) s (by unfold ReqParse; omega)
          cases hnr : parseLogic T F false (.rune c) s with
          | ok l r1 s1 =>
            have := nested_ok hs hn hnr
            exact postLoop_mono (hloop inv isF ty _ _ r1 s1 this.1) this.2
          | err => exact postLoop_err s
          | panic => exact postLoop_panic s
          | fuel => exact absurd hnr (nested_not_fuel hn)
        · split
          · -- '}' or ']' : consume it and return
            have h2 := scan_le T s
            generalize scan T s = q at h2
            obtain ⟨r1, s1⟩ := q
            exact postLoop_ok s s1 _ _ h2
          · exact postLoop_err s
  · exact postLoop_err s

theorem step_parseFunc (T : Tables) (F : Nat) (ih : AllGood T F) :
    ∀ s, ReqParse (F + 1) s → PostParse s (parseFunc T (F + 1) s) := by
  intro s hreq
  unfold ReqParse at hreq
  have hl := ih.2.2.2.2.2
  unfold parseFunc
  split
  · exact postParse_err s
  · simp only []
    have h1 := scan_le T s
    generalize scan T s = q at h1 ⊢
    obtain ⟨r1, s1⟩ := q
    simp only at h1 ⊢
    have := parse_then_loop' T F s1 (by omega)
      (fun r' s' => funcLoop T F (!(knownFuncs.map str).contains s.tok) s.tok []
        (s.tok ++ (match r1 with | .rune c => (String.singleton (Char.ofNat c)).toUTF8.toList | _ => [])) r' s')
      (fun r' s' h => hl _ _ [] _ r' s' h)
      (fun s' hF => by
        obtain ⟨n, rfl⟩ : ∃ n, F = n + 1 := ⟨F - 1, by omega⟩
        exact ⟨_, funcLoop_eof T n _ _ [] _ s'⟩)
    exact postParse_mono this h1


theorem dealWithNumbers_le (T : Tables) (s : Sc) : rem (dealWithNumbers T s).1 ≤ rem s := by
  unfold dealWithNumbers
  simp only []
  split
  · have h1 := scan_le T s
    generalize scan T s = q at h1
    obtain ⟨r1, s1⟩ := q
    simp only at h1 ⊢
    split
    · have h2 := scan_le T s1
      generalize scan T s1 = q2 at h2
      obtain ⟨r2, s2⟩ := q2
      simp only at h2 ⊢
      omega
    · exact h1
  · exact Nat.le_refl _

theorem step_funcLoop (T : Tables) (F : Nat) (ih : AllGood T F) :
    ∀ inv name ps us r s, ReqLoop (F + 1) r s → PostLoop s (funcLoop T (F + 1) inv name ps us r s) := by
  intro inv name ps us r s hreq
  have hloop := ih.2.2.2.2.2
  -- the recurring continuation: scan the next token and re-enter the loop
  have hnext : ∀ (ps' : List Param) (us' : Bytes) (s' : Sc), rem s' ≤ rem s → r ≠ .eof →
      PostLoop s (match scan T s' with | (r1, s1) => funcLoop T F inv name ps' us' r1 s1) := by
    intro ps' us' s' hle hr
    have hb := reqLoop_bound hreq hr
    exact postLoop_mono (loop_after_scan T F s' (by omega) (fun r' s'' => funcLoop T F inv name ps' us' r' s'')
      (fun r' s'' h => hloop inv name ps' us' r' s'' h)) hle
  unfold funcLoop
  simp only []
  split
  · exact postLoop_ok s s _ _ (Nat.le_refl _)
  · rename_i c
    have hr : (TokKind.rune c) ≠ .eof := by intro h; cases h
    split
    · exact hnext _ _ s (Nat.le_refl _) hr
    · split
      · -- ')' : consume it and return
        have h2 := scan_le T s
        generalize scan T s = q at h2
        obtain ⟨r1, s1⟩ := q
        exact postLoop_ok s s1 _ _ h2
      · split
        · -- '$' or '@'
          rename_i _ _ hc'
          have hc : c ≠ 0 := by
            simp only [Bool.or_eq_true, beq_iff_eq] at hc'; omega
          have hs := reqLoop_strong_rune hreq hc
          have hn := ih.1 false false (.rune c) s (by unfold ReqParse; omega)
          cases hnr : parsePath T F false false (.rune c) s with
          | ok p r1 s1 =>
            have := nested_ok hs hn hnr
            exact postLoop_mono (hloop inv name _ _ r1 s1 this.1) this.2
          | err => exact postLoop_err s
          | panic => exact postLoop_panic s
          | fuel => exact absurd hnr (nested_not_fuel hn)
        · split
          · rename_i _ _ _ hc'
            have hc : c ≠ 0 := by
              have : c = 123 := by simpa using hc'
              omega
            have hs := reqLoop_strong_rune hreq hc
            have hn := ih.2.2.1 false (.rune c) s (by unfold ReqParse; omega)
            cases hnr : parseLogic T F false (.rune c) s with
            | ok l r1 s1 =>
              have := nested_ok hs hn hnr
              exact postLoop_mono (hloop inv name _ _ r1 s1 this.1) this.2
            | err => exact postLoop_err s
            | panic => exact postLoop_panic s
            | fuel => exact absurd hnr (nested_not_fuel hn)
          · exact hnext _ _ s (Nat.le_refl _) hr
  · exact hnext _ _ s (Nat.le_refl _) (by intro h; cases h)
  · exact hnext _ _ s (Nat.le_refl _) (by intro h; cases h)
  · exact hnext _ _ s (Nat.le_refl _) (by intro h; cases h)
  · -- identifier: true / false / a number
    have hr : TokKind.ident ≠ .eof := by intro h; cases h
    split
    · exact hnext _ _ s (Nat.le_refl _) hr
    · split
      · exact hnext _ _ s (Nat.le_refl _) hr
      · have hd := dealWithNumbers_le T s
        generalize dealWithNumbers T s = d at hd
        obtain ⟨s1, piece, pf⟩ := d
        simp only at hd ⊢
        split
        · exact postLoop_err s
        · exact postLoop_err s
        · exact postLoop_err s
        · exact postLoop_err s
        · exact hnext _ _ s1 hd hr


theorem allGood (T : Tables) : ∀ F, AllGood T F := by
  intro F
  induction F with
  | zero =>
    refine ⟨?_, ?_, ?_, ?_, ?_, ?_⟩
    · intro _ _ _ s h; unfold ReqParse at h; omega
    · intro _ _ _ _ _ r s h; have := reqLoop_one h; omega
    · intro _ _ s h; unfold ReqParse at h; omega
    · intro _ _ _ _ _ r s h; have := reqLoop_one h; omega
    · intro s h; unfold ReqParse at h; omega
    · intro _ _ _ _ r s h; have := reqLoop_one h; omega
  | succ n ih =>
    exact ⟨step_parsePath T n ih, step_pathLoop T n ih, step_parseLogic T n ih, step_logicLoop T n ih,
      step_parseFunc T n ih, step_funcLoop T n ih⟩

theorem rem_le_length (s : Sc) : rem s ≤ s.rest.length + 1 := by
  unfold rem; split <;> omega

def ParseResult.isFuel : ParseResult → Bool | .fuel => true | _ => false

/-- once an operation is defined, the top-level loop returns without recursion -/
theorem topLoop_some (T : Tables) (F : Nat) (t : TopOp) (r : TokKind) (s : Sc) :
    (topLoop T (F + 1) (some t) r s).isFuel = false := by
  unfold topLoop
  simp only [Option.isSome_some, if_true]
  (repeat' split) <;> rfl

/-- C08: the parser never runs out of fuel — on EVERY byte string -/
theorem parse_fuel_sufficient (T : Tables) (src : Bytes) : (parse T src).1.isFuel = false := by
  unfold parse
  simp only []
  generalize hq : scan T (Sc.init src) = q
  obtain ⟨r, s⟩ := q
  simp only []
  have hF : src.length + 4 = (src.length + 2) + 1 + 1 := by omega
  rw [hF]
  unfold topLoop
  simp only [Option.isSome_none, Bool.false_eq_true, if_false]
  split
  · rfl
  · rename_i c
    split
    · rfl
    · split
      · have hg := (allGood T (2 * s.rest.length + 16)).2.2.1 false (.rune c) s
          (by unfold ReqParse; have := rem_le_length s; omega)
        cases hp : parseLogic T (2 * s.rest.length + 16) false (.rune c) s with
        | ok l r1 s1 => exact topLoop_some T _ _ r1 s1
        | err => rfl
        | panic => rfl
        | fuel => exact absurd hp (nested_not_fuel hg)
      · split
        · have hg := (allGood T (2 * s.rest.length + 16)).1 false false (.rune c) s
            (by unfold ReqParse; have := rem_le_length s; omega)
          cases hp : parsePath T (2 * s.rest.length + 16) false false (.rune c) s with
          | ok p r1 s1 => exact topLoop_some T _ _ r1 s1
          | err => rfl
          | panic => rfl
          | fuel => exact absurd hp (nested_not_fuel hg)
        · rfl
  · rfl

#print axioms parse_fuel_sufficient
end Mp
