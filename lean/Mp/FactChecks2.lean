import Mp.Cue
import Mp.FactChecks
import Mp.EscBridge
/-! Tie (a), continued: completeness of the proved return-kind lists against the REGENERATED descriptor table (a function
    added to funcMap, or a descriptor whose Returns changes, must be covered by a theorem or be named here as decided by
    correspondence only), and the rule table of the model's own escape / unescape against the regenerated one. -/
namespace Mp.FactChecks
open Mp.Generated

/-- functions that call an external engine (regexp, encoding/json, fmt, the decoders) or the evaluator itself: run on the
    implementation and compared with Go's own packages by the harness, not part of the pure function model -/
def decidedByCorrespondenceOnly : List String :=
  ["DoesMatchRegex", "ReplaceRegex", "RemoveKeysByRegex", "AsJSON", "Sprintf", "ParseJSON", "ParseXML", "ParseYAML", "ParseTOML", "Select"]

theorem boolean_rows_covered : ∀ fd ∈ funcTable, fd.returns = ("Boolean", "Single") →
    fd.name ∈ Mp.returnsBoolean ∨ fd.name ∈ decidedByCorrespondenceOnly := by decide
theorem number_rows_covered : ∀ fd ∈ funcTable, fd.returns = ("Number", "Single") →
    fd.name ∈ Mp.returnsNumber ∨ fd.name ∈ decidedByCorrespondenceOnly := by decide
theorem string_rows_covered : ∀ fd ∈ funcTable, fd.returns = ("String", "Single") →
    fd.name ∈ Mp.returnsString ∨ fd.name ∈ decidedByCorrespondenceOnly := by decide
/-- every other row returns Any or Object (First/Last/Index/AsArray/Select/Parse*/RemoveKeysBy*): their reported type is
    the subject of `Mp.funcReturns` and of the evaluation half of the C14 check -/
theorem remaining_rows : ∀ fd ∈ funcTable,
    fd.returns = ("Boolean", "Single") ∨ fd.returns = ("Number", "Single") ∨ fd.returns = ("String", "Single") ∨
    fd.returns.1 = "Any" ∨ fd.returns.1 = "Object" := by decide

/-- the rule table the model's `unescape` folds over is the regenerated one -/
theorem model_unescape_rules : (Mp.unescapeRules.map (fun r => (r.1.toNat, r.2.toNat))).Perm rulesOfUnescape := by decide
theorem model_escape_rules : (Mp.byteRules.map (fun r => (r.1.toNat, r.2.toNat))).Perm rulesOfEscape := by decide

/-- the kind switch of opPathIdent.Validate as the model has it (`Mp.primKind`, `Mp.kindOf`): every primitive cue kind of the model's
    schema type is a case of the switch, alone or with the kinds that share its type, and the case names the type the model reports -/
def goKindOf (k : String) : String :=
  match k with
  | "bool" => "BoolKind" | "string" => "StringKind" | "bytes" => "BytesKind" | "int" => "IntKind" | "float" => "FloatKind"
  | "number" => "NumberKind" | "top" => "TopKind" | _ => "?"

theorem kind_switch_pinned : cueKindTable = [(["BoolKind"], ["PT_Boolean"]), (["StringKind", "BytesKind"], ["PT_String"]),
    (["NumberKind", "IntKind", "FloatKind"], ["PT_Number"]), (["TopKind"], ["PT_Any"]), (["StructKind"], ["PT_Object"]),
    (["ListKind"], ["PT_Any"]), (["BottomKind"], []), (["default"], [])] := by decide

theorem primKind_matches_switch : ∀ k ∈ ["bool", "string", "bytes", "int", "float", "number", "top"],
    ∃ row ∈ cueKindTable, goKindOf k ∈ row.1 ∧ (Mp.primKind k).map (fun t => "PT_" ++ t) = row.2.head? := by decide

/-! axiom audit (one line per theorem: a theorem that no longer checks is missing from the output) -/
/-- C15, what `Mp/CueWalk.lean` assumes of the source: CueValidate starts every walk at the root with the blocked list; every
    Validate method hands ITS cue path and ITS blocked list on to every Validate it calls (no `nil`, no other list), and none of
    them assigns to these parameters (opPath.Validate moves its own cue path: that is the walk) -/
theorem blocked_list_handed_down :
    validateCalls.all (fun c => c.2.2 == "blockedRootFields" && (if c.1 == "CueValidate" then c.2.1 == "CuePath{}" else c.2.1 == "cuePath")) = true
    ∧ validateReassignsItsParameters = false := by decide
/-- who calls Validate, in source order: CueValidate (a path or a group at the top), opPath (key, filter, call), opFilter (its
    group), opLogicalOperation (path and group operands), opFunction (path and group arguments); opPathIdent calls none -/
theorem validate_calls_pinned : validateCalls.map (·.1) =
    ["CueValidate", "CueValidate", "opPath.Validate", "opPath.Validate", "opPath.Validate", "opFilter.Validate",
     "opLogicalOperation.Validate", "opLogicalOperation.Validate", "opFunction.Validate", "opFunction.Validate"] := by decide
/-- a key is compared with the blocked list in one place, when the cue path is empty; a `$` resets the cue path -/
theorem blocked_test_at_root_only :
    blockedTests = ["len(cuePath) == 0 && strInStrSlice(t.IdentName, blockedRootFields)"] ∧ dollarResetsCuePath = true := by decide

#print axioms blocked_list_handed_down
#print axioms validate_calls_pinned
#print axioms blocked_test_at_root_only
#print axioms boolean_rows_covered
#print axioms number_rows_covered
#print axioms string_rows_covered
#print axioms remaining_rows
#print axioms model_unescape_rules
#print axioms model_escape_rules
#print axioms kind_switch_pinned
#print axioms primKind_matches_switch
end Mp.FactChecks
