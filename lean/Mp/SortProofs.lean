import Mp.Analysis
import Mp.C11Bridge
/-! C20 — the list GetRootFieldsAccessed returns is sorted (bytewise, strictly) and therefore free of duplicates. -/
namespace Mp

theorem bytesLtA_eq : ∀ a b : Bytes, insertSortedB.bytesLtA a b = bytesLt a b := by
  intro a
  induction a with
  | nil => intro b; cases b <;> rfl
  | cons x xs ih =>
    intro b
    cases b with
    | nil => rfl
    | cons y ys => simp only [insertSortedB.bytesLtA, bytesLt, ih ys]

/-- strictly increasing under bytewise `<` -/
def StrictSorted (l : List Bytes) : Prop := l.Pairwise (fun a b => bytesLt a b = true)

theorem insertSortedB_sorted (p : Bytes) : ∀ (l : List Bytes), StrictSorted l → StrictSorted (insertSortedB p l) := by
  have ho := bytesLt_ord
  intro l
  induction l with
  | nil => intro _; simp [insertSortedB, StrictSorted]
  | cons q qs ih =>
    intro hs
    unfold insertSortedB
    have hq : ∀ x ∈ qs, bytesLt q x = true := (List.pairwise_cons.mp hs).1
    have hqs : StrictSorted qs := (List.pairwise_cons.mp hs).2
    split
    · exact hs
    · rename_i hne
      split
      · rename_i hlt
        rw [bytesLtA_eq] at hlt
        apply List.pairwise_cons.mpr
        refine ⟨?_, hs⟩
        intro x hx
        rcases List.mem_cons.mp hx with rfl | hx
        · exact hlt
        · exact ho.trans p q x hlt (hq x hx)
      · rename_i hnlt
        rw [bytesLtA_eq] at hnlt
        have hpq : p ≠ q := by simpa using hne
        have hqp : bytesLt q p = true := by
          rcases ho.total p q hpq with h | h
          · exact absurd h hnlt
          · exact h
        apply List.pairwise_cons.mpr
        refine ⟨?_, ih hqs⟩
        intro x hx
        rcases (mem_insertSortedB' x p qs).mp hx with rfl | hx
        · exact hqp
        · exact hq x hx
where
  mem_insertSortedB' (x p : Bytes) : ∀ (l : List Bytes), x ∈ insertSortedB p l ↔ x = p ∨ x ∈ l := by
    intro l
    induction l with
    | nil => simp [insertSortedB]
    | cons q qs ih =>
      unfold insertSortedB
      split
      · rename_i h
        have : p = q := by simpa using h
        subst this
        simp
      · split
        · simp
        · simp only [List.mem_cons, ih]
          constructor
          · rintro (h | h | h)
            · exact Or.inr (Or.inl h)
            · exact Or.inl h
            · exact Or.inr (Or.inr h)
          · rintro (h | h | h)
            · exact Or.inr (Or.inl h)
            · exact Or.inl h
            · exact Or.inr (Or.inr h)

theorem sortUniq_sorted (l : List Bytes) : StrictSorted (sortUniq l) := by
  unfold sortUniq
  suffices h : ∀ (l acc : List Bytes), StrictSorted acc → StrictSorted (l.foldl (fun acc x => insertSortedB x acc) acc) by
    exact h l [] (by simp [StrictSorted])
  intro l
  induction l with
  | nil => intro acc h; exact h
  | cons x xs ih => intro acc h; exact ih _ (insertSortedB_sorted x acc h)

/-- a strictly sorted list has no duplicates -/
theorem strictSorted_nodup (l : List Bytes) (h : StrictSorted l) : l.Nodup := by
  have ho := bytesLt_ord
  unfold StrictSorted at h
  exact h.imp (fun {a b} hab => by
    intro heq
    subst heq
    rw [ho.irrefl] at hab
    cases hab)

/-- **C20**: the list returned by the model of GetRootFieldsAccessed is sorted and free of duplicates, for every query -/
theorem rootTop_sorted_nodup (t : TopOp) : StrictSorted (rootTop t) ∧ (rootTop t).Nodup := by
  cases t with
  | path p => exact ⟨sortUniq_sorted _, strictSorted_nodup _ (sortUniq_sorted _)⟩
  | logic l => exact ⟨sortUniq_sorted _, strictSorted_nodup _ (sortUniq_sorted _)⟩

#print axioms rootTop_sorted_nodup
end Mp
