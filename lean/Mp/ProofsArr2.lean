import Mp.ProofsArr
/-! C17 — an index is a NUMBER, whatever decimal represents it: `Index(d)` returns the element at position k for every decimal `d`
    whose value is the whole number k - written with exponent 0 (`2`), with trailing zeros (`2.000`, what a division or a
    numeric string such as "2.0" leaves), or with a positive exponent (`2e1`). `index_spec` is the instance "exponent 0".
    Core-only. -/
namespace Mp

/-- what the function asks of its argument: it is whole, not negative, its integer part is k, and it compares with every length
    as k does -/
def IsIndex (d : Dec) (k : Nat) : Prop :=
  d.isInteger = true ∧ d.isNegative = false ∧ d.intPart.toNat = k ∧ ∀ n : Nat, Dec.cmp d (Dec.ofNat n) = compare k n

theorem isIndex_nat (k : Nat) (hk : k < 2 ^ 63) : IsIndex ⟨(k : Int), 0⟩ k := by
  obtain ⟨h1, h2, h3⟩ := natDec_facts k hk
  exact ⟨h1, h2, h3, fun n => cmp_nat k n⟩

theorem pow10_pos (s : Nat) : 0 < 10 ^ s := Nat.pow_pos (by decide)

/-- k written with s trailing zeros after the point: k·10^s × 10^(−s) -/
theorem isIndex_scaled (k s : Nat) (hk : k < 2 ^ 63) : IsIndex ⟨((k * 10 ^ s : Nat) : Int), -(s : Int)⟩ k := by
  cases s with
  | zero => simpa using isIndex_nat k hk
  | succ s =>
    have hp : 0 < 10 ^ (s + 1) := pow10_pos _
    have hneg : ¬ (-((s + 1 : Nat) : Int) ≥ 0) := by omega
    have htn : (-(-((s + 1 : Nat) : Int))).toNat = s + 1 := by omega
    have htn2 : ((0 : Int) - -((s + 1 : Nat) : Int)).toNat = s + 1 := by omega
    have hcast : ((10 : Int) ^ (s + 1)) = ((10 ^ (s + 1) : Nat) : Int) := by norm_cast
    refine ⟨?_, ?_, ?_, ?_⟩
    · unfold Dec.isInteger
      simp only [hneg, if_false, htn, hcast]
      rw [← Int.ofNat_tmod]
      simp [Nat.mul_mod_left]
    · have hnn : (0 : Int) ≤ ((k * 10 ^ (s + 1) : Nat) : Int) := Int.natCast_nonneg _
      unfold Dec.isNegative
      simp only [decide_eq_false_iff_not, Int.not_lt]
      exact hnn
    · have hr : (Dec.rescale ⟨((k * 10 ^ (s + 1) : Nat) : Int), -((s + 1 : Nat) : Int)⟩ 0) = ⟨(k : Int), 0⟩ := by
        unfold Dec.rescale
        have h1 : ((-((s + 1 : Nat) : Int)) == 0) = false := by simp <;> omega
        have h2 : (0 : Int) > -((s + 1 : Nat) : Int) := by omega
        simp only [h1, Bool.false_eq_true, if_false, h2, if_true, htn2, hcast]
        rw [← Int.ofNat_tdiv]
        simp [Nat.mul_div_cancel _ hp]
      have := (natDec_facts k hk).2.2
      unfold Dec.intPart at this ⊢
      rw [hr]
      exact this
    · intro n
      unfold Dec.cmp Dec.rescalePair
      have h1 : ((-((s + 1 : Nat) : Int)) == (Dec.ofNat n).exp) = false := by simp [Dec.ofNat] <;> omega
      have h2 : ¬ (-((s + 1 : Nat) : Int) ≥ (Dec.ofNat n).exp) := by simp [Dec.ofNat] <;> omega
      simp only [h1, Bool.false_eq_true, if_false, h2, bne_self_eq_false]
      have hr : Dec.rescale (Dec.ofNat n) (-((s + 1 : Nat) : Int)) = ⟨((n * 10 ^ (s + 1) : Nat) : Int), -((s + 1 : Nat) : Int)⟩ := by
        unfold Dec.rescale Dec.ofNat
        have h3 : ((0 : Int) == -((s + 1 : Nat) : Int)) = false := by simp <;> omega
        have h4 : ¬ (-((s + 1 : Nat) : Int) > 0) := by omega
        simp only [h3, Bool.false_eq_true, if_false, h4, htn2, hcast]
        norm_cast
      rw [hr]
      simp only [compare, compareOfLessAndEq, Int.ofNat_lt, Int.natCast_inj]
      have e1 : (k * 10 ^ (s + 1) < n * 10 ^ (s + 1)) ↔ k < n := Nat.mul_lt_mul_right hp
      have e2 : (k * 10 ^ (s + 1) = n * 10 ^ (s + 1)) ↔ k = n := Nat.mul_left_inj (by omega)
      simp only [e1, e2]

/-- k = m·10^e written with a positive exponent (`2e1` is the index 20) -/
theorem isIndex_up (m e : Nat) (hk : m * 10 ^ e < 2 ^ 63) : IsIndex ⟨(m : Int), (e : Int)⟩ (m * 10 ^ e) := by
  cases e with
  | zero => simpa using isIndex_nat m (by simpa using hk)
  | succ e =>
    have hcast : ((10 : Int) ^ (e + 1)) = ((10 ^ (e + 1) : Nat) : Int) := by norm_cast
    have htn : (((e + 1 : Nat) : Int) - 0).toNat = e + 1 := by omega
    have hr : (Dec.rescale ⟨(m : Int), ((e + 1 : Nat) : Int)⟩ 0) = ⟨((m * 10 ^ (e + 1) : Nat) : Int), 0⟩ := by
      unfold Dec.rescale
      have h1 : ((((e + 1 : Nat) : Int)) == 0) = false := by simp <;> omega
      have h2 : ¬ ((0 : Int) > ((e + 1 : Nat) : Int)) := by omega
      simp only [h1, Bool.false_eq_true, if_false, h2, htn, hcast]
      norm_cast
    refine ⟨?_, ?_, ?_, ?_⟩
    · unfold Dec.isInteger
      have : ((e + 1 : Nat) : Int) ≥ 0 := by omega
      simp only [this, if_true]
    · have hnn : (0 : Int) ≤ (m : Int) := Int.natCast_nonneg _
      unfold Dec.isNegative
      simp only [decide_eq_false_iff_not, Int.not_lt]
      exact hnn
    · have := (natDec_facts (m * 10 ^ (e + 1)) hk).2.2
      unfold Dec.intPart at this ⊢
      rw [hr]
      simpa [Dec.rescale] using this
    · intro n
      unfold Dec.cmp Dec.rescalePair
      have h1 : ((((e + 1 : Nat) : Int)) == (Dec.ofNat n).exp) = false := by simp [Dec.ofNat] <;> omega
      have h2 : (((e + 1 : Nat) : Int) ≥ (Dec.ofNat n).exp) := by simp [Dec.ofNat] <;> omega
      have h3 : ((Dec.ofNat n).exp != ((e + 1 : Nat) : Int)) = true := by simp [Dec.ofNat] <;> omega
      simp only [h1, Bool.false_eq_true, if_false, h2, if_true, h3]
      have : (Dec.ofNat n).exp = 0 := rfl
      rw [this, hr]
      simp only [Dec.ofNat, compare, compareOfLessAndEq, Int.ofNat_lt, Int.natCast_inj]

/-- the general statement: Index of any decimal that is the index k -/
theorem index_spec_of (ei n : Bool) (xs : List GoVal) (d : Dec) (k : Nat) (hd : IsIndex d k) (hk : k < xs.length) :
    pureFunc "Index" [.num d] (.slice ei n xs) = some (.ok (numberKindsToDecimal (xs[k]'hk))) := by
  obtain ⟨h1, h2, h3, h4⟩ := hd
  have hne : xs ≠ [] := by intro h; subst h; simp at hk
  obtain ⟨y, ys, rfl⟩ := List.exists_cons_of_ne_nil hne
  unfold pureFunc
  simp only [firstOfNumber, prmNumbers, List.filterMap, List.length_singleton, bne_self_eq_false, Bool.false_eq_true,
    ↓reduceIte, h1, h2, h3, listOf_slice, h4, elems_length]
  have hlt : compare k (ys.length + 1) = .lt := compare_lt_of_lt (by simpa using hk)
  have hget := elems_get ei n (y :: ys) k
  rw [List.getElem?_eq_getElem hk] at hget
  cases hg : (RV.elems (.val (.slice ei n (y :: ys))))[k]? with
  | none => rw [hg] at hget; simp at hget
  | some r =>
    rw [hg] at hget
    simp only [Option.map_some, Option.some.injEq] at hget
    simp [isEmptyValue, RV.of, hlt, hg, hget]

theorem index_out_of_range_of (ei n : Bool) (xs : List GoVal) (d : Dec) (k : Nat) (hd : IsIndex d k) (hk : xs.length ≤ k) :
    pureFunc "Index" [.num d] (.slice ei n xs) = some .err := by
  obtain ⟨h1, h2, h3, h4⟩ := hd
  unfold pureFunc
  simp only [firstOfNumber, prmNumbers, List.filterMap, List.length_singleton, bne_self_eq_false, Bool.false_eq_true,
    ↓reduceIte, h1, h2, listOf_slice, h4, elems_length]
  cases xs with
  | nil => simp
  | cons y ys =>
    have hge : compare k (ys.length + 1) ≠ .lt := compare_ne_lt_of_le (by simpa using hk)
    simp [isEmptyValue, RV.of, hge]

/-- **C17**: `Index` of the whole number k written at ANY scale (k, k.0, k.000…) is the element at position k -/
theorem index_spec_scaled (ei n : Bool) (xs : List GoVal) (k s : Nat) (hk : k < xs.length) (hb : k < 2 ^ 63) :
    pureFunc "Index" [.num ⟨((k * 10 ^ s : Nat) : Int), -(s : Int)⟩] (.slice ei n xs) = some (.ok (numberKindsToDecimal (xs[k]'hk))) :=
  index_spec_of ei n xs _ k (isIndex_scaled k s hb) hk

theorem index_out_of_range_scaled (ei n : Bool) (xs : List GoVal) (k s : Nat) (hk : xs.length ≤ k) (hb : k < 2 ^ 63) :
    pureFunc "Index" [.num ⟨((k * 10 ^ s : Nat) : Int), -(s : Int)⟩] (.slice ei n xs) = some .err :=
  index_out_of_range_of ei n xs _ k (isIndex_scaled k s hb) hk

theorem index_spec_up (ei n : Bool) (xs : List GoVal) (m e : Nat) (hk : m * 10 ^ e < xs.length) (hb : m * 10 ^ e < 2 ^ 63) :
    pureFunc "Index" [.num ⟨(m : Int), (e : Int)⟩] (.slice ei n xs) = some (.ok (numberKindsToDecimal (xs[m * 10 ^ e]'hk))) :=
  index_spec_of ei n xs _ _ (isIndex_up m e hb) hk

/-- 2.000 is the index 2 -/
example : IsIndex ⟨2000, -3⟩ 2 := by simpa using isIndex_scaled 2 3 (by decide)

#print axioms isIndex_scaled
#print axioms isIndex_up
#print axioms index_spec_up
#print axioms index_spec_of
#print axioms index_spec_scaled
#print axioms index_out_of_range_scaled
end Mp
