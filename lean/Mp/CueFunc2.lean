import Mp.CueFunc
/-! C14 — the type the validator reports for a call. -/
namespace Mp
open Generated

/-- a function whose descriptor names a concrete return type reports exactly that type, wherever it is called -/
theorem reports_descriptor_type (fd : FuncDesc) (prev : String × String) (pf : Bool) (last : CTy)
    (h : fd.returns.1 ≠ "Any") (hk : fd.returnsKnown = false) : funcReturns fd prev pf last = fd.returns := by
  unfold funcReturns
  simp [h, hk]

/-- every row of the regenerated table with a concrete return type is of that form (ReturnsKnownValues is set only on the
    Any-returning element selectors) -/
theorem concrete_rows_not_known : ∀ fd ∈ funcTable, fd.returns.1 ≠ "Any" → fd.returnsKnown = false := by decide

/-- First / Last / Index applied directly to a field declared as a list of a primitive type report the ELEMENT's type -/
theorem element_type_of_typed_list (fd : FuncDesc) (hfd : fd ∈ funcTable) (hn : fd.name = "First" ∨ fd.name = "Last" ∨ fd.name = "Index")
    (isOpen : Bool) (k : String) (t : String) (hk : primKind k = some t) (ht : t ≠ "Any") :
    funcReturns fd (t, "Array") false (.list isOpen (.prim k)) = (t, "Single") := by
  have hr : fd.returns = ("Any", "Single") ∧ fd.returnsKnown = true := by
    have : ∀ fd ∈ funcTable, (fd.name = "First" ∨ fd.name = "Last" ∨ fd.name = "Index") → fd.returns = ("Any", "Single") ∧ fd.returnsKnown = true := by decide
    exact this fd hfd hn
  have hne : fd.name ≠ "Select" ∧ fd.name ≠ "AsArray" := by
    rcases hn with h | h | h <;> rw [h] <;> decide
  unfold funcReturns
  simp only [hr.1, hr.2, hne.1, hne.2]
  unfold primKind at hk
  split at hk <;> simp_all [underlyingKind, isStructKind]

/-- … and on a list of structs they report Object/Single -/
theorem element_type_of_struct_list (fd : FuncDesc) (hfd : fd ∈ funcTable) (hn : fd.name = "First" ∨ fd.name = "Last" ∨ fd.name = "Index")
    (isOpen o2 : Bool) (fs : List CField) :
    funcReturns fd ("Object", "Array") false (.list isOpen (.struct o2 fs)) = ("Object", "Single") := by
  have hr : fd.returns = ("Any", "Single") ∧ fd.returnsKnown = true := by
    have : ∀ fd ∈ funcTable, (fd.name = "First" ∨ fd.name = "Last" ∨ fd.name = "Index") → fd.returns = ("Any", "Single") ∧ fd.returnsKnown = true := by decide
    exact this fd hfd hn
  have hne : fd.name ≠ "Select" ∧ fd.name ≠ "AsArray" := by
    rcases hn with h | h | h <;> rw [h] <;> decide
  unfold funcReturns
  simp [hr.1, hr.2, hne.1, hne.2, underlyingKind, isStructKind]

/-- after another call the element type comes from that call's reported type, not from the schema of the last field -/
theorem element_type_after_call (fd : FuncDesc) (hfd : fd ∈ funcTable) (hn : fd.name = "First" ∨ fd.name = "Last" ∨ fd.name = "Index")
    (t : String) (last : CTy) : funcReturns fd (t, "Array") true last = (t, "Single") := by
  have hr : fd.returns = ("Any", "Single") ∧ fd.returnsKnown = true := by
    have : ∀ fd ∈ funcTable, (fd.name = "First" ∨ fd.name = "Last" ∨ fd.name = "Index") → fd.returns = ("Any", "Single") ∧ fd.returnsKnown = true := by decide
    exact this fd hfd hn
  have hne : fd.name ≠ "Select" ∧ fd.name ≠ "AsArray" := by
    rcases hn with h | h | h <;> rw [h] <;> decide
  unfold funcReturns
  simp [hr.1, hr.2, hne.1, hne.2]

#print axioms reports_descriptor_type
#print axioms concrete_rows_not_known
#print axioms element_type_of_typed_list
#print axioms element_type_of_struct_list
#print axioms element_type_after_call
end Mp
