import Mp.DecOps
import Mathlib.Tactic.Ring
import Mathlib.Tactic.FieldSimp
import Mathlib.Tactic.Linarith
import Mathlib.Tactic.Positivity
import Mathlib.Algebra.Order.Field.Rat
import Mathlib.Algebra.Order.Field.Power
/-! Prototype: exactness of the decimal model over ℚ (C04, C05). -/
namespace Mp
namespace Dec

def toRat (d : Dec) : ℚ := d.coef * (10 : ℚ) ^ d.exp

theorem ten_ne : (10 : ℚ) ≠ 0 := by norm_num
theorem ten_pos (e : Int) : (0 : ℚ) < (10 : ℚ) ^ e := by positivity

/-- rescaling to a smaller-or-equal exponent is exact -/
theorem rescale_down (d : Dec) (e : Int) (h : e ≤ d.exp) : (d.rescale e).toRat = d.toRat ∧ (d.rescale e).exp = e := by
  unfold rescale
  by_cases heq : d.exp = e
  · simp [heq]
  · have hlt : ¬ e > d.exp := by omega
    simp only [beq_iff_eq, heq, if_false, hlt]
    refine ⟨?_, trivial⟩
    unfold toRat
    obtain ⟨k, hk⟩ : ∃ k : ℕ, d.exp - e = k := ⟨(d.exp - e).toNat, by omega⟩
    have hd : d.exp = e + k := by omega
    simp only [hk, Int.toNat_natCast]
    rw [hd]
    push_cast
    rw [zpow_add₀ ten_ne, zpow_natCast]
    ring

theorem rescalePair_spec (a b : Dec) :
    let (x, y) := rescalePair a b
    x.toRat = a.toRat ∧ y.toRat = b.toRat ∧ x.exp = y.exp := by
  unfold rescalePair
  by_cases h : a.exp = b.exp
  · simp [h]
  · simp only [beq_iff_eq, h, if_false]
    by_cases hge : a.exp ≥ b.exp
    · have hne : b.exp ≠ a.exp := fun h' => h h'.symm
      simp only [hge, if_true, bne_iff_ne, ne_eq, hne, not_false_eq_true]
      have := rescale_down a b.exp (by omega)
      exact ⟨this.1, trivial, this.2⟩
    · simp only [hge, if_false, bne_iff_ne, ne_eq, not_true_eq_false]
      have := rescale_down b a.exp (by omega)
      exact ⟨trivial, this.1, this.2.symm⟩

theorem add_toRat (a b : Dec) : (a.add b).toRat = a.toRat + b.toRat := by
  have h := rescalePair_spec a b
  unfold add
  generalize rescalePair a b = p at h
  obtain ⟨x, y⟩ := p
  simp only at h ⊢
  obtain ⟨hx, hy, he⟩ := h
  rw [← hx, ← hy]
  unfold toRat
  simp only [he]
  push_cast
  ring

theorem sub_toRat (a b : Dec) : (a.sub b).toRat = a.toRat - b.toRat := by
  have h := rescalePair_spec a b
  unfold sub
  generalize rescalePair a b = p at h
  obtain ⟨x, y⟩ := p
  simp only at h ⊢
  obtain ⟨hx, hy, he⟩ := h
  rw [← hx, ← hy]
  unfold toRat
  simp only [he]
  push_cast
  ring

theorem mul_toRat (a b : Dec) : (a.mul b).toRat = a.toRat * b.toRat := by
  unfold mul toRat
  simp only
  push_cast
  rw [zpow_add₀ ten_ne]
  ring

/-- C05: the decimal comparison is the comparison of the values -/
theorem cmp_spec (a b : Dec) : cmp a b = compare a.toRat b.toRat := by
  have h := rescalePair_spec a b
  unfold cmp
  generalize rescalePair a b = p at h
  obtain ⟨x, y⟩ := p
  simp only at h ⊢
  obtain ⟨hx, hy, he⟩ := h
  rw [← hx, ← hy]
  unfold toRat
  rw [he]
  have hp := ten_pos y.exp
  rcases lt_trichotomy x.coef y.coef with hlt | heq | hgt
  · rw [compare_lt_iff_lt.mpr hlt, eq_comm, compare_lt_iff_lt]
    exact mul_lt_mul_of_pos_right (by exact_mod_cast hlt) hp
  · rw [heq]; simp
  · rw [compare_gt_iff_gt.mpr hgt, eq_comm, compare_gt_iff_gt]
    exact mul_lt_mul_of_pos_right (by exact_mod_cast hgt) hp

/-- C05 coherence corollaries -/
theorem trichotomy (a b : Dec) :
    (cmp a b = .lt ∧ a.toRat < b.toRat) ∨ (cmp a b = .eq ∧ a.toRat = b.toRat) ∨ (cmp a b = .gt ∧ a.toRat > b.toRat) := by
  rw [cmp_spec]
  rcases lt_trichotomy a.toRat b.toRat with h | h | h
  · exact Or.inl ⟨compare_lt_iff_lt.mpr h, h⟩
  · exact Or.inr (Or.inl ⟨compare_eq_iff_eq.mpr h, h⟩)
  · exact Or.inr (Or.inr ⟨compare_gt_iff_gt.mpr h, h⟩)

theorem cmp_repr_independent (a a' b b' : Dec) (ha : a.toRat = a'.toRat) (hb : b.toRat = b'.toRat) : cmp a b = cmp a' b' := by
  rw [cmp_spec, cmp_spec, ha, hb]

example : (add ⟨1, -1⟩ ⟨2, -1⟩) = ⟨3, -1⟩ := by decide      -- 0.1 + 0.2 = 0.3 exactly
example : cmp ⟨10, 0⟩ ⟨100, -1⟩ = .eq := by decide             -- 10 = 10.0

#print axioms add_toRat
#print axioms cmp_spec
end Dec
end Mp
