import Mp.Generated.Facts
import Mp.Generated.FuncTable
import Mp.Parse
import Mp.ProofsRK
import Mp.EscProofs
/-! Tie (a): the facts REGENERATED from /repo's source on every run (Mp.Generated.*) are what the hand-written model and
    the theorems assume. Each lemma is closed by kernel evaluation, so a source change that falsifies a fact fails the
    build at a line that names the fact. -/
namespace Mp.FactChecks
open Mp.Generated

/-! ### C05 / C17: `AnyOf` is "equals one of the arguments" only because numbers are listed before strings before bools -/
theorem params_order : paramsOrder = ["Numbers", "Strings", "Bools"] := by decide

/-! ### C06 / C10: every numeric kind is converted, and the conversion switch covers them all -/
theorem number_kinds : numberKinds = ["Int", "Int8", "Int16", "Int32", "Int64", "Uint", "Uint8", "Uint16", "Uint32", "Uint64", "Float32", "Float64"] := by decide
theorem convert_covers_numbers : ∀ k ∈ numberKinds, k ∈ convertKinds := by decide
theorem convert_follows_indirection : "Pointer" ∈ convertKinds ∧ "Interface" ∈ convertKinds := by decide

/-! ### C19: the kinds `isNil` / `isEmptyValue` look at -/
theorem isNil_kinds : isNilKinds = ["Ptr", "Interface", "Slice", "Map", "Chan", "Func", "Invalid"] := by decide
theorem isEmptyValue_kinds : ∀ k ∈ ["Array", "Map", "Slice", "String", "Bool", "Interface", "Pointer"], k ∈ isEmptyValueKinds := by decide

/-! ### C08: what `Reset` re-installs after `Init`, what the deferred clean-up clears, empty input is rejected -/
theorem reset_restores_pool_mode : resetModeFlags = poolNewModeFlags := by decide
theorem reset_installs_handler : "s.sx.Error" ∈ resetAssignsAfterInit ∧ "s.sx.Mode" ∈ resetAssignsAfterInit := by decide
/-- the pool protocol of `Mp.ConcSys`: Get first, Put as the last deferred statement, no other use of the pool -/
theorem pool_protocol : poolGetFirst = true ∧ poolPutLastInDefer = true ∧
    poolCallSites = ["ParseReadSeeker:Get", "ParseReadSeeker:Put"] := by decide
theorem deferred_clean_up : "s.err" ∈ deferredClears ∧ "s.src" ∈ deferredClears := by decide
theorem parse_rejects_empty : parseRejectsEmpty = true := by decide
theorem invalid_runes : invalidRunes = [39, 34, 40, 41, 91, 93, 123, 125, 64, 36, 38, 46, 44, 61, 62, 60, 124, 33, 59, 47, 42] := by decide

/-! ### C09: the two replacement maps of escape / unescape are the table the round-trip theorems are instantiated with -/
def rulesOfUnescape : List (Nat × Nat) :=
  Mp.Generated.unescapeRules.filterMap fun (r : List Nat × List Nat) => match r with | ([92, c], [o]) => some (c, o) | _ => none
def rulesOfEscape : List (Nat × Nat) :=
  Mp.Generated.escapeRules.filterMap fun (r : List Nat × List Nat) => match r with | ([o], [92, c]) => some (c, o) | _ => none
theorem unescape_rules_are_go_rules : rulesOfUnescape.Perm Esc.goRules := by decide
theorem escape_rules_are_go_rules : rulesOfEscape.Perm Esc.goRules := by decide
theorem all_rules_well_formed : rulesOfUnescape.length = Mp.Generated.unescapeRules.length ∧ rulesOfEscape.length = Mp.Generated.escapeRules.length := by decide

/-! ### C03: the short-circuit table of opLogicalOperation.Do -/
theorem logic_table : logicTable = [("LOT_And", "!b", "false"), ("LOT_Or", "b", "true"), ("LOT_And", "end", "true"), ("LOT_Or", "end", "false")] := by decide
theorem logic_keywords : lotAnd = "And" ∧ lotOr = "Or" := by decide

/-! ### C11: no `Do` method assigns to its receiver -/
theorem do_methods_do_not_write_receiver : receiverWritesInDo = [] := by decide

/-! ### C12 / C16: the caches are touched only by CueValidate, under the mutex; key of each read = key of the write =
    argument of the computing call (the skeleton `Mp.CacheProofs.step` follows) -/
theorem caches_guarded : cueValidateHoldsMutex = true ∧ cacheTouchedBy = ["CueValidate"] := by decide
theorem cache_skeleton : cacheAccesses = [("read", "mpathOpCache", "query", ""), ("write", "mpathOpCache", "query", "op"),
    ("read", "cueValueCache", "cueFile", ""), ("write", "cueValueCache", "cueFile", "rootValue")] := by decide
theorem cache_values_are_functions_of_their_keys : cacheComputes = [("op", "ParseString", "query"), ("rootValue", "ctx.CompileString", "cueFile")] := by decide
theorem shared_writes_only_in_CueValidate : packageVarWrites = ["cueValueCache in CueValidate", "mpathOpCache in CueValidate"] := by decide
theorem package_state : packageVars = ["ErrKeyNotFound", "cueValidateMutex", "cueValueCache", "decimalType", "funcMap", "functionTypeByName", "invalidRunes", "mpathOpCache", "scannerPool"] := by decide

/-! ### C15: the closure loop uses a visited set, no goto; the base paths -/
theorem closure_shape : closureUsesVisitedSet = true ∧ closureUsesGoto = false := by decide
theorem base_paths : validFields = ["<current>", "_connections", "_input", "_metadata", "_secrets", "_variables", "connections", "input", "metadata", "secrets", "variables"] := by decide
theorem dependencies_field : bpDependencies = "_dependencies" := by decide

/-! ### C20: GetRootFieldsAccessed descends into path- and group-valued arguments -/
theorem root_fields_param_kinds : rootFieldsParamKinds = ["FP_LogicalOperation", "FP_Path"] := by decide

/-! ### C07 / C14: every published function is bound to its own implementation, is known to the parser model, and the
    return-kind lists proved in Mp.ProofsRK agree with the published descriptors -/
theorem binding_is_diagonal : funcBinding.map (·.2.1) = funcBinding.map (·.1) ∧
    funcBinding.map (·.2.2) = funcTable.map (fun fd => "func_" ++ fd.name) := by decide
theorem table_matches_binding : funcTable.map (fun fd => "FT_" ++ fd.name) = funcBinding.map (·.1) := by decide
theorem published_functions_are_known : ∀ fd ∈ funcTable, fd.name ∈ Mp.knownFuncs := by decide
theorem known_functions_are_published : ∀ n ∈ Mp.knownFuncs, n ∈ funcTable.map (·.name) := by decide
theorem returnsBoolean_published : ∀ n ∈ Mp.returnsBoolean, ∃ fd ∈ funcTable, fd.name = n ∧ fd.returns = ("Boolean", "Single") := by decide
theorem returnsNumber_published : ∀ n ∈ Mp.returnsNumber, ∃ fd ∈ funcTable, fd.name = n ∧ fd.returns = ("Number", "Single") := by decide
theorem returnsString_published : ∀ n ∈ Mp.returnsString, ∃ fd ∈ funcTable, fd.name = n ∧ fd.returns = ("String", "Single") := by decide

/-! axiom audit (one line per theorem: a theorem that no longer checks is missing from the output) -/
#print axioms params_order
#print axioms number_kinds
#print axioms convert_covers_numbers
#print axioms convert_follows_indirection
#print axioms isNil_kinds
#print axioms isEmptyValue_kinds
#print axioms reset_restores_pool_mode
#print axioms reset_installs_handler
#print axioms deferred_clean_up
#print axioms parse_rejects_empty
#print axioms invalid_runes
#print axioms unescape_rules_are_go_rules
#print axioms escape_rules_are_go_rules
#print axioms all_rules_well_formed
#print axioms logic_table
#print axioms logic_keywords
#print axioms do_methods_do_not_write_receiver
#print axioms pool_protocol
#print axioms caches_guarded
#print axioms cache_skeleton
#print axioms cache_values_are_functions_of_their_keys
#print axioms shared_writes_only_in_CueValidate
#print axioms package_state
#print axioms closure_shape
#print axioms base_paths
#print axioms dependencies_field
#print axioms root_fields_param_kinds
#print axioms binding_is_diagonal
#print axioms table_matches_binding
#print axioms published_functions_are_known
#print axioms known_functions_are_published
#print axioms returnsBoolean_published
#print axioms returnsNumber_published
#print axioms returnsString_published
end Mp.FactChecks
