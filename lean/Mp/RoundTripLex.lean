import Mp.Print
import Mp.ParseProofs
/-! C09 — lexer side of the print/parse round trip (see Mp/RoundTrip.lean): scanner states by their unread input, the look-ahead
    step on ASCII input, the first Peek, the identifier loop, and the tokens `$ . ( )`, identifiers and the end of the input. -/
namespace Mp

/-- the scanner state whose unread input (look-ahead included) is `bs`, with token text `tok` collected so far -/
def mkS (tok : Bytes) (errs : Nat) : Bytes → Sc
  | [] => { ch := -1, chRaw := [], rest := [], errs := errs, tok := tok }
  | b :: t => { ch := (b.toNat : Int), chRaw := [b], rest := t, errs := errs, tok := tok }

/-- ASCII, not NUL -/
def Asc (bs : Bytes) : Prop := ∀ b ∈ bs, b.toNat < 128 ∧ b.toNat ≠ 0

theorem decodeRune_ascii (b : UInt8) (t : Bytes) (h : b.toNat < 128) : decodeRune (b :: t) = (b.toNat, 1, false) := by
  unfold decodeRune
  simp [h]

theorem next_ascii (s : Sc) (c : UInt8) (t : Bytes) (hr : s.rest = c :: t) (h1 : c.toNat < 128) (h0 : c.toNat ≠ 0) :
    s.next = { ch := (c.toNat : Int), chRaw := [c], rest := t, errs := s.errs, tok := s.tok ++ s.chRaw } := by
  unfold Sc.next
  rw [hr]
  simp [decodeRune_ascii c t h1, h0]

theorem next_eof (s : Sc) (hr : s.rest = []) : s.next = { s with ch := -1, chRaw := [], tok := s.tok ++ s.chRaw } := by
  unfold Sc.next
  rw [hr]

/-- stepping over the look-ahead: it joins the token text, the next byte becomes the look-ahead -/
theorem mkS_next (tok : Bytes) (e : Nat) (b : UInt8) (t : Bytes) (ht : Asc t) :
    (mkS tok e (b :: t)).next = mkS (tok ++ [b]) e t := by
  cases t with
  | nil => rw [next_eof _ rfl]; simp [mkS]
  | cons c t' =>
    have hc := ht c (by simp)
    rw [next_ascii _ c t' rfl hc.1 hc.2]
    simp [mkS]

theorem asc_tail {b : UInt8} {t : Bytes} (h : Asc (b :: t)) : Asc t := fun x hx => h x (List.mem_cons_of_mem _ hx)
theorem asc_append_right {a b : Bytes} (h : Asc (a ++ b)) : Asc b := fun x hx => h x (List.mem_append_right _ hx)

/-- the first Peek of a fresh scanner -/
theorem peekInit_init (bs : Bytes) (h : Asc bs) : (Sc.init bs).peekInit = mkS [] 0 bs := by
  cases bs with
  | nil => simp [Sc.init, Sc.peekInit, Sc.next, mkS]
  | cons b t =>
    have hb := h b (by simp)
    have hn : ({ (Sc.init (b :: t)) with chRaw := [] } : Sc).next = mkS [] 0 (b :: t) := by
      rw [next_ascii _ b t rfl hb.1 hb.2]
      simp [mkS, Sc.init]
    have hbom : ((b.toNat : Int) == 0xFEFF) = false := by
      have : b.toNat < 128 := hb.1
      simp; omega
    unfold Sc.peekInit
    simp only [Sc.init] at hn ⊢
    simp only [beq_self_eq_true, if_true, hn]
    simp [mkS, hbom]

theorem peekInit_mkS (tok : Bytes) (e : Nat) (bs : Bytes) : (mkS tok e bs).peekInit = mkS tok e bs := by
  cases bs with
  | nil => simp [mkS, Sc.peekInit]
  | cons b t =>
    simp only [mkS, Sc.peekInit]
    have : ((b.toNat : Int) == -2) = false := by simp
    simp [this]

/-- a byte the scanner takes into an identifier: ASCII, not NUL, an identifier rune, not white space -/
structure IdB (T : Tables) (b : UInt8) : Prop where
  asc : b.toNat < 128
  nz : b.toNat ≠ 0
  ident : isIdentRune T (b.toNat : Int) = true
  notWs : isWs (b.toNat : Int) = false

/-- a byte that can stand in a key: such a byte, and not the `?` mark -/
structure KeyByte (T : Tables) (b : UInt8) : Prop extends IdB T b where
  notMark : b.toNat ≠ 63

def Key (T : Tables) (k : Bytes) : Prop := k ≠ [] ∧ ∀ b ∈ k, KeyByte T b

/-- the scanner stops an identifier here: end of input, or a byte that is not an identifier rune -/
def StopAt (T : Tables) : Bytes → Prop
  | [] => True
  | c :: _ => isIdentRune T (c.toNat : Int) = false ∧ isWs (c.toNat : Int) = false

theorem skipWs_noop (s : Sc) (n : Nat) (h : isWs s.ch = false) : skipWs (n + 1) s = s := by
  unfold skipWs
  simp [h]

theorem isWs_eof : isWs (-1) = false := by decide

/-- `sxPrep` on a state whose look-ahead is not white space: only the token text is reset -/
theorem sxPrep_mkS (tok : Bytes) (e : Nat) (bs : Bytes) (h : match bs with | [] => True | b :: _ => isWs (b.toNat : Int) = false) :
    sxPrep (mkS tok e bs) = mkS [] e bs := by
  unfold sxPrep
  rw [peekInit_mkS]
  cases bs with
  | nil =>
    have : isWs (mkS tok e []).ch = false := isWs_eof
    simp only []
    rw [skipWs_noop _ _ this]
    rfl
  | cons b t =>
    have : isWs (mkS tok e (b :: t)).ch = false := h
    simp only []
    rw [skipWs_noop _ _ this]
    rfl

theorem sxPrep_init (bs : Bytes) (ha : Asc bs) (h : match bs with | [] => True | b :: _ => isWs (b.toNat : Int) = false) :
    sxPrep (Sc.init bs) = mkS [] 0 bs := by
  unfold sxPrep
  rw [peekInit_init bs ha]
  cases bs with
  | nil =>
    have : isWs (mkS [] 0 []).ch = false := isWs_eof
    simp only []
    rw [skipWs_noop _ _ this]
    rfl
  | cons b t =>
    have : isWs (mkS [] 0 (b :: t)).ch = false := h
    simp only []
    rw [skipWs_noop _ _ this]
    rfl

/-- the identifier loop takes the whole run of key bytes and stops at the first byte that is not one -/
theorem scanIdent_run (T : Tables) : ∀ (run : Bytes) (tok : Bytes) (e : Nat) (rest : Bytes) (fuel : Nat),
    (∀ b ∈ run, IdB T b) → StopAt T rest → Asc (run ++ rest) → run.length < fuel →
    scanIdent T fuel (mkS tok e (run ++ rest)) = mkS (tok ++ run) e rest := by
  intro run
  induction run with
  | nil =>
    intro tok e rest fuel _ hs _ hf
    cases fuel with
    | zero => omega
    | succ f =>
      unfold scanIdent
      cases rest with
      | nil => simp [mkS, isIdentRune]
      | cons c t =>
        simp only [List.nil_append, List.append_nil]
        have hc : isIdentRune T (mkS tok e (c :: t)).ch = false := hs.1
        simp [hc]
  | cons b run ih =>
    intro tok e rest fuel hk hs ha hf
    cases fuel with
    | zero => omega
    | succ f =>
      unfold scanIdent
      simp only [List.cons_append]
      have hb : isIdentRune T (mkS tok e (b :: (run ++ rest))).ch = true := (hk b (by simp)).ident
      simp only [hb, if_true]
      rw [mkS_next tok e b (run ++ rest) (asc_tail ha)]
      rw [ih (tok ++ [b]) e rest f (fun x hx => hk x (List.mem_cons_of_mem _ hx)) hs (asc_tail ha) (by simp at hf; omega)]
      simp

/-- what the tables must say about the two punctuation marks of a key path -/
structure PunctOK (T : Tables) : Prop where
  dollar : T.isPrint 36 = true
  dot : T.isPrint 46 = true

theorem not_ident_36 (T : Tables) : isIdentRune T 36 = false := by
  have : (36 : Nat) ∈ invalidRunes := by decide
  simp [isIdentRune, this]

theorem not_ident_46 (T : Tables) : isIdentRune T 46 = false := by
  have : (46 : Nat) ∈ invalidRunes := by decide
  simp [isIdentRune, this]

theorem stopAt_dot (T : Tables) (t : Bytes) : StopAt T (46 :: t) := ⟨not_ident_46 T, by decide⟩

/-- an identifier token -/
theorem scan_ident (T : Tables) (s : Sc) (e : Nat) (b : UInt8) (k rest : Bytes)
    (hprep : sxPrep s = mkS [] e (b :: k ++ rest)) (hk : ∀ x ∈ b :: k, IdB T x) (hs : StopAt T rest) (ha : Asc (b :: k ++ rest)) :
    scan T s = (.ident, mkS (b :: k) e rest) := by
  unfold scan mScan sxScan
  rw [hprep]
  unfold sxBody
  simp only [List.cons_append]
  have hb : isIdentRune T (mkS [] e (b :: (k ++ rest))).ch = true := (hk b (by simp)).ident
  simp only [hb, if_true]
  rw [mkS_next [] e b (k ++ rest) (asc_tail ha)]
  rw [scanIdent_run T k ([] ++ [b]) e rest _ (fun x hx => hk x (List.mem_cons_of_mem _ hx)) hs (asc_tail ha) (by simp [mkS]; omega)]
  simp

/-- the `$` token -/
theorem scan_dollar (T : Tables) (hT : PunctOK T) (s : Sc) (e : Nat) (t : Bytes) (hprep : sxPrep s = mkS [] e (36 :: t)) (ha : Asc t) :
    scan T s = (.rune 36, mkS [36] e t) := by
  unfold scan mScan sxScan
  rw [hprep]
  unfold sxBody
  have h1 : isIdentRune T 36 = false := not_ident_36 T
  have hc : (mkS [] e (36 :: t)).ch = 36 := rfl
  have hn := mkS_next [] e 36 t ha
  simp only [List.nil_append] at hn
  simp only [hc, hn]
  simp [h1, hT.dollar]

/-- the `.` token -/
theorem scan_dot (T : Tables) (hT : PunctOK T) (s : Sc) (e : Nat) (t : Bytes) (hprep : sxPrep s = mkS [] e (46 :: t)) (ha : Asc t) :
    scan T s = (.rune 46, mkS [46] e t) := by
  unfold scan mScan sxScan
  rw [hprep]
  unfold sxBody
  have h1 : isIdentRune T 46 = false := not_ident_46 T
  have hc : (mkS [] e (46 :: t)).ch = 46 := rfl
  have hn := mkS_next [] e 46 t ha
  simp only [List.nil_append] at hn
  simp only [hc, hn]
  simp [h1, hT.dot]

/-- the end of the input -/
theorem scan_eof (T : Tables) (s : Sc) (e : Nat) (hprep : sxPrep s = mkS [] e []) : scan T s = (.eof, mkS [] e []) := by
  unfold scan mScan sxScan
  rw [hprep]
  unfold sxBody
  simp [mkS, isIdentRune]

/-- what the tables must say about the parentheses of a call -/
structure ParenOK (T : Tables) : Prop where
  lp : T.isPrint 40 = true
  rp : T.isPrint 41 = true

theorem not_ident_40 (T : Tables) : isIdentRune T 40 = false := by
  have : (40 : Nat) ∈ invalidRunes := by decide
  simp [isIdentRune, this]

theorem not_ident_41 (T : Tables) : isIdentRune T 41 = false := by
  have : (41 : Nat) ∈ invalidRunes := by decide
  simp [isIdentRune, this]

theorem scan_lparen (T : Tables) (hp : ParenOK T) (s : Sc) (e : Nat) (t : Bytes) (hprep : sxPrep s = mkS [] e (40 :: t)) (ha : Asc t) :
    scan T s = (.rune 40, mkS [40] e t) := by
  unfold scan mScan sxScan
  rw [hprep]
  unfold sxBody
  have h1 : isIdentRune T 40 = false := not_ident_40 T
  have hc : (mkS [] e (40 :: t)).ch = 40 := rfl
  have hn := mkS_next [] e 40 t ha
  simp only [List.nil_append] at hn
  simp only [hc, hn]
  simp [h1, hp.lp]

theorem scan_rparen (T : Tables) (hp : ParenOK T) (s : Sc) (e : Nat) (t : Bytes) (hprep : sxPrep s = mkS [] e (41 :: t)) (ha : Asc t) :
    scan T s = (.rune 41, mkS [41] e t) := by
  unfold scan mScan sxScan
  rw [hprep]
  unfold sxBody
  have h1 : isIdentRune T 41 = false := not_ident_41 T
  have hc : (mkS [] e (41 :: t)).ch = 41 := rfl
  have hn := mkS_next [] e 41 t ha
  simp only [List.nil_append] at hn
  simp only [hc, hn]
  simp [h1, hp.rp]

theorem lparen_bytes : (String.singleton (Char.ofNat 40)).toUTF8.toList = [40] := by with_unfolding_all decide


end Mp
